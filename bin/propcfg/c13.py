prop("C13", pkg="c13",
     rule="Each rapid case is one of: 'wseq' (18%) - 2-7 items written one after the other on ONE Writer: message headers (several per sequence, the last item always "
          "one, seqids up to 2^31-1) interleaved with values whose fixed-width big-endian bytes are all non-zero (i16/i32/i64/double patterns such as 0x12345678), strings of "
          "length 256..74565 (2- and 3-byte lengths) and small random trees, the whole byte stream compared with the concatenated thriftspec bytes (catches state leaking "
          "between calls through the Writer's scratch buffer); 'writer' (18%) - a random content tree (struct body with ascending positive ids from the seven gap classes, every thrift type, "
          "containers of 0/1/2/3/14/15/16/127/128 elements, integers at every zig-zag/width boundary, special doubles, strings up to 4660 bytes and a small share of 65537 / 70000 / 131073 bytes (values, elements, map keys; in every case kind), optional message header "
          "with types Call..Oneway, seqids at varint boundaries) rendered through the package's Writer methods with the struct encoder's calling convention and compared "
          "byte-for-byte with harness/thriftspec; 'marshal' (27%) - Marshal of a tgen struct value vs thriftspec's encoding of the content read off the value by "
          "reflection (values with multi-entry maps: thriftspec-decoded, compared as content and re-encoded to the same bytes); 'readers' (18%) - thriftspec bytes with "
          "long field/list headers where a short form exists, rotated/reversed field order, the other binary message-header form and (compact) BOOL announced as 1 instead "
          "of 2 as element type of lists/sets and key/value type of maps - the compact specification requires readers to accept both, and HEAD does for lists, sets, "
          "skipped fields and the Reader methods - read back through the Reader "
          "methods; 'unmarshal' (18%) - the same alternatives given to Unmarshal of a tgen type, in a third of the cases with an additional field the type does not declare put first on "
          "the wire (any thrift type incl. bool collections announced as 1), which a conformant reader skips. Protocol: binary strict 25%, non-strict 25%, compact 50%. Each clause "
          "of the specification that the library is listed (known_findings.json, status known) to deviate from is replaced, on the expected side only, by the library's "
          "variant (thriftspec.Dialect) so that all other clauses stay compared, and every case whose bytes depend on it is counted in excluded_known. Of the seven "
          "deviations found six are repaired in /repo (listed fixed, compared against the unmodified specification, witnesses run as regression cases); only "
          "KF-C13-005 (binary type ids) is still known and normalised, and KF-C13-008 (Unmarshal mis-decodes a declared map whose BOOL key/value type is announced as 1) is known: "
          "such maps are not fed to Unmarshal while it is listed (counted in excluded_known). "
          "Thorough tier only: a native go fuzzing campaign FuzzThriftSpecDiff(data) of 60 s on 16 workers: data[0] selects the protocol and one of 8 static target struct types "
          "(all scalar types; nested lists/sets/maps; nested, pointer-to and recursive structs and containers of structs; required/optional/enum; unions; sparse ids up to "
          "32767; embedding chains; 70 fields), the rest is decoded by thriftspec in strict mode (shortest-form varints, bool bytes 0/1; element type BOOL as 1 or 2) and "
          "matched against the target's schema; if it is a conformant encoding of a value of that type (no repeated ids/keys, no NaN keys, required fields present, enums "
          "in range, at most one union member) Unmarshal must accept it and yield that value, and Marshal of the result must be a specification encoding of its content; "
          "otherwise only no panic and <= 64 MiB allocated. Seeds: canonical and long-form/reordered thriftspec encodings of 3 generated values per (target, protocol) plus "
          "hostile sizes, type bytes and ids (173 inputs, also run in both tiers as TestFuzzSpecSeeds, where the KF-C13-005 exclusions are counted). "
          "The wseq (read back through one Reader), readers and unmarshal (then through a Decoder) cases draw a delivery schedule for the io.Reader under the thrift Reader: all at once, one byte per Read, halves, chunks of 1..7 bytes, a 16-byte bufio.Reader, last chunk returned together with io.EOF - every conformant encoding is accepted however it arrives. Non-trivial = content with >= 1 container or >= 3 fields, or a sequence of >= 3 items; distinct = FNV-64 of the serialised case.",
     quick=dict(shards=16, scale=1, timeout=600),
     thorough=dict(shards=16, scale=3, timeout=3000),
     fuzz=[("FuzzThriftSpecDiff", 60)],
     technique="differential property-based testing (rapid) against a transcription of the Apache Thrift binary and compact protocol specifications "
               "(encoder and decoder written in the harness, not sharing code with the library); coverage-guided native go fuzzing of Unmarshal/Marshal against "
               "the reference decoder in the thorough tier",
     level_text="Exploration: ~0.8 M cases per quick run (~2.4 M thorough plus a 60 s native fuzzing campaign, ~2 M execs); Writer and Marshal output must equal the specification's bytes and every generated conformant alternative "
                "encoding must be read back to the same content by the Reader methods and by Unmarshal. Deviations already listed are normalised clause by clause and "
                "counted; any other byte difference is reported with the shrunk content tree, observed and expected bytes.",
     level_note="Trusted base: harness/thriftspec, my reading of thrift-binary-protocol.md and thrift-compact-protocol.md, limited to the clauses the property statement "
                "names (type ids, endianness, zig-zag ULEB128, field/list/map/message headers, one-byte STOP). The byte of a false bool element in a compact collection "
                "is not asserted (0 and 2 both accepted). Message seqids are non-negative. Writer calls follow the struct encoder's convention (Delta for 1..15, absolute "
                "above; an absolute id <= 15 is never requested).",
     assumptions=["harness/thriftspec is a faithful transcription of the two specifications for the clauses listed in DESIGN.md section 3 (R-THRIFT)",
                  "the logical content of a struct value is: fields by ascending id, nil pointers and Go zero values of non-required fields absent, enum fields as i32",
                  "while a clause is listed as a known deviation the library is fed its own variant of that clause in the reader direction (it cannot read what it does not write)"])
