prop("C08", pkg="c08",
     rule="Each rapid case is either (90%) a target: a tgen struct type, a value, a protocol (binary strict / non-strict / compact), 1-3 random content trees used as "
          "undeclared fields (every thrift type, nesting <= 3; one in four is a collection of bools - list<bool>, set<bool>, map<bool,X>, map<X,bool>, alone or nested in a list, a map "
          "value or a struct - and in the compact protocol the BOOL element/key/value type of any inserted collection is announced as 1 instead of 2 half of the time, both being "
          "conformant and skipped by HEAD; ids: any int16 no struct of the type declares - 0 (11 %), negative, next to a declared id (+-1, +-2; 22 %), "
          "around the 64/128 bitmap words, arbitrary), 0-3 random byte strings, 0-6 byte "
          "flips and 1-3 trailing bytes - from which the probes are derived deterministically: the valid encoding (rendered through the package's own Writer), "
          "EVERY proper prefix through Unmarshal (and every third through a Decoder over bytes.Reader / bytes.Buffer / bufio / plain / one-byte readers), every "
          "list/set/map/string header with its count replaced by -1, -2^31, n-1, n+1, 2^24, 2^31-1, 2^31, 2^35, 2^63, every field header with 2 other type codes "
          "and 3 other ids, the flipped and random inputs, the unknown fields inserted at every field boundary of every struct node, top level and nested (<= 80 per case), "
          "on every second of these encodings the header-count mutations again, applied to the lists, sets, maps and strings INSIDE the undeclared field (the skip path: count "
          "-1, -2^31, N+1, 2^24, 2^31-1, and 2^31 / 2^35 in compact; a negative or oversized count must be rejected there too), "
          "and on EACH of these encodings the truncation family again (cut exactly before the inserted field, <= 32 cuts inside it, the cut exactly after it, the cut that "
          "drops only the final STOP - through Unmarshal and a Decoder - and every proper prefix for each sixth insertion: plain io.EOF only for the empty input), the trailing "
          "bytes, every required field removed in turn, and every field (and non-empty container element type) replaced by another wire type under strict mode; "
          "or (10%) Reader method calls: 1-12 random calls on random bytes or (a third) a crafted list / set / map / string header announcing -1, -2, -2^31, 2^24, 2^31-1, 2^31 "
          "or 2^35 directly in front of ReadList / ReadSet / ReadMap / ReadBytes / ReadString / ReadLength - a negative or beyond-MaxInt32 announcement must be an error, and no "
          "call may ever hand out a negative size or a value longer than the input; or (~1.1%) a 'bigstr' case: a string or []byte of 65537, 70000 or 131073 bytes (the readers take "
          "lengths above 64 KiB incrementally) as top-level Unmarshal target, as last element of a top-level list, as last field of a struct, or read through "
          "Reader.ReadString / ReadBytes, both protocols, cut inside the length prefix, 0 and 1 byte into the body, at the 64 KiB marks of the body, in its middle, 1 byte "
          "before its end and 1 byte before the end of the input - each cut through Unmarshal and a Decoder over the different io.Reader kinds - and every cut must give an "
          "unexpected-EOF class error; or (~1.6%) a 'bigcount' case: a list (of bool, i8, i16, i32, i64, double, string or struct), set or map (keys i16/i32/i64/"
          "string) that REALLY holds 1025, 1100, 2048, 2049 or 5000 elements - more than the 1024 the decoder allocates up front - at the top level or nested in a struct, a "
          "pointer-to struct, a list or a map, binary and compact, whose announced count is then inflated to N+1, 4N, 1000N, 2^26 and 2^31-1 (also on an encoding cut in the "
          "middle of the elements): each decode must be rejected and is measured on its own against the bytes available. Thorough tier only: a native go fuzzing campaign FuzzThriftDecode(data, sel, proto) of 90 s on 16 "
          "workers over 20 static target types (all scalar kinds, nested lists/sets/maps, nested and pointer-to structs, the recursive corpus type, embedding chains 1-3 "
          "levels deep, unions incl. as list/map elements, required/optional/enum fields, id ranges beyond 64 and up to 32767, 70 fields) x 3 protocols, seeded with ~390 "
          "inputs (valid encodings of two values per target and protocol, their truncations, hostile sizes -1 / -2^31 / 2^24 / 2^31-1, type bytes 0 and 13..16, ids 0, -1, "
          "32767), with the clauses that apply to arbitrary bytes as in-process oracle (no panic/fault under recover + SetPanicOnFault, TotalAlloc delta <= 64 MiB for "
          "inputs <= 4 KiB, and for accepted inputs: + trailing byte => error, + an undeclared field before the final STOP => same value); the seed corpus is also run in "
          "both tiers (TestFuzzSeeds). All library calls run in a supervised worker process under RLIMIT_AS (16 GiB from the driver, "
          "4 GiB self-imposed in the worker); allocation is the runtime.MemStats.TotalAlloc delta, measured per probe group and per call when a group exceeds 64 MiB; the bound per call is 64 MiB for inputs up to 4 KiB and max(64 MiB, 1024 x input length) above. "
          "All six defects found (KF-C08-001..006) are repaired in /repo and listed as fixed, so every probe above is generated and their witnesses run as regression "
          "cases; the avoidance of probes that would only re-trigger a defect (negative counts, counts 2^24..2^31-1, binary cut offsets inside fixed-width items) and the "
          "exclusion of matching failures are kept in the code but are active only for an entry whose status is 'known' (then "
          "counted in excluded_known). evaluations = library decode calls (probes). Non-trivial = prefix of length > 0, any count mutation, flip, insertion not at the very "
          "first boundary, trailing/missing/mismatch probe; distinct = FNV-64 of (type descriptor, protocol, probe group, input bytes).",
     quick=dict(shards=16, scale=1, timeout=900),
     thorough=dict(shards=16, scale=6, timeout=3000),
     vlimit_gb=16,
     fuzz=[("FuzzThriftDecode", 90)],
     technique="property-based testing (rapid) + exhaustive prefix/header-mutation enumeration per generated encoding, validity and metamorphic oracles, "
               "out-of-process supervision with address-space limit and stall watchdog; coverage-guided native go fuzzing (thorough tier) with the oracle inside the target",
     level_text="Exploration: ~14 M decode calls per quick run (~85 M thorough plus a 90 s native fuzzing campaign, ~1 M execs): no panic or fatal fault; every proper prefix of a valid encoding gives errors.Is(err, io.ErrUnexpectedEOF) "
                "(io.EOF for empty input); negative / oversized counts give an error; TotalAlloc delta <= 64 MiB for inputs <= 4 KiB; undeclared fields of any type and "
                "nesting leave the decoded value unchanged; trailing bytes, missing required fields (*MissingField) and strict-mode wire type changes (*TypeMismatch) are "
                "reported, the latter two with errors.As and, for MissingField, the id of the missing field. A call on a <= 4 KiB input that has not returned after 20 s "
                "is reported as a totality violation (class stall). A violation is reported with the case and the probe id.",
     level_note="Trusted base: harness/tgen (types, values, Writer-based renderer with header offsets) and the worker supervision in harness/c08. Clause (b) is asserted only "
                "for prefixes of valid encodings; non-strict handling of a wrong wire type is checked for totality only. A worker killed by a signal without a Go runtime "
                "report (e.g. the driver's time limit killing the process group) is recorded as not judged, never as a violation; a driver time-out is INCONCLUSIVE (exit 2).",
     assumptions=["a valid encoding is what the package's own Writer produces for the value's logical content (enum fields as i32)",
                  "every thrift element occupies at least one byte, so a count above the remaining input can only be rejected",
                  "allocation bound: 64 MiB per call for inputs <= 4 KiB (DESIGN C07/C08); hostile sizes used are >= 2^24",
                  "'total' includes returning: 20 s without return on an input of at most 4 KiB is a violation (a million times the normal duration, beyond any load effect)"])
