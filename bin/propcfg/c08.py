prop("C08", pkg="c08",
     rule="TODO",
     quick=dict(shards=16, scale=1, timeout=900),
     thorough=dict(shards=16, scale=10, timeout=3000),
     vlimit_gb=16,
     technique="TODO", level_text="TODO", level_note="TODO", assumptions=[])
