prop("C14", pkg="c14",
     rule="rapid-generated (type, value, AppendFlags subset, ParseFlags subset, by value/pointer, flag API or setter API): (1) error presence equals that of "
          "the default flags; (2) output passes encoding/json.Valid and decodes (UseNumber, into any) to the same generic value as the default output, maps "
          "compared as maps; (3) EscapeHTML off + SortMapKeys on: bytes equal the standard Encoder with SetEscapeHTML(false); (4) where encoding/json itself "
          "round-trips the value, Parse(output, subset of DontCopy*/DontMatchCaseInsensitiveStructFields) restores a deeply equal value; specialised and "
          "generic map types with values failing half-way under all 8 flag subsets; (5) number literals into interfaces under all 16 subsets of UseNumber/"
          "UseBigInt/UseInt64/UseUint64: dynamic type by the documented precedence and exact numeric value (literals: fixed boundary values, any int64 / uint64 / float64, and composed "
          "integers of 17..23 digits - every 20-digit value above 2^64, not only the ones next to it). TrustRawMessage only with valid raw messages. "
          "Non-trivial = flags differ from the default and the type has a map, RawMessage, string or interface (numbers: any flag set); distinct = FNV-64 of the case.",
     quick=dict(shards=16, scale=1.5, timeout=900),
     thorough=dict(shards=16, rounds=8, scale=1.5, timeout=3000),
     fuzz=[('FuzzAppendFlags', 60)],
     technique="rapid property-based metamorphic testing over flag subsets (default-flag output, encoding/json generic decode, literal numeric value as oracles)",
     level_text="Exploration: metamorphic relations between flag settings checked on a few hundred thousand generated values per quick run, all 8 AppendFlags "
                "subsets and 8 representative ParseFlags subsets drawn uniformly, all 16 number-flag subsets for every literal.",
     level_note="Trusted base: encoding/json (Valid, generic decode, Encoder with SetEscapeHTML(false), its own round trip as the applicability test for relation 4), math/big, strconv.",
     assumptions=["the default-flag output is the reference for meaning (its agreement with encoding/json is C01)",
                  "relation (4) is only asserted for values that encoding/json itself round-trips (nil/empty relaxed)"])
