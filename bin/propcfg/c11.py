prop("C11", pkg="c11",
     rule="rapid-generated (stream, schedule): 1..200 values (scalars, strings with every escape, containers, numbers of 10..60 digits, strings and arrays larger "
          "than 4 KiB / 32 KiB / 64 KiB) separated by 0..40 whitespace bytes, with boundary aiming (a chosen value is padded to start at, end at, straddle or lie "
          "within 12 bytes of offsets 4096k / 32768j, or a whitespace run fills a whole buffer); chunk schedules from {0,1,2,3,7,13,100,1000,4095,4096,4097,32767,"
          "32768,1M} with <= 3 consecutive zero-length reads, final chunk delivered with or before the error, terminal error io.EOF / io.ErrUnexpectedEOF / custom at "
          "any offset (1/3 of cases, half of them inside a value). Oracle: encoding/json.Decoder on the delivered bytes in one read (RawMessage or any+UseNumber); "
          "InputOffset monotone and within [end of value, start of next]; Buffered()+unread remainder == unconsumed input; Parse remainder (into RawMessage, into "
          "typed targets the first value does not fit, and - ParseRemainder - for jgen-generated target types x directed / generic documents that encoding/json.Valid "
          "accepts, followed by 0..3 whitespace bytes and a tail from {nothing, another value, a stray bracket / comma / letter / NUL}: whether the value fits "
          "or Parse reports that it does not, the remainder is exactly the tail). Non-trivial = >= 2 values and a value crossing a 4096-byte boundary, or a "
          "well-formed first value that does not fit the typed target; distinct = FNV-64 of (stream, schedule, fault) / (document, type, tail).",
     quick=dict(shards=16, scale=1, timeout=900),
     thorough=dict(shards=16, scale=14, timeout=3000),
     fuzz=[('FuzzStreams', 60)],
     technique="rapid property-based differential testing against encoding/json.Decoder with generated chunk schedules and injected reader faults",
     level_text="Exploration with fault injection: tens of thousands of (stream, chunk schedule, reader fault) triples per quick run, streams built so that tokens "
                "land on the decoder's 4 KiB read quantum and 32 KiB buffer boundaries; a framing bug that needs one particular alignment is found when the aiming "
                "hits it (the label histogram reports how often each aim was produced).",
     level_note="Trusted base: encoding/json.Decoder as the reference for the value sequence; the schedule reader in harness/c11 (sticky error, io.Reader contract).",
     assumptions=["streams consist of valid values only, so any error before the end of the delivered bytes must be the reader's",
                  "after a non-EOF reader failure the library may return any prefix of the reference values before the error"])
