prop("C02", pkg="c02",
     rule="rapid-generated (target type, prior target state, history of 1-4 documents, entry point) tuples: types as in C01 (reflect-composed + static "
          "corpus incl. Unmarshaler/TextUnmarshaler types); documents type-directed (fitting values with width-boundary integer literals, nulls, wrong "
          "kinds, unknown / case- and Unicode-fold-perturbed keys, quoted forms for ,string), mutated, truncated or generic; entry points Unmarshal, "
          "Parse(flags 0), Decoder.Decode with UseNumber x DisallowUnknownFields; two identically built targets, one per library. Oracle: error presence "
          "equal at every step, R-DEEPEQ of the targets after each accepted document; history stops at the first rejected document. Unescape/AppendUnescape "
          "vs decoding the literal. NestingLimit: documents nested 10000 / 10001 (thorough 9999..10002) deep in 4 shapes into 14 targets with "
          "object / array decoders of their own (any, map[string]any / RawMessage / string / []string / bool, slices, a struct field, a recursive type). Reading "
          "the library's target runs with SetPanicOnFault (a wild pointer left by a decode is a violation of the case, not a dead process; the case in flight "
          "is journalled all the same). Non-trivial = accepted with a non-zero result, or both rejected a document of >= 8 bytes; distinct = FNV-64 of "
          "(type, documents, entry point, flags, prepopulated).",
     quick=dict(shards=16, scale=1, timeout=900),
     thorough=dict(shards=16, rounds=6, scale=1.2, timeout=3000),
     fuzz=[('FuzzUnmarshalDiff', 120)],
     builds=[dict(name="default", tags=[], race=False), dict(name="purego", tags=["purego"], race=False, thorough_only=True)],
     technique="rapid property-based differential testing against encoding/json over target types x document histories x decoder settings",
     level_text="Exploration: randomised stateful differential testing against encoding/json (several hundred thousand document decodes per quick run); "
                "finds acceptance or value differences that need a particular target shape, prior state or literal only if the generator reaches them; "
                "the label histogram shows accept/reject balance and document classes.",
     level_note="Trusted base: encoding/json of go1.23.5, the deep-equality walker jgen.DeepEqual, reflect-built types and the static corpus.",
     assumptions=["encoding/json (go1.23.5) is the reference", "error messages/types and target content after a failed decode are not compared",
                  "time.Duration targets are outside the differential domain"])
