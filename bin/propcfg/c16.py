prop("C16", pkg="c16", level="fault_enumeration",
     rule="rapid draws a message type and 8 small values per type from the shared generator pgen (same type space as C03 - its corpus includes implementers that rely on the caller for room: a copy-based custom MarshalTo that does not check, a Message.Marshal that assumes len(b) >= Size() -, including top-level values and fields behind 1..3 pointers to Message / custom implementers and corpus structs, values sized so that encodings stay within a few "
          "hundred bytes: strings <= 40 bytes, repeated fields <= 12 elements, nesting <= 2), by value or (25 %) by pointer; for each value MarshalTo is called with EVERY destination "
          "length 0..Size(v)+3, the destination lying between canary bytes (24 before, 40 after) with cap == len (33 %) or cap extending into the canaries. A small share of payloads (strings, bytes, implementer payloads, byte arrays) has a length on or next to 2^7 / 2^14 (thorough also 2^21); "
          "every destination length is tried for Size(v) <= 2000 (thorough 20000), for larger encodings the first and last 96 lengths, the three around every field and payload start and 64 spread "
          "over the rest (always including Size-1, Size, Size+1..3). One evaluation = one "
          "(value, destination length) call. Non-trivial = a length strictly inside the encoding of a field at some nesting level (not on a field boundary found by walking "
          "Marshal(v) with protowire along the type descriptor; for top-level scalars 0 < len < Size); labels name the codec in which the cut lands. Distinct = FNV-64 of "
          "(type, value, flags, length). Values larger than 4 MiB are skipped (label skipped.oversize); label lengths.sampled counts the values whose lengths were sampled.",
     quick=dict(shards=16, scale=3, timeout=900),
     thorough=dict(shards=16, scale=25, timeout=3000),
     technique="property-based testing (rapid) of values x exhaustive enumeration of destination lengths (fault enumeration over all cut points) with guard bytes",
     level_text="Fault enumeration within the sampled values: for every generated value with Size <= 2000 (thorough 20000) all destination lengths 0..Size+3 were tried, for the few larger ones (payloads on the 2^14 / 2^21 length boundaries) a sample that includes Size-1..Size+3; len >= Size gave nil error, count == Size and "
                "b[:n] == Marshal(v) (values with maps: equal up to the order of map entries, else decoding to v); every shorter length gave an error satisfying "
                "errors.Is(err, io.ErrShortBuffer), no panic, and no byte at or beyond len(b) (or before b) was modified.",
     level_note="Exhaustive over cut points of each sampled value, sampled over values/types. Trusted base: harness/pgen (builder, wire walker), protowire, the Go toolchain. "
                "The three defect classes this check found (KF-C16-001 repaired by d9326da, -002 by ede0efc, -003 by 4eb59c8) are 'fixed': nothing is excluded, their witnesses run as regression cases.",
     assumptions=["same domain restrictions as C03 (no nil elements in []*T, no pointers to slice-kinded types, rep only on slices/maps, distinct field numbers)",
                  "for values with maps, equality of MarshalTo output and Marshal output is taken up to the order of entries of each map (Go map iteration order); "
                  "if that fails the output must still decode to v",
                  "the count returned together with an error is not asserted (the statement does not define it)"])
