prop("C03", pkg="c03", fuzz=[("FuzzProtoRoundTrip", 60)],
     rule="rapid draws a message type from the shared generator pgen (reflect-composed structs of 0..30 fields: all scalar kinds, string, []byte, [N]byte, "
          "nested / pointer-to structs and scalars, **T, []T, map[K]V, untagged or fully tagged with numbers 1..2^29-1 weighted on 15/16, 2047/2048, 65535/65536 and "
          "varint/zigzag32/64/fixed32/64/bytes/rep tags, single-pointer 'inlined' chains to depth 3, message structs larger than 64 KiB (2 % of types: a [65536|70000|131072]byte array as first field or in the "
          "middle - zero-valued in 6 of 7 values, else all 0xFF - followed by fields of every kind, whose offsets lie beyond 65535), top-level scalars, "
          "chains of 1..3 pointers to implementers / corpus structs / structs / scalars both as the top-level value (7 % of types) and as fields, repeated elements and map values; plus a static corpus: RawMessage, a Message "
          "implementer, two gogo-style custom types, a struct implementing proto.Message that also carries the ProtoMessage() marker (MsgPM, encoded by its own methods) and one "
          "with the custom methods plus the marker (CustomSPM, which the library encodes as an ordinary struct by reflection), a slice-kinded custom type whose MarshalTo copies without checking for room (CustomCopy) and a Message "
          "implementer whose Marshal indexes its buffer assuming len(b) >= Size() (MsgTrust) - the library has to provide the room -, all usable in every position (field, pointer, "
          "pointer chain, repeated element, map value, top level), three recursive structs, a struct with an unexported field, a protoc-style proto2 struct) and then 12 value recipes "
          "per type (boundary-heavy integers and floats incl. -0/NaN payloads/Inf, nil vs empty, 2 % of string / bytes / implementer payload lengths on or next to the width boundaries of the length-prefix varint "
          "(2^7 and 2^14: B-4..B+1, so that the payload itself or a message wrapping it lands on the boundary; thorough tier also 2^21) and byte arrays of 127..129 / 16383..16385 bytes, repeated fields of 0..40 elements and 8 % beyond 40 (cheap element types up to 2500, thorough 5000) plus a sub-check whose values all carry a repeated field of 1001..2500 (thorough 5000) elements), "
          "each marshalled by value or (25 %) by pointer. One evaluation = one (type, value, by-pointer) case through Marshal, Size, Unmarshal, Marshal again. "
          "Non-trivial = the built value is not the zero value of its type; distinct = FNV-64 of (type descriptor JSON, value recipe JSON, by-pointer). "
          "Thorough tier only: a native Go fuzzing campaign FuzzProtoRoundTrip (60 s, 16 workers, not seed-reproducible - the saved input is the reproducible unit) over "
          "(bytes <= 4 KiB, selector of 32 static target types from pgen.FuzzTargets, by-pointer flag): whatever value the bytes decode to without error goes through the same "
          "oracle; its executions are added to evaluations. "
          "All nine defect classes this check found (KF-C03-001..009) are repaired in /repo (59a4758, 4183846, 63d287d, ede0efc, f520591, 4eb59c8, 4b53871, 8ad6b3b, d34f12d): "
          "no generator avoidance or comparer tolerance is active, the whole domain is generated and excluded_known is empty; a class listed as 'known' again would be avoided / tolerated and counted there.",
     quick=dict(shards=16, scale=1.5, timeout=900),
     thorough=dict(shards=16, scale=10, timeout=3000),
     technique="property-based testing (pgregory.net/rapid): generated Go types (reflect.StructOf + static corpus) x generated values, round-trip / size / determinism oracle, "
               "journal-supervised shards; native go fuzzing (go test -fuzz) with the same oracle on decoded values in the thorough tier",
     level_text="Exploration: every generated (type, value) satisfied Unmarshal(Marshal(v)) == v up to nil-versus-empty slices/maps (floats by bit pattern), "
                "Size(v) == len(Marshal(v)), nil Marshal error for types without user methods, and byte-identical repeated Marshal for values without maps "
                "(equal length and equal decoded value with maps); a counterexample is shrunk (rapid + structural minimiser) and saved as a replay file. "
                "The witnesses of the nine repaired defect classes run as regression cases in every run (a failing one is a VIOLATION).",
     level_note="Trusted base: the reflection-based comparer and value builder in harness/pgen, reflect.StructOf, the Go toolchain. Nothing is claimed beyond the sampled types/values; "
                "every class of known_findings.json for this property is 'fixed' (repaired by the commits named there), so nothing is excluded from the search.",
     assumptions=["nil pointers are not generated as elements of repeated fields ([]*T) and inner pointers of **T are non-nil when the outer one is (no protobuf representation)",
                  "pointers to non-implementer slice-kinded types (*[]byte) are outside the domain (not produced by any Go protobuf binding; the struct codec misreads them as repeated fields); *RawMessage is generated since 4eb59c8 / 644a5bf handle it",
                  "a non-nil top-level pointer (chain) whose target encodes to zero bytes is not expected back: the empty input is documented to decode to the zero value",
                  "`rep` is only put on slice and map fields; field numbers within one struct are distinct; map keys are bool/integer/string/byte-array/struct-of-those (no floats)",
                  "unexported struct fields are not encoded and are left zero in generated values"])
