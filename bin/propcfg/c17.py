prop("C17", pkg="c17",
     rule="rapid-generated valid documents biased to nesting/sibling patterns (empty containers inside non-empty ones, keys after nested objects, chains 8..64 deep, "
          "0..40 siblings, every string escape form, all number forms), arbitrary / alphabet-random / mutated byte strings, and histories of 2..6 inputs on one "
          "Tokenizer with Reset between them (inputs failing or abandoned half-way followed by valid ones, a second Tokenizer sharing the stack pool). Oracle for "
          "valid documents: a token model derived from encoding/json.Decoder.Token with a scope stack (delimiters, scalars, Depth/Index/IsKey for scalars and "
          "opening delimiters), concatenation of Values == json.Compact, Value pointer position vs Remaining, Kind class, String/Float/Int/Uint/Bool vs the "
          "reference decoding. DeepDocs: valid documents nested 100..10000 deep in 4 shapes (the Tokenizer must not stop before the decoders do). Any bytes: Next returns false within len+1 calls, error sticky. Reset: stream equals that of a new Tokenizer. Non-trivial = "
          "valid document of depth >= 2 containing an object, byte string of >= 4 bytes, or history with a failing/abandoned input followed by a valid one; "
          "distinct = FNV-64 of the inputs.",
     quick=dict(shards=16, scale=2, timeout=900),
     thorough=dict(shards=16, scale=25, timeout=3000),
     fuzz=[('FuzzTokenizer', 60)],
     technique="rapid property-based differential testing against a token model derived from encoding/json.Decoder.Token; stateful Reset histories",
     level_text="Exploration: exact token-stream comparison on several hundred thousand generated documents per quick run, plus termination/stickiness on "
                "arbitrary bytes and Reset/reuse histories compared with a fresh Tokenizer.",
     level_note="Trusted base: encoding/json Decoder.Token, json.Compact, strconv, math/big; the scope-stack model in harness/c17 (about 60 lines).",
     assumptions=["Depth/Index/IsKey are only asserted for scalars and opening delimiters, as the statement says"])
