prop("C06", pkg="c06",
     rule="every public entry point (Marshal, MarshalIndent, Append with random flags, Encoder.Encode x2, Unmarshal, Parse with random ParseFlags, Decoder.Decode with "
          "options, Valid, Unescape/AppendUnescape, Escape/AppendEscape, Tokenizer to exhaustion, Compact) applied to: 30 hostile value constructors (reference cycles "
          "through pointers/slices/maps/interfaces of length 1..1500, chains nested 100..20000 (100000 thorough), unsupported kinds, nil and typed-nil arguments, the "
          "pointer-shaped matrix) x 4 APIs x by value/pointer x 4 flag sets (enumerated); rapid-generated types incl. unsupported kinds and map key types with "
          "generated values; type-directed / mutated / truncated / generic / random documents into generated target types (zero or pre-populated, also non-pointer, "
          "nil and typed-nil targets); every prefix of generated documents; nesting bombs of 10^3..2*10^6 (5*10^6 thorough) levels in 6 shapes through every decode "
          "entry point and 8 target types; targets whose interfaces form cycles or hold typed nil pointers (fields, any, slice elements within and beyond the "
          "length, map values, array elements); after every decode into a generated target the target - complete or partial - is encoded (reads every pointer "
          "the decoder stored). Oracle: the call returns (recover with SetPanicOnFault; process death or a 120 s watchdog = violation with the journalled "
          "case as replay). Non-trivial = hostile value, composite generated type, or mutated/truncated document of >= 8 bytes into a composite target.",
     quick=dict(shards=16, scale=1, timeout=1200),
     thorough=dict(shards=16, rounds=4, scale=1.5, timeout=3400),
     fuzz=[('FuzzUnmarshalNoCrash', 90)],
     technique="rapid property-based robustness testing + enumerated hostile inputs, out-of-process supervision (journal, watchdog); oracle: the call returns",
     level_text="Exploration: totality ('returns a value or an error') checked on several hundred thousand calls per quick run under recover with faults converted to "
                "panics, each case journalled so that a fatal error or stack overflow is attributed to its input; 'never hangs' is observed through a 120 s "
                "per-case watchdog on size-bounded inputs (slow but terminating behaviour is not reported).",
     level_note="Trusted base: Go runtime fault reporting (SetPanicOnFault), the driver's journal handling. Output correctness is not compared here (C01/C02).",
     assumptions=["RawValue.Unquote/AppendUnquote are excluded (documented to panic)", "Unmarshal into any is quadratic in nesting depth: nested inputs for it stay <= 10^4 levels except plain '[' chains"])
