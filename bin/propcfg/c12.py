prop("C12", pkg="c12", fuzz=[("FuzzWireDiff", 60)],
     rule="rapid draws a message schema (1-4 messages forming a DAG, 0-7 fields each: bool/int/int32/int64/uint/uint32/uint64/float32/float64/string/[]byte, "
          "repeated, map<K,V> with integral/bool/string keys, nested message by value or pointer incl. single-field 'inlined' shapes; in 2/3 of the schemas message slots (singular, pointer, repeated element, map value) may also be of four "
          "struct-kind types with encoding methods: pschema.PMsg (implements proto.Message), CMsg (gogo-style Size/MarshalTo/Unmarshal), PMsgPM (proto.Message plus a ProtoMessage() "
          "marker: still self-encoding, codecOf gives proto.Message precedence) and CMsgPM (custom interface plus ProtoMessage(): the library then ignores the methods and encodes "
          "the plain struct), all standing for the ordinary message {uint64 x=1; string s=2}, which the reference sees as a plain nested message; a quarter of the messages declare "
          "1-2 unexported Go fields (some with a protobuf tag) before / between / after the exported ones, which must not influence numbering or encoding; untagged or fully "
          "tagged with numbers weighted on 15/16, 2047/2048, 65535 and zigzag/fixed options) which is materialised both as a reflect.StructOf type with "
          "protobuf struct tags and as a proto3 FileDescriptorProto (packed=false, map_entry) checked field by field against proto.TypeOf; 2-8 (thorough: 6-24) value recipes per "
          "schema. Each value gives one encode evaluation (reference decodes seg.Marshal(v) or Marshal(&v): no error, no unknown fields, equal fields, floats by "
          "bits, nil==empty) and 2-4 decode evaluations (seg.Unmarshal of the reference's deterministic encoding and of 1-3 re-encodings built with protowire from "
          "compositions of exactly: field permutation keeping same-number order, non-minimal varints of 2-10 bytes for tags/values/lengths, an earlier overridden "
          "occurrence of a singular scalar field, a singular embedded message split into 2-3 occurrences; a re-encoding is kept only if the reference decodes it to v). "
          "Non-trivial = at least one non-default field and, for a transformed encoding, at least one transformation changed the bytes; distinct = FNV-64 of "
          "(direction, schema JSON, value JSON, by-pointer flag or wire bytes). While listed as known, the generator avoids by construction: field numbers > 65535, "
          "zigzag/fixed on repeated fields, multi-byte bool varints, decode of values with a repeated field of more than 10 elements (counts under excluded_known). "
          "Thorough tier only: a native Go fuzzing campaign FuzzWireDiff (60 s, coverage-guided, not seed-reproducible - the saved case is the reproducible unit) over "
          "(wire bytes <= 4 KiB, selector of 12 fixed message types: every scalar kind; sint/fixed tags and numbers 15/16/1023/1024/2047/2048/65535; unpacked repeated scalars; "
          "repeated sint/fixed; nested by value/pointer/repeated; maps of scalars; maps of messages; PMsg/CMsg slots in every position, PMsgPM/CMsgPM slots in every position behind unexported fields; an inlined pointer chain; numbers "
          "above 1023 and 65535; mixed tagged/untagged nesting), seeded with reference encodings of generated values, their truncations and ~30 hostile constants (10/11-byte "
          "and overflowing varints, lengths 0/1/2^31/2^63, duplicate and split fields, every wire type on field 1, packed form, truncated and reordered map entries, field "
          "numbers 0 and 2^29, groups, invalid UTF-8, 33-bit int32, bool 2). Fuzz rule: protobuf decoders legitimately differ on malformed input, so the acceptance comparison "
          "is restricted to inputs the REFERENCE accepts and that are encodings of the message type: no declared field number with another wire type (this includes the "
          "packed form, which the property excludes), no group wire types, bool values 0/1 and 32-bit varints within 32 bits (sign-extended for int32); undeclared field "
          "numbers are allowed. For those: (a) seg.Unmarshal must accept and decode the same content as the reference (floats by bits except the quiet bit of float32 NaNs), "
          "(b) seg.Marshal of the decoded value must be decoded by the reference to the same content and Size == len(Marshal). For every other input (reference rejects or "
          "panics, outside the domain) only 'seg.Unmarshal does not panic and does not modify the input' is required. Zero-length map entries are skipped while KF-C12-006 "
          "is known (the package reads them as its own empty-map marker). Fuzz executions are added to evaluations.",
     quick=dict(shards=8, scale=1, timeout=600),
     thorough=dict(shards=16, scale=2, timeout=3000),
     technique="rapid property-based differential testing against google.golang.org/protobuf v1.26.0 (protodesc + dynamicpb + protowire surgery) on generated "
               "struct types and values, both directions; native go fuzzing (go test -fuzz) of raw wire bytes against the same reference in the thorough tier",
     level_text="Exploration by differential testing: about 0.7 M oracle evaluations per quick run over 40 000 generated message types compare the package with "
                "protobuf-go in both directions; a disagreement in any generated (type, value, legal re-encoding) is reported with a replayable case. Held = no "
                "disagreement outside the classes listed in known_findings.json: of the 8 genuine defects this check found, 7 are repaired in /repo (status fixed; their "
                "witnesses run as regression cases and their shapes are generated again) and 1 (non-nil empty map written as an empty entry) is still known and excluded narrowly.",
     level_note="Trusted base: protobuf-go v1.26.0 as the definition of the wire format and of 'decodes to the same values', plus harness/pschema (schema -> Go type / "
                "descriptor / value conversions, self-checked by pschema tests). Not covered: recursive message types, pointers to scalars, [N]byte, RawMessage and "
                "non-struct-kind Message/custom implementers (the struct-kind ones are covered through PMsg/CMsg), packed encodings, groups, sfixed32/64. Shapes of a class are avoided only while that class has status known "
                "(currently none of the avoid-by-construction classes is active).",
     assumptions=["protobuf-go v1.26.0 decodes/encodes the standard wire format correctly (reference)",
                  "a nil *struct field and a pointer to an all-zero struct are treated as equal (nil == empty); presence of empty sub-messages is C03's subject",
                  "float32 NaN payloads are generated with the quiet bit set (the reference stores float32 as float64, which quiets signalling NaNs)",
                  "strings are valid UTF-8 (proto3 string fields; the reference rejects other bytes)",
                  "proto.TypeOf reports uint32/uint64 for fixed32/fixed64-tagged fields (it cannot express fixed); the cross-check tolerates exactly this",
                  "self-encoding types are opaque to proto.TypeOf (a proto.Message implementer is a field-less message named bytes, a custom type is bytes); the descriptor "
                  "declares the nested message they actually write (same wire type), and their Unmarshal merges like a generated nested-message Unmarshal"])
