prop("C07", pkg="c07", vlimit_gb=16, fuzz=[("FuzzProtoDecode", 90)],
     rule="rapid draws a target type and 5 small values per type from the shared generator pgen (same type space as C03 - including target structs larger than 64 KiB whose fields lie beyond offset 65535 -, including top-level targets and fields behind 1..3 pointers to Message / custom implementers and corpus structs; strings <= 40 bytes, repeated fields <= 14 elements, "
          "nesting <= 2) plus a 64-bit seed; from b = Marshal(v) the check enumerates: b itself; EVERY prefix b[:i]; for up to 24 fields (found at every nesting level by walking b "
          "with protowire along the type descriptor): the length prefix replaced by L-1, L+1, 2L+2, 2^24+L, 2^31, 2^63 (and L+1 with the enclosing lengths fixed up), tag / length "
          "/ value varints re-encoded in 10 and 11 bytes, the wire type set to each of the 7 other values, the field number set to 0 and 2^29; 8 single-bit flips; 4 random byte "
          "strings (3 free, 1 after a valid prefix); and, at up to 40 field boundaries (top level and inside embedded messages and map entries) x wire types 0, 1, 2, 5, the "
          "insertion of one or two well-formed fields whose numbers the message level does not declare (enclosing lengths recomputed). Encodings longer than 4 KiB (payloads on the 2^14 - thorough also 2^21 - length boundary, up to 4 MiB) get a sampled family: the first and last 48 prefixes, "
          "the cuts around every field / payload start and 32 more, 6 mutated fields, 8 insertion points, 4 flips; their allocation bound is 64 MiB + 64 x length. A second sub-check feeds rapid-generated "
          "byte strings (0..64 bytes) to generated target types. A third sub-check (LongInputs, 9 cases per shard) decodes long WELL-FORMED inputs - 10^4, 10^5 or 3x10^5 (+0..999) "
          "occurrences of field 1 as repeated varint / uint64 / bool / double / string / bytes / message / pointer-to-message (one tagged value per element: the library has no packed "
          "encoding) or as map<int32,int32> / map<string,string> entries with distinct keys - into the matching target, after a forced GC, and bounds the runtime.MemStats.TotalAlloc "
          "delta of that single Unmarshal by 64 x len(input) + 4 MiB (the unchanged library measures 1x..10x). Thorough tier only: a native Go fuzzing campaign FuzzProtoDecode (90 s, 16 workers, coverage-guided, not "
          "seed-reproducible - the saved input is the reproducible unit) over (bytes <= 4 KiB, selector of 32 static target types: all scalar kinds, zigzag/fixed tags and boundary "
          "field numbers, repeated fields, maps, nested / pointer-to messages, proto2-style optional scalars, byte arrays, Message / custom implementers as fields, behind pointers, "
          "repeated and as map values, recursive corpus types, top-level implementers and scalars, an inlined pointer chain, implementers / corpus structs behind 1..3 pointers at top level and as fields), seeded with valid encodings, truncations and hostile "
          "constants (10/11-byte varints, lengths 2^31 / 2^63, field numbers 0 / 2^29, wire types 3/4/6/7); its oracle is the same checkCase on the raw bytes plus up to six "
          "unknown-field insertions whenever the bytes parse as a message of the target and decode without error; its executions are added to evaluations. One evaluation = one input through Unmarshal, Scan (Parse) and RawValue.Varint/Fixed32/Fixed64. "
          "Non-trivial = prefix that ends strictly inside a field, mutation of a length prefix, insertion not at offset 0, non-empty random input; "
          "distinct = FNV-64 of (type descriptor, kind, input bytes).",
     quick=dict(shards=16, scale=3, timeout=900),
     thorough=dict(shards=16, scale=18, timeout=3000),
     technique="property-based testing (rapid) of types/values x enumeration of cut points, structured wire mutations and unknown-field insertions; protowire as the reference "
               "field walker; runtime.MemStats.TotalAlloc for the allocation bound; journal-supervised shards under a 16 GiB address-space limit; native go fuzzing (go test -fuzz) with the same oracle in the thorough tier",
     level_text="Exploration: on every derived input Unmarshal, Scan/Parse and the RawValue accessors returned without panic or fatal error; no input of <= 4 KiB made the decoders "
                "allocate more than 64 MiB, and no long well-formed repeated field or map (up to 3x10^5 elements, 0.02..4.5 MB) made Unmarshal allocate more than 64 x its length + 4 MiB; every insertion of well-formed undeclared fields decoded to the same value as the original encoding; Scan reported exactly the "
                "(number, wire type, payload, value) list of a protowire walk and erred exactly when that walk erred (inputs containing group wire types excluded).",
     level_note="Exhaustive over the prefixes of each sampled encoding, sampled elsewhere. Trusted base: harness/pgen (builder, wire walker, comparer), protowire, the Go toolchain. "
                "The thorough tier adds the native fuzzing campaign FuzzProtoDecode (time-boxed, not seed-reproducible). The four defect classes this check found (KF-C07-001 repaired by 59a4758, -002 by f520591, "
                "-003 by 4eb59c8, -004 by 8ad6b3b) are 'fixed': nothing is excluded, the garbage collector runs normally (quiesceGC is inert), and their witnesses run as regression cases.",
     assumptions=["for a top-level pointer target the values behind the pointer chain are compared (nil = zero value): the empty input is documented to decode to the zero value, any field makes the decoder allocate",
                  "the reference field walk uses protowire's primitives but does not restrict field numbers (the statement does not); inputs whose top level contains a group wire type (3, 4) are not compared",
                  "the zero-length entry that the library writes for an empty/nil map (and reads back as 'no entry') is not treated as a message into which unknown fields are inserted",
                  "unknown-field numbers avoid the declared numbers both in full and truncated to 16 bits (conservative: before 63d287d the decoder saw declared numbers modulo 65536)",
                  "allocation is measured per family of inputs first and per input only when the family exceeds 64 MiB; harness allocations are included, which only makes the bound stricter",
                  "same domain restrictions as C03 for the types (no pointers to slice-kinded types, rep only on slices/maps, distinct field numbers)"])
