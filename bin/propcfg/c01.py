prop("C01", pkg="c01",
     rule="rapid-generated (Go type, value, encoder setting) triples: types composed with reflect (struct/ptr/slice/array/map over all scalar kinds, "
          "tags from a collision-prone pool, embedded structs, >=30-field structs) plus a static corpus of named types (Marshaler/TextMarshaler on value "
          "and pointer receivers, recursive, embedded exported/unexported); boundary-heavy values; settings Marshal / Append(default flags) / MarshalIndent / "
          "Encoder x SetEscapeHTML x SetIndent x 1-3 Encode calls, by value and by pointer; Escape/AppendEscape on generated strings. Oracle: encoding/json "
          "on an identically built value (error presence, then bytes). Non-trivial = the type has a constructor or is string/float; distinct = FNV-64 of "
          "(type descriptor, setting, value recipe).",
     quick=dict(shards=16, scale=1, timeout=900),
     thorough=dict(shards=16, rounds=5, scale=1.2, timeout=3000),
     fuzz=[('FuzzMarshalAnyDiff', 90)],
     builds=[dict(name="default", tags=[], race=False), dict(name="purego", tags=["purego"], race=False, thorough_only=True)],
     technique="rapid property-based differential testing against encoding/json (generated types x values x encoder settings)",
     level_text="Exploration: randomised differential testing; each run compares several hundred thousand (type, value, setting) triples byte-for-byte with "
                "encoding/json. A codec-construction or formatting difference that needs a particular type shape or value is found only if the generator "
                "reaches it; the label histogram in the evidence shows which shapes were reached.",
     level_note="Trusted base: encoding/json of go1.23.5 as the reference, reflect-built types, the static corpus in harness/jgen.",
     assumptions=["encoding/json (go1.23.5) is the reference", "time.Duration is excluded from the differential domain (sanctioned difference, checked separately)"])
