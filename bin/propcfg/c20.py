prop("C20", pkg="c20",
     rule="Bounded-exhaustive sweeps: every (length 0..160, alignment, position, deviation byte) single deviation from an all-valid "
          "string for Valid/ValidPrint (all 256 byte values for lengths <= 24), all 128x128 ASCII byte pairs at 3 positions of 17 lengths "
          "and 12 fold-neighbour pairs at every position with every prefix/suffix length for the fold predicates, all bytes / sampled runes, "
          "plus rapid-generated strings (one binary case in six passes two views of one buffer - same start and another length, a window, the whole - "
          "as operands, and a string with a substring of itself); run for the default (assembly) and the purego build. Non-trivial = first operand has >= 8 bytes "
          "(reaches a word/vector block); distinct = FNV-64 of (function, operands, alignment).",
     quick=dict(shards=8, scale=1, timeout=600),
     thorough=dict(shards=16, scale=30, timeout=3000),
     builds=[dict(name="default", tags=[], race=False), dict(name="purego", tags=["purego"], race=False)],
     exhaustive=True,
     technique="bounded-exhaustive enumeration + rapid property-based testing against byte-wise reference definitions, two builds (asm, purego)",
     level_text="Exploration, exhaustive within the stated bounds: every single-deviation string up to 160 bytes at every alignment and every "
                "ASCII byte pair at block-boundary lengths is compared with a one-line reference loop, in both the assembly and the purego build; "
                "a predicate that mis-answers any such input is reported with that input. Inputs longer than 160 bytes are only sampled (rapid, <= 600 bytes).",
     level_note="Trusted base: the byte-wise definitions in harness/c20 and the Go toolchain. Nothing is claimed for inputs beyond the enumerated bounds.",
     assumptions=["byte-wise reference definitions in the harness (one-line loops)",
                  "negative runes are outside the domain of ValidRune (the library answers true for them; the statement does not define them)"])


