prop("C19", pkg="c19",
     rule="rapid draws a message schema (as for C12 without the method-carrying types: untagged (numbered by the running count of exported fields) or fully tagged messages, a quarter of them with 1-2 unexported Go fields declared before / between / after the exported ones; maps restricted to map<string,V>, field numbers incl. 255/256/257/300/317-319/2047/2048/65535/65536/70000/2^29-1) and, "
          "per schema, 1-3 (thorough: 4-10) (rewriter, input) pairs, 60 % of which are extended to a STATEFUL HISTORY (see below). Rewriter: ParseRewriteTemplate(TypeOf(type), JSON) over a random subset of fields (non-zero, zero and null scalars; "
          "nested partial templates for singular messages to depth 3; arrays of non-zero elements / complete objects for repeated fields; objects with non-empty keys "
          "and non-zero values for maps), the same with RewriterRules carrying BitOr[T] on singular integer fields (nested rules for sub-messages; T is the field's own Go type half of the time, else any integer type at least as wide "
          "as the field - e.g. BitOr[uint32] on an int32 / sint32 field, whose existing value in the input may be absent, zero, positive or negative; narrower mask types truncate the field by design and are not generated), or a hand-assembled "
          "MessageRewriter of FieldNumber(n).Bool/Int/.../Bytes/Value(v), MultiRewriter(...) and BitOrRewriter(...). Input: the reference's encoding of a random value, "
          "then protowire variants (unknown fields of all four wire types interleaved at every level, permutation, scalar fields present repeatedly, embedded messages "
          "split, non-minimal varints); templated fields are absent in about half of the cases. Oracle: original := reference decode of the input; expected := original "
          "with templated fields replaced (BitOr: or-ed); output parses with protowire, the reference decodes it to expected (floats by bits, nil==empty), untemplated "
          "fields incl. unknown ones appear in the same order with identical values (byte-identical when every varint of the input is minimal; recursively inside a "
          "singly-present templated sub-message), input and template bytes unchanged, same result when appending to a non-empty out with spare capacity and the prefix "
          "kept; panics are failures. Stateful histories: 2-6 Rewrite calls in one process on the pair's rewriter and, in a third of the histories, a second rewriter "
          "built once (another template/rule set for the same message type, or a rewriter of a different generated message type whose small field numbers overlap); each "
          "call is (a) valid - the pair's valid input, possibly repeated and with a fresh out prefix - and then judged by the full oracle above EXACTLY as if it were the only "
          "call, or (b) 'truncations' - Rewrite on every prefix of the valid input that ends inside a field (at most 48, evenly spread), or (c) hostile - an embedded message "
          "cut short inside a well-formed outer message, a templated field given another wire type, one malformed prefix, or random bytes; for (b) and (c) only 'returns without "
          "panic' is required (the statement speaks of valid messages only). Histories end with a valid call, so that state left behind by failing calls (pools, caches) "
          "shows up as a wrong result of a later valid call. Non-trivial = template touches >= 1 field present in the input and leaves >= 1 present field untouched; distinct = FNV-64 of the "
          "case JSON (histories: the whole history; a history additionally counts as non-trivial when a valid call follows a failing one). While listed as known the generator avoids: rule sets whose highest number M has M>=256 and M%64<61, BitOr on zigzag fields, several "
          "occurrences of a field that carries a nested template or BitOr (counts under excluded_known).",
     quick=dict(shards=8, scale=1, timeout=600),
     thorough=dict(shards=16, scale=2, timeout=3000),
     technique="rapid property-based testing against a value-level model, single calls and stateful histories of Rewrite calls (valid, truncated and hostile inputs interleaved on one or two rewriters kept alive in one process), with google.golang.org/protobuf v1.26.0 (dynamicpb) as decoder of inputs and outputs and "
               "protowire for input surgery and the carry-over check",
     level_text="Exploration: about 0.2 M Rewrite calls per quick run (single calls and calls inside 2-6 step histories that interleave failing inputs) are checked against the value model; a rewriter output that does not decode to "
                "'original with exactly the templated fields replaced', loses/reorders/changes an untemplated field, touches its input, template or out-prefix, or "
                "panics is reported with a replayable case. The 3 genuine defects this check found are repaired in /repo (status fixed in known_findings.json): their "
                "witnesses run as regression cases and the shapes they had excluded (rules at numbers >= 256, BitOr on sint fields, ruled fields present repeatedly) are generated again.",
     level_note="Trusted base: protobuf-go v1.26.0 as decoder, harness/pschema and the ~20-line value model in harness/c19. Not covered: templated field numbers above "
                "100 000 (MessageRewriter is a slice indexed by field number: 2^29-1 would need 8 GiB; larger numbers only occur as untemplated/unknown fields), "
                "fixed32/fixed64-tagged integer fields inside templates (proto.TypeOf cannot express them; only hand-assembled Fixed32/Fixed64 rules), map templates "
                "with non-string keys (ParseRewriteTemplate reports an error), template shapes whose meaning the statement does not fix (zero elements in arrays, "
                "partial objects for repeated/map message values, empty map keys, null for messages), custom Rewriterer rules, groups in the input. Outputs are decoded "
                "with the reference rather than proto.Unmarshal so that C12's decoder defects do not leak into this property.",
     assumptions=["protobuf-go v1.26.0 decodes the standard wire format correctly; 'the original value' of an input is what it decodes",
                  "canonically encoded = every varint (tag, value, length) has its minimal width",
                  "a zero/null scalar template value means the field is cleared (rewrite_test.go zero_N cases); emitting an explicit zero instead is value-equivalent and not distinguished",
                  "nil == empty for slices, maps, bytes and absent vs all-zero sub-messages"])
