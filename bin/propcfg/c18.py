prop("C18", pkg="c18",
     rule="Parse vs time.Parse(RFC3339Nano): all 256 byte values at every position (plus one deletion / one insertion) of Z-suffixed "
          "timestamps of every length 19..32 over 6 base timestamps; pairs of separator positions replaced by every byte containing the "
          "separator's bits; every date 0000-00-00..9999-13-32; every hh:mm:ss in 00..99 each; every fraction length 0..12 with '.'/','; "
          "rapid-generated timestamps (numeric offsets, lower-case, one-digit hours, mutations) also sent through json.Unmarshal. "
          "Valid vs an independent grammar recogniser: 289 grammar-built strings with every optional part toggled x every single-byte "
          "deviation / deletion / insertion / prefix x all 32 flag subsets; AllocsPerRun == 0. Non-trivial = the string is within two byte "
          "edits of a well-formed timestamp (all sweep cases) or >= 10 bytes (generated); distinct = FNV-64 of (function, string, flags).",
     quick=dict(shards=8, scale=1, timeout=900),
     thorough=dict(shards=16, scale=25, timeout=3000),
     exhaustive=True,
     technique="bounded-exhaustive enumeration + rapid property-based testing, differential against time.Parse and an independent grammar recogniser",
     level_text="Exploration, exhaustive within the stated bounds: every single-byte deviation of fast-path-length timestamps, every calendar "
                "date of years 0000-9999 and every second of a day are compared with time.Parse(RFC3339Nano); Valid is compared with an "
                "independent recogniser on every single-edit neighbour of 289 grammar strings under all 32 flag sets. Strings further than "
                "two edits from a timestamp are only sampled.",
     level_note="Trusted base: Go's time.Parse (go1.23.5), the hand-written grammar recogniser refValid in harness/c18, testing.AllocsPerRun.",
     assumptions=["time.Parse(time.RFC3339Nano) of the default toolchain is the reference for Parse",
                  "the json.Unmarshal path is compared with encoding/json only on strings where encoding/json's strict RFC 3339 check and time.Parse agree (the rest is C02's domain)"])
