prop("C10", pkg="c10",
     rule="rapid state machine (t.Repeat) over histories of: Parse with 11 ParseFlags sets into 10 target types rich in strings / Numbers / RawMessages / []byte / "
          "map keys / interfaces (type-directed and generic documents, some with strings beyond 4 KiB and 32 KiB); Decoder.Decode of several values from a chunked "
          "reader (with and without ZeroCopy); Tokenizer walks keeping every Value and String(); Marshal, Encoder.Encode, Append into a small-capacity prefix; "
          "marshal-sized (outputs of exactly 2^k, 2^k +- 1 / 2 and random sizes: a result that fills the pooled buffer to the last byte); "
          "scribble (overwrite a previously lent input, including its spare capacity, with 0xFF); churn (1..12 rounds of Marshal/Unmarshal/Encoder/Tokenizer on "
          "large values, optionally also on a second goroutine). Invariant after every step: lent inputs (and their spare capacity) unchanged; copied results equal "
          "their snapshot forever and point into no lent buffer; zero-copy results equal their snapshot while their own input is intact and point only into their own "
          "input or untracked memory. Non-trivial = a decode followed by a scribble of its input, or an encode followed by churn; distinct = FNV-64 of the history.",
     quick=dict(shards=16, scale=1, timeout=900),
     thorough=dict(shards=16, rounds=4, scale=3, timeout=3000),
     technique="rapid stateful (model-based) property testing with a shadow model of lent and handed-out buffers and address-range aliasing checks",
     level_text="Exploration of call histories: every step re-validates all snapshots and all data-pointer ranges, so an aliasing bug is observed as soon as a later "
                "step touches the shared memory; histories average ~30 steps.",
     level_note="Trusted base: the shadow model and dump/pointer walkers in harness/c10; unsafe.StringData/SliceData for address ranges; a moving GC is not assumed.",
     assumptions=["Decoder results obtained with zero-copy flags are only read immediately (documented: must not be retained)", "Tokenizer values may alias the Tokenizer's own input"])
