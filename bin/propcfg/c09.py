prop("C09", pkg="c09",
     rule="rapid-generated scripts: 4..24 goroutines x 1..3 rounds (each round started on a barrier) x 1..12 calls from {json Marshal / Unmarshal / Tokenizer walk, "
          "proto Marshal+Unmarshal / Size / TypeOf, thrift Marshal+Unmarshal in compact and binary} over a table of 2..8 struct types accepted by all three packages "
          "(bool, int32, int64, float64, string, bytes, []int64, []string, map[string]int32, nested and pointer-to struct fields), 3/4 of them fresh (materialised with "
          "a process-unique nonce so the codec caches have never seen them), most goroutines starting on the same 'hot' type; every fifth value is large (strings of "
          "6..56 KB, 3000-element slices) to force pooled buffers to grow; in a third of the scripts one more goroutine forces garbage collections during every round "
          "(memory the library keeps only behind unsafe pointers or wrongly typed scratch is then collected while in use). A second generator draws one json type "
          "from the whole jgen type space (fresh nonce), and 2..12 goroutines encode a value and decode a document 1..6 times each, half of the time under forced GC. "
          "proto.TypeOf results include the identity of the descriptor. The test binary is built with -race and run at GOMAXPROCS 16, 4 and 2. Oracle: every "
          "result equals the result of the same call executed alone afterwards; the race detector reports nothing; the process does not die; every round of calls returns (a round still running after 180 s is reported "
          "as a call that does not return, with the script in flight). Non-trivial = a fresh "
          "type whose first use was performed by >= 2 goroutines in the same round; distinct = FNV-64 of the script.",
     quick=dict(shards=5, scale=1, timeout=900),
     thorough=dict(shards=6, scale=15, timeout=3400),
     builds=[dict(name="race-p16", tags=[], race=True, gomaxprocs=16), dict(name="race-p4", tags=[], race=True, gomaxprocs=4), dict(name="race-p2", tags=[], race=True, gomaxprocs=2)],
     technique="rapid-generated concurrent scripts (stress) with a sequential re-execution oracle, under the Go race detector at several GOMAXPROCS",
     level_text="Exploration of schedules by stress: the harness does not own the scheduler, so each run samples interleavings of concurrent first uses and relies on "
                "the race detector's happens-before analysis to generalise from the ones observed. A defect confined to one rare interleaving of two atomic "
                "operations can be missed; a data race on any executed path is reported even if it did not corrupt anything in that run.",
     level_note="Trusted base: the Go race detector, sync primitives of the harness, sequential re-execution of each call as the reference result.",
     assumptions=["schedule-dependent failures cannot be shrunk or replayed deterministically: the replay file holds the script and the race report; TestReplay re-runs a script 20 times"])
