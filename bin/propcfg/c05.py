prop("C05", pkg="c05",
     rule="(1) every byte string of length <= 5 (quick) / 6 (thorough) over 31 representatives of the JSON-significant byte classes through Valid; "
          "(2) every sequence of <= 4 (quick) / 5 (thorough) tokens from a 30-token alphabet (delimiters, well- and ill-formed strings, numbers, literals, "
          "space, raw control byte) through Valid, and those of one token less through every syntax-only consumer (RawMessage on encode and decode, MarshalJSON "
          "output, skipped unknown field, surplus array element, map[string]RawMessage, generic decode, Decoder framing); (3) a special byte/escape at every "
          "position of strings of length 0..40 in 8 embeddings; (4) nesting depths around 10000; (5) rapid-generated valid, mutated, alphabet-random and "
          "multi-KiB documents; (6) each of 31 well- and ill-formed tokens starting 0..12 bytes before the Decoder's 32 KiB and 64 KiB buffer boundaries in 4 embeddings; (7) every byte value 0..255 substituted at and inserted before every position of 18 small documents covering every token form. The consumers include syntax-only targets already holding data (populated map[string]RawMessage / map[string]any / []RawMessage, an any holding a map then a slice) and the raw message as a map value that is not the last key, a slice / array element and an int-keyed map value on the encoding side; the nesting documents go through every consumer. Oracle: encoding/json.Valid and the same consumer calls on encoding/json. Non-trivial = at least 2 bytes and the first byte "
          "can start a JSON text; distinct = counted by construction for the byte enumeration, FNV-64 of the document otherwise.",
     quick=dict(shards=16, scale=1, timeout=900),
     thorough=dict(shards=16, scale=14, timeout=3400),
     exhaustive=True,
     fuzz=[('FuzzValidDiff', 90)],
     builds=[dict(name="default", tags=[], race=False), dict(name="purego", tags=["purego"], race=False, thorough_only=True)],
     technique="bounded-exhaustive enumeration (byte strings, token sequences) + rapid generated/mutated documents, differential against encoding/json",
     level_text="Exploration, exhaustive within the stated bounds: all short strings over the byte-class alphabet and all short token sequences are compared "
                "with encoding/json.Valid, so any syntax hole expressible in that many symbols is found; every syntax-only consumer is compared with the same "
                "call on encoding/json for all token sequences of one token less. Longer documents are sampled by generation and mutation.",
     level_note="Trusted base: encoding/json (go1.23.5) Valid/Marshal/Unmarshal/Decoder as reference. The byte alphabet collapses each byte class to one representative.",
     assumptions=["encoding/json (go1.23.5) is the reference for RFC 8259 validity (including its 10000-level nesting limit)"])
