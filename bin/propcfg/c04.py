prop("C04", pkg="c04",
     rule="TODO",
     quick=dict(shards=16, scale=1, timeout=600),
     thorough=dict(shards=16, scale=12, timeout=3000),
     technique="TODO", level_text="TODO", level_note="TODO", assumptions=[])
