prop("C04", pkg="c04",
     rule="Each case is drawn with pgregory.net/rapid: one struct type from harness/tgen (reflect.StructOf over a serialisable descriptor: 0-10 own fields "
          "(64-140 for the 'wide' shape), ids from seven layout classes - consecutive, gaps <= 15, one gap = 16, gaps > 16, id range > 64, > 128, ids up to "
          "32767 - declared in ascending, descending or shuffled order; field kinds bool, int8..int64, int, float64, float32, string, []byte, lists, maps, "
          "sets (map[K]struct{}), structs, *struct, *scalar, **bool, union structs, named corpus types incl. a recursive one; 22 % of the top-level types (and some nested "
          "ones) carry 1-2 chains of ANONYMOUS embedding 1..4 levels deep (30/20/30/20 %), each level by value or through a pointer, with 2-3 tagged sibling fields at the "
          "deepest level and 1-2 fields at every intermediate level, whose values are distinct and non-zero (labels embed-depth=1..4; depth >= 3 in ~4.4 % of all types); "
          "tags required / optional / enum), 2-5 value recipes for it (boundary-weighted integers, special float bit patterns, list lengths 0/1/14/15/16/>16/127+; a small share of the strings / binaries - field values, list elements, map keys and values - has 65537, 70000 or 131073 bytes, above the 64 KiB up to which the readers allocate at once), "
          "and a protocol schedule; ~1.1 % of the cases instead use tgen.BigSpec: a list (of bool, i8..i64, double, string or struct), set or map that REALLY holds 1025, 1100, "
          "2048, 2049 or 5001 distinct elements (the decoder preallocates 1024), at the top level or nested in a struct, a pointer-to struct, a list or a map, with a "
          "second value of 1024, 1026, 3000 or 5001 elements. Every case also draws how the bytes reach the Decoders (fresh, Reset chain and stream): all at once (bytes.Reader), one byte per Read, half of what is asked, chunks of 1..7 bytes, a 16-byte bufio.Reader, or the last chunk returned together with io.EOF - the decoded values must not depend on it. Every value is put through Marshal/Unmarshal and a fresh Encoder/Decoder for all three protocols, through one Encoder and one "
          "Decoder Reset before each value across the scheduled protocols, and through one Encoder/Decoder over a single stream. The two defects found "
          "(KF-C04-001, -002) are repaired in /repo and listed as fixed: the full domain is generated (id ranges beyond 64 in ~20 % of the types) and their "
          "witnesses run as regression cases; only if such an entry were set back to 'known' would wide id layouts be rewritten (counted in excluded_known). Non-trivial = at least one value of the case encodes >= 2 top-level fields; "
          "distinct = FNV-64 of the serialised case (type descriptor, recipes, schedule).",
     quick=dict(shards=16, scale=1, timeout=600),
     thorough=dict(shards=16, scale=4, timeout=3000),
     technique="property-based testing (rapid) with generated Go struct types: round trip, reused-vs-fresh codec and cross-protocol metamorphic oracles under a "
               "reflection-based equality modulo nil/empty collections",
     level_text="Exploration: ~0.13 M generated (type, values, codec schedule) cases per quick run (~0.5 M thorough, with up to 10 values per type) are round-tripped through all three protocols "
                "and every codec mode; any value that does not come back equal (nil and empty collections identified, floats by bit pattern), any byte difference "
                "between a reused and a fresh Encoder, any disagreement between protocols, and any panic is reported with the shrunk case. Nothing is proved "
                "about types or values outside the generator's bounds (nesting depth <= 3 (4 thorough), <= 140 fields, collections <= 130 elements).",
     level_note="Trusted base: harness/tgen (type materialisation, value builder, equality). Domain restrictions (not generated, normalised by the builder): no unsigned "
                "kinds; pointers inside collections and the inner pointer of **bool are non-nil; required pointer fields are non-nil; an embedded *struct is nil exactly "
                "when none of its fields would be encoded; no NaN map keys; -0.0 is not stored directly in a struct field (it is a Go zero value and is omitted); enum "
                "values fit int32; a union has at most one non-zero member and its interface holds a pointer to a copy of it. Bytes of values containing a map "
                "with >= 2 entries are compared by length only (Go map order).",
     assumptions=["equality is 'mod nil/empty': nil and empty slices/maps are equal; floats compare by bit pattern (float map keys by ==)",
                  "the zero-omission of non-required fields is taken as documented behaviour, so -0.0 directly in a struct field is outside the domain",
                  "a union interface field is compared by the shape thrift_test.go documents: nil, or a pointer to a value equal to the single set member",
                  "thorough is limited to ~64 k fresh types per shard: the library's codec cache is copy-on-write, i.e. quadratic in the number of types per process"])
