prop("C15", pkg="c15",
     rule="rapid-generated (type, value, AppendFlags, prefix length p in {0,1,7,8,9,100,4095,4096}, spare capacity in {0,1,n-1,n,n+1,2n,4096,0..200}) with n = "
          "len(Append(nil,v,flags)); the destination is a window of a canary-filled arena; values emphasise []byte of every length 0..100 (exhaustive x geometry), "
          ",string fields, values failing midway (NaN, invalid Number/RawMessage), nil embedded pointers; also AppendEscape / AppendUnescape. Oracle: result "
          "prefix == b, suffix == Append(nil,...), same error presence, canaries below the destination, inside b[:len(b)] and beyond cap(b) intact. "
          "Non-trivial = growth forced mid-value (p>0 and spare<n) or spare in {n-1,n,n+1}; distinct = FNV-64 of the whole case.",
     quick=dict(shards=16, scale=2, timeout=900),
     thorough=dict(shards=16, rounds=8, scale=1.5, timeout=3000),
     fuzz=[('FuzzAppendGeometry', 60)],
     builds=[dict(name="default", tags=[], race=False), dict(name="purego", tags=["purego"], race=False, thorough_only=True)],
     technique="rapid property-based metamorphic testing (Append(b,v) = b ++ Append(nil,v)) with canary arenas; exhaustive sweep of []byte lengths x geometries",
     level_text="Exploration: metamorphic relation checked on several hundred thousand (value, prefix, capacity) triples per quick run with guard bytes on both "
                "sides of the destination and inside the prefix; capacity arithmetic errors show up as a wrong suffix or a disturbed canary when the generator "
                "hits the geometry that matters (n-1, n, n+1 are always tried).",
     level_note="Trusted base: the library's own Append(nil, ...) as the reference for the suffix (its agreement with encoding/json is C01's job); Go's memory model for the arena.",
     assumptions=["Append(nil, v, flags) is taken as the reference encoding (C01/C14 check it against encoding/json)", "map-containing values always carry SortMapKeys so that output is deterministic"])
