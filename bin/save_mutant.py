#!/usr/bin/env python3
"""save_mutant.py <mutant id> <name> <pkgdir> '<caught json>' '<notes>' : keep a confirmed seeded change under /verif/seeded/<name>/"""
import json,sys,shutil,os
mid,name,pkg,caught,notes=sys.argv[1:6]
src='/tmp/mut-%s-out'%mid; dst='/verif/seeded/%s'%name
os.makedirs(dst,exist_ok=True)
shutil.copy(src+'/patch.diff',dst+'/patch.diff')
shutil.copy(src+'/demo_test.go',dst+'/demo_test.go')
m=json.load(open(src+'/meta.json'))
m['demo_dir']=pkg
m['confirmed']="bin/verify_mutant.sh: patch applies to /repo HEAD in a scratch worktree; go build ./... and the full existing suite pass with it; the demonstration fails with the change and passes without it"
m['checks']=json.loads(caught)
m['notes']=notes
json.dump(m,open(dst+'/meta.json','w'),indent=1)
print('saved',dst)
