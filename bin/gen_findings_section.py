#!/usr/bin/env python3
"""Regenerates the counts line and the fix-commit list of DESIGN.md §7 from /repo's git log and known_findings.json."""
import json,subprocess,re
k=json.load(open('/verif/known_findings.json'))['findings']
log=subprocess.check_output(['git','-C','/repo','log','--reverse','--format=%h %s','--grep=^fix:']).decode().splitlines()
bycommit={}
for e in k:
    if e.get('status')=='fixed' and e.get('commit'):
        bycommit.setdefault(e['commit'][:7],[]).append(e['id'])
lines=[]
for l in log:
    h,s=l.split(' ',1); s=s[len('fix:'):].strip()
    ids=bycommit.get(h[:7],[])
    lines.append('* `%s` %s%s'%(h,s,(' — '+', '.join(sorted(ids))) if ids else ''))
d=open('/verif/DESIGN.md').read()
i=d.index('* `28dacfb`'); j=d.index('\n## 8.',i)
d=d[:i]+'\n'.join(lines)+'\n'+d[j:]
nk=sum(1 for e in k if e['status']=='known'); nf=sum(1 for e in k if e['status']=='fixed')
d=re.sub(r'\d+ `fix:` commits; \d+ findings remain `known`; \d+ entries are `fixed`','%d `fix:` commits; %d findings remain `known`; %d entries are `fixed`'%(len(log),nk,nf),d,count=1)
open('/verif/DESIGN.md','w').write(d)
print(len(log),nk,nf)
