#!/usr/bin/env python3
"""Regenerates the table of DESIGN.md §9 from seeded/*/meta.json (between the table header and the summary line)."""
import json,glob,os,re
rows=[];n=first=later=0
for d in sorted(glob.glob('/verif/seeded/*/meta.json')):
    m=json.load(open(d)); name=os.path.basename(os.path.dirname(d)); p=m['property']; ch=m['checks']
    def st(v):
        v=v.lower()
        if v.startswith('missed') or v.startswith('same: missed'): return 'missed, then caught after strengthening'
        if v.startswith('caught'): return 'caught'
        return 'not caught'
    own=st(ch.get(p,'not run')); n+=1
    if own=='caught': first+=1
    elif own.startswith('missed'): later+=1
    others=', '.join('%s %s'%(k,'caught' if st(v)!='not caught' else 'not caught') for k,v in ch.items() if k!=p)
    what=(m.get('summary') or m.get('what') or '').replace('|','/').replace('\n',' ')[:150]
    rows.append('| %s | `%s` | %s | %s | %s |'%(p,name,what,own,others))
hdr='| property | seeded change | what was changed | own check | other checks |\n|---|---|---|---|---|\n'
s=open('/verif/DESIGN.md').read()
i=s.index(hdr); j=s.index('\n\n',i)
tail=s[j+2:]
tail=re.sub(r'^\d+ changes, \d+ caught by the quick tier as first built, \d+ missed at first','%d changes, %d caught by the quick tier as first built, %d missed at first'%(n,first,later),tail,count=1)
open('/verif/DESIGN.md','w').write(s[:i]+hdr+'\n'.join(rows)+'\n\n'+tail)
print(n,first,later)
