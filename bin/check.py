#!/usr/bin/env python3
"""Driver for the property checks of /verif (see DESIGN.md §1.2–1.7).

  python3 bin/check.py --setup                 build every test binary (warms the Go cache)
  python3 bin/check.py <id> quick|thorough     run one property check
  python3 bin/check.py <id> --replay <file>    re-execute one saved case

Exit 0: property held on everything explored (KNOWN-FINDING lines allowed)
Exit 1: at least one line "VIOLATION property=<id> replay=<path>" was printed
Exit 2: inconclusive / infrastructure problem (build failure, time-out, worker death without a case)
"""
import json, os, shutil, subprocess, sys, time, glob, hashlib, signal, resource

VERIF = os.path.dirname(os.path.dirname(os.path.abspath(__file__)))
HARNESS = os.path.join(VERIF, "harness")
BUILD = os.path.join(VERIF, ".build")
WORK = os.path.join(VERIF, ".work")
NCPU = os.cpu_count() or 4

GOENV = dict(os.environ, GOFLAGS="-mod=mod", GOPROXY="off", GOSUMDB="off", GOTOOLCHAIN="local",
             CGO_ENABLED=os.environ.get("CGO_ENABLED", "1"))

# Per-property configuration.
#   pkg       harness package (directory under harness/)
#   level     evidence level
#   rule      text of the generation / non-triviality rule
#   quick / thorough: dict(shards=N, scale=F, timeout=S, run=regexp of tests)
#   builds    list of build variants: dict(name, tags=[...], race=bool)
#   fuzz      thorough only: list of (FuzzTarget, seconds)
#   vlimit_gb address-space limit for the children (None = unlimited)
DEFAULT_BUILD = [dict(name="default", tags=[], race=False)]

PROPS = {}

def prop(id, **kw):
    kw.setdefault("builds", DEFAULT_BUILD)
    kw.setdefault("level", "exploration")
    kw.setdefault("fuzz", [])
    kw.setdefault("vlimit_gb", None)
    kw.setdefault("assumptions", [])
    PROPS[id] = kw

# configuration lives in bin/propcfg/<id>.py, one file per property, each calling prop("<id>", ...)
def load_props():
    d = os.path.join(os.path.dirname(os.path.abspath(__file__)), "propcfg")
    for f in sorted(glob.glob(os.path.join(d, "c*.py"))):
        exec(compile(open(f).read(), f, "exec"), {"prop": prop, "DEFAULT_BUILD": DEFAULT_BUILD})


def log(*a):
    print(*a, flush=True)


def splitmix(x):
    x = (x + 0x9e3779b97f4a7c15) & 0xFFFFFFFFFFFFFFFF
    z = x
    z = ((z ^ (z >> 30)) * 0xbf58476d1ce4e5b9) & 0xFFFFFFFFFFFFFFFF
    z = ((z ^ (z >> 27)) * 0x94d049bb133111eb) & 0xFFFFFFFFFFFFFFFF
    return z ^ (z >> 31)


ALT_REPO = os.environ.get("VERIF_REPO", "").rstrip("/")
ALT_TAG = hashlib.sha1(ALT_REPO.encode()).hexdigest()[:8] if ALT_REPO else ""


def modfile_args():
    """With VERIF_REPO=<dir> (sensitivity runs against a scratch copy of the library) build through an
    alternative go.mod whose replace directive points at that copy. Registered commands never set it."""
    if not ALT_REPO:
        return []
    os.makedirs(BUILD, exist_ok=True)
    alt = os.path.join(BUILD, "alt-%s.mod" % ALT_TAG)
    src = open(os.path.join(HARNESS, "go.mod")).read().replace("=> /repo", "=> " + ALT_REPO)
    open(alt, "w").write(src)
    shutil.copy(os.path.join(HARNESS, "go.sum"), alt[:-4] + ".sum")
    return ["-modfile", alt]


def build(pid, variant, fuzz=False):
    """go test -c for the property package; returns path of the binary or None."""
    cfg = PROPS[pid]
    os.makedirs(BUILD, exist_ok=True)
    name = "%s-%s%s%s.test" % (cfg["pkg"], variant["name"], "-fuzz" if fuzz else "", "-" + ALT_TAG if ALT_TAG else "")
    out = os.path.join(BUILD, name)
    tags = ["verif"] + list(variant.get("tags", []))
    cmd = ["go", "test", "-c", "-vet=off", "-tags", ",".join(tags), "-o", out]
    if variant.get("race"):
        cmd.append("-race")
    if fuzz:
        cmd += ["-fuzz", "Fuzz"]
    cmd += modfile_args()
    cmd.append("./" + cfg["pkg"])
    # go.sum of the harness must cover /repo's requirements
    r = subprocess.run(cmd, cwd=HARNESS, env=GOENV, stdout=subprocess.PIPE, stderr=subprocess.STDOUT, text=True)
    if r.returncode != 0:
        log("BUILD FAILED (%s):\n%s" % (" ".join(cmd), r.stdout[-4000:]))
        return None
    return out


def set_limits(vlimit_gb):
    def fn():
        os.setsid()
        if vlimit_gb:
            lim = int(vlimit_gb * (1 << 30))
            resource.setrlimit(resource.RLIMIT_AS, (lim, lim))
    return fn


def run_shards(pid, tier, tcfg, variant, binary, wdir, seed, extra_env=None, rnd=0, rounds=1):
    """Run all shards of one build variant in parallel; returns list of dicts."""
    cfg = PROPS[pid]
    nshards = tcfg["shards"]
    procs = []
    results = []
    saved = os.path.join(HARNESS, "replay", cfg["pkg"])
    queue = list(range(nshards))
    running = []
    deadline = time.time() + tcfg["timeout"]
    maxpar = min(NCPU, tcfg.get("parallel", NCPU))

    def start(i):
        tag = "%s-%d" % (variant["name"], i) if rounds == 1 else "%s-r%d-%d" % (variant["name"], rnd, i)
        env = dict(GOENV)
        env.update({
            "VERIF_OUT": os.path.join(wdir, "shard-%s.json" % tag),
            "VERIF_HASHES": os.path.join(wdir, "hashes-%s.bin" % tag),
            "VERIF_JOURNAL": os.path.join(wdir, "journal-%s.json" % tag),
            "VERIF_REPLAY_DIR": os.path.join(wdir, "replays") if ALT_TAG else os.path.join(VERIF, "replays", pid),
            "VERIF_KNOWN": os.path.join(VERIF, "known_findings.json"),
            "VERIF_SEED": str(seed),
            "VERIF_TIER": tier,
            "VERIF_SHARD": str(i + rnd * nshards),
            "VERIF_NSHARDS": str(nshards * rounds),
            "VERIF_SCALE": str(tcfg.get("scale", 1) * float(os.environ.get("VERIF_SCALE", "1") or "1")),
            "VERIF_SAVED": saved,
            "VERIF_BUILD": variant["name"],
        })
        if extra_env:
            env.update(extra_env)
        args = [binary, "-test.timeout", "%ds" % (tcfg["timeout"] + 600), "-test.count", "1"]
        if tcfg.get("run"):
            args += ["-test.run", tcfg["run"]]
        if variant.get("gomaxprocs"):
            env["GOMAXPROCS"] = str(variant["gomaxprocs"])
        for k, v in (variant.get("env") or {}).items():
            env[k] = str(v)
        logf = open(os.path.join(wdir, "log-%s.txt" % tag), "w")
        p = subprocess.Popen(args, cwd=wdir, env=env, stdout=logf, stderr=subprocess.STDOUT,
                             preexec_fn=set_limits(cfg.get("vlimit_gb")))
        return dict(i=i, tag=tag, p=p, env=env, logf=logf)

    while queue or running:
        while queue and len(running) < maxpar:
            running.append(start(queue.pop(0)))
        time.sleep(0.05)
        still = []
        for r in running:
            rc = r["p"].poll()
            if rc is None:
                if time.time() > deadline:
                    try:
                        os.killpg(r["p"].pid, signal.SIGKILL)
                    except Exception:
                        r["p"].kill()
                    r["p"].wait()
                    r["rc"] = "timeout"
                    r["logf"].close()
                    results.append(r)
                else:
                    still.append(r)
            else:
                r["rc"] = rc
                r["logf"].close()
                results.append(r)
        running = still
    return results


def merge_distinct(binary, files):
    files = [f for f in files if os.path.exists(f)]
    if not files:
        return 0
    env = dict(GOENV, VERIF_MERGE=":".join(files))
    r = subprocess.run([binary], env=env, stdout=subprocess.PIPE, stderr=subprocess.STDOUT, text=True)
    for line in r.stdout.splitlines():
        if line.startswith("DISTINCT "):
            return int(line.split()[1])
    return 0


def tail(path, n=3000):
    try:
        with open(path, "rb") as f:
            b = f.read()
        return b[-n:].decode("utf-8", "replace")
    except Exception:
        return ""


def run_check(pid, tier, replay=None):
    cfg = PROPS[pid]
    t0 = time.time()
    seed = int(os.environ.get("VERIF_SEED", "1") or "1")
    tcfg = dict(cfg[tier])
    wdir = os.path.join(WORK, "%s-%s%s" % (pid, tier if not replay else "replay", "-" + ALT_TAG if ALT_TAG else ""))
    shutil.rmtree(wdir, ignore_errors=True)
    os.makedirs(wdir, exist_ok=True)
    rdir = os.path.join(VERIF, "replays", pid)
    if ALT_TAG:
        rdir = os.path.join(wdir, "replays")
    if not replay:
        shutil.rmtree(rdir, ignore_errors=True)
    os.makedirs(rdir, exist_ok=True)
    evidence_path = os.path.join(VERIF, "evidence", pid + ".json")
    if ALT_TAG:
        evidence_path = os.path.join(wdir, "evidence.json")
    os.makedirs(os.path.dirname(evidence_path), exist_ok=True)

    builds = cfg["builds"]
    if tier == "quick":
        builds = [b for b in builds if not b.get("thorough_only")]
    all_results = []
    binaries = {}
    for v in builds:
        b = build(pid, v)
        if b is None:
            log("INCONCLUSIVE property=%s build failed" % pid)
            return 2
        binaries[v["name"]] = b
    first_bin = binaries[builds[0]["name"]]

    if replay:
        env = {"VERIF_REPLAY": os.path.abspath(replay)}
        t = dict(tcfg, shards=1, run="TestReplay", timeout=600)
        res = run_shards(pid, tier, t, builds[0], first_bin, wdir, seed, env)
        all_results += [(builds[0], r) for r in res]
    else:
        for v in builds:
            vt = dict(tcfg)
            if "shards" in v:
                vt["shards"] = v["shards"]
            # rounds: the shard set is run several times in fresh processes (different shard indices, hence different
            # seeds and disjoint parts of the enumerations) instead of scaling the count inside one process: the json
            # codec cache is copy-on-write, so the cost of fresh types grows quadratically within a process.
            rounds = int(vt.get("rounds", 1))
            for rnd in range(rounds):
                res = run_shards(pid, tier, vt, v, binaries[v["name"]], wdir, seed, rnd=rnd, rounds=rounds)
                all_results += [(v, r) for r in res]

    # ---- native fuzzing campaigns (thorough tier only; time-boxed, not seed-reproducible: the saved input is the reproducible unit)
    fuzz_stats = {}
    if tier == "thorough" and not replay:
        for target, secs in cfg.get("fuzz", []):
            secs = max(5, int(secs * float(os.environ.get("VERIF_FUZZ_SCALE", "1") or "1")))
            fb = build(pid, builds[0], fuzz=True)
            if fb is None:
                log("INCONCLUSIVE property=%s fuzz build failed" % pid)
                return 2
            tag = "fuzz-" + target
            env = dict(GOENV)
            env.update({
                "VERIF_OUT": os.path.join(wdir, "shard-%s.json" % tag), "VERIF_HASHES": "", "VERIF_JOURNAL": "",
                "VERIF_REPLAY_DIR": rdir, "VERIF_KNOWN": os.path.join(VERIF, "known_findings.json"),
                "VERIF_SEED": str(seed), "VERIF_TIER": tier, "VERIF_SHARD": "0", "VERIF_NSHARDS": "1", "VERIF_SCALE": "1",
            })
            fdir = os.path.join(wdir, tag)
            os.makedirs(fdir, exist_ok=True)
            args = [fb, "-test.run", "^$", "-test.fuzz", "^%s$" % target, "-test.fuzztime", "%ds" % secs,
                    "-test.fuzzcachedir", os.path.join(fdir, "cache"), "-test.parallel", str(NCPU), "-test.timeout", "%ds" % (secs + 900)]
            logp = os.path.join(wdir, "log-%s.txt" % tag)
            with open(logp, "w") as lf:
                try:
                    fr = subprocess.run(args, cwd=fdir, env=env, stdout=lf, stderr=subprocess.STDOUT, timeout=secs + 1200,
                                        preexec_fn=set_limits(cfg.get("vlimit_gb")))
                    frc = fr.returncode
                except subprocess.TimeoutExpired:
                    frc = "timeout"
            txt = tail(logp, 20000)
            import re as _re
            ex = _re.findall(r"execs: (\d+)", txt)
            fuzz_stats[target] = dict(seconds=secs, execs=int(ex[-1]) if ex else 0, exit=frc)
            if frc not in (0, "timeout"):
                found = sorted(glob.glob(os.path.join(rdir, "%s-%s-*.json" % (pid, target))))
                crashers = sorted(glob.glob(os.path.join(fdir, "testdata", "fuzz", target, "*")))
                if found:
                    all_results.append((builds[0], dict(tag=tag, rc=0, env=env, fuzz_violation=(found[0], "native fuzzing (%s) found a failing input" % target))))
                elif crashers:
                    all_results.append((builds[0], dict(tag=tag, rc=0, env=env, fuzz_violation=(crashers[0], "native fuzzing (%s) crashed; input saved by go test" % target))))
                else:
                    all_results.append((builds[0], dict(tag=tag, rc=frc, env=env)))

    # ---- collect
    violations = []      # (replay path, description)
    known = []
    notes = []
    labels, excluded = {}, {}
    samples = []
    evaluations = 0
    checks = {}
    inconclusive = []
    exhaustive = True
    any_exh = False
    hash_files = []
    capped = False
    counted = 0
    for v, r in all_results:
        if r.get("fuzz_violation"):
            violations.append(r["fuzz_violation"])
            continue
        out = r["env"]["VERIF_OUT"]
        doc = None
        if os.path.exists(out):
            try:
                doc = json.load(open(out))
            except Exception:
                doc = None
        logpath = os.path.join(wdir, "log-%s.txt" % r["tag"])
        if doc:
            evaluations += doc.get("evaluations", 0)
            for k, n in (doc.get("labels") or {}).items():
                labels[k] = labels.get(k, 0) + n
            for k, n in (doc.get("excluded") or {}).items():
                excluded[k] = excluded.get(k, 0) + n
            for s in (doc.get("samples") or []):
                if len(samples) < 8 and s is not None:
                    samples.append(s)
            for x in doc.get("violations") or []:
                violations.append((x.get("replay"), "%s: %s" % (x.get("test"), json.dumps(x.get("failure"))[:600])))
            for k in doc.get("known") or []:
                if k not in known:
                    known.append(k)
            for k in doc.get("notes") or []:
                if k not in notes:
                    notes.append(k)
            for c in doc.get("checks") or []:
                e = checks.setdefault(c["name"], dict(requested=0, completed=0, failed=False))
                e["requested"] += c["requested"]; e["completed"] += c["completed"]; e["failed"] |= c.get("failed", False)
            any_exh |= bool(doc.get("exhaustive"))
            capped |= bool(doc.get("hash_capped"))
            if r["tag"].startswith(builds[0]["name"] + "-"):
                counted += int(doc.get("counted", 0))  # enumerated parts are identical in every build variant
            hash_files.append(r["env"]["VERIF_HASHES"])
        rc = r["rc"]
        # Go race detector reports (C09): a report is a violation whatever the exit status; the replay file
        # holds the report (stacks of both accesses) and the script that was in flight.
        logtxt = tail(logpath, 200000)
        if "WARNING: DATA RACE" in logtxt:
            dst = os.path.join(rdir, "%s-race-%s.json" % (pid, r["tag"]))
            i = logtxt.index("WARNING: DATA RACE")
            rec = {"property": pid, "oracle": "no execution contains a data race (Go race detector)", "race_report": logtxt[i:i + 12000]}
            j = r["env"]["VERIF_JOURNAL"]
            if os.path.exists(j):
                try:
                    rec["script_in_flight"] = json.load(open(j))
                except Exception:
                    pass
            json.dump(rec, open(dst, "w"), indent=1)
            violations.append((dst, "data race reported by the race detector"))
            continue
        if rc == "timeout":
            inconclusive.append("shard %s exceeded the driver time limit (%ds)" % (r["tag"], tcfg["timeout"]))
        elif rc != 0:
            had_violation = bool(doc and doc.get("violations"))
            if not had_violation:
                # the process failed without a recorded violation: either it died inside a
                # supervised call (journal record = failing case) or a harness error
                j = r["env"]["VERIF_JOURNAL"]
                txt = tail(logpath)
                if os.path.exists(j):
                    dst = os.path.join(rdir, "%s-crash-%s.json" % (pid, r["tag"]))
                    try:
                        rec = json.load(open(j))
                    except Exception:
                        rec = {"raw": open(j, "rb").read().decode("utf-8", "replace")}
                    rec["process_exit"] = rc
                    rec["output_tail"] = txt[-2500:]
                    json.dump(rec, open(dst, "w"), indent=1)
                    violations.append((dst, "process died (exit %s) while executing the journalled case" % rc))
                elif "out of memory" in txt or "cannot allocate memory" in txt or rc in (-9, 137):
                    inconclusive.append("shard %s died without a journalled case (exit %s, memory)" % (r["tag"], rc))
                else:
                    inconclusive.append("shard %s failed without a recorded violation (exit %s): %s" % (r["tag"], rc, txt[-800:]))

    for name, c in checks.items():
        if not c["failed"] and c["completed"] < c["requested"]:
            inconclusive.append("check %s completed %d of %d requested cases" % (name, c["completed"], c["requested"]))

    distinct = merge_distinct(first_bin, hash_files) + counted
    wall = time.time() - t0
    rule = cfg["rule"]
    if capped:
        rule += " (per-shard distinct set capped at 4M entries: distinct_nontrivial is a lower bound)"
    ev = {
        "property_id": pid,
        "tier": tier,
        "seed": seed,
        "level": cfg["level"],
        "wall_s": round(wall, 2),
        "violations": len(violations),
        "coverage": {
            "evaluations": int(evaluations) + sum(v["execs"] for v in fuzz_stats.values()),
            "distinct_nontrivial": int(distinct),
            "rule": rule,
            "samples": samples,
            "labels": dict(sorted(labels.items())),
            "excluded_known": excluded,
            "exhaustive": bool(any_exh and cfg.get("exhaustive", False)),
            "shards": len(all_results),
            "builds": [b["name"] for b in builds],
            "sub_checks": checks,
            "known_findings_reported": known,
            "notes": notes,
            "inconclusive": inconclusive,
            "native_fuzzing": fuzz_stats,
        },
        "assumptions": cfg["assumptions"],
    }
    if not replay:
        tmp = evidence_path + ".tmp"
        json.dump(ev, open(tmp, "w"), indent=1)
        os.replace(tmp, evidence_path)

    for k in known:
        log(k)
    seen = set()
    for path, desc in violations:
        if path in seen:
            continue
        seen.add(path)
        log("VIOLATION property=%s replay=%s" % (pid, path))
        log("  " + desc)
    log("%s %s: evaluations=%d distinct_nontrivial=%d violations=%d known=%d wall=%.1fs" % (
        pid, tier, evaluations, distinct, len(seen), len(known), wall))
    if violations:
        return 1
    if inconclusive:
        for m in inconclusive:
            log("INCONCLUSIVE property=%s %s" % (pid, m))
        return 2
    return 0


def setup():
    ok = True
    # make sure go.sum is complete for the harness (offline: copies /repo's sums)
    for pid, cfg in sorted(PROPS.items()):
        if not os.path.isdir(os.path.join(HARNESS, cfg["pkg"])):
            continue
        for v in cfg["builds"]:
            t = time.time()
            b = build(pid, v)
            log("setup: built %s/%s in %.1fs -> %s" % (pid, v["name"], time.time() - t, "ok" if b else "FAILED"))
            ok &= b is not None
    return 0 if ok else 2


def manifest():
    """Regenerate MANIFEST.json from the PROPS table (keeps commands and levels in one place)."""
    props = [json.loads(l) for l in open(os.path.join(VERIF, "properties.jsonl")) if l.strip()]
    checks, na = [], []
    for p in props:
        pid = p["id"]
        cfg = PROPS.get(pid)
        if not cfg or cfg.get("disabled") or pid not in REGISTERED:
            na.append({"property_id": pid, "reason": (cfg or {}).get("disabled") or NOT_YET.get(pid, "check not built yet (work in progress)")})
            continue
        checks.append({
            "property_id": pid,
            "quick_cmd": "python3 bin/check.py %s quick" % pid,
            "thorough_cmd": "python3 bin/check.py %s thorough" % pid,
            "evidence_file": "/verif/evidence/%s.json" % pid,
            "replay_cmd_template": "python3 bin/check.py %s --replay {path}" % pid,
            "engine": "go-rapid-harness",
            "level_claimed": {"category": cfg["level"], "text": cfg["level_text"], "design_ref": cfg.get("design_ref", "DESIGN.md §4 " + pid)},
            "level_note": cfg["level_note"],
            "technique": cfg["technique"] + ("; the thorough tier adds a native coverage-guided `go test -fuzz` campaign (%s) with the check's oracle inside the target"
                                             % ", ".join(t for t, _ in cfg["fuzz"]) if cfg.get("fuzz") and "go test -fuzz" not in cfg["technique"] else ""),
        })
    m = {
        "version": 1,
        "setup_cmd": "python3 bin/check.py --setup",
        "hooks": {
            "guard": "verif",
            "enable": "go build tag: -tags verif (no hook code exists in /repo at present; all observation is through the public API)",
            "baseline_off_cmd": "for m in . ./proto/fixtures; do (cd /repo/$m && go test -mod=mod -vet=off -count=1 ./...); done",
            "source_commits": [],
            "add_only": True,
        },
        "engines": [{"name": "go-rapid-harness", "path": "/verif/harness", "serves_properties": [c["property_id"] for c in checks],
                     "kind_free_text": "Go test binaries (one package per property) using pgregory.net/rapid v1.3.0 generators, bounded-exhaustive "
                                       "enumerators and native go fuzz targets, with explicit oracles (encoding/json, time.Parse, protobuf-go v1.26.0, "
                                       "spec transcriptions); sharded and supervised by bin/check.py"}],
        "checks": checks,
        "not_applicable": na,
        "notes": "Every check is generated-input search against an explicit oracle (property-based testing / fuzzing). Exit 2 = inconclusive (never a violation).",
    }
    json.dump(m, open(os.path.join(VERIF, "MANIFEST.json"), "w"), indent=1)
    log("MANIFEST.json: %d checks, %d not_applicable" % (len(checks), len(na)))
    return 0


NOT_YET = {}

# Properties whose check has been reviewed, is silent on the unchanged tree at several seeds and has
# caught seeded mutations; only these are claimed in MANIFEST.json.
REGISTERED = ["C%02d" % i for i in range(1, 21)]


def main(argv):
    if len(argv) >= 2 and argv[1] == "--setup":
        return setup()
    if len(argv) >= 2 and argv[1] == "--manifest":
        return manifest()
    if len(argv) < 3 or argv[1] not in PROPS:
        print(__doc__)
        return 2
    pid = argv[1]
    if argv[2] == "--replay":
        return run_check(pid, os.environ.get("VERIF_TIER", "quick"), replay=argv[3])
    tier = argv[2]
    if tier not in ("quick", "thorough"):
        print(__doc__)
        return 2
    return run_check(pid, tier)


if __name__ == "__main__":
    load_props()
    sys.exit(main(sys.argv))
