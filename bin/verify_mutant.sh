#!/bin/bash
# usage: verify_mutant.sh <id> <pkgdir for demo, e.g. json>
# Confirms an independently seeded change: applies to a clean scratch worktree, compiles, passes the existing suite,
# its demonstration fails with the change and passes without it.
export GOFLAGS=-mod=mod GOPROXY=off GOSUMDB=off GOTOOLCHAIN=local
id=$1; pkg=$2; out=/tmp/mut-$id-out; W=/tmp/mutv-$id
git -C /repo worktree remove --force $W 2>/dev/null; git -C /repo worktree add -q --detach $W HEAD || exit 2
cd $W
cp $out/demo_test.go $pkg/zz_demo_test.go
echo "== unchanged tree: demo must pass"; go test -vet=off -count=1 -run . ./$pkg/ 2>&1 | tail -2
rm $pkg/zz_demo_test.go
git apply $out/patch.diff || { echo "PATCH DOES NOT APPLY to HEAD"; exit 2; }
echo "== changed tree: build + full suite must pass"; go build ./... && go test -vet=off -count=1 ./... 2>&1 | grep -v "^ok\|no test files" | tail -5; echo "(suite done)"
cp $out/demo_test.go $pkg/zz_demo_test.go
echo "== changed tree: demo must fail"; go test -vet=off -count=1 ./$pkg/ 2>&1 | tail -4
rm $pkg/zz_demo_test.go
echo "== worktree $W left in changed state"
