#!/bin/bash
# usage: try_mutant.sh <mutant id> <pkgdir> <check ids...> : verify, then run the given checks (quick) against the changed tree
id=$1; pkg=$2; shift 2
/verif/bin/verify_mutant.sh $id $pkg 2>&1 | tail -12
cd /verif
for c in "$@"; do
  out=$(VERIF_REPO=/tmp/mutv-$id python3 bin/check.py $c quick 2>&1)
  echo "### check $c vs mutant $id: violations=$(echo "$out" | grep -c '^VIOLATION') | $(echo "$out" | tail -1 | cut -c1-150)"
  echo "$out" | grep -A1 '^VIOLATION' | head -4 | cut -c1-260
done
