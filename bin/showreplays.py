#!/usr/bin/env python3
import json,glob,sys
d=sys.argv[1]
seen=set()
for f in sorted(glob.glob(d+'/*.json')):
    try: r=json.load(open(f))
    except Exception as e: print(f,'unreadable',e); continue
    c=r.get('case',{})
    key=(r.get('class'),r.get('observed','')[:80],r.get('expected','')[:80])
    if key in seen: continue
    seen.add(key)
    print(f.split('/')[-1], r.get('test'), r.get('class'))
    if isinstance(c,dict):
        for k,v in c.items():
            print('   ',k,':',json.dumps(v)[:int(sys.argv[2]) if len(sys.argv)>2 else 500])
    else: print('   ',json.dumps(c)[:500])
    print('    oracle:', r.get('oracle'))
    print('    obs:', str(r.get('observed'))[:400]); print('    exp:', str(r.get('expected'))[:400])
