// C10 — json memory ownership: inputs untouched, results stable, aliasing opt-in.
package c10

import (
	"bytes"
	stdjson "encoding/json"
	"fmt"
	"io"
	"math/big"
	"reflect"
	"runtime"
	"strings"
	"sync"
	"testing"
	"unsafe"

	segjson "github.com/segmentio/encoding/json"
	"pgregory.net/rapid"

	"verif/harness/evid"
	"verif/harness/jgen"
)

func TestMain(m *testing.M) { evid.Main(m, "C10") }

// Op is one step of a history (the replayable unit is the whole []Op).
type Op struct {
	Kind   string   `json:"kind"` // decode | redecode | decoder | tokenizer | marshal | encoder | append | scribble | churn
	Target int      `json:"target,omitempty"`
	Docs   [][]byte `json:"docs,omitempty"`
	Flags  uint32   `json:"flags,omitempty"`
	Chunks []int    `json:"chunks,omitempty"`
	Idx    int      `json:"idx,omitempty"`   // scribble: which lent buffer; redecode: which earlier Parse result
	Reuse  bool     `json:"reuse,omitempty"` // decoder: every Decode call goes into the same variable
	N      int      `json:"n,omitempty"`     // churn: number of calls
	Par    bool     `json:"par,omitempty"`   // churn on a second goroutine too
}

type Case struct {
	Ops []Op `json:"ops"`
}

// Target types rich in the kinds the statement names.
type rich struct {
	S string
	N stdjson.Number
	R stdjson.RawMessage
	B []byte
	M map[string]string
	A any
	L []string
	P *string
	K map[string]stdjson.Number
}

// fields with the ",string" option (the decoder rewrites quoted numbers before parsing them)
type strOpts struct {
	I int            `json:"i,string"`
	U uint8          `json:"u,string"`
	F float64        `json:"f,string"`
	B bool           `json:"b,string"`
	S string         `json:"s,string"`
	P *int64         `json:"p,string"`
	M map[string]int `json:"m"`
	// string-kinded types the option also applies to: the quoted text is handed to their own decoder
	N  stdjson.Number  `json:"n,string"`
	PN *stdjson.Number `json:"pn,string"`
	X  string          `json:"x,string"`
}

var targets = []func() any{
	func() any { return new(strOpts) },
	func() any { return new([]strOpts) },
	func() any { return new(map[int]string) },
	func() any { return new(rich) },
	func() any { return new(map[string]any) },
	func() any { return new([]any) },
	func() any { return new(map[string]stdjson.RawMessage) },
	func() any { return new(any) },
	func() any { return new([]rich) },
	func() any { return new(map[string][]string) },
	func() any { return new(string) },
	func() any { return new(stdjson.RawMessage) },
	func() any { return new(map[string]map[string][]byte) },
}

// ------------------------------------------------------------------ dumping and pointer collection

var bigIntPtrType = reflect.TypeOf((*big.Int)(nil))

func dump(sb *hw, v reflect.Value, depth int) {
	if depth > 40 || !v.IsValid() {
		sb.WriteString("<>")
		return
	}
	if v.Type() == bigIntPtrType && v.CanInterface() {
		// UseBigInt results: by value, not through the unexported fields
		if b := v.Interface().(*big.Int); b != nil {
			sb.WriteString("big:" + b.String() + ";")
		} else {
			sb.WriteString("nil;")
		}
		return
	}
	switch v.Kind() {
	case reflect.String:
		sb.WriteByte('s')
		sb.WriteString(v.String())
		sb.WriteByte(0)
	case reflect.Slice:
		if v.IsNil() {
			sb.WriteString("nil;")
			return
		}
		if v.Type().Elem().Kind() == reflect.Uint8 {
			sb.WriteByte('b')
			sb.Write(v.Bytes())
			sb.WriteByte(0)
			return
		}
		sb.WriteByte('[')
		for i := 0; i < v.Len(); i++ {
			dump(sb, v.Index(i), depth+1)
		}
		sb.WriteByte(']')
	case reflect.Map:
		if v.IsNil() {
			sb.WriteString("nilmap;")
			return
		}
		keys := v.MapKeys()
		ks := make([]string, len(keys))
		for i, k := range keys {
			if k.Kind() == reflect.String {
				ks[i] = fmt.Sprintf("%x", k.String())
			} else {
				ks[i] = fmt.Sprint(k.Interface())
			}
		}
		// order independent: sort by key content
		idx := make([]int, len(keys))
		for i := range idx {
			idx[i] = i
		}
		for i := 1; i < len(idx); i++ {
			for j := i; j > 0 && ks[idx[j]] < ks[idx[j-1]]; j-- {
				idx[j], idx[j-1] = idx[j-1], idx[j]
			}
		}
		sb.WriteByte('{')
		for _, i := range idx {
			sb.WriteString(ks[i])
			sb.WriteByte(':')
			dump(sb, v.MapIndex(keys[i]), depth+1)
		}
		sb.WriteByte('}')
	case reflect.Ptr, reflect.Interface:
		if v.IsNil() {
			sb.WriteString("nil;")
			return
		}
		dump(sb, v.Elem(), depth+1)
	case reflect.Struct:
		sb.WriteByte('(')
		for i := 0; i < v.NumField(); i++ {
			dump(sb, v.Field(i), depth+1)
		}
		sb.WriteByte(')')
	default:
		fmt.Fprintf(sb, "%v;", v.Interface())
	}
}

// hw hashes what is written to it (FNV-1a 64): snapshots are content hashes.
type hw struct{ h uint64 }

func (w *hw) Write(p []byte) (int, error) {
	h := w.h
	for _, c := range p {
		h = (h ^ uint64(c)) * 1099511628211
	}
	w.h = h
	return len(p), nil
}
func (w *hw) WriteString(s string) (int, error) {
	h := w.h
	for i := 0; i < len(s); i++ {
		h = (h ^ uint64(s[i])) * 1099511628211
	}
	w.h = h
	return len(s), nil
}
func (w *hw) WriteByte(c byte) error { w.h = (w.h ^ uint64(c)) * 1099511628211; return nil }

func dumpOf(x any) string {
	sb := hw{h: 14695981039346656037}
	dump(&sb, reflect.ValueOf(x), 0)
	return fmt.Sprintf("%016x", sb.h)
}

type span struct {
	lo, hi uintptr
}

// collect gathers the data spans of every string / byte slice reachable from v.
func collect(v reflect.Value, out *[]span, depth int) {
	if depth > 40 || !v.IsValid() {
		return
	}
	switch v.Kind() {
	case reflect.String:
		if s := v.String(); len(s) > 0 {
			p := uintptr(unsafe.Pointer(unsafe.StringData(s)))
			*out = append(*out, span{p, p + uintptr(len(s))})
		}
	case reflect.Slice:
		if v.Type().Elem().Kind() == reflect.Uint8 {
			if b := v.Bytes(); len(b) > 0 {
				p := uintptr(unsafe.Pointer(unsafe.SliceData(b)))
				*out = append(*out, span{p, p + uintptr(len(b))})
			}
			return
		}
		for i := 0; i < v.Len(); i++ {
			collect(v.Index(i), out, depth+1)
		}
	case reflect.Map:
		it := v.MapRange()
		for it.Next() {
			collect(it.Key(), out, depth+1)
			collect(it.Value(), out, depth+1)
		}
	case reflect.Ptr, reflect.Interface:
		if !v.IsNil() {
			collect(v.Elem(), out, depth+1)
		}
	case reflect.Struct:
		for i := 0; i < v.NumField(); i++ {
			collect(v.Field(i), out, depth+1)
		}
	}
}

func spanOf(b []byte) span {
	if cap(b) == 0 {
		return span{}
	}
	p := uintptr(unsafe.Pointer(unsafe.SliceData(b[:1])))
	return span{p, p + uintptr(cap(b))}
}

func (a span) overlaps(b span) bool {
	return a.lo < b.hi && b.lo < a.hi && a.lo != a.hi && b.lo != b.hi
}

// ------------------------------------------------------------------ the model

type lentBuf struct {
	buf       []byte
	snap      []byte
	scribbled bool
	what      string
}

type result struct {
	what     string
	value    any    // pointer to decoded target, or []byte for encoder output
	snap     string // dump at the time it was produced
	zeroCopy bool
	inputs   []int // indexes in lent of every input decoded into this value (empty: none)
	target   int   // decode results: index in targets (-1 otherwise)
}

func (r *result) fromInput(j int) bool {
	for _, i := range r.inputs {
		if i == j {
			return true
		}
	}
	return false
}

type world struct {
	lent    []*lentBuf
	results []*result
	history []Op
	stats   struct{ decodeThenScribble, encodeThenChurn, redecode bool }
}

func (w *world) lend(b []byte, what string) (int, []byte) {
	c := append(make([]byte, 0, len(b)+8), b...)
	for i := len(b); i < cap(c); i++ {
		c[:cap(c)][i] = 0xEE // spare capacity of the lent slice: must stay untouched as well
	}
	w.lent = append(w.lent, &lentBuf{buf: c, snap: append([]byte{}, b...), what: what})
	return len(w.lent) - 1, c
}

func (w *world) keep(what string, v any, zc bool, input int) *result {
	r := &result{what: what, value: v, snap: dumpOf(v), zeroCopy: zc, target: -1}
	if input >= 0 {
		r.inputs = []int{input}
	}
	w.results = append(w.results, r)
	return r
}

// parseResults lists the results that are targets of an earlier Parse (candidates for redecode).
func (w *world) parseResults() []*result {
	var out []*result
	for _, r := range w.results {
		if r.target >= 0 {
			out = append(out, r)
		}
	}
	return out
}

func fail(oracle, obs, exp, cls string) *evid.Failure {
	return &evid.Failure{Oracle: oracle, Observed: obs, Expected: exp, Class: cls}
}

// invariant is evaluated after every step.
func (w *world) invariant() *evid.Failure {
	for i, l := range w.lent {
		if !l.scribbled && !bytes.Equal(l.buf[len(l.buf):cap(l.buf)], bytes.Repeat([]byte{0xEE}, cap(l.buf)-len(l.buf))) {
			return fail("spare capacity of a lent input is never written", fmt.Sprintf("lent[%d] (%s) tail = %x", i, l.what, l.buf[len(l.buf):cap(l.buf)]), "ee…", "input-capacity-modified")
		}
		if !l.scribbled && !bytes.Equal(l.buf, l.snap) {
			return fail("input bytes lent to the library are never written", fmt.Sprintf("lent[%d] (%s) = %q", i, l.what, trunc(l.buf)), fmt.Sprintf("%q", trunc(l.snap)), "input-modified")
		}
	}
	for i, r := range w.results {
		inputIntact := true
		for _, in := range r.inputs {
			inputIntact = inputIntact && !w.lent[in].scribbled
		}
		if r.zeroCopy && !inputIntact {
			continue // may legitimately change with its own input
		}
		if now := dumpOf(r.value); now != r.snap {
			cls := "result-changed"
			if r.zeroCopy {
				cls = "zero-copy-result-changed-with-intact-input"
			}
			return fail("a result keeps its contents after its input is overwritten and after further library calls", fmt.Sprintf("result[%d] (%s) now %s", i, r.what, truncs(now)), truncs(r.snap), cls)
		}
		if r.zeroCopy && len(r.inputs) > 0 {
			// shares memory with its own input and with nothing else that is tracked
			var sp []span
			collect(reflect.ValueOf(r.value), &sp, 0)
			for _, s := range sp {
				for j, l := range w.lent {
					if !r.fromInput(j) && s.overlaps(spanOf(l.buf)) {
						return fail("zero-copy values share memory with their own input buffer and nothing else", fmt.Sprintf("result[%d] (%s) points into lent[%d] (%s)", i, r.what, j, l.what), "own input or private memory", "foreign-alias")
					}
				}
				for j, o := range w.results {
					if b, ok := o.value.([]byte); ok && j != i && s.overlaps(spanOf(b)) {
						return fail("zero-copy values share memory with their own input buffer and nothing else", fmt.Sprintf("result[%d] (%s) points into result[%d] (%s)", i, r.what, j, o.what), "own input or private memory", "foreign-alias")
					}
				}
			}
		}
		if !r.zeroCopy {
			// a copied result must not alias any lent input at all
			var sp []span
			collect(reflect.ValueOf(r.value), &sp, 0)
			for _, s := range sp {
				for j, l := range w.lent {
					if s.overlaps(spanOf(l.buf)) {
						return fail("values decoded without zero-copy flags do not share memory with the input", fmt.Sprintf("result[%d] (%s) points into lent[%d] (%s)", i, r.what, j, l.what), "private memory", "unexpected-alias")
					}
				}
			}
		}
	}
	return nil
}

func trunc(b []byte) []byte {
	if len(b) > 120 {
		return b[:120]
	}
	return b
}
func truncs(s string) string {
	if len(s) > 200 {
		return s[:200] + "…"
	}
	return s
}

type chunkReader struct {
	data   []byte
	chunks []int
	i      int
}

func (r *chunkReader) Read(p []byte) (int, error) {
	if len(r.data) == 0 {
		return 0, io.EOF
	}
	n := 7
	if len(r.chunks) > 0 {
		n = r.chunks[r.i%len(r.chunks)]
		r.i++
	}
	if n < 1 {
		n = 1
	}
	if n > len(p) {
		n = len(p)
	}
	if n > len(r.data) {
		n = len(r.data)
	}
	copy(p, r.data[:n])
	r.data = r.data[n:]
	return n, nil
}

type reentrantWriter struct {
	buf     bytes.Buffer
	par     bool
	changed string
}

func (w *reentrantWriter) Write(p []byte) (int, error) {
	before := append([]byte{}, p...)
	var wg sync.WaitGroup
	if w.par {
		wg.Add(1)
		go func() { defer wg.Done(); churn(1) }()
	}
	churn(1)
	wg.Wait()
	if !bytes.Equal(p, before) && w.changed == "" {
		w.changed = fmt.Sprintf("the %d bytes passed to Write changed while Write was using the package: now %q", len(p), trunc(p))
	}
	return w.buf.Write(p)
}

var churnVals = []any{
	map[string]any{"a": strings.Repeat("x", 5000), "b": []any{1.5, "y", nil}},
	strings.Repeat("é<>&", 1200),
	[]string{"a", "b", strings.Repeat("z", 33000)},
	struct{ A, B string }{"short", strings.Repeat("q", 300)},
	12345,
}

func churn(n int) {
	for i := 0; i < n; i++ {
		v := churnVals[i%len(churnVals)]
		b, _ := segjson.Marshal(v)
		var x any
		segjson.Unmarshal(b, &x)
		var buf bytes.Buffer
		segjson.NewEncoder(&buf).Encode(v)
		tk := segjson.NewTokenizer(b)
		for tk.Next() {
		}
	}
}

// apply executes one op against the library and the model.
func (w *world) apply(op Op) (f *evid.Failure) {
	defer func() {
		if p := recover(); p != nil {
			f = fail("no panic", fmt.Sprint("panic: ", p), "a result", "panic")
		}
	}()
	w.history = append(w.history, op)
	zc := op.Flags&uint32(segjson.ZeroCopy) != 0
	switch op.Kind {
	case "decode":
		for _, doc := range op.Docs {
			idx, in := w.lend(doc, "Parse input")
			tgt := targets[op.Target%len(targets)]()
			if _, err := segjson.Parse(in, tgt, segjson.ParseFlags(op.Flags)); err == nil {
				w.keep(fmt.Sprintf("Parse(flags=%d) into %T", op.Flags, tgt), tgt, zc, idx).target = op.Target % len(targets)
			}
		}
	case "redecode":
		// decode again into a variable that holds the result of an earlier Parse. What the variable
		// held before is superseded (the standard library reuses slices, merges maps), but the earlier
		// *inputs* were only lent: a plain decode into a variable whose RawMessage / string / []byte
		// still point into an earlier zero-copy input must not write through them.
		cands := w.parseResults()
		if len(cands) == 0 {
			break
		}
		r := cands[op.Idx%len(cands)]
		for _, doc := range op.Docs {
			idx, in := w.lend(doc, "Parse input (redecode)")
			segjson.Parse(in, r.value, segjson.ParseFlags(op.Flags))
			r.inputs = append(r.inputs, idx)
			r.zeroCopy = r.zeroCopy || zc
			r.what += fmt.Sprintf(" then Parse(flags=%d)", op.Flags)
			r.snap = dumpOf(r.value)
			w.stats.redecode = true
		}
	case "decoder":
		var stream []byte
		for _, d := range op.Docs {
			stream = append(append(stream, d...), '\n')
		}
		// the Decoder copies what it reads into its own buffer: with zero-copy flags that buffer is
		// the "input" and values must not be retained past the next Decode, so only copied results are kept
		d := segjson.NewDecoder(&chunkReader{data: append([]byte{}, stream...), chunks: op.Chunks})
		if zc {
			d.ZeroCopy()
		}
		var shared any
		var last *result
		for range op.Docs {
			tgt := targets[op.Target%len(targets)]()
			if op.Reuse {
				// the usual loop: one variable for every Decode call; only its final state is retained
				if shared == nil {
					shared = tgt
				}
				tgt = shared
			}
			err := d.Decode(tgt)
			if op.Reuse && !zc {
				if last == nil {
					last = w.keep(fmt.Sprintf("Decoder.Decode (repeatedly) into %T", tgt), tgt, false, -1)
				}
				last.snap = dumpOf(tgt)
				if err != nil {
					break
				}
				continue
			}
			if err != nil {
				break
			}
			if !zc {
				w.keep(fmt.Sprintf("Decoder.Decode into %T", tgt), tgt, false, -1)
			} else {
				_ = dumpOf(tgt) // readable right after the call
			}
		}
	case "tokenizer":
		for _, doc := range op.Docs {
			idx, in := w.lend(doc, "Tokenizer input")
			tk := segjson.NewTokenizer(in)
			var vals, copies [][]byte
			for n := 0; tk.Next() && n < len(doc)+2; n++ {
				vals = append(vals, tk.Value)
				copies = append(copies, append([]byte{}, tk.Value...))
				if tk.Kind().Class() == segjson.String {
					r := tk.String()
					vals = append(vals, r)
					copies = append(copies, append([]byte{}, r...))
				}
				// what earlier Next / String calls handed out stays as it was while the iteration goes on
				from := 0
				if len(vals) > 12 && n%32 != 0 {
					from = len(vals) - 12 // the recent ones at every step, all of them every 32 steps
				}
				for i := from; i < len(vals); i++ {
					if !bytes.Equal(vals[i], copies[i]) {
						return fail("a result keeps its contents after further library calls", fmt.Sprintf("Tokenizer result %d is now %q", i, trunc(vals[i])), fmt.Sprintf("%q", trunc(copies[i])), "result-changed")
					}
				}
			}
			v := vals
			w.keep("Tokenizer values", &v, true, idx)
		}
	case "marshal":
		for _, doc := range op.Docs {
			var x any
			if stdjson.Unmarshal(doc, &x) != nil {
				continue
			}
			if b, err := segjson.Marshal(x); err == nil {
				w.keep("Marshal output", b, false, -1)
			}
		}
	case "marshal-sized":
		// an output of exactly op.N bytes (buffer capacities are powers of two and allocator size classes:
		// a result that fills the pooled buffer to the last byte must still be the caller's own)
		if op.N >= 2 {
			fill := byte('a' + op.N%26)
			if b, err := segjson.Marshal(strings.Repeat(string(fill), op.N-2)); err == nil {
				w.keep(fmt.Sprintf("Marshal output of %d bytes", len(b)), b, false, -1)
			}
			if op.N >= 8 {
				if b, err := segjson.Marshal([]string{strings.Repeat(string(fill), op.N-6)}); err == nil {
					w.keep(fmt.Sprintf("Marshal output of %d bytes", len(b)), b, false, -1)
				}
			}
		}
	case "encoder":
		// the bytes handed to Write belong to the writer until Write returns: this writer uses the package
		// itself (and, with Par, lets another goroutine do so) before it consumes them
		rw := &reentrantWriter{par: op.Par}
		e := segjson.NewEncoder(rw)
		if op.N%3 == 1 {
			e.SetIndent("", " ")
		}
		for _, doc := range op.Docs {
			var x any
			if stdjson.Unmarshal(doc, &x) != nil {
				continue
			}
			e.Encode(x)
		}
		if rw.changed != "" {
			return fail("memory handed to a writer keeps its contents until Write returns", rw.changed, "unchanged during Write", "write-buffer-changed")
		}
		w.keep("Encoder output", rw.buf.Bytes(), false, -1)
	case "append":
		for _, doc := range op.Docs {
			var x any
			if stdjson.Unmarshal(doc, &x) != nil {
				continue
			}
			pre := make([]byte, 3, 3+op.N%50)
			copy(pre, "pre")
			if b, err := segjson.Append(pre, x, segjson.AppendFlags(op.Flags&7)); err == nil {
				w.keep("Append output", b, false, -1)
			}
		}
	case "scribble":
		if len(w.lent) > 0 {
			l := w.lent[op.Idx%len(w.lent)]
			for i := range l.buf[:cap(l.buf)] {
				l.buf[:cap(l.buf)][i] = 0xFF
			}
			l.scribbled = true
			for _, r := range w.results {
				if r.fromInput(op.Idx % len(w.lent)) {
					w.stats.decodeThenScribble = true
				}
			}
		}
	case "churn":
		var wg sync.WaitGroup
		if op.Par {
			wg.Add(1)
			go func() { defer wg.Done(); churn(op.N) }()
		}
		churn(op.N)
		wg.Wait()
		// a collection between the call that produced a result and the next look at it: memory the
		// library handed out but kept alive only through an unsafe or wrongly typed reference is
		// freed here and reused by the calls that follow
		runtime.GC()
		churn(1)
		for _, r := range w.results {
			if _, ok := r.value.([]byte); ok {
				w.stats.encodeThenChurn = true
			}
		}
	}
	return w.invariant()
}

func runCase(c Case) (*evid.Failure, *world) {
	w := &world{}
	for _, op := range c.Ops {
		if f := w.apply(op); f != nil {
			return f, w
		}
	}
	return nil, w
}

func checkCase(c Case) *evid.Failure {
	f, _ := runCase(c)
	return f
}

// ------------------------------------------------------------------ generation (state machine)

func genDocs(rt *rapid.T, target int) [][]byte {
	n := rapid.IntRange(1, 3).Draw(rt, "ndocs")
	var docs [][]byte
	typ := reflect.TypeOf(targets[target%len(targets)]()).Elem()
	for i := 0; i < n; i++ {
		var d []byte
		if rapid.IntRange(0, 3).Draw(rt, "generic") == 0 {
			d = jgen.GenDocument(rt, 3)
		} else {
			d = jgen.GenDocFor(rt, typ, jgen.DocOpts{Wrong: 1})
		}
		if rapid.IntRange(0, 24).Draw(rt, "big") == 0 {
			// strings beyond the 4 KiB / 32 KiB buffer sizes
			k := rapid.SampledFrom([]int{5000, 40000}).Draw(rt, "bigk")
			d = []byte(`{"S":"` + strings.Repeat("w", k) + `","L":["` + strings.Repeat("v", k/3) + `"],"M":{"k` + strings.Repeat("k", 50) + `":"x\ny"}}`)
		}
		docs = append(docs, d)
	}
	return docs
}

var parseFlagSets = []uint32{0, 0, 0, uint32(segjson.DontCopyString), uint32(segjson.DontCopyNumber), uint32(segjson.DontCopyRawMessage), uint32(segjson.ZeroCopy),
	uint32(segjson.UseNumber), uint32(segjson.ZeroCopy | segjson.UseNumber), uint32(segjson.DontMatchCaseInsensitiveStructFields), uint32(segjson.DisallowUnknownFields | segjson.DontCopyString),
	// the number-typing flags choose other code paths for numbers decoded into interfaces; combined with
	// UseNumber the literal text is what is stored (copied: none of these sets lends the input)
	uint32(segjson.UseInt64), uint32(segjson.UseUint64), uint32(segjson.UseBigInt), uint32(segjson.UseNumber | segjson.UseInt64), uint32(segjson.UseNumber | segjson.UseUint64),
	uint32(segjson.UseNumber | segjson.UseBigInt), uint32(segjson.UseNumber | segjson.UseInt64 | segjson.UseUint64 | segjson.UseBigInt), uint32(segjson.UseNumber | segjson.UseInt64 | segjson.DisallowUnknownFields)}

func TestHistories(t *testing.T) {
	evid.Check(t, "Histories", 400, func(rt *rapid.T) {
		w := &world{}
		var failure *evid.Failure
		step := func(op Op) {
			if failure == nil {
				failure = w.apply(op)
			}
		}
		rt.Repeat(map[string]func(*rapid.T){
			"decode": func(rt *rapid.T) {
				tg := rapid.IntRange(0, len(targets)-1).Draw(rt, "target")
				step(Op{Kind: "decode", Target: tg, Docs: genDocs(rt, tg), Flags: rapid.SampledFrom(parseFlagSets).Draw(rt, "pflags")})
			},
			"decoder": func(rt *rapid.T) {
				tg := rapid.IntRange(0, len(targets)-1).Draw(rt, "target")
				fl := uint32(0)
				if rapid.IntRange(0, 3).Draw(rt, "zc") == 0 {
					fl = uint32(segjson.ZeroCopy)
				}
				step(Op{Kind: "decoder", Target: tg, Docs: genDocs(rt, tg), Flags: fl, Reuse: rapid.IntRange(0, 2).Draw(rt, "reuse") == 0, Chunks: rapid.SliceOfN(rapid.SampledFrom([]int{1, 3, 7, 100, 4096, 5000}), 1, 4).Draw(rt, "chunks")})
			},
			"redecode": func(rt *rapid.T) {
				cands := w.parseResults()
				if len(cands) == 0 {
					rt.Skip("no earlier Parse result")
				}
				i := rapid.IntRange(0, len(cands)-1).Draw(rt, "which")
				step(Op{Kind: "redecode", Idx: i, Docs: genDocs(rt, cands[i].target), Flags: rapid.SampledFrom(parseFlagSets).Draw(rt, "pflags")})
			},
			"tokenizer": func(rt *rapid.T) { step(Op{Kind: "tokenizer", Docs: genDocs(rt, 0)}) },
			"marshal":   func(rt *rapid.T) { step(Op{Kind: "marshal", Docs: genDocs(rt, 1)}) },
			"marshal-sized": func(rt *rapid.T) {
				n := rapid.SampledFrom([]int{512, 1024, 2048, 4096, 4096, 4096, 8192, 16384, 32768, 65536, 131072, 6144, 12288, 3072, 5120, 9472, 10240}).Draw(rt, "size") + rapid.SampledFrom([]int{0, 0, 0, -1, 1, -2, 2}).Draw(rt, "sized")
				if rapid.IntRange(0, 4).Draw(rt, "anysize") == 0 {
					n = rapid.IntRange(2, 20000).Draw(rt, "size2")
				}
				step(Op{Kind: "marshal-sized", N: n})
			},
			"encoder": func(rt *rapid.T) {
				step(Op{Kind: "encoder", Docs: genDocs(rt, 1), N: rapid.IntRange(0, 5).Draw(rt, "encn"), Par: rapid.Bool().Draw(rt, "encpar")})
			},
			"append": func(rt *rapid.T) {
				step(Op{Kind: "append", Docs: genDocs(rt, 1), Flags: uint32(rapid.IntRange(0, 7).Draw(rt, "aflags")), N: rapid.IntRange(0, 200).Draw(rt, "cap")})
			},
			"scribble": func(rt *rapid.T) {
				if len(w.lent) == 0 {
					rt.Skip("nothing lent yet")
				}
				step(Op{Kind: "scribble", Idx: rapid.IntRange(0, len(w.lent)-1).Draw(rt, "idx")})
			},
			"churn": func(rt *rapid.T) {
				step(Op{Kind: "churn", N: rapid.IntRange(1, 4).Draw(rt, "n"), Par: rapid.Bool().Draw(rt, "par")})
			},
		})
		c := Case{Ops: w.history}
		evid.Eval(1)
		evid.LabelN("steps", len(w.history))
		for _, op := range w.history {
			evid.Label("op." + op.Kind)
		}
		if w.stats.decodeThenScribble {
			evid.Label("history.decode-then-scribble")
		}
		if w.stats.encodeThenChurn {
			evid.Label("history.encode-then-churn")
		}
		if w.stats.redecode {
			evid.Label("history.redecode-into-earlier-result")
		}
		if w.stats.decodeThenScribble || w.stats.encodeThenChurn || w.stats.redecode {
			evid.NonTrivial(evid.HashS(fmt.Sprintf("%+v", c)))
		}
		if evid.SampleWanted() {
			sc := Case{}
			for _, op := range w.history {
				o := op
				for i, d := range o.Docs {
					if len(d) > 80 {
						o.Docs = append([][]byte{}, o.Docs...)
						o.Docs[i] = append(append([]byte{}, d[:80]...), "…"...)
					}
				}
				sc.Ops = append(sc.Ops, o)
			}
			evid.Sample(sc)
		}
		if failure != nil {
			evid.Violation(rt, "Histories", c, failure)
		}
	})
}

func TestReplay(t *testing.T) {
	files := evid.SavedReplays()
	if p := evid.ReplayFile(); p != "" {
		files = []string{p}
	}
	for _, p := range files {
		_, raw, err := evid.LoadReplayCase(p)
		if err != nil {
			t.Fatalf("replay %s: %v", p, err)
		}
		var c Case
		if err := stdjson.Unmarshal(raw, &c); err != nil || len(c.Ops) == 0 {
			continue
		}
		evid.Eval(1)
		if f := checkCase(c); f != nil {
			evid.Violation(t, "Replay", c, f)
		}
	}
}

func TestKnownFindings(t *testing.T) { evid.RunWitnesses(t, nil) }
