package c05

import (
	"testing"

	"verif/harness/evid"
)

// FuzzValidDiff: coverage-guided search with the differential oracle inside
// the target (thorough tier; see bin/check.py).
func FuzzValidDiff(f *testing.F) {
	for _, s := range []string{`{"a":[1,2.5e3,"xé\n",null,true,false]}`, `[`, `"😀"`, `-0.0e-1`, ` [ ] `, `{"":{}}`, "\"\x01\"", `[1,]`, `{"a":1,}`, `01`, `"\x"`, `nul`, `1 2`, `[[[[[[[[]]]]]]]]`, "\xef\xbb\xbf1"} {
		f.Add([]byte(s))
	}
	f.Fuzz(func(t *testing.T, doc []byte) {
		if len(doc) > 1<<16 {
			return
		}
		c := Case{Doc: doc, What: "all"}
		if fl := checkCase(c); fl != nil {
			if cls := knownClass(c, fl); cls != "" && evid.KnownActive(cls) {
				return
			}
			evid.Violation(t, "FuzzValidDiff", c, fl)
		}
	})
}
