// C05 — json.Valid and every syntax-only path accept exactly RFC 8259 JSON.
package c05

import (
	"bytes"
	stdjson "encoding/json"
	"fmt"
	"io"
	"strings"
	"testing"

	segjson "github.com/segmentio/encoding/json"
	"pgregory.net/rapid"

	"verif/harness/evid"
	"verif/harness/jgen"
)

func TestMain(m *testing.M) { evid.Main(m, "C05") }

// Case: one byte string checked through Valid ("valid") and/or the
// syntax-only consumers ("consumers").
type Case struct {
	Doc  []byte `json:"doc"`
	What string `json:"what"` // valid | consumers | all
}

// ------------------------------------------------------------------ oracles

func guard(name string, f *evid.Failure, fn func()) (out *evid.Failure) {
	defer func() {
		if p := recover(); p != nil {
			out = &evid.Failure{Oracle: name + " must not panic", Observed: fmt.Sprint("panic: ", p), Expected: "a verdict", Class: "panic"}
		}
	}()
	fn()
	return f
}

func checkValid(doc []byte) (f *evid.Failure) {
	defer func() {
		if p := recover(); p != nil {
			f = &evid.Failure{Oracle: "Valid must not panic", Observed: fmt.Sprint("panic: ", p), Expected: "a verdict", Class: "panic"}
		}
	}()
	want := stdjson.Valid(doc)
	in := append([]byte{}, doc...)
	got := segjson.Valid(in)
	if got != want {
		cls := "valid-accepts-invalid"
		if want {
			cls = "valid-rejects-valid"
		}
		return &evid.Failure{Oracle: "Valid(s) == encoding/json.Valid(s)", Observed: fmt.Sprint(got), Expected: fmt.Sprint(want), Class: cls}
	}
	return nil
}

type wrapRaw struct{ Out string }

func (w wrapRaw) MarshalJSON() ([]byte, error) { return []byte(w.Out), nil }

type consumer struct {
	name string
	std  func(doc []byte) error
	seg  func(doc []byte) error
}

func embed(prefix string, doc []byte, suffix string) []byte {
	return append(append([]byte(prefix), doc...), suffix...)
}

var consumers = []consumer{
	{"Marshal(RawMessage(s))",
		func(d []byte) error { _, err := stdjson.Marshal(stdjson.RawMessage(d)); return err },
		func(d []byte) error { _, err := segjson.Marshal(segjson.RawMessage(d)); return err }},
	{"Marshal(&struct{R RawMessage})",
		func(d []byte) error { _, err := stdjson.Marshal(&struct{ R stdjson.RawMessage }{d}); return err },
		func(d []byte) error { _, err := segjson.Marshal(&struct{ R segjson.RawMessage }{d}); return err }},
	{"Marshal(value whose MarshalJSON returns s)",
		func(d []byte) error { _, err := stdjson.Marshal(wrapRaw{string(d)}); return err },
		func(d []byte) error { _, err := segjson.Marshal(wrapRaw{string(d)}); return err }},
	{`Marshal(map[string]RawMessage{"a":s,"b":1,"c":s}) (not the last key)`,
		func(d []byte) error {
			_, err := stdjson.Marshal(map[string]stdjson.RawMessage{"a": d, "b": stdjson.RawMessage("1"), "c": d})
			return err
		},
		func(d []byte) error {
			_, err := segjson.Marshal(map[string]segjson.RawMessage{"a": d, "b": segjson.RawMessage("1"), "c": d})
			return err
		}},
	{`Marshal(map[string]RawMessage{"a":s,"z":1})`,
		func(d []byte) error {
			_, err := stdjson.Marshal(map[string]stdjson.RawMessage{"a": d, "z": stdjson.RawMessage("1")})
			return err
		},
		func(d []byte) error {
			_, err := segjson.Marshal(map[string]segjson.RawMessage{"a": d, "z": segjson.RawMessage("1")})
			return err
		}},
	{`Marshal([]RawMessage{s,1}) / [2]RawMessage{1,s} / map[int]RawMessage{1:s,2:1}`,
		func(d []byte) error {
			if _, err := stdjson.Marshal([]stdjson.RawMessage{d, stdjson.RawMessage("1")}); err != nil {
				return err
			}
			if _, err := stdjson.Marshal([2]stdjson.RawMessage{stdjson.RawMessage("1"), d}); err != nil {
				return err
			}
			_, err := stdjson.Marshal(map[int]stdjson.RawMessage{1: d, 2: stdjson.RawMessage("1")})
			return err
		},
		func(d []byte) error {
			if _, err := segjson.Marshal([]segjson.RawMessage{d, segjson.RawMessage("1")}); err != nil {
				return err
			}
			if _, err := segjson.Marshal([2]segjson.RawMessage{segjson.RawMessage("1"), d}); err != nil {
				return err
			}
			_, err := segjson.Marshal(map[int]segjson.RawMessage{1: d, 2: segjson.RawMessage("1")})
			return err
		}},
	{"Encoder(EscapeHTML off).Encode(RawMessage(s))",
		func(d []byte) error {
			e := stdjson.NewEncoder(io.Discard)
			e.SetEscapeHTML(false)
			return e.Encode(stdjson.RawMessage(d))
		},
		func(d []byte) error {
			e := segjson.NewEncoder(io.Discard)
			e.SetEscapeHTML(false)
			return e.Encode(segjson.RawMessage(d))
		}},
	{"Unmarshal(s, &RawMessage)",
		func(d []byte) error { var r stdjson.RawMessage; return stdjson.Unmarshal(d, &r) },
		func(d []byte) error { var r segjson.RawMessage; return segjson.Unmarshal(d, &r) }},
	{`Unmarshal({"k":s}, &struct{}{}) (skipped unknown field)`,
		func(d []byte) error { var v struct{}; return stdjson.Unmarshal(embed(`{"k":`, d, `}`), &v) },
		func(d []byte) error { var v struct{}; return segjson.Unmarshal(embed(`{"k":`, d, `}`), &v) }},
	{`Unmarshal({"a":1,"k":s,"b":2}, &struct{A,B int}) (skipped field between matched ones)`,
		func(d []byte) error {
			var v struct{ A, B int }
			return stdjson.Unmarshal(embed(`{"a":1,"k":`, d, `,"b":2}`), &v)
		},
		func(d []byte) error {
			var v struct{ A, B int }
			return segjson.Unmarshal(embed(`{"a":1,"k":`, d, `,"b":2}`), &v)
		}},
	{"Unmarshal([0,s], &[1]int{}) (surplus array element)",
		func(d []byte) error { var v [1]int; return stdjson.Unmarshal(embed(`[0,`, d, `]`), &v) },
		func(d []byte) error { var v [1]int; return segjson.Unmarshal(embed(`[0,`, d, `]`), &v) }},
	{`Unmarshal({"k":s}, &map[string]RawMessage)`,
		func(d []byte) error {
			var v map[string]stdjson.RawMessage
			return stdjson.Unmarshal(embed(`{"k":`, d, `}`), &v)
		},
		func(d []byte) error {
			var v map[string]segjson.RawMessage
			return segjson.Unmarshal(embed(`{"k":`, d, `}`), &v)
		}},
	{`Unmarshal(s, &any)`,
		func(d []byte) error { var v any; return stdjson.Unmarshal(d, &v) },
		func(d []byte) error { var v any; return segjson.Unmarshal(d, &v) }},
	// the same syntax-only targets already holding data (decoded into, as a variable reused by a loop is)
	{`Unmarshal({"k":s}, &map[string]RawMessage{"z":0})`,
		func(d []byte) error {
			v := map[string]stdjson.RawMessage{"z": stdjson.RawMessage("0")}
			return stdjson.Unmarshal(embed(`{"k":`, d, `}`), &v)
		},
		func(d []byte) error {
			v := map[string]segjson.RawMessage{"z": segjson.RawMessage("0")}
			return segjson.Unmarshal(embed(`{"k":`, d, `}`), &v)
		}},
	{`Unmarshal(s, &map[string]RawMessage{"z":0,"k":1})`,
		func(d []byte) error {
			v := map[string]stdjson.RawMessage{"z": stdjson.RawMessage("0"), "k": stdjson.RawMessage("1")}
			return stdjson.Unmarshal(d, &v)
		},
		func(d []byte) error {
			v := map[string]segjson.RawMessage{"z": segjson.RawMessage("0"), "k": segjson.RawMessage("1")}
			return segjson.Unmarshal(d, &v)
		}},
	{`Unmarshal(s, &map[string]any{"z":0})`,
		func(d []byte) error { v := map[string]any{"z": 0.0}; return stdjson.Unmarshal(d, &v) },
		func(d []byte) error { v := map[string]any{"z": 0.0}; return segjson.Unmarshal(d, &v) }},
	{`Unmarshal(s, &any) with the any holding a map, then a slice`,
		func(d []byte) error {
			var v any = map[string]any{"z": 0.0}
			if err := stdjson.Unmarshal(d, &v); err != nil {
				return err
			}
			v = []any{1.0, "x"}
			return stdjson.Unmarshal(d, &v)
		},
		func(d []byte) error {
			var v any = map[string]any{"z": 0.0}
			if err := segjson.Unmarshal(d, &v); err != nil {
				return err
			}
			v = []any{1.0, "x"}
			return segjson.Unmarshal(d, &v)
		}},
	{`Unmarshal(s, &[]RawMessage{0,1})`,
		func(d []byte) error {
			v := []stdjson.RawMessage{stdjson.RawMessage("0"), stdjson.RawMessage("1")}
			return stdjson.Unmarshal(d, &v)
		},
		func(d []byte) error {
			v := []segjson.RawMessage{segjson.RawMessage("0"), segjson.RawMessage("1")}
			return segjson.Unmarshal(d, &v)
		}},
}

// framing: values returned by successive Decode(&RawMessage) calls until error.
func frameStd(doc []byte) (n int, eof bool) {
	d := stdjson.NewDecoder(bytes.NewReader(doc))
	for {
		var r stdjson.RawMessage
		if err := d.Decode(&r); err != nil {
			return n, err == io.EOF
		}
		if n++; n > len(doc)+2 {
			return n, false
		}
	}
}

func frameSeg(doc []byte) (n int, eof bool) {
	d := segjson.NewDecoder(bytes.NewReader(doc))
	for {
		var r segjson.RawMessage
		if err := d.Decode(&r); err != nil {
			return n, err == io.EOF
		}
		if n++; n > len(doc)+2 {
			return n, false
		}
	}
}

func checkConsumers(doc []byte) (f *evid.Failure) {
	for _, c := range consumers {
		c := c
		var werr, gerr error
		if g := guard(c.name, nil, func() {
			werr = c.std(append([]byte{}, doc...))
			gerr = c.seg(append([]byte{}, doc...))
		}); g != nil {
			return g
		}
		if (werr == nil) != (gerr == nil) {
			cls := "consumer-accepts-invalid"
			if werr == nil {
				cls = "consumer-rejects-valid"
			}
			return &evid.Failure{Oracle: c.name + " succeeds exactly when encoding/json does", Observed: fmt.Sprintf("err=%v", gerr), Expected: fmt.Sprintf("err=%v", werr), Class: cls}
		}
	}
	var wn, gn int
	var we, ge bool
	if g := guard("Decoder framing", nil, func() { wn, we = frameStd(doc); gn, ge = frameSeg(doc) }); g != nil {
		return g
	}
	if wn != gn || we != ge {
		return &evid.Failure{Oracle: "Decoder frames the same number of values and ends the same way (io.EOF / other error) as encoding/json", Observed: fmt.Sprintf("%d values, clean EOF=%v", gn, ge), Expected: fmt.Sprintf("%d values, clean EOF=%v", wn, we), Class: "framing"}
	}
	return nil
}

func checkCase(c Case) *evid.Failure {
	if c.What != "consumers" {
		if f := checkValid(c.Doc); f != nil {
			return f
		}
	}
	if c.What != "valid" {
		return checkConsumers(c.Doc)
	}
	return nil
}

// ------------------------------------------------------------------ runner

type runner struct {
	t     *testing.T
	name  string
	evals int
	nt    int
}

func startsLikeJSON(doc []byte) bool {
	if len(doc) < 2 {
		return false
	}
	return strings.IndexByte("{[\"-0123456789tfn \n\t\r", doc[0]) >= 0
}

func (r *runner) fail(c Case, f *evid.Failure) {
	if cls := knownClass(c, f); cls != "" && evid.KnownActive(cls) {
		evid.Excluded(cls)
		return
	}
	evid.Eval(r.evals)
	cc := Case{Doc: append([]byte{}, c.Doc...), What: c.What}
	evid.Violation(r.t, r.name, cc, f)
}

func (r *runner) do(c Case, counted bool) {
	r.evals++
	if startsLikeJSON(c.Doc) {
		if counted {
			r.nt++
		} else {
			evid.NonTrivial(evid.Hash([]byte(c.What), c.Doc))
		}
	}
	if f := checkCase(c); f != nil {
		r.fail(c, f)
	}
}

func (r *runner) done() {
	evid.Eval(r.evals)
	evid.NonTrivialCounted(r.nt)
	evid.LabelN(r.name+".evals", r.evals)
	evid.Enumerated(r.name, 1, 1)
}

// 31 byte-class representatives.
var alphabet = []byte("{}[],:\"\\/ \n019-+.eEtrualsfn\x01\x7f\x80\xc3")

// TestExhaustiveBytes: every string of length <= L over the alphabet.
func TestExhaustiveBytes(t *testing.T) {
	L := 5
	if evid.Thorough() {
		L = 6
	}
	r := &runner{t: t, name: "ExhaustiveBytes"}
	shard, n := evid.Shard(), evid.NShards()
	buf := make([]byte, L)
	A := len(alphabet)
	// strings of length < 2: shard 0 only
	if shard == 0 {
		r.do(Case{Doc: []byte{}, What: "valid"}, true)
		for _, a := range alphabet {
			r.do(Case{Doc: []byte{a}, What: "valid"}, true)
		}
	}
	// length >= 2: the first two symbols select the shard
	idx := 0
	for i0 := 0; i0 < A; i0++ {
		for i1 := 0; i1 < A; i1++ {
			idx++
			if idx%n != shard {
				continue
			}
			buf[0], buf[1] = alphabet[i0], alphabet[i1]
			r.do(Case{Doc: buf[:2], What: "valid"}, true)
			var rec func(pos int)
			rec = func(pos int) {
				for _, a := range alphabet {
					buf[pos] = a
					r.do(Case{Doc: buf[:pos+1], What: "valid"}, true)
					if pos+1 < L {
						rec(pos + 1)
					}
				}
			}
			if L > 2 {
				rec(2)
			}
		}
	}
	evid.Label(fmt.Sprintf("exhaustive.bytes.len<=%d", L))
	r.done()
	evid.SetExhaustive(true)
	evid.Sample(Case{Doc: []byte(`[1e+]`), What: "valid"})
}

var tokens = []string{"{", "}", "[", "]", ",", ":", `"a"`, `""`, `"\n"`, "\"é\"", `"\ud83d"`, `"\u12"`, `"\x"`, "0", "-0", "01", "-", "1.", "1.5", "1e", "1e+3", "true", "tru", "nul", "null", "false", " ", "\x01", "\"\x01\"", "\"a\xff\""}

// TestExhaustiveTokens: every sequence of <= K tokens, through Valid and
// (for sequences of <= K-1 tokens) through every syntax-only consumer.
func TestExhaustiveTokens(t *testing.T) {
	K := 4
	if evid.Thorough() {
		K = 5
	}
	r := &runner{t: t, name: "ExhaustiveTokens"}
	shard, n := evid.Shard(), evid.NShards()
	T := len(tokens)
	idx := 0
	var parts [8]string
	var rec func(depth int)
	rec = func(depth int) {
		doc := []byte(strings.Join(parts[:depth], ""))
		what := "valid"
		if depth < K {
			what = "all"
		}
		r.do(Case{Doc: doc, What: what}, false)
		if depth == K {
			return
		}
		for i := 0; i < T; i++ {
			parts[depth] = tokens[i]
			rec(depth + 1)
		}
	}
	for i0 := 0; i0 < T; i0++ {
		for i1 := 0; i1 < T; i1++ {
			idx++
			if idx%n != shard {
				continue
			}
			parts[0], parts[1] = tokens[i0], tokens[i1]
			rec(2)
		}
	}
	if shard == 0 {
		for i0 := 0; i0 < T; i0++ {
			r.do(Case{Doc: []byte(tokens[i0]), What: "all"}, false)
		}
	}
	evid.Label(fmt.Sprintf("exhaustive.tokens.len<=%d", K))
	r.done()
	evid.Sample(Case{Doc: []byte(`[0,"a":1e]`), What: "all"})
}

// TestStringPositions: a control / backslash / quote / non-ASCII byte at every
// position of strings of length 1..40 (the 8/16-byte quote search hand-over
// and the whole-input flags), alone and inside a larger document.
func TestStringPositions(t *testing.T) {
	r := &runner{t: t, name: "StringPositions"}
	shard, n := evid.Shard(), evid.NShards()
	specials := []string{"\x00", "\x1f", "\x7f", "\\", "\"", "\\\"", "\\u0041", "\\u00", "\\x", "\xc3\xa9", "\xff", "\xe2\x80\xa8", "\\ud83d\\ude00", "\\ud83d", "\n", "\t", "\\n", " ", "\xed\xa0\x80", "\\"}
	idx := 0
	for L := 0; L <= 40; L++ {
		for pos := 0; pos <= L; pos++ {
			idx++
			if idx%n != shard {
				continue
			}
			for _, sp := range specials {
				body := strings.Repeat("x", pos) + sp + strings.Repeat("y", L-pos)
				for _, wrap := range []string{`"%s"`, `["%s"]`, `{"%s":0}`, `{"k":"%s"}`, ` "%s" `, `["é","%s"]`, `"%s`, `%s"`} {
					doc := []byte(strings.Replace(wrap, "%s", body, 1))
					r.do(Case{Doc: doc, What: "all"}, false)
				}
			}
		}
	}
	evid.Label("string-special-at-every-position")
	r.done()
}

// TestNesting: nesting depth around the standard library's limit of 10000.
func TestNesting(t *testing.T) {
	if evid.Shard() != 0 {
		return
	}
	r := &runner{t: t, name: "Nesting"}
	depths := []int{1, 2, 100, 1000, 9999, 10000, 10001, 10002, 20000}
	for _, d := range depths {
		for _, shape := range []string{"[", "{\"a\":", "[{\"a\":"} {
			unit := 1
			if shape == "[{\"a\":" {
				unit = 2
			}
			k := d / unit
			closer := map[string]string{"[": "]", "{\"a\":": "}", "[{\"a\":": "}]"}[shape]
			doc := []byte(strings.Repeat(shape, k) + "0" + strings.Repeat(closer, k))
			// every consumer, not only Valid: each decoder (generic, map[string]any, map[string]RawMessage,
			// skipped fields, the Tokenizer's users) counts the levels on its own
			r.do(Case{Doc: doc, What: "all"}, false)
			evid.Label(fmt.Sprintf("nesting.depth%d", d))
		}
	}
	r.done()
}

// TestByteSubstitution: every byte value 0..255 substituted at (and inserted before) every position of a
// set of small documents that together contain every token form (each escape, \u sequences and surrogate
// pairs, every number part, the literals, nested containers). The byte-class alphabet of the exhaustive
// enumeration keeps one representative per class; here no two byte values are assumed equivalent.
func TestByteSubstitution(t *testing.T) {
	r := &runner{t: t, name: "ByteSubstitution"}
	shard, n := evid.Shard(), evid.NShards()
	templates := []string{`"\u0041\u00e9"`, `"\ud83d\ude00"`, `"a\"b\\c\/d\be\ff\ng\rh\ti"`, `"abc"`, `"é 😀"`, `-12.50e+10`, `0.1E-2`, `1234567890`, `-0`, `true`, `false`, `null`,
		`{"k":[1,"v",{"n":null}],"z":true}`, `[[],{},"",0]`, ` [ 1 , 2 ] `, `{"\u006b":"\u0076"}`, `"\uD834\uDD1E"`, `"\u12aF"`}
	idx := 0
	for _, tpl := range templates {
		for pos := 0; pos <= len(tpl); pos++ {
			idx++
			if idx%n != shard {
				continue
			}
			for b := 0; b < 256; b++ {
				if pos < len(tpl) {
					doc := []byte(tpl)
					doc[pos] = byte(b)
					r.do(Case{Doc: doc, What: "all"}, false)
				}
				doc := append(append(append([]byte{}, tpl[:pos]...), byte(b)), tpl[pos:]...)
				r.do(Case{Doc: doc, What: "all"}, false)
			}
		}
	}
	evid.Label("every-byte-value-at-every-position")
	r.done()
}

// TestRefillBoundary: every token of a small alphabet (literals, numbers, strings with
// escapes, containers, and truncated / malformed variants) placed so that it starts 0..12
// bytes before the Decoder's buffer boundaries (32 KiB initial fill, 64 KiB after doubling),
// as a top-level value after a large first value and as the last element inside one large
// array. A token cut by the end of the buffered data must make the Decoder read more, never
// report a syntax error the whole document does not have (framing compared with encoding/json).
func TestRefillBoundary(t *testing.T) {
	r := &runner{t: t, name: "RefillBoundary"}
	shard, n := evid.Shard(), evid.NShards()
	tokens := []string{"true", "false", "null", "0", "-0", "-12.5e+10", "1234567890123", "1E-2", `"a\"b"`, `"\u00e9\ud83d\ude00"`, "\"\u00e9\"", `""`, `{"k":false}`, `[null,true]`, "[]", "{}",
		"tru", "fals", "nul", "falsx", "nulL", "truE", "-", "1.", "1e", "01", `"\u00"`, `"\x"`, "\"\x01\"", "+1", "fa lse"}
	idx := 0
	for _, boundary := range []int{32768, 65536} {
		for k := 0; k <= 12; k++ {
			for _, tok := range tokens {
				for _, shape := range []string{"top", "top-nospace", "inner", "inner-obj"} {
					idx++
					if idx%n != shard {
						continue
					}
					start := boundary - k
					var doc []byte
					switch shape {
					case "top": // "xxx…" <space> tok <newline>
						doc = append(doc, '"')
						doc = append(doc, bytes.Repeat([]byte{'x'}, start-3)...)
						doc = append(doc, '"', ' ')
						doc = append(append(doc, tok...), '\n')
					case "top-nospace": // [0,0,…,0]tok  (containers and strings may follow without a space)
						doc = append(doc, '[')
						doc = append(doc, bytes.Repeat([]byte("0,"), (start-3)/2)...)
						if (start-3)%2 == 1 {
							doc = append(doc, ' ')
						}
						doc = append(doc, '0', ']')
						doc = append(doc, tok...)
					case "inner": // [0,0,…,tok]
						doc = append(doc, '[')
						doc = append(doc, bytes.Repeat([]byte("0,"), (start-1)/2)...)
						if (start-1)%2 == 1 {
							doc = append(doc, ' ')
						}
						doc = append(append(doc, tok...), ']', ' ', '7')
					default: // {"a":"xxx…","b":tok}
						doc = append(doc, `{"a":"`...)
						doc = append(doc, bytes.Repeat([]byte{'x'}, start-12)...)
						doc = append(doc, `","b":`...)
						doc = append(append(doc, tok...), '}')
					}
					r.evals++
					r.nt++
					var wn, gn int
					var we, ge bool
					f := guard("Decoder framing", nil, func() { wn, we = frameStd(doc); gn, ge = frameSeg(doc) })
					if f == nil && (wn != gn || we != ge) {
						f = &evid.Failure{Oracle: "Decoder frames the same number of values and ends the same way (io.EOF / other error) as encoding/json", Observed: fmt.Sprintf("%d values, clean EOF=%v", gn, ge), Expected: fmt.Sprintf("%d values, clean EOF=%v", wn, we), Class: "framing"}
					}
					if f == nil && stdjson.Valid(doc) != segjson.Valid(doc) {
						f = &evid.Failure{Oracle: "Valid agrees with encoding/json.Valid", Observed: fmt.Sprint(segjson.Valid(doc)), Expected: fmt.Sprint(stdjson.Valid(doc)), Class: "valid"}
					}
					if f != nil {
						r.fail(Case{Doc: doc, What: "all"}, f)
					}
				}
			}
		}
	}
	evid.Label("token-at-refill-boundary")
	r.done()
}

// TestGenerated: generated valid documents, their mutations, and random bytes.
func TestGenerated(t *testing.T) {
	evid.Check(t, "Generated", 25000, func(rt *rapid.T) {
		var doc []byte
		kind := rapid.IntRange(0, 9).Draw(rt, "kind")
		switch {
		case kind <= 3:
			doc = jgen.GenDocument(rt, rapid.IntRange(0, 6).Draw(rt, "depth"))
			evid.Label("gen.valid-grammar")
		case kind <= 7:
			doc = jgen.Mutate(rt, jgen.GenDocument(rt, rapid.IntRange(0, 5).Draw(rt, "depth")))
			evid.Label("gen.mutated")
		case kind == 8:
			doc = rapid.SliceOfN(rapid.SampledFrom(alphabet), 0, 30).Draw(rt, "alpha")
			evid.Label("gen.alphabet-random")
		case kind == 9 && rapid.Bool().Draw(rt, "lateescape"):
			// a value larger than the Decoder's read quantum / initial buffer whose first
			// escape (or control / non-ASCII byte) only appears after a buffer boundary:
			// whole-input flags computed on one buffer fill must not go stale
			base := rapid.SampledFrom([]int{4096, 8192, 32768, 36864, 65536}).Draw(rt, "base")
			plain := base + rapid.IntRange(-40, 200).Draw(rt, "delta")
			special := rapid.SampledFrom([]string{`\"`, `\\`, `\n`, `\u00e9`, "\u00e9", "\x01", `\ud83d\ude00`, `\x`, "\xff", `"`}).Draw(rt, "special")
			wrap := rapid.SampledFrom([]string{`["%s","next"]`, `"%s"`, `{"k":"%s","z":[1,"\""]}`, `["a\"b","%s"]`}).Draw(rt, "wrap")
			body := strings.Repeat("x", plain) + special + strings.Repeat("y", rapid.IntRange(0, 50).Draw(rt, "tail"))
			doc = []byte(strings.Replace(wrap, "%s", body, 1))
			if rapid.Bool().Draw(rt, "two") {
				doc = append(append(doc, ' '), doc...)
			}
			evid.Label("gen.large-late-special")
		default:
			// large document: array of many generated values (several KiB)
			n := rapid.IntRange(20, 400).Draw(rt, "n")
			var sb bytes.Buffer
			sb.WriteByte('[')
			for i := 0; i < n; i++ {
				if i > 0 {
					sb.WriteByte(',')
				}
				sb.Write(jgen.GenDocument(rt, 2))
			}
			sb.WriteByte(']')
			doc = sb.Bytes()
			if rapid.Bool().Draw(rt, "mutbig") {
				doc = jgen.Mutate(rt, doc)
			}
			evid.Label("gen.large")
		}
		c := Case{Doc: doc, What: "all"}
		evid.Eval(1)
		if stdjson.Valid(doc) {
			evid.Label("gen.reference-valid")
		} else {
			evid.Label("gen.reference-invalid")
		}
		if startsLikeJSON(doc) {
			evid.NonTrivial(evid.Hash([]byte("all"), doc))
		}
		evid.Sample(c)
		if f := checkCase(c); f != nil {
			if cls := knownClass(c, f); cls != "" && evid.KnownActive(cls) {
				evid.Excluded(cls)
				return
			}
			evid.Violation(rt, "Generated", c, f)
		}
	})
}

func TestReplay(t *testing.T) {
	files := evid.SavedReplays()
	if p := evid.ReplayFile(); p != "" {
		files = []string{p}
	}
	for _, p := range files {
		_, raw, err := evid.LoadReplayCase(p)
		if err != nil {
			t.Fatalf("replay %s: %v", p, err)
		}
		var c Case
		if err := stdjson.Unmarshal(raw, &c); err != nil || c.What == "" {
			continue
		}
		evid.Eval(1)
		if f := checkCase(c); f != nil {
			if cls := knownClass(c, f); cls != "" && evid.KnownActive(cls) {
				evid.Excluded(cls)
				continue
			}
			evid.Violation(t, "Replay", c, f)
		}
	}
}

func TestKnownFindings(t *testing.T) {
	cs := append([]evid.Class{}, classes...)
	for _, f := range evid.Findings() {
		if len(f.Witness) == 0 {
			continue
		}
		var c Case
		if err := stdjson.Unmarshal(f.Witness, &c); err != nil || c.What == "" {
			t.Errorf("finding %s: witness is not a C05 case: %v", f.ID, err)
			continue
		}
		cs = append(cs, evid.Class{Name: f.Class, Witness: func() *evid.Failure { return checkCase(c) }})
	}
	evid.RunWitnesses(t, cs)
}
