package c09

import (
	stdjson "encoding/json"
	"fmt"
	"reflect"
	"runtime"
	"strings"
	"sync"
	"sync/atomic"
	"testing"

	segjson "github.com/segmentio/encoding/json"
	"github.com/segmentio/encoding/proto"
	"github.com/segmentio/encoding/thrift"
	"pgregory.net/rapid"

	"verif/harness/evid"
	"verif/harness/jgen"
)

// GenCase: concurrent first use of one generated json type (the whole jgen type space: every
// specialised map and slice codec, embedded structs, marshalers, ",string" options) by G goroutines
// that each encode a value and decode a document N times, optionally while another goroutine forces
// garbage collections.
type GenCase struct {
	Type  jgen.TypeDesc `json:"type"`
	Value jgen.Recipe   `json:"value"`
	G     int           `json:"g"`
	N     int           `json:"n"`
	GC    bool          `json:"gc,omitempty"`
}

func genResult(typ reflect.Type, rec jgen.Recipe, doc []byte) (res string) {
	defer func() {
		if p := recover(); p != nil {
			res = fmt.Sprint("PANIC: ", p)
		}
	}()
	v := jgen.Build(typ, rec)
	b, err := segjson.Marshal(v.Interface())
	out := reflect.New(typ)
	uerr := segjson.Unmarshal(doc, out.Interface())
	b2, e2 := stdjson.Marshal(out.Interface())
	return fmt.Sprintf("%s|%v|%s|%v|%v", b, err, b2, uerr, e2)
}

func checkGenCase(c GenCase) *evid.Failure {
	td := jgen.Fresh(c.Type, int(nonce.Add(1))+evid.Shard()*100_000_000)
	typ := td.Type()
	doc, err := stdjson.Marshal(jgen.Build(typ, c.Value).Interface())
	if err != nil {
		doc = []byte(`{"A":1,"a":[1,"x",null],"k":{"b":"c"}}`)
	}
	results := make([][]string, c.G)
	var start, done, gc sync.WaitGroup
	var stop atomic.Bool
	start.Add(1)
	if c.GC {
		gc.Add(1)
		go func() {
			defer gc.Done()
			start.Wait()
			for !stop.Load() {
				runtime.GC()
			}
		}()
	}
	for g := 0; g < c.G; g++ {
		done.Add(1)
		go func(g int) {
			defer done.Done()
			start.Wait()
			for i := 0; i < c.N; i++ {
				results[g] = append(results[g], genResult(typ, c.Value, doc))
			}
		}(g)
	}
	start.Done()
	hung := waitCalls(&done)
	stop.Store(true)
	if hung != nil {
		return hung
	}
	gc.Wait()
	want := genResult(typ, c.Value, doc)
	for g, rs := range results {
		for i, r := range rs {
			if r != want {
				return &evid.Failure{Oracle: "each concurrent call returns exactly what it returns running alone", Observed: fmt.Sprintf("goroutine %d call %d on %s: %s", g, i, typ, trunc(r)), Expected: trunc(want), Class: "concurrent-result"}
			}
		}
	}
	return nil
}

func TestConcurrentGeneratedTypes(t *testing.T) {
	to := jgen.TypeOpts{MaxDepth: 3}
	evid.Check(t, "ConcurrentGeneratedTypes", 40, func(rt *rapid.T) {
		td := jgen.GenType(rt, to)
		c := GenCase{Type: td, Value: jgen.GenValue(rt, td.Type(), jgen.ValOpts{MaxLen: 6}), G: rapid.IntRange(2, 12).Draw(rt, "g"), N: rapid.IntRange(1, 6).Draw(rt, "n"), GC: rapid.Bool().Draw(rt, "gc")}
		evid.Journal("ConcurrentGeneratedTypes", c)
		f := checkGenCase(c)
		evid.Eval(1)
		evid.Label("generated-type.kind." + td.Type().Kind().String())
		if c.GC {
			evid.Label("generated-type.forced-gc")
		}
		evid.NonTrivial(evid.HashS("gen", fmt.Sprintf("%+v", c)))
		evid.Sample(c)
		if f != nil {
			evid.Violation(rt, "ConcurrentGeneratedTypes", c, f)
		}
	})
}

// DistinctCase: in every round each of G goroutines first-uses a type of its own that no one has seen before
// (same shape, different nonce), all released by one barrier: the copy-on-write codec caches take G racing
// insertions of distinct keys per round. Each result must be what the same call returns alone afterwards.
type DistinctCase struct {
	Spec   TypeSpec `json:"spec"`
	Op     string   `json:"op"`
	G      int      `json:"g"`
	Rounds int      `json:"rounds"`
}

func checkDistinctCase(c DistinctCase) *evid.Failure {
	for r := 0; r < c.Rounds; r++ {
		types := make([]reflect.Type, c.G)
		for g := range types {
			types[g] = materialise(c.Spec, nonce.Add(1)+int64(evid.Shard())*1_000_000_000)
		}
		res := make([]string, c.G)
		var start, done sync.WaitGroup
		start.Add(1)
		for g := 0; g < c.G; g++ {
			done.Add(1)
			go func(g int) {
				defer done.Done()
				start.Wait()
				res[g] = call(c.Op, types[g], g%10)
			}(g)
		}
		start.Done()
		if hung := waitCalls(&done); hung != nil {
			return hung
		}
		for g := range res {
			if want := call(c.Op, types[g], g%10); strings.HasPrefix(res[g], "PANIC") || res[g] != want {
				return &evid.Failure{Oracle: "each concurrent call returns exactly what it returns running alone", Observed: fmt.Sprintf("round %d goroutine %d %s on its own fresh type: %s", r, g, c.Op, trunc(res[g])), Expected: trunc(want), Class: "concurrent-result"}
			}
		}
	}
	return nil
}

func TestDistinctFirstUse(t *testing.T) {
	evid.Check(t, "DistinctFirstUse", 30, func(rt *rapid.T) {
		nf := rapid.IntRange(1, 6).Draw(rt, "nf")
		ts := TypeSpec{Fresh: true, BigNums: rapid.IntRange(0, 3).Draw(rt, "bignums") == 0}
		for j := 0; j < nf; j++ {
			ts.Kinds = append(ts.Kinds, rapid.SampledFrom(kinds).Draw(rt, "kind"))
		}
		c := DistinctCase{Spec: ts, Op: rapid.SampledFrom(ops).Draw(rt, "op"), G: rapid.IntRange(8, 32).Draw(rt, "g"), Rounds: rapid.IntRange(4, 16).Draw(rt, "rounds")}
		evid.Journal("DistinctFirstUse", c)
		f := checkDistinctCase(c)
		evid.Eval(1)
		evid.Label("distinct-first-use.op." + c.Op)
		evid.LabelN("distinct-first-use.racing-insertions", c.G*c.Rounds)
		evid.NonTrivial(evid.HashS("distinct", fmt.Sprintf("%+v", c)))
		evid.Sample(c)
		if f != nil {
			evid.Violation(rt, "DistinctFirstUse", c, f)
		}
	})
}

// fillMutual builds a deterministic value of one of the generated mutually recursive types.
func fillMutual(t reflect.Type, depth int) reflect.Value {
	v := reflect.New(t).Elem()
	for i := 0; i < t.NumField(); i++ {
		f := v.Field(i)
		switch f.Kind() {
		case reflect.Int64:
			f.SetInt(int64(100*depth + i))
		case reflect.String:
			f.SetString(fmt.Sprint("s", depth, i))
		case reflect.Ptr:
			if depth > 0 {
				e := fillMutual(f.Type().Elem(), depth-1)
				p := reflect.New(f.Type().Elem())
				p.Elem().Set(e)
				f.Set(p)
			}
		case reflect.Slice:
			if depth > 0 {
				e := fillMutual(f.Type().Elem().Elem(), depth-1)
				p := reflect.New(f.Type().Elem().Elem())
				p.Elem().Set(e)
				f.Set(reflect.Append(f, p, p))
			}
		case reflect.Map:
			if depth > 0 {
				e := fillMutual(f.Type().Elem().Elem(), depth-1)
				p := reflect.New(f.Type().Elem().Elem())
				p.Elem().Set(e)
				m := reflect.MakeMap(f.Type())
				m.SetMapIndex(reflect.ValueOf("k"), p)
				f.Set(m)
			}
		}
	}
	return v
}

func mutualCall(pkg string, t reflect.Type) (res string) {
	defer func() {
		if p := recover(); p != nil {
			res = fmt.Sprint("PANIC: ", p)
		}
	}()
	v := fillMutual(t, 3)
	ptr := reflect.New(t)
	ptr.Elem().Set(v)
	out := reflect.New(t)
	switch pkg {
	case "proto":
		b, err := proto.Marshal(ptr.Interface())
		uerr := proto.Unmarshal(b, out.Interface())
		back, _ := stdjson.Marshal(out.Interface())
		return fmt.Sprintf("%x|%v|%s|%v|%d", b, err, back, uerr, proto.Size(ptr.Interface()))
	case "json":
		b, err := segjson.Marshal(ptr.Interface())
		uerr := segjson.Unmarshal(b, out.Interface())
		back, _ := stdjson.Marshal(out.Interface())
		return fmt.Sprintf("%s|%v|%s|%v", b, err, back, uerr)
	default:
		b, err := thrift.Marshal(thrift.Protocol(compact), ptr.Interface())
		uerr := thrift.Unmarshal(thrift.Protocol(compact), b, out.Interface())
		back, _ := stdjson.Marshal(out.Interface())
		return fmt.Sprintf("%x|%v|%s|%v", b, err, back, uerr)
	}
}

// TestMutualFirstUse: the first use in this process of each of 40 pairs of mutually recursive message types is
// made by 8 goroutines at once, half of which start on one type of the pair and half on the other (the codec of
// one is built while the codec of the other is still under construction). Every result must be what the same call
// returns afterwards, alone.
func TestMutualFirstUse(t *testing.T) {
	n := 0
	for i, pair := range mutualPairs {
		pkg := []string{"proto", "json", "thrift"}[(i+evid.Shard())%3]
		const G = 8
		res := make([]string, G)
		var start, done sync.WaitGroup
		start.Add(1)
		for g := 0; g < G; g++ {
			done.Add(1)
			go func(g int) {
				defer done.Done()
				start.Wait()
				res[g] = mutualCall(pkg, pair[g%2])
			}(g)
		}
		evid.Journal("MutualFirstUse", map[string]any{"pair": i, "pkg": pkg})
		start.Done()
		if hung := waitCalls(&done); hung != nil {
			evid.Violation(t, "MutualFirstUse", map[string]any{"pair": i, "pkg": pkg}, hung)
		}
		for g := range res {
			n++
			if want := mutualCall(pkg, pair[g%2]); strings.HasPrefix(res[g], "PANIC") || res[g] != want {
				evid.Violation(t, "MutualFirstUse", map[string]any{"pair": i, "pkg": pkg, "goroutine": g},
					&evid.Failure{Oracle: "each concurrent call returns exactly what it returns running alone", Observed: trunc(res[g]), Expected: trunc(want), Class: "concurrent-result"})
			}
		}
		evid.NonTrivial(evid.HashS("mutual", fmt.Sprint(i, pkg, evid.Shard())))
	}
	evid.JournalClear()
	evid.Eval(n)
	evid.Label("mutually-recursive-types.concurrent-first-use")
	evid.Enumerated("MutualFirstUse", 1, 1)
}
