package c09

// Code generated for the check (see TestMutualFirstUse): 40 pairs of mutually recursive message types. Each pair is
// first used exactly once per process, by goroutines that start on either side of the pair at the same moment.

import "reflect"

type MutA00 struct {
	B *MutB00   `protobuf:"bytes,1,opt,name=b" json:"b,omitempty" thrift:"1,optional"`
	X int64     `protobuf:"varint,2,opt,name=x" json:"x" thrift:"2"`
	L []*MutB00 `protobuf:"bytes,3,rep,name=l" json:"l,omitempty" thrift:"3,optional"`
}

type MutB00 struct {
	A *MutA00            `protobuf:"bytes,1,opt,name=a" json:"a,omitempty" thrift:"1,optional"`
	S string             `protobuf:"bytes,2,opt,name=s" json:"s" thrift:"2"`
	M map[string]*MutA00 `protobuf:"bytes,3,rep,name=m" json:"m,omitempty" thrift:"3,optional"`
}

type MutA01 struct {
	B *MutB01   `protobuf:"bytes,1,opt,name=b" json:"b,omitempty" thrift:"1,optional"`
	X int64     `protobuf:"varint,2,opt,name=x" json:"x" thrift:"2"`
	L []*MutB01 `protobuf:"bytes,3,rep,name=l" json:"l,omitempty" thrift:"3,optional"`
}

type MutB01 struct {
	A *MutA01            `protobuf:"bytes,1,opt,name=a" json:"a,omitempty" thrift:"1,optional"`
	S string             `protobuf:"bytes,2,opt,name=s" json:"s" thrift:"2"`
	M map[string]*MutA01 `protobuf:"bytes,3,rep,name=m" json:"m,omitempty" thrift:"3,optional"`
}

type MutA02 struct {
	B *MutB02   `protobuf:"bytes,1,opt,name=b" json:"b,omitempty" thrift:"1,optional"`
	X int64     `protobuf:"varint,2,opt,name=x" json:"x" thrift:"2"`
	L []*MutB02 `protobuf:"bytes,3,rep,name=l" json:"l,omitempty" thrift:"3,optional"`
}

type MutB02 struct {
	A *MutA02            `protobuf:"bytes,1,opt,name=a" json:"a,omitempty" thrift:"1,optional"`
	S string             `protobuf:"bytes,2,opt,name=s" json:"s" thrift:"2"`
	M map[string]*MutA02 `protobuf:"bytes,3,rep,name=m" json:"m,omitempty" thrift:"3,optional"`
}

type MutA03 struct {
	B *MutB03   `protobuf:"bytes,1,opt,name=b" json:"b,omitempty" thrift:"1,optional"`
	X int64     `protobuf:"varint,2,opt,name=x" json:"x" thrift:"2"`
	L []*MutB03 `protobuf:"bytes,3,rep,name=l" json:"l,omitempty" thrift:"3,optional"`
}

type MutB03 struct {
	A *MutA03            `protobuf:"bytes,1,opt,name=a" json:"a,omitempty" thrift:"1,optional"`
	S string             `protobuf:"bytes,2,opt,name=s" json:"s" thrift:"2"`
	M map[string]*MutA03 `protobuf:"bytes,3,rep,name=m" json:"m,omitempty" thrift:"3,optional"`
}

type MutA04 struct {
	B *MutB04   `protobuf:"bytes,1,opt,name=b" json:"b,omitempty" thrift:"1,optional"`
	X int64     `protobuf:"varint,2,opt,name=x" json:"x" thrift:"2"`
	L []*MutB04 `protobuf:"bytes,3,rep,name=l" json:"l,omitempty" thrift:"3,optional"`
}

type MutB04 struct {
	A *MutA04            `protobuf:"bytes,1,opt,name=a" json:"a,omitempty" thrift:"1,optional"`
	S string             `protobuf:"bytes,2,opt,name=s" json:"s" thrift:"2"`
	M map[string]*MutA04 `protobuf:"bytes,3,rep,name=m" json:"m,omitempty" thrift:"3,optional"`
}

type MutA05 struct {
	B *MutB05   `protobuf:"bytes,1,opt,name=b" json:"b,omitempty" thrift:"1,optional"`
	X int64     `protobuf:"varint,2,opt,name=x" json:"x" thrift:"2"`
	L []*MutB05 `protobuf:"bytes,3,rep,name=l" json:"l,omitempty" thrift:"3,optional"`
}

type MutB05 struct {
	A *MutA05            `protobuf:"bytes,1,opt,name=a" json:"a,omitempty" thrift:"1,optional"`
	S string             `protobuf:"bytes,2,opt,name=s" json:"s" thrift:"2"`
	M map[string]*MutA05 `protobuf:"bytes,3,rep,name=m" json:"m,omitempty" thrift:"3,optional"`
}

type MutA06 struct {
	B *MutB06   `protobuf:"bytes,1,opt,name=b" json:"b,omitempty" thrift:"1,optional"`
	X int64     `protobuf:"varint,2,opt,name=x" json:"x" thrift:"2"`
	L []*MutB06 `protobuf:"bytes,3,rep,name=l" json:"l,omitempty" thrift:"3,optional"`
}

type MutB06 struct {
	A *MutA06            `protobuf:"bytes,1,opt,name=a" json:"a,omitempty" thrift:"1,optional"`
	S string             `protobuf:"bytes,2,opt,name=s" json:"s" thrift:"2"`
	M map[string]*MutA06 `protobuf:"bytes,3,rep,name=m" json:"m,omitempty" thrift:"3,optional"`
}

type MutA07 struct {
	B *MutB07   `protobuf:"bytes,1,opt,name=b" json:"b,omitempty" thrift:"1,optional"`
	X int64     `protobuf:"varint,2,opt,name=x" json:"x" thrift:"2"`
	L []*MutB07 `protobuf:"bytes,3,rep,name=l" json:"l,omitempty" thrift:"3,optional"`
}

type MutB07 struct {
	A *MutA07            `protobuf:"bytes,1,opt,name=a" json:"a,omitempty" thrift:"1,optional"`
	S string             `protobuf:"bytes,2,opt,name=s" json:"s" thrift:"2"`
	M map[string]*MutA07 `protobuf:"bytes,3,rep,name=m" json:"m,omitempty" thrift:"3,optional"`
}

type MutA08 struct {
	B *MutB08   `protobuf:"bytes,1,opt,name=b" json:"b,omitempty" thrift:"1,optional"`
	X int64     `protobuf:"varint,2,opt,name=x" json:"x" thrift:"2"`
	L []*MutB08 `protobuf:"bytes,3,rep,name=l" json:"l,omitempty" thrift:"3,optional"`
}

type MutB08 struct {
	A *MutA08            `protobuf:"bytes,1,opt,name=a" json:"a,omitempty" thrift:"1,optional"`
	S string             `protobuf:"bytes,2,opt,name=s" json:"s" thrift:"2"`
	M map[string]*MutA08 `protobuf:"bytes,3,rep,name=m" json:"m,omitempty" thrift:"3,optional"`
}

type MutA09 struct {
	B *MutB09   `protobuf:"bytes,1,opt,name=b" json:"b,omitempty" thrift:"1,optional"`
	X int64     `protobuf:"varint,2,opt,name=x" json:"x" thrift:"2"`
	L []*MutB09 `protobuf:"bytes,3,rep,name=l" json:"l,omitempty" thrift:"3,optional"`
}

type MutB09 struct {
	A *MutA09            `protobuf:"bytes,1,opt,name=a" json:"a,omitempty" thrift:"1,optional"`
	S string             `protobuf:"bytes,2,opt,name=s" json:"s" thrift:"2"`
	M map[string]*MutA09 `protobuf:"bytes,3,rep,name=m" json:"m,omitempty" thrift:"3,optional"`
}

type MutA10 struct {
	B *MutB10   `protobuf:"bytes,1,opt,name=b" json:"b,omitempty" thrift:"1,optional"`
	X int64     `protobuf:"varint,2,opt,name=x" json:"x" thrift:"2"`
	L []*MutB10 `protobuf:"bytes,3,rep,name=l" json:"l,omitempty" thrift:"3,optional"`
}

type MutB10 struct {
	A *MutA10            `protobuf:"bytes,1,opt,name=a" json:"a,omitempty" thrift:"1,optional"`
	S string             `protobuf:"bytes,2,opt,name=s" json:"s" thrift:"2"`
	M map[string]*MutA10 `protobuf:"bytes,3,rep,name=m" json:"m,omitempty" thrift:"3,optional"`
}

type MutA11 struct {
	B *MutB11   `protobuf:"bytes,1,opt,name=b" json:"b,omitempty" thrift:"1,optional"`
	X int64     `protobuf:"varint,2,opt,name=x" json:"x" thrift:"2"`
	L []*MutB11 `protobuf:"bytes,3,rep,name=l" json:"l,omitempty" thrift:"3,optional"`
}

type MutB11 struct {
	A *MutA11            `protobuf:"bytes,1,opt,name=a" json:"a,omitempty" thrift:"1,optional"`
	S string             `protobuf:"bytes,2,opt,name=s" json:"s" thrift:"2"`
	M map[string]*MutA11 `protobuf:"bytes,3,rep,name=m" json:"m,omitempty" thrift:"3,optional"`
}

type MutA12 struct {
	B *MutB12   `protobuf:"bytes,1,opt,name=b" json:"b,omitempty" thrift:"1,optional"`
	X int64     `protobuf:"varint,2,opt,name=x" json:"x" thrift:"2"`
	L []*MutB12 `protobuf:"bytes,3,rep,name=l" json:"l,omitempty" thrift:"3,optional"`
}

type MutB12 struct {
	A *MutA12            `protobuf:"bytes,1,opt,name=a" json:"a,omitempty" thrift:"1,optional"`
	S string             `protobuf:"bytes,2,opt,name=s" json:"s" thrift:"2"`
	M map[string]*MutA12 `protobuf:"bytes,3,rep,name=m" json:"m,omitempty" thrift:"3,optional"`
}

type MutA13 struct {
	B *MutB13   `protobuf:"bytes,1,opt,name=b" json:"b,omitempty" thrift:"1,optional"`
	X int64     `protobuf:"varint,2,opt,name=x" json:"x" thrift:"2"`
	L []*MutB13 `protobuf:"bytes,3,rep,name=l" json:"l,omitempty" thrift:"3,optional"`
}

type MutB13 struct {
	A *MutA13            `protobuf:"bytes,1,opt,name=a" json:"a,omitempty" thrift:"1,optional"`
	S string             `protobuf:"bytes,2,opt,name=s" json:"s" thrift:"2"`
	M map[string]*MutA13 `protobuf:"bytes,3,rep,name=m" json:"m,omitempty" thrift:"3,optional"`
}

type MutA14 struct {
	B *MutB14   `protobuf:"bytes,1,opt,name=b" json:"b,omitempty" thrift:"1,optional"`
	X int64     `protobuf:"varint,2,opt,name=x" json:"x" thrift:"2"`
	L []*MutB14 `protobuf:"bytes,3,rep,name=l" json:"l,omitempty" thrift:"3,optional"`
}

type MutB14 struct {
	A *MutA14            `protobuf:"bytes,1,opt,name=a" json:"a,omitempty" thrift:"1,optional"`
	S string             `protobuf:"bytes,2,opt,name=s" json:"s" thrift:"2"`
	M map[string]*MutA14 `protobuf:"bytes,3,rep,name=m" json:"m,omitempty" thrift:"3,optional"`
}

type MutA15 struct {
	B *MutB15   `protobuf:"bytes,1,opt,name=b" json:"b,omitempty" thrift:"1,optional"`
	X int64     `protobuf:"varint,2,opt,name=x" json:"x" thrift:"2"`
	L []*MutB15 `protobuf:"bytes,3,rep,name=l" json:"l,omitempty" thrift:"3,optional"`
}

type MutB15 struct {
	A *MutA15            `protobuf:"bytes,1,opt,name=a" json:"a,omitempty" thrift:"1,optional"`
	S string             `protobuf:"bytes,2,opt,name=s" json:"s" thrift:"2"`
	M map[string]*MutA15 `protobuf:"bytes,3,rep,name=m" json:"m,omitempty" thrift:"3,optional"`
}

type MutA16 struct {
	B *MutB16   `protobuf:"bytes,1,opt,name=b" json:"b,omitempty" thrift:"1,optional"`
	X int64     `protobuf:"varint,2,opt,name=x" json:"x" thrift:"2"`
	L []*MutB16 `protobuf:"bytes,3,rep,name=l" json:"l,omitempty" thrift:"3,optional"`
}

type MutB16 struct {
	A *MutA16            `protobuf:"bytes,1,opt,name=a" json:"a,omitempty" thrift:"1,optional"`
	S string             `protobuf:"bytes,2,opt,name=s" json:"s" thrift:"2"`
	M map[string]*MutA16 `protobuf:"bytes,3,rep,name=m" json:"m,omitempty" thrift:"3,optional"`
}

type MutA17 struct {
	B *MutB17   `protobuf:"bytes,1,opt,name=b" json:"b,omitempty" thrift:"1,optional"`
	X int64     `protobuf:"varint,2,opt,name=x" json:"x" thrift:"2"`
	L []*MutB17 `protobuf:"bytes,3,rep,name=l" json:"l,omitempty" thrift:"3,optional"`
}

type MutB17 struct {
	A *MutA17            `protobuf:"bytes,1,opt,name=a" json:"a,omitempty" thrift:"1,optional"`
	S string             `protobuf:"bytes,2,opt,name=s" json:"s" thrift:"2"`
	M map[string]*MutA17 `protobuf:"bytes,3,rep,name=m" json:"m,omitempty" thrift:"3,optional"`
}

type MutA18 struct {
	B *MutB18   `protobuf:"bytes,1,opt,name=b" json:"b,omitempty" thrift:"1,optional"`
	X int64     `protobuf:"varint,2,opt,name=x" json:"x" thrift:"2"`
	L []*MutB18 `protobuf:"bytes,3,rep,name=l" json:"l,omitempty" thrift:"3,optional"`
}

type MutB18 struct {
	A *MutA18            `protobuf:"bytes,1,opt,name=a" json:"a,omitempty" thrift:"1,optional"`
	S string             `protobuf:"bytes,2,opt,name=s" json:"s" thrift:"2"`
	M map[string]*MutA18 `protobuf:"bytes,3,rep,name=m" json:"m,omitempty" thrift:"3,optional"`
}

type MutA19 struct {
	B *MutB19   `protobuf:"bytes,1,opt,name=b" json:"b,omitempty" thrift:"1,optional"`
	X int64     `protobuf:"varint,2,opt,name=x" json:"x" thrift:"2"`
	L []*MutB19 `protobuf:"bytes,3,rep,name=l" json:"l,omitempty" thrift:"3,optional"`
}

type MutB19 struct {
	A *MutA19            `protobuf:"bytes,1,opt,name=a" json:"a,omitempty" thrift:"1,optional"`
	S string             `protobuf:"bytes,2,opt,name=s" json:"s" thrift:"2"`
	M map[string]*MutA19 `protobuf:"bytes,3,rep,name=m" json:"m,omitempty" thrift:"3,optional"`
}

type MutA20 struct {
	B *MutB20   `protobuf:"bytes,1,opt,name=b" json:"b,omitempty" thrift:"1,optional"`
	X int64     `protobuf:"varint,2,opt,name=x" json:"x" thrift:"2"`
	L []*MutB20 `protobuf:"bytes,3,rep,name=l" json:"l,omitempty" thrift:"3,optional"`
}

type MutB20 struct {
	A *MutA20            `protobuf:"bytes,1,opt,name=a" json:"a,omitempty" thrift:"1,optional"`
	S string             `protobuf:"bytes,2,opt,name=s" json:"s" thrift:"2"`
	M map[string]*MutA20 `protobuf:"bytes,3,rep,name=m" json:"m,omitempty" thrift:"3,optional"`
}

type MutA21 struct {
	B *MutB21   `protobuf:"bytes,1,opt,name=b" json:"b,omitempty" thrift:"1,optional"`
	X int64     `protobuf:"varint,2,opt,name=x" json:"x" thrift:"2"`
	L []*MutB21 `protobuf:"bytes,3,rep,name=l" json:"l,omitempty" thrift:"3,optional"`
}

type MutB21 struct {
	A *MutA21            `protobuf:"bytes,1,opt,name=a" json:"a,omitempty" thrift:"1,optional"`
	S string             `protobuf:"bytes,2,opt,name=s" json:"s" thrift:"2"`
	M map[string]*MutA21 `protobuf:"bytes,3,rep,name=m" json:"m,omitempty" thrift:"3,optional"`
}

type MutA22 struct {
	B *MutB22   `protobuf:"bytes,1,opt,name=b" json:"b,omitempty" thrift:"1,optional"`
	X int64     `protobuf:"varint,2,opt,name=x" json:"x" thrift:"2"`
	L []*MutB22 `protobuf:"bytes,3,rep,name=l" json:"l,omitempty" thrift:"3,optional"`
}

type MutB22 struct {
	A *MutA22            `protobuf:"bytes,1,opt,name=a" json:"a,omitempty" thrift:"1,optional"`
	S string             `protobuf:"bytes,2,opt,name=s" json:"s" thrift:"2"`
	M map[string]*MutA22 `protobuf:"bytes,3,rep,name=m" json:"m,omitempty" thrift:"3,optional"`
}

type MutA23 struct {
	B *MutB23   `protobuf:"bytes,1,opt,name=b" json:"b,omitempty" thrift:"1,optional"`
	X int64     `protobuf:"varint,2,opt,name=x" json:"x" thrift:"2"`
	L []*MutB23 `protobuf:"bytes,3,rep,name=l" json:"l,omitempty" thrift:"3,optional"`
}

type MutB23 struct {
	A *MutA23            `protobuf:"bytes,1,opt,name=a" json:"a,omitempty" thrift:"1,optional"`
	S string             `protobuf:"bytes,2,opt,name=s" json:"s" thrift:"2"`
	M map[string]*MutA23 `protobuf:"bytes,3,rep,name=m" json:"m,omitempty" thrift:"3,optional"`
}

type MutA24 struct {
	B *MutB24   `protobuf:"bytes,1,opt,name=b" json:"b,omitempty" thrift:"1,optional"`
	X int64     `protobuf:"varint,2,opt,name=x" json:"x" thrift:"2"`
	L []*MutB24 `protobuf:"bytes,3,rep,name=l" json:"l,omitempty" thrift:"3,optional"`
}

type MutB24 struct {
	A *MutA24            `protobuf:"bytes,1,opt,name=a" json:"a,omitempty" thrift:"1,optional"`
	S string             `protobuf:"bytes,2,opt,name=s" json:"s" thrift:"2"`
	M map[string]*MutA24 `protobuf:"bytes,3,rep,name=m" json:"m,omitempty" thrift:"3,optional"`
}

type MutA25 struct {
	B *MutB25   `protobuf:"bytes,1,opt,name=b" json:"b,omitempty" thrift:"1,optional"`
	X int64     `protobuf:"varint,2,opt,name=x" json:"x" thrift:"2"`
	L []*MutB25 `protobuf:"bytes,3,rep,name=l" json:"l,omitempty" thrift:"3,optional"`
}

type MutB25 struct {
	A *MutA25            `protobuf:"bytes,1,opt,name=a" json:"a,omitempty" thrift:"1,optional"`
	S string             `protobuf:"bytes,2,opt,name=s" json:"s" thrift:"2"`
	M map[string]*MutA25 `protobuf:"bytes,3,rep,name=m" json:"m,omitempty" thrift:"3,optional"`
}

type MutA26 struct {
	B *MutB26   `protobuf:"bytes,1,opt,name=b" json:"b,omitempty" thrift:"1,optional"`
	X int64     `protobuf:"varint,2,opt,name=x" json:"x" thrift:"2"`
	L []*MutB26 `protobuf:"bytes,3,rep,name=l" json:"l,omitempty" thrift:"3,optional"`
}

type MutB26 struct {
	A *MutA26            `protobuf:"bytes,1,opt,name=a" json:"a,omitempty" thrift:"1,optional"`
	S string             `protobuf:"bytes,2,opt,name=s" json:"s" thrift:"2"`
	M map[string]*MutA26 `protobuf:"bytes,3,rep,name=m" json:"m,omitempty" thrift:"3,optional"`
}

type MutA27 struct {
	B *MutB27   `protobuf:"bytes,1,opt,name=b" json:"b,omitempty" thrift:"1,optional"`
	X int64     `protobuf:"varint,2,opt,name=x" json:"x" thrift:"2"`
	L []*MutB27 `protobuf:"bytes,3,rep,name=l" json:"l,omitempty" thrift:"3,optional"`
}

type MutB27 struct {
	A *MutA27            `protobuf:"bytes,1,opt,name=a" json:"a,omitempty" thrift:"1,optional"`
	S string             `protobuf:"bytes,2,opt,name=s" json:"s" thrift:"2"`
	M map[string]*MutA27 `protobuf:"bytes,3,rep,name=m" json:"m,omitempty" thrift:"3,optional"`
}

type MutA28 struct {
	B *MutB28   `protobuf:"bytes,1,opt,name=b" json:"b,omitempty" thrift:"1,optional"`
	X int64     `protobuf:"varint,2,opt,name=x" json:"x" thrift:"2"`
	L []*MutB28 `protobuf:"bytes,3,rep,name=l" json:"l,omitempty" thrift:"3,optional"`
}

type MutB28 struct {
	A *MutA28            `protobuf:"bytes,1,opt,name=a" json:"a,omitempty" thrift:"1,optional"`
	S string             `protobuf:"bytes,2,opt,name=s" json:"s" thrift:"2"`
	M map[string]*MutA28 `protobuf:"bytes,3,rep,name=m" json:"m,omitempty" thrift:"3,optional"`
}

type MutA29 struct {
	B *MutB29   `protobuf:"bytes,1,opt,name=b" json:"b,omitempty" thrift:"1,optional"`
	X int64     `protobuf:"varint,2,opt,name=x" json:"x" thrift:"2"`
	L []*MutB29 `protobuf:"bytes,3,rep,name=l" json:"l,omitempty" thrift:"3,optional"`
}

type MutB29 struct {
	A *MutA29            `protobuf:"bytes,1,opt,name=a" json:"a,omitempty" thrift:"1,optional"`
	S string             `protobuf:"bytes,2,opt,name=s" json:"s" thrift:"2"`
	M map[string]*MutA29 `protobuf:"bytes,3,rep,name=m" json:"m,omitempty" thrift:"3,optional"`
}

type MutA30 struct {
	B *MutB30   `protobuf:"bytes,1,opt,name=b" json:"b,omitempty" thrift:"1,optional"`
	X int64     `protobuf:"varint,2,opt,name=x" json:"x" thrift:"2"`
	L []*MutB30 `protobuf:"bytes,3,rep,name=l" json:"l,omitempty" thrift:"3,optional"`
}

type MutB30 struct {
	A *MutA30            `protobuf:"bytes,1,opt,name=a" json:"a,omitempty" thrift:"1,optional"`
	S string             `protobuf:"bytes,2,opt,name=s" json:"s" thrift:"2"`
	M map[string]*MutA30 `protobuf:"bytes,3,rep,name=m" json:"m,omitempty" thrift:"3,optional"`
}

type MutA31 struct {
	B *MutB31   `protobuf:"bytes,1,opt,name=b" json:"b,omitempty" thrift:"1,optional"`
	X int64     `protobuf:"varint,2,opt,name=x" json:"x" thrift:"2"`
	L []*MutB31 `protobuf:"bytes,3,rep,name=l" json:"l,omitempty" thrift:"3,optional"`
}

type MutB31 struct {
	A *MutA31            `protobuf:"bytes,1,opt,name=a" json:"a,omitempty" thrift:"1,optional"`
	S string             `protobuf:"bytes,2,opt,name=s" json:"s" thrift:"2"`
	M map[string]*MutA31 `protobuf:"bytes,3,rep,name=m" json:"m,omitempty" thrift:"3,optional"`
}

type MutA32 struct {
	B *MutB32   `protobuf:"bytes,1,opt,name=b" json:"b,omitempty" thrift:"1,optional"`
	X int64     `protobuf:"varint,2,opt,name=x" json:"x" thrift:"2"`
	L []*MutB32 `protobuf:"bytes,3,rep,name=l" json:"l,omitempty" thrift:"3,optional"`
}

type MutB32 struct {
	A *MutA32            `protobuf:"bytes,1,opt,name=a" json:"a,omitempty" thrift:"1,optional"`
	S string             `protobuf:"bytes,2,opt,name=s" json:"s" thrift:"2"`
	M map[string]*MutA32 `protobuf:"bytes,3,rep,name=m" json:"m,omitempty" thrift:"3,optional"`
}

type MutA33 struct {
	B *MutB33   `protobuf:"bytes,1,opt,name=b" json:"b,omitempty" thrift:"1,optional"`
	X int64     `protobuf:"varint,2,opt,name=x" json:"x" thrift:"2"`
	L []*MutB33 `protobuf:"bytes,3,rep,name=l" json:"l,omitempty" thrift:"3,optional"`
}

type MutB33 struct {
	A *MutA33            `protobuf:"bytes,1,opt,name=a" json:"a,omitempty" thrift:"1,optional"`
	S string             `protobuf:"bytes,2,opt,name=s" json:"s" thrift:"2"`
	M map[string]*MutA33 `protobuf:"bytes,3,rep,name=m" json:"m,omitempty" thrift:"3,optional"`
}

type MutA34 struct {
	B *MutB34   `protobuf:"bytes,1,opt,name=b" json:"b,omitempty" thrift:"1,optional"`
	X int64     `protobuf:"varint,2,opt,name=x" json:"x" thrift:"2"`
	L []*MutB34 `protobuf:"bytes,3,rep,name=l" json:"l,omitempty" thrift:"3,optional"`
}

type MutB34 struct {
	A *MutA34            `protobuf:"bytes,1,opt,name=a" json:"a,omitempty" thrift:"1,optional"`
	S string             `protobuf:"bytes,2,opt,name=s" json:"s" thrift:"2"`
	M map[string]*MutA34 `protobuf:"bytes,3,rep,name=m" json:"m,omitempty" thrift:"3,optional"`
}

type MutA35 struct {
	B *MutB35   `protobuf:"bytes,1,opt,name=b" json:"b,omitempty" thrift:"1,optional"`
	X int64     `protobuf:"varint,2,opt,name=x" json:"x" thrift:"2"`
	L []*MutB35 `protobuf:"bytes,3,rep,name=l" json:"l,omitempty" thrift:"3,optional"`
}

type MutB35 struct {
	A *MutA35            `protobuf:"bytes,1,opt,name=a" json:"a,omitempty" thrift:"1,optional"`
	S string             `protobuf:"bytes,2,opt,name=s" json:"s" thrift:"2"`
	M map[string]*MutA35 `protobuf:"bytes,3,rep,name=m" json:"m,omitempty" thrift:"3,optional"`
}

type MutA36 struct {
	B *MutB36   `protobuf:"bytes,1,opt,name=b" json:"b,omitempty" thrift:"1,optional"`
	X int64     `protobuf:"varint,2,opt,name=x" json:"x" thrift:"2"`
	L []*MutB36 `protobuf:"bytes,3,rep,name=l" json:"l,omitempty" thrift:"3,optional"`
}

type MutB36 struct {
	A *MutA36            `protobuf:"bytes,1,opt,name=a" json:"a,omitempty" thrift:"1,optional"`
	S string             `protobuf:"bytes,2,opt,name=s" json:"s" thrift:"2"`
	M map[string]*MutA36 `protobuf:"bytes,3,rep,name=m" json:"m,omitempty" thrift:"3,optional"`
}

type MutA37 struct {
	B *MutB37   `protobuf:"bytes,1,opt,name=b" json:"b,omitempty" thrift:"1,optional"`
	X int64     `protobuf:"varint,2,opt,name=x" json:"x" thrift:"2"`
	L []*MutB37 `protobuf:"bytes,3,rep,name=l" json:"l,omitempty" thrift:"3,optional"`
}

type MutB37 struct {
	A *MutA37            `protobuf:"bytes,1,opt,name=a" json:"a,omitempty" thrift:"1,optional"`
	S string             `protobuf:"bytes,2,opt,name=s" json:"s" thrift:"2"`
	M map[string]*MutA37 `protobuf:"bytes,3,rep,name=m" json:"m,omitempty" thrift:"3,optional"`
}

type MutA38 struct {
	B *MutB38   `protobuf:"bytes,1,opt,name=b" json:"b,omitempty" thrift:"1,optional"`
	X int64     `protobuf:"varint,2,opt,name=x" json:"x" thrift:"2"`
	L []*MutB38 `protobuf:"bytes,3,rep,name=l" json:"l,omitempty" thrift:"3,optional"`
}

type MutB38 struct {
	A *MutA38            `protobuf:"bytes,1,opt,name=a" json:"a,omitempty" thrift:"1,optional"`
	S string             `protobuf:"bytes,2,opt,name=s" json:"s" thrift:"2"`
	M map[string]*MutA38 `protobuf:"bytes,3,rep,name=m" json:"m,omitempty" thrift:"3,optional"`
}

type MutA39 struct {
	B *MutB39   `protobuf:"bytes,1,opt,name=b" json:"b,omitempty" thrift:"1,optional"`
	X int64     `protobuf:"varint,2,opt,name=x" json:"x" thrift:"2"`
	L []*MutB39 `protobuf:"bytes,3,rep,name=l" json:"l,omitempty" thrift:"3,optional"`
}

type MutB39 struct {
	A *MutA39            `protobuf:"bytes,1,opt,name=a" json:"a,omitempty" thrift:"1,optional"`
	S string             `protobuf:"bytes,2,opt,name=s" json:"s" thrift:"2"`
	M map[string]*MutA39 `protobuf:"bytes,3,rep,name=m" json:"m,omitempty" thrift:"3,optional"`
}

var mutualPairs = [][2]reflect.Type{
	{reflect.TypeOf(MutA00{}), reflect.TypeOf(MutB00{})},
	{reflect.TypeOf(MutA01{}), reflect.TypeOf(MutB01{})},
	{reflect.TypeOf(MutA02{}), reflect.TypeOf(MutB02{})},
	{reflect.TypeOf(MutA03{}), reflect.TypeOf(MutB03{})},
	{reflect.TypeOf(MutA04{}), reflect.TypeOf(MutB04{})},
	{reflect.TypeOf(MutA05{}), reflect.TypeOf(MutB05{})},
	{reflect.TypeOf(MutA06{}), reflect.TypeOf(MutB06{})},
	{reflect.TypeOf(MutA07{}), reflect.TypeOf(MutB07{})},
	{reflect.TypeOf(MutA08{}), reflect.TypeOf(MutB08{})},
	{reflect.TypeOf(MutA09{}), reflect.TypeOf(MutB09{})},
	{reflect.TypeOf(MutA10{}), reflect.TypeOf(MutB10{})},
	{reflect.TypeOf(MutA11{}), reflect.TypeOf(MutB11{})},
	{reflect.TypeOf(MutA12{}), reflect.TypeOf(MutB12{})},
	{reflect.TypeOf(MutA13{}), reflect.TypeOf(MutB13{})},
	{reflect.TypeOf(MutA14{}), reflect.TypeOf(MutB14{})},
	{reflect.TypeOf(MutA15{}), reflect.TypeOf(MutB15{})},
	{reflect.TypeOf(MutA16{}), reflect.TypeOf(MutB16{})},
	{reflect.TypeOf(MutA17{}), reflect.TypeOf(MutB17{})},
	{reflect.TypeOf(MutA18{}), reflect.TypeOf(MutB18{})},
	{reflect.TypeOf(MutA19{}), reflect.TypeOf(MutB19{})},
	{reflect.TypeOf(MutA20{}), reflect.TypeOf(MutB20{})},
	{reflect.TypeOf(MutA21{}), reflect.TypeOf(MutB21{})},
	{reflect.TypeOf(MutA22{}), reflect.TypeOf(MutB22{})},
	{reflect.TypeOf(MutA23{}), reflect.TypeOf(MutB23{})},
	{reflect.TypeOf(MutA24{}), reflect.TypeOf(MutB24{})},
	{reflect.TypeOf(MutA25{}), reflect.TypeOf(MutB25{})},
	{reflect.TypeOf(MutA26{}), reflect.TypeOf(MutB26{})},
	{reflect.TypeOf(MutA27{}), reflect.TypeOf(MutB27{})},
	{reflect.TypeOf(MutA28{}), reflect.TypeOf(MutB28{})},
	{reflect.TypeOf(MutA29{}), reflect.TypeOf(MutB29{})},
	{reflect.TypeOf(MutA30{}), reflect.TypeOf(MutB30{})},
	{reflect.TypeOf(MutA31{}), reflect.TypeOf(MutB31{})},
	{reflect.TypeOf(MutA32{}), reflect.TypeOf(MutB32{})},
	{reflect.TypeOf(MutA33{}), reflect.TypeOf(MutB33{})},
	{reflect.TypeOf(MutA34{}), reflect.TypeOf(MutB34{})},
	{reflect.TypeOf(MutA35{}), reflect.TypeOf(MutB35{})},
	{reflect.TypeOf(MutA36{}), reflect.TypeOf(MutB36{})},
	{reflect.TypeOf(MutA37{}), reflect.TypeOf(MutB37{})},
	{reflect.TypeOf(MutA38{}), reflect.TypeOf(MutB38{})},
	{reflect.TypeOf(MutA39{}), reflect.TypeOf(MutB39{})},
}
