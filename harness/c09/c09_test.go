// C09 — all packages are safe and deterministic under concurrent first use.
//
// The test binary is built with -race. A rapid-generated script assigns to G
// goroutines, for R rounds started on a barrier, a list of library calls over a
// type table mixing fresh (never seen by this process) struct types, types
// shared by several goroutines, recursive corpus types and large values. Every
// result is then compared with the same call executed alone afterwards.
package c09

import (
	"bytes"
	stdjson "encoding/json"
	"fmt"
	"reflect"
	"runtime"
	"strings"
	"sync"
	"sync/atomic"
	"testing"
	"time"

	segjson "github.com/segmentio/encoding/json"
	"github.com/segmentio/encoding/proto"
	"github.com/segmentio/encoding/thrift"
	"pgregory.net/rapid"

	"verif/harness/evid"
)

func TestMain(m *testing.M) { evid.Main(m, "C09") }

// TypeSpec describes a struct type acceptable to json, proto and thrift:
// fields F1..Fn of the listed kinds, thrift ids 1..n, proto numbers by order.
type TypeSpec struct {
	Kinds []string `json:"kinds"` // bool int32 int64 float64 string bytes ints strs map sub psub
	Fresh bool     `json:"fresh"` // materialised with a process-unique nonce
	// BigNums: explicit protobuf tags with field numbers 500, 1000, 1500, ... (the proto struct decoder keeps
	// numbers up to 1023 in an index and larger ones in a separate table)
	BigNums bool `json:"big_nums,omitempty"`
}

type Step struct {
	Op   string `json:"op"`
	Type int    `json:"type"`
	Val  int    `json:"val"`
}

type Case struct {
	Types  []TypeSpec `json:"types"`
	Rounds [][][]Step `json:"rounds"` // [round][goroutine][steps]
	Procs  int        `json:"procs,omitempty"`
	// GC: one more goroutine forces garbage collections for the duration of each round. Values the
	// library keeps only behind unsafe pointers / wrongly typed scratch memory are then collected while
	// in use and a call no longer returns what it returns running alone.
	GC bool `json:"gc,omitempty"`
}

var nonce atomic.Int64

var subType = reflect.TypeOf(struct {
	A int32  `thrift:"1"`
	S string `thrift:"2"`
}{})

func kindType(k string) reflect.Type {
	switch k {
	case "bool":
		return reflect.TypeOf(false)
	case "int32":
		return reflect.TypeOf(int32(0))
	case "int64":
		return reflect.TypeOf(int64(0))
	case "float64":
		return reflect.TypeOf(float64(0))
	case "string":
		return reflect.TypeOf("")
	case "bytes":
		return reflect.TypeOf([]byte(nil))
	case "ints":
		return reflect.TypeOf([]int64(nil))
	case "strs":
		return reflect.TypeOf([]string(nil))
	case "map":
		return reflect.TypeOf(map[string]int32(nil))
	case "set":
		return reflect.TypeOf(map[string]struct{}(nil))
	case "iset":
		return reflect.TypeOf(map[int32]struct{}(nil))
	case "sub":
		return subType
	case "psub":
		return reflect.PointerTo(subType)
	}
	panic("bad kind " + k)
}

func materialise(ts TypeSpec, n int64) reflect.Type {
	fs := make([]reflect.StructField, len(ts.Kinds))
	for i, k := range ts.Kinds {
		tag := fmt.Sprintf(`thrift:"%d" json:"f%d,omitempty"`, i+1, i+1)
		if ts.BigNums {
			wire, rep := "bytes", "opt"
			switch k {
			case "bool", "int32", "int64":
				wire = "varint"
			case "float64":
				wire = "fixed64"
			case "ints":
				wire, rep = "varint", "rep"
			case "strs", "map", "set", "iset":
				rep = "rep"
			}
			tag += fmt.Sprintf(` protobuf:"%s,%d,%s,name=f%d"`, wire, (i+1)*500, rep, i+1)
		}
		if i == 0 {
			tag += fmt.Sprintf(` v:"%d"`, n)
		}
		fs[i] = reflect.StructField{Name: fmt.Sprintf("F%d", i+1), Type: kindType(k), Tag: reflect.StructTag(tag)}
	}
	return reflect.StructOf(fs)
}

// value builds the val-th deterministic value of type t (large for val%5==4).
func value(t reflect.Type, val int) reflect.Value {
	v := reflect.New(t).Elem()
	big := val%5 == 4
	for i := 0; i < t.NumField(); i++ {
		f := v.Field(i)
		x := val*31 + i*7 + 1
		switch f.Kind() {
		case reflect.Bool:
			f.SetBool(x%2 == 1)
		case reflect.Int32, reflect.Int64:
			f.SetInt(int64(x) * 1000003)
		case reflect.Float64:
			f.SetFloat(float64(x) / 8)
		case reflect.String:
			n := 3 + x%9
			if big {
				n = 6000 + x%50000
			}
			f.SetString(strings.Repeat(string(rune('a'+x%26)), n))
		case reflect.Slice:
			switch f.Type().Elem().Kind() {
			case reflect.Uint8:
				f.SetBytes(bytes.Repeat([]byte{byte(x)}, 1+x%40))
			case reflect.Int64:
				n := x % 25
				if big {
					n = 3000
				}
				s := make([]int64, n)
				for j := range s {
					s[j] = int64(j*x) - 500
				}
				f.Set(reflect.ValueOf(s))
			case reflect.String:
				s := make([]string, x%6)
				for j := range s {
					s[j] = fmt.Sprint("s", j, x)
				}
				f.Set(reflect.ValueOf(s))
			}
		case reflect.Map:
			switch f.Type() {
			case reflect.TypeOf(map[string]struct{}(nil)):
				m := map[string]struct{}{}
				for j := 0; j < 1+x%7; j++ {
					m[fmt.Sprint("e", j*x)] = struct{}{}
				}
				f.Set(reflect.ValueOf(m))
			case reflect.TypeOf(map[int32]struct{}(nil)):
				m := map[int32]struct{}{}
				for j := 0; j < 1+x%7; j++ {
					m[int32(j*x+1)] = struct{}{}
				}
				f.Set(reflect.ValueOf(m))
			default:
				m := map[string]int32{}
				for j := 0; j < 1+x%5; j++ {
					m[fmt.Sprint("k", j)] = int32(j + x)
				}
				f.Set(reflect.ValueOf(m))
			}
		case reflect.Struct:
			f.Field(0).SetInt(int64(x))
			f.Field(1).SetString(fmt.Sprint("sub", x))
		case reflect.Ptr:
			p := reflect.New(subType)
			p.Elem().Field(0).SetInt(int64(x))
			p.Elem().Field(1).SetString(fmt.Sprint("psub", x))
			f.Set(p)
		}
	}
	return v
}

var compact = new(thrift.CompactProtocol)
var binaryP = new(thrift.BinaryProtocol)

// call executes one step and returns a canonical rendering of its result.
func call(op string, t reflect.Type, val int) (res string) {
	defer func() {
		if p := recover(); p != nil {
			res = fmt.Sprint("PANIC: ", p)
		}
	}()
	v := value(t, val)
	ptr := v.Addr().Interface()
	canon := func(x any) string { // order-independent rendering through encoding/json
		b, err := stdjson.Marshal(x)
		return fmt.Sprintf("%s|%v", b, err)
	}
	switch op {
	case "json.Marshal":
		b, err := segjson.Marshal(ptr)
		return fmt.Sprintf("%s|%v", b, err)
	case "json.Unmarshal":
		b, _ := stdjson.Marshal(ptr)
		out := reflect.New(t)
		err := segjson.Unmarshal(b, out.Interface())
		return fmt.Sprintf("%s|%v", canon(out.Interface()), err)
	case "json.Tokenizer":
		b, _ := stdjson.Marshal(ptr)
		tk := segjson.NewTokenizer(b)
		n, cat := 0, 0
		for tk.Next() {
			n++
			cat += len(tk.Value) + tk.Depth*3 + tk.Index
		}
		return fmt.Sprint(n, cat, tk.Err)
	case "json.PooledMaps":
		// the specialised string-keyed map encoders share a pooled sort scratch (mapslice) and the pooled encode buffer
		type pooled struct {
			A map[string]any
			S map[string]string
			B map[string]bool
			L map[string][]string
			R map[string]stdjson.RawMessage
		}
		pv := pooled{A: map[string]any{}, S: map[string]string{}, B: map[string]bool{}, L: map[string][]string{}, R: map[string]stdjson.RawMessage{}}
		for j := 0; j < 3+val*3; j++ {
			k := fmt.Sprint("k", (j*7+val)%23, "_", j)
			pv.A[k] = []any{j, k, map[string]any{"n": val}}
			pv.S[k] = strings.Repeat("v", j%9)
			pv.B[k] = j%2 == 0
			pv.L[k] = []string{k, "x"}
			pv.R[k] = stdjson.RawMessage(fmt.Sprintf(`{"j":%d}`, j))
		}
		b, err := segjson.Marshal(pv)
		var back pooled
		uerr := segjson.Unmarshal(b, &back)
		return fmt.Sprintf("%s|%v|%s|%v", b, err, canon(back), uerr)
	case "json.Encoder":
		// the writer yields while it consumes what Encode handed to it: the bytes passed to Write belong
		// to that call until it returns, whatever other goroutines encode meanwhile
		w := &yieldingWriter{}
		e := segjson.NewEncoder(w)
		e.SetEscapeHTML(val%2 == 0)
		var errs []error
		for i := 0; i < 3; i++ {
			errs = append(errs, e.Encode(ptr))
		}
		return fmt.Sprintf("%s|%v", w.buf, errs)
	case "json.TokenizerReuse":
		// one Tokenizer used for several inputs: exhausted (its stack goes back to the pool), Reset
		// half-way through a nested document, and reused again
		b, _ := stdjson.Marshal(ptr)
		b2 := []byte(`[[{"a":[1,[2,{"b":[3]}]]}],{"k":[[[4]]]}]`)
		tk := segjson.NewTokenizer(b2)
		sum := 0
		walk := func(limit int) {
			for n := 0; tk.Next() && (limit < 0 || n < limit); n++ {
				sum = sum*31 + len(tk.Value) + tk.Depth*7 + tk.Index*3
				if tk.IsKey {
					sum++
				}
			}
		}
		walk(-1)
		tk.Reset(b)
		walk(4 + val%5)
		tk.Reset(b2)
		walk(-1)
		tk.Next()
		tk.Reset(b)
		walk(-1)
		return fmt.Sprint(sum, tk.Err)
	case "proto.Marshal":
		b, err := proto.Marshal(ptr)
		out := reflect.New(t)
		uerr := proto.Unmarshal(b, out.Interface())
		return fmt.Sprintf("%d|%v|%s|%v", len(b), err, canon(out.Interface()), uerr)
	case "proto.Size":
		return fmt.Sprint(proto.Size(ptr))
	case "proto.TypeOf":
		// the descriptor's identity is part of the result: running alone, every call for one Go
		// type returns the same descriptor (programs compare them with == and key tables on them)
		pt := proto.TypeOf(t)
		ids := []int64{descID(pt)}
		for i := 0; i < pt.NumField(); i++ {
			ids = append(ids, descID(pt.Field(i).Type))
		}
		return fmt.Sprint(pt.String(), pt.NumField(), " descriptors#", ids)
	case "thrift.Marshal.compact", "thrift.Marshal.binary":
		p := thrift.Protocol(compact)
		if strings.HasSuffix(op, "binary") {
			p = binaryP
		}
		b, err := thrift.Marshal(p, ptr)
		out := reflect.New(t)
		uerr := thrift.Unmarshal(p, b, out.Interface())
		return fmt.Sprintf("%d|%v|%s|%v", len(b), err, canon(out.Interface()), uerr)
	}
	return "unknown op"
}

var descIDs sync.Map
var descNext atomic.Int64

// descID numbers the distinct proto.Type descriptors (pointers) seen by this process.
func descID(t proto.Type) int64 {
	if v, ok := descIDs.Load(t); ok {
		return v.(int64)
	}
	v, _ := descIDs.LoadOrStore(t, descNext.Add(1))
	return v.(int64)
}

type yieldingWriter struct{ buf []byte }

func (w *yieldingWriter) Write(p []byte) (int, error) {
	for i := 0; i < len(p); i += 48 {
		j := i + 48
		if j > len(p) {
			j = len(p)
		}
		runtime.Gosched()
		w.buf = append(w.buf, p[i:j]...)
	}
	return len(p), nil
}

var ops = []string{"json.Encoder", "json.Marshal", "json.Unmarshal", "json.Tokenizer", "json.TokenizerReuse", "json.PooledMaps", "proto.Marshal", "proto.Size", "proto.TypeOf", "thrift.Marshal.compact", "thrift.Marshal.binary"}

// hangLimit bounds the wait for the calls of one round. They are library calls on small values that take micro-
// to milliseconds each (a whole shard of thousands of rounds takes a minute or two on a loaded machine); a round
// that has not returned after this long is not slow, a call in it does not return ("each call returns ..." fails
// with no result at all). Reported as a violation with the script in flight; the process then exits, since the
// goroutine that is stuck cannot be stopped and nothing run after it would be trustworthy.
var hangLimit = 180 * time.Second

func waitCalls(wg *sync.WaitGroup) *evid.Failure {
	ch := make(chan struct{})
	go func() { wg.Wait(); close(ch) }()
	tm := time.NewTimer(hangLimit)
	defer tm.Stop()
	select {
	case <-ch:
		return nil
	case <-tm.C:
		return &evid.Failure{Oracle: "each concurrent call returns (exactly what it returns running alone)", Observed: fmt.Sprintf("the calls of one round had not all returned after %v", hangLimit), Expected: "every call returns within milliseconds", Class: "hang"}
	}
}

type outcome struct {
	step Step
	res  string
	g, r int
}

// runScript executes the script concurrently and returns per-call results plus
// the number of fresh types whose first use was contended.
func runScript(c Case, types []reflect.Type) ([]outcome, int, *evid.Failure) {
	var all []outcome
	var mu sync.Mutex
	contended := 0
	firstUse := make([]atomic.Int32, len(types))
	seenBefore := make([]bool, len(types))
	for r, round := range c.Rounds {
		var start, done sync.WaitGroup
		start.Add(1)
		for i := range firstUse {
			firstUse[i].Store(0)
		}
		used := map[int]bool{}
		for g, steps := range round {
			for _, s := range steps {
				used[s.Type] = true
			}
			done.Add(1)
			go func(g int, steps []Step) {
				defer done.Done()
				local := make([]outcome, 0, len(steps))
				start.Wait()
				for k, s := range steps {
					if k == 0 {
						firstUse[s.Type].Add(1)
					}
					local = append(local, outcome{step: s, res: call(s.Op, types[s.Type], s.Val), g: g, r: r})
				}
				mu.Lock()
				all = append(all, local...)
				mu.Unlock()
			}(g, steps)
		}
		var stopGC atomic.Bool
		var gcDone sync.WaitGroup
		if c.GC {
			gcDone.Add(1)
			go func() {
				defer gcDone.Done()
				start.Wait()
				for !stopGC.Load() {
					runtime.GC()
				}
			}()
		}
		start.Done()
		hung := waitCalls(&done)
		stopGC.Store(true)
		if hung != nil {
			return nil, contended, hung
		}
		gcDone.Wait()
		for i := range types {
			if c.Types[i].Fresh && !seenBefore[i] && firstUse[i].Load() >= 2 {
				contended++
			}
			if used[i] {
				seenBefore[i] = true
			}
		}
	}
	return all, contended, nil
}

func checkCase(c Case) (*evid.Failure, int) {
	types := make([]reflect.Type, len(c.Types))
	for i, ts := range c.Types {
		n := int64(0)
		if ts.Fresh {
			n = nonce.Add(1) + int64(evid.Shard())*1_000_000_000
		}
		types[i] = materialise(ts, n)
	}
	got, contended, hung := runScript(c, types)
	if hung != nil {
		return hung, contended
	}
	// the same calls executed alone afterwards
	for _, o := range got {
		want := call(o.step.Op, types[o.step.Type], o.step.Val)
		if strings.HasPrefix(o.res, "PANIC") || o.res != want {
			return &evid.Failure{Oracle: "each concurrent call returns exactly what it returns running alone", Observed: fmt.Sprintf("round %d goroutine %d %+v: %s", o.r, o.g, o.step, trunc(o.res)), Expected: trunc(want), Class: "concurrent-result"}, contended
		}
	}
	return nil, contended
}

func trunc(s string) string {
	if len(s) > 300 {
		return s[:300] + "…"
	}
	return s
}

var kinds = []string{"bool", "int32", "int64", "float64", "string", "bytes", "ints", "strs", "map", "set", "iset", "sub", "psub"}

func genCase(rt *rapid.T) Case {
	var c Case
	nt := rapid.IntRange(2, 8).Draw(rt, "ntypes")
	for i := 0; i < nt; i++ {
		nf := rapid.IntRange(1, 8).Draw(rt, "nf")
		ts := TypeSpec{Fresh: rapid.IntRange(0, 3).Draw(rt, "fresh") > 0, BigNums: rapid.IntRange(0, 2).Draw(rt, "bignums") == 0}
		for j := 0; j < nf; j++ {
			ts.Kinds = append(ts.Kinds, rapid.SampledFrom(kinds).Draw(rt, "kind"))
		}
		c.Types = append(c.Types, ts)
	}
	c.GC = rapid.IntRange(0, 2).Draw(rt, "gc") == 0
	G := rapid.IntRange(4, 24).Draw(rt, "goroutines")
	R := rapid.IntRange(1, 3).Draw(rt, "rounds")
	for r := 0; r < R; r++ {
		var round [][]Step
		hot := rapid.IntRange(0, nt-1).Draw(rt, "hot") // the type most goroutines start with (contended first use)
		for g := 0; g < G; g++ {
			k := rapid.IntRange(1, 12).Draw(rt, "nsteps")
			var steps []Step
			for s := 0; s < k; s++ {
				ty := rapid.IntRange(0, nt-1).Draw(rt, "type")
				if s == 0 && rapid.IntRange(0, 3).Draw(rt, "usehot") > 0 {
					ty = hot
				}
				steps = append(steps, Step{Op: rapid.SampledFrom(ops).Draw(rt, "op"), Type: ty, Val: rapid.IntRange(0, 9).Draw(rt, "val")})
			}
			round = append(round, steps)
		}
		c.Rounds = append(c.Rounds, round)
	}
	return c
}

func TestConcurrentFirstUse(t *testing.T) {
	evid.Check(t, "ConcurrentFirstUse", 60, func(rt *rapid.T) {
		c := genCase(rt)
		evid.Journal("ConcurrentFirstUse", c) // a data race report or a fatal error is attributed to the script in flight
		f, contended := checkCase(c)
		ncalls := 0
		for _, r := range c.Rounds {
			for _, g := range r {
				ncalls += len(g)
				for _, s := range g {
					evid.Label("op." + s.Op)
				}
			}
		}
		evid.Eval(1)
		evid.LabelN("calls", ncalls)
		if c.GC {
			evid.Label("forced-gc-during-rounds")
		}
		evid.LabelN("fresh-types-with-contended-first-use", contended)
		if contended > 0 {
			evid.NonTrivial(evid.HashS(fmt.Sprintf("%+v", c)))
		}
		evid.Sample(c)
		if f != nil {
			evid.Violation(rt, "ConcurrentFirstUse", c, f)
		}
	})
}

func TestReplay(t *testing.T) {
	files := evid.SavedReplays()
	if p := evid.ReplayFile(); p != "" {
		files = []string{p}
	}
	for _, p := range files {
		_, raw, err := evid.LoadReplayCase(p)
		if err != nil {
			t.Fatalf("replay %s: %v", p, err)
		}
		var c Case
		if err := stdjson.Unmarshal(raw, &c); err != nil || len(c.Rounds) == 0 {
			var dcase DistinctCase
			if err := stdjson.Unmarshal(raw, &dcase); err == nil && dcase.Rounds > 0 && dcase.Op != "" {
				evid.Eval(1)
				for i := 0; i < 5; i++ {
					if f := checkDistinctCase(dcase); f != nil {
						evid.Violation(t, "Replay", dcase, f)
					}
				}
				continue
			}
			var gcase GenCase
			if err := stdjson.Unmarshal(raw, &gcase); err == nil && gcase.G > 0 {
				evid.Eval(1)
				for i := 0; i < 20; i++ {
					if f := checkGenCase(gcase); f != nil {
						evid.Violation(t, "Replay", gcase, f)
					}
				}
			}
			continue
		}
		evid.Eval(1)
		// schedule-dependent: repeat the script several times
		for i := 0; i < 20; i++ {
			if f, _ := checkCase(c); f != nil {
				evid.Violation(t, "Replay", c, f)
			}
		}
	}
}

func TestKnownFindings(t *testing.T) {
	evid.RunWitnesses(t, []evid.Class{{Name: "json-map-string-stringslice-scratch-hidden-from-gc", Witness: witnessStringSliceMapGC}})
}

// witnessStringSliceMapGC: goroutines decode one document into map[string][]string while another
// forces garbage collections; every decoded element must be the text in the document.
func witnessStringSliceMapGC() *evid.Failure {
	var doc []byte
	doc = append(doc, '{')
	for j := 0; j < 30; j++ {
		if j > 0 {
			doc = append(doc, ',')
		}
		doc = append(doc, fmt.Sprintf(`"k%d":["key%d","x"]`, j, j)...)
	}
	doc = append(doc, '}')
	var bad atomic.Pointer[string]
	var stop atomic.Bool
	var wg, gc sync.WaitGroup
	gc.Add(1)
	go func() {
		defer gc.Done()
		for !stop.Load() {
			runtime.GC()
		}
	}()
	for g := 0; g < 16; g++ {
		wg.Add(1)
		go func() {
			defer wg.Done()
			for i := 0; i < 400 && bad.Load() == nil; i++ {
				var back map[string][]string
				if err := segjson.Unmarshal(doc, &back); err != nil {
					msg := err.Error()
					bad.Store(&msg)
					return
				}
				for j := 0; j < 30; j++ {
					v := back[fmt.Sprint("k", j)]
					if len(v) != 2 || v[0] != fmt.Sprint("key", j) || v[1] != "x" {
						msg := fmt.Sprintf("k%d = %q", j, v)
						bad.Store(&msg)
						return
					}
				}
			}
		}()
	}
	wg.Wait()
	stop.Store(true)
	gc.Wait()
	if m := bad.Load(); m != nil {
		return &evid.Failure{Oracle: "Unmarshal into map[string][]string returns the document's strings (as it does running alone)", Observed: *m, Expected: `k<j> = ["key<j>" "x"]`, Class: "concurrent-result"}
	}
	return nil
}
