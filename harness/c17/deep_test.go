package c17

import (
	"fmt"
	"strings"
	"testing"

	"verif/harness/evid"
)

// TestDeepDocs: valid documents nested up to the deepest level encoding/json accepts (10000): the Tokenizer
// has no reason to stop earlier than the decoders do, and its Depth / IsValue / Index / KeyOrValue state must
// stay right all the way down and back up (checkValid compares every token with the reference model).
func TestDeepDocs(t *testing.T) {
	if evid.Shard() != 3%evid.NShards() {
		return
	}
	n := 0
	for _, d := range []int{100, 1000, 4096, 9999, 10000} {
		for _, shape := range []string{"[", `{"a":`, `[{"a":`, `{"k":[1,`} {
			unit := 1
			if len(shape) > 5 {
				unit = 2
			}
			k := d / unit
			closer := map[string]string{"[": "]", `{"a":`: "}", `[{"a":`: "}]", `{"k":[1,`: "]}"}[shape]
			for _, leaf := range []string{"0", `"s"`, "{}", "[]"} {
				doc := []byte(strings.Repeat(shape, k) + leaf + strings.Repeat(closer, k))
				c := Case{Kind: "valid", Docs: [][]byte{doc}}
				n++
				if f := checkCase(c); f != nil {
					f.Oracle += fmt.Sprintf(" [document: %q repeated %d times around %s]", shape, k, leaf)
					evid.Violation(t, "DeepDocs", c, f)
				}
			}
		}
		evid.NonTrivial(evid.HashS("deep-doc", fmt.Sprint(d)))
	}
	evid.Eval(n)
	evid.Label("valid-doc.nested-to-the-limit")
	evid.Enumerated("DeepDocs", 1, 1)
}
