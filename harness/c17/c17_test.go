// C17 — json.Tokenizer enumerates exactly the tokens of the document.
package c17

import (
	"bytes"
	stdjson "encoding/json"
	"fmt"
	"io"
	"math/big"
	"strconv"
	"strings"
	"testing"
	"unsafe"

	segjson "github.com/segmentio/encoding/json"
	"pgregory.net/rapid"

	"verif/harness/evid"
	"verif/harness/jgen"
)

func TestMain(m *testing.M) { evid.Main(m, "C17") }

// Case: Kind "valid" (Docs[0] is a valid document: exact token stream),
// "any" (Docs[0] arbitrary bytes: termination and stickiness), "reset"
// (history of inputs on one Tokenizer with Reset in between; Stop[i] = number
// of Next calls before abandoning input i, -1 = run to the end).
type Case struct {
	Kind string   `json:"kind"`
	Docs [][]byte `json:"docs"`
	Stop []int    `json:"stop,omitempty"`
}

// ------------------------------------------------------------------ reference token model (R-TOK)

type refTok struct {
	delim  byte // '[' '{' ']' '}' or 0
	str    *string
	num    string
	boolv  *bool
	null   bool
	depth  int
	index  int
	isKey  bool
	closer bool
}

type frame struct {
	object    bool
	count     int
	expectKey bool
}

func refTokens(doc []byte) ([]refTok, error) {
	d := stdjson.NewDecoder(bytes.NewReader(doc))
	d.UseNumber()
	var out []refTok
	var st []frame
	complete := func() {
		if n := len(st); n > 0 {
			f := &st[n-1]
			if f.object {
				if f.expectKey {
					f.expectKey = false
				} else {
					f.count++
					f.expectKey = true
				}
			} else {
				f.count++
			}
		}
	}
	for {
		tk, err := d.Token()
		if err == io.EOF {
			return out, nil
		}
		if err != nil {
			return nil, err
		}
		rt := refTok{depth: len(st)}
		if n := len(st); n > 0 {
			rt.index = st[n-1].count
			rt.isKey = st[n-1].object && st[n-1].expectKey
		}
		switch v := tk.(type) {
		case stdjson.Delim:
			rt.delim = byte(v)
			switch v {
			case '[':
				out = append(out, rt)
				st = append(st, frame{})
				continue
			case '{':
				out = append(out, rt)
				st = append(st, frame{object: true, expectKey: true})
				continue
			default:
				st = st[:len(st)-1]
				rt.closer = true
				rt.depth = len(st)
				out = append(out, rt)
				complete()
				continue
			}
		case string:
			s := v
			rt.str = &s
		case stdjson.Number:
			rt.num = string(v)
		case bool:
			b := v
			rt.boolv = &b
		case nil:
			rt.null = true
		}
		out = append(out, rt)
		complete()
	}
}

// ------------------------------------------------------------------ observed stream

type obsTok struct {
	Delim  byte   `json:"delim,omitempty"`
	Value  string `json:"value"`
	Depth  int    `json:"depth"`
	Index  int    `json:"index"`
	IsKey  bool   `json:"is_key,omitempty"`
	Kind   uint   `json:"kind"`
	Remain int    `json:"remain"`
}

func snapshot(t *segjson.Tokenizer) obsTok {
	return obsTok{Delim: byte(t.Delim), Value: string(t.Value), Depth: t.Depth, Index: t.Index, IsKey: t.IsKey, Kind: uint(t.Kind()), Remain: t.Remaining()}
}

func fail(oracle, obs, exp, cls string) *evid.Failure {
	return &evid.Failure{Oracle: oracle, Observed: obs, Expected: exp, Class: cls}
}

func checkValid(doc []byte) (f *evid.Failure) {
	defer func() {
		if p := recover(); p != nil {
			f = fail("Tokenizer must not panic", fmt.Sprint("panic: ", p), "a token stream", "panic")
		}
	}()
	ref, err := refTokens(doc)
	if err != nil || !stdjson.Valid(doc) {
		return nil // not a valid single document for the reference
	}
	var compact bytes.Buffer
	if stdjson.Compact(&compact, doc) != nil {
		return nil
	}
	in := append([]byte{}, doc...)
	t := segjson.NewTokenizer(in)
	var cat []byte
	ri := 0
	calls := 0
	for t.Next() {
		if calls++; calls > len(doc)+2 {
			return fail("Next terminates within len(input)+1 calls", fmt.Sprint(calls, " calls"), fmt.Sprint("<= ", len(doc)+1), "no-termination")
		}
		cat = append(cat, t.Value...)
		// Value is the sub-slice of the input ending Remaining() bytes before its end
		end := len(in) - t.Remaining()
		start := end - len(t.Value)
		if start < 0 || len(t.Value) == 0 || unsafe.SliceData([]byte(t.Value)) != unsafe.SliceData(in[start:end]) {
			return fail("Value is the sub-slice of the input that ends Remaining() bytes before its end", fmt.Sprintf("value %q remaining %d", t.Value, t.Remaining()), fmt.Sprintf("in[%d:%d]", start, end), "position")
		}
		if t.Delim == ':' || t.Delim == ',' {
			continue
		}
		if ri >= len(ref) {
			return fail("same tokens as encoding/json", fmt.Sprintf("extra token %q", t.Value), "end of stream", "extra-token")
		}
		r := ref[ri]
		ri++
		cls := t.Kind().Class()
		switch {
		case r.delim != 0:
			if byte(t.Delim) != r.delim {
				return fail("delimiter equals encoding/json's token", fmt.Sprintf("%q", t.Value), string(r.delim), "token-mismatch")
			}
			if r.delim == '[' && cls != segjson.Array || r.delim == '{' && cls != segjson.Object {
				return fail("Kind().Class() of an opening delimiter", fmt.Sprint(cls), "Array/Object", "kind")
			}
		case r.str != nil:
			if t.Delim != 0 || cls != segjson.String {
				return fail("Kind().Class() == String for a string token", fmt.Sprintf("delim %q class %d", t.Delim, cls), "String", "kind")
			}
			if got := string(t.String()); got != *r.str {
				return fail("String() equals the decoded string", fmt.Sprintf("%q", got), fmt.Sprintf("%q", *r.str), "string-value")
			}
		case r.num != "":
			if t.Delim != 0 || cls != segjson.Num {
				return fail("Kind().Class() == Num for a number token", fmt.Sprintf("delim %q class %d", t.Delim, cls), "Num", "kind")
			}
			if string(t.Value) != r.num {
				return fail("number token text", string(t.Value), r.num, "token-mismatch")
			}
			if wf, err := strconv.ParseFloat(r.num, 64); err == nil {
				if gf := t.Float(); gf != wf && !(gf != gf && wf != wf) {
					return fail("Float() == strconv.ParseFloat", fmt.Sprint(gf), fmt.Sprint(wf), "float-value")
				}
			}
			if !strings.ContainsAny(r.num, ".eE") {
				if bi, ok := new(big.Int).SetString(r.num, 10); ok {
					if bi.IsInt64() && t.Int() != bi.Int64() {
						return fail("Int() equals the literal", fmt.Sprint(t.Int()), r.num, "int-value")
					}
					if r.num[0] != '-' && bi.IsUint64() && t.Uint() != bi.Uint64() {
						return fail("Uint() equals the literal", fmt.Sprint(t.Uint()), r.num, "uint-value")
					}
				}
			}
		case r.boolv != nil:
			if t.Delim != 0 || cls != segjson.Bool || t.Bool() != *r.boolv {
				return fail("Bool() and class for a boolean token", fmt.Sprintf("class %d bool %v", cls, t.Bool()), fmt.Sprint(*r.boolv), "bool-value")
			}
		case r.null:
			if t.Delim != 0 || cls != segjson.Null {
				return fail("class Null for a null token", fmt.Sprintf("class %d value %q", cls, t.Value), "Null", "kind")
			}
		}
		if !r.closer {
			if t.Depth != r.depth || t.Index != r.index || t.IsKey != r.isKey {
				return fail("(Depth, Index, IsKey) as derived from encoding/json's token stream", fmt.Sprintf("token %q: (%d,%d,%v)", t.Value, t.Depth, t.Index, t.IsKey), fmt.Sprintf("(%d,%d,%v)", r.depth, r.index, r.isKey), "position-tuple")
			}
		}
	}
	if t.Err != nil {
		return fail("no error on a valid document", t.Err.Error(), "nil", "spurious-error")
	}
	if ri != len(ref) {
		return fail("same number of tokens as encoding/json", fmt.Sprint(ri), fmt.Sprint(len(ref)), "missing-token")
	}
	if !bytes.Equal(cat, compact.Bytes()) {
		return fail("concatenation of Values == json.Compact(doc)", fmt.Sprintf("%q", trunc(cat)), fmt.Sprintf("%q", trunc(compact.Bytes())), "concat")
	}
	if !bytes.Equal(in, doc) {
		return fail("input bytes unchanged", "modified", "unchanged", "input-modified")
	}
	return nil
}

func trunc(b []byte) []byte {
	if len(b) > 300 {
		return b[:300]
	}
	return b
}

func checkAny(doc []byte) (f *evid.Failure) {
	defer func() {
		if p := recover(); p != nil {
			f = fail("Tokenizer must not panic", fmt.Sprint("panic: ", p), "termination", "panic")
		}
	}()
	in := append([]byte{}, doc...)
	t := segjson.NewTokenizer(in)
	calls := 0
	for t.Next() {
		if calls++; calls > len(doc)+2 {
			return fail("Next terminates within len(input)+1 calls", fmt.Sprint(calls, " calls"), fmt.Sprint("<= ", len(doc)+1), "no-termination")
		}
		_ = t.Kind().Class()
	}
	if t.Err != nil {
		e := t.Err
		for i := 0; i < 3; i++ {
			if t.Next() || t.Err != e {
				return fail("once Err is set Next keeps returning false with the same Err", fmt.Sprintf("Next=true or Err changed to %v", t.Err), e.Error(), "not-sticky")
			}
		}
	}
	return nil
}

// stream runs up to stop Next calls (stop < 0: to the end) and returns the observed tokens and the final error text.
func stream(t *segjson.Tokenizer, n int, stop int) ([]obsTok, string) {
	var out []obsTok
	calls := 0
	for (stop < 0 || calls < stop) && t.Next() {
		out = append(out, snapshot(t))
		if calls++; calls > n+2 {
			break
		}
	}
	e := ""
	if t.Err != nil {
		e = "error"
	}
	return out, e
}

func checkReset(c Case) (f *evid.Failure) {
	defer func() {
		if p := recover(); p != nil {
			f = fail("Tokenizer must not panic", fmt.Sprint("panic: ", p), "a token stream", "panic")
		}
	}()
	reused := segjson.NewTokenizer(nil)
	other := segjson.NewTokenizer([]byte(`[[[[{"a":[1,2,{"b":[]}]}]]]]`)) // a second tokenizer drawing stacks from the same pool
	for i, doc := range c.Docs {
		stop := -1
		if i < len(c.Stop) {
			stop = c.Stop[i]
		}
		in := append([]byte{}, doc...)
		reused.Reset(in)
		other.Next()
		// two more tokenizers, created now, advanced in lock step with the reused one: tokenizers that are
		// alive at the same time never share a pooled stack, whatever the history of the pool
		sideDoc := []byte(`{"p":[[1,{"q":[2,3,{"r":null}]}],[]],"s":{"t":[true]}}`)
		side1, side2 := segjson.NewTokenizer(sideDoc), segjson.NewTokenizer(sideDoc)
		var got, s1, s2 []obsTok
		for calls := 0; ; calls++ {
			more := false
			if (stop < 0 || calls < stop) && calls <= len(doc)+2 && reused.Next() {
				got = append(got, snapshot(reused))
				more = true
			}
			if side1.Next() {
				s1 = append(s1, snapshot(side1))
				more = true
			}
			if calls%2 == 0 && side2.Next() {
				s2 = append(s2, snapshot(side2))
				more = true
			}
			if !more && calls%2 == 0 {
				break
			}
		}
		for side2.Next() {
			s2 = append(s2, snapshot(side2))
		}
		gerr := ""
		if reused.Err != nil {
			gerr = "error"
		}
		wantSide, _ := stream(segjson.NewTokenizer(sideDoc), len(sideDoc), -1)
		for si, sgot := range [][]obsTok{s1, s2} {
			if len(sgot) != len(wantSide) {
				return fail("tokenizers alive at the same time do not disturb each other", fmt.Sprintf("input %d: side tokenizer %d yielded %d tokens", i, si+1, len(sgot)), fmt.Sprintf("%d tokens", len(wantSide)), "shared-state")
			}
			for k := range sgot {
				if sgot[k] != wantSide[k] {
					return fail("tokenizers alive at the same time do not disturb each other", fmt.Sprintf("input %d: side tokenizer %d token %d: %+v", i, si+1, k, sgot[k]), fmt.Sprintf("%+v", wantSide[k]), "shared-state")
				}
			}
		}
		other.Next()
		fresh := segjson.NewTokenizer(append([]byte{}, doc...))
		want, werr := stream(fresh, len(doc), stop)
		if len(got) != len(want) || gerr != werr {
			return fail("a Reset tokenizer behaves like a new one", fmt.Sprintf("input %d: %d tokens, %s", i, len(got), gerr), fmt.Sprintf("%d tokens, %s", len(want), werr), "reset-differs")
		}
		for k := range got {
			if got[k] != want[k] {
				return fail("a Reset tokenizer behaves like a new one", fmt.Sprintf("input %d token %d: %+v", i, k, got[k]), fmt.Sprintf("%+v", want[k]), "reset-differs")
			}
		}
		if i%2 == 1 {
			other.Reset([]byte(`{"x":[[[[1]]]]}`))
		}
	}
	return nil
}

func checkCase(c Case) *evid.Failure {
	switch c.Kind {
	case "valid":
		if f := checkValid(c.Docs[0]); f != nil {
			return f
		}
		return checkAny(c.Docs[0])
	case "any":
		return checkAny(c.Docs[0])
	case "reset":
		return checkReset(c)
	}
	return fail("harness", "unknown kind "+c.Kind, "", "harness")
}

// ------------------------------------------------------------------ generation

func genNested(rt *rapid.T, sb *strings.Builder, depth int) {
	k := rapid.IntRange(0, 9).Draw(rt, "nk")
	if depth <= 0 && k >= 5 {
		k %= 5
	}
	ws := func() { sb.WriteString(rapid.SampledFrom([]string{"", "", " ", "\n", "\t "}).Draw(rt, "ws")) }
	switch {
	case k <= 1:
		sb.WriteString(rapid.SampledFrom([]string{"null", "true", "false", "0", "-1", "1.5", "1e3", "18446744073709551615", "-9223372036854775808", "123456789012345678901", "0.1", "-0", "1E-2"}).Draw(rt, "lit"))
	case k <= 4:
		sb.WriteString(jgen.GenStringLit(rt))
	case k <= 6:
		sb.WriteByte('[')
		n := rapid.IntRange(0, 5).Draw(rt, "an")
		if rapid.IntRange(0, 19).Draw(rt, "manysib") == 0 {
			n = rapid.IntRange(6, 40).Draw(rt, "an2")
		}
		for i := 0; i < n; i++ {
			if i > 0 {
				sb.WriteByte(',')
			}
			ws()
			genNested(rt, sb, depth-1)
			ws()
		}
		sb.WriteByte(']')
	default:
		sb.WriteByte('{')
		n := rapid.IntRange(0, 4).Draw(rt, "on")
		for i := 0; i < n; i++ {
			if i > 0 {
				sb.WriteByte(',')
			}
			ws()
			if rapid.Bool().Draw(rt, "simplekey") {
				sb.WriteString(strconv.Quote(rapid.SampledFrom([]string{"a", "b", "k", "", "key"}).Draw(rt, "key")))
			} else {
				sb.WriteString(jgen.GenStringLit(rt))
			}
			ws()
			sb.WriteByte(':')
			ws()
			genNested(rt, sb, depth-1)
			ws()
		}
		sb.WriteByte('}')
	}
}

func genValidDoc(rt *rapid.T) []byte {
	var sb strings.Builder
	sb.WriteString(rapid.SampledFrom([]string{"", "", " ", "\n"}).Draw(rt, "lead"))
	d := rapid.IntRange(0, 7).Draw(rt, "depth")
	if rapid.IntRange(0, 29).Draw(rt, "deep") == 0 {
		// a deep chain of containers (stack growth beyond its initial capacity of 4)
		n := rapid.IntRange(8, 64).Draw(rt, "chain")
		var closers []byte
		for i := 0; i < n; i++ {
			if rapid.Bool().Draw(rt, "obj") {
				sb.WriteString(`{"k":`)
				closers = append(closers, '}')
			} else {
				sb.WriteString(`[1,`)
				closers = append(closers, ']')
			}
		}
		genNested(rt, &sb, 2)
		for i := len(closers) - 1; i >= 0; i-- {
			sb.WriteByte(closers[i])
		}
	} else {
		genNested(rt, &sb, d)
	}
	sb.WriteString(rapid.SampledFrom([]string{"", "", " ", "\n\t"}).Draw(rt, "trail"))
	return []byte(sb.String())
}

func hasDeepObject(doc []byte) bool {
	depth, max, obj := 0, 0, false
	inStr, esc := false, false
	for _, c := range doc {
		if inStr {
			if esc {
				esc = false
			} else if c == '\\' {
				esc = true
			} else if c == '"' {
				inStr = false
			}
			continue
		}
		switch c {
		case '"':
			inStr = true
		case '{':
			obj = true
			depth++
		case '[':
			depth++
		case '}', ']':
			depth--
		}
		if depth > max {
			max = depth
		}
	}
	return max >= 2 && obj
}

func TestValidDocs(t *testing.T) {
	evid.Check(t, "ValidDocs", 25000, func(rt *rapid.T) {
		var doc []byte
		if rapid.IntRange(0, 4).Draw(rt, "src") == 0 {
			doc = jgen.GenDocument(rt, 5)
		} else {
			doc = genValidDoc(rt)
		}
		c := Case{Kind: "valid", Docs: [][]byte{doc}}
		evid.Eval(1)
		evid.Label("valid-doc")
		if hasDeepObject(doc) {
			evid.Label("valid-doc.depth>=2-with-object")
			evid.NonTrivial(evid.Hash([]byte("valid"), doc))
		}
		evid.Sample(c)
		if f := checkCase(c); f != nil {
			evid.Violation(rt, "ValidDocs", c, f)
		}
	})
}

func TestArbitrary(t *testing.T) {
	alpha := []byte("{}[],:\"\\ \n019-+.eEtrufalsn\x00\x7f\x80")
	evid.Check(t, "Arbitrary", 25000, func(rt *rapid.T) {
		var doc []byte
		switch rapid.IntRange(0, 2).Draw(rt, "k") {
		case 0:
			doc = jgen.Mutate(rt, genValidDoc(rt))
			evid.Label("any.mutated")
		case 1:
			doc = rapid.SliceOfN(rapid.SampledFrom(alpha), 0, 40).Draw(rt, "alpha")
			evid.Label("any.alphabet")
		default:
			doc = rapid.SliceOfN(rapid.Byte(), 0, 40).Draw(rt, "bytes")
			evid.Label("any.bytes")
		}
		c := Case{Kind: "any", Docs: [][]byte{doc}}
		evid.Eval(1)
		if len(doc) >= 4 {
			evid.NonTrivial(evid.Hash([]byte("any"), doc))
		}
		if stdjson.Valid(doc) {
			c.Kind = "valid"
		}
		if f := checkCase(c); f != nil {
			evid.Violation(rt, "Arbitrary", c, f)
		}
	})
}

func TestResetHistories(t *testing.T) {
	evid.Check(t, "ResetHistories", 12000, func(rt *rapid.T) {
		n := rapid.IntRange(2, 6).Draw(rt, "n")
		c := Case{Kind: "reset"}
		failingThenValid := false
		prevFailed := false
		for i := 0; i < n; i++ {
			var doc []byte
			stop := -1
			switch rapid.IntRange(0, 3).Draw(rt, "k") {
			case 0:
				doc = jgen.Mutate(rt, genValidDoc(rt)) // may fail half-way: stack left non-empty
			case 1:
				doc = genValidDoc(rt)
				stop = rapid.IntRange(0, 12).Draw(rt, "stop") // abandoned half-way
			default:
				doc = genValidDoc(rt)
			}
			if prevFailed && stop < 0 && stdjson.Valid(doc) {
				failingThenValid = true
			}
			prevFailed = !stdjson.Valid(doc) || stop >= 0
			c.Docs = append(c.Docs, doc)
			c.Stop = append(c.Stop, stop)
		}
		evid.Eval(1)
		evid.Label(fmt.Sprintf("reset.history.len%d", n))
		if failingThenValid {
			evid.Label("reset.failing-or-abandoned-then-valid")
			evid.NonTrivial(evid.Hash(append([][]byte{[]byte("reset")}, c.Docs...)...))
		}
		if f := checkCase(c); f != nil {
			evid.Violation(rt, "ResetHistories", c, f)
		}
		// each input of the history also goes through the exact-stream oracle
		for _, d := range c.Docs {
			if stdjson.Valid(d) {
				if f := checkValid(d); f != nil {
					evid.Violation(rt, "ResetHistories", Case{Kind: "valid", Docs: [][]byte{d}}, f)
				}
			}
		}
	})
}

func TestReplay(t *testing.T) {
	files := evid.SavedReplays()
	if p := evid.ReplayFile(); p != "" {
		files = []string{p}
	}
	for _, p := range files {
		_, raw, err := evid.LoadReplayCase(p)
		if err != nil {
			t.Fatalf("replay %s: %v", p, err)
		}
		var c Case
		if err := stdjson.Unmarshal(raw, &c); err != nil || c.Kind == "" || len(c.Docs) == 0 {
			continue
		}
		evid.Eval(1)
		if f := checkCase(c); f != nil {
			evid.Violation(t, "Replay", c, f)
		}
	}
}

func TestKnownFindings(t *testing.T) {
	var cs []evid.Class
	for _, f := range evid.Findings() {
		if len(f.Witness) == 0 {
			continue
		}
		var c Case
		if err := stdjson.Unmarshal(f.Witness, &c); err != nil || c.Kind == "" || len(c.Docs) == 0 {
			t.Errorf("finding %s: witness is not a C17 case: %v", f.ID, err)
			continue
		}
		cs = append(cs, evid.Class{Name: f.Class, Witness: func() *evid.Failure { return checkCase(c) }})
	}
	evid.RunWitnesses(t, cs)
}
