package c17

import (
	stdjson "encoding/json"
	"testing"

	"verif/harness/evid"
)

func FuzzTokenizer(f *testing.F) {
	for _, s := range []string{`{"a":[1,2.5e3,"xé\n",null,true,false],"b":{}}`, `[{},null]`, `[`, `}`, `,`, `{"a"`, `"\ud83d"`, `[[[[{"k":[1,{"z":[]}]}]]]]`, `1 2`, "\x00"} {
		f.Add([]byte(s))
	}
	f.Fuzz(func(t *testing.T, doc []byte) {
		if len(doc) > 1<<16 {
			return
		}
		c := Case{Kind: "any", Docs: [][]byte{doc}}
		if stdjson.Valid(doc) {
			c.Kind = "valid"
		}
		if fl := checkCase(c); fl != nil {
			evid.Violation(t, "FuzzTokenizer", c, fl)
		}
	})
}
