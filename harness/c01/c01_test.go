// C01 — json.Marshal is byte-for-byte encoding/json.Marshal.
package c01

import (
	"bytes"
	stdjson "encoding/json"
	"errors"
	"fmt"
	"math"
	"reflect"
	"sync/atomic"
	"testing"
	"time"

	segjson "github.com/segmentio/encoding/json"
	"pgregory.net/rapid"

	"verif/harness/evid"
	"verif/harness/jgen"
)

func TestMain(m *testing.M) { evid.Main(m, "C01") }

// Setting selects the encoder entry point and its configuration.
type Setting struct {
	API        string `json:"api"` // Marshal | Append | MarshalIndent | Encoder
	ByPtr      bool   `json:"by_ptr,omitempty"`
	EscapeHTML bool   `json:"escape_html,omitempty"` // Encoder only
	Prefix     string `json:"prefix,omitempty"`
	Indent     string `json:"indent,omitempty"`
	N          int    `json:"n,omitempty"`       // consecutive Encode calls on one Encoder
	FailAt     int    `json:"fail_at,omitempty"` // Encoder only: the writer fails on its FailAt-th Write (0 = never)
	// DecodeFirst: the struct types of the case are materialised fresh (a nonce no codec cache has seen) and the
	// first thing the library does with the type is a decode into it; the encoder and the decoder share the
	// per-type cache, and what the decoder put there must not change what the encoder writes.
	DecodeFirst bool `json:"decode_first,omitempty"`
}

var freshNonce atomic.Int64

// failWriter accepts writes until the FailAt-th one, which (and every later one) fails.
type failWriter struct {
	buf    bytes.Buffer
	failAt int
	n      int
}

func (w *failWriter) Write(p []byte) (int, error) {
	w.n++
	if w.failAt > 0 && w.n >= w.failAt {
		return 0, errors.New("c01: injected writer failure")
	}
	return w.buf.Write(p)
}

type Case struct {
	Type    jgen.TypeDesc `json:"type"`
	Value   jgen.Recipe   `json:"value"`
	Setting Setting       `json:"setting"`
	// More: Encoder only - the values of the 2nd, 3rd ... Encode call on the same Encoder (default: Value
	// again). An Encode call that fails to marshal its value must not affect the calls that follow.
	More []jgen.Recipe `json:"more,omitempty"`
	// Special (with N): a value recipes cannot describe because parts of it are shared (the same slice, map or
	// pointer referenced several times, which is not a cycle), below N levels of nesting.
	Special string `json:"special,omitempty"`
	N       int    `json:"n,omitempty"`
}

// specialValue builds the shared-reference values: encoding/json encodes them like any other value; an encoder
// that tracks visited references to detect cycles must forget a reference when it leaves it.
func specialValue(name string, n int) any {
	sharedS := []any{1, "s"}
	sharedM := map[string]any{"k": []any{true}}
	x := 7
	sharedP := &x
	var leaf any
	switch name {
	case "shared-slice":
		leaf = []any{sharedS, sharedS, map[string]any{"a": sharedS}}
	case "shared-map":
		leaf = []any{sharedM, map[string]any{"a": sharedM, "b": sharedM}, sharedM}
	case "shared-ptr":
		leaf = []any{sharedP, sharedP, map[string]any{"a": sharedP}, struct{ P, Q *int }{sharedP, sharedP}}
	default: // shared-mixed
		leaf = map[string]any{"s": sharedS, "m": sharedM, "l": []any{sharedS, sharedM, sharedP, sharedS}, "p": sharedP}
	}
	for i := 0; i < n; i++ {
		switch i % 3 {
		case 0:
			leaf = []any{leaf}
		case 1:
			leaf = map[string]any{"d": leaf}
		default:
			v := leaf
			leaf = &v
		}
	}
	return []any{leaf, leaf}
}

// args returns the value of every Encode call (one element for the other entry points).
func args(c Case) []any {
	xs := []any{arg(c)}
	for _, r := range c.More {
		cc := c
		cc.Value = r
		xs = append(xs, arg(cc))
	}
	return xs
}

func arg(c Case) any {
	if c.Special != "" {
		return specialValue(c.Special, c.N)
	}
	td := c.Type
	if c.Setting.DecodeFirst {
		td = jgen.Fresh(c.Type, int(freshNonce.Add(1))+evid.Shard()*50_000_000+1_000_000_000)
		t := td.Type()
		segjson.Unmarshal([]byte("null"), reflect.New(t).Interface())
		segjson.Unmarshal([]byte("{}"), reflect.New(t).Interface())
	}
	v := jgen.Build(td.Type(), c.Value)
	if c.Setting.ByPtr {
		return v.Addr().Interface()
	}
	return v.Interface()
}

type result struct {
	out []byte
	err error
	pan any
}

func runStd(c Case) (r result) {
	defer func() {
		if p := recover(); p != nil {
			r.pan = p
		}
	}()
	xs := args(c)
	x := xs[0]
	s := c.Setting
	switch s.API {
	case "Marshal", "Append":
		r.out, r.err = stdjson.Marshal(x)
	case "MarshalIndent":
		r.out, r.err = stdjson.MarshalIndent(x, s.Prefix, s.Indent)
	case "Encoder":
		w := &failWriter{failAt: s.FailAt}
		e := stdjson.NewEncoder(w)
		e.SetEscapeHTML(s.EscapeHTML)
		if s.Prefix != "" || s.Indent != "" {
			e.SetIndent(s.Prefix, s.Indent)
		}
		for i := 0; i < s.N; i++ {
			if err := e.Encode(xs[i%len(xs)]); err != nil {
				r.err = err
				w.buf.WriteString(fmt.Sprintf("<call %d failed>", i)) // which calls fail is part of the comparison
			}
		}
		r.out = w.buf.Bytes()
	}
	return
}

func runSeg(c Case) (r result) {
	defer func() {
		if p := recover(); p != nil {
			r.pan = p
		}
	}()
	xs := args(c)
	x := xs[0]
	s := c.Setting
	switch s.API {
	case "Marshal":
		r.out, r.err = segjson.Marshal(x)
	case "Append":
		r.out, r.err = segjson.Append(nil, x, segjson.EscapeHTML|segjson.SortMapKeys)
	case "MarshalIndent":
		r.out, r.err = segjson.MarshalIndent(x, s.Prefix, s.Indent)
	case "Encoder":
		w := &failWriter{failAt: s.FailAt}
		e := segjson.NewEncoder(w)
		e.SetEscapeHTML(s.EscapeHTML)
		if s.Prefix != "" || s.Indent != "" {
			e.SetIndent(s.Prefix, s.Indent)
		}
		for i := 0; i < s.N; i++ {
			if err := e.Encode(xs[i%len(xs)]); err != nil {
				r.err = err
				w.buf.WriteString(fmt.Sprintf("<call %d failed>", i)) // which calls fail is part of the comparison
			}
		}
		r.out = w.buf.Bytes()
	}
	return
}

func show(b []byte) string {
	if len(b) > 400 {
		return fmt.Sprintf("%q…(%d bytes)", b[:400], len(b))
	}
	return fmt.Sprintf("%q", b)
}

func checkCase(c Case) *evid.Failure {
	want := runStd(c)
	if want.pan != nil {
		// the reference itself panicked: outside the domain (not expected for supported kinds)
		return nil
	}
	got := runSeg(c)
	if got.pan != nil {
		return &evid.Failure{Oracle: "no panic; same result as encoding/json", Observed: fmt.Sprintf("panic: %v", got.pan), Expected: expectStr(want), Class: "panic"}
	}
	if (want.err == nil) != (got.err == nil) {
		cls := "err-missing"
		if want.err == nil {
			cls = "err-spurious"
		}
		return &evid.Failure{Oracle: "error exactly when encoding/json errors", Observed: fmt.Sprintf("err=%v out=%s", got.err, show(got.out)), Expected: expectStr(want), Class: cls}
	}
	if want.err != nil && c.Setting.API != "Encoder" {
		return nil
	}
	if !bytes.Equal(want.out, got.out) {
		return &evid.Failure{Oracle: "bytes equal encoding/json", Observed: show(got.out), Expected: show(want.out), Class: "bytes"}
	}
	return nil
}

func expectStr(r result) string {
	if r.err != nil {
		return fmt.Sprintf("err=%v", r.err)
	}
	return show(r.out)
}

// ------------------------------------------------------------------ generation

func genSetting(rt *rapid.T) Setting {
	s := Setting{ByPtr: rapid.Bool().Draw(rt, "byptr"), DecodeFirst: rapid.IntRange(0, 7).Draw(rt, "decodefirst") == 0}
	switch rapid.IntRange(0, 9).Draw(rt, "api") {
	case 0, 1, 2, 3:
		s.API = "Marshal"
	case 4:
		s.API = "Append"
	case 5:
		s.API = "MarshalIndent"
		s.Prefix = rapid.SampledFrom([]string{"", ">", "\t"}).Draw(rt, "prefix")
		s.Indent = rapid.SampledFrom([]string{"", "  ", "\t", "--"}).Draw(rt, "indent")
	default:
		s.API = "Encoder"
		s.EscapeHTML = rapid.Bool().Draw(rt, "eschtml")
		switch rapid.IntRange(0, 2).Draw(rt, "ind") {
		case 1:
			s.Indent = "  "
		case 2:
			s.Prefix, s.Indent = ">", "\t"
		}
		s.N = rapid.IntRange(1, 3).Draw(rt, "n")
		if rapid.IntRange(0, 5).Draw(rt, "wfail") == 0 {
			s.FailAt = rapid.IntRange(1, 3).Draw(rt, "failat")
		}
	}
	return s
}

func typeOpts() jgen.TypeOpts {
	o := jgen.TypeOpts{MaxDepth: 4, Avoid: map[string]bool{"duration": true}}
	if evid.Thorough() {
		o.MaxDepth = 5
	}
	for _, a := range avoidWhileKnown() {
		o.Avoid[a] = true
	}
	return o
}

func valOpts() jgen.ValOpts {
	o := jgen.ValOpts{BigSlice: true, Avoid: map[string]bool{}}
	for _, a := range avoidWhileKnown() {
		o.Avoid[a] = true
	}
	return o
}

func nontrivial(c Case, t reflect.Type) bool {
	switch t.Kind() {
	case reflect.Struct, reflect.Map, reflect.Slice, reflect.Array, reflect.Ptr, reflect.Interface:
		return true
	case reflect.String, reflect.Float32, reflect.Float64:
		return true
	}
	return false
}

func labels(c Case, t reflect.Type) {
	evid.Label("api." + c.Setting.API)
	if c.Setting.ByPtr {
		evid.Label("top.by-pointer")
	} else {
		evid.Label("top.by-value")
	}
	if c.Setting.DecodeFirst {
		evid.Label("fresh-type.decoded-into-before-first-encode")
	}
	evid.Label("top.kind." + t.Kind().String())
	if isPointerShaped(t) {
		evid.Label("top.pointer-shaped")
	}
	d := &c.Type
	feat := map[string]bool{}
	d.Walk(func(x *jgen.TypeDesc) {
		if x.K == "struct" {
			if len(x.Fields) >= 30 {
				feat["struct.wide(>=30 fields)"] = true
			}
			for _, f := range x.Fields {
				if f.Emb {
					feat["struct.embedded"] = true
				}
				if f.Tag != nil {
					tg := *f.Tag
					if bytes.Contains([]byte(tg), []byte(",string")) {
						feat["tag.string"] = true
					}
					if bytes.Contains([]byte(tg), []byte("omitempty")) {
						feat["tag.omitempty"] = true
					}
				}
			}
		}
		if x.K == "map" {
			feat["map.key."+x.Key.K] = true
		}
		if len(x.K) > 0 && x.K[0] == '@' {
			feat["corpus."+x.K[1:]] = true
		}
		if x.K == "any" {
			feat["any"] = true
		}
	})
	for f := range feat {
		evid.Label(f)
	}
}

func isPointerShaped(t reflect.Type) bool {
	switch t.Kind() {
	case reflect.Ptr, reflect.Map:
		return true
	case reflect.Struct:
		return t.NumField() == 1 && isPointerShaped(t.Field(0).Type)
	case reflect.Array:
		return t.Len() == 1 && isPointerShaped(t.Elem())
	}
	return false
}

func TestMarshalDiff(t *testing.T) {
	to, vo := typeOpts(), valOpts()
	evid.Check(t, "MarshalDiff", 30000, func(rt *rapid.T) {
		td := jgen.GenType(rt, to)
		typ := td.Type()
		nvals := rapid.IntRange(1, 4).Draw(rt, "nvals")
		for i := 0; i < nvals; i++ {
			c := Case{Type: td, Value: jgen.GenValue(rt, typ, vo), Setting: genSetting(rt)}
			if c.Setting.API == "Encoder" && c.Setting.N > 1 && rapid.Bool().Draw(rt, "more") {
				for k := 1; k < c.Setting.N; k++ {
					c.More = append(c.More, jgen.GenValue(rt, typ, vo))
				}
			}
			runOne(rt, "MarshalDiff", c, typ)
		}
	})
}

func runOne(rt *rapid.T, test string, c Case, typ reflect.Type) {
	evid.Eval(1)
	labels(c, typ)
	f := checkCase(c)
	if nontrivial(c, typ) {
		evid.NonTrivial(evid.HashS(c.Type.String(), fmt.Sprintf("%+v", c.Setting), fmt.Sprintf("%+v", c.Value)))
	}
	evid.Sample(c)
	if f != nil {
		if cls := knownClass(c, typ, f); cls != "" && evid.KnownActive(cls) {
			evid.Excluded(cls)
			return
		}
		evid.Violation(rt, test, c, f)
	}
}

// TestStringEscape: Escape / AppendEscape against the standard library.
// TestEncoderSequences: one Encoder, 2..6 Encode calls of interface-held values among which some cannot
// be marshalled (NaN, +Inf, a MarshalJSON / MarshalText method that fails, invalid RawMessage, Number that is
// not a number): which calls fail, and what the others write, must be what encoding/json does.
func TestEncoderSequences(t *testing.T) {
	anyT := jgen.TypeDesc{K: "any"}
	f64, str, mval, tval, raw, num, i64 := jgen.TypeDesc{K: "float64"}, jgen.TypeDesc{K: "string"}, jgen.TypeDesc{K: "@MVal"}, jgen.TypeDesc{K: "@TVal"}, jgen.TypeDesc{K: "raw"}, jgen.TypeDesc{K: "number"}, jgen.TypeDesc{K: "int"}
	dyn := func(d *jgen.TypeDesc, r jgen.Recipe) jgen.Recipe { return jgen.Recipe{Dyn: d, Elems: []jgen.Recipe{r}} }
	good := []jgen.Recipe{dyn(&f64, jgen.Recipe{F: math.Float64bits(1.5)}), dyn(&str, jgen.Recipe{S: []byte("<ok>")}), dyn(&mval, jgen.Recipe{Elems: []jgen.Recipe{{S: []byte("v")}}}),
		dyn(&raw, jgen.Recipe{S: []byte(` {"a": 1}`)}), dyn(&num, jgen.Recipe{S: []byte("12")}), dyn(&i64, jgen.Recipe{I: 7}), {Nil: true}}
	bad := []jgen.Recipe{dyn(&f64, jgen.Recipe{F: math.Float64bits(math.NaN())}), dyn(&f64, jgen.Recipe{F: math.Float64bits(math.Inf(1))}), dyn(&mval, jgen.Recipe{Elems: []jgen.Recipe{{S: []byte("ERR")}}}),
		dyn(&tval, jgen.Recipe{Elems: []jgen.Recipe{{S: []byte("ERR")}}}), dyn(&raw, jgen.Recipe{S: []byte(`{"a":`)}), dyn(&num, jgen.Recipe{S: []byte("1x")})}
	evid.Check(t, "EncoderSequences", 1500, func(rt *rapid.T) {
		n := rapid.IntRange(2, 6).Draw(rt, "n")
		var vals []jgen.Recipe
		nbad := 0
		for i := 0; i < n; i++ {
			if rapid.IntRange(0, 2).Draw(rt, "bad") == 0 {
				vals = append(vals, rapid.SampledFrom(bad).Draw(rt, "badv"))
				nbad++
			} else {
				vals = append(vals, rapid.SampledFrom(good).Draw(rt, "goodv"))
			}
		}
		s := Setting{API: "Encoder", N: n, EscapeHTML: rapid.Bool().Draw(rt, "eschtml"), ByPtr: rapid.Bool().Draw(rt, "byptr")}
		if rapid.IntRange(0, 2).Draw(rt, "ind") == 0 {
			s.Prefix, s.Indent = ">", " "
		}
		if rapid.IntRange(0, 5).Draw(rt, "wfail") == 0 {
			s.FailAt = rapid.IntRange(1, n).Draw(rt, "failat")
		}
		c := Case{Type: anyT, Value: vals[0], More: vals[1:], Setting: s}
		evid.Eval(1)
		evid.Label("encoder-sequence")
		if nbad > 0 && nbad < n {
			evid.Label("encoder-sequence.mixes-failing-and-good-values")
			evid.NonTrivial(evid.HashS("encseq", fmt.Sprintf("%+v", c)))
		}
		evid.Sample(c)
		if f := checkCase(c); f != nil {
			evid.Violation(rt, "EncoderSequences", c, f)
		}
	})
}

// TestSharedReferences: values in which one slice, map or pointer is referenced several times (not a cycle),
// below 0..1500 levels of nesting (the encoder starts tracking visited references beyond a depth of its own),
// through every entry point.
func TestSharedReferences(t *testing.T) {
	if evid.Shard() != 0 {
		return
	}
	n := 0
	for _, name := range []string{"shared-slice", "shared-map", "shared-ptr", "shared-mixed"} {
		for _, depth := range []int{0, 1, 10, 500, 998, 999, 1000, 1001, 1002, 1003, 1500} {
			for _, s := range []Setting{{API: "Marshal"}, {API: "Append"}, {API: "Encoder", N: 2, EscapeHTML: true}, {API: "MarshalIndent", Indent: " "}} {
				c := Case{Type: jgen.TypeDesc{K: "any"}, Special: name, N: depth, Setting: s}
				n++
				evid.NonTrivial(evid.HashS("shared", name, fmt.Sprint(depth), s.API))
				if f := checkCase(c); f != nil {
					evid.Violation(t, "SharedReferences", c, f)
				}
			}
		}
	}
	evid.Eval(n)
	evid.Label("shared-references-below-deep-nesting")
	evid.Enumerated("SharedReferences", 1, 1)
}

func TestStringEscape(t *testing.T) {
	evid.Check(t, "StringEscape", 20000, func(rt *rapid.T) {
		s := string(jgen.GenString(rt))
		evid.Eval(1)
		evid.Label("escape")
		if len(s) > 0 {
			evid.NonTrivial(evid.HashS("escape", s))
		}
		if f := checkEscape(s); f != nil {
			evid.Violation(rt, "StringEscape", map[string]any{"s": []byte(s)}, f)
		}
	})
}

func checkEscape(s string) (f *evid.Failure) {
	defer func() {
		if p := recover(); p != nil {
			f = &evid.Failure{Oracle: "Escape must not panic", Observed: fmt.Sprint("panic: ", p), Class: "panic"}
		}
	}()
	want, _ := stdjson.Marshal(s)
	if got := segjson.Escape(s); !bytes.Equal(got, want) {
		return &evid.Failure{Oracle: "Escape(s) == encoding/json.Marshal(s)", Observed: show(got), Expected: show(want), Class: "escape"}
	}
	if got := segjson.AppendEscape(nil, s, segjson.EscapeHTML); !bytes.Equal(got, want) {
		return &evid.Failure{Oracle: "AppendEscape(nil,s,EscapeHTML) == encoding/json.Marshal(s)", Observed: show(got), Expected: show(want), Class: "escape"}
	}
	var buf bytes.Buffer
	e := stdjson.NewEncoder(&buf)
	e.SetEscapeHTML(false)
	e.Encode(s)
	want2 := bytes.TrimSuffix(buf.Bytes(), []byte("\n"))
	if got := segjson.AppendEscape(nil, s, 0); !bytes.Equal(got, want2) {
		return &evid.Failure{Oracle: "AppendEscape(nil,s,0) == Encoder(SetEscapeHTML(false))", Observed: show(got), Expected: show(want2), Class: "escape"}
	}
	return nil
}

// TestDuration: the one sanctioned difference. A time.Duration is written as
// the quoted Duration.String(); everything around it is unchanged.
func TestDuration(t *testing.T) {
	type withDur struct {
		A int
		D time.Duration
		P *time.Duration `json:"p,omitempty"`
		L []time.Duration
		M map[string]time.Duration
	}
	type withStr struct {
		A int
		D string
		P *string `json:"p,omitempty"`
		L []string
		M map[string]string
	}
	evid.Check(t, "Duration", 3000, func(rt *rapid.T) {
		gen := func(label string) time.Duration {
			if rapid.Bool().Draw(rt, label+"k") {
				return time.Duration(rapid.SampledFrom([]int64{0, 1, -1, 999, 1000, 1500, 1e6, 1e9, 60e9, 3600e9, 90061e9 + 5, math.MaxInt64, math.MinInt64, 1e9 + 1, 100e6}).Draw(rt, label))
			}
			return time.Duration(rapid.Int64().Draw(rt, label+"r"))
		}
		v := withDur{A: rapid.IntRange(-5, 5).Draw(rt, "a"), D: gen("d")}
		w := withStr{A: v.A, D: v.D.String()}
		if rapid.Bool().Draw(rt, "hasp") {
			d := gen("p")
			s := d.String()
			v.P, w.P = &d, &s
		}
		n := rapid.IntRange(0, 4).Draw(rt, "n")
		if n > 0 {
			v.M, w.M = map[string]time.Duration{}, map[string]string{}
		}
		for i := 0; i < n; i++ {
			d := gen("e")
			v.L, w.L = append(v.L, d), append(w.L, d.String())
			v.M[fmt.Sprint("k", i)], w.M[fmt.Sprint("k", i)] = d, d.String()
		}
		evid.Eval(1)
		evid.Label("duration")
		evid.NonTrivial(evid.HashS("duration", fmt.Sprintf("%+v", w)))
		pairs := [][2]any{{v, w}, {&v, &w}, {v.D, w.D}, {&v.D, &w.D}, {v.L, w.L}, {v.M, w.M}}
		for _, p := range pairs {
			got, gerr := segjson.Marshal(p[0])
			want, werr := stdjson.Marshal(p[1])
			if gerr != nil || werr != nil || !bytes.Equal(got, want) {
				evid.Violation(rt, "Duration", map[string]any{"value": fmt.Sprintf("%+v", p[0])}, &evid.Failure{Oracle: "Duration is written as the quoted Duration.String(), the rest as encoding/json", Observed: fmt.Sprintf("%s err=%v", show(got), gerr), Expected: show(want), Class: "duration"})
			}
		}
	})
}

func TestReplay(t *testing.T) {
	files := evid.SavedReplays()
	if p := evid.ReplayFile(); p != "" {
		files = []string{p}
	}
	for _, p := range files {
		_, raw, err := evid.LoadReplayCase(p)
		if err != nil {
			t.Fatalf("replay %s: %v", p, err)
		}
		var c Case
		if err := stdjson.Unmarshal(raw, &c); err != nil || c.Type.K == "" {
			var se struct{ S []byte }
			if stdjson.Unmarshal(raw, &se) == nil && se.S != nil {
				evid.Eval(1)
				if f := checkEscape(string(se.S)); f != nil {
					evid.Violation(t, "Replay", se, f)
				}
			}
			continue
		}
		evid.Eval(1)
		typ := c.Type.Type()
		if f := checkCase(c); f != nil {
			if cls := knownClass(c, typ, f); cls != "" && evid.KnownActive(cls) {
				evid.Excluded(cls)
				continue
			}
			evid.Violation(t, "Replay", c, f)
		}
	}
}

func TestKnownFindings(t *testing.T) {
	cs := append([]evid.Class{}, classes...)
	// findings that carry their witness case as data (repaired defects kept as regressions)
	for _, f := range evid.Findings() {
		if len(f.Witness) == 0 {
			continue
		}
		var c Case
		if err := stdjson.Unmarshal(f.Witness, &c); err != nil || c.Type.K == "" {
			t.Errorf("finding %s: witness is not a C01 case: %v", f.ID, err)
			continue
		}
		cs = append(cs, evid.Class{Name: f.Class, Witness: func() *evid.Failure { return checkCase(c) }})
	}
	evid.RunWitnesses(t, cs)
}
