package c01

import (
	"bytes"
	stdjson "encoding/json"
	"testing"

	"verif/harness/evid"
	"verif/harness/jgen"
)

// FuzzMarshalAnyDiff: coverage-guided search over generic values (whatever encoding/json decodes from the input,
// with and without UseNumber) and encoder settings taken from the first input byte; the oracle is the check's own
// (bytes and errors equal to encoding/json). Thorough tier only.
func FuzzMarshalAnyDiff(f *testing.F) {
	for _, s := range []string{`{"a":[1,2.5e3,"x<é>\n ",null,true,false],"":{"k":1e21}}`, `"😀\ud800"`, `-0.0e-1`, `[1e-7,1e21,123456789012345678901234567890,0.000001]`, `{"b":1,"a":2,"B":3}`, `"\u0000\u001f\u007f"`, `[[[[[[[[]]]]]]]]`, `{"<&>":"<&>"}`} {
		for _, set := range []byte{0, 1, 2, 3, 4, 5, 6, 7, 8, 9} {
			f.Add(append([]byte{set}, s...))
		}
	}
	f.Fuzz(func(t *testing.T, data []byte) {
		if len(data) < 2 || len(data) > 1<<14 {
			return
		}
		sel, doc := data[0], data[1:]
		d := stdjson.NewDecoder(bytes.NewReader(doc))
		if sel&1 != 0 {
			d.UseNumber()
		}
		var v any
		if err := d.Decode(&v); err != nil {
			return
		}
		s := Setting{ByPtr: sel&2 != 0}
		switch (sel >> 2) % 5 {
		case 0:
			s.API = "Marshal"
		case 1:
			s.API = "Append"
		case 2:
			s.API = "MarshalIndent"
			s.Prefix, s.Indent = ">", "\t"
		case 3:
			s.API, s.N, s.EscapeHTML = "Encoder", 2, true
		default:
			s.API, s.N, s.Indent = "Encoder", 1, "  "
		}
		c := Case{Type: jgen.TypeDesc{K: "any"}, Value: jgen.RecipeOfAny(v), Setting: s}
		if fl := checkCase(c); fl != nil {
			typ := c.Type.Type()
			if cls := knownClass(c, typ, fl); cls != "" && evid.KnownActive(cls) {
				return
			}
			evid.Violation(t, "FuzzMarshalAnyDiff", c, fl)
		}
	})
}
