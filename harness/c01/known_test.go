package c01

import (
	"reflect"
	"strings"

	"verif/harness/evid"
	"verif/harness/jgen"
)

// Known-finding classes of C01 (see /verif/known_findings.json and DESIGN.md §7).
const (
	clsEmbedDepth        = "json-embedded-depth-dominance"
	clsStringOnMarshaler = "json-string-option-on-marshaler"
	clsSharedStructAddr  = "json-struct-codec-shared-across-addressability"
)

// avoidWhileKnown lists generator features switched off while the
// corresponding known-finding class is active (avoid by construction).
func avoidWhileKnown() []string {
	var a []string
	if evid.KnownActive(clsEmbedDepth) {
		a = append(a, "multiembed")
	}
	if evid.KnownActive(clsStringOnMarshaler) {
		a = append(a, "string-on-marshaler")
	}
	if evid.KnownActive(clsSharedStructAddr) {
		a = append(a, "shared-ptr-recv")
	}
	return a
}

// hasMultiEmbed: some struct in t embeds two or more structs (directly).
func hasMultiEmbed(t reflect.Type, seen map[reflect.Type]bool) bool {
	if seen[t] {
		return false
	}
	seen[t] = true
	switch t.Kind() {
	case reflect.Ptr, reflect.Slice, reflect.Array:
		return hasMultiEmbed(t.Elem(), seen)
	case reflect.Map:
		return hasMultiEmbed(t.Key(), seen) || hasMultiEmbed(t.Elem(), seen)
	case reflect.Struct:
		n := 0
		for i := 0; i < t.NumField(); i++ {
			f := t.Field(i)
			ft := f.Type
			if ft.Kind() == reflect.Ptr {
				ft = ft.Elem()
			}
			if f.Anonymous && ft.Kind() == reflect.Struct {
				n++
			}
			if hasMultiEmbed(f.Type, seen) {
				return true
			}
		}
		return n >= 2
	}
	return false
}

// hasStringOnMarshaler: a field tagged ",string" whose type has marshal methods.
func hasStringOnMarshaler(t reflect.Type, seen map[reflect.Type]bool) bool {
	if seen[t] {
		return false
	}
	seen[t] = true
	switch t.Kind() {
	case reflect.Ptr, reflect.Slice, reflect.Array:
		return hasStringOnMarshaler(t.Elem(), seen)
	case reflect.Map:
		return hasStringOnMarshaler(t.Elem(), seen)
	case reflect.Struct:
		for i := 0; i < t.NumField(); i++ {
			f := t.Field(i)
			if strings.Contains(f.Tag.Get("json"), ",string") && jgen.HasMarshalMethods(f.Type) {
				return true
			}
			if hasStringOnMarshaler(f.Type, seen) {
				return true
			}
		}
	}
	return false
}

// hasSharedPtrRecvStruct: a struct type with a field whose type has a
// pointer-receiver marshaler occurs at two or more positions of the type tree
// (the library builds one codec per struct type, for the addressability of
// the first position it meets).
func hasSharedPtrRecvStruct(t reflect.Type) bool {
	count := map[reflect.Type]int{}
	var walk func(t reflect.Type, depth int)
	walk = func(t reflect.Type, depth int) {
		if depth > 12 {
			return
		}
		switch t.Kind() {
		case reflect.Ptr, reflect.Slice, reflect.Array:
			walk(t.Elem(), depth+1)
		case reflect.Map:
			walk(t.Elem(), depth+1)
		case reflect.Struct:
			count[t]++
			if count[t] > 2 {
				return
			}
			for i := 0; i < t.NumField(); i++ {
				walk(t.Field(i).Type, depth+1)
			}
		}
	}
	walk(t, 0)
	for st, n := range count {
		if n < 2 {
			continue
		}
		for i := 0; i < st.NumField(); i++ {
			ft := st.Field(i).Type
			if ft.Kind() != reflect.Ptr && !implementsMarshal(ft) && implementsMarshal(reflect.PointerTo(ft)) {
				return true
			}
		}
	}
	return false
}

func implementsMarshal(t reflect.Type) bool {
	_, j := t.MethodByName("MarshalJSON")
	_, x := t.MethodByName("MarshalText")
	return j || x
}

// dynTypes collects the dynamic types held in interfaces of the value.
func knownClass(c Case, typ reflect.Type, f *evid.Failure) string {
	if f.Class == "panic" {
		return ""
	}
	if f.Class != "bytes" {
		// a marshaler called (or not called) on the wrong path may also turn into an error difference
		if hasSharedPtrRecvStruct(typ) {
			return clsSharedStructAddr
		}
		return ""
	}
	if hasMultiEmbed(typ, map[reflect.Type]bool{}) {
		return clsEmbedDepth
	}
	if hasStringOnMarshaler(typ, map[reflect.Type]bool{}) {
		return clsStringOnMarshaler
	}
	if hasSharedPtrRecvStruct(typ) {
		return clsSharedStructAddr
	}
	return ""
}

func witnessCase(td jgen.TypeDesc, r jgen.Recipe) *evid.Failure {
	return checkCase(Case{Type: td, Value: r, Setting: Setting{API: "Marshal"}})
}

var classes = []evid.Class{
	{Name: clsSharedStructAddr, Witness: func() *evid.Failure {
		// SAB{A PHold; B *PHold}, PHold{F MPtr}, (*MPtr).MarshalJSON; marshalled by value
		return witnessCase(jgen.TypeDesc{K: "@SAB"}, jgen.Recipe{Elems: []jgen.Recipe{{Elems: []jgen.Recipe{{Elems: []jgen.Recipe{{}}}}}, {Elems: []jgen.Recipe{{Elems: []jgen.Recipe{{Elems: []jgen.Recipe{{}}}}}}}}})
	}},
	{Name: clsEmbedDepth, Witness: func() *evid.Failure {
		// struct{ EmbA; Deep } : Deep embeds EmbA one level deeper; encoding/json keeps the
		// shallower A, x, Y, the library drops A and Y as ambiguous.
		td := jgen.TypeDesc{K: "struct", Fields: []jgen.FieldDesc{{Name: "EmbA", Emb: true, T: jgen.TypeDesc{K: "@EmbA"}}, {Name: "Deep", Emb: true, T: jgen.TypeDesc{K: "@Deep"}}}}
		return witnessCase(td, jgen.Recipe{Elems: []jgen.Recipe{{Elems: []jgen.Recipe{{}, {}, {}}}, {Elems: []jgen.Recipe{{Elems: []jgen.Recipe{{}, {}, {}}}, {}}}}})
	}},
	{Name: "json-named-array-codec-shared-across-addressability", Witness: func() *evid.Failure {
		// MArrFirst{M map[string]ArrMPtr; P *ArrMPtr; A ArrMPtr} by value, ArrMPtr [1]MPtr: the map values are not addressable,
		// the pointee of P is and must use (*MPtr).MarshalJSON
		e := jgen.Recipe{Elems: []jgen.Recipe{{Elems: []jgen.Recipe{{}}}}} // [1]MPtr{{S: ""}}
		return witnessCase(jgen.TypeDesc{K: "@MArrFirst"}, jgen.Recipe{Elems: []jgen.Recipe{{Nil: true}, {Elems: []jgen.Recipe{e}}, e}})
	}},
	{Name: "json-embedded-pointer-fields-not-addressable", Witness: func() *evid.Failure {
		// SE10{*InnerMP; Y int} by value, InnerMP{X MPtr; T TPtr}: X and T are reached through a pointer
		in := jgen.Recipe{Elems: []jgen.Recipe{{Elems: []jgen.Recipe{{}}}, {Elems: []jgen.Recipe{{}}}}}
		return witnessCase(jgen.TypeDesc{K: "@SE10"}, jgen.Recipe{Elems: []jgen.Recipe{{Elems: []jgen.Recipe{in}}, {}}})
	}},
	{Name: clsStringOnMarshaler, Witness: func() *evid.Failure {
		tg := ",string"
		td := jgen.TypeDesc{K: "struct", Fields: []jgen.FieldDesc{{Name: "F", Tag: &tg, T: jgen.TypeDesc{K: "@ByteM"}}}}
		return witnessCase(td, jgen.Recipe{Elems: []jgen.Recipe{{}}})
	}},
}
