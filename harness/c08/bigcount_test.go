package c08

import (
	"fmt"

	"verif/harness/evid"
	"verif/harness/tgen"
)

// bigCount: the valid encoding really holds N > 1024 elements; the announced
// count of that container is inflated and each decode is measured on its own
// against the bytes available.
func (e *engine) bigCount() {
	c := e.c
	if c.Big == nil || c.Big.N < 1 || c.Big.N > 20000 {
		e.resp.Fail = &evid.Failure{Oracle: "harness", Observed: "bigcount case without a usable spec", Class: "harness"}
		return
	}
	td, rec := c.Big.Build()
	e.typ = td.Type()
	e.sig = tgen.Sig(&td)
	v := tgen.Build(&td, &rec)
	valid, marks, err := tgen.RenderBytes(proto(c.P), tgen.ToTree(&td, v))
	if err != nil {
		e.resp.Fail = &evid.Failure{Oracle: "harness", Observed: "render: " + err.Error(), Class: "harness"}
		return
	}
	var big *tgen.Mark
	for i := range marks {
		if m := &marks[i]; m.Kind == c.Big.Container && m.N == c.Big.N {
			big = m
		}
	}
	if big == nil {
		e.resp.Fail = &evid.Failure{Oracle: "harness", Observed: "bigcount: container header not found", Class: "harness"}
		return
	}
	n := int64(c.Big.N)
	type probe struct {
		name string
		in   []byte
		must bool // the announced count exceeds the input: must be rejected
	}
	probes := []probe{{name: "valid", in: valid}}
	for _, nv := range []int64{n + 1, 4 * n, 1000 * n, 1 << 26, 1<<31 - 1} {
		in, ok := withCount(c.P, valid, *big, nv)
		if !ok {
			continue
		}
		probes = append(probes, probe{name: fmt.Sprintf("count=%d", nv), in: in, must: nv > int64(len(in))})
	}
	// the same inflations on a truncated encoding: the elements stop in the middle
	cut := big.Off + big.Len + (len(valid)-big.Off-big.Len)*3/4
	for _, nv := range []int64{1 << 26, 1<<31 - 1} {
		if in, ok := withCount(c.P, valid[:cut], tgen.Mark{Kind: big.Kind, Off: big.Off, Len: big.Len, N: big.N}, nv); ok {
			probes = append(probes, probe{name: fmt.Sprintf("count=%d,truncated", nv), in: in, must: true})
		}
	}
	for i, p := range probes {
		i, p := i, p
		j := &job{pi: ProbeInfo{ID: fmt.Sprintf("bigcount:%d", i), Group: "bigcount", Mut: fmt.Sprintf("%s of %s<%s> holding %d elements (%s)", p.name, c.Big.Container, c.Big.Elem, c.Big.N, c.Big.Nest), Mark: c.Big.Container, N: n}, in: p.in, nt: true}
		j.f = func() *evid.Failure {
			before := totalAlloc()
			out, err := e.unmarshal(p.in)
			d, lim := totalAlloc()-before, allocLimitFor(len(p.in))
			if d > lim {
				return &evid.Failure{Oracle: "memory allocated by one decoding call stays within a constant factor of the bytes available (max(64 MiB, 1024 x input))",
					Observed: fmt.Sprintf("TotalAlloc grew by %d bytes (%.1f MiB) for a %d-byte input holding %d elements", d, float64(d)/(1<<20), len(p.in), c.Big.N), Expected: fmt.Sprintf("<= %d bytes", lim), Class: "alloc"}
			}
			switch {
			case p.name == "valid":
				if err != nil {
					return &evid.Failure{Oracle: "a valid encoding with more than 1024 elements decodes", Observed: err.Error(), Expected: "nil error", Class: "big-valid-rejected"}
				}
				if s := tgen.Equal(&td, v, out); s != "" {
					return &evid.Failure{Oracle: "a valid encoding with more than 1024 elements decodes to the encoded value", Observed: s, Expected: "equal", Class: "big-valid-mismatch"}
				}
			case p.must && err == nil:
				return &evid.Failure{Oracle: "an element count beyond the bytes available is rejected", Observed: "nil error", Expected: "an error", Class: "hostile-size-accepted"}
			}
			return nil
		}
		if !e.run(j) {
			return
		}
	}
}
