package c08

import (
	"fmt"

	"verif/harness/evid"
	"verif/harness/tgen"
)

// BigSpec describes a container that really holds more elements than the
// decoder allocates up front (thrift/decode.go: maxPrealloc = 1024 elements for
// slices, the same number as size hint of maps and sets).
type BigSpec struct {
	Container string `json:"container"` // list | set | map
	Elem      string `json:"elem"`      // element (list) or key (set, map) kind: bool i8 i16 i32 i64 f64 str struct
	Val       string `json:"val,omitempty"`
	N         int    `json:"n"`    // elements really present
	Nest      string `json:"nest"` // top | struct | ptr-struct | list | map: where the container sits
}

func bigKind(s string) tgen.TypeDesc {
	switch s {
	case "bool":
		return tgen.TypeDesc{K: tgen.KBool}
	case "i8":
		return tgen.TypeDesc{K: tgen.KI8}
	case "i16":
		return tgen.TypeDesc{K: tgen.KI16}
	case "i32":
		return tgen.TypeDesc{K: tgen.KI32}
	case "i64":
		return tgen.TypeDesc{K: tgen.KI64}
	case "f64":
		return tgen.TypeDesc{K: tgen.KF64}
	case "str":
		return tgen.TypeDesc{K: tgen.KStr}
	case "struct":
		return tgen.TypeDesc{K: tgen.KStruct, Fields: []tgen.FieldDesc{{ID: 1, T: tgen.TypeDesc{K: tgen.KI8}}, {ID: 2, T: tgen.TypeDesc{K: tgen.KBool}}}}
	}
	panic("bigcount: unknown kind " + s)
}

// bigElem is the i-th element / key: distinct for every i.
func bigElem(kind string, i int) tgen.Recipe {
	switch kind {
	case "bool":
		return tgen.Recipe{I: int64(i % 2)}
	case "i8":
		return tgen.Recipe{I: int64(i%251 - 125)}
	case "i16", "i32", "i64":
		return tgen.Recipe{I: int64(i - 7)}
	case "f64":
		return tgen.Recipe{F: 0x3ff0000000000000 + uint64(i)}
	case "str":
		return tgen.Recipe{B: []byte(fmt.Sprintf("k%d", i))}
	case "struct":
		return tgen.Recipe{E: []tgen.Recipe{{I: int64(i%100 + 1)}, {I: 1}}}
	}
	panic("bigcount: unknown kind " + kind)
}

// build returns the target type and value of the spec.
func (b *BigSpec) build() (tgen.TypeDesc, tgen.Recipe) {
	elem := bigKind(b.Elem)
	var ct tgen.TypeDesc
	cr := tgen.Recipe{}
	switch b.Container {
	case "list":
		ct = tgen.TypeDesc{K: tgen.KList, Elem: &elem}
		for i := 0; i < b.N; i++ {
			cr.E = append(cr.E, bigElem(b.Elem, i))
		}
	case "set":
		ct = tgen.TypeDesc{K: tgen.KSet, Key: &elem}
		for i := 0; i < b.N; i++ {
			cr.K = append(cr.K, bigElem(b.Elem, i))
		}
	default:
		val := bigKind(b.Val)
		ct = tgen.TypeDesc{K: tgen.KMap, Key: &elem, Elem: &val}
		for i := 0; i < b.N; i++ {
			cr.K = append(cr.K, bigElem(b.Elem, i))
			cr.E = append(cr.E, bigElem(b.Val, i))
		}
	}
	i32 := tgen.TypeDesc{K: tgen.KI32}
	st := func(fs ...tgen.FieldDesc) tgen.TypeDesc { return tgen.TypeDesc{K: tgen.KStruct, Fields: fs} }
	switch b.Nest {
	case "struct", "ptr-struct":
		inner := st(tgen.FieldDesc{ID: 3, T: i32}, tgen.FieldDesc{ID: 20, T: ct})
		ir := tgen.Recipe{E: []tgen.Recipe{{I: 5}, cr}}
		if b.Nest == "ptr-struct" {
			return st(tgen.FieldDesc{ID: 1, T: tgen.TypeDesc{K: tgen.KPtr, Elem: &inner}}, tgen.FieldDesc{ID: 2, T: i32}), tgen.Recipe{E: []tgen.Recipe{{E: []tgen.Recipe{ir}}, {I: 9}}}
		}
		return st(tgen.FieldDesc{ID: 1, T: inner}, tgen.FieldDesc{ID: 2, T: i32}), tgen.Recipe{E: []tgen.Recipe{ir, {I: 9}}}
	case "list":
		small := tgen.Recipe{}
		if b.Container == "list" {
			small.E = []tgen.Recipe{bigElem(b.Elem, 0)}
		} else {
			small.K = []tgen.Recipe{bigElem(b.Elem, 0)}
			if b.Container == "map" {
				small.E = []tgen.Recipe{bigElem(b.Val, 0)}
			}
		}
		return st(tgen.FieldDesc{ID: 1, T: tgen.TypeDesc{K: tgen.KList, Elem: &ct}}, tgen.FieldDesc{ID: 2, T: i32}), tgen.Recipe{E: []tgen.Recipe{{E: []tgen.Recipe{small, cr}}, {I: 9}}}
	case "map":
		return st(tgen.FieldDesc{ID: 1, T: tgen.TypeDesc{K: tgen.KMap, Key: &i32, Elem: &ct}}, tgen.FieldDesc{ID: 2, T: i32}),
			tgen.Recipe{E: []tgen.Recipe{{K: []tgen.Recipe{{I: 42}}, E: []tgen.Recipe{cr}}, {I: 9}}}
	}
	return st(tgen.FieldDesc{ID: 1, T: ct}, tgen.FieldDesc{ID: 2, T: i32}), tgen.Recipe{E: []tgen.Recipe{cr, {I: 9}}}
}

// bigCount: the valid encoding really holds N > 1024 elements; the announced
// count of that container is inflated and each decode is measured on its own
// against the bytes available.
func (e *engine) bigCount() {
	c := e.c
	if c.Big == nil || c.Big.N < 1 || c.Big.N > 20000 {
		e.resp.Fail = &evid.Failure{Oracle: "harness", Observed: "bigcount case without a usable spec", Class: "harness"}
		return
	}
	td, rec := c.Big.build()
	e.typ = td.Type()
	e.sig = tgen.Sig(&td)
	v := tgen.Build(&td, &rec)
	valid, marks, err := tgen.RenderBytes(proto(c.P), tgen.ToTree(&td, v))
	if err != nil {
		e.resp.Fail = &evid.Failure{Oracle: "harness", Observed: "render: " + err.Error(), Class: "harness"}
		return
	}
	var big *tgen.Mark
	for i := range marks {
		if m := &marks[i]; m.Kind == c.Big.Container && m.N == c.Big.N {
			big = m
		}
	}
	if big == nil {
		e.resp.Fail = &evid.Failure{Oracle: "harness", Observed: "bigcount: container header not found", Class: "harness"}
		return
	}
	n := int64(c.Big.N)
	type probe struct {
		name string
		in   []byte
		must bool // the announced count exceeds the input: must be rejected
	}
	probes := []probe{{name: "valid", in: valid}}
	for _, nv := range []int64{n + 1, 4 * n, 1000 * n, 1 << 26, 1<<31 - 1} {
		in, ok := withCount(c.P, valid, *big, nv)
		if !ok {
			continue
		}
		probes = append(probes, probe{name: fmt.Sprintf("count=%d", nv), in: in, must: nv > int64(len(in))})
	}
	// the same inflations on a truncated encoding: the elements stop in the middle
	cut := big.Off + big.Len + (len(valid)-big.Off-big.Len)*3/4
	for _, nv := range []int64{1 << 26, 1<<31 - 1} {
		if in, ok := withCount(c.P, valid[:cut], tgen.Mark{Kind: big.Kind, Off: big.Off, Len: big.Len, N: big.N}, nv); ok {
			probes = append(probes, probe{name: fmt.Sprintf("count=%d,truncated", nv), in: in, must: true})
		}
	}
	for i, p := range probes {
		i, p := i, p
		j := &job{pi: ProbeInfo{ID: fmt.Sprintf("bigcount:%d", i), Group: "bigcount", Mut: fmt.Sprintf("%s of %s<%s> holding %d elements (%s)", p.name, c.Big.Container, c.Big.Elem, c.Big.N, c.Big.Nest), Mark: c.Big.Container, N: n}, in: p.in, nt: true}
		j.f = func() *evid.Failure {
			before := totalAlloc()
			out, err := e.unmarshal(p.in)
			d, lim := totalAlloc()-before, allocLimitFor(len(p.in))
			if d > lim {
				return &evid.Failure{Oracle: "memory allocated by one decoding call stays within a constant factor of the bytes available (max(64 MiB, 1024 x input))",
					Observed: fmt.Sprintf("TotalAlloc grew by %d bytes (%.1f MiB) for a %d-byte input holding %d elements", d, float64(d)/(1<<20), len(p.in), c.Big.N), Expected: fmt.Sprintf("<= %d bytes", lim), Class: "alloc"}
			}
			switch {
			case p.name == "valid":
				if err != nil {
					return &evid.Failure{Oracle: "a valid encoding with more than 1024 elements decodes", Observed: err.Error(), Expected: "nil error", Class: "big-valid-rejected"}
				}
				if s := tgen.Equal(&td, v, out); s != "" {
					return &evid.Failure{Oracle: "a valid encoding with more than 1024 elements decodes to the encoded value", Observed: s, Expected: "equal", Class: "big-valid-mismatch"}
				}
			case p.must && err == nil:
				return &evid.Failure{Oracle: "an element count beyond the bytes available is rejected", Observed: "nil error", Expected: "an error", Class: "hostile-size-accepted"}
			}
			return nil
		}
		if !e.run(j) {
			return
		}
	}
}
