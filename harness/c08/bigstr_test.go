package c08

import (
	"bytes"
	"fmt"
	"reflect"

	"verif/harness/evid"
	"verif/harness/tgen"
	"verif/harness/thriftspec"
)

// BigStr describes a string / []byte longer than 64 KiB (the readers take
// announced lengths above 64 KiB incrementally) and where it sits.
type BigStr struct {
	Size  int    `json:"size"`
	Bytes bool   `json:"bytes,omitempty"` // []byte target instead of string
	Where string `json:"where"`           // top | list-last | field-last | reader
}

func bigBody(n int) []byte {
	b := make([]byte, n)
	for i := range b {
		b[i] = byte('a' + i%23)
	}
	return b
}

// bigStr: the valid encoding and a set of truncations of it (inside the length
// prefix, 0 and 1 byte into the body, around the 64 KiB marks of the body, in
// its middle, 1 byte before its end and 1 byte before the end of the input).
// Every proper non-empty prefix must give an unexpected-EOF class error.
func (e *engine) bigStr() {
	c := e.c
	s := c.Str
	if s == nil || s.Size < 1 || s.Size > 1<<20 {
		e.resp.Fail = &evid.Failure{Oracle: "harness", Observed: "bigstr case without a usable spec", Class: "harness"}
		return
	}
	body := bigBody(s.Size)
	sv := thriftspec.Value{T: thriftspec.String, S: body}
	strT := tgen.TypeDesc{K: tgen.KStr}
	if s.Bytes {
		strT = tgen.TypeDesc{K: tgen.KBytes}
	}
	var tree thriftspec.Value
	var td tgen.TypeDesc
	get := func(v reflect.Value) []byte { // the big value inside a decoded target
		for v.Kind() == reflect.Ptr {
			v = v.Elem()
		}
		switch s.Where {
		case "list-last":
			if v.Len() == 0 {
				return nil
			}
			v = v.Index(v.Len() - 1)
		case "field-last":
			v = v.Field(1)
		}
		if v.Kind() == reflect.String {
			return []byte(v.String())
		}
		return v.Bytes()
	}
	switch s.Where {
	case "top", "reader":
		tree, td = sv, strT
	case "list-last":
		tree = thriftspec.Value{T: thriftspec.List, ET: thriftspec.String, Elems: []thriftspec.Value{{T: thriftspec.String, S: []byte("a")}, {T: thriftspec.String, S: []byte("bb")}, sv}}
		td = tgen.TypeDesc{K: tgen.KList, Elem: &strT}
	case "field-last":
		tree = thriftspec.Value{T: thriftspec.Struct, Fields: []thriftspec.Field{{ID: 1, V: thriftspec.Value{T: thriftspec.I32, I: 7}}, {ID: 2, V: sv}}}
		td = tgen.TypeDesc{K: tgen.KStruct, Fields: []tgen.FieldDesc{{ID: 1, T: tgen.TypeDesc{K: tgen.KI32}}, {ID: 2, T: strT}}}
	default:
		e.resp.Fail = &evid.Failure{Oracle: "harness", Observed: "bigstr: unknown position " + s.Where, Class: "harness"}
		return
	}
	e.typ = td.Type()
	e.sig = "bigstr." + s.Where
	valid, marks, err := tgen.RenderBytes(proto(c.P), tree)
	if err != nil {
		e.resp.Fail = &evid.Failure{Oracle: "harness", Observed: "render: " + err.Error(), Class: "harness"}
		return
	}
	hdr := -1
	for _, m := range marks {
		if m.Kind == "strlen" && m.N == s.Size {
			hdr = m.Off + m.Len // first byte of the body
		}
	}
	if hdr < 0 {
		e.resp.Fail = &evid.Failure{Oracle: "harness", Observed: "bigstr: length prefix not found", Class: "harness"}
		return
	}
	cuts := map[int]string{}
	for k := hdr - 5; k < hdr; k++ {
		cuts[k] = "inside the length prefix"
	}
	cuts[hdr] = "after the length prefix"
	cuts[hdr+1] = "1 byte into the body"
	for _, d := range []int{65535, 65536, 65537, 131071, 131072} {
		cuts[hdr+d] = "at a 64 KiB mark of the body"
	}
	cuts[hdr+s.Size/2] = "in the middle of the body"
	cuts[hdr+s.Size-1] = "1 byte before the end of the body"
	cuts[len(valid)-1] = "1 byte before the end of the input"
	call := func(in []byte, rk int) (reflect.Value, error) {
		if s.Where == "reader" {
			r := proto(c.P).NewReader(newReader(rk, in))
			if s.Bytes {
				b, err := r.ReadBytes()
				return reflect.ValueOf(b), err
			}
			str, err := r.ReadString()
			return reflect.ValueOf(str), err
		}
		if rk%2 == 0 {
			return e.unmarshal(in)
		}
		return e.decode(in, rk, false)
	}
	what := map[bool]string{false: "string", true: "[]byte"}[s.Bytes]
	if !e.run(&job{pi: ProbeInfo{ID: "bigstr:valid", Group: "bigstr", Mut: fmt.Sprintf("valid %s of %d bytes (%s)", what, s.Size, s.Where)}, in: valid, nt: true, f: func() *evid.Failure {
		for rk := 0; rk < 4; rk++ {
			out, err := call(valid, c.RK+rk)
			if err != nil {
				return &evid.Failure{Oracle: "a valid encoding with a value longer than 64 KiB decodes", Observed: err.Error(), Expected: "nil error", Class: "big-valid-rejected"}
			}
			if got := get(out); !bytes.Equal(got, body) {
				return &evid.Failure{Oracle: "a value longer than 64 KiB decodes to itself", Observed: fmt.Sprintf("%d bytes", len(got)), Expected: fmt.Sprintf("the %d bytes encoded", len(body)), Class: "big-valid-mismatch"}
			}
		}
		return nil
	}}) {
		return
	}
	for k := 1; k < len(valid); k++ { // deterministic order
		name, ok := cuts[k]
		if !ok {
			continue
		}
		k := k
		in := valid[:k]
		e.label("bigstr.cut " + name)
		mut := fmt.Sprintf("%s of %d bytes (%s) cut at %d of %d: %s", what, s.Size, s.Where, k, len(valid), name)
		if !e.run(&job{pi: ProbeInfo{ID: fmt.Sprintf("bigstr:%d", k), Group: "bigstr", Mut: mut, N: int64(k)}, in: in, nt: true, f: func() *evid.Failure {
			for rk := 0; rk < 2; rk++ {
				out, err := call(in, c.RK+k+rk)
				if f := prefixFailure(k, err); f != nil {
					if err == nil && out.IsValid() {
						f.Observed += fmt.Sprintf(" (a %d-byte value was returned)", len(get(out)))
					}
					return f
				}
			}
			return nil
		}}) {
			return
		}
	}
}
