package c08

// Out-of-process supervision (DESIGN.md §1.4). Every library call of this
// property runs in a persistent worker child (the test binary re-executed with
// C08_WORKER=1, inheriting the driver's RLIMIT_AS): a fatal error (out of
// memory, stack overflow) or a stall kills only the worker; the parent learns
// from the progress lines which probe was in flight, classifies it, restarts
// the worker and continues with the remaining probes of the case.

import (
	"bufio"
	"encoding/json"
	"fmt"
	"os"
	"os/exec"
	"strings"
	"sync"
	"sync/atomic"
	"syscall"
	"time"

	"verif/harness/evid"
)

// Request is one unit of work for the worker.
type Request struct {
	Case  Case     `json:"case"`
	Skip  []string `json:"skip,omitempty"`  // probe ids not to execute (they killed or stalled a previous worker)
	Known []string `json:"known,omitempty"` // classes listed as known (the worker does not read known_findings.json)
}

// ProbeInfo identifies one library call of a case.
type ProbeInfo struct {
	ID    string `json:"id"`
	Group string `json:"g"`             // prefix | mutate | random | flip | insert | trailing | missing | mismatch | readerops | baseline
	Mut   string `json:"mut,omitempty"` // mutation applied
	Mark  string `json:"mark,omitempty"`
	N     int64  `json:"n,omitempty"` // new count / cut offset
	Len   int    `json:"len"`         // input length
	P     int    `json:"p"`
}

// Response is the worker's answer for one request.
type Response struct {
	Fail       *evid.Failure  `json:"fail,omitempty"`
	Probe      *ProbeInfo     `json:"probe,omitempty"`
	Labels     map[string]int `json:"labels,omitempty"`
	Excl       map[string]int `json:"excl,omitempty"`
	Evals      int            `json:"evals"`
	Hashes     []uint64       `json:"hashes,omitempty"`
	SampleNote string         `json:"sample_note,omitempty"`
}

// probeStarted is the start time (unix nanoseconds) of the probe in flight, 0 when idle.
var probeStarted atomic.Int64

const stallExit = 3

// probeLimit bounds one library call inside the worker. A call on an input of
// at most a few KiB takes microseconds; one that runs for 20 s (about a million
// times longer, far beyond anything machine load explains) does not return in
// any practical sense: the worker exits with stallExit and the parent reports
// the probe (class "stall") unless a listed defect explains it.
func probeLimit() time.Duration { return 20 * time.Second }

// workerAS is the worker's own address-space limit (below the driver's 16 GiB):
// an attacker-sized request above it is an immediate, cheap fatal error instead
// of gigabytes for the collector to scan.
const workerAS = 4 << 30

func workerMain() {
	var lim syscall.Rlimit
	if syscall.Getrlimit(syscall.RLIMIT_AS, &lim) == nil && lim.Cur > workerAS {
		lim.Cur = workerAS
		syscall.Setrlimit(syscall.RLIMIT_AS, &lim)
	}
	in := bufio.NewReaderSize(os.Stdin, 1<<20)
	out := bufio.NewWriterSize(os.Stdout, 1<<16)
	go func() {
		limit := probeLimit()
		for {
			time.Sleep(100 * time.Millisecond)
			if t := probeStarted.Load(); t != 0 && time.Since(time.Unix(0, t)) > limit {
				os.Exit(stallExit)
			}
		}
	}()
	for {
		line, err := in.ReadBytes('\n')
		if len(line) > 1 {
			var req Request
			if jerr := json.Unmarshal(line, &req); jerr != nil {
				fmt.Fprintf(out, "R {\"fail\":{\"oracle\":\"harness\",\"observed\":%q}}\n", "bad request: "+jerr.Error())
				out.Flush()
			} else {
				resp := runProbes(&req, func(pi *ProbeInfo) {
					b, _ := json.Marshal(pi)
					out.WriteString("P ")
					out.Write(b)
					out.WriteByte('\n')
					out.Flush()
				})
				b, _ := json.Marshal(resp)
				out.WriteString("R ")
				out.Write(b)
				out.WriteByte('\n')
				out.Flush()
			}
		}
		if err != nil {
			return
		}
	}
}

type worker struct {
	cmd    *exec.Cmd
	inPipe interface{ Close() error }
	lastP  atomic.Pointer[string]
	stdin  *bufio.Writer
	lines  chan string
	errBuf *tailBuffer
}

type tailBuffer struct {
	mu sync.Mutex
	b  []byte
}

func (t *tailBuffer) Write(p []byte) (int, error) {
	t.mu.Lock()
	t.b = append(t.b, p...)
	if len(t.b) > 16384 {
		t.b = append(t.b[:4096:4096], t.b[len(t.b)-8192:]...)
	}
	t.mu.Unlock()
	return len(p), nil
}

func (t *tailBuffer) String() string {
	t.mu.Lock()
	defer t.mu.Unlock()
	return string(t.b)
}

var theWorker *worker
var workerStarts int

func startWorker() (*worker, error) {
	cmd := exec.Command(os.Args[0], "-test.run", "^$")
	cmd.Env = append(os.Environ(), "C08_WORKER=1", "VERIF_OUT=", "VERIF_HASHES=", "VERIF_JOURNAL=", "GOTRACEBACK=single", "GOMAXPROCS=2")
	in, err := cmd.StdinPipe()
	if err != nil {
		return nil, err
	}
	outp, err := cmd.StdoutPipe()
	if err != nil {
		return nil, err
	}
	w := &worker{cmd: cmd, inPipe: in, stdin: bufio.NewWriterSize(in, 1<<16), lines: make(chan string, 256), errBuf: &tailBuffer{}}
	cmd.Stderr = w.errBuf
	if err := cmd.Start(); err != nil {
		return nil, err
	}
	workerStarts++
	go func() {
		sc := bufio.NewScanner(outp)
		sc.Buffer(make([]byte, 1<<20), 1<<28)
		for sc.Scan() {
			line := sc.Text()
			if strings.HasPrefix(line, "P ") {
				w.lastP.Store(&line) // progress lines are only kept, parsed when the worker dies
				continue
			}
			w.lines <- line
		}
		close(w.lines)
	}()
	return w, nil
}

func (w *worker) closeIn() { w.inPipe.Close() }

func (w *worker) kill() {
	if w.cmd.Process != nil {
		w.cmd.Process.Kill()
	}
	go func() { // drain so the scanner goroutine can finish
		for range w.lines {
		}
	}()
	w.cmd.Wait()
}

func stopWorker() {
	if theWorker != nil {
		if os.Getenv("C08_WORKER_PROF") != "" { // development aid: let the worker finish its profile
			theWorker.closeIn()
			time.Sleep(300 * time.Millisecond)
		}
		theWorker.kill()
		theWorker = nil
	}
}

type exchange struct {
	resp     *Response
	died     bool
	exit     int
	timedOut bool
	last     *ProbeInfo // probe in flight when the worker died / stalled
	tail     string
}

// caseTimeout bounds one request (backstop behind the worker's own watchdog).
func caseTimeout() time.Duration { return 90 * time.Second }

func (w *worker) do(req *Request) exchange {
	b, _ := json.Marshal(req)
	w.lastP.Store(nil) // before the request is sent: the reader goroutine stores progress lines concurrently
	w.stdin.Write(b)
	w.stdin.WriteByte('\n')
	if err := w.stdin.Flush(); err != nil {
		return exchange{died: true, tail: "write to worker: " + err.Error() + "\n" + w.errBuf.String()}
	}
	lastProbe := func() *ProbeInfo {
		if lp := w.lastP.Load(); lp != nil {
			var pi ProbeInfo
			if json.Unmarshal([]byte((*lp)[2:]), &pi) == nil {
				return &pi
			}
		}
		return nil
	}
	timer := time.NewTimer(caseTimeout())
	defer timer.Stop()
	for {
		select {
		case line, ok := <-w.lines:
			if !ok {
				last := lastProbe()
				code := -1
				if err := w.cmd.Wait(); err != nil {
					if ee, ok := err.(*exec.ExitError); ok {
						code = ee.ExitCode()
					}
				} else {
					code = 0
				}
				return exchange{died: true, exit: code, last: last, tail: w.errBuf.String()}
			}
			switch {
			case strings.HasPrefix(line, "R "):
				var r Response
				if err := json.Unmarshal([]byte(line[2:]), &r); err != nil {
					return exchange{resp: &Response{Fail: &evid.Failure{Oracle: "harness", Observed: "bad worker response: " + err.Error()}}}
				}
				return exchange{resp: &r}
			}
		case <-timer.C:
			return exchange{timedOut: true, last: lastProbe(), tail: w.errBuf.String()}
		}
	}
}

// outcome of a case after supervision.
type outcome struct {
	fail   *evid.Failure
	probe  *ProbeInfo
	labels map[string]int
	excl   map[string]int
	evals  int
	hashes []uint64
}

func merge(dst, src map[string]int) {
	for k, v := range src {
		dst[k] += v
	}
}

// runCase executes c in the worker, restarting it after faults that belong to
// listed known classes (or after stalls, which this property does not judge).
func runCase(c Case, known []string) outcome {
	out := outcome{labels: map[string]int{}, excl: map[string]int{}}
	req := &Request{Case: c, Known: known}
	knownSet := map[string]bool{}
	for _, k := range known {
		knownSet[k] = true
	}
	for attempt := 0; attempt < 40; attempt++ {
		if theWorker == nil {
			w, err := startWorker()
			if err != nil {
				out.fail = &evid.Failure{Oracle: "harness", Observed: "cannot start worker: " + err.Error()}
				return out
			}
			theWorker = w
		}
		ex := theWorker.do(req)
		if ex.resp != nil {
			merge(out.labels, ex.resp.Labels)
			merge(out.excl, ex.resp.Excl)
			out.evals += ex.resp.Evals
			out.hashes = append(out.hashes, ex.resp.Hashes...)
			out.fail, out.probe = ex.resp.Fail, ex.resp.Probe
			return out
		}
		// the worker died or stalled
		stopWorker()
		if ex.last == nil {
			out.fail = &evid.Failure{Oracle: "harness", Observed: "worker died before the first probe: " + tailOf(ex.tail), Class: "harness"}
			return out
		}
		out.evals++
		if ex.died && ex.exit == -1 && !strings.Contains(ex.tail, "fatal error") && !strings.Contains(ex.tail, "panic") && !strings.Contains(ex.tail, "runtime:") {
			// Killed by a signal without any report of the Go runtime: not a fault of the
			// call but an external kill (the driver's time limit kills the whole process
			// group, this process included). Wait for our own turn; if we are still alive
			// the probe is recorded as not judged - never as a violation.
			time.Sleep(5 * time.Second)
			out.labels["worker-killed-externally(not judged)."+ex.last.Group]++
			evid.Note("worker killed by an external signal during probe " + ex.last.ID + " (not judged)")
			req.Skip = append(req.Skip, ex.last.ID)
			continue
		}
		if ex.timedOut || ex.exit == stallExit {
			f := &evid.Failure{Oracle: fmt.Sprintf("decoding is total: the call returns (probe %s %s, %d-byte input)", ex.last.ID, ex.last.Mut, ex.last.Len),
				Observed: fmt.Sprintf("no return within %s", probeLimit()), Expected: "returns (value or error)", Class: "stall"}
			if cls := knownClass(&c, ex.last, f); cls != "" && knownSet[cls] {
				out.excl[cls]++
				out.labels["excluded-failure."+ex.last.Group+".stall"]++
				req.Skip = append(req.Skip, ex.last.ID)
				continue
			}
			out.fail, out.probe = f, ex.last
			return out
		}
		f := &evid.Failure{Oracle: "no fault (process survives the call): probe " + ex.last.ID + " " + ex.last.Mut, Observed: "worker process died: " + tailOf(ex.tail), Expected: "returns", Class: "fatal"}
		if cls := knownClass(&c, ex.last, f); cls != "" && knownSet[cls] {
			out.excl[cls]++
			out.labels["excluded-failure."+ex.last.Group+".fatal"]++
			req.Skip = append(req.Skip, ex.last.ID)
			continue
		}
		out.fail, out.probe = f, ex.last
		return out
	}
	out.labels["case-abandoned-after-40-restarts"]++
	return out
}

func tailOf(s string) string {
	// keep the first lines of the runtime's report (fatal error / panic line)
	lines := strings.Split(s, "\n")
	var keep []string
	for _, l := range lines {
		if strings.Contains(l, "fatal error") || strings.Contains(l, "panic:") || strings.Contains(l, "runtime:") || strings.Contains(l, "out of memory") || strings.Contains(l, "cannot allocate") || strings.Contains(l, "signal") {
			keep = append(keep, strings.TrimSpace(l))
		}
		if len(keep) >= 6 {
			break
		}
	}
	if len(keep) == 0 {
		if len(s) > 600 {
			s = s[:600]
		}
		return s
	}
	return strings.Join(keep, " | ")
}
