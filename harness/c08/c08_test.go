// C08 — thrift decoding is total, bounded and skips unknown fields.
// DESIGN.md §4 C08. Every library call runs in a supervised worker process
// (worker_test.go); this file holds the case format, the generators, the probe
// derivation and the oracles.
package c08

import (
	"bufio"
	"bytes"
	"encoding/binary"
	"encoding/json"
	"errors"
	"fmt"
	"io"
	"math"
	"os"
	"reflect"
	"runtime"
	"runtime/debug"
	"runtime/pprof"
	"sort"
	"strings"
	"testing"
	"time"

	"github.com/segmentio/encoding/thrift"
	"pgregory.net/rapid"

	"verif/harness/evid"
	"verif/harness/tgen"
	"verif/harness/thriftspec"
)

func TestMain(m *testing.M) {
	if os.Getenv("C08_WORKER") != "" {
		if p := os.Getenv("C08_WORKER_PROF"); p != "" { // development aid
			f, _ := os.Create(fmt.Sprintf("%s.%d", p, os.Getpid()))
			pprof.StartCPUProfile(f)
			workerMain()
			pprof.StopCPUProfile()
			f.Close()
			os.Exit(0)
		}
		workerMain()
		os.Exit(0)
	}
	evid.Main(m, "C08")
}

// Case is the replayable unit.
//
//	target    : a struct type T, a value V and a protocol P; the probes (every
//	            prefix, header mutations, byte flips, random bytes, unknown-field
//	            insertions, trailing bytes, twin encodings) are derived
//	            deterministically from these fields
//	bigcount  : Big describes a list / set / map that really holds N > 1024 elements (the decoder
//	            preallocates at most 1024) at the top level or nested in a struct, a list or a
//	            map; its announced count is inflated (N+1, 4N, 1000N, 2^26, 2^31-1) and the
//	            allocation of the decode is measured against the bytes available
//	bigstr    : Str describes a string / []byte of 65537, 70000 or 131073 bytes as top-level target, last
//	            element of a top-level list, last field of a struct, or read through Reader.ReadString /
//	            ReadBytes; the encoding is truncated at a set of offsets
//	readerops : Ops (indices into readerOpNames) applied to a Reader of protocol P over Bytes
type Case struct {
	Kind    string             `json:"kind"`
	P       int                `json:"p"` // 0 binary strict, 1 binary non-strict, 2 compact
	T       *tgen.TypeDesc     `json:"type,omitempty"`
	V       *tgen.Recipe       `json:"val,omitempty"`
	Unknown []thriftspec.Field `json:"unknown,omitempty"` // fields T does not declare, inserted at every field boundary
	Rand    [][]byte           `json:"rand,omitempty"`    // arbitrary inputs decoded into T
	Flips   [][2]int           `json:"flips,omitempty"`   // (position permille, new byte) applied to the valid encoding, cumulatively
	Trail   []byte             `json:"trail,omitempty"`
	RK      int                `json:"rk,omitempty"`  // io.Reader implementation given to Decoder probes
	Sel     int                `json:"sel,omitempty"` // fuzz: index into fuzzTargets
	Str     *BigStr            `json:"str,omitempty"` // bigstr: a string / []byte longer than 64 KiB, truncated
	Big     *tgen.BigSpec      `json:"big,omitempty"` // bigcount: a container really holding more elements than the decoder preallocates
	Ops     []int              `json:"ops,omitempty"`
	Hostile int64              `json:"hostile,omitempty"` // readerops: the count / length crafted in front of Ops[0] (0: random bytes)
	Bytes   []byte             `json:"bytes,omitempty"`
}

const (
	classWideIDs   = "thrift-decode-id-range-beyond-bitmap"
	classShortRead = "thrift-binary-short-read-ignored"
	classNegCount  = "thrift-negative-count-not-rejected"
	classAlloc     = "thrift-wire-size-allocation"
	classSkipBool  = "thrift-compact-skip-bool-field"
	classMissingID = "thrift-missingfield-wrong-id"
)

var allClasses = []string{classWideIDs, classShortRead, classNegCount, classAlloc, classSkipBool, classMissingID}

const allocLimit = 64 << 20
const inputLimit = 4 << 10

// allocLimitFor is the allocation bound of one decoding call: 64 MiB for inputs
// of at most 4 KiB (DESIGN C07/C08: a factor 16384), and for larger inputs a
// factor 1024 of the bytes available, never less than 64 MiB. Legitimate
// decoding allocates a small multiple of the input; a wire-announced count
// that is trusted allocates count x element size.
func allocLimitFor(n int) uint64 {
	if l := uint64(n) * 1024; l > allocLimit {
		return l
	}
	return allocLimit
}

func proto(i int) thrift.Protocol { return tgen.Protocol(thriftspec.Proto(i % 3)) }

func isBinary(p int) bool { return p%3 != 2 }

// ---------------------------------------------------------------- readers

type plainReader struct{ r *bytes.Reader } // io.Reader only (no ReadByte)

func (p *plainReader) Read(b []byte) (int, error) { return p.r.Read(b) }

type oneByteReader struct{ r *bytes.Reader } // returns at most one byte per Read

func (p *oneByteReader) Read(b []byte) (int, error) {
	if len(b) == 0 {
		return 0, nil
	}
	return p.r.Read(b[:1])
}

var readerKinds = []string{"bytes.Reader", "bytes.Buffer", "bufio.Reader", "plain io.Reader", "one-byte io.Reader"}

func newReader(kind int, b []byte) io.Reader {
	switch kind % len(readerKinds) {
	case 1:
		return bytes.NewBuffer(append([]byte(nil), b...))
	case 2:
		return bufio.NewReaderSize(bytes.NewReader(b), 16)
	case 3:
		return &plainReader{bytes.NewReader(b)}
	case 4:
		return &oneByteReader{bytes.NewReader(b)}
	}
	return bytes.NewReader(b)
}

// ---------------------------------------------------------------- engine (runs in the worker)

type job struct {
	pi ProbeInfo
	in []byte
	nt bool // non-trivial by the rule of DESIGN §4 C07/C08
	f  func() *evid.Failure
}

type engine struct {
	c        *Case
	known    map[string]bool
	skip     map[string]bool
	resp     *Response
	progress func(*ProbeInfo)
	typ      reflect.Type
	sig      string
	stopped  bool
}

func (e *engine) label(s string) { e.resp.Labels[s]++ }

func guard(f func() *evid.Failure) (fail *evid.Failure) {
	defer func() {
		if r := recover(); r != nil {
			fail = &evid.Failure{Oracle: "no panic", Observed: fmt.Sprintf("panic: %v", r), Expected: "returns (value or error)", Class: "panic"}
		}
	}()
	return f()
}

func totalAlloc() uint64 {
	var ms runtime.MemStats
	runtime.ReadMemStats(&ms)
	return ms.TotalAlloc
}

// run executes one job; it returns false when the case must stop (failure that is not a listed class).
func (e *engine) run(j *job) bool {
	if e.stopped {
		return false
	}
	if e.skip[j.pi.ID] {
		e.label("skipped-after-fault." + j.pi.Group)
		return true
	}
	j.pi.Len = len(j.in)
	j.pi.P = e.c.P
	e.progress(&j.pi)
	e.resp.Evals++
	e.label("probe." + j.pi.Group)
	if j.nt {
		e.resp.Hashes = append(e.resp.Hashes, evid.Hash([]byte(e.sig), []byte{byte(e.c.P)}, []byte(j.pi.Group), j.in))
	}
	probeStarted.Store(time.Now().UnixNano())
	fail := guard(j.f)
	probeStarted.Store(0)
	return e.judge(j, fail)
}

func (e *engine) judge(j *job, fail *evid.Failure) bool {
	if fail == nil {
		return true
	}
	fail.Oracle += fmt.Sprintf(" [probe %s %s, %s, input %s]", j.pi.ID, j.pi.Mut, thriftspec.Proto(e.c.P%3), hexShort(j.in))
	if cls := knownClass(e.c, &j.pi, fail); cls != "" && e.known[cls] {
		e.resp.Excl[cls]++
		e.label("excluded-failure." + j.pi.Group + "." + fail.Class)
		return true
	}
	pi := j.pi
	e.resp.Fail, e.resp.Probe = fail, &pi
	e.stopped = true
	return false
}

// runGroup executes the jobs and checks the allocation bound: TotalAlloc may
// grow by at most allocLimit per call for inputs of at most inputLimit bytes.
// Measured over the group first (one stop-the-world pair), per call only when
// the group total exceeds the bound.
func (e *engine) runGroup(jobs []*job) {
	if e.stopped || len(jobs) == 0 {
		return
	}
	before := totalAlloc()
	for _, j := range jobs {
		if !e.run(j) {
			return
		}
	}
	if totalAlloc()-before <= allocLimit {
		return
	}
	for _, j := range jobs {
		if e.skip[j.pi.ID] {
			continue
		}
		debug.FreeOSMemory() // collect the previous call's garbage: the address space is limited
		e.progress(&j.pi)
		b0 := totalAlloc()
		probeStarted.Store(time.Now().UnixNano())
		guard(j.f)
		probeStarted.Store(0)
		if d, lim := totalAlloc()-b0, allocLimitFor(len(j.in)); d > lim {
			f := &evid.Failure{Oracle: "memory allocated by one decoding call stays within a constant factor of the bytes available (64 MiB up to 4 KiB of input, else max(64 MiB, 1024 x input))",
				Observed: fmt.Sprintf("TotalAlloc grew by %d bytes (%.1f MiB) for a %d-byte input", d, float64(d)/(1<<20), len(j.in)), Expected: fmt.Sprintf("<= %d bytes", lim), Class: "alloc"}
			if !e.judge(j, f) {
				return
			}
		}
	}
}

func hexShort(b []byte) string {
	if len(b) > 160 {
		return evid.Hex(b[:160]) + fmt.Sprintf("…(%d bytes)", len(b))
	}
	return evid.Hex(b)
}

func (e *engine) unmarshal(b []byte) (reflect.Value, error) {
	out := reflect.New(e.typ)
	err := thrift.Unmarshal(proto(e.c.P), b, out.Interface())
	return out.Elem(), err
}

func (e *engine) decode(b []byte, rk int, strict bool) (reflect.Value, error) {
	out := reflect.New(e.typ)
	var d *thrift.Decoder
	if rk%2 == 1 {
		// a reused Decoder: created on a stream of another protocol, configured, then Reset onto this
		// input. Reset replaces the reader (and with it the protocol); the strictness option stays.
		d = thrift.NewDecoder(proto(e.c.P + 1).NewReader(bytes.NewReader([]byte{0})))
		d.SetStrict(strict)
		var scratch struct{}
		d.Decode(&scratch)
		d.Reset(proto(e.c.P).NewReader(newReader(rk, b)))
	} else {
		d = thrift.NewDecoder(proto(e.c.P).NewReader(newReader(rk, b)))
		d.SetStrict(strict)
	}
	err := d.Decode(out.Interface())
	return out.Elem(), err
}

func runProbes(req *Request, progress func(*ProbeInfo)) (resp *Response) {
	resp = &Response{Labels: map[string]int{}, Excl: map[string]int{}}
	e := &engine{c: &req.Case, known: map[string]bool{}, skip: map[string]bool{}, resp: resp, progress: progress}
	for _, k := range req.Known {
		e.known[k] = true
	}
	for _, s := range req.Skip {
		e.skip[s] = true
	}
	defer func() {
		if r := recover(); r != nil {
			resp.Fail = &evid.Failure{Oracle: "harness", Observed: fmt.Sprintf("harness panic: %v", r), Class: "harness"}
		}
	}()
	switch req.Case.Kind {
	case "target":
		e.target()
	case "readerops":
		e.readerOps()
	case "fuzz":
		e.fuzzCase()
	case "bigcount":
		e.bigCount()
	case "bigstr":
		e.bigStr()
	default:
		resp.Fail = &evid.Failure{Oracle: "harness", Observed: "unknown kind " + req.Case.Kind, Class: "harness"}
	}
	return resp
}

// ---------------------------------------------------------------- target probes

func prefixFailure(k int, err error) *evid.Failure {
	switch {
	case err == nil:
		exp := "an error for which errors.Is(err, io.ErrUnexpectedEOF)"
		if k == 0 {
			exp = "io.EOF"
		}
		return &evid.Failure{Oracle: fmt.Sprintf("a proper prefix (%d bytes) of a valid encoding is rejected", k), Observed: "nil error", Expected: exp, Class: "prefix-no-error"}
	case k == 0:
		if !errors.Is(err, io.EOF) {
			return &evid.Failure{Oracle: "empty input yields io.EOF", Observed: fmt.Sprintf("%T %v", err, err), Expected: "io.EOF", Class: "prefix-wrong-error"}
		}
	case !errors.Is(err, io.ErrUnexpectedEOF):
		return &evid.Failure{Oracle: fmt.Sprintf("input truncated at offset %d yields an unexpected-EOF class error", k), Observed: fmt.Sprintf("%T %v", err, err), Expected: "errors.Is(err, io.ErrUnexpectedEOF)", Class: "prefix-wrong-error"}
	}
	return nil
}

func uleb(v uint64) []byte {
	var b []byte
	for v >= 0x80 {
		b = append(b, byte(v)|0x80)
		v >>= 7
	}
	return append(b, byte(v))
}

// withCount rewrites the header at mark m of encoding b so that it announces n elements / bytes.
func withCount(p int, b []byte, m tgen.Mark, n int64) ([]byte, bool) {
	old := b[m.Off : m.Off+m.Len]
	var hdr []byte
	if isBinary(p) {
		var cnt [4]byte
		binary.BigEndian.PutUint32(cnt[:], uint32(int32(n)))
		switch m.Kind {
		case "list", "set":
			hdr = append([]byte{old[0]}, cnt[:]...)
		case "map":
			hdr = append([]byte{old[0], old[1]}, cnt[:]...)
		case "strlen":
			hdr = cnt[:]
		default:
			return nil, false
		}
	} else {
		if n < 0 && n != math.MinInt64 {
			return nil, false
		}
		u := uint64(n) // math.MinInt64 stands for 2^63
		switch m.Kind {
		case "list", "set":
			t := old[0] & 0x0f
			if u <= 14 {
				hdr = []byte{byte(u)<<4 | t}
			} else {
				hdr = append([]byte{0xF0 | t}, uleb(u)...)
			}
		case "map":
			if m.N == 0 {
				// a compact empty map is the single byte 0 and carries no key/value
				// types: there is no header to keep consistent with the target's types
				return nil, false
			}
			kv := old[len(old)-1]
			if u == 0 {
				hdr = []byte{0}
			} else {
				hdr = append(uleb(u), kv)
			}
		case "strlen":
			hdr = uleb(u)
		default:
			return nil, false
		}
	}
	out := make([]byte, 0, len(b)+8)
	out = append(out, b[:m.Off]...)
	out = append(out, hdr...)
	out = append(out, b[m.Off+m.Len:]...)
	return out, true
}

// withField rewrites the field header at mark m: a new type code (keepID) or a new id.
func withField(p int, b []byte, m tgen.Mark, typ byte, id int, newID bool) []byte {
	old := b[m.Off : m.Off+m.Len]
	var hdr []byte
	if isBinary(p) {
		hdr = append([]byte(nil), old...)
		if newID {
			binary.BigEndian.PutUint16(hdr[1:], uint16(int16(id)))
		} else {
			hdr[0] = typ
		}
	} else {
		if newID { // long form with the new absolute id
			z := uint64(uint32(int32(id)<<1) ^ uint32(int32(id)>>31))
			hdr = append([]byte{old[0] & 0x0f}, uleb(z)...)
		} else {
			hdr = append([]byte(nil), old...)
			hdr[0] = old[0]&0xf0 | typ&0x0f
		}
	}
	out := make([]byte, 0, len(b)+4)
	out = append(out, b[:m.Off]...)
	out = append(out, hdr...)
	out = append(out, b[m.Off+m.Len:]...)
	return out
}

type step struct {
	kind byte // 'f' struct field, 'e' list/set element or map value, 'k' map key
	idx  int
}

func clone(v thriftspec.Value) thriftspec.Value {
	out := v
	if v.Elems != nil {
		out.Elems = make([]thriftspec.Value, len(v.Elems))
		for i := range v.Elems {
			out.Elems[i] = clone(v.Elems[i])
		}
	}
	if v.Keys != nil {
		out.Keys = make([]thriftspec.Value, len(v.Keys))
		for i := range v.Keys {
			out.Keys[i] = clone(v.Keys[i])
		}
	}
	if v.Fields != nil {
		out.Fields = make([]thriftspec.Field, len(v.Fields))
		for i := range v.Fields {
			out.Fields[i] = thriftspec.Field{ID: v.Fields[i].ID, V: clone(v.Fields[i].V)}
		}
	}
	return out
}

func at(v *thriftspec.Value, path []step) *thriftspec.Value {
	for _, s := range path {
		switch s.kind {
		case 'f':
			v = &v.Fields[s.idx].V
		case 'e':
			v = &v.Elems[s.idx]
		case 'k':
			v = &v.Keys[s.idx]
		}
	}
	return v
}

// structNodes lists the paths of all struct nodes of v.
func structNodes(v *thriftspec.Value, path []step, out *[][]step) {
	switch v.T {
	case thriftspec.Struct:
		*out = append(*out, append([]step(nil), path...))
		for i := range v.Fields {
			structNodes(&v.Fields[i].V, append(path, step{'f', i}), out)
		}
	case thriftspec.List, thriftspec.Set, thriftspec.Map:
		for i := range v.Elems {
			if i > 1 {
				break
			}
			structNodes(&v.Elems[i], append(path, step{'e', i}), out)
		}
	}
}

// site is a declared field present in the content tree.
type site struct {
	path []step // path of the struct node holding the field
	idx  int    // index in that node's Fields
	f    *tgen.FieldDesc
}

func sites(d *tgen.TypeDesc, v *thriftspec.Value, path []step, out *[]site, depth int) {
	d = tgen.Resolve(d)
	for d.K == tgen.KPtr {
		d = tgen.Resolve(d.Elem)
	}
	if depth > 6 {
		return
	}
	switch d.K {
	case tgen.KStruct:
		if v.T != thriftspec.Struct {
			return
		}
		flat := tgen.Flatten(d)
		for i := range v.Fields {
			for _, ff := range flat {
				if ff.F.ID == v.Fields[i].ID {
					*out = append(*out, site{path: append([]step(nil), path...), idx: i, f: ff.F})
					sites(&ff.F.T, &v.Fields[i].V, append(path, step{'f', i}), out, depth+1)
				}
			}
		}
	case tgen.KList:
		if v.T == thriftspec.List && len(v.Elems) > 0 {
			sites(d.Elem, &v.Elems[0], append(path, step{'e', 0}), out, depth+1)
		}
	case tgen.KMap:
		if v.T == thriftspec.Map && len(v.Elems) > 0 {
			sites(d.Elem, &v.Elems[0], append(path, step{'e', 0}), out, depth+1)
		}
	}
}

// structDepth is the struct nesting depth (1 = top level) of the struct node at path.
func structDepth(v *thriftspec.Value, path []step) int {
	d := 0
	if v.T == thriftspec.Struct {
		d = 1
	}
	for _, s := range path {
		switch s.kind {
		case 'f':
			v = &v.Fields[s.idx].V
		case 'e':
			v = &v.Elems[s.idx]
		case 'k':
			v = &v.Keys[s.idx]
		}
		if v.T == thriftspec.Struct {
			d++
		}
	}
	return d
}

// insertedPrefixJobs applies the truncation clause to an encoding that carries
// an inserted undeclared field u (in a struct at nesting depth `depth`): the cut
// exactly before the field, every cut inside it (at most 32, evenly spread),
// the cut exactly after it, the cut that only drops the final STOP - and, for
// every sixth insertion, every proper prefix. Each non-empty proper prefix must
// give errors.Is(err, io.ErrUnexpectedEOF).
func (e *engine) insertedPrefixJobs(in []byte, marks []tgen.Mark, depth int, u thriftspec.Field, ni, pos, seq int) []*job {
	if isBinary(e.c.P) && e.known[classShortRead] {
		e.resp.Excl[classShortRead]++ // avoided while the binary short-read defect is listed
		return nil
	}
	start, end := -1, -1
	for i, m := range marks {
		if start < 0 {
			if m.Kind == "field" && m.Depth == depth && m.N == int(u.ID) {
				start = m.Off
				_ = i
			}
			continue
		}
		if (m.Kind == "field" || m.Kind == "stop") && m.Depth == depth {
			end = m.Off
			break
		}
	}
	if start < 0 || end < 0 {
		panic(fmt.Sprintf("inserted field %d not found in the rendered marks", u.ID))
	}
	cuts := map[int]string{start: "cut before the inserted field", end: "cut after the inserted field", len(in) - 1: "cut dropping only the final STOP"}
	stride := (end-start)/32 + 1
	for k := start + 1; k < end; k += stride {
		if _, ok := cuts[k]; !ok {
			cuts[k] = "cut inside the inserted field"
		}
	}
	if seq%6 == 1 {
		st := len(in)/400 + 1
		for k := 1; k < len(in); k += st {
			if _, ok := cuts[k]; !ok {
				cuts[k] = "cut"
			}
		}
	}
	var jobs []*job
	for k := 1; k < len(in); k++ { // deterministic order
		what, ok := cuts[k]
		if !ok {
			continue
		}
		k := k
		p := in[:k]
		where := "nested"
		if depth == 1 {
			where = "top-level"
		}
		mut := fmt.Sprintf("%s at %d of %d: unknown field id %d %s, position %d of %s struct node %d", what, k, len(in), u.ID, u.V.T, pos, where, ni)
		e.label("insert-prefix." + what + "." + where)
		if u.ID <= 0 {
			e.label("insert-prefix.unknown-id<=0")
		}
		jobs = append(jobs, &job{pi: ProbeInfo{ID: fmt.Sprintf("insert-prefix:%d:%d:%d", ni, pos, k), Group: "insert-prefix", Mut: mut, N: int64(k)}, in: p, nt: true, f: func() *evid.Failure {
			_, err := e.unmarshal(p)
			if f := prefixFailure(k, err); f != nil {
				return f
			}
			if what != "cut" && what != "cut inside the inserted field" {
				_, err = e.decode(p, e.c.RK+k, false)
				return prefixFailure(k, err)
			}
			return nil
		}})
	}
	return jobs
}

// insertedCountJobs: the header-count mutations of family (2) applied to the
// lists, sets, maps and strings INSIDE an inserted undeclared field (which the
// decoder skips instead of decoding): negative, N+1, 2^24, 2^31-1 and, in the
// compact protocol, counts beyond MaxInt32. A negative or oversized count must
// be rejected on the skip path as well.
func (e *engine) insertedCountJobs(in []byte, marks []tgen.Mark, depth int, u thriftspec.Field, ni, pos int) []*job {
	start, end := -1, -1
	for _, m := range marks {
		if start < 0 {
			if m.Kind == "field" && m.Depth == depth && m.N == int(u.ID) {
				start = m.Off
			}
			continue
		}
		if (m.Kind == "field" || m.Kind == "stop") && m.Depth == depth {
			end = m.Off
			break
		}
	}
	if start < 0 || end < 0 {
		return nil
	}
	var jobs []*job
	nm := 0
	for mi, m := range marks {
		if m.Off <= start || m.Off >= end {
			continue
		}
		switch m.Kind {
		case "list", "set", "map", "strlen":
		default:
			continue
		}
		if nm++; nm > 4 {
			break
		}
		for _, nv := range []int64{-1, -1 << 31, int64(m.N) + 1, 1 << 24, 1<<31 - 1, 1 << 31, 1 << 35} {
			nv := nv
			if isBinary(e.c.P) && nv > 1<<31-1 {
				continue
			}
			if nv < 0 && m.Kind != "strlen" && e.known[classNegCount] || nv >= 1<<24 && nv <= 1<<31-1 && e.known[classAlloc] {
				continue
			}
			mutated, ok := withCount(e.c.P, in, m, nv)
			if !ok {
				continue
			}
			hostile := nv < 0 || nv >= 1<<24
			where := "nested"
			if depth == 1 {
				where = "top-level"
			}
			e.label(fmt.Sprintf("insert-count.%s.%s", m.Kind, where))
			mut := fmt.Sprintf("count=%d on a %s inside the undeclared field id %d %s (position %d of %s struct node %d)", nv, m.Kind, u.ID, u.V.T, pos, where, ni)
			jobs = append(jobs, &job{pi: ProbeInfo{ID: fmt.Sprintf("insert-count:%d:%d:%d:%d", ni, pos, mi, nv), Group: "mutate", Mut: mut, Mark: m.Kind, N: nv}, in: mutated, nt: true, f: func() *evid.Failure {
				_, err := e.unmarshal(mutated)
				if hostile && err == nil {
					return &evid.Failure{Oracle: "a negative or oversized length / element count is rejected (inside a field the target does not declare)", Observed: "nil error", Expected: "an error", Class: "hostile-size-accepted"}
				}
				return nil
			}})
		}
	}
	return jobs
}

func hasBoolField(v thriftspec.Value) bool {
	switch v.T {
	case thriftspec.Struct:
		for _, f := range v.Fields {
			if f.V.T == thriftspec.Bool || hasBoolField(f.V) {
				return true
			}
		}
	case thriftspec.List, thriftspec.Set, thriftspec.Map:
		for _, x := range v.Elems {
			if hasBoolField(x) {
				return true
			}
		}
		for _, x := range v.Keys {
			if hasBoolField(x) {
				return true
			}
		}
	}
	return false
}

func hasDouble(v thriftspec.Value) bool {
	var st thriftspec.Stats
	st.Add(v, 0)
	return st.Doubles > 0
}

// otherValue returns a small value whose thrift type differs from t.
func otherValue(t thriftspec.T) thriftspec.Value {
	if t == thriftspec.I32 {
		return thriftspec.Value{T: thriftspec.String, S: []byte("x")}
	}
	return thriftspec.Value{T: thriftspec.I32, I: 7}
}

func (e *engine) render(tree thriftspec.Value) []byte {
	b, _, err := tgen.RenderBytes(proto(e.c.P), tree)
	if err != nil {
		panic("render: " + err.Error())
	}
	return b
}

func (e *engine) target() {
	c := e.c
	if c.T == nil || c.V == nil {
		e.resp.Fail = &evid.Failure{Oracle: "harness", Observed: "target case without type/value", Class: "harness"}
		return
	}
	e.typ = c.T.Type()
	e.sig = tgen.Sig(c.T)
	v := tgen.Build(c.T, c.V)
	tree := tgen.ToTree(c.T, v)
	valid, marks, err := tgen.RenderBytes(proto(c.P), tree)
	if err != nil {
		e.resp.Fail = &evid.Failure{Oracle: "harness", Observed: "render: " + err.Error(), Class: "harness"}
		return
	}
	if len(valid) > inputLimit {
		e.label("valid-encoding>4KiB(alloc bound not asserted)")
	}

	// baseline: the valid encoding decodes (that it decodes to v is C04's business)
	var base reflect.Value
	baseOK := false
	if !e.run(&job{pi: ProbeInfo{ID: "baseline", Group: "baseline"}, in: valid, f: func() *evid.Failure {
		out, err := e.unmarshal(valid)
		if err == nil && tgen.Equal(c.T, v, out) == "" {
			base, baseOK = out, true
		}
		return nil
	}}) {
		return
	}
	if !baseOK {
		e.label("baseline-not-round-tripping(C04's domain, case skipped)")
		return
	}

	// (1) every prefix
	var jobs []*job
	stride := 1
	if len(valid) > 700 {
		stride = len(valid)/500 + 1
	}
	// While the binary short-read defect is listed, a cut that makes the binary
	// reader take a fixed-width item from its stale scratch bytes can announce
	// 2^31 elements (stalls, 16 GiB requests): such offsets are avoided by
	// construction and counted; offsets where the next read is a single byte or
	// string content are kept.
	var safe map[int]bool
	if isBinary(c.P) && e.known[classShortRead] {
		safe = map[int]bool{0: true}
		for _, m := range marks {
			switch m.Kind {
			case "field", "stop", "list", "set", "map":
				safe[m.Off] = true
			case "strlen":
				for k := m.Off + m.Len; k < m.Off+m.Len+m.N; k++ {
					safe[k] = true
				}
			}
		}
	}
	for k := 0; k < len(valid); k++ {
		if stride > 1 && k > 64 && k < len(valid)-64 && k%stride != 0 {
			continue
		}
		if safe != nil && !safe[k] {
			e.resp.Excl[classShortRead]++
			continue
		}
		k := k
		in := valid[:k]
		jobs = append(jobs, &job{pi: ProbeInfo{ID: fmt.Sprintf("prefix:%d", k), Group: "prefix", N: int64(k)}, in: in, nt: k > 0, f: func() *evid.Failure {
			_, err := e.unmarshal(in)
			return prefixFailure(k, err)
		}})
		if k%3 == 0 {
			rk := c.RK + k/3
			jobs = append(jobs, &job{pi: ProbeInfo{ID: fmt.Sprintf("prefix-decoder:%d", k), Group: "prefix", Mut: "Decoder over " + readerKinds[rk%len(readerKinds)], N: int64(k)}, in: in, nt: k > 0, f: func() *evid.Failure {
				_, err := e.decode(in, rk, false)
				return prefixFailure(k, err)
			}})
		}
	}
	e.runGroup(jobs)

	// (2) header mutations
	jobs = nil
	for mi, m := range marks {
		mi, m := mi, m
		switch m.Kind {
		case "list", "set", "map", "strlen":
			n := int64(m.N)
			cands := []int64{-1, -1 << 31, 1<<31 - 1, 1 << 24, n + 1, n - 1, 1 << 31, 1 << 35, math.MinInt64 /* stands for 2^63 (compact) */}
			for _, nv := range cands {
				nv := nv
				if nv == n || (nv < 0 && n == 0 && nv == n-1) {
					continue
				}
				if isBinary(c.P) && (nv > 1<<31-1 || nv == math.MinInt64) {
					continue
				}
				in, ok := withCount(c.P, valid, m, nv)
				if !ok {
					continue
				}
				hostile := nv < 0 || nv >= 1<<24
				mut := fmt.Sprintf("count=%d", nv)
				if nv == math.MinInt64 {
					mut = "count=2^63"
				}
				// avoided by construction while the classes are listed: a negative
				// container count, and a count the readers' range checks let through
				// (2^24 .. 2^31-1), which sizes an allocation
				if nv < 0 && nv != math.MinInt64 && m.Kind != "strlen" && e.known[classNegCount] {
					e.resp.Excl[classNegCount]++
					continue
				}
				if nv >= 1<<24 && nv <= 1<<31-1 && e.known[classAlloc] {
					e.resp.Excl[classAlloc]++
					continue
				}
				jobs = append(jobs, &job{pi: ProbeInfo{ID: fmt.Sprintf("mutate:%d:%s", mi, mut), Group: "mutate", Mut: mut, Mark: m.Kind, N: nv}, in: in, nt: true, f: func() *evid.Failure {
					_, err := e.unmarshal(in)
					if hostile && err == nil {
						return &evid.Failure{Oracle: "a negative or oversized length / element count is rejected", Observed: "nil error", Expected: "an error", Class: "hostile-size-accepted"}
					}
					return nil
				}})
			}
		case "field":
			old := valid[m.Off]
			for d := 1; d <= 2; d++ {
				typ := byte((int(old&0x0f) + d*5 + mi) % 16)
				in := withField(c.P, valid, m, typ, 0, false)
				mut := fmt.Sprintf("type=%d", typ)
				jobs = append(jobs, &job{pi: ProbeInfo{ID: fmt.Sprintf("mutate:%d:%s", mi, mut), Group: "mutate", Mut: mut, Mark: "field"}, in: in, f: func() *evid.Failure {
					e.unmarshal(in)
					return nil
				}})
			}
			for _, id := range []int{m.N + 64, []int{0, -1, m.N + 1}[mi%3], []int{32767, m.N + 4096}[mi%2]} {
				if id > 32767 {
					continue
				}
				in := withField(c.P, valid, m, 0, id, true)
				mut := fmt.Sprintf("id=%d", id)
				jobs = append(jobs, &job{pi: ProbeInfo{ID: fmt.Sprintf("mutate:%d:%s", mi, mut), Group: "mutate", Mut: mut, Mark: "field"}, in: in, f: func() *evid.Failure {
					e.unmarshal(in)
					return nil
				}})
			}
		}
	}
	e.runGroup(jobs)

	// (3) byte flips of the valid encoding (cumulative) and arbitrary inputs
	jobs = nil
	flipped := append([]byte(nil), valid...)
	for i, fl := range c.Flips {
		if len(flipped) == 0 {
			break
		}
		pos := fl[0] * len(flipped) / 1000
		if pos >= len(flipped) {
			pos = len(flipped) - 1
		}
		flipped[pos] = byte(fl[1])
		in := append([]byte(nil), flipped...)
		rk := c.RK + i
		jobs = append(jobs, &job{pi: ProbeInfo{ID: fmt.Sprintf("flip:%d", i), Group: "flip", Mut: fmt.Sprintf("byte %d := %#x", pos, byte(fl[1]))}, in: in, nt: true, f: func() *evid.Failure {
			e.unmarshal(in)
			e.decode(in, rk, i%2 == 0)
			return nil
		}})
	}
	for i, in := range c.Rand {
		in := in
		rk := c.RK + i
		jobs = append(jobs, &job{pi: ProbeInfo{ID: fmt.Sprintf("random:%d", i), Group: "random"}, in: in, nt: len(in) > 1, f: func() *evid.Failure {
			e.unmarshal(in)
			e.decode(in, rk, i%2 == 0)
			return nil
		}})
	}
	e.runGroup(jobs)

	// (4) unknown-field insertion at every field boundary of every struct node;
	// (4b) the truncation family on each of these encodings (insJobs)
	jobs = nil
	var insJobs []*job
	if len(c.Unknown) > 0 {
		var nodes [][]step
		structNodes(&tree, nil, &nodes)
		n := 0
		for ni, path := range nodes {
			node := at(&tree, path)
			for pos := 0; pos <= len(node.Fields); pos++ {
				if n >= 80 {
					break
				}
				u := c.Unknown[(ni+pos)%len(c.Unknown)]
				t2 := clone(tree)
				nd := at(&t2, path)
				nd.Fields = append(nd.Fields[:pos:pos], append([]thriftspec.Field{u}, nd.Fields[pos:]...)...)
				in, marks2, rerr := tgen.RenderBytes(proto(c.P), t2)
				if rerr != nil {
					panic("render: " + rerr.Error())
				}
				n++
				insJobs = append(insJobs, e.insertedPrefixJobs(in, marks2, structDepth(&tree, path), u, ni, pos, n)...)
				if n%2 == 1 {
					insJobs = append(insJobs, e.insertedCountJobs(in, marks2, structDepth(&tree, path), u, ni, pos)...)
				}
				mut := fmt.Sprintf("unknown field id %d %s at position %d of struct node %d (depth %d)", u.ID, u.V.T, pos, ni, len(path))
				if u.V.T == thriftspec.Bool || hasBoolField(u.V) {
					mut += " [bool field inside]"
				}
				jobs = append(jobs, &job{pi: ProbeInfo{ID: fmt.Sprintf("insert:%d:%d", ni, pos), Group: "insert", Mut: mut}, in: in, nt: !(ni == 0 && pos == 0), f: func() *evid.Failure {
					out, err := e.unmarshal(in)
					if err != nil {
						return &evid.Failure{Oracle: "an encoding with an extra field the target does not declare decodes without error", Observed: err.Error(), Expected: "nil error", Class: "insert-error"}
					}
					if s := tgen.Equal(c.T, base, out); s != "" {
						return &evid.Failure{Oracle: "an extra field the target does not declare does not affect the decoded value", Observed: s, Expected: "same value as without the field", Class: "insert-mismatch"}
					}
					return nil
				}})
			}
		}
	}
	e.runGroup(jobs)
	e.runGroup(insJobs)

	// (5) trailing bytes
	jobs = nil
	if len(c.Trail) > 0 {
		in := append(append([]byte(nil), valid...), c.Trail...)
		jobs = append(jobs, &job{pi: ProbeInfo{ID: "trailing", Group: "trailing", Mut: fmt.Sprintf("+%d bytes", len(c.Trail))}, in: in, nt: true, f: func() *evid.Failure {
			if _, err := e.unmarshal(in); err == nil {
				return &evid.Failure{Oracle: "Unmarshal reports bytes after the value", Observed: "nil error", Expected: "an error", Class: "trailing-accepted"}
			}
			return nil
		}})
	}

	// (6) twin encodings: a required field missing; another wire type under a declared id
	var ss []site
	sites(c.T, &tree, nil, &ss, 0)
	nMissing, nMismatch := 0, 0
	for si, s := range ss {
		si, s := si, s
		if s.f.Req && nMissing < 12 {
			nMissing++
			t2 := clone(tree)
			nd := at(&t2, s.path)
			nd.Fields = append(nd.Fields[:s.idx:s.idx], nd.Fields[s.idx+1:]...)
			in := e.render(t2)
			id := s.f.ID
			jobs = append(jobs, &job{pi: ProbeInfo{ID: fmt.Sprintf("missing:%d", si), Group: "missing", Mut: fmt.Sprintf("required field %d absent (struct depth %d)", id, len(s.path))}, in: in, nt: true, f: func() *evid.Failure {
				_, err := e.unmarshal(in)
				var mf *thrift.MissingField
				if err == nil || !errors.As(err, &mf) {
					return &evid.Failure{Oracle: fmt.Sprintf("an encoding lacking required field %d is reported as *thrift.MissingField", id), Observed: fmt.Sprintf("%T %v", err, err), Expected: "errors.As(err, **thrift.MissingField)", Class: "missing-not-reported"}
				}
				if mf.Field.ID != id {
					return &evid.Failure{Oracle: fmt.Sprintf("the *thrift.MissingField for an encoding lacking required field %d names that field", id), Observed: fmt.Sprintf("MissingField{Field: %v}", mf.Field), Expected: fmt.Sprintf("field id %d", id), Class: "missing-wrong-id"}
				}
				return nil
			}})
		}
		if nMismatch < 16 {
			orig := at(&tree, s.path).Fields[s.idx].V
			var repl []thriftspec.Value
			repl = append(repl, otherValue(orig.T))
			switch orig.T {
			case thriftspec.List, thriftspec.Set:
				if len(orig.Elems) > 0 {
					o := otherValue(orig.ET)
					x := thriftspec.Value{T: orig.T, ET: o.T}
					for range orig.Elems {
						x.Elems = append(x.Elems, o)
					}
					if orig.T == thriftspec.Set {
						x.Elems = x.Elems[:1]
					}
					repl = append(repl, x)
				}
			case thriftspec.Map:
				if len(orig.Elems) > 0 {
					o := otherValue(orig.ET)
					x := thriftspec.Value{T: thriftspec.Map, KT: orig.KT, ET: o.T, Keys: []thriftspec.Value{orig.Keys[0]}, Elems: []thriftspec.Value{o}}
					repl = append(repl, x)
					k := otherValue(orig.KT)
					repl = append(repl, thriftspec.Value{T: thriftspec.Map, KT: k.T, ET: orig.ET, Keys: []thriftspec.Value{k}, Elems: []thriftspec.Value{orig.Elems[0]}})
				}
			}
			for ri, r := range repl {
				ri, r := ri, r
				nMismatch++
				t2 := clone(tree)
				at(&t2, s.path).Fields[s.idx].V = r
				in := e.render(t2)
				rk := c.RK + si
				what := "field"
				if ri > 0 {
					what = "container element"
				}
				jobs = append(jobs, &job{pi: ProbeInfo{ID: fmt.Sprintf("mismatch:%d:%d", si, ri), Group: "mismatch", Mut: fmt.Sprintf("%s of field %d carries %s instead of %s", what, s.f.ID, thriftspec.Describe(r), thriftspec.Describe(orig))}, in: in, nt: true, f: func() *evid.Failure {
					_, err := e.decode(in, rk, true)
					var tm *thrift.TypeMismatch
					if err == nil || !errors.As(err, &tm) {
						return &evid.Failure{Oracle: "in strict mode another wire type under a declared id is reported as *thrift.TypeMismatch", Observed: fmt.Sprintf("%T %v", err, err), Expected: "errors.As(err, **thrift.TypeMismatch)", Class: "mismatch-not-reported"}
					}
					e.decode(in, rk, false) // non-strict: only totality
					return nil
				}})
			}
		}
	}
	e.runGroup(jobs)
}

// ---------------------------------------------------------------- Reader method sequences

var readerOpNames = []string{"ReadBool", "ReadInt8", "ReadInt16", "ReadInt32", "ReadInt64", "ReadFloat64", "ReadBytes", "ReadString",
	"ReadLength", "ReadMessage", "ReadField", "ReadList", "ReadSet", "ReadMap"}

func (e *engine) readerOps() {
	c := e.c
	e.sig = "readerops"
	br := bytes.NewReader(c.Bytes)
	var src io.Reader = br
	if c.RK%2 == 1 {
		src = &plainReader{br}
	}
	r := proto(c.P).NewReader(src)
	var jobs []*job
	for i, op := range c.Ops {
		i, op := i, op%len(readerOpNames)
		jobs = append(jobs, &job{pi: ProbeInfo{ID: fmt.Sprintf("op:%d", i), Group: "readerops", Mut: readerOpNames[op]}, in: c.Bytes, nt: i > 0, f: func() *evid.Failure {
			if e.known[classAlloc] && (op == 6 || op == 7 || op == 9) {
				// avoided by construction while the allocation class is listed: a length
				// prefix above 1 MiB in front of a ReadBytes/ReadString/ReadMessage call
				rest := c.Bytes[len(c.Bytes)-br.Len():]
				if big(c.P, rest, op == 9) {
					e.resp.Excl[classAlloc]++
					return nil
				}
				if isBinary(c.P) && len(rest) < 8 && e.known[classShortRead] {
					// fewer bytes than the length prefix: the binary reader would take the
					// length from stale scratch bytes (listed short-read defect)
					e.resp.Excl[classShortRead]++
					return nil
				}
			}
			if h := c.Hostile; i == 0 && (h < 0 || h > 1<<31-1) {
				var err error
				switch op {
				case 6:
					_, err = r.ReadBytes()
				case 7:
					_, err = r.ReadString()
				case 8:
					_, err = r.ReadLength()
				case 11:
					_, err = r.ReadList()
				case 12:
					_, err = r.ReadSet()
				case 13:
					_, err = r.ReadMap()
				}
				if err == nil {
					return &evid.Failure{Oracle: fmt.Sprintf("negative or oversized lengths and element counts are rejected: Reader.%s on an announced %d returns an error", readerOpNames[op], h),
						Observed: "nil error", Expected: "an error", Class: "hostile-size-accepted"}
				}
				return nil
			}
			switch op {
			case 0:
				r.ReadBool()
			case 1:
				r.ReadInt8()
			case 2:
				r.ReadInt16()
			case 3:
				r.ReadInt32()
			case 4:
				r.ReadInt64()
			case 5:
				r.ReadFloat64()
			case 6:
				avail := br.Len()
				if b, err := r.ReadBytes(); err == nil && len(b) > avail {
					return sizeFailure("ReadBytes", int64(len(b)))
				}
			case 7:
				avail := br.Len()
				if str, err := r.ReadString(); err == nil && len(str) > avail {
					return sizeFailure("ReadString", int64(len(str)))
				}
			case 8:
				if n, err := r.ReadLength(); err == nil && n < 0 {
					return sizeFailure("ReadLength", int64(n))
				}
			case 9:
				r.ReadMessage()
			case 10:
				r.ReadField()
			case 11:
				if l, err := r.ReadList(); err == nil && l.Size < 0 {
					return sizeFailure("ReadList", int64(l.Size))
				}
			case 12:
				if l, err := r.ReadSet(); err == nil && l.Size < 0 {
					return sizeFailure("ReadSet", int64(l.Size))
				}
			case 13:
				if m, err := r.ReadMap(); err == nil && m.Size < 0 {
					return sizeFailure("ReadMap", int64(m.Size))
				}
			}
			return nil
		}})
	}
	e.runGroup(jobs)
}

// sizeFailure: a Reader method handed out a negative (or impossible) size / length without an error.
func sizeFailure(method string, n int64) *evid.Failure {
	return &evid.Failure{Oracle: "negative or oversized lengths and element counts are rejected: Reader." + method + " returns an error, never such a size",
		Observed: fmt.Sprintf("size / length %d with nil error", n), Expected: "an error", Class: "hostile-size-accepted"}
}

// hostileHeader returns the wire header of a list / set / map / string that
// announces n elements / bytes (binary: any int32; compact: n >= 0).
func hostileHeader(p int, op int, n int64) []byte {
	if isBinary(p) {
		var cnt [4]byte
		binary.BigEndian.PutUint32(cnt[:], uint32(int32(n)))
		switch op {
		case 11, 12: // ReadList, ReadSet
			return append([]byte{byte(thrift.I32)}, cnt[:]...)
		case 13: // ReadMap
			return append([]byte{byte(thrift.I32), byte(thrift.I32)}, cnt[:]...)
		}
		return cnt[:] // ReadBytes, ReadString, ReadLength
	}
	switch op {
	case 11, 12:
		return append([]byte{0xF0 | byte(thrift.I32)}, uleb(uint64(n))...)
	case 13:
		return append(uleb(uint64(n)), byte(thrift.I32)<<4|byte(thrift.I32))
	}
	return uleb(uint64(n))
}

// big reports whether the length prefix at the head of rest exceeds 1 MiB
// (message: the name length after the header bytes).
func big(p int, rest []byte, msg bool) bool {
	if isBinary(p) {
		if len(rest) < 4 {
			return false
		}
		n := binary.BigEndian.Uint32(rest)
		if msg && n&0x80000000 != 0 { // strict header: name length follows
			if len(rest) < 8 {
				return false
			}
			n = binary.BigEndian.Uint32(rest[4:])
		}
		return n > 1<<20 && n <= 1<<31-1
	}
	if msg {
		if len(rest) < 2 {
			return false
		}
		rest = rest[2:]
		_, k := binary.Uvarint(rest) // seq id
		if k <= 0 {
			return false
		}
		rest = rest[k:]
	}
	n, k := binary.Uvarint(rest)
	return k > 0 && n > 1<<20
}

// ---------------------------------------------------------------- known classes

// knownClass returns the listed class a failure belongs to ("" if none). The
// predicates look at the probe (what was done to the input) and at the
// failure (what was observed); each is true only for its failure mode.
func knownClass(c *Case, pi *ProbeInfo, f *evid.Failure) string {
	obs := f.Observed
	switch {
	case f.Class == "panic" && strings.Contains(obs, "index out of range") && c.T != nil && tgen.AnyWideIDs(c.T):
		return classWideIDs
	case f.Class == "panic" && strings.Contains(obs, "reflect.MakeSlice: negative len"):
		return classNegCount
	case f.Class == "hostile-size-accepted" && pi.N < 0:
		return classNegCount
	case f.Class == "alloc",
		f.Class == "fatal" && (strings.Contains(obs, "out of memory") || strings.Contains(obs, "cannot allocate memory")),
		f.Class == "panic" && (strings.Contains(obs, "len out of range") || strings.Contains(obs, "makeslice") || strings.Contains(obs, "makemap")):
		if pi.Group == "mutate" && strings.HasPrefix(pi.Mut, "count=") && (pi.N < 0 || pi.N > 1<<31-1) {
			return "" // the listed defect is about counts the readers' range checks accept
		}
		return classAlloc
	case (pi.Group == "prefix" || pi.Group == "insert-prefix" || pi.Group == "bigstr") && (f.Class == "prefix-no-error" || f.Class == "prefix-wrong-error") && pi.N > 0 && shortReadPossible(c):
		return classShortRead
	case f.Class == "hostile-size-accepted" && shortReadPossible(c):
		// a count whose elements are fixed-width reads: at the end of the input every read "succeeds"
		return classShortRead
	case f.Class == "stall" && shortReadPossible(c):
		// every fixed-width read "succeeds" at the end of the input: a loop over a wire count of 2^31
		return classShortRead
	case pi.Group == "missing" && f.Class == "missing-wrong-id":
		return classMissingID
	case pi.Group == "insert" && (f.Class == "insert-error" || f.Class == "insert-mismatch") && c.P%3 == 2 && strings.Contains(pi.Mut, "[bool field inside]"):
		return classSkipBool
	}
	return ""
}

// shortReadPossible: the binary protocol reads every fixed-width item through
// binaryReader.read; the compact protocol only its doubles.
func shortReadPossible(c *Case) bool {
	if isBinary(c.P) {
		return true
	}
	if c.T == nil || c.V == nil {
		return true
	}
	return hasDouble(tgen.ToTree(c.T, tgen.Build(c.T, c.V)))
}

// ---------------------------------------------------------------- generation

var wireTypeBytes = []byte{0, 1, 2, 3, 4, 5, 6, 7, 8, 9, 10, 11, 12, 13, 15, 16, 0x19, 0x1c, 0x29, 0xf9, 0xfc, 0x82, 0x80, 0xff, 0x7f}

func genRandomBytes(t *rapid.T) []byte {
	n := rapid.IntRange(0, 48).Draw(t, "rlen")
	b := make([]byte, n)
	for i := range b {
		if rapid.IntRange(0, 2).Draw(t, "rk") == 0 {
			b[i] = rapid.Byte().Draw(t, "rb")
		} else {
			b[i] = rapid.SampledFrom(wireTypeBytes).Draw(t, "rt")
		}
	}
	return b
}

// allIDs collects every field id declared by any struct reachable from d.
func allIDs(d *tgen.TypeDesc, ids map[int16]bool, seen map[string]bool) {
	if d == nil {
		return
	}
	if d.K == tgen.KNamed {
		if seen[d.Name] {
			return
		}
		seen[d.Name] = true
		d = tgen.Resolve(d)
	}
	for i := range d.Fields {
		if !d.Fields[i].Emb {
			ids[d.Fields[i].ID] = true
		}
		allIDs(&d.Fields[i].T, ids, seen)
	}
	allIDs(d.Elem, ids, seen)
	allIDs(d.Key, ids, seen)
}

// genBoolContainer draws a container of bools: list<bool>, set<bool>,
// map<bool,X>, map<X,bool>, alone or nested in a list, a map value or a struct.
func genBoolContainer(t *rapid.T) thriftspec.Value {
	b := func() thriftspec.Value { return thriftspec.Value{T: thriftspec.Bool, B: rapid.Bool().Draw(t, "bv")} }
	n := rapid.IntRange(0, 3).Draw(t, "bn")
	var v thriftspec.Value
	switch rapid.IntRange(0, 3).Draw(t, "bshape") {
	case 0:
		v = thriftspec.Value{T: thriftspec.List, ET: thriftspec.Bool}
		for i := 0; i < n; i++ {
			v.Elems = append(v.Elems, b())
		}
	case 1:
		v = thriftspec.Value{T: thriftspec.Set, ET: thriftspec.Bool}
		for i := 0; i < n && i < 2; i++ {
			v.Elems = append(v.Elems, thriftspec.Value{T: thriftspec.Bool, B: i == 0})
		}
	case 2:
		v = thriftspec.Value{T: thriftspec.Map, KT: thriftspec.Bool, ET: thriftspec.I32}
		for i := 0; i < n && i < 2; i++ {
			v.Keys = append(v.Keys, thriftspec.Value{T: thriftspec.Bool, B: i == 0})
			v.Elems = append(v.Elems, thriftspec.Value{T: thriftspec.I32, I: int64(7 + i)})
		}
	default:
		v = thriftspec.Value{T: thriftspec.Map, KT: thriftspec.String, ET: thriftspec.Bool}
		for i := 0; i < n; i++ {
			v.Keys = append(v.Keys, thriftspec.Value{T: thriftspec.String, S: []byte{byte('a' + i)}})
			v.Elems = append(v.Elems, b())
		}
	}
	switch rapid.IntRange(0, 4).Draw(t, "bnest") {
	case 1:
		return thriftspec.Value{T: thriftspec.List, ET: v.T, Elems: []thriftspec.Value{v}}
	case 2:
		return thriftspec.Value{T: thriftspec.Map, KT: thriftspec.I16, ET: v.T, Keys: []thriftspec.Value{{T: thriftspec.I16, I: 3}}, Elems: []thriftspec.Value{v}}
	case 3:
		return thriftspec.Value{T: thriftspec.Struct, Fields: []thriftspec.Field{{ID: 1, V: thriftspec.Value{T: thriftspec.I32, I: 1}}, {ID: 2, V: v}}}
	}
	return v
}

func genCase(t *rapid.T, o *tgen.Opts) Case {
	c := Case{P: rapid.SampledFrom([]int{0, 0, 1, 2, 2, 2}).Draw(t, "p"), RK: rapid.IntRange(0, len(readerKinds)-1).Draw(t, "rk")}
	if rapid.IntRange(0, 9).Draw(t, "kind") == 0 {
		c.Kind = "readerops"
		if rapid.IntRange(0, 2).Draw(t, "crafted") == 1 {
			// a hostile count / length directly in front of the method that reads it
			op := rapid.SampledFrom([]int{11, 12, 13, 6, 7, 8}).Draw(t, "hop")
			n := rapid.SampledFrom([]int64{-1, -1 << 31, -2, 1<<31 - 1, 1 << 24, 1 << 31, 1 << 35}).Draw(t, "hn")
			if !isBinary(c.P) && n < 0 {
				n = 1 << 31 // not expressible as a negative number: just beyond MaxInt32 instead
			}
			if isBinary(c.P) && n > 1<<31-1 {
				n = -1
			}
			c.Bytes = append(hostileHeader(c.P, op, n), genRandomBytes(t)...)
			c.Ops = []int{op}
			c.Hostile = n
			return c
		}
		c.Bytes = genRandomBytes(t)
		c.Ops = rapid.SliceOfN(rapid.IntRange(0, len(readerOpNames)-1), 1, 12).Draw(t, "ops")
		return c
	}
	if b := rapid.IntRange(0, 99).Draw(t, "big"); b == 37 || b == 61 || b == 83 { // mid-range values: ~1.6 % (rapid favours the bounds)
		c.Kind = "bigcount"
		b := tgen.GenBigSpec(t)
		c.Big = &b
		return c
	}
	if b := rapid.IntRange(0, 99).Draw(t, "bigstr"); b == 23 || b == 71 { // ~1.1 %
		c.Kind = "bigstr"
		c.Str = &BigStr{
			Size:  rapid.SampledFrom([]int{65537, 70000, 131073}).Draw(t, "strsize"),
			Bytes: rapid.Bool().Draw(t, "strbytes"),
			Where: rapid.SampledFrom([]string{"top", "list-last", "field-last", "reader", "top", "reader"}).Draw(t, "strwhere"),
		}
		return c
	}
	c.Kind = "target"
	d := tgen.GenType(t, o)
	r := tgen.GenRecipe(t, &d, o)
	c.T, c.V = &d, &r
	ids := map[int16]bool{}
	allIDs(&d, ids, map[string]bool{})
	var declared []int16
	for id := range ids {
		declared = append(declared, id)
	}
	sort.Slice(declared, func(i, j int) bool { return declared[i] < declared[j] })
	nu := rapid.IntRange(1, 3).Draw(t, "nunknown")
	for i := 0; i < nu; i++ {
		var id int16
		for try := 0; ; try++ {
			switch rapid.IntRange(0, 8).Draw(t, "idk") {
			case 0:
				id = int16(rapid.IntRange(1, 20).Draw(t, "uid"))
			case 1:
				id = int16(rapid.IntRange(1, 200).Draw(t, "uid"))
			case 2:
				id = int16(rapid.IntRange(60, 140).Draw(t, "uid")) // around the 64/128 bitmap words
			case 3:
				id = int16(rapid.IntRange(-32768, 32767).Draw(t, "uid")) // any int16
			case 4:
				id = 0
			case 5:
				id = int16(rapid.SampledFrom([]int{-1, -2, -15, -16, -300, -32768, 32767}).Draw(t, "uid"))
			case 6, 7: // next to a declared id
				if len(declared) > 0 {
					id = declared[rapid.IntRange(0, len(declared)-1).Draw(t, "near")] + int16(rapid.SampledFrom([]int{-2, -1, 1, 2}).Draw(t, "delta"))
				} else {
					id = int16(rapid.IntRange(-2, 3).Draw(t, "uid"))
				}
			default:
				id = int16(rapid.IntRange(1, 64).Draw(t, "uid"))
			}
			if !ids[id] || try > 50 {
				break
			}
		}
		if ids[id] {
			continue
		}
		var uv thriftspec.Value
		if rapid.IntRange(0, 3).Draw(t, "ubool") == 1 {
			uv = genBoolContainer(t) // a bool collection as list / set / map key / map value, plain or nested
		} else {
			budget := rapid.SampledFrom([]int{1, 4, 12, 30}).Draw(t, "ubudget")
			uv = tgen.GenTree(t, tgen.GenTreeType(t, 3), 3, &budget)
		}
		// BOOL element / key / value types announced as 1 instead of 2 (compact protocol:
		// both are conformant and both must be skipped)
		uv = thriftspec.WithBool1(uv, rapid.Bool().Draw(t, "bool1lists"), rapid.Bool().Draw(t, "bool1maps"))
		c.Unknown = append(c.Unknown, thriftspec.Field{ID: id, V: uv})
	}
	nr := rapid.IntRange(0, 3).Draw(t, "nrand")
	for i := 0; i < nr; i++ {
		c.Rand = append(c.Rand, genRandomBytes(t))
	}
	nf := rapid.IntRange(0, 6).Draw(t, "nflips")
	for i := 0; i < nf; i++ {
		v := int(rapid.Byte().Draw(t, "fv"))
		if rapid.Bool().Draw(t, "fvk") {
			v = int(rapid.SampledFrom(wireTypeBytes).Draw(t, "fvt"))
		}
		c.Flips = append(c.Flips, [2]int{rapid.IntRange(0, 999).Draw(t, "fpos"), v})
	}
	c.Trail = rapid.SliceOfN(rapid.SampledFrom([]byte{0, 0, 1, 2, 0x0c, 0xff, 0x15}), 1, 3).Draw(t, "trail")
	return c
}

// ---------------------------------------------------------------- tests

func activeKnown() []string {
	var out []string
	for _, k := range allClasses {
		if evid.KnownActive(k) {
			out = append(out, k)
		}
	}
	return out
}

func apply(o outcome) {
	evid.Eval(o.evals)
	for k, n := range o.labels {
		evid.LabelN(k, n)
	}
	for k, n := range o.excl {
		for i := 0; i < n; i++ {
			evid.Excluded(k)
		}
	}
	for _, h := range o.hashes {
		evid.NonTrivial(h)
	}
}

func caseLabels(c Case) {
	p := thriftspec.Proto(c.P % 3).String()
	evid.Label("case." + c.Kind + "." + p)
	if c.Kind == "readerops" && c.Hostile != 0 {
		evid.Label(fmt.Sprintf("readerops.crafted-hostile-size.%s.%s", readerOpNames[c.Ops[0]%len(readerOpNames)], p))
	}
	if c.Str != nil {
		evid.Label(fmt.Sprintf("bigstr.%s.%d.bytes=%v", c.Str.Where, c.Str.Size, c.Str.Bytes))
	}
	if c.Big != nil {
		evid.Label(fmt.Sprintf("bigcount.%s<%s>.%s", c.Big.Container, c.Big.Elem, c.Big.Nest))
		evid.Label(fmt.Sprintf("bigcount.n=%d", c.Big.N))
	}
	if c.T != nil {
		for _, l := range tgen.TypeLabels(c.T) {
			switch l {
			case "required", "union", "embedded", "nfields>=64", "gap>16", "enum", "map", "set":
				evid.Label("type." + l)
			}
		}
		for _, u := range c.Unknown {
			evid.Label("unknown." + u.V.T.String())
			switch {
			case u.ID == 0:
				evid.Label("unknown.id=0")
			case u.ID < 0:
				evid.Label("unknown.id<0")
			}
			if c.P%3 == 2 {
				if thriftspec.HasBool1(u.V, true, false) {
					evid.Label("unknown.list/set-of-bool-announced-as-1(compact)")
				}
				if thriftspec.HasBool1(u.V, false, true) {
					evid.Label("unknown.map-with-bool-key/value-announced-as-1(compact)")
				}
			}
			var st thriftspec.Stats
			st.Add(u.V, 0)
			if st.MaxDepth >= 2 {
				evid.Label("unknown.nesting>=2")
			}
		}
	}
}

func TestDecode(t *testing.T) {
	defer stopWorker()
	known := activeKnown()
	o := &tgen.Opts{Small: true, NoWideIDs: evid.KnownActive(classWideIDs)}
	// While the allocation / short-read defects are listed every few cases cost
	// a worker restart or a stall; on a tree without them a case takes ~0.2 ms.
	n := 3500
	if evid.KnownActive(classAlloc) || evid.KnownActive(classShortRead) {
		n = 500
	}
	cases := 0
	evid.Check(t, "Decode", n, func(rt *rapid.T) {
		before := o.Avoided["id-range-beyond-bitmap"]
		c := genCase(rt, o)
		for i := before; i < o.Avoided["id-range-beyond-bitmap"]; i++ {
			evid.Excluded(classWideIDs)
		}
		caseLabels(c)
		evid.Sample(c)
		if cases++; cases%4000 == 0 {
			stopWorker() // fresh worker: the library's codec cache is copy-on-write (quadratic in the number of types)
		}
		evid.Journal("Decode", c)
		out := runCase(c, known)
		evid.JournalClear()
		apply(out)
		if out.fail != nil {
			evid.Violation(rt, "Decode", c, out.fail)
		}
	})
	evid.LabelN("worker-starts", workerStarts)
}

// TestReplay re-executes saved cases (VERIF_REPLAY or the committed regression tier).
func TestReplay(t *testing.T) {
	defer stopWorker()
	files := evid.SavedReplays()
	if p := evid.ReplayFile(); p != "" {
		files = []string{p}
	}
	known := activeKnown()
	for _, p := range files {
		_, raw, err := evid.LoadReplayCase(p)
		if err != nil {
			t.Fatalf("replay %s: %v", p, err)
		}
		var c Case
		if err := json.Unmarshal(raw, &c); err != nil || c.Kind == "" {
			fmt.Fprintf(os.Stderr, "replay %s: not a C08 case, skipped\n", p)
			continue
		}
		out := runCase(c, known)
		apply(out)
		if out.fail != nil {
			evid.Violation(t, "Replay", c, out.fail)
		}
	}
}

// ---------------------------------------------------------------- known findings

func i32Struct(ids ...int16) *tgen.TypeDesc {
	d := &tgen.TypeDesc{K: tgen.KStruct}
	for _, id := range ids {
		d.Fields = append(d.Fields, tgen.FieldDesc{ID: id, T: tgen.TypeDesc{K: tgen.KI32}})
	}
	return d
}

var listOfI64 = &tgen.TypeDesc{K: tgen.KStruct, Fields: []tgen.FieldDesc{{ID: 1, T: tgen.TypeDesc{K: tgen.KList, Elem: &tgen.TypeDesc{K: tgen.KI64}}}}}

// witnessCases: one small case per class. The witness runs the case with that
// class *not* excused (the others stay excused) and reports the failure.
var witnessCases = map[string]Case{
	// struct{A int32 `thrift:"1"`; B int32 `thrift:"100"`}{1, 2}: the baseline decode panics
	classWideIDs: {Kind: "target", P: 0, T: i32Struct(1, 100), V: &tgen.Recipe{E: []tgen.Recipe{{I: 1}, {I: 2}}}},
	// struct{A int32 `thrift:"1"`}{1}, binary: 05 00 01 00 00 00 01 00 00 00 cut to 9 bytes decodes without error
	classShortRead: {Kind: "target", P: 0, T: i32Struct(1), V: &tgen.Recipe{E: []tgen.Recipe{{I: 1}}}},
	// struct{L []int64 `thrift:"1"`}{[]int64{1}}, binary, list size rewritten to -1
	classNegCount: {Kind: "target", P: 0, T: listOfI64, V: &tgen.Recipe{E: []tgen.Recipe{{E: []tgen.Recipe{{I: 1}}}}}},
	// same value, compact, list size rewritten to 2^24 / 2^31-1
	classAlloc: {Kind: "target", P: 2, T: listOfI64, V: &tgen.Recipe{E: []tgen.Recipe{{E: []tgen.Recipe{{I: 1}}}}}},
	// struct{A int32 `thrift:"1"`; B int32 `thrift:"2,required"`}{1, 2} with field 2 removed from the encoding
	classMissingID: {Kind: "target", P: 0, T: &tgen.TypeDesc{K: tgen.KStruct, Fields: []tgen.FieldDesc{{ID: 1, T: tgen.TypeDesc{K: tgen.KI32}}, {ID: 2, Req: true, T: tgen.TypeDesc{K: tgen.KI32}}}},
		V: &tgen.Recipe{E: []tgen.Recipe{{I: 1}, {I: 2}}}},
	// struct{A int32 `thrift:"1"`}{1}, compact, with an undeclared bool field 2 inserted
	classSkipBool: {Kind: "target", P: 2, T: i32Struct(1), V: &tgen.Recipe{E: []tgen.Recipe{{I: 1}}},
		Unknown: []thriftspec.Field{{ID: 2, V: thriftspec.Value{T: thriftspec.Bool, B: true}}}},
}

func TestKnownFindings(t *testing.T) {
	defer stopWorker()
	var classes []evid.Class
	for name, c := range witnessCases {
		name, c := name, c
		classes = append(classes, evid.Class{Name: name, Witness: func() *evid.Failure {
			var known []string
			for _, k := range allClasses {
				if k != name && evid.KnownActive(k) {
					known = append(known, k)
				}
			}
			out := runCase(c, known)
			if out.fail != nil && (out.probe == nil || knownClass(&c, out.probe, out.fail) != name) {
				evid.Violation(t, "witness:"+name, c, out.fail) // fails, but not in the listed way
			}
			return out.fail
		}})
	}
	evid.RunWitnesses(t, classes)
}
