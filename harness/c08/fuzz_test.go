package c08

import (
	"bytes"
	"encoding/binary"
	"fmt"
	"reflect"
	"runtime/debug"
	"testing"

	"github.com/segmentio/encoding/thrift"
	"pgregory.net/rapid"

	"verif/harness/evid"
	"verif/harness/tgen"
	"verif/harness/thriftspec"
)

// fuzzTargets: representative static target struct types, selected by the
// second fuzz argument.
var fuzzTargets = func() []tgen.TypeDesc {
	type TD = tgen.TypeDesc
	type FD = tgen.FieldDesc
	sc := func(k tgen.Kind) TD { return TD{K: k} }
	p := func(d TD) *TD { return &d }
	st := func(fs ...FD) TD { return TD{K: tgen.KStruct, Fields: fs} }
	f := func(id int16, t TD) FD { return FD{ID: id, T: t} }
	req := func(id int16, t TD) FD { return FD{ID: id, Req: true, T: t} }
	point := st(req(1, sc(tgen.KF64)), req(2, sc(tgen.KF64)))
	inner := st(f(1, sc(tgen.KBool)), f(2, sc(tgen.KStr)), f(16, TD{K: tgen.KList, Elem: p(sc(tgen.KI16))}))
	union := TD{K: tgen.KStruct, Union: true, Fields: []FD{f(1, sc(tgen.KBool)), f(2, sc(tgen.KInt)), f(3, sc(tgen.KStr)), f(4, inner)}}
	deep := st(f(30, sc(tgen.KI32)), f(31, sc(tgen.KStr))) // deepest level of an embedding chain
	chain3 := st(f(20, sc(tgen.KI8)), FD{Emb: true, T: TD{K: tgen.KPtr, Elem: p(st(f(21, sc(tgen.KBool)), FD{Emb: true, T: deep}))}})
	wide := TD{K: tgen.KStruct}
	for i := 0; i < 70; i++ {
		fd := f(int16(3+i), sc([]tgen.Kind{tgen.KBool, tgen.KI32, tgen.KStr, tgen.KI64, tgen.KF64}[i%5]))
		fd.Req = i%9 == 8
		wide.Fields = append(wide.Fields, fd)
	}
	return []TD{
		st(), // 0: no fields
		st(f(1, sc(tgen.KBool)), f(2, sc(tgen.KI8)), f(3, sc(tgen.KI16)), f(4, sc(tgen.KI32)), f(5, sc(tgen.KI64)), f(6, sc(tgen.KInt)), f(7, sc(tgen.KF64)), f(8, sc(tgen.KF32)), f(9, sc(tgen.KStr)), f(10, sc(tgen.KBytes))),
		point,
		st(f(1, TD{K: tgen.KList, Elem: p(sc(tgen.KI64))}), f(2, TD{K: tgen.KList, Elem: p(sc(tgen.KBool))}), f(3, TD{K: tgen.KList, Elem: p(sc(tgen.KStr))})),
		st(f(1, TD{K: tgen.KList, Elem: p(TD{K: tgen.KList, Elem: p(sc(tgen.KI32))})}), f(2, TD{K: tgen.KList, Elem: p(inner)}), f(3, TD{K: tgen.KList, Elem: p(TD{K: tgen.KPtr, Elem: p(point)})})),
		st(f(1, TD{K: tgen.KMap, Key: p(sc(tgen.KStr)), Elem: p(sc(tgen.KI32))}), f(2, TD{K: tgen.KMap, Key: p(sc(tgen.KI64)), Elem: p(inner)}), f(3, TD{K: tgen.KMap, Key: p(sc(tgen.KI8)), Elem: p(TD{K: tgen.KList, Elem: p(sc(tgen.KStr))})})),
		st(f(1, TD{K: tgen.KSet, Key: p(sc(tgen.KI64))}), f(2, TD{K: tgen.KSet, Key: p(sc(tgen.KStr))}), f(3, TD{K: tgen.KMap, Key: p(sc(tgen.KF64)), Elem: p(TD{K: tgen.KSet, Key: p(sc(tgen.KI16))})})),
		st(f(1, inner), f(2, TD{K: tgen.KPtr, Elem: p(inner)}), f(3, TD{K: tgen.KPtr, Elem: p(sc(tgen.KI32))}), f(4, TD{K: tgen.KPtr, Elem: p(TD{K: tgen.KPtr, Elem: p(sc(tgen.KBool))})})),
		{K: tgen.KNamed, Name: "Rec"},
		{K: tgen.KNamed, Name: "Outer"},
		st(f(1, sc(tgen.KI64)), FD{Emb: true, T: st(f(5, sc(tgen.KStr)), f(6, sc(tgen.KBool)))}, f(9, sc(tgen.KI32))),
		st(f(1, sc(tgen.KStr)), FD{Emb: true, T: chain3}, f(40, sc(tgen.KBool))), // embedding 3 levels deep, through a pointer
		union,
		st(f(1, union), f(2, TD{K: tgen.KList, Elem: p(union)}), f(3, TD{K: tgen.KMap, Key: p(sc(tgen.KStr)), Elem: p(union)})),
		st(req(1, sc(tgen.KI32)), FD{ID: 2, Opt: true, T: sc(tgen.KStr)}, req(3, TD{K: tgen.KList, Elem: p(sc(tgen.KI32))}), req(4, TD{K: tgen.KPtr, Elem: p(point)}), f(5, sc(tgen.KBool))),
		st(FD{ID: 1, Enum: true, T: sc(tgen.KI8)}, FD{ID: 2, Enum: true, T: TD{K: tgen.KI32, Name: "Color"}}, FD{ID: 3, Enum: true, Req: true, T: sc(tgen.KI64)}, FD{ID: 4, T: TD{K: tgen.KStr, Name: "Text"}}),
		st(f(1, sc(tgen.KI32)), f(100, sc(tgen.KI32)), req(200, sc(tgen.KStr)), f(17, sc(tgen.KBool))),  // id range beyond one bitmap word
		st(f(32767, sc(tgen.KI16)), f(5, sc(tgen.KBool)), f(21, sc(tgen.KBytes)), f(37, sc(tgen.KF64))), // extreme ids, declaration order != id order
		wide, // 70 fields, required ones beyond index 64
		st(f(1, TD{K: tgen.KMap, Key: p(st(f(1, sc(tgen.KI32)), f(2, sc(tgen.KStr)))), Elem: p(TD{K: tgen.KPtr, Elem: p(inner)})}), f(2, TD{K: tgen.KList, Elem: p(sc(tgen.KBytes))}), f(3, TD{K: tgen.KList, Elem: p(TD{K: tgen.KMap, Key: p(sc(tgen.KBool)), Elem: p(sc(tgen.KF64))})})),
	}
}()

// fuzzUnknownID is declared by none of the targets.
const fuzzUnknownID = 31999

// fuzzInsertions[p] are encodings (by the library's own Writer) of single
// fields with id fuzzUnknownID, in the long (absolute) form for compact.
var fuzzInsertions = func() [3][][]byte {
	var out [3][][]byte
	vals := []thriftspec.Value{
		{T: thriftspec.Bool, B: true}, {T: thriftspec.I64, I: -5}, {T: thriftspec.String, S: []byte("unknown")}, {T: thriftspec.Double, F: 0x3ff8000000000000},
		{T: thriftspec.List, ET: thriftspec.I32, Elems: []thriftspec.Value{{T: thriftspec.I32, I: 1}, {T: thriftspec.I32, I: 2}}},
		{T: thriftspec.Map, KT: thriftspec.String, ET: thriftspec.Bool, Keys: []thriftspec.Value{{T: thriftspec.String, S: []byte("k")}}, Elems: []thriftspec.Value{{T: thriftspec.Bool}}},
		{T: thriftspec.Struct, Fields: []thriftspec.Field{{ID: 1, V: thriftspec.Value{T: thriftspec.Bool, B: true}}, {ID: 2, V: thriftspec.Value{T: thriftspec.Set, ET: thriftspec.Byte}}}},
	}
	for p := 0; p < 3; p++ {
		for _, v := range vals {
			b, _, err := tgen.RenderBytes(proto(p), thriftspec.Value{T: thriftspec.Struct, Fields: []thriftspec.Field{{ID: fuzzUnknownID, V: v}}})
			if err != nil {
				panic(err)
			}
			out[p] = append(out[p], b[:len(b)-1]) // without the STOP
		}
	}
	return out
}()

// hasNaNKey reports whether v holds a map with a NaN key (such a key cannot be
// looked up, so two decodings cannot be compared entry by entry).
func hasNaNKey(v reflect.Value, depth int) bool {
	if depth > 40 {
		return false
	}
	switch v.Kind() {
	case reflect.Ptr, reflect.Interface:
		return !v.IsNil() && hasNaNKey(v.Elem(), depth+1)
	case reflect.Struct:
		for i := 0; i < v.NumField(); i++ {
			if hasNaNKey(v.Field(i), depth+1) {
				return true
			}
		}
	case reflect.Slice:
		if v.Type().Elem().Kind() == reflect.Uint8 {
			return false
		}
		for i := 0; i < v.Len(); i++ {
			if hasNaNKey(v.Index(i), depth+1) {
				return true
			}
		}
	case reflect.Map:
		it := v.MapRange()
		for it.Next() {
			if k := it.Key(); (k.Kind() == reflect.Float64 || k.Kind() == reflect.Float32) && k.Float() != k.Float() {
				return true
			}
			if hasNaNKey(it.Value(), depth+1) {
				return true
			}
		}
	}
	return false
}

// fuzzCheck is the oracle of the fuzz target (and of replayed fuzz cases): the
// C08 clauses that apply to arbitrary bytes.
func fuzzCheck(c *Case) *evid.Failure {
	td := &fuzzTargets[c.Sel%len(fuzzTargets)]
	typ := td.Type()
	data := c.Bytes
	pr := proto(c.P)
	defer debug.SetPanicOnFault(debug.SetPanicOnFault(true))
	var out reflect.Value
	var err error
	call := func(what string, f func()) *evid.Failure {
		return guard(func() *evid.Failure {
			var before uint64
			measure := len(data) <= inputLimit
			if measure {
				before = totalAlloc()
			}
			f()
			if measure {
				if d := totalAlloc() - before; d > allocLimit {
					return &evid.Failure{Oracle: "memory allocated by one decoding call (" + what + ") stays within 64 MiB for an input of at most 4 KiB",
						Observed: fmt.Sprintf("TotalAlloc grew by %d bytes for a %d-byte input", d, len(data)), Expected: "<= 67108864 bytes", Class: "alloc"}
				}
			}
			return nil
		})
	}
	if f := call("Unmarshal", func() {
		o := reflect.New(typ)
		err = thrift.Unmarshal(pr, data, o.Interface())
		out = o.Elem()
	}); f != nil {
		return f
	}
	if f := call("Decoder.Decode", func() {
		o := reflect.New(typ)
		d := thrift.NewDecoder(pr.NewReader(newReader(len(data)+c.Sel, data)))
		d.SetStrict(len(data)%2 == 0)
		d.Decode(o.Interface())
	}); f != nil {
		return f
	}
	if err != nil || len(data) == 0 {
		return nil
	}
	// data is a complete encoding (its last byte is the top-level STOP)
	return guard(func() *evid.Failure {
		trail := append(append([]byte(nil), data...), data[0]|1)
		if e := thrift.Unmarshal(pr, trail, reflect.New(typ).Interface()); e == nil {
			return &evid.Failure{Oracle: "Unmarshal reports bytes after the value", Observed: "nil error for " + hexShort(trail), Expected: "an error", Class: "trailing-accepted"}
		}
		ins := fuzzInsertions[c.P%3][(len(data)+int(data[0]))%len(fuzzInsertions[c.P%3])]
		in2 := append(append(append([]byte(nil), data[:len(data)-1]...), ins...), data[len(data)-1])
		o2 := reflect.New(typ)
		if e := thrift.Unmarshal(pr, in2, o2.Interface()); e != nil {
			return &evid.Failure{Oracle: "an accepted encoding still decodes with an undeclared field inserted before the final STOP", Observed: e.Error() + " for " + hexShort(in2), Expected: "nil error", Class: "insert-error"}
		}
		if hasNaNKey(out, 0) {
			return nil
		}
		if s := tgen.Equal(td, out, o2.Elem()); s != "" {
			return &evid.Failure{Oracle: "an undeclared field inserted before the final STOP does not affect the decoded value", Observed: s + " for " + hexShort(in2), Expected: "same value", Class: "insert-mismatch"}
		}
		return nil
	})
}

func (e *engine) fuzzCase() {
	e.sig = "fuzz"
	c := e.c
	e.run(&job{pi: ProbeInfo{ID: "fuzz", Group: "random", Mut: fmt.Sprintf("fuzz target %d", c.Sel)}, in: c.Bytes, nt: true, f: func() *evid.Failure { return fuzzCheck(c) }})
}

// fuzzSeeds: valid encodings of two values per target and protocol, their
// truncations, and hand-made hostile inputs.
func fuzzSeeds(add func(data []byte, sel, p uint8)) {
	o := &tgen.Opts{Small: true}
	for sel := range fuzzTargets {
		td := &fuzzTargets[sel]
		for vi := 0; vi < 2; vi++ {
			r := rapid.Custom(func(t *rapid.T) tgen.Recipe {
				rapid.Bool().Draw(t, "pad") // a target without fields draws nothing else
				return tgen.GenRecipe(t, td, o)
			}).Example(sel*7 + vi)
			v := tgen.Build(td, &r)
			for p := 0; p < 3; p++ {
				b, err := thrift.Marshal(proto(p), v.Interface())
				if err != nil {
					continue
				}
				add(b, uint8(sel), uint8(p))
				if len(b) > 2 {
					add(b[:len(b)-1], uint8(sel), uint8(p))
					add(b[:len(b)/2], uint8(sel), uint8(p))
				}
			}
		}
	}
	be32 := func(v int32) []byte { var b [4]byte; binary.BigEndian.PutUint32(b[:], uint32(v)); return b[:] }
	list, i64, mp, str := byte(thrift.LIST), byte(thrift.I64), byte(thrift.MAP), byte(thrift.BINARY)
	for _, n := range []int32{-1, 1<<31 - 1, 1 << 24, -1 << 31} {
		add(bytes.Join([][]byte{{list, 0, 1, i64}, be32(n), {0, 0, 0, 0, 0, 0, 0, 1, 0}}, nil), 3, 0) // binary list<i64> field 1 with a hostile size
		add(bytes.Join([][]byte{{mp, 0, 1, str, byte(thrift.I32)}, be32(n), {0}}, nil), 5, 1)         // binary map field 1 with a hostile size
		add(bytes.Join([][]byte{{str, 0, 9}, be32(n), {'a', 0}}, nil), 1, 0)                          // binary string field 9 with a hostile length
		add(append(append([]byte{0x19, 0xf6}, uleb(uint64(uint32(n)))...), 0x02, 0x00), 3, 2)         // compact list<i64> field 1
		add(append(append([]byte{0x1b}, uleb(uint64(uint32(n)))...), 0x85, 0x00), 5, 2)               // compact map field 1
		add(append(append([]byte{0x98}, uleb(uint64(uint32(n)))...), 'a', 0x00), 1, 2)                // compact string field 9
	}
	// a list really holding 1025 one-byte elements (more than the decoder preallocates) with an inflated count
	ones := bytes.Repeat([]byte{1}, 1025)
	for _, n := range []int32{1025, 4100, 1 << 26, 1<<31 - 1} {
		add(bytes.Join([][]byte{{list, 0, 2, byte(thrift.BOOL)}, be32(n), ones, {0}}, nil), 3, 0)
		add(bytes.Join([][]byte{{0x29, 0xf2}, uleb(uint64(n)), ones, {0}}, nil), 3, 2)
	}
	for _, ty := range []byte{0, 13, 14, 15, 16} {
		add([]byte{ty, 0, 1, 1, 0}, 1, 0)
		add([]byte{0x10 | ty&0x0f, 1, 0}, 1, 2)
		add([]byte{list, 0, 1, ty, 0, 0, 0, 2, 1, 1, 0}, 3, 1)
	}
	for _, id := range []int16{0, -1, 32767} {
		add([]byte{byte(thrift.I32), byte(uint16(id) >> 8), byte(id), 0, 0, 0, 7, 0}, 17, 0)
		z := uint64(uint32(int32(id)<<1) ^ uint32(int32(id)>>31))
		add(append(append([]byte{byte(thrift.I32)}, uleb(z)...), 0x0e, 0x00), 17, 2)
	}
}

// FuzzThriftDecode: coverage-guided search with the C08 oracle for arbitrary
// bytes inside the target (thorough tier; see bin/check.py). Fuzz workers are
// separate processes, so the library is called in-process here (panics and
// faults are recovered; a fatal error is go test's crasher).
func FuzzThriftDecode(f *testing.F) {
	fuzzSeeds(func(data []byte, sel, p uint8) { f.Add(data, sel, p) })
	f.Fuzz(func(t *testing.T, data []byte, sel uint8, p uint8) {
		if len(data) > 1<<14 {
			return
		}
		c := Case{Kind: "fuzz", P: int(p) % 3, Sel: int(sel) % len(fuzzTargets), Bytes: data}
		if fl := fuzzCheck(&c); fl != nil {
			pi := ProbeInfo{ID: "fuzz", Group: "random", Len: len(data), P: c.P}
			if cls := knownClass(&c, &pi, fl); cls != "" && evid.KnownActive(cls) {
				return
			}
			evid.Violation(t, "FuzzThriftDecode", c, fl)
		}
	})
}

// TestFuzzSeeds runs the seed corpus through the oracle in the ordinary tiers.
func TestFuzzSeeds(t *testing.T) {
	if evid.Shard() != 0 {
		return
	}
	n := 0
	fuzzSeeds(func(data []byte, sel, p uint8) {
		n++
		c := Case{Kind: "fuzz", P: int(p) % 3, Sel: int(sel) % len(fuzzTargets), Bytes: append([]byte(nil), data...)}
		evid.Eval(1)
		if fl := fuzzCheck(&c); fl != nil {
			pi := ProbeInfo{ID: "fuzz", Group: "random", Len: len(data), P: c.P}
			if cls := knownClass(&c, &pi, fl); cls != "" && evid.KnownActive(cls) {
				evid.Excluded(cls)
				return
			}
			evid.Violation(t, "FuzzSeeds", c, fl)
		}
	})
	evid.LabelN("fuzz-seed-corpus", n)
}
