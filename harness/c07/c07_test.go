// C07 — proto decoding is total and ignores unknown fields.
// For a generated type T and value v the check derives from b = Marshal(v):
// every prefix; mutations of length prefixes, varints, wire types and field
// numbers; byte flips; random bytes; and insertions of unknown fields at every
// field boundary (top level and inside embedded messages). Every derived input
// goes through Unmarshal, Scan/Parse and the RawValue accessors. Oracle:
// DESIGN §4 C07.
package c07

import (
	"bytes"
	"encoding/binary"
	"encoding/json"
	"fmt"
	"os"
	"reflect"
	"runtime"
	"runtime/debug"
	"strings"
	"testing"

	"github.com/segmentio/encoding/proto"
	"google.golang.org/protobuf/encoding/protowire"
	"pgregory.net/rapid"

	"verif/harness/evid"
	"verif/harness/pgen"
)

func TestMain(m *testing.M) { evid.Main(m, "C07") }

// Derived is one input fed to the decoders.
type Derived struct {
	Kind  string `json:"kind"`
	Input []byte `json:"input"`
	Base  []byte `json:"base,omitempty"` // insert: the encoding the input was derived from

	label      string
	nontrivial bool
}

// Case is the replayable unit: a type, a value and a seed from which the
// whole family of derived inputs is enumerated deterministically — or, when
// Only is set (how a failing input is saved), just that input.
type Case struct {
	Type  pgen.TypeDesc `json:"type"`
	Value pgen.Recipe   `json:"value"`
	Seed  uint64        `json:"seed"`
	Only  *Derived      `json:"only,omitempty"`
	Long  *LongSpec     `json:"long,omitempty"` // a long well-formed input (TestLongInputs); Type/Value/Seed/Only unused
}

const (
	allocLimit   = 64 << 20
	maxInputSize = 4096    // encodings up to this size get the full enumeration (every prefix, ...)
	bigInputSize = 4 << 20 // larger encodings (payloads on the 2^14 / 2^21 length boundaries) get a sampled one
)

func fail(class, oracle, observed, expected string) *evid.Failure {
	return &evid.Failure{Class: class, Oracle: oracle, Observed: observed, Expected: expected}
}

type prng struct{ s uint64 }

func (p *prng) next() uint64 {
	p.s += 0x9e3779b97f4a7c15
	z := p.s
	z = (z ^ (z >> 30)) * 0xbf58476d1ce4e5b9
	z = (z ^ (z >> 27)) * 0x94d049bb133111eb
	return z ^ (z >> 31)
}
func (p *prng) intn(n int) int {
	if n <= 0 {
		return 0
	}
	return int(p.next() % uint64(n))
}
func (p *prng) bytes(n int) []byte {
	b := make([]byte, n)
	for i := range b {
		b[i] = byte(p.next() >> 32)
	}
	return b
}

// ---------------------------------------------------------------- derivation

func extendVarint(v []byte, n int) []byte {
	out := append([]byte(nil), v...)
	out[len(out)-1] |= 0x80
	for len(out) < n-1 {
		out = append(out, 0x80)
	}
	return append(out, 0x00)
}

// declared returns the field numbers a message level declares, as the
// decoder may see them (full and truncated to 16 bits).
func declared(d *pgen.TypeDesc) map[uint64]bool {
	m := map[uint64]bool{}
	if d != nil {
		for i := range d.Fields {
			m[uint64(d.Fields[i].Num)] = true
			m[uint64(d.Fields[i].Num&0xFFFF)] = true
		}
	}
	return m
}

func unknownNumber(decl map[uint64]bool, r *prng) uint64 {
	max := uint64(0)
	for n := range decl {
		if n > max {
			max = n
		}
	}
	cands := []uint64{max + 1, max + 2, 1 + uint64(r.intn(int(max)+5)), 1 << 20, 1<<29 - 1, 65536 + 1 + uint64(r.intn(1000)), 16, 2048}
	for i := 0; i < 32; i++ {
		n := cands[r.intn(len(cands))]
		if n >= 1 && n < 1<<29 && !decl[n] && !decl[n&0xFFFF] {
			return n
		}
	}
	for n := max + 1; ; n++ {
		if !decl[n] && !decl[n&0xFFFF] {
			return n
		}
	}
}

func unknownField(num uint64, wire int, r *prng) []byte {
	out := protowire.AppendVarint(nil, num<<3|uint64(wire))
	switch wire {
	case 0:
		v := r.next() >> uint(r.intn(64))
		out = protowire.AppendVarint(out, v)
	case 1:
		out = append(out, r.bytes(8)...)
	case 5:
		out = append(out, r.bytes(4)...)
	case 2:
		p := r.bytes(r.intn(21))
		out = protowire.AppendVarint(out, uint64(len(p)))
		out = append(out, p...)
	}
	return out
}

// collapse reduces a LabelAt path to the innermost codec name.
func collapse(lab string) string {
	if i := strings.LastIndex(lab, "/"); i >= 0 {
		lab = lab[i+1:]
	}
	for _, suf := range []string{".start", ".tag", ".len", ".payload", ".first"} {
		lab = strings.TrimSuffix(lab, suf)
	}
	return lab
}

func pickNodes(all []*pgen.Node, n int, r *prng) []*pgen.Node {
	if len(all) <= n {
		return all
	}
	idx := make([]int, len(all))
	for i := range idx {
		idx[i] = i
	}
	for i := 0; i < n; i++ {
		j := i + r.intn(len(idx)-i)
		idx[i], idx[j] = idx[j], idx[i]
	}
	out := make([]*pgen.Node, n)
	for i := range out {
		out[i] = all[idx[i]]
	}
	return out
}

// derive enumerates the family of inputs of one valid encoding.
func derive(sd *pgen.TypeDesc, base []byte, seed uint64) (list []Derived, note string) {
	r := &prng{s: seed}
	// big: the encoding is too long for the full enumeration; prefixes,
	// mutated fields and insertion points are then sampled
	big := len(base) > maxInputSize-64
	limit, nMut, nIns, nFlip := maxInputSize, 24, 40, 8
	if big {
		limit, nMut, nIns, nFlip = bigInputSize+64, 6, 8, 4
	}
	add := func(kind, label string, nontriv bool, data []byte, withBase bool) {
		if len(data) > limit {
			return
		}
		d := Derived{Kind: kind, Input: data, label: label, nontrivial: nontriv}
		if withBase {
			d.Base = base
		}
		list = append(list, d)
	}
	add("valid", "whole", len(base) > 0, base, false)

	var nodes []pgen.Node
	parsed := false
	if sd != nil {
		if ns, err := pgen.ParseMessage(sd, base, 0); err == nil {
			nodes, parsed = ns, true
			if !bytes.Equal(pgen.Serialize(base, nodes, nil), base) {
				parsed, note = false, "reserialize-mismatch"
			}
		} else {
			note = "base-not-parseable"
		}
	}
	// (1) every prefix (big encodings: the first and last 48, the bytes around
	// every field start / payload start, 32 more spread over the rest)
	cuts := map[int]bool{}
	if big {
		for l := 0; l < 48; l++ {
			cuts[l], cuts[len(base)-1-l] = true, true
		}
		if parsed {
			pgen.Visit(nodes, func(n *pgen.Node, _ int) {
				if len(cuts) < 400 {
					for d := -1; d <= 1; d++ {
						cuts[n.Start+d], cuts[n.PayStart+d] = true, true
					}
				}
			})
		}
		for k := 1; k <= 32; k++ {
			cuts[len(base)/33*k] = true
		}
	}
	for l := 0; l < len(base); l++ {
		if big && !cuts[l] {
			continue
		}
		lab, boundary := "top-level-value", l == 0
		if parsed {
			lab, boundary = pgen.LabelAt(nodes, l)
			lab = collapse(lab)
		}
		add("prefix", lab, !boundary, base[:l], false)
	}
	// (2) mutations
	if parsed {
		var all []*pgen.Node
		pgen.Visit(nodes, func(n *pgen.Node, _ int) { all = append(all, n) })
		for _, nd := range pickNodes(all, nMut, r) {
			lab := nd.Label
			if nd.Wire == 2 {
				l := uint64(nd.End - nd.PayStart)
				vals := []struct {
					name string
					v    uint64
				}{{"plus1", l + 1}, {"x2", 2*l + 2}, {"2^31", 1 << 31}, {"2^63", 1 << 63}, {"2^24", 1<<24 + l}}
				if l > 0 {
					vals = append(vals, struct {
						name string
						v    uint64
					}{"minus1", l - 1})
				}
				for _, x := range vals {
					add("len."+x.name, lab, true, pgen.ReplaceAt(base, nodes, nd.ValStart, nd.PayStart, protowire.AppendVarint(nil, x.v), false), false)
				}
				// an inner length grown with the outer ones fixed up: the lie is
				// only visible at the innermost level
				add("len.plus1.fixup", lab, true, pgen.ReplaceAt(base, nodes, nd.ValStart, nd.PayStart, protowire.AppendVarint(nil, l+1), true), false)
			}
			type span struct {
				name   string
				lo, hi int
			}
			spans := []span{{"tag", nd.Start, nd.ValStart}}
			if nd.Wire == 2 {
				spans = append(spans, span{"lenprefix", nd.ValStart, nd.PayStart})
			}
			if nd.Wire == 0 {
				spans = append(spans, span{"value", nd.PayStart, nd.End})
			}
			for _, sp := range spans {
				for _, n := range []int{10, 11} {
					if sp.hi-sp.lo >= n {
						continue
					}
					ext := extendVarint(base[sp.lo:sp.hi], n)
					add(fmt.Sprintf("varint%d.%s", n, sp.name), lab, sp.name == "lenprefix", pgen.ReplaceAt(base, nodes, sp.lo, sp.hi, ext, true), false)
					if n == 11 {
						add(fmt.Sprintf("varint%d.%s.raw", n, sp.name), lab, sp.name == "lenprefix", pgen.ReplaceAt(base, nodes, sp.lo, sp.hi, ext, false), false)
					}
				}
			}
			for wt := 0; wt < 8; wt++ {
				if wt == nd.Wire {
					continue
				}
				tag := append([]byte(nil), base[nd.Start:nd.ValStart]...)
				tag[0] = tag[0]&^7 | byte(wt)
				add(fmt.Sprintf("wiretype.to%d", wt), lab, false, pgen.ReplaceAt(base, nodes, nd.Start, nd.ValStart, tag, false), false)
			}
			for _, num := range []uint64{0, 1 << 29} {
				tag := protowire.AppendVarint(nil, num<<3|uint64(nd.Wire))
				add(fmt.Sprintf("fieldnum.%d", num), lab, false, pgen.ReplaceAt(base, nodes, nd.Start, nd.ValStart, tag, true), false)
			}
		}
	}
	if len(base) > 0 {
		for i := 0; i < nFlip; i++ {
			b := append([]byte(nil), base...)
			b[r.intn(len(b))] ^= 1 << uint(r.intn(8))
			add("flip", "bit", false, b, false)
		}
	}
	// (3) random bytes, alone and after a valid prefix
	for i := 0; i < 3; i++ {
		add("random", "bytes", true, r.bytes(r.intn(48)), false)
	}
	if len(base) > 0 {
		add("random", "after-valid-prefix", true, append(append([]byte(nil), base[:r.intn(len(base))]...), r.bytes(1+r.intn(16))...), false)
	}
	// (4) unknown-field insertion at every field boundary
	if parsed {
		bs := pgen.Boundaries(nodes, len(base))
		if len(bs) > nIns {
			for i := 0; i < nIns; i++ {
				j := i + r.intn(len(bs)-i)
				bs[i], bs[j] = bs[j], bs[i]
			}
			bs = bs[:nIns]
		}
		for _, bd := range bs {
			d := pgen.DescAt(sd, nodes, bd.Path)
			if d == nil {
				continue
			}
			// the library writes an empty (or nil) map as one zero-length entry
			// and reads a zero-length entry back as "no entry": that marker is
			// not a map entry fields could be added to
			if enclosingEmptyMapEntry(nodes, bd.Path) {
				continue
			}
			// known class implementer-field-not-last: a field placed after a
			// non-empty implementer field makes that field "not last"
			if evid.KnownActive(pgen.ClassImplNotLast) && afterImpl(nodes, bd.Off) {
				evid.Excluded(pgen.ClassImplNotLast)
				continue
			}
			decl := declared(d)
			for _, wt := range []int{0, 1, 2, 5} {
				extra := unknownField(unknownNumber(decl, r), wt, r)
				if r.intn(4) == 0 { // sometimes two unknown fields in a row
					extra = append(extra, unknownField(unknownNumber(decl, r), []int{0, 1, 2, 5}[r.intn(4)], r)...)
				}
				path, idx := bd.Path, bd.Index
				data := pgen.Serialize(base, nodes, func(p []int, i int) []byte {
					if i == idx && len(p) == len(path) {
						for k := range p {
							if p[k] != path[k] {
								return nil
							}
						}
						return extra
					}
					return nil
				})
				depth := "top"
				if bd.Depth > 0 {
					depth = fmt.Sprintf("depth%d", bd.Depth)
					if bd.Depth > 2 {
						depth = "depth3+"
					}
				}
				_ = wt
				add("insert", depth, bd.Off != 0, data, true)
			}
		}
	}
	return list, note
}

func afterImpl(nodes []pgen.Node, off int) bool {
	hit := false
	pgen.Visit(nodes, func(n *pgen.Node, _ int) {
		if n.Impl && n.ImplLen > 0 && off >= n.End {
			hit = true
		}
	})
	return hit
}

func enclosingEmptyMapEntry(nodes []pgen.Node, path []int) bool {
	for _, i := range path {
		nd := &nodes[i]
		if nd.Label == "mapentry" && nd.End == nd.PayStart {
			return true
		}
		nodes = nd.Kids
	}
	return false
}

// ---------------------------------------------------------------- oracle on one input

type scanField struct {
	num  uint64
	wire int
	raw  []byte
	val  uint64
}

// checkInput runs every entry point on one input. baseVal, when valid, is
// what the valid encoding decoded to (insert inputs must decode to the same).
func checkInput(rt reflect.Type, in *Derived, baseVal reflect.Value) *evid.Failure {
	input := in.Input
	where := fmt.Sprintf(" [%s input=%s]", in.Kind, hexTrunc(input))
	// (a) Unmarshal returns
	fresh := reflect.New(rt)
	var uerr error
	if p, msg, stack := pgen.Call(func() { uerr = proto.Unmarshal(append([]byte(nil), input...), fresh.Interface()) }); p {
		return fail("panic", "Unmarshal returns (error or value)"+where, "panic: "+msg+" @ "+stack, "no panic")
	}
	// (c) unknown fields are no-ops
	if in.Kind == "insert" && baseVal.IsValid() {
		if uerr != nil {
			return fail("insert-error", "Unmarshal skips well-formed unknown fields"+where, uerr.Error(), "nil error (base decodes)")
		}
		// For a top-level pointer type the pointers themselves carry no wire
		// information (the empty input is documented to decode to the zero
		// value, i.e. nil, while any field makes the decoder allocate): the
		// values behind the top-level pointer chain are compared, nil = zero.
		if r := pgen.Compare(derefTop(baseVal.Elem()), derefTop(fresh.Elem()), pgen.Tol{}, false); r.Diff != "" {
			return fail("insert-mismatch", "inserting unknown fields does not change the decoded value"+where, r.Diff+" base="+hexTrunc(in.Base), "equal to Unmarshal(base)")
		}
	}
	// (d) Scan / Parse / RawValue against the protowire walk
	var got []scanField
	var serr error
	if p, msg, stack := pgen.Call(func() {
		serr = proto.Scan(input, func(f proto.FieldNumber, t proto.WireType, v proto.RawValue) (bool, error) {
			sf := scanField{num: uint64(f), wire: int(t), raw: v}
			switch t {
			case proto.Varint:
				sf.val = v.Varint()
			case proto.Fixed32:
				sf.val = uint64(v.Fixed32())
			case proto.Fixed64:
				sf.val = v.Fixed64()
			}
			got = append(got, sf)
			return true, nil
		})
	}); p {
		return fail("panic", "Scan / RawValue accessors return"+where, "panic: "+msg+" @ "+stack, "no panic")
	}
	ref, bad, group := pgen.RefScan(input)
	if group {
		return nil
	}
	if bad {
		if serr == nil {
			return fail("scan-accepts-malformed", "Scan errs iff the protowire walk errs"+where, fmt.Sprintf("nil error, %d fields", len(got)), "an error")
		}
		return nil
	}
	if serr != nil {
		return fail("scan-rejects-wellformed", "Scan errs iff the protowire walk errs"+where, serr.Error(), fmt.Sprintf("nil error, %d fields", len(ref)))
	}
	if len(got) != len(ref) {
		return fail("scan-fields", "Scan yields the protowire field list"+where, fmt.Sprintf("%d fields", len(got)), fmt.Sprintf("%d fields", len(ref)))
	}
	for i := range ref {
		g, w := got[i], ref[i]
		if g.num != w.Num || g.wire != w.Wire || !bytes.Equal(g.raw, w.Payload) || (w.Wire != 2 && g.val != w.Value) {
			return fail("scan-fields", "Scan yields the protowire field list"+where,
				fmt.Sprintf("field %d: (%d, %d, %x, %d)", i, g.num, g.wire, g.raw, g.val), fmt.Sprintf("(%d, %d, %x, %d)", w.Num, w.Wire, w.Payload, w.Value))
		}
	}
	return nil
}

// derefTop follows a top-level pointer chain; a nil pointer stands for the
// zero value of the type it would point to.
func derefTop(v reflect.Value) reflect.Value {
	for v.Kind() == reflect.Ptr {
		if v.IsNil() {
			v = reflect.Zero(v.Type().Elem())
		} else {
			v = v.Elem()
		}
	}
	return v
}

func hexTrunc(b []byte) string {
	if len(b) > 160 {
		return evid.Hex(b[:160]) + fmt.Sprintf("…(%d bytes)", len(b))
	}
	return evid.Hex(b)
}

func totalAlloc() uint64 {
	var ms runtime.MemStats
	runtime.ReadMemStats(&ms)
	return ms.TotalAlloc
}

type stats struct {
	evals   int
	labels  map[string]int
	hashes  []uint64
	note    string
	failed  *Derived
	implHit bool
}

// checkCase enumerates the derived inputs of a case (or its single saved
// input) and runs the oracle on each.
func checkCase(c Case) (f *evid.Failure, st stats) {
	st.labels = map[string]int{}
	var rt reflect.Type
	var v reflect.Value
	if p, msg, _ := pgen.Call(func() {
		rt = pgen.GoType(&c.Type)
		v = pgen.BuildT(&c.Type, rt, &c.Value)
	}); p {
		return fail("harness", "harness: build value", msg, "no panic"), st
	}
	sd := pgen.StructDesc(&c.Type)

	decodeBase := func(base []byte) reflect.Value {
		bv := reflect.New(rt)
		var err error
		if p, _, _ := pgen.Call(func() { err = proto.Unmarshal(base, bv.Interface()) }); p || err != nil {
			return reflect.Value{} // the valid input itself is judged as input "valid"; without a decoded base clause (c) is not evaluated
		}
		return bv
	}

	var list []Derived
	var baseVal reflect.Value
	if c.Only != nil {
		list = []Derived{*c.Only}
		if c.Only.Kind == "insert" && c.Only.Base != nil {
			baseVal = decodeBase(c.Only.Base)
		}
	} else {
		var base []byte
		var err error
		if p, _, _ := pgen.Call(func() { base, err = proto.Marshal(v.Interface()) }); p || err != nil {
			st.note = "marshal-failed" // C03's business; no valid encoding to derive from
			return nil, st
		}
		if len(base) > bigInputSize {
			st.note = "oversize"
			return nil, st
		}
		list, st.note = derive(sd, base, c.Seed)
		baseVal = decodeBase(base)
		if !baseVal.IsValid() {
			st.labels["base-undecodable"]++
		}
		if sd != nil && pgen.HasImpl(&c.Type) {
			if nodes, err := pgen.ParseMessage(sd, base, 0); err == nil {
				st.implHit = pgen.ImplFieldNotLast(nodes, len(base))
			}
		}
	}

	tj, _ := json.Marshal(&c.Type)
	th := evid.Hash(tj)
	run := func(measure bool) (*evid.Failure, *Derived, uint64) {
		var worst uint64
		for i := range list {
			in := &list[i]
			var a0 uint64
			if measure {
				a0 = totalAlloc()
			}
			f := checkInput(rt, in, baseVal)
			if measure {
				d := totalAlloc() - a0
				if d > worst {
					worst = d
				}
				// flat 64 MiB for inputs of at most 4 KiB, plus 64 x the length beyond
				lim := uint64(allocLimit)
				if len(in.Input) > maxInputSize {
					lim += 64 * uint64(len(in.Input))
				}
				if f == nil && d > lim {
					f = fail("alloc", fmt.Sprintf("allocation for an input of %d bytes stays within 64 MiB (+ 64 x length beyond 4 KiB) [%s input=%s]", len(in.Input), in.Kind, hexTrunc(in.Input)),
						fmt.Sprintf("%d bytes allocated", d), fmt.Sprintf("<= %d", lim))
				}
			}
			if f != nil {
				return f, in, worst
			}
		}
		return nil, nil, worst
	}
	// (b) allocation bound: measured over the whole family first (cheap); only
	// when the family as a whole exceeds the bound is each input measured
	a0 := totalAlloc()
	f, bad, _ := run(false)
	total := totalAlloc() - a0
	for i := range list {
		in := &list[i]
		st.evals++
		coarse := in.Kind
		if i := strings.IndexByte(coarse, '.'); i >= 0 {
			coarse = coarse[:i]
		}
		switch coarse {
		case "insert", "random":
			st.labels["kind."+coarse+"."+in.label]++
		case "valid", "flip":
			st.labels["kind."+coarse]++
		default: // prefix and mutations: the codec the cut / mutation lands in
			st.labels["kind."+coarse]++
			st.labels["at."+in.label]++
		}
		if in.nontrivial {
			var hb [8]byte
			binary.LittleEndian.PutUint64(hb[:], th)
			st.hashes = append(st.hashes, evid.Hash(hb[:], []byte(in.Kind), in.Input))
		}
		if in == bad {
			break
		}
	}
	if f != nil {
		st.failed = bad
		return f, st
	}
	if total > allocLimit {
		if f, bad, _ := run(true); f != nil {
			st.failed = bad
			return f, st
		}
	}
	return nil, st
}

// ---------------------------------------------------------------- known classes

func preClass(c Case) string {
	if pgen.HasFixedTagOnPointer(&c.Type) {
		return pgen.ClassFixedPtr
	}
	return ""
}

func knownClass(c Case, f *evid.Failure, st stats) string {
	switch {
	case f.Class == "panic" && strings.Contains(f.Observed, "runtime_reflect.CopySlice"):
		return pgen.ClassRepOver10
	case f.Class == "panic" && strings.Contains(f.Observed, "interface conversion") && pgen.HasPtrToImpl(&c.Type):
		return pgen.ClassPtrImpl
	case (f.Class == "insert-mismatch" || f.Class == "insert-error") && implHit(c, st):
		return pgen.ClassImplNotLast
	}
	return ""
}

func implHit(c Case, st stats) bool {
	if st.implHit {
		return true
	}
	sd := pgen.StructDesc(&c.Type)
	if sd == nil || !pgen.HasImpl(&c.Type) || st.failed == nil {
		return false
	}
	for _, b := range [][]byte{st.failed.Input, st.failed.Base} {
		if nodes, err := pgen.ParseMessage(sd, b, 0); err == nil && pgen.ImplFieldNotLast(nodes, len(b)) {
			return true
		}
	}
	return false
}

type fataler interface {
	Fatalf(format string, args ...any)
	Helper()
}

var (
	gcOff   bool
	gcCalls int
)

// quiesceGC: while the class repeated-over-10-elements is listed as known,
// the collector is only run between cases. The defect behind that class (a
// mis-linked typedslicecopy reached when a repeated field receives its 11th
// element, which any mutation can provoke by re-framing nested elements) is a
// recoverable nil dereference when no GC cycle is in progress but a fatal
// "bulkBarrierPreWrite: unaligned arguments" while the write barrier is on;
// keeping GC cycles out of the library calls keeps the known failure
// classifiable (recovered panic with CopySlice on the stack) instead of
// killing the shard. Inactive once the class is fixed.
func quiesceGC() {
	if !evid.KnownActive(pgen.ClassRepOver10) {
		return
	}
	if !gcOff {
		gcOff = true
		debug.SetGCPercent(-1)
	}
	gcCalls++
	if gcCalls%24 == 0 {
		runtime.GC()
	}
}

func run(t fataler, test string, c Case, account bool) {
	t.Helper()
	if c.Long != nil {
		evid.Journal(test, c)
		f, _, _ := checkLong(c.Long)
		evid.JournalClear()
		evid.Eval(1)
		if f != nil {
			evid.Violation(t, test, c, f)
		}
		return
	}
	if cls := preClass(c); cls != "" && evid.KnownActive(cls) {
		evid.Excluded(cls)
		return
	}
	quiesceGC()
	evid.Journal(test, c)
	f, st := checkCase(c)
	evid.JournalClear()
	evid.Eval(st.evals)
	if account {
		for k, n := range st.labels {
			evid.LabelN(k, n)
		}
		if st.note != "" {
			evid.Label("note." + st.note)
		}
		for _, h := range st.hashes {
			evid.NonTrivial(h)
		}
	}
	if f != nil {
		if cls := knownClass(c, f, st); cls != "" && evid.KnownActive(cls) {
			evid.Excluded(cls)
			return
		}
		// save the failing input itself, with the type reduced to what the
		// failure needs
		out := Case{Type: c.Type, Value: c.Value, Seed: c.Seed, Only: st.failed}
		if st.failed != nil {
			d, _ := pgen.Minimize(c.Type, pgen.Recipe{}, 400, func(d *pgen.TypeDesc, _ *pgen.Recipe) bool {
				c2 := Case{Type: *d, Only: st.failed}
				if preClass(c2) != "" {
					return false
				}
				f2, st2 := checkCase(c2)
				if f2 == nil || f2.Class != f.Class {
					return false
				}
				if cls := knownClass(c2, f2, st2); cls != "" && evid.KnownActive(cls) {
					return false
				}
				return true
			})
			c2 := Case{Type: d, Only: st.failed}
			if f2, _ := checkCase(c2); f2 != nil && f2.Class == f.Class {
				out, f = c2, f2
			}
		}
		evid.Violation(t, test, out, f)
	}
}

// ---------------------------------------------------------------- generation

func genOpts() *pgen.Opts {
	o := pgen.OptsFor(evid.KnownActive, evid.Excluded)
	o.Small = true
	o.Huge = evid.Thorough()
	o.MaxDepth = 2
	if o.MaxRep == 10 {
		// one mutated tag can add an element to a repeated field: stay one
		// below the length at which the known growSlice defect fires
		o.MaxRep = 9
	} else {
		o.MaxRep = 14
		o.ClassRep = ""
	}
	return o
}

const valuesPerType = 5

func TestDecode(t *testing.T) {
	o := genOpts()
	evid.Check(t, "Decode", 220, func(rt *rapid.T) {
		c := Case{Type: pgen.GenType(rt, o)}
		for i := 0; i < valuesPerType; i++ {
			c.Value = pgen.GenValue(rt, &c.Type, o)
			c.Seed = rapid.Uint64().Draw(rt, "seed")
			evid.Label("values")
			if l := pgen.TopShapeLabel(&c.Type); l != "" {
				evid.Label(l)
			}
			if evid.SampleWanted() {
				evid.Sample(c)
			} else {
				evid.Sample(nil)
			}
			run(rt, "Decode", c, true)
		}
	})
}

// TestRandomBytes: arbitrary byte strings (not derived from any encoding)
// into generated target types.
func TestRandomBytes(t *testing.T) {
	o := genOpts()
	byteGen := rapid.SliceOfN(rapid.Byte(), 0, 64)
	evid.Check(t, "RandomBytes", 300, func(rt *rapid.T) {
		c := Case{Type: pgen.GenType(rt, o)}
		for i := 0; i < 6; i++ {
			in := byteGen.Draw(rt, "bytes")
			c.Only = &Derived{Kind: "random", Input: in, label: "rapid-bytes", nontrivial: len(in) > 0}
			run(rt, "RandomBytes", c, true)
		}
	})
}

func TestReplay(t *testing.T) {
	files := evid.SavedReplays()
	if p := evid.ReplayFile(); p != "" {
		files = []string{p}
	}
	for _, p := range files {
		_, raw, err := evid.LoadReplayCase(p)
		if err != nil {
			t.Fatalf("replay %s: %v", p, err)
		}
		var c Case
		if err := json.Unmarshal(raw, &c); err != nil || c.Type.K == "" && c.Long == nil {
			fmt.Fprintf(os.Stderr, "replay %s: not a C07 case, skipped\n", p)
			continue
		}
		run(t, "Replay", c, false)
	}
}

// ---------------------------------------------------------------- witnesses

func st1(fields ...pgen.FieldDesc) pgen.TypeDesc {
	for i := range fields {
		if fields[i].Num == 0 {
			fields[i].Num = i + 1
		}
	}
	return pgen.TypeDesc{K: pgen.KStruct, Fields: fields}
}

// fuzzFoundCase: found by the native fuzz target of the thorough tier (FuzzProtoDecode). A struct with fields of
// the struct-kind Message implementer Msg; the base input only "decoded" because the doubled length prefix made
// the decoder re-interpret payload bytes as fields, and an unknown field inserted into a map entry broke that.
const fuzzFoundCase = `{"type":{"k":"struct","fields":[{"num":1,"t":{"k":"ptr","elem":{"k":"named","name":"Msg"}}},{"num":2,"t":{"k":"ptr","elem":{"k":"named","name":"Custom16"}}},{"num":3,"t":{"k":"slice","elem":{"k":"named","name":"RawMessage"}}},{"num":4,"t":{"k":"slice","elem":{"k":"named","name":"Msg"}}},{"num":5,"t":{"k":"map","elem":{"k":"named","name":"Msg"},"key":{"k":"string"}}},{"num":6,"t":{"k":"map","elem":{"k":"named","name":"Custom16"},"key":{"k":"int32"}}}]},"value":{},"seed":0,"only":{"kind":"insert","input":"IgUAMhQwMDISMDAwMDAwMDAYDDAwMDAwMTAw","base":"IgUAMhQwMDIQMDAwMDAwMDAwMDAwMDEwMA=="}}`

func witnessCases() map[string]Case {
	nm := func(n string) pgen.TypeDesc { return pgen.TypeDesc{K: pgen.KNamed, Name: n} }
	lf := func(k string) pgen.TypeDesc { return pgen.TypeDesc{K: k} }
	i32 := lf(pgen.KInt32)
	u32 := lf(pgen.KUint32)
	msg := nm("Msg")
	eleven := bytes.Repeat([]byte{0x08, 0x01}, 11)
	var fuzzFound Case
	if err := json.Unmarshal([]byte(fuzzFoundCase), &fuzzFound); err != nil {
		panic(err)
	}
	return map[string]Case{
		"struct-kind-message-double-length-prefix": fuzzFound,
		// 11 x (field 1 varint 1) into struct{A []int32}: Unmarshal panics
		pgen.ClassRepOver10: {Type: st1(pgen.FieldDesc{T: pgen.TypeDesc{K: pgen.KSlice, Elem: &i32}}), Only: &Derived{Kind: "valid", Input: eleven}},
		// struct{R RawMessage; A int}: base 0a020801 1007, unknown field 3 inserted after R changes the value
		pgen.ClassImplNotLast: {Type: st1(pgen.FieldDesc{T: nm("RawMessage")}, pgen.FieldDesc{T: lf(pgen.KInt)}),
			Only: &Derived{Kind: "insert", Base: []byte{0x0a, 0x02, 0x08, 0x01, 0x10, 0x07}, Input: []byte{0x0a, 0x02, 0x08, 0x01, 0x18, 0x05, 0x10, 0x07}}},
		// field 2 present for struct{A int; M *Msg}: Unmarshal panics
		pgen.ClassPtrImpl: {Type: st1(pgen.FieldDesc{T: lf(pgen.KInt)}, pgen.FieldDesc{T: pgen.TypeDesc{K: pgen.KPtr, Elem: &msg}}),
			Only: &Derived{Kind: "valid", Input: []byte{0x08, 0x01, 0x12, 0x03, 0x02, 0x08, 0x05}}},
		// struct{A *uint32 `fixed32,1`}: decoding 0d 07000000 writes 7 into the pointer slot (fatal when the value is used / scanned)
		pgen.ClassFixedPtr: {Type: st1(pgen.FieldDesc{Num: 1, Wire: "fixed32", T: pgen.TypeDesc{K: pgen.KPtr, Elem: &u32}}),
			Only: &Derived{Kind: "valid", Input: []byte{0x0d, 0x07, 0x00, 0x00, 0x00}}},
	}
}

func init() {
	// child entry point for witnesses that may kill the process: besides the
	// oracle it uses the decoded value (compares it with itself and forces a
	// GC), which is where a corrupted pointer surfaces.
	evid.Children["c07case"] = func(payload []byte) int {
		var c Case
		if err := json.Unmarshal(payload, &c); err != nil {
			return 96
		}
		if f, _ := checkCase(c); f != nil {
			fmt.Println(f.Error())
			return 1
		}
		rt := pgen.GoType(&c.Type)
		for i := 0; i < 50; i++ {
			v := reflect.New(rt)
			if err := proto.Unmarshal(c.Only.Input, v.Interface()); err != nil {
				return 0
			}
			runtime.GC()
			_ = fmt.Sprintf("%+v", v.Elem().Interface())
			if r := pgen.Compare(v.Elem(), v.Elem(), pgen.Tol{}, false); r.Diff != "" {
				return 1
			}
		}
		return 0
	}
}

func TestKnownFindings(t *testing.T) {
	var classes []evid.Class
	for name, c := range witnessCases() {
		name, c := name, c
		classes = append(classes, evid.Class{Name: name, Witness: func() *evid.Failure {
			if name == pgen.ClassFixedPtr || name == pgen.ClassRepOver10 {
				payload, _ := json.Marshal(c)
				code, out, timedOut := evid.RunChild("c07case", payload, 60e9)
				if code == 0 && !timedOut {
					return nil
				}
				o := string(out)
				if len(o) > 300 {
					o = o[:300]
				}
				return fail("fatal", "Unmarshal returns and leaves a usable value (child process)", fmt.Sprintf("exit %d: %s", code, o), "exit 0")
			}
			f, _ := checkCase(c)
			return f
		}})
	}
	evid.RunWitnesses(t, classes)
}
