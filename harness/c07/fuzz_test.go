package c07

import (
	"bytes"
	"hash/fnv"
	"testing"

	"github.com/segmentio/encoding/proto"
	"google.golang.org/protobuf/encoding/protowire"
	"pgregory.net/rapid"

	"verif/harness/evid"
	"verif/harness/pgen"
)

// hostile constants appended to / used as seeds
var hostile = [][]byte{
	{0x08, 0xff, 0xff, 0xff, 0xff, 0xff, 0xff, 0xff, 0xff, 0xff, 0x01},       // 10-byte varint (max)
	{0x08, 0x80, 0x80, 0x80, 0x80, 0x80, 0x80, 0x80, 0x80, 0x80, 0x80, 0x00}, // 11-byte varint
	{0x08, 0xff, 0xff, 0xff, 0xff, 0xff, 0xff, 0xff, 0xff, 0xff, 0x02},       // 10 bytes, overflow
	{0x0a, 0x80, 0x80, 0x80, 0x80, 0x08, 0x01},                               // length 2^31
	{0x12, 0x80, 0x80, 0x80, 0x80, 0x80, 0x80, 0x80, 0x80, 0x80, 0x01, 0x00}, // length 2^63
	{0x12, 0xff, 0xff, 0xff, 0x07},                                           // length 2^24-1, nothing follows
	{0x00, 0x01},                                                             // field number 0
	{0x80, 0x80, 0x80, 0x80, 0x10, 0x01},                                     // field number 2^29
	{0x0b, 0x08, 0x01, 0x0c},                                                 // group start / end
	{0x0e, 0x01}, {0x0f, 0x01},                                               // wire types 6, 7
	{0x0d, 0x01, 0x02}, {0x09, 0x01, 0x02, 0x03}, // truncated fixed32 / fixed64
	{0x0a, 0x00, 0x0a, 0x00, 0x12, 0x00, 0x1a, 0x00}, // empty length-delimited fields
	bytes.Repeat([]byte{0x08, 0x01}, 40),             // 40 occurrences of field 1
	bytes.Repeat([]byte{0x0a, 0x02, 0x08, 0x01}, 24), // 24 embedded occurrences of field 1
}

// fuzzInsertions derives up to six unknown-field insertions from data when it
// parses as a message of the target (and re-serialises to itself, i.e. its
// embedded length prefixes are minimal so that they can be recomputed).
func fuzzInsertions(td *pgen.TypeDesc, data []byte) []Derived {
	sd := pgen.StructDesc(td)
	if sd == nil || len(data) == 0 || len(data) > maxInputSize-128 {
		return nil
	}
	nodes, err := pgen.ParseMessage(sd, data, 0)
	if err != nil || !bytes.Equal(pgen.Serialize(data, nodes, nil), data) {
		return nil
	}
	h := fnv.New64a()
	h.Write(data)
	r := &prng{s: h.Sum64()}
	bs := pgen.Boundaries(nodes, len(data))
	var out []Derived
	for k := 0; k < 6 && len(bs) > 0; k++ {
		bd := bs[r.intn(len(bs))]
		d := pgen.DescAt(sd, nodes, bd.Path)
		if d == nil || enclosingEmptyMapEntry(nodes, bd.Path) {
			continue
		}
		if evid.KnownActive(pgen.ClassImplNotLast) && afterImpl(nodes, bd.Off) {
			continue
		}
		extra := unknownField(unknownNumber(declared(d), r), []int{0, 1, 2, 5}[r.intn(4)], r)
		path, idx := bd.Path, bd.Index
		in := pgen.Serialize(data, nodes, func(p []int, i int) []byte {
			if i != idx || len(p) != len(path) {
				return nil
			}
			for j := range p {
				if p[j] != path[j] {
					return nil
				}
			}
			return extra
		})
		out = append(out, Derived{Kind: "insert", Input: in, Base: data})
	}
	return out
}

// FuzzProtoDecode: coverage-guided search over arbitrary bytes x static
// target types with the C07 clauses that apply to arbitrary input: no panic or
// fault in Unmarshal / Scan / Parse / RawValue accessors, allocation bound for
// inputs of at most 4 KiB, Scan = protowire field list (and error agreement),
// and unknown-field insertion invariance when the bytes parse as a message of
// the target and decode without error.
func FuzzProtoDecode(f *testing.F) {
	o := &pgen.Opts{Small: true, MaxRep: 6, MaxDepth: 2}
	for i := range pgen.FuzzTargets {
		td := &pgen.FuzzTargets[i]
		gen := rapid.Custom(func(t *rapid.T) pgen.Recipe { return pgen.GenValue(t, td, o) })
		for k := 0; k < 3; k++ {
			var b []byte
			pgen.Call(func() {
				r := gen.Example(1000*i + k)
				b, _ = proto.Marshal(pgen.Build(td, &r).Interface())
			})
			if len(b) == 0 || len(b) > 1024 {
				continue
			}
			f.Add(b, uint8(i))
			f.Add(b[:len(b)/2], uint8(i))
			f.Add(b[:len(b)-1], uint8(i))
			if k == 0 {
				h := hostile[i%len(hostile)]
				f.Add(append(append([]byte(nil), b...), h...), uint8(i))
				f.Add(protowire.AppendBytes(protowire.AppendTag(nil, 1, protowire.BytesType), b), uint8(i)) // wrapped as an embedded field 1
			}
		}
	}
	for i, h := range hostile {
		f.Add(h, uint8(i))
		f.Add(h, uint8(i+len(hostile)))
	}
	f.Fuzz(func(t *testing.T, data []byte, sel uint8) {
		if len(data) > maxInputSize {
			return
		}
		i := int(sel) % len(pgen.FuzzTargets)
		td := pgen.FuzzTargets[i]
		c := Case{Type: td, Only: &Derived{Kind: "fuzz", Input: data}}
		if cls := preClass(c); cls != "" && evid.KnownActive(cls) {
			return
		}
		quiesceGC()
		report := func(c Case, fl *evid.Failure, st stats) {
			if cls := knownClass(c, fl, st); cls != "" && evid.KnownActive(cls) {
				return
			}
			evid.Violation(t, "FuzzProtoDecode", c, fl)
		}
		if fl, st := checkCase(c); fl != nil {
			report(c, fl, st)
			return
		}
		for _, d := range fuzzInsertions(&td, data) {
			d := d
			ci := Case{Type: td, Only: &d}
			if fl, st := checkCase(ci); fl != nil {
				report(ci, fl, st)
				return
			}
		}
	})
}
