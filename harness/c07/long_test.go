package c07

import (
	"fmt"
	"reflect"
	"runtime"
	"testing"

	"github.com/segmentio/encoding/proto"
	"google.golang.org/protobuf/encoding/protowire"
	"pgregory.net/rapid"

	"verif/harness/evid"
	"verif/harness/pgen"
)

// LongSpec describes one long well-formed input: N occurrences of field 1 of
// the named shape, element contents derived from Seed. The input is rebuilt
// from the spec, so replay files stay small.
type LongSpec struct {
	Shape string `json:"shape"`
	N     int    `json:"n"`
	Seed  uint64 `json:"seed"`
}

// Allocation bound for long inputs: linear in the input length. On the
// unchanged library the measured factors (TotalAlloc delta of one Unmarshal /
// len(input)) are 1x..10x for these shapes (doubling growth of the repeated
// field, one small allocation per string / bytes element, map buckets); the
// bound leaves a generous margin and still separates linear from quadratic
// behaviour from 10^5 elements on.
const (
	longFactor    = 64
	longAllowance = 4 << 20
)

type longShape struct {
	name string
	typ  pgen.TypeDesc
	elem func(b []byte, i int, r *prng) []byte // appends one occurrence of field 1
}

func lsl(t pgen.TypeDesc) pgen.TypeDesc { return pgen.TypeDesc{K: pgen.KSlice, Elem: &t} }
func lst(ts ...pgen.TypeDesc) pgen.TypeDesc {
	d := pgen.TypeDesc{K: pgen.KStruct}
	for i, t := range ts {
		d.Fields = append(d.Fields, pgen.FieldDesc{Num: i + 1, T: t})
	}
	return d
}

var longShapes = func() []longShape {
	k := func(s string) pgen.TypeDesc { return pgen.TypeDesc{K: s} }
	i32, str := k(pgen.KInt32), k(pgen.KString)
	small := lst(k(pgen.KInt32), k(pgen.KBool))
	return []longShape{
		// the library has no packed encoding: repeated scalars are one tagged value per element
		{"rep-varint", lst(lsl(k(pgen.KInt32))), func(b []byte, i int, r *prng) []byte {
			return protowire.AppendVarint(append(b, 0x08), uint64(r.next()>>uint(40+r.intn(24))))
		}},
		{"rep-uint64", lst(lsl(k(pgen.KUint64))), func(b []byte, i int, r *prng) []byte {
			return protowire.AppendVarint(append(b, 0x08), r.next()>>uint(r.intn(64)))
		}},
		{"rep-bool", lst(lsl(k(pgen.KBool))), func(b []byte, i int, r *prng) []byte { return append(b, 0x08, byte(r.intn(2))) }},
		{"rep-double", lst(lsl(k(pgen.KFloat64))), func(b []byte, i int, r *prng) []byte {
			return protowire.AppendFixed64(append(b, 0x09), r.next())
		}},
		{"rep-string", lst(lsl(str)), func(b []byte, i int, r *prng) []byte {
			return protowire.AppendBytes(append(b, 0x0a), []byte("abcdefghijklmnop")[:r.intn(12)])
		}},
		{"rep-bytes", lst(lsl(k(pgen.KBytes))), func(b []byte, i int, r *prng) []byte {
			return protowire.AppendBytes(append(b, 0x0a), []byte("0123456789abcdef")[:1+r.intn(15)])
		}},
		{"rep-message", lst(lsl(small)), func(b []byte, i int, r *prng) []byte {
			m := protowire.AppendVarint([]byte{0x08}, uint64(r.intn(1<<20)))
			if r.intn(2) == 0 {
				m = append(m, 0x10, 0x01)
			}
			return protowire.AppendBytes(append(b, 0x0a), m)
		}},
		{"rep-ptr-message", lst(lsl(pgen.TypeDesc{K: pgen.KPtr, Elem: &small})), func(b []byte, i int, r *prng) []byte {
			return protowire.AppendBytes(append(b, 0x0a), protowire.AppendVarint([]byte{0x08}, uint64(r.intn(1<<20))))
		}},
		{"map-int-int", lst(pgen.TypeDesc{K: pgen.KMap, Key: &i32, Elem: &i32}), func(b []byte, i int, r *prng) []byte {
			e := protowire.AppendVarint([]byte{0x08}, uint64(i)) // distinct keys
			e = protowire.AppendVarint(append(e, 0x10), uint64(r.intn(1<<14)))
			return protowire.AppendBytes(append(b, 0x0a), e)
		}},
		{"map-string-string", lst(pgen.TypeDesc{K: pgen.KMap, Key: &str, Elem: &str}), func(b []byte, i int, r *prng) []byte {
			e := protowire.AppendString([]byte{0x0a}, fmt.Sprintf("k%d", i))
			e = protowire.AppendString(append(e, 0x12), "value"[:r.intn(6)])
			return protowire.AppendBytes(append(b, 0x0a), e)
		}},
	}
}()

func findLongShape(name string) *longShape {
	for i := range longShapes {
		if longShapes[i].name == name {
			return &longShapes[i]
		}
	}
	return nil
}

func (l *LongSpec) build() (*longShape, []byte) {
	sh := findLongShape(l.Shape)
	if sh == nil || l.N < 0 || l.N > 1<<20 {
		return nil, nil
	}
	r := &prng{s: l.Seed}
	b := make([]byte, 0, l.N*4)
	for i := 0; i < l.N; i++ {
		b = sh.elem(b, i, r)
	}
	return sh, b
}

// checkLong decodes one long well-formed input and bounds the memory the call
// allocates by a linear function of the input length.
func checkLong(l *LongSpec) (f *evid.Failure, factor float64, inputLen int) {
	sh, input := l.build()
	if sh == nil {
		return fail("harness", "harness: long input spec", fmt.Sprintf("%+v", *l), "a known shape"), 0, 0
	}
	rt := pgen.GoType(&sh.typ)
	target := reflect.New(rt)
	where := fmt.Sprintf(" [long %s n=%d seed=%d, %d bytes]", l.Shape, l.N, l.Seed, len(input))
	var uerr error
	var ms0, ms1 runtime.MemStats
	runtime.GC()
	runtime.ReadMemStats(&ms0)
	panicked, msg, stack := pgen.Call(func() { uerr = proto.Unmarshal(input, target.Interface()) })
	runtime.ReadMemStats(&ms1)
	if panicked {
		return fail("panic", "Unmarshal returns (error or value)"+where, "panic: "+msg+" @ "+stack, "no panic"), 0, len(input)
	}
	_ = uerr // error or value: both allowed by the statement
	delta := ms1.TotalAlloc - ms0.TotalAlloc
	if len(input) > 0 {
		factor = float64(delta) / float64(len(input))
	}
	if limit := uint64(longFactor*len(input) + longAllowance); delta > limit {
		return fail("alloc-superlinear", "memory allocated stays within a constant factor of the input length"+where,
			fmt.Sprintf("%d bytes allocated = %.0f x input", delta, factor), fmt.Sprintf("<= %d x input + %d = %d", longFactor, longAllowance, limit)), factor, len(input)
	}
	runtime.KeepAlive(target)
	return nil, factor, len(input)
}

// TestLongInputs: long well-formed repeated fields and maps (10^4, 10^5 and
// 3x10^5 elements) decoded into the matching targets.
func TestLongInputs(t *testing.T) {
	sizes := []int{10000, 100000, 300000}
	evid.Check(t, "LongInputs", 3, func(rt *rapid.T) {
		l := &LongSpec{
			Shape: longShapes[pgen.Uniform(rt, "shape", len(longShapes))].name,
			N:     sizes[pgen.Uniform(rt, "size", len(sizes))] + rapid.IntRange(0, 999).Draw(rt, "extra"),
			Seed:  rapid.Uint64().Draw(rt, "seed"),
		}
		c := Case{Long: l}
		evid.Journal("LongInputs", c)
		f, factor, n := checkLong(l)
		evid.JournalClear()
		evid.Eval(1)
		evid.Label("long." + l.Shape)
		switch {
		case l.N < 100000:
			evid.Label("long.n=10^4")
		case l.N < 300000:
			evid.Label("long.n=10^5")
		default:
			evid.Label("long.n=3x10^5")
		}
		switch {
		case factor < 8:
			evid.Label("long.alloc-factor.<8x")
		case factor < 16:
			evid.Label("long.alloc-factor.8-16x")
		case factor < 32:
			evid.Label("long.alloc-factor.16-32x")
		default:
			evid.Label("long.alloc-factor.>=32x")
		}
		evid.NonTrivial(evid.HashS("long", l.Shape, fmt.Sprint(l.N), fmt.Sprint(l.Seed)))
		_ = n
		if f != nil {
			evid.Violation(rt, "LongInputs", c, f)
		}
	})
}
