package c16

import (
	"encoding/json"
	"fmt"
	"testing"

	"github.com/segmentio/encoding/proto"
	"pgregory.net/rapid"

	"verif/harness/pgen"
)

func TestDbgUnknown(t *testing.T) {
	o := genOpts()
	found := 0
	rapid.Check(t, func(rt *rapid.T) {
		d := pgen.GenType(rt, o)
		r := pgen.GenValue(rt, &d, o)
		sd := pgen.StructDesc(&d)
		if sd == nil || found > 2 {
			return
		}
		b, err := proto.Marshal(pgen.Build(&d, &r).Interface())
		if err != nil {
			return
		}
		nodes, err := pgen.ParseMessage(sd, b, 0)
		if err != nil {
			return
		}
		pgen.Visit(nodes, func(n *pgen.Node, depth int) {
			if n.Label == "unknown" && found <= 2 {
				found++
				tj, _ := json.Marshal(d)
				fmt.Printf("UNKNOWN num=%d wire=%d depth=%d bytes=%x\n type=%s\n", n.Num, n.Wire, depth, b, tj)
			}
		})
	})
}
