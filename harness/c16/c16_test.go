// C16 — proto.MarshalTo honours the caller's buffer for every size.
// For each generated value EVERY destination length 0..Size(v)+3 is tried
// (fault enumeration over all cut points), the destination lying inside a
// canary arena. Oracle: DESIGN §4 C16.
package c16

import (
	"bytes"
	"encoding/binary"
	"encoding/json"
	"errors"
	"fmt"
	"io"
	"os"
	"reflect"
	"sort"
	"strings"
	"testing"

	"github.com/segmentio/encoding/proto"
	"pgregory.net/rapid"

	"verif/harness/evid"
	"verif/harness/pgen"
)

func TestMain(m *testing.M) { evid.Main(m, "C16") }

// class specific to this property: a top-level Message implementer makes
// MarshalTo return len(b) instead of Size(v).
const classTopMsgCount = "toplevel-message-returns-len-b"

// Case is the replayable unit: one value, all destination lengths (or just
// Only when set, which is how a failing length is saved).
type Case struct {
	Type  pgen.TypeDesc `json:"type"`
	Value pgen.Recipe   `json:"value"`
	ByPtr bool          `json:"by_ptr,omitempty"`
	CapEq bool          `json:"cap_eq,omitempty"` // destination has cap == len (else it extends to the end of the arena)
	Only  *int          `json:"only,omitempty"`
}

const (
	pre     = 24
	post    = 40
	maxSize = 4 << 20 // larger values are skipped
)

func fail(class, oracle, observed, expected string) *evid.Failure {
	return &evid.Failure{Class: class, Oracle: oracle, Observed: observed, Expected: expected}
}

// result of one value
type stats struct {
	evals    int
	labels   map[string]int
	nontriv  []int // non-trivial lengths
	excluded map[string]int
	skipped  string
	failLen  int // destination length in flight when the failure was found
	failN    int // count returned by that call
	size     int
}

func canary(i int) byte { return byte(0xA5 ^ (i * 7)) }

// canon returns the encoding with every run of map entries of one field
// sorted (recursively), so that two encodings of the same value that differ
// only in map iteration order compare equal.
func canon(src []byte, nodes []pgen.Node) []byte {
	var out []byte
	for i := 0; i < len(nodes); {
		nd := &nodes[i]
		if nd.Label != "mapentry" {
			out = append(out, canonNode(src, nd)...)
			i++
			continue
		}
		j := i
		var run [][]byte
		for j < len(nodes) && nodes[j].Label == "mapentry" && nodes[j].Num == nd.Num {
			run = append(run, canonNode(src, &nodes[j]))
			j++
		}
		sort.Slice(run, func(a, b int) bool { return bytes.Compare(run[a], run[b]) < 0 })
		for _, r := range run {
			out = append(out, r...)
		}
		i = j
	}
	return out
}

func canonNode(src []byte, nd *pgen.Node) []byte {
	if !nd.IsMsg {
		return src[nd.Start:nd.End]
	}
	payload := canon(src, nd.Kids)
	out := append([]byte(nil), src[nd.Start:nd.ValStart]...)
	out = binary.AppendUvarint(out, uint64(len(payload)))
	return append(out, payload...)
}

// checkCase runs the oracle over all destination lengths of one value.
// known(class) tells which listed classes are active (avoided/tolerated).
func checkCase(c Case, known func(string) bool) (f *evid.Failure, st stats) {
	st.labels = map[string]int{}
	st.excluded = map[string]int{}
	var rt reflect.Type
	var want reflect.Value
	if p, msg, _ := pgen.Call(func() {
		rt = pgen.GoType(&c.Type)
		want = pgen.BuildT(&c.Type, rt, &c.Value)
		_ = want
	}); p {
		return fail("harness", "harness: build value", msg, "no panic"), st
	}
	arg := want.Interface()
	if c.ByPtr {
		arg = want.Addr().Interface()
	}
	hasMap := pgen.HasKind(&c.Type, pgen.KMap)
	topMsg := pgen.StripPtr(&c.Type).Impl() == "message"

	var size int
	var ref []byte
	var err error
	if p, msg, stack := pgen.Call(func() { size = proto.Size(arg) }); p {
		return fail("panic", "Size returns", "panic: "+msg+" @ "+stack, "no panic"), st
	}
	st.size = size
	if size > maxSize {
		st.skipped = "oversize"
		return nil, st
	}
	if p, msg, stack := pgen.Call(func() { ref, err = proto.Marshal(arg) }); p {
		return fail("panic", "Marshal returns", "panic: "+msg+" @ "+stack, "no panic"), st
	}
	if err != nil {
		// Marshal itself failing is C03's business; without reference bytes only
		// the clauses that do not need them are checked
		ref = nil
	}
	sd := pgen.StructDesc(&c.Type)
	var nodes []pgen.Node
	parsed := false
	if ref != nil && sd != nil {
		if ns, e := pgen.ParseMessage(sd, ref, 0); e == nil {
			nodes, parsed = ns, true
		}
	}
	var refCanon []byte
	if hasMap && parsed {
		refCanon = canon(ref, nodes)
	}

	lo, hi := 0, size+3
	if c.Only != nil {
		lo, hi = *c.Only, *c.Only
		if lo < 0 || hi > size+64 {
			return fail("harness", "harness: replay length in range", fmt.Sprint(lo), fmt.Sprintf("0..%d", size+64)), st
		}
	}
	// destination lengths: every one up to enumLimit; for larger encodings
	// (payloads on the 2^14 / 2^21 length boundaries) a sample - the first and last 96,
	// three around every field boundary and 64 spread over the rest
	// (quick: Size <= 2000, as before the boundary-length payloads existed;
	// thorough: Size <= 20000, which includes the 2^14 boundary)
	enumLimit := 2000
	if evid.Thorough() {
		enumLimit = 20000
	}
	var lengths []int
	if c.Only != nil || size <= enumLimit {
		for l := lo; l <= hi; l++ {
			lengths = append(lengths, l)
		}
	} else {
		st.labels["lengths.sampled"]++
		seen := map[int]bool{}
		add := func(l int) {
			if l >= 0 && l <= size+3 && !seen[l] {
				seen[l] = true
				lengths = append(lengths, l)
			}
		}
		for l := 0; l < 96; l++ {
			add(l)
			add(size + 3 - l)
		}
		pgen.Visit(nodes, func(n *pgen.Node, _ int) {
			if len(lengths) < 2000 {
				for d := -1; d <= 1; d++ {
					add(n.Start + d)
					add(n.PayStart + d)
				}
			}
		})
		for k := 1; k <= 64; k++ {
			add(size / 65 * k)
		}
		sort.Ints(lengths)
	}
	arena := make([]byte, pre+max(size+3, hi)+post)
	pattern := make([]byte, len(arena))
	for i := range pattern {
		pattern[i] = canary(i)
	}
	for _, l := range lengths {
		if topMsg && l > size && known(classTopMsgCount) {
			st.excluded[classTopMsgCount]++
			continue
		}
		copy(arena, pattern)
		dst := arena[pre : pre+l]
		if c.CapEq {
			dst = arena[pre : pre+l : pre+l]
		}
		var n int
		var merr error
		st.evals++
		st.failLen = l
		panicked, msg, stack := pgen.Call(func() { n, merr = proto.MarshalTo(dst, arg) })
		st.failN = n
		// label: where does the cut land
		if l < size {
			lab, boundary := "top-level-value", l == 0
			if parsed {
				lab, boundary = pgen.LabelAt(nodes, l)
				if lab == "" {
					lab = "?"
				}
				// collapse nesting paths to the innermost codec
				if i := strings.LastIndex(lab, "/"); i >= 0 {
					lab = lab[i+1:]
				}
			} else if sd == nil {
				lab = "top." + topKind(&c.Type)
			}
			st.labels["cut."+lab]++
			if !boundary {
				st.nontriv = append(st.nontriv, l)
			}
		} else {
			st.labels[fmt.Sprintf("fit.size+%d", l-size)]++
		}
		where := fmt.Sprintf(" [len(dst)=%d Size=%d]", l, size)
		if panicked {
			return fail("panic", "MarshalTo returns"+where, "panic: "+msg+" @ "+stack, "no panic"), st
		}
		for i := 0; i < pre; i++ {
			if arena[i] != pattern[i] {
				return fail("canary", "no write before the destination"+where, fmt.Sprintf("byte at dst%+d changed", i-pre), "untouched"), st
			}
		}
		intact := bytes.Equal(arena[pre+l:], pattern[pre+l:])
		for i := pre + l; i < len(arena) && !intact; i++ {
			if arena[i] != pattern[i] {
				return fail("canary", "no write at or beyond len(b)"+where, fmt.Sprintf("byte at dst[%d] changed to %#02x", i-pre, arena[i]), "untouched"), st
			}
		}
		if l < size {
			if merr == nil {
				return fail("short-not-reported", "short destination yields an error"+where, fmt.Sprintf("n=%d err=nil", n), "io.ErrShortBuffer"), st
			}
			if !errors.Is(merr, io.ErrShortBuffer) {
				return fail("short-wrong-error", "short destination yields io.ErrShortBuffer"+where, merr.Error(), "errors.Is(err, io.ErrShortBuffer)"), st
			}
			continue
		}
		if merr != nil {
			return fail("unexpected-error", "len(b) >= Size(v) succeeds"+where, merr.Error(), "nil error"), st
		}
		if n != size {
			return fail("count-mismatch", "returned count == Size(v)"+where, fmt.Sprint(n), fmt.Sprint(size)), st
		}
		if ref == nil {
			continue
		}
		got := dst[:n]
		if bytes.Equal(got, ref) {
			continue
		}
		if !hasMap {
			return fail("bytes-mismatch", "b[:n] == Marshal(v) for a value without maps"+where, evid.Hex(trunc(got)), evid.Hex(trunc(ref))), st
		}
		// value with maps: equal up to the order of map entries, else it must
		// at least decode to v
		if parsed {
			if gn, e := pgen.ParseMessage(sd, got, 0); e == nil && bytes.Equal(canon(got, gn), refCanon) {
				continue
			}
		}
		// fallback: both encodings must decode to the same value. The decoder's
		// own defects are C03's business, so the reference is what the decoder
		// makes of Marshal(v), not v itself; if it cannot decode Marshal(v) the
		// clause is not evaluated.
		refVal := reflect.New(rt)
		var rerr error
		if p, _, _ := pgen.Call(func() { rerr = proto.Unmarshal(ref, refVal.Interface()) }); p || rerr != nil {
			st.labels["fallback.reference-undecodable"]++
			continue
		}
		fresh := reflect.New(rt)
		var uerr error
		if p, msg, stack := pgen.Call(func() { uerr = proto.Unmarshal(got, fresh.Interface()) }); p {
			return fail("decode-panic", "MarshalTo output decodes"+where, "panic: "+msg+" @ "+stack, "no panic"), st
		}
		if uerr != nil {
			return fail("decode-error", "MarshalTo output decodes"+where, uerr.Error()+" bytes="+evid.Hex(trunc(got)), "nil error"), st
		}
		st.labels["fallback.decode-compare"]++
		if r := pgen.Compare(refVal.Elem(), fresh.Elem(), pgen.Tol{}, false); r.Diff != "" {
			return fail("decode-mismatch", "MarshalTo output of a value with maps decodes like Marshal(v)"+where, r.Diff, "equal"), st
		}
	}
	return nil, st
}

func trunc(b []byte) []byte {
	if len(b) > 120 {
		return b[:120]
	}
	return b
}

func topKind(d *pgen.TypeDesc) string {
	for d.K == pgen.KPtr {
		d = d.Elem
	}
	if d.Impl() != "" {
		return d.Impl()
	}
	return d.K
}

// ---------------------------------------------------------------- known classes

// preClass: trigger decidable before execution, failure then certain.
func preClass(c Case) string {
	if pgen.HasKind(&c.Type, pgen.KMap) {
		hit := false
		pgen.Call(func() { hit = pgen.MapEntryLenHit(pgen.Build(&c.Type, &c.Value), proto.Size) })
		if hit {
			return pgen.ClassMapEntryLen
		}
	}
	return ""
}

func knownClass(c Case, f *evid.Failure, st stats) string {
	switch {
	case f.Class == "count-mismatch" && pgen.StripPtr(&c.Type).Impl() == "message" && st.failLen > st.size && st.failN == st.failLen:
		// the count returned is len(b): only visible for len(b) > Size
		return classTopMsgCount
	case f.Class == "panic" && strings.Contains(f.Observed, "interface conversion") &&
		(pgen.HasPtrToImpl(&c.Type) || c.ByPtr && c.Type.Impl() != ""):
		return pgen.ClassPtrImpl
	case (f.Class == "unexpected-error" || f.Class == "short-not-reported" || f.Class == "count-mismatch") && preClass(c) == pgen.ClassMapEntryLen:
		return pgen.ClassMapEntryLen
	}
	return ""
}

type fataler interface {
	Fatalf(format string, args ...any)
	Helper()
}

func run(t fataler, test string, c Case, account bool) {
	t.Helper()
	if cls := preClass(c); cls != "" && evid.KnownActive(cls) {
		evid.Excluded(cls)
		return
	}
	evid.Journal(test, c)
	f, st := checkCase(c, evid.KnownActive)
	evid.JournalClear()
	evid.Eval(st.evals)
	if account {
		for k, n := range st.labels {
			evid.LabelN(k, n)
		}
		if st.skipped != "" {
			evid.Label("skipped." + st.skipped)
		}
		tj, _ := json.Marshal(&c.Type)
		vj, _ := json.Marshal(&c.Value)
		flags := []byte{0, 0}
		if c.ByPtr {
			flags[0] = 1
		}
		if c.CapEq {
			flags[1] = 1
		}
		h0 := evid.Hash(tj, vj, flags)
		var hb [16]byte
		binary.LittleEndian.PutUint64(hb[:], h0)
		for _, l := range st.nontriv {
			binary.LittleEndian.PutUint64(hb[8:], uint64(l))
			evid.NonTrivial(evid.Hash(hb[:]))
		}
	}
	for k, n := range st.excluded {
		for i := 0; i < n; i++ {
			evid.Excluded(k)
		}
	}
	if f != nil {
		if cls := knownClass(c, f, st); cls != "" && evid.KnownActive(cls) {
			evid.Excluded(cls)
			return
		}
		c, f = minimizeCase(c, f)
		evid.Violation(t, test, c, f)
	}
}

func minimizeCase(c Case, f *evid.Failure) (Case, *evid.Failure) {
	best := f
	bestLen := -1
	eval := func(c2 Case) (*evid.Failure, int) {
		if preClass(c2) != "" {
			return nil, 0
		}
		f2, st := checkCase(c2, evid.KnownActive)
		if f2 == nil || f2.Class != f.Class {
			return nil, 0
		}
		if cls := knownClass(c2, f2, st); cls != "" && evid.KnownActive(cls) {
			return nil, 0
		}
		return f2, st.failLen
	}
	c.Only = nil
	d, r := pgen.Minimize(c.Type, c.Value, 1500, func(d *pgen.TypeDesc, r *pgen.Recipe) bool {
		f2, l := eval(Case{Type: *d, Value: *r, ByPtr: c.ByPtr, CapEq: c.CapEq})
		if f2 != nil {
			best, bestLen = f2, l
		}
		return f2 != nil
	})
	out := Case{Type: d, Value: r, ByPtr: c.ByPtr, CapEq: c.CapEq}
	if f2, l := eval(out); f2 != nil {
		best, bestLen = f2, l
	}
	if bestLen >= 0 {
		out.Only = &bestLen
	}
	return out, best
}

// ---------------------------------------------------------------- generation

func genOpts() *pgen.Opts {
	o := pgen.OptsFor(evid.KnownActive, evid.Excluded)
	o.Small = true
	o.Huge = evid.Thorough()
	o.MaxDepth = 2
	if o.MaxRep == 0 || o.MaxRep > 12 {
		o.MaxRep = 12 // keeps encodings within a few hundred bytes; not a known-class cap
		o.ClassRep = ""
	}
	return o
}

const valuesPerType = 8

func TestMarshalTo(t *testing.T) {
	o := genOpts()
	evid.Check(t, "MarshalTo", 1000, func(rt *rapid.T) {
		c := Case{Type: pgen.GenType(rt, o)}
		topImpl := c.Type.Impl() != ""
		for i := 0; i < valuesPerType; i++ {
			c.Value = pgen.GenValue(rt, &c.Type, o)
			c.ByPtr = pgen.Uniform(rt, "byptr", 4) == 0
			c.CapEq = pgen.Uniform(rt, "capeq", 3) == 0
			if c.ByPtr && topImpl && evid.KnownActive(pgen.ClassPtrImpl) {
				evid.Excluded(pgen.ClassPtrImpl)
				c.ByPtr = false
			}
			evid.Label("values")
			if l := pgen.TopShapeLabel(&c.Type); l != "" {
				evid.Label(l)
			}
			if c.CapEq {
				evid.Label("dst.cap==len")
			} else {
				evid.Label("dst.cap>len")
			}
			if evid.SampleWanted() {
				evid.Sample(c)
			} else {
				evid.Sample(nil)
			}
			run(rt, "MarshalTo", c, true)
		}
	})
}

func TestReplay(t *testing.T) {
	files := evid.SavedReplays()
	if p := evid.ReplayFile(); p != "" {
		files = []string{p}
	}
	for _, p := range files {
		_, raw, err := evid.LoadReplayCase(p)
		if err != nil {
			t.Fatalf("replay %s: %v", p, err)
		}
		var c Case
		if err := json.Unmarshal(raw, &c); err != nil || c.Type.K == "" {
			fmt.Fprintf(os.Stderr, "replay %s: not a C16 case, skipped\n", p)
			continue
		}
		run(t, "Replay", c, false)
	}
}

// ---------------------------------------------------------------- witnesses

func st1(fields ...pgen.FieldDesc) pgen.TypeDesc {
	for i := range fields {
		if fields[i].Num == 0 {
			fields[i].Num = i + 1
		}
	}
	return pgen.TypeDesc{K: pgen.KStruct, Fields: fields}
}

func witnessCases() map[string]Case {
	ten := 10
	nm := func(n string) pgen.TypeDesc { return pgen.TypeDesc{K: pgen.KNamed, Name: n} }
	ks, vs := pgen.TypeDesc{K: pgen.KString}, pgen.TypeDesc{K: pgen.KString}
	msg := nm("Msg")
	return map[string]Case{
		// MarshalTo(make([]byte, 10), RawMessage{8, 1}) returns 10, Size is 2
		classTopMsgCount: {Type: nm("RawMessage"), Value: pgen.Recipe{B: []byte{8, 1}}, Only: &ten},
		// struct{M map[string]string}{62-byte key: 62-byte value}: Size = 130, MarshalTo into 130 bytes fails
		pgen.ClassMapEntryLen: {Type: st1(pgen.FieldDesc{T: pgen.TypeDesc{K: pgen.KMap, Key: &ks, Elem: &vs}}),
			Value: pgen.Recipe{E: []pgen.Recipe{{K: []pgen.Recipe{{B: bytes.Repeat([]byte("k"), 62)}}, E: []pgen.Recipe{{B: bytes.Repeat([]byte("v"), 62)}}}}}},
		// struct{A int; M *Msg}{1, &Msg{X: 5}}: MarshalTo panics
		pgen.ClassPtrImpl: {Type: st1(pgen.FieldDesc{T: pgen.TypeDesc{K: pgen.KInt}}, pgen.FieldDesc{T: pgen.TypeDesc{K: pgen.KPtr, Elem: &msg}}),
			Value: pgen.Recipe{E: []pgen.Recipe{{U: 1}, {E: []pgen.Recipe{{E: []pgen.Recipe{{U: 5}, {}}}}}}}},
	}
}

func TestKnownFindings(t *testing.T) {
	var classes []evid.Class
	for name, c := range witnessCases() {
		c := c
		classes = append(classes, evid.Class{Name: name, Witness: func() *evid.Failure {
			f, _ := checkCase(c, func(string) bool { return false })
			return f
		}})
	}
	evid.RunWitnesses(t, classes)
}
