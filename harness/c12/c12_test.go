// C12 — proto bytes are standard protobuf wire format, both ways.
//
// Differential check against google.golang.org/protobuf v1.26.0 (dynamicpb on
// a descriptor derived from the same schema as the Go struct type).
//
//	encode direction: reference.Unmarshal(seg.Marshal(v)) succeeds, leaves no
//	                  unknown fields and equals v field by field;
//	decode direction: seg.Unmarshal of reference.Marshal(dyn(v)) and of legal
//	                  re-encodings of it (field permutation, non-minimal
//	                  varints, an earlier overridden occurrence of a scalar
//	                  field, an embedded message split into several
//	                  occurrences) succeeds and equals v (nil == empty).
package c12

import (
	"encoding/json"
	"fmt"
	"os"
	"reflect"
	"testing"

	segproto "github.com/segmentio/encoding/proto"
	gproto "google.golang.org/protobuf/proto"
	"google.golang.org/protobuf/types/dynamicpb"
	"pgregory.net/rapid"

	"verif/harness/evid"
	ps "verif/harness/pschema"
)

func TestMain(m *testing.M) { evid.Main(m, "C12") }

// ------------------------------------------------------------------ case

// Item is one value of the case's message type with the re-encodings of its
// reference encoding that the decode direction feeds to seg.Unmarshal.
type Item struct {
	V     ps.Val   `json:"v"`
	ByPtr bool     `json:"by_ptr,omitempty"` // Marshal(&v) instead of Marshal(v)
	Wires [][]byte `json:"wires,omitempty"`  // Wires[0] is the reference's own deterministic encoding
}

// Case is the replayable unit: one message schema and a few values.
type Case struct {
	Schema ps.Schema `json:"schema"`
	Items  []Item    `json:"items,omitempty"`
	Fuzz   *FuzzIn   `json:"fuzz,omitempty"` // native fuzzing (FuzzWireDiff): raw wire input instead of values
}

// fail is a Failure plus the structured detail known-class predicates need.
type fail struct {
	evid.Failure
	Dir   string // "encode" | "decode" | "harness"
	Item  int
	Wire  int
	Diffs []ps.Diff
	Bytes []byte // the bytes under test
}

func recovered(dir string, item, wire int, r any, data []byte) *fail {
	return &fail{Failure: evid.Failure{Oracle: "no panic (" + dir + " direction)", Observed: fmt.Sprintf("panic: %v", r), Expected: "no panic", Class: "panic"},
		Dir: dir, Item: item, Wire: wire, Bytes: data}
}

func segMarshal(arg any) (data []byte, err error, pan any) {
	defer func() {
		if r := recover(); r != nil {
			pan = r
		}
	}()
	data, err = segproto.Marshal(arg)
	return
}

// refUnmarshal is the reference decoder; a panic inside protobuf-go v1.26.0
// (it has one for some malformed map entries: "cannot convert nil to map
// key") counts as a rejection.
func refUnmarshal(data []byte, dyn *dynamicpb.Message) (err error) {
	defer func() {
		if r := recover(); r != nil {
			err = fmt.Errorf("reference panicked: %v", r)
		}
	}()
	return gproto.Unmarshal(data, dyn)
}

func segUnmarshal(data []byte, ptr any) (err error, pan any) {
	defer func() {
		if r := recover(); r != nil {
			pan = r
		}
	}()
	err = segproto.Unmarshal(data, ptr)
	return
}

// checkEncode: the reference decodes seg.Marshal(v) to the same field values.
func checkEncode(b *ps.Built, it *Item, idx int) *fail {
	gv := b.GoValue(0, &it.V)
	var arg any
	if it.ByPtr {
		arg = gv.Addr().Interface()
	} else {
		arg = gv.Interface()
	}
	return checkEncodeOf(b, arg, &it.V, idx)
}

// checkEncodeOf: seg.Marshal(arg), where arg holds the field values v, is
// decoded by the reference to v.
func checkEncodeOf(b *ps.Built, arg any, v *ps.Val, idx int) *fail {
	data, err, pan := segMarshal(arg)
	if pan != nil {
		return recovered("encode", idx, -1, pan, nil)
	}
	if err != nil {
		return &fail{Failure: evid.Failure{Oracle: "seg.Marshal succeeds on a supported type", Observed: "error: " + err.Error(), Expected: "nil error", Class: "marshal-error"}, Dir: "encode", Item: idx, Wire: -1}
	}
	dyn := dynamicpb.NewMessage(b.Desc[0])
	if err := refUnmarshal(data, dyn); err != nil {
		return &fail{Failure: evid.Failure{Oracle: "reference decodes seg.Marshal(v)", Observed: fmt.Sprintf("reference error %v on bytes %s", err, evid.Hex(clip(data))), Expected: "no error", Class: "ref-rejects"},
			Dir: "encode", Item: idx, Wire: -1, Bytes: data}
	}
	if p := b.UnknownPath(0, dyn); p != "" {
		return &fail{Failure: evid.Failure{Oracle: "reference finds no unknown fields in seg.Marshal(v)", Observed: "unknown fields in " + p + ", bytes " + evid.Hex(clip(data)), Expected: "none", Class: "unknown-fields"},
			Dir: "encode", Item: idx, Wire: -1, Bytes: data}
	}
	got := b.FromDyn(0, dyn)
	if ds := b.Compare(0, v, &got); len(ds) > 0 {
		return &fail{Failure: evid.Failure{Oracle: "reference decodes seg.Marshal(v) to the field values of v (go value vs reference)", Observed: ps.DiffsString(ds) + " | bytes " + evid.Hex(clip(data)), Expected: "equal field by field", Class: "encode-mismatch"},
			Dir: "encode", Item: idx, Wire: -1, Diffs: ds, Bytes: data}
	}
	return nil
}

func clip(b []byte) []byte {
	if len(b) > 96 {
		return b[:96]
	}
	return b
}

// legal reports whether the reference itself decodes wire to v (the guard of
// the decode direction: only such re-encodings are in the domain).
func legal(b *ps.Built, v *ps.Val, wire []byte) bool {
	dyn := dynamicpb.NewMessage(b.Desc[0])
	if err := refUnmarshal(wire, dyn); err != nil {
		return false
	}
	if b.UnknownPath(0, dyn) != "" {
		return false
	}
	got := b.FromDyn(0, dyn)
	return len(b.Compare(0, v, &got)) == 0
}

// checkDecode: seg.Unmarshal(wire) succeeds and equals v.
func checkDecode(b *ps.Built, it *Item, idx, w int) *fail {
	wire := it.Wires[w]
	fresh := reflect.New(b.Go[0])
	err, pan := segUnmarshal(wire, fresh.Interface())
	if pan != nil {
		return recovered("decode", idx, w, pan, wire)
	}
	if err != nil {
		return &fail{Failure: evid.Failure{Oracle: "seg.Unmarshal accepts a legal encoding", Observed: fmt.Sprintf("error %v on bytes %s", err, evid.Hex(clip(wire))), Expected: "nil error", Class: "unmarshal-error"},
			Dir: "decode", Item: idx, Wire: w, Bytes: wire}
	}
	got := b.FromGo(0, fresh.Elem())
	if ds := b.Compare(0, &it.V, &got); len(ds) > 0 {
		return &fail{Failure: evid.Failure{Oracle: "seg.Unmarshal of a legal encoding yields v (expected vs decoded)", Observed: ps.DiffsString(ds) + " | bytes " + evid.Hex(clip(wire)), Expected: "equal field by field (nil == empty)", Class: "decode-mismatch"},
			Dir: "decode", Item: idx, Wire: w, Diffs: ds, Bytes: wire}
	}
	return nil
}

// checkAll runs the oracle over the whole case and returns every failure
// (one per item/wire at most); illegal wires (the reference does not decode
// them to v) are skipped and counted in *skipped.
func checkAll(c *Case, skipped *int) (fails []*fail) {
	b, err := ps.Build(&c.Schema)
	if err != nil {
		return []*fail{{Failure: evid.Failure{Oracle: "harness: schema builds", Observed: err.Error(), Class: "harness"}, Dir: "harness"}}
	}
	if err := b.CheckTypeOf(); err != nil {
		return []*fail{{Failure: evid.Failure{Oracle: "proto.TypeOf documents the Go kind -> protobuf type mapping the harness derived the descriptor from", Observed: err.Error(), Expected: "same number, name, repeated flag and kind for every field", Class: "typeof-mismatch"}, Dir: "harness"}}
	}
	for i := range c.Items {
		it := &c.Items[i]
		if f := checkEncode(b, it, i); f != nil {
			fails = append(fails, f)
		}
		if len(it.Wires) > 0 && evid.KnownActive(clsGrow) && maxRepLen(&c.Schema, &c.Schema.Msgs[0], &it.V) > 10 {
			continue // known class: the decoder crashes (possibly fatally) on > 10 repeated elements
		}
		for w := range it.Wires {
			if !legal(b, &it.V, it.Wires[w]) {
				if skipped != nil {
					*skipped++
				}
				continue
			}
			if f := checkDecode(b, it, i, w); f != nil {
				fails = append(fails, f)
			}
		}
	}
	return fails
}

// checkCase is the oracle as a function of the case alone: first failure that
// no active known class explains.
func checkCase(c Case) *evid.Failure {
	if c.Fuzz != nil {
		f, _ := checkFuzz(&c)
		return f
	}
	for _, f := range checkAll(&c, nil) {
		if f.Dir == "harness" {
			return &f.Failure
		}
		if cls := knownClass(&c, f); cls != "" && evid.KnownActive(cls) {
			continue
		}
		return &f.Failure
	}
	return nil
}

// ------------------------------------------------------------------ generation

// feat summarises a value for the label histogram.
type feat struct {
	implPM, implCM, implPMPM, implCMPM, implSingular, implPtr, implRep, implMap                                   bool
	neg32, neg64, sint, fixed, float, mapNonEmpty, mapEmpty, mapMsg, depth, longRep, nilPtr, ptrZero, rep, bytes2 bool
	maxDepth                                                                                                      int
	maxNum                                                                                                        int
}

func features(s *ps.Schema, m *ps.Message, v *ps.Val, depth int, ft *feat) {
	if v.Nil {
		return
	}
	if depth > ft.maxDepth {
		ft.maxDepth = depth
	}
	one := func(k ps.Kind, opt string, x *ps.Val) {
		switch k {
		case ps.KInt32:
			if int32(x.N) < 0 && opt != "zigzag" {
				ft.neg32 = true
			}
		case ps.KInt, ps.KInt64:
			if int64(x.N) < 0 && opt != "zigzag" {
				ft.neg64 = true
			}
		case ps.KFloat32, ps.KFloat64:
			if x.N != 0 {
				ft.float = true
			}
		case ps.KString, ps.KBytes:
			if len(x.B) >= 128 {
				ft.bytes2 = true
			}
		}
		if x.N != 0 || len(x.B) > 0 {
			if opt == "zigzag" {
				ft.sint = true
			}
			if opt == "fixed" {
				ft.fixed = true
			}
		}
	}
	for i := range m.Fields {
		f := &m.Fields[i]
		fv := &v.L[i]
		if f.Num > ft.maxNum && !s.FieldIsZero(f, fv) {
			ft.maxNum = f.Num
		}
		if f.Impl != "" && !s.FieldIsZero(f, fv) {
			switch f.Impl {
			case "pm":
				ft.implPM = true
			case "cm":
				ft.implCM = true
			case "pmpm":
				ft.implPMPM = true
			case "cmpm":
				ft.implCMPM = true
			}
			switch {
			case f.K == ps.KMap:
				ft.implMap = true
			case f.Rep:
				ft.implRep = true
			case f.Ptr:
				ft.implPtr = true
			default:
				ft.implSingular = true
			}
		}
		switch {
		case f.K == ps.KMap:
			if len(fv.L) == 0 {
				ft.mapEmpty = true
				continue
			}
			ft.mapNonEmpty = true
			for j := 0; j+1 < len(fv.L); j += 2 {
				one(f.Key, "", &fv.L[j])
				if f.Val == ps.KMsg {
					ft.mapMsg = true
					features(s, &s.Msgs[f.Msg], &fv.L[j+1], depth+1, ft)
				} else {
					one(f.Val, "", &fv.L[j+1])
				}
			}
		case f.Rep:
			if len(fv.L) > 0 {
				ft.rep = true
			}
			if len(fv.L) > 10 {
				ft.longRep = true
			}
			for j := range fv.L {
				if f.K == ps.KMsg {
					features(s, &s.Msgs[f.Msg], &fv.L[j], depth+1, ft)
				} else {
					one(f.K, f.Opt, &fv.L[j])
				}
			}
		case f.K == ps.KMsg:
			if fv.Nil {
				if f.Ptr {
					ft.nilPtr = true
				}
				continue
			}
			if f.Ptr && s.IsZero(&s.Msgs[f.Msg], fv) {
				ft.ptrZero = true
			}
			features(s, &s.Msgs[f.Msg], fv, depth+1, ft)
		default:
			one(f.K, f.Opt, fv)
		}
	}
}

func hasPad(s *ps.Schema) bool {
	for i := range s.Msgs {
		if len(s.Msgs[i].Pad) != 0 {
			return true
		}
	}
	return false
}

func label(cond bool, name string) {
	if cond {
		evid.Label(name)
	}
}

func genOpts() (ps.GenOpts, ps.ValOpts) {
	g := ps.GenOpts{Impl: true, Unexp: true}
	if evid.KnownActive(clsBigNum) {
		g.NumCap = 65535
	}
	if evid.KnownActive(clsRepZigzag) || evid.KnownActive(clsRepFixed) {
		g.NoRepOpt = true
	}
	v := ps.ValOpts{}
	if evid.Thorough() {
		v.LongRep = 400
	}
	return g, v
}

func TestWire(t *testing.T) {
	evid.Check(t, "Wire", 5000, func(rt *rapid.T) {
		gopt, vopt := genOpts()
		s, gst := ps.GenSchema(rt, gopt)
		for i := 0; i < gst.CappedNums; i++ {
			evid.Excluded(clsBigNum)
		}
		for i := 0; i < gst.RepOpt; i++ {
			evid.Excluded("repeated-zigzag-or-fixed (generator)")
		}
		b, err := ps.Build(&s)
		if err != nil {
			rt.Fatalf("harness: %v", err)
		}
		c := Case{Schema: s}
		// several values per type: building the Go type, the descriptor and the
		// library's codec cache (copy-on-write, quadratic) dominates the cost
		lo, hi := 2, 8
		if evid.Thorough() {
			lo, hi = 6, 24
		}
		nItems := rapid.IntRange(lo, hi).Draw(rt, "nitems")
		noBoolWiden := evid.KnownActive(clsBoolVarint)
		type meta struct {
			st []ps.TxStats
			ft feat
		}
		metas := make([]meta, nItems)
		for i := 0; i < nItems; i++ {
			it := Item{V: ps.GenMsgVal(rt, &s, 0, vopt), ByPtr: rapid.Bool().Draw(rt, "byptr")}
			dyn := b.Dyn(0, &it.V)
			ref, err := gproto.MarshalOptions{Deterministic: true}.Marshal(dyn)
			if err != nil {
				rt.Fatalf("harness: reference marshal: %v", err)
			}
			tree, err := s.ParseWire(&s.Msgs[0], ref)
			if err != nil {
				rt.Fatalf("harness: parse of reference bytes: %v", err)
			}
			it.Wires = append(it.Wires, ref)
			metas[i].st = append(metas[i].st, ps.TxStats{})
			nw := rapid.IntRange(1, 3).Draw(rt, "nwires")
			for w := 0; w < nw; w++ {
				var sel ps.TxSel
				switch rapid.IntRange(0, 6).Draw(rt, "txmix") {
				case 0:
					sel.Perm = true
				case 1:
					sel.Nonmin = true
				case 2:
					sel.Override = true
				case 3:
					sel.Split = true
				default:
					sel = ps.TxSel{Perm: rapid.Bool().Draw(rt, "p"), Nonmin: rapid.Bool().Draw(rt, "n"), Override: rapid.Bool().Draw(rt, "o"), Split: rapid.Bool().Draw(rt, "s")}
				}
				sel.NoBoolWiden = noBoolWiden
				var st ps.TxStats
				nodes := ps.Transform(rt, &s, &s.Msgs[0], ps.CloneNodes(tree), sel, &st)
				if !st.Any() && len(tree) > 0 {
					// nothing applied (kind not applicable to this message): one more try with every kind
					nodes = ps.Transform(rt, &s, &s.Msgs[0], ps.CloneNodes(tree), ps.TxSel{Perm: true, Nonmin: true, Override: true, Split: true, NoBoolWiden: noBoolWiden}, &st)
				}
				it.Wires = append(it.Wires, ps.Serialize(nodes))
				metas[i].st = append(metas[i].st, st)
			}
			features(&s, &s.Msgs[0], &it.V, 0, &metas[i].ft)
			if evid.KnownActive(clsGrow) && maxRepLen(&s, &s.Msgs[0], &it.V) > 10 {
				evid.Excluded(clsGrow)
				it.Wires = nil
				metas[i].st = nil
			}
			c.Items = append(c.Items, it)
		}

		// ---- bookkeeping
		sj, _ := json.Marshal(c.Schema)
		for i := range c.Items {
			it := &c.Items[i]
			ft := &metas[i].ft
			vj, _ := json.Marshal(it.V)
			nz := s.NonZeroFields(&s.Msgs[0], &it.V) > 0
			evid.Eval(1)
			evid.Label("enc")
			label(it.ByPtr, "enc.by-pointer")
			label(!nz, "value.all-zero")
			if nz {
				evid.NonTrivial(evid.Hash([]byte("enc"), sj, vj, []byte{b2i(it.ByPtr)}))
				evid.Label("value." + ps.NumClass(ft.maxNum))
			}
			label(ft.neg32, "value.negative-int32(10-byte)")
			label(ft.neg64, "value.negative-int64")
			label(ft.sint, "value.sint")
			label(ft.fixed, "value.fixed")
			label(ft.float, "value.float-nonzero")
			label(ft.mapNonEmpty, "value.map-nonempty")
			label(ft.mapEmpty, "value.map-empty")
			label(ft.mapMsg, "value.map-of-message")
			label(ft.rep, "value.repeated-nonempty")
			label(ft.longRep, "value.repeated>10")
			label(ft.nilPtr, "value.nil-pointer")
			label(ft.ptrZero, "value.pointer-to-zero")
			label(ft.bytes2, "value.bytes>=128(2-byte length)")
			label(ft.implPM, "value.self-encoding proto.Message struct")
			label(ft.implCM, "value.self-encoding custom(gogo) struct")
			label(ft.implPMPM, "value.self-encoding proto.Message struct with ProtoMessage()")
			label(ft.implCMPM, "value.custom(gogo) struct with ProtoMessage() (= plain struct)")
			label(hasPad(&s), "type.unexported-fields-interleaved")
			label(ft.implSingular, "value.self-encoding.singular")
			label(ft.implPtr, "value.self-encoding.pointer")
			label(ft.implRep, "value.self-encoding.repeated")
			label(ft.implMap, "value.self-encoding.map-value")
			evid.Label(fmt.Sprintf("value.depth%d", ft.maxDepth))
			for w := range it.Wires {
				st := &metas[i].st[w]
				evid.Eval(1)
				evid.Label("dec")
				label(w == 0, "dec.reference-bytes")
				label(st.Perm > 0, "tx.permute")
				label(st.Nonmin > 0, "tx.non-minimal-varint")
				label(st.Override > 0, "tx.override")
				label(st.OverrideZero > 0, "tx.override-by-explicit-default")
				label(st.Split > 0, "tx.split-embedded")
				label(w > 0 && !st.Any(), "tx.none-applicable")
				for k := 0; k < st.BoolWiden; k++ {
					evid.Excluded(clsBoolVarint)
				}
				if nz && (w == 0 || st.Any()) {
					evid.NonTrivial(evid.Hash([]byte("dec"), sj, vj, it.Wires[w]))
				}
			}
		}
		if evid.SampleWanted() {
			evid.Sample(c)
		} else {
			evid.Sample(nil)
		}

		skipped := 0
		evid.Journal("Wire", c)
		fails := checkAll(&c, &skipped)
		evid.JournalClear()
		evid.LabelN("dec.skipped-not-legal(reference disagrees)", skipped)
		for _, f := range fails {
			if cls := knownClass(&c, f); cls != "" && evid.KnownActive(cls) {
				evid.Excluded(cls)
				continue
			}
			// report the failing item alone when it still fails in isolation
			small := Case{Schema: c.Schema, Items: []Item{{V: c.Items[f.Item].V, ByPtr: c.Items[f.Item].ByPtr}}}
			if f.Dir == "decode" {
				small.Items[0].Wires = [][]byte{c.Items[f.Item].Wires[f.Wire]}
			}
			if f2 := checkCase(small); f2 != nil {
				evid.Violation(rt, "Wire", small, f2)
			}
			evid.Violation(rt, "Wire", c, &f.Failure)
		}
	})
}

func b2i(b bool) byte {
	if b {
		return 1
	}
	return 0
}

// ------------------------------------------------------------------ replay

func TestReplay(t *testing.T) {
	files := evid.SavedReplays()
	if p := evid.ReplayFile(); p != "" {
		files = []string{p}
	}
	for _, p := range files {
		_, raw, err := evid.LoadReplayCase(p)
		if err != nil {
			t.Fatalf("replay %s: %v", p, err)
		}
		var c Case
		if err := json.Unmarshal(raw, &c); err != nil || len(c.Schema.Msgs) == 0 {
			fmt.Fprintf(os.Stderr, "replay %s: not a C12 case, skipped\n", p)
			continue
		}
		evid.Eval(1)
		if f := checkCase(c); f != nil {
			evid.Violation(t, "Replay", c, f)
		}
	}
}
