package c12

import (
	"bytes"
	"fmt"
	"math"
	"reflect"
	"testing"

	segproto "github.com/segmentio/encoding/proto"
	"google.golang.org/protobuf/encoding/protowire"
	gproto "google.golang.org/protobuf/proto"
	"google.golang.org/protobuf/types/dynamicpb"
	"pgregory.net/rapid"

	"verif/harness/evid"
	ps "verif/harness/pschema"
)

// FuzzIn is the input of one FuzzWireDiff execution: raw bytes fed to the
// decoders of the schema stored in Case.Schema (Table = its index in
// fuzzSchemas, informative only).
type FuzzIn struct {
	Table int    `json:"table"`
	ByPtr bool   `json:"by_ptr,omitempty"` // re-marshal the decoded value through a pointer
	Input []byte `json:"input"`
}

const maxFuzzInput = 4096

func sc(n int, k ps.Kind) ps.Field             { return ps.Field{Num: n, K: k} }
func so(n int, k ps.Kind, opt string) ps.Field { return ps.Field{Num: n, K: k, Opt: opt} }
func rp(n int, k ps.Kind) ps.Field             { return ps.Field{Num: n, K: k, Rep: true} }
func ro(n int, k ps.Kind, opt string) ps.Field { return ps.Field{Num: n, K: k, Opt: opt, Rep: true} }
func mg(n, msg int, ptr, rep bool) ps.Field {
	return ps.Field{Num: n, K: ps.KMsg, Msg: msg, Ptr: ptr, Rep: rep}
}
func im(n, msg int, impl string, ptr, rep bool) ps.Field {
	return ps.Field{Num: n, K: ps.KMsg, Msg: msg, Impl: impl, Ptr: ptr, Rep: rep}
}
func mp(n int, key, val ps.Kind) ps.Field { return ps.Field{Num: n, K: ps.KMap, Key: key, Val: val} }
func mm(n int, key ps.Kind, msg int, ptr bool, impl string) ps.Field {
	return ps.Field{Num: n, K: ps.KMap, Key: key, Val: ps.KMsg, Msg: msg, Ptr: ptr, Impl: impl}
}

// fuzzSchemas is the fixed table of representative message types.
var fuzzSchemas = []ps.Schema{
	// 0: every scalar kind, untagged (numbers 1..11)
	{Msgs: []ps.Message{{Fields: []ps.Field{sc(1, ps.KBool), sc(2, ps.KInt), sc(3, ps.KInt32), sc(4, ps.KInt64), sc(5, ps.KUint), sc(6, ps.KUint32),
		sc(7, ps.KUint64), sc(8, ps.KFloat32), sc(9, ps.KFloat64), sc(10, ps.KString), sc(11, ps.KBytes)}}}},
	// 1: tagged scalars with sint / fixed options and tag-size boundary numbers
	{Msgs: []ps.Message{{Tagged: true, Fields: []ps.Field{so(1, ps.KInt32, "zigzag"), so(2, ps.KInt64, "zigzag"), so(3, ps.KInt, "zigzag"), so(4, ps.KUint32, "fixed"),
		so(5, ps.KUint64, "fixed"), sc(15, ps.KFloat32), sc(16, ps.KFloat64), sc(2047, ps.KString), sc(2048, ps.KBytes), sc(1024, ps.KBool), sc(65535, ps.KInt32), sc(1023, ps.KUint32)}}}},
	// 2: unpacked repeated scalars, untagged
	{Msgs: []ps.Message{{Fields: []ps.Field{rp(1, ps.KBool), rp(2, ps.KInt32), rp(3, ps.KInt64), rp(4, ps.KUint32), rp(5, ps.KFloat32), rp(6, ps.KFloat64),
		rp(7, ps.KString), rp(8, ps.KBytes), sc(9, ps.KInt64)}}}},
	// 3: repeated sint / fixed and repeated fields at large numbers
	{Msgs: []ps.Message{{Tagged: true, Fields: []ps.Field{ro(1, ps.KInt32, "zigzag"), ro(2, ps.KInt64, "zigzag"), ro(3, ps.KUint32, "fixed"), ro(4, ps.KUint64, "fixed"),
		rp(70000, ps.KUint64), rp(1<<29-1, ps.KString), sc(16, ps.KBool)}}}},
	// 4: nested messages by value, by pointer, repeated, two levels
	{Msgs: []ps.Message{
		{Pad: []int{1, 0, 1, 0, 0, 2}, Fields: []ps.Field{mg(1, 1, false, false), mg(2, 1, true, false), mg(3, 1, false, true), mg(4, 1, true, true), sc(5, ps.KInt64)}},
		{Fields: []ps.Field{sc(1, ps.KInt64), sc(2, ps.KString), mg(3, 2, false, false), mg(4, 2, true, false)}},
		{Fields: []ps.Field{sc(1, ps.KBool), rp(2, ps.KInt32), sc(3, ps.KBytes)}},
	}},
	// 5: maps of scalars
	{Msgs: []ps.Message{{Fields: []ps.Field{mp(1, ps.KString, ps.KInt64), mp(2, ps.KInt32, ps.KString), mp(3, ps.KBool, ps.KBool), mp(4, ps.KUint64, ps.KBytes),
		mp(5, ps.KInt64, ps.KFloat64), mp(6, ps.KString, ps.KUint32), sc(7, ps.KInt64)}}}},
	// 6: maps with message values (by value and by pointer), a map inside the value
	{Msgs: []ps.Message{
		{Tagged: true, Fields: []ps.Field{mm(1, ps.KString, 1, false, ""), mm(2, ps.KInt32, 1, true, ""), sc(3, ps.KString)}},
		{Fields: []ps.Field{sc(1, ps.KInt64), sc(2, ps.KString), mp(3, ps.KString, ps.KInt32)}},
	}},
	// 7: self-encoding struct types (proto.Message / gogo custom) in every position
	{Msgs: []ps.Message{
		{Fields: []ps.Field{im(1, 1, "pm", false, false), im(2, 1, "pm", true, false), im(3, 1, "pm", false, true), im(4, 1, "cm", true, true),
			mm(5, ps.KString, 1, false, "cm"), mm(6, ps.KInt64, 1, true, "pm"), im(7, 1, "cm", false, false), im(8, 1, "cm", true, false), sc(9, ps.KInt64)}},
		ps.ImplMessage(),
	}},
	// 11: the same types carrying a ProtoMessage() marker (proto.Message implementer: still self-encoding; custom type: plain struct) and unexported Go fields around them
	{Msgs: []ps.Message{
		{Pad: []int{1, 0, 2, 0, 0, 1, 0, 0, 1}, Fields: []ps.Field{im(1, 1, "pmpm", false, false), im(2, 1, "pmpm", true, false), im(3, 1, "pmpm", false, true), im(4, 1, "cmpm", true, true),
			mm(5, ps.KString, 1, false, "cmpm"), mm(6, ps.KInt64, 1, true, "pmpm"), im(7, 1, "cmpm", false, false), im(8, 1, "cmpm", true, false)}},
		ps.ImplMessage(),
	}},
	// 8: inlined single-pointer / single-map chain
	{Msgs: []ps.Message{
		{Fields: []ps.Field{mg(1, 1, true, false)}},
		{Fields: []ps.Field{mg(1, 2, true, false)}},
		{Fields: []ps.Field{mp(1, ps.KString, ps.KInt64)}},
	}},
	// 9: field numbers above 1023 / 65535 for every shape
	{Msgs: []ps.Message{
		{Tagged: true, Fields: []ps.Field{sc(1024, ps.KInt64), sc(65536, ps.KString), mg(70000, 1, true, false), rp(1<<29-1, ps.KInt32), mp(131071, ps.KString, ps.KString), im(2049, 2, "pm", false, true)}},
		{Tagged: true, Fields: []ps.Field{so(2048, ps.KInt64, "zigzag"), so(1, ps.KUint32, "fixed"), rp(100000, ps.KBool)}},
		ps.ImplMessage(),
	}},
	// 10: mixed tagged / untagged nesting with repeated messages in a map value
	{Msgs: []ps.Message{
		{Tagged: true, Fields: []ps.Field{mg(3, 1, false, true), mm(1, ps.KUint32, 1, true, ""), so(2, ps.KInt32, "zigzag"), rp(16, ps.KFloat64)}},
		{Fields: []ps.Field{rp(1, ps.KString), mg(2, 2, true, true), sc(3, ps.KUint64)}},
		{Tagged: true, Fields: []ps.Field{sc(300, ps.KBytes), so(7, ps.KUint64, "fixed")}},
	}},
}

var fuzzBuilt = func() []*ps.Built {
	out := make([]*ps.Built, len(fuzzSchemas))
	for i := range fuzzSchemas {
		b, err := ps.Build(&fuzzSchemas[i])
		if err != nil {
			panic(fmt.Sprintf("c12: fuzz schema %d: %v", i, err))
		}
		if err := b.CheckTypeOf(); err != nil {
			panic(fmt.Sprintf("c12: fuzz schema %d: %v", i, err))
		}
		out[i] = b
	}
	return out
}()

// domain classifies a parsed input against the message type.
type domain struct {
	mismatch   bool // a declared field number occurs with a wire type other than the declared one (incl. the packed form)
	range32    bool // a bool / 32-bit varint field holds a value no encoder writes (bool > 1, bits beyond 32)
	emptyEntry bool // a map entry of length zero (the package reads it as its own "empty map" marker: KF-C12-006)
	unknown    bool // undeclared field numbers are present
}

func classifyInput(m *ps.Message, nodes []ps.WNode, d *domain) {
	for i := range nodes {
		nd := &nodes[i]
		f := m.FieldByNum(nd.Num)
		switch {
		case f == nil:
			d.unknown = true
			continue
		case nd.F == nil:
			d.mismatch = true
			continue
		}
		if nd.Typ == protowire.VarintType {
			switch {
			case f.K == ps.KBool:
				d.range32 = d.range32 || nd.U > 1
			case f.K == ps.KInt32 && f.Opt == "zigzag", f.K == ps.KUint32:
				d.range32 = d.range32 || nd.U > math.MaxUint32
			case f.K == ps.KInt32:
				d.range32 = d.range32 || int64(nd.U) != int64(int32(nd.U))
			}
		}
		if nd.IsMsg {
			if f.K == ps.KMap && len(nd.Sub) == 0 {
				d.emptyEntry = true
			}
			classifyInput(nd.M, nd.Sub, d)
		}
	}
}

// dropQuietedNaN removes float32 differences that only consist of the quiet
// bit of a NaN: the reference stores float32 values as float64 and that
// conversion quiets signalling NaNs.
func dropQuietedNaN(ds []ps.Diff) []ps.Diff {
	out := ds[:0]
	for _, d := range ds {
		if d.K == ps.KFloat32 {
			a, b := uint32(d.A.N), uint32(d.B.N)
			nan := func(x uint32) bool { return x&0x7f800000 == 0x7f800000 && x&0x007fffff != 0 }
			if nan(a) && nan(b) && a|0x00400000 == b|0x00400000 {
				continue
			}
		}
		out = append(out, d)
	}
	return out
}

type fuzzFacts struct {
	refAccepts, inDomain, segAccepts bool
	skipped                          string // reason the acceptance comparison does not apply
}

// checkFuzz is the oracle of FuzzWireDiff as a function of the case.
//
//	reference rejects, or the input is outside the domain  -> only: seg.Unmarshal does not panic
//	otherwise (a)  seg.Unmarshal accepts and decodes the same content as the reference
//	          (b)  seg.Marshal of the decoded value is decoded by the reference to the
//	               same content, and Size == len(Marshal)
func checkFuzz(c *Case) (*evid.Failure, fuzzFacts) {
	var fx fuzzFacts
	var b *ps.Built
	if t := c.Fuzz.Table; t >= 0 && t < len(fuzzSchemas) && reflect.DeepEqual(fuzzSchemas[t], c.Schema) {
		b = fuzzBuilt[t] // the usual case: a table schema, built once
	} else {
		var err error
		if b, err = ps.Build(&c.Schema); err != nil {
			return &evid.Failure{Oracle: "harness: schema builds", Observed: err.Error(), Class: "harness"}, fx
		}
	}
	in := c.Fuzz.Input
	keep := append([]byte(nil), in...)
	fresh := reflect.New(b.Go[0])
	segErr, pan := segUnmarshal(in, fresh.Interface())
	if pan != nil {
		return &evid.Failure{Oracle: "seg.Unmarshal does not panic on arbitrary input", Observed: fmt.Sprintf("panic: %v on %s", pan, evid.Hex(clip(in))), Expected: "value or error", Class: "panic"}, fx
	}
	if !bytes.Equal(in, keep) {
		return &evid.Failure{Oracle: "seg.Unmarshal does not modify its input", Observed: evid.Hex(clip(in)), Expected: evid.Hex(clip(keep)), Class: "input-modified"}, fx
	}
	fx.segAccepts = segErr == nil

	dyn := dynamicpb.NewMessage(b.Desc[0])
	if err := refUnmarshal(in, dyn); err != nil {
		fx.skipped = "reference-rejects"
		return nil, fx
	}
	fx.refAccepts = true
	nodes, err := c.Schema.ParseWire(&c.Schema.Msgs[0], in)
	if err != nil {
		fx.skipped = "groups-or-unparsed" // group wire types 3/4 (the reference skips them as unknown fields)
		return nil, fx
	}
	var d domain
	classifyInput(&c.Schema.Msgs[0], nodes, &d)
	switch {
	case d.mismatch:
		fx.skipped = "wire-type-mismatch-or-packed"
		return nil, fx
	case d.range32:
		fx.skipped = "bool-or-32-bit-varint-out-of-range"
		return nil, fx
	case d.emptyEntry && evid.KnownActive(clsEmptyMap):
		fx.skipped = clsEmptyMap
		return nil, fx
	}
	fx.inDomain = true

	// (a) the reference accepts => seg accepts, same content
	if segErr != nil {
		return &evid.Failure{Oracle: "seg.Unmarshal accepts an encoding the reference accepts", Observed: fmt.Sprintf("error %v on %s", segErr, evid.Hex(clip(in))), Expected: "nil error", Class: "unmarshal-error"}, fx
	}
	want := b.FromDyn(0, dyn)
	got := b.FromGo(0, fresh.Elem())
	if ds := dropQuietedNaN(b.Compare(0, &want, &got)); len(ds) > 0 {
		return &evid.Failure{Oracle: "seg.Unmarshal decodes the same content as the reference (reference vs seg)", Observed: ps.DiffsString(ds) + " | bytes " + evid.Hex(clip(in)), Expected: "equal field by field (nil == empty)", Class: "decode-mismatch"}, fx
	}

	// (b) re-marshal what seg decoded
	var arg any = fresh.Elem().Interface()
	if c.Fuzz.ByPtr {
		arg = fresh.Interface()
	}
	fl := checkEncodeOf(b, arg, &got, 0)
	if fl != nil {
		fl.Diffs = dropQuietedNaN(fl.Diffs)
		if fl.Class == "encode-mismatch" && len(fl.Diffs) == 0 {
			fl = nil
		}
	}
	if fl != nil {
		pc := Case{Schema: c.Schema, Items: []Item{{V: got, ByPtr: c.Fuzz.ByPtr}}}
		if cls := knownClass(&pc, fl); cls != "" && evid.KnownActive(cls) {
			fx.skipped = cls
			return nil, fx
		}
		fl.Failure.Observed += " | decoded from " + evid.Hex(clip(in))
		return &fl.Failure, fx
	}
	data, err, pan := segMarshal(arg)
	if pan == nil && err == nil {
		n, pan2 := segSize(arg)
		if pan2 != nil {
			return &evid.Failure{Oracle: "seg.Size does not panic", Observed: fmt.Sprintf("panic: %v", pan2), Expected: "a size", Class: "panic"}, fx
		}
		if n != len(data) {
			return &evid.Failure{Oracle: "Size(v) == len(Marshal(v)) for the value decoded from the input", Observed: fmt.Sprintf("Size %d, len %d, input %s", n, len(data), evid.Hex(clip(in))), Expected: "equal", Class: "size-mismatch"}, fx
		}
	}
	return nil, fx
}

func segSize(arg any) (n int, pan any) {
	defer func() {
		if r := recover(); r != nil {
			pan = r
		}
	}()
	n = segproto.Size(arg)
	return
}

// hostile constants used as seeds (alone and appended to valid encodings)
var fuzzHostile = [][]byte{
	{0x08, 0xff, 0xff, 0xff, 0xff, 0xff, 0xff, 0xff, 0xff, 0xff, 0x01},       // 10-byte varint (max uint64)
	{0x08, 0x80, 0x80, 0x80, 0x80, 0x80, 0x80, 0x80, 0x80, 0x80, 0x80, 0x00}, // 11-byte varint
	{0x08, 0xff, 0xff, 0xff, 0xff, 0xff, 0xff, 0xff, 0xff, 0xff, 0x02},       // 10 bytes, overflows 64 bits
	{0x88, 0x80, 0x80, 0x80, 0x80, 0x80, 0x80, 0x80, 0x80, 0x00, 0x81, 0x00}, // 10-byte tag for field 1, 2-byte value
	{0x0a, 0x00}, {0x0a, 0x01, 0x00}, {0x0a, 0x80, 0x00}, // length 0, 1, non-minimal 0
	{0x0a, 0x80, 0x80, 0x80, 0x80, 0x08, 0x01},                                                       // length 2^31
	{0x12, 0x80, 0x80, 0x80, 0x80, 0x80, 0x80, 0x80, 0x80, 0x80, 0x01, 0x00},                         // length 2^63
	{0x12, 0xff, 0xff, 0xff, 0x07},                                                                   // length 2^24-1, nothing follows
	{0x08, 0x01, 0x08, 0x02, 0x08, 0x00},                                                             // field 1 three times
	{0x0a, 0x02, 0x08, 0x01, 0x0a, 0x02, 0x10, 0x02, 0x0a, 0x00},                                     // embedded field 1 split in three
	{0x0d, 0x01, 0x00, 0x00, 0x00}, {0x09, 1, 0, 0, 0, 0, 0, 0, 0}, {0x0a, 0x01, 0x41}, {0x08, 0x01}, // field 1 with each wire type
	{0x0a, 0x04, 0x08, 0x01, 0x08, 0x02},               // packed form of field 1
	{0x0a, 0x03, 0x0a, 0x01},                           // truncated map entry / embedded message
	{0x0a, 0x05, 0x0a, 0x01, 0x6b, 0x10},               // map entry with a truncated value
	{0x0a, 0x03, 0x10, 0x05, 0x10},                     // entry: value only, then truncated
	{0x0a, 0x04, 0x10, 0x01, 0x0a, 0x00},               // entry: value before key
	{0x00, 0x01}, {0x80, 0x80, 0x80, 0x80, 0x10, 0x01}, // field numbers 0 and 2^29
	{0x0b, 0x08, 0x01, 0x0c}, {0x0e, 0x01}, {0x0f, 0x01}, // groups, wire types 6 and 7
	{0x0a, 0x02, 0xc3, 0x28}, {0x52, 0x02, 0xff, 0xfe}, // invalid UTF-8 in a length-delimited field
	{0x18, 0x80, 0x80, 0x80, 0x80, 0x10}, // int32 field 3 with a 33-bit value
	{0x08, 0x02},                         // bool 2
}

// FuzzWireDiff: coverage-guided search over (schema selector, wire bytes) with
// the two directions of C12 restricted to inputs the reference accepts.
// sel%len(fuzzSchemas) selects the message type, bit 7 of sel the by-pointer
// form of the re-marshal.
func FuzzWireDiff(f *testing.F) {
	for i := range fuzzSchemas {
		s := &fuzzSchemas[i]
		b := fuzzBuilt[i]
		gen := rapid.Custom(func(t *rapid.T) ps.Val {
			return ps.GenMsgVal(t, s, 0, ps.ValOpts{MaxRep: 3, LongRep: 14})
		})
		for k := 0; k < 6; k++ {
			v := gen.Example(100*i + k)
			wire, err := gproto.MarshalOptions{Deterministic: true}.Marshal(b.Dyn(0, &v))
			if err != nil || len(wire) == 0 || len(wire) > 1500 {
				continue
			}
			f.Add(wire, uint8(i))
			f.Add(wire, uint8(i)|0x80)
			f.Add(wire[:len(wire)-1], uint8(i))
			f.Add(wire[:len(wire)/2], uint8(i))
			if k < 2 {
				for _, h := range fuzzHostile {
					if k == 0 {
						f.Add(append(append([]byte(nil), wire...), h...), uint8(i))
					} else {
						f.Add(append(append([]byte(nil), h...), wire...), uint8(i))
					}
				}
			}
		}
		for _, h := range fuzzHostile {
			f.Add(h, uint8(i))
		}
	}
	f.Fuzz(func(t *testing.T, data []byte, sel uint8) {
		if len(data) > maxFuzzInput {
			return
		}
		i := int(sel&0x7f) % len(fuzzSchemas)
		c := Case{Schema: fuzzSchemas[i], Fuzz: &FuzzIn{Table: i, ByPtr: sel&0x80 != 0, Input: data}}
		fl, fx := checkFuzz(&c)
		if fx.skipped == clsEmptyMap {
			evid.Excluded(clsEmptyMap)
		}
		if fl != nil {
			c.Fuzz.Input = append([]byte(nil), data...)
			evid.Violation(t, "FuzzWireDiff", c, fl)
		}
	})
}

// TestFuzzSeeds runs the seed corpus construction's building blocks through
// the oracle in the ordinary (non-fuzzing) tiers as a smoke test of the
// harness: every reference encoding of a generated value of every table schema
// must be in the domain and pass.
func TestFuzzSeeds(t *testing.T) {
	for i := range fuzzSchemas {
		s := &fuzzSchemas[i]
		b := fuzzBuilt[i]
		gen := rapid.Custom(func(t *rapid.T) ps.Val {
			return ps.GenMsgVal(t, s, 0, ps.ValOpts{MaxRep: 3, LongRep: 14})
		})
		for k := 0; k < 6; k++ {
			v := gen.Example(100*i + k)
			wire, err := gproto.MarshalOptions{Deterministic: true}.Marshal(b.Dyn(0, &v))
			if err != nil {
				t.Fatalf("harness: schema %d: %v", i, err)
			}
			for _, byPtr := range []bool{false, true} {
				c := Case{Schema: *s, Fuzz: &FuzzIn{Table: i, ByPtr: byPtr, Input: wire}}
				fl, fx := checkFuzz(&c)
				evid.Eval(1)
				if fl != nil {
					evid.Violation(t, "FuzzSeeds", c, fl)
				}
				if len(wire) > 0 && !fx.inDomain {
					t.Fatalf("harness: reference encoding of schema %d not in the domain (%s): %x", i, fx.skipped, wire)
				}
			}
		}
		for _, h := range fuzzHostile {
			c := Case{Schema: *s, Fuzz: &FuzzIn{Table: i, Input: h}}
			evid.Eval(1)
			if fl, _ := checkFuzz(&c); fl != nil {
				evid.Violation(t, "FuzzSeeds", c, fl)
			}
		}
	}
}
