package c12

import (
	"errors"
	"fmt"
	"io"
	"reflect"
	"strings"
	"testing"
	"time"

	"verif/harness/evid"
	ps "verif/harness/pschema"
)

// Known-finding classes of C12 (see FINDINGS.md). Each has a narrow predicate
// over a failing case and a witness run through the same oracle.
const (
	// decode: a bool whose varint is longer than one byte desynchronises the
	// decoder (decodeBool consumes one byte). The generator does not widen
	// bool varints while the class is active.
	clsBoolVarint = "bool-nonminimal-varint"
	// encode+decode: field numbers are stored in a uint16 (70000 -> 4464).
	// The generator caps field numbers at 65535 while the class is active.
	clsBigNum = "field-number-above-65535"
	// encode+decode: the zigzag flag is not applied to the elements of a
	// repeated field (sint32/sint64 written and read as int32/int64).
	clsRepZigzag = "repeated-zigzag-ignored"
	// encode+decode: the fixed32/fixed64 tag is ignored on []uint32/[]uint64.
	clsRepFixed = "repeated-fixed-ignored"
	// encode: a false bool that has to be written explicitly (slice element,
	// map key/value, first field behind a pointer) is written as 1.
	clsBoolWantZero = "bool-false-written-as-true"
	// encode: a NON-NIL empty map is written as one empty map entry, which the
	// reference decodes as {default key: default value}. (Nil maps were repaired
	// by 684b018 and are not covered by the predicate any more.)
	clsEmptyMap = "empty-map-written-as-empty-entry"
	// decode: growing a repeated field past its first capacity of 10 calls
	// runtime.typedslicecopy with the wrong signature: nil-dereference panic,
	// or a fatal error when the GC write barrier is on. While active the
	// decode direction is not run on values with a repeated field > 10 elements.
	clsGrow = "repeated-field-over-10-elements-crashes-decoder"
	// encode: the size function of maps computes the width of an entry's
	// length prefix from keySize+valSize (without the key/value tags), one
	// byte short when that sum is <= 127 < entry size: Marshal fails with
	// "short buffer". Predicate: some single map entry of the value, marshalled
	// alone in a one-field struct, already fails that way.
	clsMapSize = "map-entry-size-undercount-short-buffer"
)

// entryAloneFails reports whether some map entry reachable in v fails to
// marshal with io.ErrShortBuffer when it is the only content of a message.
func entryAloneFails(b *ps.Built, m *ps.Message, v *ps.Val) bool {
	if v.Nil {
		return false
	}
	s := b.S
	for i := range m.Fields {
		f := &m.Fields[i]
		fv := &v.L[i]
		switch {
		case f.K == ps.KMap:
			for j := 0; j+1 < len(fv.L); j += 2 {
				one := ps.Val{L: []ps.Val{fv.L[j], fv.L[j+1]}}
				mv := b.GoField(f, &one)
				st := reflect.StructOf([]reflect.StructField{{Name: "M", Type: mv.Type()}})
				x := reflect.New(st).Elem()
				x.Field(0).Set(mv)
				_, err, pan := segMarshal(x.Interface())
				if pan == nil && err != nil && errors.Is(err, io.ErrShortBuffer) {
					return true
				}
				if f.Val == ps.KMsg && entryAloneFails(b, &s.Msgs[f.Msg], &fv.L[j+1]) {
					return true
				}
			}
		case f.K == ps.KMsg && f.Rep:
			for j := range fv.L {
				if entryAloneFails(b, &s.Msgs[f.Msg], &fv.L[j]) {
					return true
				}
			}
		case f.K == ps.KMsg:
			if entryAloneFails(b, &s.Msgs[f.Msg], fv) {
				return true
			}
		}
	}
	return false
}

// maxRepLen is the largest number of elements of any repeated field in v.
func maxRepLen(s *ps.Schema, m *ps.Message, v *ps.Val) int {
	if v.Nil {
		return 0
	}
	mx := 0
	up := func(n int) {
		if n > mx {
			mx = n
		}
	}
	for i := range m.Fields {
		f := &m.Fields[i]
		fv := &v.L[i]
		switch {
		case f.K == ps.KMap:
			if f.Val == ps.KMsg {
				for j := 1; j < len(fv.L); j += 2 {
					up(maxRepLen(s, &s.Msgs[f.Msg], &fv.L[j]))
				}
			}
		case f.Rep:
			up(len(fv.L))
			if f.K == ps.KMsg {
				for j := range fv.L {
					up(maxRepLen(s, &s.Msgs[f.Msg], &fv.L[j]))
				}
			}
		case f.K == ps.KMsg:
			up(maxRepLen(s, &s.Msgs[f.Msg], fv))
		}
	}
	return mx
}

// diffClass maps one field difference of the encode direction to a class.
func diffClass(c *Case, d *ps.Diff) string {
	if d.F == nil {
		return ""
	}
	switch {
	case d.K == ps.KBool && (d.Slot == "scalar" || d.Slot == "elem") && d.A.N == 0 && d.B.N == 1:
		return clsBoolWantZero
	case d.F.K == ps.KMap && d.F.Key == ps.KBool && (d.Slot == "len" || d.Slot == "mapkeys") && hasFalseKey(d.A):
		// map[bool]V: the false key is written as true
		return clsBoolWantZero
	case d.F.K == ps.KMap && d.Slot == "len" && !d.A.Nil && len(d.A.L) == 0 && len(d.B.L) == 2 && zeroEntry(&c.Schema, d.F, d.B):
		return clsEmptyMap
	}
	return ""
}

func hasFalseKey(m *ps.Val) bool {
	for j := 0; j+1 < len(m.L); j += 2 {
		if m.L[j].N == 0 {
			return true
		}
	}
	return false
}

func zeroEntry(s *ps.Schema, f *ps.Field, m *ps.Val) bool {
	e := f.EntryMessage()
	return s.IsZero(e, &ps.Val{L: []ps.Val{m.L[0], m.L[1]}})
}

// hasRepOpt reports whether the schema has a repeated field with the option.
func hasRepOpt(s *ps.Schema, opt string) bool {
	for _, m := range s.Msgs {
		for _, f := range m.Fields {
			if f.Rep && f.Opt == opt {
				return true
			}
		}
	}
	return false
}

// wideBool reports whether wire (an encoding of message m) holds a bool field
// whose varint is longer than one byte.
func wideBool(s *ps.Schema, m *ps.Message, wire []byte) bool {
	nodes, err := s.ParseWire(m, wire)
	if err != nil {
		return false
	}
	var walk func(n []ps.WNode) bool
	walk = func(n []ps.WNode) bool {
		for i := range n {
			if n[i].F != nil && n[i].F.K == ps.KBool && n[i].ValW > 1 {
				return true
			}
			if n[i].IsMsg && walk(n[i].Sub) {
				return true
			}
		}
		return false
	}
	return walk(nodes)
}

// classify returns the class that explains failure f completely (every
// difference belongs to a class for which active() holds), or "".
func classify(c *Case, f *fail, active func(string) bool) string {
	ok := func(cls string) string {
		if cls != "" && active(cls) {
			return cls
		}
		return ""
	}
	if f.Dir != "encode" && f.Dir != "decode" {
		return ""
	}
	if c.Schema.MaxNum() > 65535 && active(clsBigNum) {
		return clsBigNum
	}
	if f.Dir == "decode" && f.Class == "panic" && active(clsGrow) && maxRepLen(&c.Schema, &c.Schema.Msgs[0], &c.Items[f.Item].V) > 10 {
		return clsGrow
	}
	if f.Dir == "decode" && active(clsBoolVarint) && wideBool(&c.Schema, &c.Schema.Msgs[0], f.Bytes) {
		return clsBoolVarint
	}
	switch f.Class {
	case "encode-mismatch", "decode-mismatch":
		first := ""
		for i := range f.Diffs {
			d := &f.Diffs[i]
			cls := ""
			if f.Dir == "encode" {
				cls = diffClass(c, d)
			}
			if cls == "" && d.F != nil && d.F.Rep && d.F.Opt == "zigzag" {
				cls = clsRepZigzag
			}
			if ok(cls) == "" {
				return ""
			}
			if first == "" {
				first = cls
			}
		}
		return first
	case "marshal-error":
		if active(clsMapSize) && strings.Contains(f.Observed, "short buffer") {
			if b, err := ps.Build(&c.Schema); err == nil && entryAloneFails(b, &c.Schema.Msgs[0], &c.Items[f.Item].V) {
				return clsMapSize
			}
		}
	case "ref-rejects":
		if hasRepOpt(&c.Schema, "fixed") {
			return ok(clsRepFixed)
		}
	case "unmarshal-error":
		if hasRepOpt(&c.Schema, "fixed") && strings.Contains(f.Observed, "wire type") {
			return ok(clsRepFixed)
		}
	}
	return ""
}

func knownClass(c *Case, f *fail) string { return classify(c, f, evid.KnownActive) }

// ------------------------------------------------------------------ witnesses

func num(n uint64) ps.Val { return ps.Val{N: n} }

// witness: the first failure of the case in the given direction (whatever
// its class: a repaired defect must leave the witness case failure-free).
func witness(c Case, dir, class string) func() *evid.Failure {
	return func() *evid.Failure {
		for _, f := range checkAll(&c, nil) {
			if f.Dir == dir {
				return &f.Failure
			}
		}
		return nil
	}
}

func always(string) bool { return true }

var classes = []evid.Class{
	{Name: clsBoolVarint, Witness: witness(Case{
		// message { bool f0 = 1; int64 f1 = 2; }  v = {true, 5}; bool written as the 2-byte varint 81 00
		Schema: ps.Schema{Msgs: []ps.Message{{Fields: []ps.Field{{Num: 1, K: ps.KBool}, {Num: 2, K: ps.KInt64}}}}},
		Items:  []Item{{V: ps.Val{L: []ps.Val{num(1), num(5)}}, Wires: [][]byte{{0x08, 0x81, 0x00, 0x10, 0x05}}}},
	}, "decode", clsBoolVarint)},
	{Name: clsBigNum, Witness: witness(Case{
		// message { int64 f0 = 70000; }  v = {7}
		Schema: ps.Schema{Msgs: []ps.Message{{Tagged: true, Fields: []ps.Field{{Num: 70000, K: ps.KInt64}}}}},
		Items:  []Item{{V: ps.Val{L: []ps.Val{num(7)}}, Wires: [][]byte{{0x80, 0x97, 0x22, 0x07}}}},
	}, "encode", clsBigNum)},
	{Name: clsRepZigzag, Witness: witness(Case{
		// message { repeated sint64 f0 = 1; }  v = {[-1]}
		Schema: ps.Schema{Msgs: []ps.Message{{Tagged: true, Fields: []ps.Field{{Num: 1, K: ps.KInt64, Opt: "zigzag", Rep: true}}}}},
		Items:  []Item{{V: ps.Val{L: []ps.Val{{L: []ps.Val{num(^uint64(0))}}}}, Wires: [][]byte{{0x08, 0x01}}}},
	}, "encode", clsRepZigzag)},
	{Name: clsRepFixed, Witness: witness(Case{
		// message { repeated fixed32 f0 = 1; }  v = {[1]}
		Schema: ps.Schema{Msgs: []ps.Message{{Tagged: true, Fields: []ps.Field{{Num: 1, K: ps.KUint32, Opt: "fixed", Rep: true}}}}},
		Items:  []Item{{V: ps.Val{L: []ps.Val{{L: []ps.Val{num(1)}}}}, Wires: [][]byte{{0x0d, 0x01, 0x00, 0x00, 0x00}}}},
	}, "decode", clsRepFixed)},
	{Name: clsBoolWantZero, Witness: witness(Case{
		// message { repeated bool f0 = 1; }  v = {[false]}
		Schema: ps.Schema{Msgs: []ps.Message{{Fields: []ps.Field{{Num: 1, K: ps.KBool, Rep: true}}}}},
		Items:  []Item{{V: ps.Val{L: []ps.Val{{L: []ps.Val{num(0)}}}}}},
	}, "encode", clsBoolWantZero)},
	{Name: clsEmptyMap, Witness: witness(Case{
		// message { map<string,int64> f0 = 1; int64 f1 = 2; }  v = {map[string]int64{} (non-nil, empty), 1}
		Schema: ps.Schema{Msgs: []ps.Message{{Fields: []ps.Field{{Num: 1, K: ps.KMap, Key: ps.KString, Val: ps.KInt64}, {Num: 2, K: ps.KInt64}}}}},
		Items:  []Item{{V: ps.Val{L: []ps.Val{{L: []ps.Val{}}, num(1)}}}},
	}, "encode", clsEmptyMap)},
}

func init() {
	x123 := make([]byte, 123)
	for i := range x123 {
		x123[i] = 'x'
	}
	classes = append(classes, evid.Class{Name: clsMapSize, Witness: witness(Case{
		// message { map<string,string> f0 = 1; }  v = {"k": "x"*123}
		Schema: ps.Schema{Msgs: []ps.Message{{Fields: []ps.Field{{Num: 1, K: ps.KMap, Key: ps.KString, Val: ps.KString}}}}},
		Items:  []Item{{V: ps.Val{L: []ps.Val{{L: []ps.Val{{B: []byte("k")}, {B: x123}}}}}}},
	}, "encode", clsMapSize)})
}

// growCase: message { repeated int64 f0 = 1; } with 11 elements, reference bytes.
var growCase = Case{
	Schema: ps.Schema{Msgs: []ps.Message{{Fields: []ps.Field{{Num: 1, K: ps.KInt64, Rep: true}}}}},
	Items: []Item{{V: ps.Val{L: []ps.Val{{L: []ps.Val{num(1), num(2), num(3), num(4), num(5), num(6), num(7), num(8), num(9), num(10), num(11)}}}},
		Wires: [][]byte{{8, 1, 8, 2, 8, 3, 8, 4, 8, 5, 8, 6, 8, 7, 8, 8, 8, 9, 8, 10, 8, 11}}}},
}

func init() {
	// the growth defect can kill the process (fatal error under the GC write
	// barrier), so its witness runs in a child
	evid.Children["c12-grow"] = func([]byte) int {
		for _, f := range checkAll(&growCase, nil) {
			if f.Dir == "decode" {
				fmt.Println("FAIL:", f.Error())
				return 1
			}
		}
		return 0
	}
	classes = append(classes, evid.Class{Name: clsGrow, Witness: func() *evid.Failure {
		code, out, timedOut := evid.RunChild("c12-grow", nil, 60*time.Second)
		if code == 0 && !timedOut {
			return nil
		}
		o := string(out)
		if len(o) > 300 {
			o = o[:300]
		}
		return &evid.Failure{Oracle: "seg.Unmarshal accepts the reference encoding of 11 repeated int64", Observed: fmt.Sprintf("child exit %d: %s", code, o), Expected: "decodes to the 11 values", Class: "panic"}
	}})
}

func TestKnownFindings(t *testing.T) { evid.RunWitnesses(t, classes) }

// TestNilMapNotMarked: the nil-map half of the empty-map finding was repaired
// (684b018); a nil map next to another field must agree with the reference.
// The nil-map half of the empty-map defect was repaired by 684b018; it is
// listed as a fixed finding and runs as a regression witness.
func init() {
	classes = append(classes, evid.Class{Name: "nil-map-written-as-empty-entry", Witness: witness(Case{
		Schema: ps.Schema{Msgs: []ps.Message{{Fields: []ps.Field{{Num: 1, K: ps.KMap, Key: ps.KString, Val: ps.KInt64}, {Num: 2, K: ps.KInt64}}}}},
		Items:  []Item{{V: ps.Val{L: []ps.Val{{Nil: true}, num(1)}}}},
	}, "encode", "nil-map-written-as-empty-entry")})
}

func TestNilMapNotMarked(t *testing.T) {
	c := Case{
		Schema: ps.Schema{Msgs: []ps.Message{{Fields: []ps.Field{{Num: 1, K: ps.KMap, Key: ps.KString, Val: ps.KInt64}, {Num: 2, K: ps.KInt64}}}}},
		Items:  []Item{{V: ps.Val{L: []ps.Val{{Nil: true}, num(1)}}}},
	}
	evid.Eval(1)
	for _, f := range checkAll(&c, nil) {
		evid.Violation(t, "NilMapNotMarked", c, &f.Failure)
	}
}

// TestSelfEncodingStructs: regression cases for /repo 644a5bf (struct types
// implementing proto.Message or the gogo-style custom interface were written
// and read with two length prefixes: struct{A *PMsg}{&PMsg{}} -> 0a 01 00).
// Singular, pointer, repeated and map-value slots of both types, both directions.
func TestSelfEncodingStructs(t *testing.T) {
	impl := ps.ImplMessage()
	one := ps.Val{L: []ps.Val{num(1), {B: []byte("a")}}}
	zero := ps.Val{L: []ps.Val{{}, {}}}
	for _, kind := range ps.ImplKinds {
		c := Case{
			Schema: ps.Schema{Msgs: []ps.Message{{Fields: []ps.Field{
				{Num: 1, K: ps.KMsg, Msg: 1, Impl: kind},
				{Num: 2, K: ps.KMsg, Msg: 1, Impl: kind, Ptr: true},
				{Num: 3, K: ps.KMsg, Msg: 1, Impl: kind, Rep: true},
				{Num: 4, K: ps.KMap, Key: ps.KString, Val: ps.KMsg, Msg: 1, Impl: kind, Ptr: true},
			}}, impl}},
			Items: []Item{
				// reference encodings: 0a 05 08 01 12 01 61 | 12 00 | 1a 05 ... 1a 00 | 22 0a 0a 01 6b 12 05 ...
				{V: ps.Val{L: []ps.Val{one, zero, {L: []ps.Val{one, zero}}, {L: []ps.Val{{B: []byte("k")}, one}}}},
					Wires: [][]byte{{0x0a, 0x05, 0x08, 0x01, 0x12, 0x01, 0x61, 0x12, 0x00, 0x1a, 0x05, 0x08, 0x01, 0x12, 0x01, 0x61, 0x1a, 0x00,
						0x22, 0x0a, 0x0a, 0x01, 0x6b, 0x12, 0x05, 0x08, 0x01, 0x12, 0x01, 0x61}}},
				{V: ps.Val{L: []ps.Val{zero, {Nil: true}, {Nil: true}, {Nil: true}}}, ByPtr: true, Wires: [][]byte{{}, {0x0a, 0x00}}},
			},
		}
		evid.Eval(len(c.Items))
		skipped := 0
		for _, f := range checkAll(&c, &skipped) {
			evid.Violation(t, "SelfEncodingStructs", c, &f.Failure)
		}
		if skipped != 0 {
			t.Fatalf("harness: %d regression wires are not legal encodings for the reference", skipped)
		}
	}
}

// TestWitnessesReproduce is a development aid: reports which class witnesses
// fail on the current tree regardless of known_findings.json.
func TestWitnessesReproduce(t *testing.T) {
	for _, c := range classes {
		if f := c.Witness(); f != nil {
			t.Logf("%s: reproduces: [%s] %s", c.Name, f.Class, f.Error())
		} else {
			t.Logf("%s: does NOT reproduce", c.Name)
		}
	}
}
