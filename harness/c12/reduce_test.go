package c12

import (
	"encoding/json"
	"fmt"
	"os"
	"testing"

	"verif/harness/evid"
	ps "verif/harness/pschema"
)

func failsSame(c Case, class string) bool {
	for _, f := range checkAll(&c, nil) {
		if f.Class == class && knownClass(&c, f) == "" {
			return true
		}
	}
	return false
}

// shrinkVal tries to simplify v in place (greedy), keeping pred true.
func shrinkVal(v *ps.Val, pred func() bool) {
	for changed := true; changed; {
		changed = false
		// drop list elements (pairs kept intact by trying to drop 2 then 1)
		for _, step := range []int{2, 1} {
			for i := 0; i+step <= len(v.L); i++ {
				old := v.L
				nl := append(append([]ps.Val{}, old[:i]...), old[i+step:]...)
				v.L = nl
				if pred() {
					changed = true
					i--
				} else {
					v.L = old
				}
			}
		}
	}
	for i := range v.L {
		old := v.L[i]
		v.L[i] = ps.Val{}
		if pred() {
			continue
		}
		v.L[i] = ps.Val{Nil: true}
		if pred() {
			continue
		}
		v.L[i] = old
		shrinkVal(&v.L[i], pred)
	}
	if len(v.B) > 1 {
		old := v.B
		v.B = []byte("a")
		if !pred() {
			v.B = old
		}
	}
	if v.N > 1 {
		old := v.N
		v.N = 1
		if !pred() {
			v.N = old
		}
	}
}

func TestReduce(t *testing.T) {
	p := os.Getenv("REDUCE")
	if p == "" {
		t.Skip()
	}
	_, raw, err := evid.LoadReplayCase(p)
	if err != nil {
		t.Fatal(err)
	}
	var c Case
	json.Unmarshal(raw, &c)
	class := os.Getenv("REDUCE_CLASS")
	c.Items = c.Items[:1]
	pred := func() bool {
		defer func() { recover() }()
		return failsSame(c, class)
	}
	if !pred() {
		t.Fatal("does not fail")
	}
	// only element/field simplification that keeps arity for messages is valid:
	// GoValue panics on arity mismatch, which pred treats as "not failing"
	shrinkVal(&c.Items[0].V, pred)
	b, _ := json.Marshal(c)
	fmt.Println(string(b))
	for _, f := range checkAll(&c, nil) {
		fmt.Println(f.Class, f.Error())
	}
}
