// Package evid is the bookkeeping shared by every property package: it counts
// what the generators produced, keeps the distinct non-trivial set, samples,
// labels, known-finding exclusions, writes replay files for violations and the
// per-shard result file that bin/check.py merges into /verif/evidence/<id>.json.
//
// Environment (set by bin/check.py):
//
//	VERIF_OUT        shard result file (JSON)
//	VERIF_HASHES     file receiving the distinct-hash set (binary uint64 LE)
//	VERIF_REPLAY_DIR directory for replay files of violations
//	VERIF_KNOWN      path of known_findings.json
//	VERIF_SEED       integer seed (default 1)
//	VERIF_TIER       quick | thorough
//	VERIF_SHARD / VERIF_NSHARDS   shard index / count
//	VERIF_SCALE      float multiplier for case counts (default 1)
//	VERIF_JOURNAL    journal file: last record = case in flight when the process died
//	VERIF_REPLAY     replay file to execute (TestReplay) instead of generating
//	VERIF_CHILD      name of a child entry point (re-exec of the test binary)
package evid

import (
	"encoding/binary"
	"encoding/hex"
	"encoding/json"
	"flag"
	"fmt"
	"hash/fnv"
	"os"
	"os/exec"
	"path/filepath"
	"sort"
	"strconv"
	"strings"
	"sync"
	"testing"
	"time"

	"pgregory.net/rapid"
)

// Failure is what an oracle returns when a case does not satisfy it.
type Failure struct {
	Oracle   string `json:"oracle"`
	Observed string `json:"observed"`
	Expected string `json:"expected"`
	// Class is a short machine tag chosen by the oracle (e.g. "panic",
	// "err-mismatch", "bytes-mismatch") that known-finding predicates may use.
	Class string `json:"class,omitempty"`
}

func (f *Failure) Error() string {
	return fmt.Sprintf("%s: observed %s, expected %s", f.Oracle, f.Observed, f.Expected)
}

// Finding is one entry of known_findings.json.
type Finding struct {
	ID       string          `json:"id"`
	Property string          `json:"property"`
	Status   string          `json:"status"` // known | fixed
	Commit   string          `json:"commit,omitempty"`
	Class    string          `json:"class"`
	What     string          `json:"what"`
	Witness  json.RawMessage `json:"witness,omitempty"`
}

type violation struct {
	Test   string   `json:"test"`
	Replay string   `json:"replay"`
	Fail   *Failure `json:"failure"`
}

type checkStat struct {
	Name      string `json:"name"`
	Requested int    `json:"requested"`
	Completed int    `json:"completed"`
	Failed    bool   `json:"failed"`
}

type state struct {
	mu          sync.Mutex
	property    string
	evaluations int64
	hashes      map[uint64]struct{}
	hashCapped  bool
	counted     int64
	labels      map[string]int64
	excluded    map[string]int64
	samples     []json.RawMessage
	sampleSeen  int64
	violations  []violation
	known       []string // KNOWN-FINDING lines
	notes       []string
	checks      []*checkStat
	findings    []Finding
	exhaustive  bool
	start       time.Time
	bestReplay  map[string]int // test -> size of saved replay
}

var st = &state{
	hashes:     map[uint64]struct{}{},
	labels:     map[string]int64{},
	excluded:   map[string]int64{},
	bestReplay: map[string]int{},
}

const hashCap = 4 << 20
const sampleCap = 6

// ---------------------------------------------------------------- env helpers

func Seed() uint64 {
	if s := os.Getenv("VERIF_SEED"); s != "" {
		if v, err := strconv.ParseInt(s, 10, 64); err == nil {
			return uint64(v)
		}
	}
	return 1
}

func Tier() string {
	if os.Getenv("VERIF_TIER") == "thorough" {
		return "thorough"
	}
	return "quick"
}

func Thorough() bool { return Tier() == "thorough" }

func envInt(name string, def int) int {
	if s := os.Getenv(name); s != "" {
		if v, err := strconv.Atoi(s); err == nil {
			return v
		}
	}
	return def
}

func Shard() int { return envInt("VERIF_SHARD", 0) }
func NShards() int {
	n := envInt("VERIF_NSHARDS", 1)
	if n < 1 {
		n = 1
	}
	return n
}

func Scale() float64 {
	if s := os.Getenv("VERIF_SCALE"); s != "" {
		if v, err := strconv.ParseFloat(s, 64); err == nil && v > 0 {
			return v
		}
	}
	return 1
}

// Scaled returns n scaled by VERIF_SCALE (at least 1).
func Scaled(n int) int {
	v := int(float64(n) * Scale())
	if v < 1 {
		v = 1
	}
	return v
}

func splitmix(x uint64) uint64 {
	x += 0x9e3779b97f4a7c15
	z := x
	z = (z ^ (z >> 30)) * 0xbf58476d1ce4e5b9
	z = (z ^ (z >> 27)) * 0x94d049bb133111eb
	return z ^ (z >> 31)
}

// SeedFor derives a non-zero rapid seed from VERIF_SEED, the shard and a name.
func SeedFor(name string) uint64 {
	h := fnv.New64a()
	h.Write([]byte(name))
	s := splitmix(Seed()*0x100000001b3 ^ splitmix(uint64(Shard())+1) ^ h.Sum64())
	if s == 0 {
		s = 1
	}
	return s
}

// ---------------------------------------------------------------- counters

func Eval(n int) {
	st.mu.Lock()
	st.evaluations += int64(n)
	st.mu.Unlock()
}

func Label(name string) {
	st.mu.Lock()
	st.labels[name]++
	st.mu.Unlock()
}

func LabelN(name string, n int) {
	st.mu.Lock()
	st.labels[name] += int64(n)
	st.mu.Unlock()
}

func Excluded(class string) {
	st.mu.Lock()
	st.excluded[class]++
	st.mu.Unlock()
}

func Note(s string) {
	st.mu.Lock()
	st.notes = append(st.notes, s)
	st.mu.Unlock()
}

func SetExhaustive(b bool) { st.mu.Lock(); st.exhaustive = b; st.mu.Unlock() }

// Hash is FNV-1a 64 of the parts.
func Hash(parts ...[]byte) uint64 {
	h := fnv.New64a()
	for _, p := range parts {
		var l [4]byte
		binary.LittleEndian.PutUint32(l[:], uint32(len(p)))
		h.Write(l[:])
		h.Write(p)
	}
	return h.Sum64()
}

func HashS(parts ...string) uint64 {
	h := fnv.New64a()
	for _, p := range parts {
		var l [4]byte
		binary.LittleEndian.PutUint32(l[:], uint32(len(p)))
		h.Write(l[:])
		h.Write([]byte(p))
	}
	return h.Sum64()
}

// NonTrivial records a distinct non-trivial case by hash.
func NonTrivial(h uint64) {
	st.mu.Lock()
	if len(st.hashes) < hashCap {
		st.hashes[h] = struct{}{}
	} else {
		st.hashCapped = true
	}
	st.mu.Unlock()
}

// NonTrivialCounted adds n cases that are distinct by construction (disjoint
// parts of an exhaustive enumeration) without hashing them.
func NonTrivialCounted(n int) {
	st.mu.Lock()
	st.counted += int64(n)
	st.mu.Unlock()
}

// Sample keeps a few cases (the first ones and then a deterministic thinning).
func Sample(v any) {
	st.mu.Lock()
	defer st.mu.Unlock()
	st.sampleSeen++
	n := st.sampleSeen
	keep := len(st.samples) < sampleCap/2 || (n&(n-1)) == 0 // first 3 and powers of two
	if !keep {
		return
	}
	b, err := json.Marshal(v)
	if err != nil {
		b, _ = json.Marshal(fmt.Sprintf("%+v", v))
	}
	if len(b) > 1500 {
		b, _ = json.Marshal(string(b[:1500]) + "…(truncated)")
	}
	if len(st.samples) < sampleCap {
		st.samples = append(st.samples, b)
	} else {
		// overwrite slots 3.. round-robin so late (larger) cases are represented
		st.samples[sampleCap/2+int(n%int64(sampleCap/2))] = b
	}
}

// SampleWanted reports whether the next Sample call would keep the value
// (lets callers skip building expensive descriptions).
func SampleWanted() bool {
	st.mu.Lock()
	defer st.mu.Unlock()
	n := st.sampleSeen + 1
	return len(st.samples) < sampleCap/2 || (n&(n-1)) == 0
}

// ---------------------------------------------------------------- known findings

func loadFindings() {
	p := os.Getenv("VERIF_KNOWN")
	if p == "" {
		p = "/verif/known_findings.json"
	}
	b, err := os.ReadFile(p)
	if err != nil {
		return
	}
	var f struct {
		Findings []Finding `json:"findings"`
	}
	if err := json.Unmarshal(b, &f); err != nil {
		fmt.Fprintf(os.Stderr, "evid: cannot parse %s: %v\n", p, err)
		os.Exit(2)
	}
	for _, x := range f.Findings {
		if x.Property == st.property {
			st.findings = append(st.findings, x)
		}
	}
}

// Findings returns the entries of known_findings.json for this property.
func Findings() []Finding { return st.findings }

// KnownActive reports whether class is listed with status "known".
func KnownActive(class string) bool {
	for _, f := range st.findings {
		if f.Class == class && f.Status == "known" {
			return true
		}
	}
	return false
}

// Class couples a known-finding class name with its witness. Witness returns
// a non-nil Failure when the defect still reproduces on the current tree.
type Class struct {
	Name    string
	Witness func() *Failure
}

// RunWitnesses is called from each package's TestKnownFindings. For every
// listed finding of this property it runs the registered witness:
//   - status known, witness fails  -> KNOWN-FINDING line (exit code unaffected)
//   - status known, witness passes -> note (the finding no longer reproduces)
//   - status fixed, witness fails  -> VIOLATION (regression of a repaired defect)
//
// A listed class with no registered witness is an infrastructure error.
func RunWitnesses(t *testing.T, classes []Class) {
	reg := map[string]Class{}
	for _, c := range classes {
		reg[c.Name] = c
	}
	for _, f := range st.findings {
		c, ok := reg[f.Class]
		if !ok {
			t.Errorf("known_findings.json lists class %q (%s) but the harness has no witness for it", f.Class, f.ID)
			Note("missing witness for " + f.ID)
			continue
		}
		fail := c.Witness()
		Eval(1)
		switch {
		case f.Status == "known" && fail != nil:
			st.mu.Lock()
			st.known = append(st.known, fmt.Sprintf("KNOWN-FINDING: property=%s %s [%s] %s", st.property, f.ID, f.Class, f.What))
			st.mu.Unlock()
		case f.Status == "known" && fail == nil:
			Note(fmt.Sprintf("listed finding %s (%s) no longer reproduces on this tree", f.ID, f.Class))
		case f.Status == "fixed" && fail != nil:
			fail.Class = "regression-of-" + f.Class
			Violation(t, "witness:"+f.Class, map[string]any{"finding": f.ID, "class": f.Class, "what": f.What, "witness": f.Witness}, fail)
		}
	}
}

// ---------------------------------------------------------------- violations

type fataler interface {
	Fatalf(format string, args ...any)
	Helper()
}

// Violation saves the case as a replay file (keeping the smallest one per
// test name, so that the file left after rapid's shrinking is the minimal
// case) and fails the test.
func Violation(t fataler, test string, c any, f *Failure) {
	t.Helper()
	path := saveReplay(test, c, f)
	st.mu.Lock()
	found := false
	for i := range st.violations {
		if st.violations[i].Test == test {
			st.violations[i].Fail = f
			st.violations[i].Replay = path
			found = true
		}
	}
	if !found {
		st.violations = append(st.violations, violation{Test: test, Replay: path, Fail: f})
	}
	st.mu.Unlock()
	flush()
	if f.Class == "hang" {
		// a call that does not return: the stuck goroutine cannot be stopped, so neither shrinking (every
		// attempt would wait for the limit again) nor the rest of the run is meaningful
		fmt.Printf("VIOLATION %s/%s: %s (replay %s)\n", st.property, test, f.Error(), path)
		os.Exit(1)
	}
	t.Fatalf("VIOLATION %s/%s: %s (replay %s)", st.property, test, f.Error(), path)
}

func saveReplay(test string, c any, f *Failure) string {
	dir := os.Getenv("VERIF_REPLAY_DIR")
	if dir == "" {
		dir = filepath.Join(os.TempDir(), "verif-replays")
	}
	os.MkdirAll(dir, 0o755)
	name := fmt.Sprintf("%s-%s-s%d.json", st.property, sanitize(test), Shard())
	path := filepath.Join(dir, name)
	doc := map[string]any{
		"property": st.property,
		"test":     test,
		"case":     c,
		"oracle":   f.Oracle,
		"observed": f.Observed,
		"expected": f.Expected,
		"class":    f.Class,
		"seed":     Seed(),
		"shard":    Shard(),
	}
	b, err := json.MarshalIndent(doc, "", " ")
	if err != nil {
		doc["case"] = fmt.Sprintf("%+v", c)
		b, _ = json.MarshalIndent(doc, "", " ")
	}
	st.mu.Lock()
	best, ok := st.bestReplay[test]
	if !ok || len(b) <= best {
		st.bestReplay[test] = len(b)
		st.mu.Unlock()
		os.WriteFile(path, b, 0o644)
	} else {
		st.mu.Unlock()
	}
	return path
}

func sanitize(s string) string {
	var sb strings.Builder
	for _, r := range s {
		if r >= 'a' && r <= 'z' || r >= 'A' && r <= 'Z' || r >= '0' && r <= '9' || r == '-' || r == '_' {
			sb.WriteRune(r)
		} else {
			sb.WriteByte('_')
		}
	}
	return sb.String()
}

// ---------------------------------------------------------------- journal

var journalMu sync.Mutex

// Journal records the case about to be executed; if the process dies the
// driver turns the last record into the replay file.
func Journal(test string, c any) {
	p := os.Getenv("VERIF_JOURNAL")
	if p == "" {
		return
	}
	b, err := json.Marshal(map[string]any{"property": st.property, "test": test, "case": c})
	if err != nil {
		return
	}
	journalMu.Lock()
	os.WriteFile(p, b, 0o644)
	journalMu.Unlock()
}

// JournalClear removes the in-flight record (call after the risky call returned).
func JournalClear() {
	p := os.Getenv("VERIF_JOURNAL")
	if p == "" {
		return
	}
	journalMu.Lock()
	os.Remove(p)
	journalMu.Unlock()
}

// ---------------------------------------------------------------- rapid wrapper

// Check runs prop under rapid with n×VERIF_SCALE cases and a seed derived
// from VERIF_SEED, the shard index and name. It records how many cases
// completed so the driver can tell "held on N cases" from "stopped early".
func Check(t *testing.T, name string, n int, prop func(t *rapid.T)) {
	t.Helper()
	n = Scaled(n)
	cs := &checkStat{Name: name, Requested: n}
	st.mu.Lock()
	st.checks = append(st.checks, cs)
	st.mu.Unlock()
	flag.Set("rapid.checks", strconv.Itoa(n))
	flag.Set("rapid.seed", strconv.FormatUint(SeedFor(name), 10))
	flag.Set("rapid.nofailfile", "true")
	if os.Getenv("VERIF_SHRINKTIME") != "" {
		flag.Set("rapid.shrinktime", os.Getenv("VERIF_SHRINKTIME"))
	} else {
		flag.Set("rapid.shrinktime", "20s")
	}
	rapid.Check(t, func(rt *rapid.T) {
		prop(rt)
		st.mu.Lock()
		cs.Completed++
		st.mu.Unlock()
	})
	if t.Failed() {
		cs.Failed = true
	}
	flush()
}

// Enumerated registers an exhaustive/enumerated sub-check for the
// requested/completed accounting.
func Enumerated(name string, requested, completed int) {
	st.mu.Lock()
	st.checks = append(st.checks, &checkStat{Name: name, Requested: requested, Completed: completed})
	st.mu.Unlock()
}

// ---------------------------------------------------------------- child processes

// RunChild re-executes the current test binary with VERIF_CHILD=name and the
// payload on stdin; used for calls that may kill the process (stack overflow,
// fatal error). It returns the exit code (-1 for a signal), combined output
// and whether the time limit expired.
func RunChild(name string, payload []byte, limit time.Duration, extraEnv ...string) (code int, out []byte, timedOut bool) {
	cmd := exec.Command(os.Args[0], "-test.run", "^$")
	cmd.Env = append(os.Environ(), "VERIF_CHILD="+name, "VERIF_OUT=", "VERIF_HASHES=", "VERIF_JOURNAL=")
	cmd.Env = append(cmd.Env, extraEnv...)
	cmd.Stdin = strings.NewReader(string(payload))
	var buf strings.Builder
	cmd.Stdout = &buf
	cmd.Stderr = &buf
	if err := cmd.Start(); err != nil {
		return -2, []byte(err.Error()), false
	}
	done := make(chan error, 1)
	go func() { done <- cmd.Wait() }()
	select {
	case err := <-done:
		o := buf.String()
		if len(o) > 4000 {
			o = o[:2000] + "\n…\n" + o[len(o)-2000:]
		}
		if err == nil {
			return 0, []byte(o), false
		}
		if ee, ok := err.(*exec.ExitError); ok {
			return ee.ExitCode(), []byte(o), false
		}
		return -2, []byte(o + err.Error()), false
	case <-time.After(limit):
		cmd.Process.Kill()
		<-done
		return -1, []byte(buf.String()), true
	}
}

// Children maps VERIF_CHILD names to entry points; a child reads its payload
// from stdin and exits with its own status (0 = returned normally).
var Children = map[string]func(payload []byte) int{}

// ---------------------------------------------------------------- main / flush

// Main is called from TestMain of every property package.
func Main(m *testing.M, property string) {
	st.property = property
	st.start = time.Now()
	if c := os.Getenv("VERIF_CHILD"); c != "" {
		fn, ok := Children[c]
		if !ok {
			fmt.Fprintf(os.Stderr, "unknown child %q\n", c)
			os.Exit(97)
		}
		var payload []byte
		buf := make([]byte, 1<<16)
		for {
			n, err := os.Stdin.Read(buf)
			payload = append(payload, buf[:n]...)
			if err != nil {
				break
			}
		}
		os.Exit(fn(payload))
	}
	if files := os.Getenv("VERIF_MERGE"); files != "" {
		os.Exit(mergeHashes(strings.Split(files, ":")))
	}
	for _, a := range os.Args {
		if strings.HasPrefix(a, "-test.fuzzworker") {
			// native fuzzing worker process: the coordinator owns the shard result file
			os.Unsetenv("VERIF_OUT")
			os.Unsetenv("VERIF_HASHES")
			os.Unsetenv("VERIF_JOURNAL")
		}
	}
	loadFindings()
	code := m.Run()
	flush()
	writeHashes()
	os.Exit(code)
}

func flush() {
	p := os.Getenv("VERIF_OUT")
	if p == "" {
		return
	}
	st.mu.Lock()
	defer st.mu.Unlock()
	doc := map[string]any{
		"property":    st.property,
		"shard":       Shard(),
		"seed":        Seed(),
		"tier":        Tier(),
		"evaluations": st.evaluations,
		"distinct":    len(st.hashes),
		"counted":     st.counted,
		"hash_capped": st.hashCapped,
		"labels":      st.labels,
		"excluded":    st.excluded,
		"samples":     st.samples,
		"violations":  st.violations,
		"known":       st.known,
		"notes":       st.notes,
		"checks":      st.checks,
		"exhaustive":  st.exhaustive,
		"wall_s":      time.Since(st.start).Seconds(),
	}
	b, _ := json.Marshal(doc)
	tmp := p + ".tmp"
	os.WriteFile(tmp, b, 0o644)
	os.Rename(tmp, p)
}

func writeHashes() {
	p := os.Getenv("VERIF_HASHES")
	if p == "" {
		return
	}
	hs := make([]uint64, 0, len(st.hashes))
	for h := range st.hashes {
		hs = append(hs, h)
	}
	sort.Slice(hs, func(i, j int) bool { return hs[i] < hs[j] })
	b := make([]byte, 8*len(hs))
	for i, h := range hs {
		binary.LittleEndian.PutUint64(b[8*i:], h)
	}
	os.WriteFile(p, b, 0o644)
}

func mergeHashes(files []string) int {
	set := map[uint64]struct{}{}
	for _, f := range files {
		b, err := os.ReadFile(f)
		if err != nil {
			continue
		}
		for i := 0; i+8 <= len(b); i += 8 {
			set[binary.LittleEndian.Uint64(b[i:])] = struct{}{}
		}
	}
	fmt.Printf("DISTINCT %d\n", len(set))
	return 0
}

// Hex is a helper to render bytes in replay files / messages.
func Hex(b []byte) string { return hex.EncodeToString(b) }

// ReplayFile returns the file named by VERIF_REPLAY ("" when not replaying).
func ReplayFile() string { return os.Getenv("VERIF_REPLAY") }

// LoadReplayCase reads a replay file and returns the test name and raw case.
func LoadReplayCase(path string) (test string, c json.RawMessage, err error) {
	b, err := os.ReadFile(path)
	if err != nil {
		return "", nil, err
	}
	var doc struct {
		Test string          `json:"test"`
		Case json.RawMessage `json:"case"`
	}
	if err := json.Unmarshal(b, &doc); err != nil {
		return "", nil, err
	}
	return doc.Test, doc.Case, nil
}

// SavedReplays lists the committed regression cases for this property
// (harness/replay/<pkg>/*.json, path given by VERIF_SAVED).
func SavedReplays() []string {
	d := os.Getenv("VERIF_SAVED")
	if d == "" {
		return nil
	}
	m, _ := filepath.Glob(filepath.Join(d, "*.json"))
	sort.Strings(m)
	return m
}
