package c02

import (
	"testing"

	"verif/harness/evid"
	"verif/harness/jgen"
)

// fuzzTargets: representative static targets selected by the second fuzz argument.
var fuzzTargets = func() []jgen.TypeDesc {
	s, i, a := jgen.TypeDesc{K: "string"}, jgen.TypeDesc{K: "int"}, jgen.TypeDesc{K: "any"}
	tg := ",string"
	om := "o,omitempty"
	return []jgen.TypeDesc{
		a, {K: "@Rec"}, {K: "@SE8"}, {K: "@Wide"}, {K: "@UJ"}, {K: "@MU"}, {K: "number"}, {K: "raw"}, {K: "time"}, {K: "bytes"}, {K: "int8"}, {K: "uint64"}, {K: "float32"},
		{K: "slice", Elem: &a}, {K: "map", Key: &s, Elem: &a}, {K: "map", Key: &i, Elem: &s}, {K: "array", Len: 2, Elem: &i}, {K: "ptr", Elem: &s},
		{K: "map", Key: &s, Elem: &jgen.TypeDesc{K: "slice", Elem: &s}}, {K: "map", Key: &jgen.TypeDesc{K: "@KText"}, Elem: &i},
		{K: "struct", Fields: []jgen.FieldDesc{{Name: "A", Tag: &tg, T: i}, {Name: "B", Tag: &tg, T: jgen.TypeDesc{K: "bool"}}, {Name: "C", Tag: &om, T: jgen.TypeDesc{K: "slice", Elem: &i}}, {Name: "EmbA", Emb: true, T: jgen.TypeDesc{K: "@EmbA"}}}},
	}
}()

func FuzzUnmarshalDiff(f *testing.F) {
	for i, s := range []string{`{"v":1,"next":{"v":2},"kids":[{"v":3}],"m":{"a":null}}`, `{"A":"1","B":"true","o":[1,2],"x":"s","Y":"t"}`, `[1,2,3]`, `"2021-03-25T21:36:12.5Z"`, `{"+1":"a","01":"b"}`,
		`9223372036854775808`, `-129`, `3.5e38`, `"aGVsbG8="`, `{"F31":"true","last":[null]}`, `null`, `[`, `{"a":`, `"\ud83d"`, `1e400`, `{"1/2":3}`} {
		f.Add([]byte(s), uint8(i), uint8(i%3))
	}
	f.Fuzz(func(t *testing.T, doc []byte, sel uint8, api uint8) {
		if len(doc) > 1<<15 {
			return
		}
		td := fuzzTargets[int(sel)%len(fuzzTargets)]
		c := Case{Type: td, Docs: [][]byte{doc}, API: []string{"Unmarshal", "Parse", "Decoder"}[int(api)%3], UseNum: api&4 != 0, Disallow: api&8 != 0}
		fl, inf := checkCaseInfo(c)
		if fl != nil {
			if cls := knownClass(c, td.Type(), fl, inf); cls != "" && evid.KnownActive(cls) {
				return
			}
			evid.Violation(t, "FuzzUnmarshalDiff", c, fl)
		}
	})
}
