// C02 — json.Unmarshal accepts, rejects and decodes like encoding/json.
package c02

import (
	"bytes"
	stdjson "encoding/json"
	"fmt"
	"reflect"
	"runtime/debug"
	"strconv"
	"strings"
	"testing"
	"time"

	segjson "github.com/segmentio/encoding/json"
	"pgregory.net/rapid"

	"verif/harness/evid"
	"verif/harness/jgen"
)

func TestMain(m *testing.M) { evid.Main(m, "C02") }

type Case struct {
	Type     jgen.TypeDesc `json:"type"`
	Init     *jgen.Recipe  `json:"init,omitempty"` // prior state of the target (nil = zero value)
	Docs     [][]byte      `json:"docs"`           // history: decoded one after the other into the same variable
	API      string        `json:"api"`            // Unmarshal | Parse | Decoder
	UseNum   bool          `json:"use_number,omitempty"`
	Disallow bool          `json:"disallow_unknown,omitempty"`
	DocKind  string        `json:"doc_kind,omitempty"`
	// Straddle > 0 (Decoder only): the stream starts with white space such that this many bytes of
	// each document lie before the Decoder's 32 KiB buffer boundary and the rest arrive with the refill.
	Straddle int `json:"straddle,omitempty"`
}

func (c Case) stream(doc []byte) []byte {
	if c.Straddle <= 0 {
		return doc
	}
	return append(bytes.Repeat([]byte{' '}, 32768-c.Straddle), doc...)
}

func newTarget(c Case) reflect.Value {
	t := c.Type.Type()
	p := reflect.New(t)
	if c.Init != nil {
		p.Elem().Set(jgen.Build(t, *c.Init))
	}
	return p
}

type step struct {
	err error
	pan any
}

func stdStep(c Case, doc []byte, target any) (s step) {
	defer func() {
		if p := recover(); p != nil {
			s.pan = p
		}
	}()
	switch c.API {
	case "Decoder":
		d := stdjson.NewDecoder(bytes.NewReader(c.stream(doc)))
		if c.UseNum {
			d.UseNumber()
		}
		if c.Disallow {
			d.DisallowUnknownFields()
		}
		s.err = d.Decode(target)
	default:
		s.err = stdjson.Unmarshal(doc, target)
	}
	return
}

// segStep returns also whether the outcome is comparable (Parse that leaves a
// remainder is not a failure by Parse's own contract and has no counterpart).
func segStep(c Case, doc []byte, target any) (s step, comparable bool) {
	defer func() {
		if p := recover(); p != nil {
			s.pan = p
			comparable = true
		}
	}()
	in := append([]byte{}, doc...)
	switch c.API {
	case "Decoder":
		d := segjson.NewDecoder(bytes.NewReader(c.stream(in)))
		if c.UseNum {
			d.UseNumber()
		}
		if c.Disallow {
			d.DisallowUnknownFields()
		}
		s.err = d.Decode(target)
		return s, true
	case "Parse":
		rest, err := segjson.Parse(in, target, 0)
		s.err = err
		return s, err != nil || len(rest) == 0
	default:
		s.err = segjson.Unmarshal(in, target)
		return s, true
	}
}

func checkCase(c Case) *evid.Failure {
	f, _ := checkCaseInfo(c)
	return f
}

type info struct {
	accepts, rejects int
	nonzero          bool
	failedDoc        int
}

// safeDeepEqual compares the two targets with wild-address faults turned into panics, so that a
// corrupted pointer in the library's target is attributed to the case instead of killing the process.
func safeDeepEqual(a, b reflect.Value) (d string, pan any) {
	defer debug.SetPanicOnFault(debug.SetPanicOnFault(true))
	defer func() {
		if r := recover(); r != nil {
			pan = r
		}
	}()
	return jgen.DeepEqualValues(a, b, false), nil
}

func checkCaseInfo(c Case) (*evid.Failure, info) {
	var inf info
	inf.failedDoc = -1
	a := newTarget(c) // standard library
	b := newTarget(c) // segmentio
	for i, doc := range c.Docs {
		ws := stdStep(c, doc, a.Interface())
		if ws.pan != nil {
			return nil, inf // reference panicked: outside the domain
		}
		gs, cmp := segStep(c, doc, b.Interface())
		if gs.pan != nil {
			inf.failedDoc = i
			return &evid.Failure{Oracle: "no panic; same outcome as encoding/json", Observed: fmt.Sprintf("doc %d: panic: %v", i, gs.pan), Expected: fmt.Sprintf("err=%v", ws.err), Class: "panic"}, inf
		}
		if !cmp {
			return nil, inf
		}
		if (ws.err == nil) != (gs.err == nil) {
			cls := "accepts-invalid"
			if ws.err == nil {
				cls = "rejects-valid"
			}
			inf.failedDoc = i
			return &evid.Failure{Oracle: "fails exactly when encoding/json fails", Observed: fmt.Sprintf("doc %d %q: err=%v", i, trunc(doc), gs.err), Expected: fmt.Sprintf("err=%v", ws.err), Class: cls}, inf
		}
		if ws.err != nil {
			inf.rejects++
			return nil, inf // content after a failed decode is not part of the guarantee
		}
		inf.accepts++
		d, pan := safeDeepEqual(a.Elem(), b.Elem())
		if pan != nil {
			// reading the decoded value faulted: the decoder left a wild pointer in it
			inf.failedDoc = i
			return &evid.Failure{Oracle: "the decoded value can be read (no wild pointers left in the target)", Observed: fmt.Sprintf("doc %d %q: reading the target: %v", i, trunc(doc), pan), Expected: "a value deeply equal to encoding/json's", Class: "panic"}, inf
		}
		if d != "" {
			inf.failedDoc = i
			sa, _ := stdjson.Marshal(a.Interface())
			sb, _ := stdjson.Marshal(b.Interface())
			return &evid.Failure{Oracle: "targets deeply equal after decoding", Observed: fmt.Sprintf("doc %d %q: %s; got %s", i, trunc(doc), d, trunc(sb)), Expected: string(trunc(sa)), Class: "value"}, inf
		}
		if !a.Elem().IsZero() {
			inf.nonzero = true
		}
	}
	return nil, inf
}

func trunc(b []byte) []byte {
	if len(b) > 300 {
		return append(append([]byte{}, b[:300]...), "…"...)
	}
	return b
}

// ------------------------------------------------------------------ generation

func typeOpts() jgen.TypeOpts {
	o := jgen.TypeOpts{MaxDepth: 3, Avoid: map[string]bool{"duration": true}}
	if evid.Thorough() {
		o.MaxDepth = 4
	}
	for _, a := range avoidWhileKnown() {
		o.Avoid[a] = true
	}
	return o
}

func genCaseFor(rt *rapid.T, td jgen.TypeDesc, typ reflect.Type) Case {
	c := Case{Type: td}
	switch rapid.IntRange(0, 5).Draw(rt, "api") {
	case 0, 1, 2:
		c.API = "Unmarshal"
	case 3:
		c.API = "Parse"
	default:
		c.API = "Decoder"
		c.UseNum = rapid.Bool().Draw(rt, "usenum")
		c.Disallow = rapid.Bool().Draw(rt, "disallow")
		if rapid.IntRange(0, 3).Draw(rt, "straddle") == 0 {
			c.Straddle = rapid.IntRange(1, 48).Draw(rt, "nbefore")
		}
	}
	if rapid.IntRange(0, 2).Draw(rt, "prepop") == 0 {
		r := jgen.GenValue(rt, typ, jgen.ValOpts{MaxLen: 3, Avoid: map[string]bool{"badraw": true}})
		c.Init = &r
	}
	// when the target is an interface holding a non-nil pointer the documents are aimed at the pointee
	docType := typ
	if c.Init != nil && typ.Kind() == reflect.Interface && c.Init.Dyn != nil && c.Init.Dyn.K == "ptr" && len(c.Init.Elems) == 1 && !c.Init.Elems[0].Nil {
		docType = c.Init.Dyn.Elem.Type()
	}
	n := rapid.SampledFrom([]int{1, 1, 1, 2, 2, 3, 4}).Draw(rt, "ndocs")
	do := jgen.DocOpts{Avoid: map[string]bool{}}
	for _, a := range avoidWhileKnown() {
		do.Avoid[a] = true
	}
	for i := 0; i < n; i++ {
		var doc []byte
		k := rapid.IntRange(0, 9).Draw(rt, "dockind")
		switch {
		case k <= 5:
			doc = jgen.GenDocFor(rt, docType, do)
			c.DocKind = "directed"
		case k <= 7:
			doc = jgen.Mutate(rt, jgen.GenDocFor(rt, docType, do))
			c.DocKind = "mutated"
		case k == 8:
			doc = jgen.GenDocument(rt, 3)
			c.DocKind = "generic"
		default:
			doc = jgen.GenDocFor(rt, docType, do)
			if len(doc) > 0 {
				doc = doc[:rapid.IntRange(0, len(doc)).Draw(rt, "cut")]
			}
			c.DocKind = "truncated"
		}
		c.Docs = append(c.Docs, doc)
	}
	return c
}

func TestUnmarshalDiff(t *testing.T) {
	to := typeOpts()
	evid.Check(t, "UnmarshalDiff", 30000, func(rt *rapid.T) {
		td := jgen.GenType(rt, to)
		typ := td.Type()
		ncases := rapid.IntRange(1, 4).Draw(rt, "ncases")
		for i := 0; i < ncases; i++ {
			c := genCaseFor(rt, td, typ)
			runOne(rt, "UnmarshalDiff", c, typ)
		}
	})
}

// TestHeldPointers: the target (or a field / element of it) is an interface
// that already holds a non-nil pointer, which both libraries must decode
// into, under every Decoder option (the options must reach the nested decode).
func TestHeldPointers(t *testing.T) {
	anyT, strT := jgen.TypeDesc{K: "any"}, jgen.TypeDesc{K: "string"}
	tg := "n,omitempty"
	pointees := []jgen.TypeDesc{
		{K: "struct", Fields: []jgen.FieldDesc{{Name: "A", T: jgen.TypeDesc{K: "int"}}, {Name: "N", Tag: &tg, T: anyT}, {Name: "M", T: jgen.TypeDesc{K: "map", Key: &strT, Elem: &anyT}}}},
		{K: "map", Key: &strT, Elem: &anyT}, {K: "slice", Elem: &anyT}, anyT, {K: "int"}, {K: "@Rec"}, {K: "@EmbA"}, {K: "number"}, {K: "float64"},
	}
	wrappers := []func(jgen.TypeDesc) jgen.TypeDesc{
		func(a jgen.TypeDesc) jgen.TypeDesc { return a },
		func(a jgen.TypeDesc) jgen.TypeDesc {
			return jgen.TypeDesc{K: "struct", Fields: []jgen.FieldDesc{{Name: "X", T: a}, {Name: "Y", T: jgen.TypeDesc{K: "int"}}}}
		},
		func(a jgen.TypeDesc) jgen.TypeDesc { return jgen.TypeDesc{K: "slice", Elem: &a} },
		func(a jgen.TypeDesc) jgen.TypeDesc { return jgen.TypeDesc{K: "map", Key: &strT, Elem: &a} },
	}
	evid.Check(t, "HeldPointers", 3000, func(rt *rapid.T) {
		pt := rapid.SampledFrom(pointees).Draw(rt, "pointee")
		wi := rapid.IntRange(0, len(wrappers)-1).Draw(rt, "wrapper")
		td := wrappers[wi](anyT)
		typ := td.Type()
		ptr := jgen.TypeDesc{K: "ptr", Elem: &pt}
		held := jgen.Recipe{Dyn: &ptr, Elems: []jgen.Recipe{{Elems: []jgen.Recipe{jgen.GenValue(rt, pt.Type(), jgen.ValOpts{MaxLen: 3, Avoid: map[string]bool{"badraw": true}})}}}}
		var init jgen.Recipe
		var pre, post string
		switch wi {
		case 0:
			init = held
		case 1:
			init = jgen.Recipe{Elems: []jgen.Recipe{held, {I: 5}}}
			pre, post = `{"Y":1,"X":`, `}`
		case 2:
			init = jgen.Recipe{Elems: []jgen.Recipe{held, held}}
			pre, post = `[`, `]`
		default:
			init = jgen.Recipe{Keys: []jgen.Recipe{{S: []byte("k")}}, Elems: []jgen.Recipe{held}}
			pre, post = `{"k":`, `}`
		}
		c := Case{Type: td, Init: &init, DocKind: "held-pointer"}
		switch rapid.IntRange(0, 3).Draw(rt, "api") {
		case 0:
			c.API = "Unmarshal"
		case 1:
			c.API = "Parse"
		default:
			c.API = "Decoder"
			c.UseNum = rapid.Bool().Draw(rt, "usenum")
			c.Disallow = rapid.Bool().Draw(rt, "disallow")
		}
		for n := rapid.IntRange(1, 2).Draw(rt, "ndocs"); n > 0; n-- {
			var inner []byte
			if rapid.IntRange(0, 3).Draw(rt, "generic") == 0 {
				inner = jgen.GenDocument(rt, 2)
			} else {
				inner = jgen.GenDocFor(rt, pt.Type(), jgen.DocOpts{Wrong: 1})
			}
			c.Docs = append(c.Docs, []byte(pre+string(inner)+post))
		}
		runOne(rt, "HeldPointers", c, typ)
	})
}

func runOne(rt *rapid.T, test string, c Case, typ reflect.Type) {
	evid.Eval(1)
	evid.Journal(test, c) // a decode that corrupts memory may kill the process (GC: "found bad pointer"): the journal names the case in flight
	f, inf := checkCaseInfo(c)
	evid.JournalClear()
	evid.Label("api." + c.API)
	if c.Straddle > 0 {
		evid.Label("decoder.document-straddles-buffer-refill")
	}
	evid.Label("doc." + c.DocKind)
	evid.Label(fmt.Sprintf("history.len%d", len(c.Docs)))
	if c.Init != nil {
		evid.Label("target.prepopulated")
		if c.Init.Dyn != nil && c.Init.Dyn.K == "ptr" && len(c.Init.Elems) == 1 && !c.Init.Elems[0].Nil {
			evid.Label("target.interface-holding-non-nil-pointer")
		}
	}
	if inf.accepts > 0 {
		evid.LabelN("outcome.accept/accept", inf.accepts)
	}
	if inf.rejects > 0 {
		evid.LabelN("outcome.reject/reject", inf.rejects)
	}
	evid.Label("top.kind." + typ.Kind().String())
	long := false
	for _, d := range c.Docs {
		if len(d) >= 8 {
			long = true
		}
	}
	if (inf.accepts > 0 && inf.nonzero) || (inf.rejects > 0 && long) {
		evid.NonTrivial(evid.Hash([]byte(c.Type.String()), bytes.Join(c.Docs, []byte{0}), []byte(c.API), []byte(fmt.Sprint(c.UseNum, c.Disallow, c.Init != nil))))
	}
	evid.Sample(c)
	if f != nil {
		if cls := knownClass(c, typ, f, inf); cls != "" && evid.KnownActive(cls) {
			evid.Excluded(cls)
			return
		}
		evid.Violation(rt, test, c, f)
	}
}

// TestDuration: the sanctioned difference. A time.Duration target accepts what
// an int64 target accepts (same value) and additionally a quoted duration
// string as parsed by time.ParseDuration.
func TestDuration(t *testing.T) {
	evid.Check(t, "Duration", 4000, func(rt *rapid.T) {
		var doc string
		switch rapid.IntRange(0, 3).Draw(rt, "k") {
		case 0:
			doc = strconv.FormatInt(rapid.Int64().Draw(rt, "ns"), 10)
		case 1:
			doc = rapid.SampledFrom([]string{"0", "1", "-5", "1000000000", "9223372036854775807", "9223372036854775808", "-9223372036854775808", "1.5", "1e3", "null", "true", "[]", "{}", "\"\"", "01", "-"}).Draw(rt, "lit")
		case 2:
			d := time.Duration(rapid.Int64().Draw(rt, "d"))
			doc = strconv.Quote(d.String())
		default:
			doc = strconv.Quote(rapid.SampledFrom([]string{"1s", "1h2m3.5s", "-1.5ms", "1.5h", "2us", "3\u00b5s", "0", "bad", "", "1", "1 s", "1H", "+5m", "9223372036854775807ns", "9223372036854775808ns", ".5s", "1e3s"}).Draw(rt, "dur"))
		}
		evid.Eval(1)
		evid.Label("duration")
		evid.NonTrivial(evid.HashS("duration", doc))
		if f := checkDuration(doc); f != nil {
			evid.Violation(rt, "Duration", map[string]any{"duration_doc": doc}, f)
		}
	})
}

func checkDuration(doc string) (f *evid.Failure) {
	defer func() {
		if p := recover(); p != nil {
			f = &evid.Failure{Oracle: "no panic", Observed: fmt.Sprint("panic: ", p), Class: "panic"}
		}
	}()
	var got time.Duration = 12345
	gerr := segjson.Unmarshal([]byte(doc), &got)
	// reference: int64 decoding by encoding/json, or time.ParseDuration for a JSON string
	var wantOK bool
	var want time.Duration = 12345
	var s string
	if err := stdjson.Unmarshal([]byte(doc), &s); err == nil && strings.HasPrefix(strings.TrimSpace(doc), "\"") {
		d, perr := time.ParseDuration(s)
		wantOK, want = perr == nil, d
	} else {
		var n int64 = 12345
		if err := stdjson.Unmarshal([]byte(doc), &n); err == nil {
			wantOK, want = true, time.Duration(n)
		}
	}
	if wantOK != (gerr == nil) {
		return &evid.Failure{Oracle: "Duration target accepts exactly int64 documents and quoted durations accepted by time.ParseDuration", Observed: fmt.Sprintf("err=%v", gerr), Expected: fmt.Sprintf("accept=%v", wantOK), Class: "duration-accept"}
	}
	if wantOK && got != want {
		return &evid.Failure{Oracle: "Duration value equals the int64 / time.ParseDuration value", Observed: fmt.Sprint(int64(got)), Expected: fmt.Sprint(int64(want)), Class: "duration-value"}
	}
	return nil
}

// TestUnescape: Unescape / AppendUnescape on valid string literals against
// decoding the literal into a string with the standard library.
func TestUnescape(t *testing.T) {
	evid.Check(t, "Unescape", 20000, func(rt *rapid.T) {
		lit := jgen.GenStringLit(rt)
		evid.Eval(1)
		evid.Label("unescape")
		evid.NonTrivial(evid.HashS("unescape", lit))
		if f := checkUnescape(lit); f != nil {
			evid.Violation(rt, "Unescape", map[string]any{"lit": []byte(lit)}, f)
		}
	})
}

func checkUnescape(lit string) (f *evid.Failure) {
	defer func() {
		if p := recover(); p != nil {
			f = &evid.Failure{Oracle: "Unescape must not panic on a valid literal", Observed: fmt.Sprint("panic: ", p), Class: "panic"}
		}
	}()
	var want string
	if err := stdjson.Unmarshal([]byte(lit), &want); err != nil {
		return nil // not a valid literal for the reference
	}
	if got := segjson.Unescape([]byte(lit)); string(got) != want {
		return &evid.Failure{Oracle: "Unescape(lit) == encoding/json decoding of the literal", Observed: fmt.Sprintf("%q", got), Expected: fmt.Sprintf("%q", want), Class: "unescape"}
	}
	if got := segjson.AppendUnescape([]byte("pre"), []byte(lit), 0); string(got) != "pre"+want {
		return &evid.Failure{Oracle: "AppendUnescape(pre, lit) == pre + decoded", Observed: fmt.Sprintf("%q", got), Expected: fmt.Sprintf("%q", "pre"+want), Class: "unescape"}
	}
	return nil
}

func TestReplay(t *testing.T) {
	files := evid.SavedReplays()
	if p := evid.ReplayFile(); p != "" {
		files = []string{p}
	}
	for _, p := range files {
		_, raw, err := evid.LoadReplayCase(p)
		if err != nil {
			t.Fatalf("replay %s: %v", p, err)
		}
		var c Case
		if err := stdjson.Unmarshal(raw, &c); err != nil || c.Type.K == "" {
			var l struct{ Lit []byte }
			if stdjson.Unmarshal(raw, &l) == nil && l.Lit != nil {
				evid.Eval(1)
				if f := checkUnescape(string(l.Lit)); f != nil {
					evid.Violation(t, "Replay", l, f)
				}
			}
			continue
		}
		evid.Eval(1)
		typ := c.Type.Type()
		f, inf := checkCaseInfo(c)
		if f != nil {
			if cls := knownClass(c, typ, f, inf); cls != "" && evid.KnownActive(cls) {
				evid.Excluded(cls)
				continue
			}
			evid.Violation(t, "Replay", c, f)
		}
	}
}

func TestKnownFindings(t *testing.T) {
	cs := append([]evid.Class{}, classes...)
	for _, f := range evid.Findings() {
		if len(f.Witness) == 0 {
			continue
		}
		var c Case
		if err := stdjson.Unmarshal(f.Witness, &c); err != nil || c.Type.K == "" {
			t.Errorf("finding %s: witness is not a C02 case: %v", f.ID, err)
			continue
		}
		cs = append(cs, evid.Class{Name: f.Class, Witness: func() *evid.Failure { return checkCase(c) }})
	}
	evid.RunWitnesses(t, cs)
}
