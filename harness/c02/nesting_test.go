package c02

import (
	"fmt"
	"strings"
	"testing"

	"verif/harness/evid"
	"verif/harness/jgen"
)

// TestNestingLimit: documents nested just below, at and just above the limit encoding/json enforces
// (10000), decoded into the targets that have a decoder of their own for objects and arrays (the generic
// interface decoder, map[string]any, map[string]RawMessage, map[string]string, map[string][]string,
// map[string]bool, slices, a struct field, a recursive type): every decoder counts the levels it opens,
// so the outcome - and the value - must be encoding/json's whichever of them the document passes through.
func TestNestingLimit(t *testing.T) {
	shard, nshards, idx := evid.Shard(), evid.NShards(), 0
	str, anyT, raw, boolT := jgen.TypeDesc{K: "string"}, jgen.TypeDesc{K: "any"}, jgen.TypeDesc{K: "raw"}, jgen.TypeDesc{K: "bool"}
	strs := jgen.TypeDesc{K: "slice", Elem: &str}
	mapOf := func(e jgen.TypeDesc) jgen.TypeDesc { return jgen.TypeDesc{K: "map", Key: &str, Elem: &e} }
	mAny, mRaw := mapOf(anyT), mapOf(raw)
	mmAny := mapOf(mAny)
	tga := "a"
	targets := []jgen.TypeDesc{anyT, mAny, mRaw, mapOf(str), mapOf(strs), mapOf(boolT), mmAny, mapOf(mRaw), {K: "slice", Elem: &anyT}, {K: "slice", Elem: &mAny},
		{K: "struct", Fields: []jgen.FieldDesc{{Name: "A", Tag: &tga, T: mAny}}}, {K: "struct", Fields: []jgen.FieldDesc{{Name: "A", Tag: &tga, T: anyT}}}, {K: "@Rec"}, raw}
	n := 0
	depths, leaves, apis := []int{10000, 10001}, []string{"0", "{}"}, []string{"Unmarshal"}
	if evid.Thorough() {
		depths, leaves, apis = []int{9999, 10000, 10001, 10002}, []string{"0", `"s"`, "{}", "[]"}, []string{"Unmarshal", "Parse", "Decoder"}
	}
	for _, d := range depths {
		for _, shape := range []string{"[", `{"a":`, `[{"a":`, `{"a":[`} {
			unit := 1
			if len(shape) > 5 {
				unit = 2
			}
			k := d / unit
			closer := map[string]string{"[": "]", `{"a":`: "}", `[{"a":`: "}]", `{"a":[`: "]}"}[shape]
			for _, leaf := range leaves {
				doc := strings.Repeat(shape, k) + leaf + strings.Repeat(closer, k)
				for _, td := range targets {
					for _, api := range apis {
						if idx++; idx%nshards != shard {
							continue // the cases are spread over the shards (0.2 s each: encoding/json is slow on deep documents)
						}
						c := Case{Type: td, Docs: [][]byte{[]byte(doc)}, API: api}
						n++
						if f := checkCase(c); f != nil {
							evid.Violation(t, "NestingLimit", c, &evid.Failure{Oracle: f.Oracle + fmt.Sprintf(" [document: %q repeated %d times around %s; target %s; %s]", shape, k, leaf, td.String(), api), Observed: string(trunc([]byte(f.Observed))), Expected: string(trunc([]byte(f.Expected))), Class: f.Class})
						}
					}
				}
			}
		}
		evid.NonTrivial(evid.HashS("nesting-limit", fmt.Sprint(d)))
	}
	evid.Eval(n)
	evid.Label("nesting-limit.documents-x-targets")
	evid.Enumerated("NestingLimit", 1, 1)
}
