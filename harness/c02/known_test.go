package c02

import (
	"bytes"
	"reflect"
	"regexp"
	"strings"

	"verif/harness/evid"
	"verif/harness/jgen"
)

// Known-finding classes of C02 (see /verif/known_findings.json and DESIGN.md §7).
const (
	clsPtrPtrNull = "json-null-into-pointer-to-pointer"
	clsIntKeyForm = "json-map-integer-key-forms"
	clsEmbedDepth = "json-embedded-depth-dominance"
	clsUniFold    = "json-unicode-fold-field-match"
	clsStrNumber  = "json-string-option-on-number-type"
	clsStrUnmarsh = "json-string-option-on-unmarshaler-type"
)

func avoidWhileKnown() []string {
	var a []string
	if evid.KnownActive(clsPtrPtrNull) {
		a = append(a, "ptrptr")
	}
	if evid.KnownActive(clsEmbedDepth) {
		a = append(a, "multiembed")
	}
	if evid.KnownActive(clsUniFold) {
		a = append(a, "unifold")
	}
	if evid.KnownActive(clsStrNumber) {
		a = append(a, "string-on-number")
	}
	if evid.KnownActive(clsStrUnmarsh) {
		a = append(a, "string-on-unmarshaler")
	}
	return a
}

func hasPtrPtr(t reflect.Type, seen map[reflect.Type]bool) bool {
	if seen[t] {
		return false
	}
	seen[t] = true
	switch t.Kind() {
	case reflect.Ptr:
		if t.Elem().Kind() == reflect.Ptr {
			return true
		}
		return hasPtrPtr(t.Elem(), seen)
	case reflect.Slice, reflect.Array:
		return hasPtrPtr(t.Elem(), seen)
	case reflect.Map:
		return hasPtrPtr(t.Elem(), seen)
	case reflect.Struct:
		for i := 0; i < t.NumField(); i++ {
			if hasPtrPtr(t.Field(i).Type, seen) {
				return true
			}
		}
	}
	return false
}

func hasIntKeyMap(t reflect.Type, seen map[reflect.Type]bool) bool {
	if seen[t] {
		return false
	}
	seen[t] = true
	switch t.Kind() {
	case reflect.Ptr, reflect.Slice, reflect.Array:
		return hasIntKeyMap(t.Elem(), seen)
	case reflect.Map:
		switch t.Key().Kind() {
		case reflect.Int, reflect.Int8, reflect.Int16, reflect.Int32, reflect.Int64, reflect.Uint, reflect.Uint8, reflect.Uint16, reflect.Uint32, reflect.Uint64, reflect.Uintptr:
			if !jgen.HasMarshalMethods(t.Key()) {
				return true
			}
		}
		return hasIntKeyMap(t.Elem(), seen)
	case reflect.Struct:
		for i := 0; i < t.NumField(); i++ {
			if hasIntKeyMap(t.Field(i).Type, seen) {
				return true
			}
		}
	}
	return false
}

// hasMultiEmbed: some struct in t embeds two or more structs (directly).
func hasMultiEmbed(t reflect.Type, seen map[reflect.Type]bool) bool {
	if seen[t] {
		return false
	}
	seen[t] = true
	switch t.Kind() {
	case reflect.Ptr, reflect.Slice, reflect.Array:
		return hasMultiEmbed(t.Elem(), seen)
	case reflect.Map:
		return hasMultiEmbed(t.Key(), seen) || hasMultiEmbed(t.Elem(), seen)
	case reflect.Struct:
		n := 0
		for i := 0; i < t.NumField(); i++ {
			f := t.Field(i)
			ft := f.Type
			if ft.Kind() == reflect.Ptr {
				ft = ft.Elem()
			}
			if f.Anonymous && ft.Kind() == reflect.Struct {
				n++
			}
			if hasMultiEmbed(f.Type, seen) {
				return true
			}
		}
		return n >= 2
	}
	return false
}

// hasFoldName: a struct field name / tag name, or a key of the document, uses
// the Kelvin sign or the long s, which encoding/json folds to k / s.
func hasFoldName(t reflect.Type, seen map[reflect.Type]bool) bool {
	if seen[t] {
		return false
	}
	seen[t] = true
	switch t.Kind() {
	case reflect.Ptr, reflect.Slice, reflect.Array, reflect.Map:
		return hasFoldName(t.Elem(), seen)
	case reflect.Struct:
		for i := 0; i < t.NumField(); i++ {
			f := t.Field(i)
			if jgen.HasFoldRune(f.Name) || jgen.HasFoldRune(f.Tag.Get("json")) || hasFoldName(f.Type, seen) {
				return true
			}
		}
	}
	return false
}

// hasStringOnUnmarshaler: a field of bool / string / numeric kind with unmarshal methods carrying the ",string" option.
func hasStringOnUnmarshaler(t reflect.Type, seen map[reflect.Type]bool) bool {
	if seen[t] {
		return false
	}
	seen[t] = true
	switch t.Kind() {
	case reflect.Ptr, reflect.Slice, reflect.Array, reflect.Map:
		return hasStringOnUnmarshaler(t.Elem(), seen)
	case reflect.Struct:
		for i := 0; i < t.NumField(); i++ {
			f := t.Field(i)
			if strings.Contains(f.Tag.Get("json"), ",string") && jgen.StringOptionOnUnmarshaler(f.Type) {
				return true
			}
			if hasStringOnUnmarshaler(f.Type, seen) {
				return true
			}
		}
	}
	return false
}

// hasStringOnNumber: a json.Number field carrying the ",string" option.
func hasStringOnNumber(t reflect.Type, seen map[reflect.Type]bool) bool {
	if seen[t] {
		return false
	}
	seen[t] = true
	switch t.Kind() {
	case reflect.Ptr, reflect.Slice, reflect.Array, reflect.Map:
		return hasStringOnNumber(t.Elem(), seen)
	case reflect.Struct:
		for i := 0; i < t.NumField(); i++ {
			f := t.Field(i)
			ft := f.Type
			if ft.Kind() == reflect.Ptr {
				ft = ft.Elem()
			}
			if ft.String() == "json.Number" && strings.Contains(f.Tag.Get("json"), ",string") {
				return true
			}
			if hasStringOnNumber(f.Type, seen) {
				return true
			}
		}
	}
	return false
}

// a key that strconv.ParseInt accepts but that is not a canonical JSON integer: "+1", "01", "-01", "+0"
var oddIntKey = regexp.MustCompile(`"(\+[0-9]+|-?0[0-9]+)"\s*:`)

func knownClass(c Case, typ reflect.Type, f *evid.Failure, inf info) string {
	if f.Class == "panic" || inf.failedDoc < 0 {
		return ""
	}
	doc := c.Docs[inf.failedDoc]
	// every class whose predicate matches, in order; the first one that is still listed as known explains the failure
	var cands []string
	if hasMultiEmbed(typ, map[reflect.Type]bool{}) {
		cands = append(cands, clsEmbedDepth)
	}
	if hasStringOnNumber(typ, map[reflect.Type]bool{}) {
		cands = append(cands, clsStrNumber)
	}
	if hasStringOnUnmarshaler(typ, map[reflect.Type]bool{}) {
		cands = append(cands, clsStrUnmarsh)
	}
	if hasFoldName(typ, map[reflect.Type]bool{}) || jgen.HasFoldRune(string(doc)) || bytes.Contains(doc, []byte(`\u212a`)) || bytes.Contains(doc, []byte(`\u017f`)) {
		cands = append(cands, clsUniFold)
	}
	switch f.Class {
	case "value":
		if hasPtrPtr(typ, map[reflect.Type]bool{}) && bytes.Contains(doc, []byte("null")) {
			cands = append(cands, clsPtrPtrNull)
		}
	case "rejects-valid":
		if hasIntKeyMap(typ, map[reflect.Type]bool{}) && oddIntKey.Match(unescapeKeys(doc)) {
			cands = append(cands, clsIntKeyForm)
		}
	}
	for _, cls := range cands {
		if evid.KnownActive(cls) {
			return cls
		}
	}
	if len(cands) > 0 {
		return cands[0]
	}
	return ""
}

// unescapeKeys rewrites \u00XX escapes of ASCII characters so that the key
// pattern can be matched on documents that spell keys with escapes.
var uEsc = regexp.MustCompile(`\\u00([0-7][0-9a-fA-F])`)

func unescapeKeys(doc []byte) []byte {
	return uEsc.ReplaceAllFunc(doc, func(m []byte) []byte {
		var v byte
		for _, c := range m[4:] {
			v <<= 4
			switch {
			case c >= '0' && c <= '9':
				v |= c - '0'
			case c >= 'a' && c <= 'f':
				v |= c - 'a' + 10
			default:
				v |= c - 'A' + 10
			}
		}
		return []byte{v}
	})
}

func one(td jgen.TypeDesc, init *jgen.Recipe, docs ...string) *evid.Failure {
	c := Case{Type: td, Init: init, API: "Unmarshal"}
	for _, d := range docs {
		c.Docs = append(c.Docs, []byte(d))
	}
	return checkCase(c)
}

var classes = []evid.Class{
	{Name: clsStrUnmarsh, Witness: func() *evid.Failure {
		// struct{B ByteUV `json:",string"`} (uint8 kind, value-receiver UnmarshalJSON that accepts anything):
		// encoding/json hands the text inside the quotes to UnmarshalJSON as it is (`0\n`, ` "true"`), the
		// library requires it to be one JSON value first
		tg := ",string"
		td := jgen.TypeDesc{K: "struct", Fields: []jgen.FieldDesc{{Name: "B", Tag: &tg, T: jgen.TypeDesc{K: "@ByteUV"}}}}
		if f := one(td, nil, `{"B":"0\n"}`, `{"B":" \"true\""}`, `{"B":"x"}`, `{"B":"\"ERR\""}`, `{"B":5}`, `{"B":""}`); f != nil {
			return f
		}
		// UnmarshalText wants a JSON string inside the quotes, a quoted null is null (it clears a pointer),
		// any other text starting with n is refused
		ut, pt := jgen.TypeDesc{K: "@ByteUT"}, jgen.TypeDesc{K: "@ByteUP"}
		td = jgen.TypeDesc{K: "struct", Fields: []jgen.FieldDesc{{Name: "T", Tag: &tg, T: ut}, {Name: "P", Tag: &tg, T: jgen.TypeDesc{K: "ptr", Elem: &ut}}, {Name: "J", Tag: &tg, T: jgen.TypeDesc{K: "ptr", Elem: &pt}}}}
		if f := one(td, nil, `{"T":"null","P":"\"t7\""}`, `{"P":"null","J":"null"}`, `{"T":"\"t5\"","J":"b9"}`, `{"T":"\"\\u0074\\u0035\""}`, `{"T":"t5"}`); f != nil {
			return f
		}
		for _, doc := range []string{`{"P":"nope"}`, `{"J":"12 "}`, `{"B":5}`, `{"T":"\"t5"}`, `{"J":"7","P":"\"7\"","T":"\"t1\""}`} {
			if f := one(td, nil, doc); f != nil {
				return f
			}
		}
		return nil
	}},
	{Name: clsStrNumber, Witness: func() *evid.Failure {
		// struct{N json.Number `json:",string"`}: encoding/json stores the quoted text without
		// validating it ("-0 " -> Number("-0 ")), the library parses it as a number and rejects / trims it
		tg := ",string"
		td := jgen.TypeDesc{K: "struct", Fields: []jgen.FieldDesc{{Name: "N", Tag: &tg, T: jgen.TypeDesc{K: "number"}}}}
		return one(td, nil, `{"N":"-0 "}`)
	}},
	{Name: "json-string-option-float-held-to-json-syntax", Witness: func() *evid.Failure {
		// struct{F float64 `json:",string"`}: encoding/json hands the quoted text to strconv.ParseFloat
		tg := ",string"
		td := jgen.TypeDesc{K: "struct", Fields: []jgen.FieldDesc{{Name: "F", Tag: &tg, T: jgen.TypeDesc{K: "float64"}}, {Name: "G", Tag: &tg, T: jgen.TypeDesc{K: "float32"}}}}
		return one(td, nil, `{"F":"007"}`, `{"F":"5.","G":"-.5"}`, `{"F":"0x1p-2"}`, `{"G":"-Inf"}`)
	}},
	{Name: "json-named-empty-interface-holding-value", Witness: func() *evid.Failure {
		// var x AnyT = 1; Unmarshal(`true`, &x): encoding/json replaces the held value
		i := jgen.TypeDesc{K: "int"}
		return one(jgen.TypeDesc{K: "@AnyT"}, &jgen.Recipe{Dyn: &i, Elems: []jgen.Recipe{{I: 1}}}, `true`)
	}},
	{Name: "json-null-into-undecodable-type", Witness: func() *evid.Failure {
		// null into a channel variable and into a map whose key type cannot be decoded
		if f := one(jgen.TypeDesc{K: "@ChanM"}, nil, `null`); f != nil {
			return f
		}
		k, e := jgen.TypeDesc{K: "@KPS"}, jgen.TypeDesc{K: "int"}
		return one(jgen.TypeDesc{K: "map", Key: &k, Elem: &e}, &jgen.Recipe{}, `null`)
	}},
	{Name: "json-string-option-inner-text-checked-with-outer-flags", Witness: func() *evid.Failure {
		// struct{S string `json:",string"`}: the quoted text "a<TAB>b" (raw control character once the outer
		// escapes are resolved) is not a JSON string; encoding/json rejects it
		tg := ",string"
		td := jgen.TypeDesc{K: "struct", Fields: []jgen.FieldDesc{{Name: "S", Tag: &tg, T: jgen.TypeDesc{K: "string"}}}}
		return one(td, nil, `{"S":"\"a\tb\""}`)
	}},
	{Name: clsEmbedDepth, Witness: func() *evid.Failure {
		// struct{ EmbA; Deep }: encoding/json resolves "A" to the shallower EmbA.A (an int) and rejects
		// {"A":{}}; the library treats A as ambiguous, ignores the key and accepts.
		td := jgen.TypeDesc{K: "struct", Fields: []jgen.FieldDesc{{Name: "EmbA", Emb: true, T: jgen.TypeDesc{K: "@EmbA"}}, {Name: "Deep", Emb: true, T: jgen.TypeDesc{K: "@Deep"}}}}
		return one(td, nil, `{"A":{}}`)
	}},
	{Name: clsUniFold, Witness: func() *evid.Failure {
		// field named by tag "\u017f" (long s): encoding/json matches the key "S" to it (Unicode
		// simple folding) and rejects true for an int; the library does not match and accepts.
		tg := "\u017f"
		td := jgen.TypeDesc{K: "struct", Fields: []jgen.FieldDesc{{Name: "F", Tag: &tg, T: jgen.TypeDesc{K: "int"}}}}
		return one(td, nil, `{"S":true}`)
	}},
	{Name: clsPtrPtrNull, Witness: func() *evid.Failure {
		// var x **bool; Unmarshal("true", &x); Unmarshal("null", &x): encoding/json sets x = nil,
		// the library keeps x and clears *x only (behaviour pinned by the repository's own test suite)
		b := jgen.TypeDesc{K: "bool"}
		p := jgen.TypeDesc{K: "ptr", Elem: &b}
		return one(jgen.TypeDesc{K: "ptr", Elem: &p}, nil, "true", "null")
	}},
	{Name: clsIntKeyForm, Witness: func() *evid.Failure {
		i := jgen.TypeDesc{K: "int"}
		return one(jgen.TypeDesc{K: "map", Key: &i, Elem: &i}, nil, `{"+1":1}`)
	}},
}
