package pschema

import (
	"bytes"
	"fmt"
	"math"
	"reflect"
	"sort"
	"unsafe"

	"google.golang.org/protobuf/reflect/protoreflect"
	"google.golang.org/protobuf/types/dynamicpb"
)

// Val is the serialisable value recipe / neutral value tree.
//
//	scalar           N (bool 0/1, integers as two's complement / zero extended,
//	                 float32/float64 as IEEE bits) or B (string / bytes)
//	message          L = one Val per field (declaration order); Nil = nil pointer / absent
//	repeated field   L = elements; Nil = nil slice
//	map field        L = key0, value0, key1, value1, ...; Nil = nil map
//	bytes            B; Nil = nil slice
type Val struct {
	Nil bool   `json:"nil,omitempty"`
	N   uint64 `json:"n,omitempty"`
	B   []byte `json:"b,omitempty"`
	L   []Val  `json:"l,omitempty"`
}

// ZeroMsg is the all-zero value of message mi (nested by-value messages zero,
// pointers nil).
func (s *Schema) ZeroMsg(m *Message) Val {
	v := Val{L: make([]Val, len(m.Fields))}
	for i := range m.Fields {
		f := &m.Fields[i]
		switch {
		case f.Rep, f.K == KMap, f.K == KBytes:
			v.L[i] = Val{Nil: true}
		case f.K == KMsg:
			v.L[i] = Val{Nil: true}
		}
	}
	return v
}

// ------------------------------------------------------------------ Val -> Go

func setScalar(dst reflect.Value, k Kind, v *Val) {
	switch k {
	case KBool:
		dst.SetBool(v.N != 0)
	case KInt, KInt32, KInt64:
		dst.SetInt(int64(v.N))
	case KUint, KUint32, KUint64:
		dst.SetUint(v.N)
	case KFloat32:
		// no float64 round trip: keeps signalling-NaN bits intact
		*(*float32)(unsafe.Pointer(dst.UnsafeAddr())) = math.Float32frombits(uint32(v.N))
	case KFloat64:
		*(*float64)(unsafe.Pointer(dst.UnsafeAddr())) = math.Float64frombits(v.N)
	case KString:
		dst.SetString(string(v.B))
	case KBytes:
		if v.Nil {
			dst.Set(reflect.Zero(dst.Type()))
		} else {
			dst.SetBytes(append(make([]byte, 0, len(v.B)), v.B...))
		}
	default:
		panic("setScalar: " + string(k))
	}
}

// GoValue builds a new addressable Go value of message mi; the result is the
// struct value (use .Addr() for the pointer form).
func (b *Built) GoValue(mi int, v *Val) reflect.Value {
	dst := reflect.New(b.Go[mi]).Elem()
	b.fillMsg(dst, &b.S.Msgs[mi], v)
	return dst
}

func (b *Built) fillMsg(dst reflect.Value, m *Message, v *Val) {
	if len(v.L) != len(m.Fields) {
		panic(fmt.Sprintf("pschema: value has %d fields, message %d", len(v.L), len(m.Fields)))
	}
	for i := range m.Fields {
		b.fillField(dst.Field(m.GoIndex(i)), &m.Fields[i], &v.L[i])
	}
}

// GoField builds the Go value of field f alone (its Go field type) from v.
func (b *Built) GoField(f *Field, v *Val) reflect.Value {
	dst := reflect.New(b.goFieldType(f)).Elem()
	b.fillField(dst, f, v)
	return dst
}

// fillOne sets a slot of kind k (scalar or message, possibly by pointer).
func (b *Built) fillOne(dst reflect.Value, k Kind, msg int, ptr bool, v *Val) {
	if k != KMsg {
		setScalar(dst, k, v)
		return
	}
	if ptr {
		if v.Nil {
			dst.Set(reflect.Zero(dst.Type()))
			return
		}
		p := reflect.New(dst.Type().Elem()) // *struct or *PMsg / *CMsg
		b.fillMsg(p.Elem(), &b.S.Msgs[msg], v)
		dst.Set(p)
		return
	}
	if v.Nil {
		return // by value: absent == zero
	}
	b.fillMsg(dst, &b.S.Msgs[msg], v)
}

func (b *Built) fillField(dst reflect.Value, f *Field, v *Val) {
	switch {
	case f.K == KMap:
		if v.Nil {
			return
		}
		mp := reflect.MakeMapWithSize(dst.Type(), len(v.L)/2)
		for j := 0; j+1 < len(v.L); j += 2 {
			k := reflect.New(dst.Type().Key()).Elem()
			setScalar(k, f.Key, &v.L[j])
			e := reflect.New(dst.Type().Elem()).Elem()
			b.fillOne(e, f.Val, f.Msg, f.Ptr, &v.L[j+1])
			mp.SetMapIndex(k, e)
		}
		dst.Set(mp)
	case f.Rep:
		if v.Nil {
			return
		}
		sl := reflect.MakeSlice(dst.Type(), len(v.L), len(v.L))
		for j := range v.L {
			b.fillOne(sl.Index(j), f.K, f.Msg, f.Ptr, &v.L[j])
		}
		dst.Set(sl)
	default:
		b.fillOne(dst, f.K, f.Msg, f.Ptr, v)
	}
}

// ------------------------------------------------------------------ Go -> Val

func getScalar(src reflect.Value, k Kind) Val {
	switch k {
	case KBool:
		if src.Bool() {
			return Val{N: 1}
		}
		return Val{}
	case KInt, KInt32, KInt64:
		return Val{N: uint64(src.Int())}
	case KUint, KUint32, KUint64:
		return Val{N: src.Uint()}
	case KFloat32:
		if src.CanAddr() {
			return Val{N: uint64(math.Float32bits(*(*float32)(unsafe.Pointer(src.UnsafeAddr()))))}
		}
		return Val{N: uint64(math.Float32bits(float32(src.Float())))}
	case KFloat64:
		return Val{N: math.Float64bits(src.Float())}
	case KString:
		return Val{B: []byte(src.String())}
	case KBytes:
		if src.IsNil() {
			return Val{Nil: true}
		}
		return Val{B: append([]byte(nil), src.Bytes()...)}
	}
	panic("getScalar: " + string(k))
}

// FromGo reads a Go struct value of message mi back into a Val.
func (b *Built) FromGo(mi int, src reflect.Value) Val {
	return b.readMsg(&b.S.Msgs[mi], src)
}

func (b *Built) readMsg(m *Message, src reflect.Value) Val {
	v := Val{L: make([]Val, len(m.Fields))}
	for i := range m.Fields {
		v.L[i] = b.readField(&m.Fields[i], src.Field(m.GoIndex(i)))
	}
	return v
}

func (b *Built) readOne(src reflect.Value, k Kind, msg int, ptr bool) Val {
	if k != KMsg {
		return getScalar(src, k)
	}
	if ptr {
		if src.IsNil() {
			return Val{Nil: true}
		}
		src = src.Elem()
	}
	return b.readMsg(&b.S.Msgs[msg], src)
}

func (b *Built) readField(f *Field, src reflect.Value) Val {
	switch {
	case f.K == KMap:
		if src.IsNil() {
			return Val{Nil: true}
		}
		out := Val{}
		it := src.MapRange()
		for it.Next() {
			k := reflect.New(src.Type().Key()).Elem()
			k.Set(it.Key())
			e := reflect.New(src.Type().Elem()).Elem()
			e.Set(it.Value())
			out.L = append(out.L, getScalar(k, f.Key), b.readOne(e, f.Val, f.Msg, f.Ptr))
		}
		sortMap(&out)
		return out
	case f.Rep:
		if src.IsNil() {
			return Val{Nil: true}
		}
		out := Val{L: make([]Val, src.Len())}
		for j := range out.L {
			out.L[j] = b.readOne(src.Index(j), f.K, f.Msg, f.Ptr)
		}
		return out
	}
	return b.readOne(src, f.K, f.Msg, f.Ptr)
}

// sortMap orders the entries of a map Val by key (N then B) so that two maps
// with the same entries have the same representation.
func sortMap(v *Val) {
	n := len(v.L) / 2
	idx := make([]int, n)
	for i := range idx {
		idx[i] = i
	}
	sort.SliceStable(idx, func(a, c int) bool {
		ka, kc := &v.L[2*idx[a]], &v.L[2*idx[c]]
		if ka.N != kc.N {
			return ka.N < kc.N
		}
		return bytes.Compare(ka.B, kc.B) < 0
	})
	out := make([]Val, 0, 2*n)
	for _, i := range idx {
		out = append(out, v.L[2*i], v.L[2*i+1])
	}
	v.L = out
}

// ------------------------------------------------------------------ Val -> dynamicpb

func scalarToPB(k Kind, v *Val) protoreflect.Value {
	switch k {
	case KBool:
		return protoreflect.ValueOfBool(v.N != 0)
	case KInt, KInt64:
		return protoreflect.ValueOfInt64(int64(v.N))
	case KInt32:
		return protoreflect.ValueOfInt32(int32(v.N))
	case KUint, KUint64:
		return protoreflect.ValueOfUint64(v.N)
	case KUint32:
		return protoreflect.ValueOfUint32(uint32(v.N))
	case KFloat32:
		return protoreflect.ValueOfFloat32(math.Float32frombits(uint32(v.N)))
	case KFloat64:
		return protoreflect.ValueOfFloat64(math.Float64frombits(v.N))
	case KString:
		return protoreflect.ValueOfString(string(v.B))
	case KBytes:
		return protoreflect.ValueOfBytes(append([]byte(nil), v.B...))
	}
	panic("scalarToPB: " + string(k))
}

func isZeroScalar(k Kind, v *Val) bool {
	switch k {
	case KString, KBytes:
		return len(v.B) == 0
	case KFloat32, KFloat64:
		return v.N == 0 // +0 only: -0 is a non-default value on the wire
	}
	return v.N == 0
}

// Dyn builds the reference message for value v of message mi. Proto3 has no
// presence for scalars: zero scalars are left unset. A non-nil message
// pointer (and a by-value message with any non-zero content) is set.
func (b *Built) Dyn(mi int, v *Val) *dynamicpb.Message {
	d := dynamicpb.NewMessage(b.Desc[mi])
	b.fillDyn(d, mi, v)
	return d
}

func (b *Built) fillDyn(d *dynamicpb.Message, mi int, v *Val) {
	m := &b.S.Msgs[mi]
	for i := range m.Fields {
		f := &m.Fields[i]
		fd := b.fdByN[mi][f.Num]
		fv := &v.L[i]
		switch {
		case f.K == KMap:
			if len(fv.L) == 0 {
				continue
			}
			mp := d.Mutable(fd).Map()
			for j := 0; j+1 < len(fv.L); j += 2 {
				key := scalarToPB(f.Key, &fv.L[j]).MapKey()
				if f.Val == KMsg {
					sub := mp.NewValue()
					if !fv.L[j+1].Nil {
						b.fillDyn(sub.Message().(*dynamicpb.Message), f.Msg, &fv.L[j+1])
					}
					mp.Set(key, sub)
				} else {
					mp.Set(key, scalarToPB(f.Val, &fv.L[j+1]))
				}
			}
		case f.Rep:
			if len(fv.L) == 0 {
				continue
			}
			l := d.Mutable(fd).List()
			for j := range fv.L {
				if f.K == KMsg {
					sub := l.NewElement()
					if !fv.L[j].Nil {
						b.fillDyn(sub.Message().(*dynamicpb.Message), f.Msg, &fv.L[j])
					}
					l.Append(sub)
				} else {
					l.Append(scalarToPB(f.K, &fv.L[j]))
				}
			}
		case f.K == KMsg:
			if fv.Nil {
				continue
			}
			if !f.Ptr && b.S.IsZero(&b.S.Msgs[f.Msg], fv) {
				continue // by-value zero struct: nothing to say on the wire
			}
			sub := d.Mutable(fd).Message().(*dynamicpb.Message)
			b.fillDyn(sub, f.Msg, fv)
		default:
			if isZeroScalar(f.K, fv) {
				continue
			}
			d.Set(fd, scalarToPB(f.K, fv))
		}
	}
}

// FieldIsZero reports whether field value fv of field f is default (empty
// container, nil or all-zero message, zero scalar; -0 is not zero).
func (s *Schema) FieldIsZero(f *Field, fv *Val) bool {
	switch {
	case f.K == KMap || f.Rep:
		return len(fv.L) == 0
	case f.K == KMsg:
		return s.IsZero(&s.Msgs[f.Msg], fv)
	}
	return isZeroScalar(f.K, fv)
}

// IsZero reports whether message value v is entirely default (recursively;
// nil / empty containers, nil or all-zero sub-messages).
func (s *Schema) IsZero(m *Message, v *Val) bool {
	if v.Nil {
		return true
	}
	for i := range m.Fields {
		if !s.FieldIsZero(&m.Fields[i], &v.L[i]) {
			return false
		}
	}
	return true
}

// ------------------------------------------------------------------ dynamicpb -> Val

func scalarFromPB(k Kind, pv protoreflect.Value) Val {
	switch k {
	case KBool:
		if pv.Bool() {
			return Val{N: 1}
		}
		return Val{}
	case KInt, KInt64, KInt32:
		return Val{N: uint64(pv.Int())}
	case KUint, KUint64, KUint32:
		return Val{N: pv.Uint()}
	case KFloat32:
		return Val{N: uint64(math.Float32bits(float32(pv.Float())))}
	case KFloat64:
		return Val{N: math.Float64bits(pv.Float())}
	case KString:
		return Val{B: []byte(pv.String())}
	case KBytes:
		return Val{B: append([]byte(nil), pv.Bytes()...)}
	}
	panic("scalarFromPB: " + string(k))
}

// FromDyn reads a reference message of message mi into a Val. Unset message
// fields read as Nil, unset scalars as zero, unset lists / maps as Nil.
func (b *Built) FromDyn(mi int, d protoreflect.Message) Val {
	m := &b.S.Msgs[mi]
	v := Val{L: make([]Val, len(m.Fields))}
	for i := range m.Fields {
		f := &m.Fields[i]
		fd := b.fdByN[mi][f.Num]
		switch {
		case f.K == KMap:
			if !d.Has(fd) {
				v.L[i] = Val{Nil: true}
				continue
			}
			out := Val{}
			d.Get(fd).Map().Range(func(k protoreflect.MapKey, e protoreflect.Value) bool {
				kv := scalarFromPB(f.Key, k.Value())
				if f.Val == KMsg {
					out.L = append(out.L, kv, b.FromDyn(f.Msg, e.Message()))
				} else {
					out.L = append(out.L, kv, scalarFromPB(f.Val, e))
				}
				return true
			})
			sortMap(&out)
			v.L[i] = out
		case f.Rep:
			if !d.Has(fd) {
				v.L[i] = Val{Nil: true}
				continue
			}
			l := d.Get(fd).List()
			out := Val{L: make([]Val, l.Len())}
			for j := range out.L {
				if f.K == KMsg {
					out.L[j] = b.FromDyn(f.Msg, l.Get(j).Message())
				} else {
					out.L[j] = scalarFromPB(f.K, l.Get(j))
				}
			}
			v.L[i] = out
		case f.K == KMsg:
			if !d.Has(fd) {
				v.L[i] = Val{Nil: true}
				continue
			}
			v.L[i] = b.FromDyn(f.Msg, d.Get(fd).Message())
		default:
			if f.K == KBytes && !d.Has(fd) {
				v.L[i] = Val{Nil: true}
				continue
			}
			v.L[i] = scalarFromPB(f.K, d.Get(fd))
		}
	}
	return v
}

// UnknownPath returns the path of the first message (depth first) that holds
// unknown fields, or "" when there are none anywhere.
func (b *Built) UnknownPath(mi int, d protoreflect.Message) string {
	if len(d.GetUnknown()) != 0 {
		return "M" + fmt.Sprint(mi)
	}
	m := &b.S.Msgs[mi]
	for i := range m.Fields {
		f := &m.Fields[i]
		fd := b.fdByN[mi][f.Num]
		if !d.Has(fd) {
			continue
		}
		p := ""
		switch {
		case f.K == KMap:
			if f.Val != KMsg {
				continue
			}
			d.Get(fd).Map().Range(func(_ protoreflect.MapKey, e protoreflect.Value) bool {
				p = b.UnknownPath(f.Msg, e.Message())
				return p == ""
			})
		case f.K != KMsg:
			continue
		case f.Rep:
			l := d.Get(fd).List()
			for j := 0; j < l.Len() && p == ""; j++ {
				p = b.UnknownPath(f.Msg, l.Get(j).Message())
			}
		default:
			p = b.UnknownPath(f.Msg, d.Get(fd).Message())
		}
		if p != "" {
			return fmt.Sprintf("M%d.%s/%s", mi, GoName(i), p)
		}
	}
	return ""
}

// ------------------------------------------------------------------ comparer

// Diff is one field-level difference found by Compare.
type Diff struct {
	Path string // e.g. M0.F2[3].F0
	F    *Field // schema field the difference sits in (nil at top level)
	Slot string // "scalar" | "len" | "mapkeys" | "elem"
	A, B *Val   // the two sub-values (of the field F for "len"/"mapkeys", of the slot otherwise)
	K    Kind   // kind of the slot compared
}

func (d Diff) String() string {
	return fmt.Sprintf("%s(%s): %s vs %s", d.Path, d.Slot, brief(d.A), brief(d.B))
}

func brief(v *Val) string {
	if v == nil {
		return "<nil>"
	}
	switch {
	case v.Nil:
		return "nil"
	case v.L != nil:
		return fmt.Sprintf("[%d items]", len(v.L))
	case v.B != nil:
		if len(v.B) > 24 {
			return fmt.Sprintf("%q…(%d bytes)", v.B[:24], len(v.B))
		}
		return fmt.Sprintf("%q", v.B)
	}
	return fmt.Sprintf("%#x", v.N)
}

// Compare walks two values of message mi field by field. Floats are compared
// by bit pattern (they are stored as bits); nil and empty slices / maps /
// bytes are equal; a nil (absent) message equals an all-zero message. Maps
// are compared as key->value sets. It returns every difference (bounded).
func (b *Built) Compare(mi int, x, y *Val) []Diff {
	var out []Diff
	b.cmpMsg(&b.S.Msgs[mi], x, y, "M"+fmt.Sprint(mi), &out)
	return out
}

const maxDiffs = 12

func (b *Built) cmpMsg(m *Message, x, y *Val, path string, out *[]Diff) {
	if len(*out) >= maxDiffs {
		return
	}
	if x.Nil || y.Nil {
		if b.S.IsZero(m, x) && b.S.IsZero(m, y) {
			return
		}
		z := b.S.ZeroMsg(m)
		if x.Nil {
			x = &z
		} else {
			y = &z
		}
	}
	for i := range m.Fields {
		f := &m.Fields[i]
		b.cmpField(f, &x.L[i], &y.L[i], fmt.Sprintf("%s.%s", path, GoName(i)), out)
	}
}

func (b *Built) cmpOne(f *Field, k Kind, x, y *Val, path string, slot string, out *[]Diff) {
	if k == KMsg {
		b.cmpMsg(&b.S.Msgs[f.Msg], x, y, path, out)
		return
	}
	eq := false
	switch k {
	case KString, KBytes:
		eq = bytes.Equal(x.B, y.B)
	case KInt32, KUint32, KFloat32:
		eq = uint32(x.N) == uint32(y.N)
	default:
		eq = x.N == y.N
	}
	if !eq && len(*out) < maxDiffs {
		*out = append(*out, Diff{Path: path, F: f, Slot: slot, A: x, B: y, K: k})
	}
}

func (b *Built) cmpField(f *Field, x, y *Val, path string, out *[]Diff) {
	switch {
	case f.K == KMap:
		if len(x.L) != len(y.L) {
			*out = append(*out, Diff{Path: path, F: f, Slot: "len", A: x, B: y, K: KMap})
			return
		}
		xs, ys := *x, *y
		xs.L = append([]Val(nil), x.L...)
		ys.L = append([]Val(nil), y.L...)
		sortMap(&xs)
		sortMap(&ys)
		for j := 0; j+1 < len(xs.L); j += 2 {
			kx, ky := &xs.L[j], &ys.L[j]
			if kx.N != ky.N || !bytes.Equal(kx.B, ky.B) {
				*out = append(*out, Diff{Path: path, F: f, Slot: "mapkeys", A: x, B: y, K: f.Key})
				return
			}
			b.cmpOne(f, f.Val, &xs.L[j+1], &ys.L[j+1], fmt.Sprintf("%s[%s]", path, brief(kx)), "elem", out)
		}
	case f.Rep:
		if len(x.L) != len(y.L) {
			*out = append(*out, Diff{Path: path, F: f, Slot: "len", A: x, B: y, K: f.K})
			return
		}
		for j := range x.L {
			b.cmpOne(f, f.K, &x.L[j], &y.L[j], fmt.Sprintf("%s[%d]", path, j), "elem", out)
		}
	default:
		b.cmpOne(f, f.K, x, y, path, "scalar", out)
	}
}

// DiffsString renders differences for Failure.Observed.
func DiffsString(ds []Diff) string {
	s := ""
	for i, d := range ds {
		if i > 0 {
			s += "; "
		}
		s += d.String()
	}
	return s
}

// NonZeroFields counts top-level fields of message value v that are not default.
func (s *Schema) NonZeroFields(m *Message, v *Val) int {
	n := 0
	for i := range m.Fields {
		if !s.FieldIsZero(&m.Fields[i], &v.L[i]) {
			n++
		}
	}
	return n
}
