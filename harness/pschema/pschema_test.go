package pschema

import (
	"bytes"
	"encoding/json"
	"testing"

	gproto "google.golang.org/protobuf/proto"
	"google.golang.org/protobuf/types/dynamicpb"
	"pgregory.net/rapid"
)

// The schema's kind mapping agrees with proto.TypeOf field by field, the
// descriptor is accepted by protodesc, and Val survives Go / dynamicpb / JSON
// / wire-tree round trips.
func TestSelfConsistency(t *testing.T) {
	rapid.Check(t, func(rt *rapid.T) {
		s, _ := GenSchema(rt, GenOpts{Impl: true, Unexp: true})
		b, err := Build(&s)
		if err != nil {
			rt.Fatalf("build: %v", err)
		}
		if err := b.CheckTypeOf(); err != nil {
			rt.Fatalf("%v", err)
		}
		v := GenMsgVal(rt, &s, 0, ValOpts{})

		// JSON round trip of the case data
		js, _ := json.Marshal(struct {
			S Schema
			V Val
		}{s, v})
		var back struct {
			S Schema
			V Val
		}
		if err := json.Unmarshal(js, &back); err != nil {
			rt.Fatalf("json: %v", err)
		}
		b2, err := Build(&back.S)
		if err != nil {
			rt.Fatalf("rebuild: %v", err)
		}
		if b2.Go[0] != b.Go[0] {
			rt.Fatalf("Go type changed through JSON")
		}
		if d := b.Compare(0, &v, &back.V); len(d) > 0 {
			rt.Fatalf("value changed through JSON: %s", DiffsString(d))
		}

		// Go round trip
		gv := b.GoValue(0, &v)
		v2 := b.FromGo(0, gv)
		if d := b.Compare(0, &v, &v2); len(d) > 0 {
			rt.Fatalf("Val->Go->Val: %s", DiffsString(d))
		}
		// dynamicpb round trip
		dyn := b.Dyn(0, &v)
		v3 := b.FromDyn(0, dyn)
		if d := b.Compare(0, &v, &v3); len(d) > 0 {
			rt.Fatalf("Val->dyn->Val: %s", DiffsString(d))
		}
		// reference marshal -> unmarshal -> equal; wire tree round trip
		wire, err := gproto.MarshalOptions{Deterministic: true}.Marshal(dyn)
		if err != nil {
			rt.Fatalf("ref marshal: %v", err)
		}
		d2 := dynamicpb.NewMessage(b.Desc[0])
		if err := gproto.Unmarshal(wire, d2); err != nil {
			rt.Fatalf("ref unmarshal: %v", err)
		}
		v4 := b.FromDyn(0, d2)
		if d := b.Compare(0, &v, &v4); len(d) > 0 {
			rt.Fatalf("Val->dyn->wire->dyn->Val: %s", DiffsString(d))
		}
		nodes, err := s.ParseWire(&s.Msgs[0], wire)
		if err != nil {
			rt.Fatalf("ParseWire: %v", err)
		}
		if !Canonical(nodes) {
			rt.Fatalf("reference output not canonical?")
		}
		if again := Serialize(nodes); !bytes.Equal(again, wire) {
			rt.Fatalf("wire tree round trip changed the bytes")
		}
	})
}

func TestAppendVarintW(t *testing.T) {
	for _, v := range []uint64{0, 1, 127, 128, 300, 1 << 35, 1<<64 - 1} {
		for w := 0; w <= 10; w++ {
			b := AppendVarintW(nil, v, w)
			var x uint64
			var s uint
			n := 0
			for i, c := range b {
				x |= uint64(c&0x7f) << s
				s += 7
				n = i + 1
				if c < 0x80 {
					break
				}
			}
			if x != v || n != len(b) {
				t.Fatalf("v=%d w=%d: % x decodes to %d (%d bytes)", v, w, b, x, n)
			}
			if w > len(AppendVarintW(nil, v, 0)) && len(b) != w {
				t.Fatalf("v=%d w=%d: got %d bytes", v, w, len(b))
			}
		}
	}
}
