// Package pschema is the shared protobuf message-schema model of the C12 and
// C19 checks: a plain-data (JSON-serialisable) description of a message type
// that is materialised BOTH as a Go struct type in the form the
// segmentio/encoding/proto package expects (reflect.StructOf, `protobuf:"..."`
// struct tags) AND as a FileDescriptorProto for the reference implementation
// (google.golang.org/protobuf v1.26.0: protodesc + dynamicpb), using the
// Go-kind -> protobuf-type table that proto.TypeOf documents:
//
//	bool->bool  int->int64  int32->int32  int64->int64  uint->uint64
//	uint32->uint32  uint64->uint64  float32->float  float64->double
//	string->string  []byte->bytes  struct->message  map->map
//	zigzag32/zigzag64 tag -> sint32/sint64, fixed32/fixed64 tag on
//	uint32/uint64 -> fixed32/fixed64
//
// It also holds the value recipes (Val), the conversions Go value <-> Val <->
// dynamicpb message, the comparer (floats by bits, nil == empty) and a
// schema-guided wire tree used for protowire-level surgery.
package pschema

import (
	"fmt"
	"reflect"
	"strconv"
	"strings"

	segproto "github.com/segmentio/encoding/proto"
	gproto "google.golang.org/protobuf/proto"
	"google.golang.org/protobuf/reflect/protodesc"
	"google.golang.org/protobuf/reflect/protoreflect"
	"google.golang.org/protobuf/types/descriptorpb"
)

// Kind names the Go kind of a field (or map key / value).
type Kind string

const (
	KBool    Kind = "bool"
	KInt     Kind = "int"
	KInt32   Kind = "int32"
	KInt64   Kind = "int64"
	KUint    Kind = "uint"
	KUint32  Kind = "uint32"
	KUint64  Kind = "uint64"
	KFloat32 Kind = "float32"
	KFloat64 Kind = "float64"
	KString  Kind = "string"
	KBytes   Kind = "bytes"
	KMsg     Kind = "msg"
	KMap     Kind = "map"
)

// Field is one field of a message.
type Field struct {
	Num int    `json:"num"`           // protobuf field number (untagged message: declaration index+1)
	K   Kind   `json:"k"`             // Go kind; KMap: map[Key]Val
	Opt string `json:"opt,omitempty"` // "zigzag" (int, int32, int64) | "fixed" (uint32, uint64); tagged messages only
	Rep bool   `json:"rep,omitempty"` // []T (repeated, never packed)
	Ptr bool   `json:"ptr,omitempty"` // message by pointer (*M, []*M, map[K]*M)
	Msg int    `json:"msg,omitempty"` // index in Schema.Msgs for K==KMsg or Val==KMsg
	// Impl: the Go type of the message slot is not a plain struct but a
	// struct-kind type with encoding methods: "pm" = PMsg (implements
	// proto.Message), "cm" = CMsg (gogo-style custom interface), "pmpm" = PMsgPM
	// (proto.Message plus a ProtoMessage method: still self-encoding), "cmpm" =
	// CMsgPM (custom interface plus ProtoMessage: the library then ignores the
	// methods and treats it as the plain struct {X uint64; S string}). Msgs[Msg]
	// must be ImplMessage(); the reference sees an ordinary nested message.
	Impl string `json:"impl,omitempty"`
	Key  Kind   `json:"key,omitempty"` // KMap: key kind
	Val  Kind   `json:"val,omitempty"` // KMap: value kind (scalar, bytes or msg)
}

// Message is one message type. Tagged: every field carries a protobuf struct
// tag with its number; otherwise fields are numbered by declaration order.
type Message struct {
	Tagged bool    `json:"tagged,omitempty"`
	Fields []Field `json:"fields"`
	// Pad, when present, has len(Fields)+1 entries: Pad[i] unexported Go fields
	// are declared before (exported) field i, Pad[len(Fields)] after the last
	// one. The library skips unexported fields: an untagged message numbers its
	// exported fields by a running count (1, 2, ...), whatever lies between.
	Pad []int `json:"pad,omitempty"`
}

// GoIndex is the index of field i in the Go struct (unexported padding counted).
func (m *Message) GoIndex(i int) int {
	if len(m.Pad) == 0 {
		return i
	}
	n := i
	for j := 0; j <= i; j++ {
		n += m.Pad[j]
	}
	return n
}

// Schema is a DAG of messages; Msgs[0] is the root; a message only refers to
// messages with a larger index.
type Schema struct {
	Msgs []Message `json:"msgs"`
}

// IsScalarKind: bool, integers, floats, string, bytes.
func IsScalarKind(k Kind) bool { return k != KMsg && k != KMap && k != "" }

func IsIntKind(k Kind) bool {
	switch k {
	case KInt, KInt32, KInt64, KUint, KUint32, KUint64:
		return true
	}
	return false
}

// GoName / ProtoName / TypeOfName of field i of a message.
func GoName(i int) string    { return "F" + strconv.Itoa(i) }
func ProtoName(i int) string { return "f" + strconv.Itoa(i) }

// TypeOfName is the name proto.TypeOf reports (and ParseRewriteTemplate
// expects as JSON key): the tag's name= for tagged messages, the Go field name
// otherwise.
func (m *Message) TypeOfName(i int) string {
	if m.Tagged {
		return ProtoName(i)
	}
	return GoName(i)
}

// Validate checks structural well-formedness (used on replay files).
func (s *Schema) Validate() error {
	if len(s.Msgs) == 0 {
		return fmt.Errorf("schema without messages")
	}
	for mi, m := range s.Msgs {
		if len(m.Pad) != 0 {
			if len(m.Pad) != len(m.Fields)+1 {
				return fmt.Errorf("msg %d: pad has %d entries, want %d", mi, len(m.Pad), len(m.Fields)+1)
			}
			for _, p := range m.Pad {
				if p < 0 || p > 4 {
					return fmt.Errorf("msg %d: bad pad %d", mi, p)
				}
			}
		}
		seen := map[int]bool{}
		for i, f := range m.Fields {
			if f.Num < 1 || f.Num > 1<<29-1 || (f.Num >= 19000 && f.Num <= 19999) {
				return fmt.Errorf("msg %d field %d: bad number %d", mi, i, f.Num)
			}
			if !m.Tagged && f.Num != i+1 {
				return fmt.Errorf("msg %d field %d: untagged number %d != %d", mi, i, f.Num, i+1)
			}
			if seen[f.Num] {
				return fmt.Errorf("msg %d: duplicate number %d", mi, f.Num)
			}
			seen[f.Num] = true
			if f.Opt != "" && !m.Tagged {
				return fmt.Errorf("msg %d field %d: option on untagged message", mi, i)
			}
			switch f.Opt {
			case "":
			case "zigzag":
				if f.K != KInt && f.K != KInt32 && f.K != KInt64 {
					return fmt.Errorf("msg %d field %d: zigzag on %s", mi, i, f.K)
				}
			case "fixed":
				if f.K != KUint32 && f.K != KUint64 {
					return fmt.Errorf("msg %d field %d: fixed on %s", mi, i, f.K)
				}
			default:
				return fmt.Errorf("bad opt %q", f.Opt)
			}
			chkMsg := func() error {
				if f.Msg <= mi || f.Msg >= len(s.Msgs) {
					return fmt.Errorf("msg %d field %d: bad message ref %d", mi, i, f.Msg)
				}
				switch f.Impl {
				case "":
				case "pm", "cm", "pmpm", "cmpm":
					if !reflect.DeepEqual(s.Msgs[f.Msg], ImplMessage()) {
						return fmt.Errorf("msg %d field %d: impl %q needs Msgs[%d] to be the ImplMessage shape", mi, i, f.Impl, f.Msg)
					}
				default:
					return fmt.Errorf("msg %d field %d: bad impl %q", mi, i, f.Impl)
				}
				return nil
			}
			if f.Impl != "" && f.K != KMsg && !(f.K == KMap && f.Val == KMsg) {
				return fmt.Errorf("msg %d field %d: impl on a non-message slot", mi, i)
			}
			switch f.K {
			case KMsg:
				if err := chkMsg(); err != nil {
					return err
				}
			case KMap:
				if f.Rep || f.Opt != "" {
					return fmt.Errorf("msg %d field %d: repeated/opt map", mi, i)
				}
				switch f.Key {
				case KBool, KInt, KInt32, KInt64, KUint, KUint32, KUint64, KString:
				default:
					return fmt.Errorf("msg %d field %d: bad map key %q", mi, i, f.Key)
				}
				if f.Val == KMsg {
					if err := chkMsg(); err != nil {
						return err
					}
				} else if !IsScalarKind(f.Val) {
					return fmt.Errorf("msg %d field %d: bad map value %q", mi, i, f.Val)
				}
			default:
				if !IsScalarKind(f.K) {
					return fmt.Errorf("msg %d field %d: bad kind %q", mi, i, f.K)
				}
				if f.Ptr {
					return fmt.Errorf("msg %d field %d: pointer to scalar not modelled", mi, i)
				}
			}
		}
	}
	return nil
}

// EntryMessage is the synthetic message {1: key, 2: value} of a map field.
func (f *Field) EntryMessage() *Message {
	return &Message{Tagged: true, Fields: []Field{
		{Num: 1, K: f.Key},
		{Num: 2, K: f.Val, Msg: f.Msg, Ptr: f.Ptr, Impl: f.Impl},
	}}
}

// ------------------------------------------------------------------ Go side

var unexportedTypes = []reflect.Type{reflect.TypeOf(int32(0)), reflect.TypeOf(""), reflect.TypeOf(false), reflect.TypeOf(int64(0)), reflect.TypeOf([]byte(nil))}

var goKinds = map[Kind]reflect.Type{
	KBool:    reflect.TypeOf(false),
	KInt:     reflect.TypeOf(int(0)),
	KInt32:   reflect.TypeOf(int32(0)),
	KInt64:   reflect.TypeOf(int64(0)),
	KUint:    reflect.TypeOf(uint(0)),
	KUint32:  reflect.TypeOf(uint32(0)),
	KUint64:  reflect.TypeOf(uint64(0)),
	KFloat32: reflect.TypeOf(float32(0)),
	KFloat64: reflect.TypeOf(float64(0)),
	KString:  reflect.TypeOf(""),
	KBytes:   reflect.TypeOf([]byte(nil)),
}

// wireName is the first element of the protobuf struct tag.
func (f *Field) wireName() string {
	switch f.K {
	case KBool, KInt, KInt32, KInt64, KUint, KUint32, KUint64:
		switch {
		case f.Opt == "zigzag" && f.K == KInt32:
			return "zigzag32"
		case f.Opt == "zigzag":
			return "zigzag64"
		case f.Opt == "fixed" && f.K == KUint32:
			return "fixed32"
		case f.Opt == "fixed":
			return "fixed64"
		}
		return "varint"
	case KFloat32:
		return "fixed32"
	case KFloat64:
		return "fixed64"
	}
	return "bytes"
}

// Tag returns the struct tag of field i of a tagged message, in the syntax of
// protoc-gen-go v1 that the library parses.
func (f *Field) Tag(i int) reflect.StructTag {
	lab := "opt"
	if f.Rep || f.K == KMap {
		lab = "rep"
	}
	return reflect.StructTag(fmt.Sprintf(`protobuf:"%s,%d,%s,name=%s,proto3"`, f.wireName(), f.Num, lab, ProtoName(i)))
}

// Built is a materialised schema.
type Built struct {
	S     *Schema
	Go    []reflect.Type                   // struct type per message
	File  protoreflect.FileDescriptor      // reference descriptors
	Desc  []protoreflect.MessageDescriptor // per message
	FDP   *descriptorpb.FileDescriptorProto
	fdByN []map[int]protoreflect.FieldDescriptor
}

// Build materialises the Go struct types and the descriptors.
func Build(s *Schema) (*Built, error) {
	if err := s.Validate(); err != nil {
		return nil, err
	}
	b := &Built{S: s, Go: make([]reflect.Type, len(s.Msgs))}
	for mi := len(s.Msgs) - 1; mi >= 0; mi-- {
		m := &s.Msgs[mi]
		sf := make([]reflect.StructField, 0, len(m.Fields))
		nu := 0
		pad := func(k int) {
			for ; k > 0; k-- {
				// unexported fields of varying size and alignment; a protobuf
				// tag on one of them must be ignored as well
				u := reflect.StructField{Name: "u" + strconv.Itoa(nu), PkgPath: "verif/harness/pschema", Type: unexportedTypes[nu%len(unexportedTypes)]}
				if nu%3 == 2 {
					u.Tag = `protobuf:"varint,1,opt,name=hidden,proto3"`
				}
				sf = append(sf, u)
				nu++
			}
		}
		for i := range m.Fields {
			f := &m.Fields[i]
			if len(m.Pad) != 0 {
				pad(m.Pad[i])
			}
			x := reflect.StructField{Name: GoName(i), Type: b.goFieldType(f)}
			if m.Tagged {
				x.Tag = f.Tag(i)
			}
			sf = append(sf, x)
		}
		if len(m.Pad) != 0 {
			pad(m.Pad[len(m.Fields)])
		}
		b.Go[mi] = reflect.StructOf(sf)
	}
	fdp := s.FileDescriptorProto()
	fd, err := protodesc.NewFile(fdp, nil)
	if err != nil {
		return nil, fmt.Errorf("protodesc.NewFile: %w", err)
	}
	b.FDP = fdp
	b.File = fd
	b.Desc = make([]protoreflect.MessageDescriptor, len(s.Msgs))
	b.fdByN = make([]map[int]protoreflect.FieldDescriptor, len(s.Msgs))
	for mi := range s.Msgs {
		b.Desc[mi] = fd.Messages().Get(mi)
		b.fdByN[mi] = map[int]protoreflect.FieldDescriptor{}
		fds := b.Desc[mi].Fields()
		for i := 0; i < fds.Len(); i++ {
			b.fdByN[mi][int(fds.Get(i).Number())] = fds.Get(i)
		}
	}
	return b, nil
}

var (
	pmsgType   = reflect.TypeOf(PMsg{})
	cmsgType   = reflect.TypeOf(CMsg{})
	pmsgPMType = reflect.TypeOf(PMsgPM{})
	cmsgPMType = reflect.TypeOf(CMsgPM{})
)

// implOpaque reports whether proto.TypeOf's view t of a slot of self-encoding
// kind impl is what the library documents: a proto.Message implementer (with
// or without ProtoMessage) is a field-less message named "bytes", a custom
// type is bytes, and a custom type that also has ProtoMessage is the ordinary
// message {uint64 X = 1; string S = 2}.
func implOpaque(impl string, t segproto.Type) bool {
	switch impl {
	case "pm", "pmpm":
		return t.Kind() == segproto.Struct && t.NumField() == 0
	case "cm":
		return t.Kind() == segproto.Bytes
	case "cmpm":
		if t.Kind() != segproto.Struct || t.NumField() != 2 {
			return false
		}
		x, s := t.Field(0), t.Field(1)
		return x.Number == 1 && x.Type.Kind() == segproto.Uint64 && !x.Repeated && s.Number == 2 && s.Type.Kind() == segproto.String && !s.Repeated
	}
	return false
}

func (b *Built) msgType(mi int, ptr bool, impl string) reflect.Type {
	t := b.Go[mi]
	switch impl {
	case "pm":
		t = pmsgType
	case "cm":
		t = cmsgType
	case "pmpm":
		t = pmsgPMType
	case "cmpm":
		t = cmsgPMType
	}
	if ptr {
		return reflect.PointerTo(t)
	}
	return t
}

func (b *Built) goFieldType(f *Field) reflect.Type {
	var t reflect.Type
	switch f.K {
	case KMsg:
		t = b.msgType(f.Msg, f.Ptr, f.Impl)
	case KMap:
		var v reflect.Type
		if f.Val == KMsg {
			v = b.msgType(f.Msg, f.Ptr, f.Impl)
		} else {
			v = goKinds[f.Val]
		}
		return reflect.MapOf(goKinds[f.Key], v)
	default:
		t = goKinds[f.K]
	}
	if f.Rep {
		t = reflect.SliceOf(t)
	}
	return t
}

// ------------------------------------------------------------------ descriptor side

func protoTypeOf(k Kind, opt string) descriptorpb.FieldDescriptorProto_Type {
	switch k {
	case KBool:
		return descriptorpb.FieldDescriptorProto_TYPE_BOOL
	case KInt, KInt64:
		if opt == "zigzag" {
			return descriptorpb.FieldDescriptorProto_TYPE_SINT64
		}
		return descriptorpb.FieldDescriptorProto_TYPE_INT64
	case KInt32:
		if opt == "zigzag" {
			return descriptorpb.FieldDescriptorProto_TYPE_SINT32
		}
		return descriptorpb.FieldDescriptorProto_TYPE_INT32
	case KUint, KUint64:
		if opt == "fixed" {
			return descriptorpb.FieldDescriptorProto_TYPE_FIXED64
		}
		return descriptorpb.FieldDescriptorProto_TYPE_UINT64
	case KUint32:
		if opt == "fixed" {
			return descriptorpb.FieldDescriptorProto_TYPE_FIXED32
		}
		return descriptorpb.FieldDescriptorProto_TYPE_UINT32
	case KFloat32:
		return descriptorpb.FieldDescriptorProto_TYPE_FLOAT
	case KFloat64:
		return descriptorpb.FieldDescriptorProto_TYPE_DOUBLE
	case KString:
		return descriptorpb.FieldDescriptorProto_TYPE_STRING
	case KBytes:
		return descriptorpb.FieldDescriptorProto_TYPE_BYTES
	case KMsg, KMap:
		return descriptorpb.FieldDescriptorProto_TYPE_MESSAGE
	}
	panic("pschema: no protobuf type for kind " + string(k))
}

func msgName(mi int) string { return "M" + strconv.Itoa(mi) }

func entryName(i int) string { return "F" + strconv.Itoa(i) + "Entry" }

// FileDescriptorProto derives the proto3 file: one top-level message per
// schema message, repeated scalars with [packed=false], maps as map_entry
// nested messages.
func (s *Schema) FileDescriptorProto() *descriptorpb.FileDescriptorProto {
	fdp := &descriptorpb.FileDescriptorProto{
		Name:    gproto.String("s.proto"),
		Package: gproto.String("p"),
		Syntax:  gproto.String("proto3"),
	}
	for mi := range s.Msgs {
		m := &s.Msgs[mi]
		dp := &descriptorpb.DescriptorProto{Name: gproto.String(msgName(mi))}
		for i := range m.Fields {
			f := &m.Fields[i]
			fp := &descriptorpb.FieldDescriptorProto{
				Name:     gproto.String(ProtoName(i)),
				JsonName: gproto.String(ProtoName(i)),
				Number:   gproto.Int32(int32(f.Num)),
				Label:    descriptorpb.FieldDescriptorProto_LABEL_OPTIONAL.Enum(),
				Type:     protoTypeOf(f.K, f.Opt).Enum(),
			}
			switch f.K {
			case KMsg:
				fp.TypeName = gproto.String(".p." + msgName(f.Msg))
			case KMap:
				fp.Label = descriptorpb.FieldDescriptorProto_LABEL_REPEATED.Enum()
				fp.TypeName = gproto.String(".p." + msgName(mi) + "." + entryName(i))
				val := &descriptorpb.FieldDescriptorProto{
					Name: gproto.String("value"), JsonName: gproto.String("value"), Number: gproto.Int32(2),
					Label: descriptorpb.FieldDescriptorProto_LABEL_OPTIONAL.Enum(), Type: protoTypeOf(f.Val, "").Enum(),
				}
				if f.Val == KMsg {
					val.TypeName = gproto.String(".p." + msgName(f.Msg))
				}
				dp.NestedType = append(dp.NestedType, &descriptorpb.DescriptorProto{
					Name: gproto.String(entryName(i)),
					Field: []*descriptorpb.FieldDescriptorProto{
						{Name: gproto.String("key"), JsonName: gproto.String("key"), Number: gproto.Int32(1),
							Label: descriptorpb.FieldDescriptorProto_LABEL_OPTIONAL.Enum(), Type: protoTypeOf(f.Key, "").Enum()},
						val,
					},
					Options: &descriptorpb.MessageOptions{MapEntry: gproto.Bool(true)},
				})
			}
			if f.Rep {
				fp.Label = descriptorpb.FieldDescriptorProto_LABEL_REPEATED.Enum()
				switch f.K {
				case KString, KBytes, KMsg:
				default:
					fp.Options = &descriptorpb.FieldOptions{Packed: gproto.Bool(false)}
				}
			}
			dp.Field = append(dp.Field, fp)
		}
		fdp.MessageType = append(fdp.MessageType, dp)
	}
	return fdp
}

// ------------------------------------------------------------------ TypeOf cross-check

func wantSegKind(k Kind, opt string) (segproto.Kind, bool) {
	switch k {
	case KBool:
		return segproto.Bool, true
	case KInt, KInt64:
		if opt == "zigzag" {
			return segproto.Sint64, true
		}
		return segproto.Int64, true
	case KInt32:
		if opt == "zigzag" {
			return segproto.Sint32, true
		}
		return segproto.Int32, true
	case KUint, KUint64:
		return segproto.Uint64, true
	case KUint32:
		return segproto.Uint32, true
	case KFloat32:
		return segproto.Float, true
	case KFloat64:
		return segproto.Double, true
	case KString:
		return segproto.String, true
	case KBytes:
		return segproto.Bytes, true
	case KMsg:
		return segproto.Struct, true
	case KMap:
		return segproto.Map, true
	}
	return 0, false
}

// CheckTypeOf compares the schema's mapping with proto.TypeOf(goType) field
// by field: number, name, repeated flag, kind (recursively through messages
// and maps). One documented tolerance: proto.TypeOf has no notion of the
// fixed32/fixed64 tag on uint32/uint64 and reports uint32/uint64 for them.
func (b *Built) CheckTypeOf() (err error) {
	defer func() {
		if r := recover(); r != nil {
			err = fmt.Errorf("proto.TypeOf panicked: %v", r)
		}
	}()
	var diffs []string
	var walk func(mi int, t segproto.Type, path string)
	walk = func(mi int, t segproto.Type, path string) {
		m := &b.S.Msgs[mi]
		if t.Kind() != segproto.Struct {
			diffs = append(diffs, fmt.Sprintf("%s: kind %v, want message", path, t.Kind()))
			return
		}
		if t.NumField() != len(m.Fields) {
			diffs = append(diffs, fmt.Sprintf("%s: %d fields, want %d", path, t.NumField(), len(m.Fields)))
			return
		}
		for i := range m.Fields {
			f := &m.Fields[i]
			tf := t.Field(i)
			p := fmt.Sprintf("%s.%s", path, GoName(i))
			if int(tf.Number) != f.Num {
				diffs = append(diffs, fmt.Sprintf("%s: number %d, want %d", p, tf.Number, f.Num))
			}
			if tf.Name != m.TypeOfName(i) {
				diffs = append(diffs, fmt.Sprintf("%s: name %q, want %q", p, tf.Name, m.TypeOfName(i)))
			}
			if tf.Repeated != f.Rep {
				diffs = append(diffs, fmt.Sprintf("%s: repeated %v, want %v", p, tf.Repeated, f.Rep))
			}
			wk, _ := wantSegKind(f.K, f.Opt)
			if f.K == KMsg && f.Impl != "" {
				// self-encoding types are opaque to TypeOf: a proto.Message
				// implementer is a field-less message named "bytes", a custom
				// type is bytes (same wire type as the nested message it writes)
				if !implOpaque(f.Impl, tf.Type) {
					diffs = append(diffs, fmt.Sprintf("%s: kind %v (%s) for self-encoding %s", p, tf.Type.Kind(), tf.Type.Name(), f.Impl))
				}
				continue
			}
			if tf.Type.Kind() != wk {
				diffs = append(diffs, fmt.Sprintf("%s: kind %v (%s), want %v", p, tf.Type.Kind(), tf.Type.Name(), wk))
				continue
			}
			switch f.K {
			case KMsg:
				walk(f.Msg, tf.Type, p)
			case KMap:
				kk, _ := wantSegKind(f.Key, "")
				vk, _ := wantSegKind(f.Val, "")
				if tf.Type.Key().Kind() != kk {
					diffs = append(diffs, fmt.Sprintf("%s: map key kind %v, want %v", p, tf.Type.Key().Kind(), kk))
				}
				if f.Val == KMsg && f.Impl != "" {
					if !implOpaque(f.Impl, tf.Type.Elem()) {
						diffs = append(diffs, fmt.Sprintf("%s: map value kind %v for self-encoding %s", p, tf.Type.Elem().Kind(), f.Impl))
					}
				} else if tf.Type.Elem().Kind() != vk {
					diffs = append(diffs, fmt.Sprintf("%s: map value kind %v, want %v", p, tf.Type.Elem().Kind(), vk))
				} else if f.Val == KMsg {
					walk(f.Msg, tf.Type.Elem(), p+"[]")
				}
			}
		}
	}
	walk(0, segproto.TypeOf(b.Go[0]), "M0")
	if len(diffs) > 0 {
		return fmt.Errorf("TypeOf mismatch: %s", strings.Join(diffs, "; "))
	}
	return nil
}

// FieldDesc returns the reference descriptor of the field with number n of message mi.
func (b *Built) FieldDesc(mi, n int) protoreflect.FieldDescriptor { return b.fdByN[mi][n] }

// MaxNum is the largest field number of the schema; NumClass its label.
func (s *Schema) MaxNum() int {
	mx := 0
	for _, m := range s.Msgs {
		for _, f := range m.Fields {
			if f.Num > mx {
				mx = f.Num
			}
		}
	}
	return mx
}

func NumClass(n int) string {
	switch {
	case n <= 15:
		return "num<=15"
	case n <= 2047:
		return "num<=2047"
	case n <= 65535:
		return "num<=65535"
	}
	return "num>65535"
}
