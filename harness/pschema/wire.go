package pschema

import (
	"fmt"

	"google.golang.org/protobuf/encoding/protowire"
)

// WNode is one field occurrence of an encoded message, parsed with the help
// of the schema (so that embedded messages are distinguished from strings).
type WNode struct {
	Num   int
	Typ   protowire.Type
	TagW  int     // width in bytes of the tag varint (0 = minimal)
	ValW  int     // width of the value varint (varint fields) or of the length prefix (bytes fields); 0 = minimal
	U     uint64  // varint, fixed32 or fixed64 payload
	Raw   []byte  // payload of a non-message bytes field
	Sub   []WNode // payload of an embedded message (IsMsg)
	IsMsg bool
	F     *Field   // schema field (nil: unknown field)
	M     *Message // schema of Sub (IsMsg)
}

// WireTypeOf is the wire type a field (or map key/value slot) of kind k uses.
func WireTypeOf(k Kind, opt string) protowire.Type {
	switch k {
	case KBool, KInt, KInt32, KInt64, KUint:
		return protowire.VarintType
	case KUint32:
		if opt == "fixed" {
			return protowire.Fixed32Type
		}
		return protowire.VarintType
	case KUint64:
		if opt == "fixed" {
			return protowire.Fixed64Type
		}
		return protowire.VarintType
	case KFloat32:
		return protowire.Fixed32Type
	case KFloat64:
		return protowire.Fixed64Type
	}
	return protowire.BytesType
}

// FieldByNum returns the field of m with number n, or nil.
func (m *Message) FieldByNum(n int) *Field { return m.byNum(n) }

func (m *Message) byNum(n int) *Field {
	for i := range m.Fields {
		if m.Fields[i].Num == n {
			return &m.Fields[i]
		}
	}
	return nil
}

// ParseWire parses b as an encoding of message m. Fields whose number is not
// in m, or whose wire type does not match, are kept as unknown leaves.
func (s *Schema) ParseWire(m *Message, b []byte) ([]WNode, error) {
	var out []WNode
	for len(b) > 0 {
		num, typ, n := protowire.ConsumeTag(b)
		if n < 0 {
			return nil, protowire.ParseError(n)
		}
		nd := WNode{Num: int(num), Typ: typ}
		if n != protowire.SizeVarint(protowire.EncodeTag(num, typ)) {
			nd.TagW = n
		}
		b = b[n:]
		f := m.byNum(int(num))
		switch typ {
		case protowire.VarintType:
			v, n := protowire.ConsumeVarint(b)
			if n < 0 {
				return nil, protowire.ParseError(n)
			}
			nd.U = v
			if n != protowire.SizeVarint(v) {
				nd.ValW = n
			}
			b = b[n:]
		case protowire.Fixed32Type:
			v, n := protowire.ConsumeFixed32(b)
			if n < 0 {
				return nil, protowire.ParseError(n)
			}
			nd.U = uint64(v)
			b = b[n:]
		case protowire.Fixed64Type:
			v, n := protowire.ConsumeFixed64(b)
			if n < 0 {
				return nil, protowire.ParseError(n)
			}
			nd.U = v
			b = b[n:]
		case protowire.BytesType:
			l, ln := protowire.ConsumeVarint(b)
			if ln < 0 {
				return nil, protowire.ParseError(ln)
			}
			if l > uint64(len(b)-ln) {
				return nil, fmt.Errorf("truncated bytes field %d", num)
			}
			if ln != protowire.SizeVarint(l) {
				nd.ValW = ln
			}
			payload := b[ln : ln+int(l)]
			b = b[ln+int(l):]
			var sub *Message
			if f != nil {
				switch f.K {
				case KMsg:
					sub = &s.Msgs[f.Msg]
				case KMap:
					sub = f.EntryMessage()
				}
			}
			if sub != nil {
				ch, err := s.ParseWire(sub, payload)
				if err != nil {
					return nil, fmt.Errorf("field %d: %w", num, err)
				}
				nd.IsMsg, nd.Sub, nd.M = true, ch, sub
			} else {
				nd.Raw = append([]byte(nil), payload...)
			}
		default:
			return nil, fmt.Errorf("field %d: wire type %d not handled (groups are never generated)", num, typ)
		}
		if f != nil && WireTypeOf(f.K, f.Opt) == typ {
			nd.F = f
		}
		out = append(out, nd)
	}
	return out, nil
}

// AppendVarintW appends v as a varint of exactly w bytes when w is larger than
// the minimal width (padding with 0x80 continuation bytes and a final 0x00);
// w <= minimal width (or w > 10) gives the minimal encoding.
func AppendVarintW(b []byte, v uint64, w int) []byte {
	min := protowire.SizeVarint(v)
	if w <= min || w > 10 {
		return protowire.AppendVarint(b, v)
	}
	for i := 0; i < w-1; i++ {
		b = append(b, byte(v&0x7f)|0x80)
		v >>= 7
	}
	return append(b, byte(v))
}

// Serialize encodes the nodes.
func Serialize(nodes []WNode) []byte { return appendNodes(nil, nodes) }

func appendNodes(b []byte, nodes []WNode) []byte {
	for i := range nodes {
		nd := &nodes[i]
		b = AppendVarintW(b, protowire.EncodeTag(protowire.Number(nd.Num), nd.Typ), nd.TagW)
		switch nd.Typ {
		case protowire.VarintType:
			b = AppendVarintW(b, nd.U, nd.ValW)
		case protowire.Fixed32Type:
			b = protowire.AppendFixed32(b, uint32(nd.U))
		case protowire.Fixed64Type:
			b = protowire.AppendFixed64(b, nd.U)
		case protowire.BytesType:
			payload := nd.Raw
			if nd.IsMsg {
				payload = appendNodes(nil, nd.Sub)
			}
			b = AppendVarintW(b, uint64(len(payload)), nd.ValW)
			b = append(b, payload...)
		}
	}
	return b
}

// Canonical reports whether every varint in the tree has its minimal width.
func Canonical(nodes []WNode) bool {
	for i := range nodes {
		nd := &nodes[i]
		if nd.TagW != 0 || nd.ValW != 0 {
			return false
		}
		if nd.IsMsg && !Canonical(nd.Sub) {
			return false
		}
	}
	return true
}

// CloneNodes deep-copies a tree.
func CloneNodes(n []WNode) []WNode {
	out := make([]WNode, len(n))
	copy(out, n)
	for i := range out {
		if out[i].IsMsg {
			out[i].Sub = CloneNodes(out[i].Sub)
		}
	}
	return out
}

// ScalarNode builds the canonical node of a scalar slot of kind k (with
// option opt) holding v.
func ScalarNode(num int, k Kind, opt string, v *Val) WNode {
	nd := WNode{Num: num, Typ: WireTypeOf(k, opt)}
	switch k {
	case KBool:
		if v.N != 0 {
			nd.U = 1
		}
	case KInt32:
		x := int64(int32(v.N))
		if opt == "zigzag" {
			nd.U = protowire.EncodeZigZag(x)
		} else {
			nd.U = uint64(x)
		}
	case KInt, KInt64:
		if opt == "zigzag" {
			nd.U = protowire.EncodeZigZag(int64(v.N))
		} else {
			nd.U = v.N
		}
	case KUint32, KFloat32:
		nd.U = uint64(uint32(v.N))
	case KUint, KUint64, KFloat64:
		nd.U = v.N
	case KString, KBytes:
		nd.Raw = append([]byte{}, v.B...)
	}
	return nd
}
