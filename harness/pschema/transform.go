package pschema

import (
	"google.golang.org/protobuf/encoding/protowire"
	"pgregory.net/rapid"
)

// TxStats counts the transformations actually applied.
type TxStats struct {
	Perm, Nonmin, Override, OverrideZero, Split, Unknown int
	BoolWiden                                            int // widening of a bool varint suppressed (NoBoolWiden)
}

func (a *TxStats) Any() bool {
	return a.Perm+a.Nonmin+a.Override+a.OverrideZero+a.Split+a.Unknown > 0
}

// TxSel selects the transformation kinds Transform may apply.
type TxSel struct {
	Perm, Nonmin, Override, Split bool
	Unknown                       bool // interleave unknown fields (numbers outside the message)
	NoBoolWiden                   bool // never write a bool as a multi-byte varint
}

// Transform applies the selected legal transformations to the wire tree of
// message m (recursively) using rapid draws only.
func Transform(rt *rapid.T, s *Schema, m *Message, nodes []WNode, sel TxSel, st *TxStats) []WNode {
	// children first
	for i := range nodes {
		if nodes[i].IsMsg {
			nodes[i].Sub = Transform(rt, s, nodes[i].M, nodes[i].Sub, sel, st)
		}
	}
	// split singular embedded messages into several occurrences
	if sel.Split {
		var out []WNode
		for i := range nodes {
			nd := nodes[i]
			if nd.IsMsg && nd.F != nil && nd.F.K == KMsg && !nd.F.Rep && rapid.IntRange(0, 2).Draw(rt, "split?") != 0 {
				k := rapid.IntRange(2, 3).Draw(rt, "pieces")
				cuts := make([]int, k-1)
				for j := range cuts {
					cuts[j] = rapid.IntRange(0, len(nd.Sub)).Draw(rt, "cut")
				}
				sortInts(cuts)
				prev := 0
				for j := 0; j < k; j++ {
					end := len(nd.Sub)
					if j < k-1 {
						end = cuts[j]
					}
					piece := nd
					piece.Sub = append([]WNode(nil), nd.Sub[prev:end]...)
					out = append(out, piece)
					prev = end
				}
				st.Split++
				continue
			}
			out = append(out, nd)
		}
		nodes = out
	}
	// an earlier occurrence of a singular scalar field, overridden by the real one
	if sel.Override {
		for fi := range m.Fields {
			f := &m.Fields[fi]
			if f.Rep || !IsScalarKind(f.K) || rapid.IntRange(0, 3).Draw(rt, "override?") != 0 {
				continue
			}
			first := -1
			for i := range nodes {
				if nodes[i].Num == f.Num {
					first = i
					break
				}
			}
			vo := ValOpts{}
			vo = vo.defaults()
			other := GenFieldVal(rt, s, f, &vo, 3)
			ond := ScalarNode(f.Num, f.K, f.Opt, &other)
			ond.F = f
			if first < 0 {
				// field at its default: the overriding later occurrence is an explicit default value
				zero := Val{}
				znd := ScalarNode(f.Num, f.K, f.Opt, &zero)
				znd.F = f
				pos := rapid.IntRange(0, len(nodes)).Draw(rt, "zpos")
				nodes = insertNode(nodes, pos, znd)
				first = pos
				st.OverrideZero++
			} else {
				st.Override++
			}
			pos := rapid.IntRange(0, first).Draw(rt, "opos")
			nodes = insertNode(nodes, pos, ond)
		}
	}
	// unknown fields interleaved (numbers that are not fields of m)
	if sel.Unknown && rapid.IntRange(0, 2).Draw(rt, "unknown?") != 0 {
		k := rapid.IntRange(1, 3).Draw(rt, "nunknown")
		for j := 0; j < k; j++ {
			var n int
			for tries := 0; ; tries++ {
				n = rapid.SampledFrom([]int{1, 2, 3, 7, 15, 16, 100, 255, 256, 300, 2047, 2048, 65535, 65536, 1<<29 - 1}).Draw(rt, "unum")
				if tries > 5 {
					n = rapid.IntRange(1, 1<<29-1).Draw(rt, "unum2")
				}
				if m.byNum(n) == nil && validNum(n) {
					break
				}
			}
			nd := WNode{Num: n}
			switch rapid.IntRange(0, 3).Draw(rt, "utype") {
			case 0:
				nd.Typ = protowire.VarintType
				nd.U = rapid.Uint64().Draw(rt, "uvarint")
			case 1:
				nd.Typ = protowire.Fixed32Type
				nd.U = uint64(rapid.Uint32().Draw(rt, "ufix32"))
			case 2:
				nd.Typ = protowire.Fixed64Type
				nd.U = rapid.Uint64().Draw(rt, "ufix64")
			default:
				nd.Typ = protowire.BytesType
				nd.Raw = rapid.SliceOfN(rapid.Byte(), 0, 9).Draw(rt, "ubytes")
			}
			nodes = insertNode(nodes, rapid.IntRange(0, len(nodes)).Draw(rt, "upos"), nd)
			st.Unknown++
		}
	}
	// permutation keeping the relative order of occurrences of one field number
	if sel.Perm && len(nodes) > 1 && rapid.IntRange(0, 3).Draw(rt, "perm?") != 0 {
		p := rapid.Permutation(indices(len(nodes))).Draw(rt, "perm")
		// slots taken by each number, in permuted order, are refilled in original order
		byNum := map[int][]int{}
		for _, oi := range indices(len(nodes)) {
			byNum[nodes[oi].Num] = append(byNum[nodes[oi].Num], oi)
		}
		out := make([]WNode, len(nodes))
		next := map[int]int{}
		changed := false
		for slot, oi := range p {
			n := nodes[oi].Num
			src := byNum[n][next[n]]
			next[n]++
			out[slot] = nodes[src]
			if src != slot {
				changed = true
			}
		}
		if changed {
			st.Perm++
		}
		nodes = out
	}
	// non-minimal varints for tags, varint values and lengths
	if sel.Nonmin {
		for i := range nodes {
			nd := &nodes[i]
			if rapid.IntRange(0, 2).Draw(rt, "widen?") == 0 {
				continue
			}
			if rapid.Bool().Draw(rt, "widen-tag") {
				w := rapid.IntRange(2, 10).Draw(rt, "tagw")
				if w > protowire.SizeVarint(protowire.EncodeTag(protowire.Number(nd.Num), nd.Typ)) {
					nd.TagW = w
					st.Nonmin++
				}
			}
			if nd.Typ == protowire.VarintType || nd.Typ == protowire.BytesType {
				if rapid.Bool().Draw(rt, "widen-val") {
					if nd.Typ == protowire.VarintType && nd.F != nil && nd.F.K == KBool && sel.NoBoolWiden {
						st.BoolWiden++
						continue
					}
					w := rapid.IntRange(2, 10).Draw(rt, "valw")
					min := protowire.SizeVarint(nd.U)
					if nd.Typ == protowire.BytesType {
						min = 1 // decided at serialisation; any width above the minimal one is padded
						w = rapid.IntRange(2, 10).Draw(rt, "lenw")
					}
					if w > min {
						nd.ValW = w
						st.Nonmin++
					}
				}
			}
		}
	}
	return nodes
}

func insertNode(nodes []WNode, pos int, nd WNode) []WNode {
	out := make([]WNode, 0, len(nodes)+1)
	out = append(out, nodes[:pos]...)
	out = append(out, nd)
	return append(out, nodes[pos:]...)
}

func indices(n int) []int {
	r := make([]int, n)
	for i := range r {
		r[i] = i
	}
	return r
}

func sortInts(a []int) {
	for i := 1; i < len(a); i++ {
		for j := i; j > 0 && a[j] < a[j-1]; j-- {
			a[j], a[j-1] = a[j-1], a[j]
		}
	}
}
