package pschema

import (
	"errors"
	"io"

	"google.golang.org/protobuf/encoding/protowire"
)

// PMsg and CMsg are struct-kind types that encode themselves: PMsg implements
// proto.Message (Size/Marshal/Unmarshal), CMsg the gogo-style custom
// interface (Size/MarshalTo/Unmarshal, no ProtoMessage method). Both write an
// ordinary protobuf message
//
//	message { uint64 x = 1; string s = 2; }
//
// (zero fields omitted) and read any legal encoding of it: fields in any
// order, non-minimal varints, later occurrences overriding earlier ones,
// unknown fields skipped, and — like every generated protobuf Unmarshal of a
// nested message — merging into the receiver, so that an embedded message
// split into several occurrences comes out whole. To the reference they are
// ordinary nested messages with the schema ImplMessage.
type PMsg struct {
	X uint64
	S string
}

type CMsg struct {
	X uint64
	S string
}

// PMsgPM is PMsg with a ProtoMessage method (the marker of generated
// protobuf types): it still implements proto.Message, and the library's
// codecOf gives proto.Message implementers precedence, so it is self-encoding.
type PMsgPM struct {
	X uint64
	S string
}

func (*PMsgPM) ProtoMessage() {}

// CMsgPM is CMsg with a ProtoMessage method: the library uses the custom
// interface only for types WITHOUT that marker (codecOf, TypeOf:
// `implements(t, customMessageType) && !implements(t, protoMessageType)`), so
// the methods are ignored and the type is encoded like the plain untagged
// struct {X uint64; S string}, i.e. the same message {uint64 x = 1; string s = 2}.
// Its methods would write a different payload, so that using them by mistake
// is visible.
type CMsgPM struct {
	X uint64
	S string
}

func (*CMsgPM) ProtoMessage() {}

func (m *CMsgPM) Size() int { return 3 }

func (m *CMsgPM) MarshalTo(b []byte) (int, error) {
	if len(b) < 3 {
		return 0, io.ErrShortBuffer
	}
	return copy(b, []byte{0x1a, 0x01, 0x21}), nil // field 3 = "!": not what the struct codec writes
}

func (m *CMsgPM) Unmarshal(b []byte) error { return errImpl }

// ImplMessage is the schema of PMsg / CMsg (field order = Go field order).
func ImplMessage() Message {
	return Message{Fields: []Field{{Num: 1, K: KUint64}, {Num: 2, K: KString}}}
}

var errImpl = errors.New("pschema: malformed payload of a self-encoding message")

func implSize(x uint64, s string) int {
	n := 0
	if x != 0 {
		n += 1 + protowire.SizeVarint(x)
	}
	if s != "" {
		n += 1 + protowire.SizeBytes(len(s))
	}
	return n
}

func implAppend(b []byte, x uint64, s string) []byte {
	if x != 0 {
		b = protowire.AppendTag(b, 1, protowire.VarintType)
		b = protowire.AppendVarint(b, x)
	}
	if s != "" {
		b = protowire.AppendTag(b, 2, protowire.BytesType)
		b = protowire.AppendString(b, s)
	}
	return b
}

func implMerge(b []byte, x *uint64, s *string) error {
	for len(b) > 0 {
		num, typ, n := protowire.ConsumeTag(b)
		if n < 0 {
			return errImpl
		}
		b = b[n:]
		switch {
		case num == 1 && typ == protowire.VarintType:
			v, n := protowire.ConsumeVarint(b)
			if n < 0 {
				return errImpl
			}
			*x, b = v, b[n:]
		case num == 2 && typ == protowire.BytesType:
			v, n := protowire.ConsumeBytes(b)
			if n < 0 {
				return errImpl
			}
			*s, b = string(v), b[n:]
		default:
			n := protowire.ConsumeFieldValue(num, typ, b)
			if n < 0 {
				return errImpl
			}
			b = b[n:]
		}
	}
	return nil
}

func (m *PMsg) Size() int { return implSize(m.X, m.S) }

func (m *PMsg) Marshal(b []byte) error {
	if len(b) < m.Size() {
		return io.ErrShortBuffer
	}
	implAppend(b[:0], m.X, m.S)
	return nil
}

func (m *PMsg) Unmarshal(b []byte) error { return implMerge(b, &m.X, &m.S) }

func (m *CMsg) Size() int { return implSize(m.X, m.S) }

func (m *CMsg) MarshalTo(b []byte) (int, error) {
	n := m.Size()
	if len(b) < n {
		return 0, io.ErrShortBuffer
	}
	implAppend(b[:0], m.X, m.S)
	return n, nil
}

func (m *CMsg) Unmarshal(b []byte) error { return implMerge(b, &m.X, &m.S) }

func (m *PMsgPM) Size() int { return implSize(m.X, m.S) }

func (m *PMsgPM) Marshal(b []byte) error {
	if len(b) < m.Size() {
		return io.ErrShortBuffer
	}
	implAppend(b[:0], m.X, m.S)
	return nil
}

func (m *PMsgPM) Unmarshal(b []byte) error { return implMerge(b, &m.X, &m.S) }
