package pschema

import (
	"math"

	"pgregory.net/rapid"
)

// GenOpts bounds the schema generator. The zero value gives the defaults.
type GenOpts struct {
	MaxMsgs   int   // messages per schema (default 4)
	MaxFields int   // fields per message (default 7)
	NumCap    int   // largest field number generated (default 1<<29-1)
	NoRepOpt  bool  // never put zigzag / fixed on a repeated field
	StringKey bool  // maps are map<string, V> only
	BigNums   []int // extra numbers offered above 65535 (default 65536, 70000, 1<<29-1)
	Unexp     bool  // also generate messages with unexported Go fields between the exported ones (Message.Pad)
	Impl      bool  // also generate message slots of the self-encoding types PMsg / CMsg
	MidNums   []int // extra "interesting" numbers offered (on top of the 15/16, 2047/2048, 65535 boundaries)
}

// GenStats reports what the generator wanted to produce but did not because of
// the options (used for evid.Excluded accounting of known classes).
type GenStats struct {
	CappedNums int // field numbers redrawn because they exceeded NumCap
	RepOpt     int // zigzag/fixed options dropped from repeated fields
	ImplSlots  int // message slots typed PMsg / CMsg
}

// ImplKinds are the values of Field.Impl.
var ImplKinds = []string{"pm", "cm", "pmpm", "cmpm"}

var scalarKinds = []Kind{KBool, KInt, KInt32, KInt64, KUint, KUint32, KUint64, KFloat32, KFloat64, KString, KBytes}
var keyKinds = []Kind{KString, KString, KInt, KInt32, KInt64, KUint, KUint32, KUint64, KBool}

func (o *GenOpts) defaults() GenOpts {
	r := *o
	if r.MaxMsgs == 0 {
		r.MaxMsgs = 4
	}
	if r.MaxFields == 0 {
		r.MaxFields = 7
	}
	if r.NumCap == 0 {
		r.NumCap = 1<<29 - 1
	}
	if r.BigNums == nil {
		r.BigNums = []int{65536, 70000, 1<<29 - 1, 131071, 1 << 20}
	}
	return r
}

func validNum(n int) bool { return n >= 1 && n <= 1<<29-1 && (n < 19000 || n > 19999) }

func genNum(t *rapid.T, o *GenOpts, used map[int]bool, st *GenStats) int {
	for tries := 0; ; tries++ {
		var n int
		switch c := rapid.IntRange(0, 19).Draw(t, "numclass"); {
		case c < 9:
			n = rapid.IntRange(1, 15).Draw(t, "num")
		case c < 11:
			n = rapid.SampledFrom([]int{15, 16, 17, 127, 128, 255, 256, 257, 300, 2047}).Draw(t, "num")
		case c < 12:
			n = rapid.IntRange(16, 2047).Draw(t, "num")
		case c < 14:
			n = rapid.SampledFrom([]int{2047, 2048, 2049, 16383, 16384, 18999, 20000, 65535, 65535}).Draw(t, "num")
		case c < 15:
			n = rapid.IntRange(2048, 65535).Draw(t, "num")
		case c < 16 && len(o.MidNums) > 0:
			n = rapid.SampledFrom(o.MidNums).Draw(t, "num")
		case c < 18:
			n = rapid.SampledFrom(o.BigNums).Draw(t, "num")
		case c < 19:
			n = rapid.IntRange(65536, 1<<29-1).Draw(t, "num")
		default:
			n = rapid.IntRange(1, 15).Draw(t, "num")
		}
		if n > o.NumCap {
			st.CappedNums++
			if tries > 6 {
				n = rapid.IntRange(1, min(o.NumCap, 2047)).Draw(t, "numcapped")
			} else {
				continue
			}
		}
		if !validNum(n) || used[n] {
			if tries > 40 {
				// fall back to the first free small number
				for n = 1; used[n]; n++ {
				}
			} else {
				continue
			}
		}
		used[n] = true
		return n
	}
}

// GenSchema draws a schema.
func GenSchema(t *rapid.T, opts GenOpts) (Schema, GenStats) {
	o := opts.defaults()
	var st GenStats
	nm := rapid.IntRange(1, o.MaxMsgs).Draw(t, "nmsgs")
	s := Schema{Msgs: make([]Message, nm)}
	// self-encoding types: their schema (ImplMessage) is appended as an extra
	// last message that only Impl slots refer to
	implIdx := -1
	if o.Impl && rapid.IntRange(0, 2).Draw(t, "withimpl") != 0 {
		implIdx = nm
		s.Msgs = append(s.Msgs, ImplMessage())
	}
	for mi := nm - 1; mi >= 0; mi-- {
		m := &s.Msgs[mi]
		m.Tagged = rapid.IntRange(0, 9).Draw(t, "tagged") < 6
		nf := rapid.IntRange(0, o.MaxFields).Draw(t, "nfields")
		if nf < 2 && rapid.Bool().Draw(t, "morefields") {
			nf = rapid.IntRange(2, o.MaxFields).Draw(t, "nfields2")
		}
		canRef := mi < nm-1
		// single-field "inlined" shapes (one pointer or map field) get extra weight
		inl := canRef && rapid.IntRange(0, 11).Draw(t, "inlined") == 0
		if inl {
			nf = 1
		}
		if mi == 0 && nf == 0 && rapid.IntRange(0, 3).Draw(t, "nonempty-root") != 0 {
			nf = rapid.IntRange(1, o.MaxFields).Draw(t, "nfields-root")
		}
		if o.Unexp && rapid.IntRange(0, 3).Draw(t, "unexported?") == 0 {
			// unexported fields at the start / in the middle / at the end
			m.Pad = make([]int, nf+1)
			any := false
			for j := range m.Pad {
				if rapid.IntRange(0, 2).Draw(t, "padhere") == 0 {
					m.Pad[j] = rapid.IntRange(1, 2).Draw(t, "npad")
					any = true
				}
			}
			if !any {
				m.Pad[rapid.IntRange(0, nf).Draw(t, "padpos")] = 1
			}
		}
		used := map[int]bool{}
		m.Fields = make([]Field, nf)
		// non-leaf messages usually nest: one field is forced to be a message
		force := -1
		if canRef && !inl && nf > 0 && rapid.IntRange(0, 2).Draw(t, "forcemsg") != 0 {
			force = rapid.IntRange(0, nf-1).Draw(t, "forceidx")
		}
		for i := range m.Fields {
			f := &m.Fields[i]
			shape := rapid.IntRange(0, 19).Draw(t, "shape")
			if i == force {
				shape = rapid.IntRange(13, 16).Draw(t, "forceshape")
			}
			switch {
			case inl:
				if rapid.Bool().Draw(t, "inl-map") {
					shape = 18
				} else {
					shape = 14
					f.Ptr = true
				}
			case !canRef && implIdx < 0 && shape >= 13 && shape <= 16:
				shape = 0
			}
			// a message-shaped slot is of a self-encoding type when there is no
			// ordinary message to refer to, and otherwise a third of the time
			useImpl := func() bool {
				return implIdx >= 0 && (!canRef || rapid.IntRange(0, 2).Draw(t, "impl?") == 0)
			}
			switch {
			case shape <= 12: // scalar, singular or repeated
				f.K = rapid.SampledFrom(scalarKinds).Draw(t, "kind")
				f.Rep = shape >= 9
			case shape <= 16: // message
				f.K = KMsg
				if i != force && useImpl() {
					f.Msg = implIdx
					f.Impl = rapid.SampledFrom(ImplKinds).Draw(t, "implkind")
					st.ImplSlots++
				} else {
					f.Msg = mi + 1 // bias towards deep chains
					if rapid.IntRange(0, 2).Draw(t, "msgskip") == 0 {
						f.Msg = rapid.IntRange(mi+1, nm-1).Draw(t, "msgref")
					}
				}
				if !inl {
					f.Ptr = rapid.Bool().Draw(t, "ptr")
				}
				f.Rep = shape == 16 && !inl
			default: // map
				f.K = KMap
				if o.StringKey {
					f.Key = KString
				} else {
					f.Key = rapid.SampledFrom(keyKinds).Draw(t, "key")
				}
				if (canRef || implIdx >= 0) && rapid.IntRange(0, 3).Draw(t, "mapmsg") == 0 {
					f.Val = KMsg
					if useImpl() {
						f.Msg = implIdx
						f.Impl = rapid.SampledFrom(ImplKinds).Draw(t, "implkind")
						st.ImplSlots++
					} else {
						f.Msg = rapid.IntRange(mi+1, nm-1).Draw(t, "msgref")
					}
					f.Ptr = rapid.Bool().Draw(t, "ptr")
				} else {
					f.Val = rapid.SampledFrom(scalarKinds).Draw(t, "val")
				}
			}
			if m.Tagged {
				f.Num = genNum(t, &o, used, &st)
				wantOpt := rapid.IntRange(0, 2).Draw(t, "opt") == 0
				if wantOpt && f.K != KMap {
					switch f.K {
					case KInt, KInt32, KInt64:
						f.Opt = "zigzag"
					case KUint32, KUint64:
						f.Opt = "fixed"
					}
					if f.Opt != "" && f.Rep && o.NoRepOpt {
						f.Opt = ""
						st.RepOpt++
					}
				}
			} else {
				f.Num = i + 1
			}
		}
	}
	return s, st
}

// ------------------------------------------------------------------ values

// ValOpts bounds the value generator.
type ValOpts struct {
	MaxRep   int  // usual bound on repeated / map lengths (default 6)
	LongRep  int  // occasional long repeated fields (default 60)
	ASCII    bool // strings (and bytes) restricted to printable ASCII / valid UTF-8 text
	NoNaN    bool // no NaN / Inf / -0 floats (JSON templates cannot carry them)
	NonZero  bool // scalars never zero (used for template values whose zero has another meaning)
	Complete bool // no nil message pointers
}

var edge64 = []uint64{1, 2, 127, 128, 255, 256, 16383, 16384, 1<<21 - 1, 1 << 21, 1<<28 - 1, 1 << 28, 1<<31 - 1, 1 << 31, 1<<32 - 1, 1 << 32,
	1<<35 - 1, 1 << 35, 1<<42 - 1, 1 << 49, 1<<56 - 1, 1 << 56, 1<<63 - 1, 1 << 63, math.MaxUint64, math.MaxUint64 - 1}

func genInt(t *rapid.T, bits int, signed bool, nonzero bool) uint64 {
	for {
		var u uint64
		switch rapid.IntRange(0, 5).Draw(t, "intclass") {
		case 0:
			u = 0
		case 1:
			u = uint64(rapid.IntRange(1, 300).Draw(t, "small"))
		case 2:
			u = rapid.SampledFrom(edge64).Draw(t, "edge")
		case 3:
			u = rapid.Uint64().Draw(t, "u64")
		case 4: // negative small / sign extension class
			u = uint64(-int64(rapid.IntRange(1, 70000).Draw(t, "neg")))
		default:
			u = uint64(1) << uint(rapid.IntRange(0, 63).Draw(t, "shift"))
			if rapid.Bool().Draw(t, "minus1") {
				u--
			}
		}
		if bits == 32 {
			if signed {
				u = uint64(int64(int32(uint32(u))))
			} else {
				u = uint64(uint32(u))
			}
		} else if !signed {
			// keep as is
		}
		if nonzero && u == 0 {
			continue
		}
		return u
	}
}

var f32edge = []uint32{0x3f800000, 0xbf800000, 0x80000000, 0x7f800000, 0xff800000, 0x7fc00000, 0xffc00001, 0x7fc12345, 0x00000001, 0x007fffff, 0x7f7fffff, 0x3e000000, 0x40490fdb}
var f64edge = []uint64{0x3ff0000000000000, 0xbff0000000000000, 0x8000000000000000, 0x7ff0000000000000, 0xfff0000000000000, 0x7ff8000000000000, 0x7ff0000000000001, 0xfff8000000abcdef, 1, 0x000fffffffffffff, 0x7fefffffffffffff, 0x3fc0000000000000, 0x400921fb54442d18}

func finite32(b uint32) bool { return b&0x7f800000 != 0x7f800000 }
func finite64(b uint64) bool { return b&0x7ff0000000000000 != 0x7ff0000000000000 }

func genScalar(t *rapid.T, k Kind, o *ValOpts) Val {
	switch k {
	case KBool:
		if o.NonZero || rapid.Bool().Draw(t, "bool") {
			return Val{N: 1}
		}
		return Val{}
	case KInt32:
		return Val{N: genInt(t, 32, true, o.NonZero)}
	case KInt, KInt64:
		return Val{N: genInt(t, 64, true, o.NonZero)}
	case KUint32:
		return Val{N: genInt(t, 32, false, o.NonZero)}
	case KUint, KUint64:
		return Val{N: genInt(t, 64, false, o.NonZero)}
	case KFloat32:
		for {
			var b uint32
			switch rapid.IntRange(0, 3).Draw(t, "f32class") {
			case 0:
				b = 0
			case 1:
				b = rapid.SampledFrom(f32edge).Draw(t, "f32edge")
			case 2:
				b = math.Float32bits(float32(rapid.IntRange(-1000, 1000).Draw(t, "f32int")) / 8)
			default:
				b = rapid.Uint32().Draw(t, "f32bits")
			}
			if !finite32(b) && b&0x007fffff != 0 {
				// NaN: force the quiet bit; the reference stores float32 values as
				// float64, and that conversion quiets signalling NaNs
				b |= 0x00400000
			}
			if o.NoNaN && (!finite32(b) || b == 0x80000000) {
				continue
			}
			if o.NonZero && b&0x7fffffff == 0 {
				continue
			}
			return Val{N: uint64(b)}
		}
	case KFloat64:
		for {
			var b uint64
			switch rapid.IntRange(0, 3).Draw(t, "f64class") {
			case 0:
				b = 0
			case 1:
				b = rapid.SampledFrom(f64edge).Draw(t, "f64edge")
			case 2:
				b = math.Float64bits(float64(rapid.IntRange(-100000, 100000).Draw(t, "f64int")) / 64)
			default:
				b = rapid.Uint64().Draw(t, "f64bits")
			}
			if o.NoNaN && (!finite64(b) || b == 1<<63) {
				continue
			}
			if o.NonZero && b<<1 == 0 {
				continue
			}
			return Val{N: b}
		}
	case KString:
		return Val{B: []byte(genString(t, o, true))}
	case KBytes:
		if o.ASCII {
			return Val{B: []byte(genString(t, o, true))}
		}
		if !o.NonZero && rapid.IntRange(0, 7).Draw(t, "nilbytes") == 0 {
			return Val{Nil: true}
		}
		lo := 0
		if o.NonZero {
			lo = 1
		}
		n := rapid.IntRange(lo, 12).Draw(t, "blen")
		if rapid.IntRange(0, 15).Draw(t, "blong") == 0 {
			n = rapid.SampledFrom([]int{127, 128, 129, 300, 16383, 16384, 20000}).Draw(t, "blen2")
		}
		b := make([]byte, n)
		seed := rapid.Uint32().Draw(t, "bseed")
		for i := range b {
			seed = seed*1664525 + 1013904223
			b[i] = byte(seed >> 24)
		}
		if n > 0 && n <= 12 {
			b[0] = rapid.Byte().Draw(t, "b0")
		}
		return Val{B: b}
	}
	panic("genScalar: " + string(k))
}

var runeSet = []rune{'a', 'b', 'z', 'A', '0', ' ', '_', '-', '"', '\\', '/', '<', '&', '\n', '\t', 0x7f, 0xe9, 0x3b1, 0x20ac, 0xfffd, 0x1f600}

func genString(t *rapid.T, o *ValOpts, _ bool) string {
	lo := 0
	if o.NonZero {
		lo = 1
	}
	n := rapid.IntRange(lo, 10).Draw(t, "slen")
	if rapid.IntRange(0, 19).Draw(t, "slong") == 0 {
		n = rapid.SampledFrom([]int{127, 128, 200, 16384}).Draw(t, "slen2")
		r := rapid.SampledFrom([]rune{'x', 0xe9, 0x20ac}).Draw(t, "fill")
		if o.ASCII {
			r = 'x'
		}
		out := make([]rune, n)
		for i := range out {
			out[i] = r
		}
		return string(out)
	}
	out := make([]rune, n)
	for i := range out {
		if o.ASCII {
			out[i] = rune(rapid.IntRange(0x20, 0x7e).Draw(t, "ch"))
		} else {
			out[i] = rapid.SampledFrom(runeSet).Draw(t, "r")
		}
	}
	return string(out)
}

func (o *ValOpts) defaults() ValOpts {
	r := *o
	if r.MaxRep == 0 {
		r.MaxRep = 6
	}
	if r.LongRep == 0 {
		r.LongRep = 60
	}
	return r
}

func genLen(t *rapid.T, o *ValOpts) int {
	switch c := rapid.IntRange(0, 19).Draw(t, "lenclass"); {
	case c < 4:
		return 0
	case c < 18:
		return rapid.IntRange(1, o.MaxRep).Draw(t, "len")
	default:
		return rapid.IntRange(o.MaxRep+1, o.LongRep).Draw(t, "longlen")
	}
}

// GenMsgVal draws a value of message mi.
func GenMsgVal(t *rapid.T, s *Schema, mi int, opts ValOpts) Val {
	o := opts.defaults()
	return genMsg(t, s, &s.Msgs[mi], &o, 0)
}

func genMsg(t *rapid.T, s *Schema, m *Message, o *ValOpts, depth int) Val {
	v := Val{L: make([]Val, len(m.Fields))}
	for i := range m.Fields {
		v.L[i] = GenFieldVal(t, s, &m.Fields[i], o, depth)
	}
	return v
}

func genOne(t *rapid.T, s *Schema, k Kind, msg int, o *ValOpts, depth int) Val {
	if k == KMsg {
		return genMsg(t, s, &s.Msgs[msg], o, depth+1)
	}
	return genScalar(t, k, o)
}

// GenFieldVal draws the value of one field.
func GenFieldVal(t *rapid.T, s *Schema, f *Field, o *ValOpts, depth int) Val {
	// a sixth of all fields stay at their zero value
	zero := !o.NonZero && rapid.IntRange(0, 5).Draw(t, "zero") == 0
	switch {
	case f.K == KMap:
		if zero {
			if rapid.Bool().Draw(t, "nilmap") {
				return Val{Nil: true}
			}
			return Val{L: []Val{}}
		}
		n := genLen(t, o)
		if depth > 0 && n > 3 {
			n = 3
		}
		if o.NonZero && n == 0 {
			n = 1
		}
		out := Val{L: []Val{}}
		seen := map[string]bool{}
		ko := *o
		ko.NonZero = o.NonZero
		for j := 0; j < n; j++ {
			k := genScalar(t, f.Key, &ko)
			id := string(k.B) + "\x00" + string(rune(k.N&0xffff)) + string(rune(k.N>>16&0xffff)) + string(rune(k.N>>32&0xffff)) + string(rune(k.N>>48))
			if seen[id] {
				continue
			}
			seen[id] = true
			out.L = append(out.L, k, genOne(t, s, f.Val, f.Msg, o, depth))
		}
		sortMap(&out)
		return out
	case f.Rep:
		if zero {
			if rapid.Bool().Draw(t, "nilslice") {
				return Val{Nil: true}
			}
			return Val{L: []Val{}}
		}
		n := genLen(t, o)
		if depth > 0 && n > 4 {
			n = 4
		}
		if f.K == KMsg && n > 8 {
			n = 8
		}
		if o.NonZero && n == 0 {
			n = 1
		}
		out := Val{L: make([]Val, n)}
		for j := range out.L {
			out.L[j] = genOne(t, s, f.K, f.Msg, o, depth)
		}
		return out
	case f.K == KMsg:
		if zero {
			// nil pointer, or (pointer to) the all-zero message
			if f.Ptr && !o.Complete && rapid.Bool().Draw(t, "nilptr0") {
				return Val{Nil: true}
			}
			return s.ZeroMsg(&s.Msgs[f.Msg])
		}
		if f.Ptr && !o.Complete && rapid.IntRange(0, 7).Draw(t, "nilptr") == 0 {
			return Val{Nil: true}
		}
		return genMsg(t, s, &s.Msgs[f.Msg], o, depth+1)
	default:
		if zero {
			if f.K == KBytes && rapid.Bool().Draw(t, "nilbytes0") {
				return Val{Nil: true}
			}
			if f.K == KString || f.K == KBytes {
				return Val{B: []byte{}}
			}
			return Val{}
		}
		return genScalar(t, f.K, o)
	}
}
