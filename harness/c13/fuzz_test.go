package c13

import (
	"encoding/binary"
	"fmt"
	"math"
	"os"
	"path/filepath"
	"reflect"
	"runtime"
	"runtime/debug"
	"strconv"
	"strings"
	"testing"

	"github.com/segmentio/encoding/thrift"
	"pgregory.net/rapid"

	"verif/harness/evid"
	"verif/harness/tgen"
	"verif/harness/thriftspec"
)

// fuzzTargets: the fixed table of target struct types of FuzzThriftSpecDiff.
var fuzzTargets = func() []tgen.TypeDesc {
	type TD = tgen.TypeDesc
	type FD = tgen.FieldDesc
	sc := func(k tgen.Kind) TD { return TD{K: k} }
	p := func(d TD) *TD { return &d }
	st := func(fs ...FD) TD { return TD{K: tgen.KStruct, Fields: fs} }
	f := func(id int16, t TD) FD { return FD{ID: id, T: t} }
	req := func(id int16, t TD) FD { return FD{ID: id, Req: true, T: t} }
	list := func(e TD) TD { return TD{K: tgen.KList, Elem: p(e)} }
	set := func(k TD) TD { return TD{K: tgen.KSet, Key: p(k)} }
	mp := func(k, e TD) TD { return TD{K: tgen.KMap, Key: p(k), Elem: p(e)} }
	ptr := func(e TD) TD { return TD{K: tgen.KPtr, Elem: p(e)} }
	inner := st(f(1, sc(tgen.KBool)), f(2, sc(tgen.KStr)), f(16, list(sc(tgen.KI16))), f(3, sc(tgen.KF64)))
	union := TD{K: tgen.KStruct, Union: true, Fields: []FD{f(1, sc(tgen.KBool)), f(2, sc(tgen.KInt)), f(3, sc(tgen.KStr)), f(4, inner)}}
	deep := st(f(30, sc(tgen.KI32)), f(31, sc(tgen.KStr)))
	chain := st(f(20, sc(tgen.KI8)), FD{Emb: true, T: ptr(st(f(21, sc(tgen.KBool)), FD{Emb: true, T: deep}))})
	wide := TD{K: tgen.KStruct}
	for i := 0; i < 70; i++ {
		fd := f(int16(3+i), sc([]tgen.Kind{tgen.KBool, tgen.KI32, tgen.KStr, tgen.KI64, tgen.KF64, tgen.KI16, tgen.KI8}[i%7]))
		fd.Req = i%9 == 8
		wide.Fields = append(wide.Fields, fd)
	}
	return []TD{
		// 0: every scalar thrift type
		st(f(1, sc(tgen.KBool)), f(2, sc(tgen.KI8)), f(3, sc(tgen.KI16)), f(4, sc(tgen.KI32)), f(5, sc(tgen.KI64)), f(6, sc(tgen.KInt)), f(7, sc(tgen.KF64)), f(8, sc(tgen.KF32)), f(9, sc(tgen.KStr)), f(10, sc(tgen.KBytes))),
		// 1: lists, sets, maps, nested
		st(f(1, list(sc(tgen.KI64))), f(2, list(sc(tgen.KBool))), f(3, list(sc(tgen.KStr))), f(4, set(sc(tgen.KI32))), f(5, set(sc(tgen.KStr))), f(6, mp(sc(tgen.KStr), sc(tgen.KI32))),
			f(7, mp(sc(tgen.KI64), list(sc(tgen.KStr)))), f(8, list(list(sc(tgen.KI16)))), f(9, mp(sc(tgen.KI8), sc(tgen.KF64))), f(10, mp(sc(tgen.KBool), set(sc(tgen.KI16))))),
		// 2: nested structs, pointers, containers of structs, the recursive corpus type
		st(f(1, inner), f(2, ptr(inner)), f(3, list(inner)), f(4, mp(sc(tgen.KStr), inner)), f(5, ptr(sc(tgen.KI32))), f(6, ptr(ptr(sc(tgen.KBool)))), f(7, list(ptr(inner))), f(8, TD{K: tgen.KNamed, Name: "Rec"})),
		// 3: required / optional / enum
		st(req(1, sc(tgen.KI32)), FD{ID: 2, Opt: true, T: sc(tgen.KStr)}, req(3, list(sc(tgen.KI32))), FD{ID: 4, Enum: true, T: sc(tgen.KI8)}, FD{ID: 5, Enum: true, T: TD{K: tgen.KI32, Name: "Color"}},
			FD{ID: 6, Enum: true, Req: true, T: sc(tgen.KI64)}, req(7, ptr(inner)), f(8, sc(tgen.KBool))),
		// 4: unions, alone and inside containers
		st(f(1, union), f(2, list(union)), f(3, sc(tgen.KI32)), f(4, ptr(union))),
		// 5: sparse and large field ids, declaration order != id order
		st(f(200, sc(tgen.KStr)), f(1, sc(tgen.KI32)), f(32767, sc(tgen.KI16)), f(17, sc(tgen.KBool)), req(100, sc(tgen.KI64)), f(16, sc(tgen.KF64)), f(4660, list(sc(tgen.KI8)))),
		// 6: embedding chains (by value and through a pointer, 3 levels)
		st(f(1, sc(tgen.KStr)), FD{Emb: true, T: chain}, f(40, sc(tgen.KBool)), FD{Emb: true, T: st(f(50, sc(tgen.KI64)), f(51, list(sc(tgen.KStr))))}),
		// 7: 70 fields, required ones beyond the first bitmap word
		wide,
	}
}()

func totalAlloc() uint64 {
	var ms runtime.MemStats
	runtime.ReadMemStats(&ms)
	return ms.TotalAlloc
}

// fromTree builds the Go value of type d that the content tree t denotes. It
// returns false when t is not unambiguously a value of that type: a declared id
// with another wire type, a repeated field id, repeated map keys / set elements,
// a NaN key, an enum outside its Go type, a missing required field, a union
// with two members. Fields the type does not declare are ignored.
func fromTree(d *tgen.TypeDesc, t *thriftspec.Value, v reflect.Value) bool {
	d = tgen.Resolve(d)
	switch d.K {
	case tgen.KBool:
		if t.T != thriftspec.Bool {
			return false
		}
		v.SetBool(t.B)
	case tgen.KI8, tgen.KI16, tgen.KI32, tgen.KI64, tgen.KInt:
		if t.T != tgen.SpecType(d) {
			return false
		}
		v.SetInt(t.I)
	case tgen.KF64, tgen.KF32:
		if t.T != thriftspec.Double {
			return false
		}
		v.SetFloat(math.Float64frombits(t.F))
	case tgen.KStr:
		if t.T != thriftspec.String {
			return false
		}
		v.SetString(string(t.S))
	case tgen.KBytes:
		if t.T != thriftspec.String {
			return false
		}
		v.SetBytes(append([]byte{}, t.S...))
	case tgen.KList:
		if t.T != thriftspec.List || t.ET != tgen.SpecType(d.Elem) {
			return false
		}
		s := reflect.MakeSlice(v.Type(), len(t.Elems), len(t.Elems))
		for i := range t.Elems {
			if !fromTree(d.Elem, &t.Elems[i], s.Index(i)) {
				return false
			}
		}
		v.Set(s)
	case tgen.KSet, tgen.KMap:
		want := thriftspec.Map
		if d.K == tgen.KSet {
			want = thriftspec.Set
		}
		if t.T != want {
			return false
		}
		m := reflect.MakeMap(v.Type())
		if d.K == tgen.KSet && t.ET != tgen.SpecType(d.Key) {
			return false
		}
		if d.K == tgen.KMap && len(t.Elems) > 0 && (t.KT != tgen.SpecType(d.Key) || t.ET != tgen.SpecType(d.Elem)) {
			return false
		}
		for i := range t.Elems {
			k := reflect.New(v.Type().Key()).Elem()
			kt := &t.Elems[i]
			if d.K == tgen.KMap {
				kt = &t.Keys[i]
			}
			if !fromTree(d.Key, kt, k) {
				return false
			}
			if (k.Kind() == reflect.Float64 || k.Kind() == reflect.Float32) && k.Float() != k.Float() {
				return false
			}
			if m.MapIndex(k).IsValid() {
				return false // repeated key / element
			}
			e := reflect.New(v.Type().Elem()).Elem()
			if d.K == tgen.KMap && !fromTree(d.Elem, &t.Elems[i], e) {
				return false
			}
			m.SetMapIndex(k, e)
		}
		v.Set(m)
	case tgen.KPtr:
		p := reflect.New(v.Type().Elem())
		if !fromTree(d.Elem, t, p.Elem()) {
			return false
		}
		v.Set(p)
	case tgen.KStruct:
		if t.T != thriftspec.Struct {
			return false
		}
		flat := tgen.Flatten(d)
		seen := map[int16]bool{}
		members := 0
		for i := range t.Fields {
			tf := &t.Fields[i]
			var ff *tgen.FlatField
			for j := range flat {
				if flat[j].F.ID == tf.ID {
					ff = &flat[j]
				}
			}
			if ff == nil {
				continue // not declared: skipped by a conformant reader
			}
			if seen[tf.ID] {
				return false
			}
			seen[tf.ID] = true
			members++
			x := v
			for _, idx := range ff.Path {
				if x.Kind() == reflect.Ptr {
					if x.IsNil() {
						x.Set(reflect.New(x.Type().Elem()))
					}
					x = x.Elem()
				}
				x = x.Field(idx)
			}
			fk := tgen.Resolve(&ff.F.T).K
			if ff.F.Enum && (fk == tgen.KI8 || fk == tgen.KI16 || fk == tgen.KI32 || fk == tgen.KI64 || fk == tgen.KInt) {
				lo, hi := tgen.IntRange(fk)
				if tf.V.T != thriftspec.I32 || tf.V.I < lo || tf.V.I > hi {
					return false
				}
				x.SetInt(tf.V.I)
				continue
			}
			if !fromTree(&ff.F.T, &tf.V, x) {
				return false
			}
		}
		for _, ff := range flat {
			if ff.F.Req && !seen[ff.F.ID] {
				return false
			}
		}
		if d.Union {
			if members > 1 {
				return false
			}
			for i := range d.Fields {
				if seen[d.Fields[i].ID] {
					p := reflect.New(v.Field(i).Type())
					p.Elem().Set(v.Field(i))
					v.Field(len(d.Fields)).Set(p)
				}
			}
		}
	default:
		return false
	}
	return true
}

// fuzzCheck is the oracle of FuzzThriftSpecDiff.
//
// The input is decoded by the reference (strict: only encodings whose
// conformance is beyond doubt) and checked against the target's schema. If it
// is a conformant encoding of a value of the target type, Unmarshal must accept
// it and produce that value, and Marshal of the result must be a specification
// encoding of its content (same oracle as the 'marshal' cases). Otherwise only
// totality is required: no panic, at most 64 MiB allocated for inputs <= 4 KiB.
// While KF-C13-005 is listed the reference reads the binary protocol with the
// library's type ids (D), and the affected inputs are returned as exclusions.
func fuzzCheck(c Case, D thriftspec.Dialect) result {
	p := thriftspec.Proto(c.P % 3)
	td := &fuzzTargets[c.Sel%len(fuzzTargets)]
	typ := td.Type()
	in := c.Data
	defer debug.SetPanicOnFault(debug.SetPanicOnFault(true))
	out := reflect.New(typ)
	var err error
	if r := guard("Unmarshal of arbitrary bytes", func() result {
		measure := len(in) <= 4096
		var before uint64
		if measure {
			before = totalAlloc()
		}
		err = thrift.Unmarshal(proto(c.P), in, out.Interface())
		if measure {
			if d := totalAlloc() - before; d > 64<<20 {
				return result{fail: &evid.Failure{Oracle: "memory allocated by Unmarshal stays within 64 MiB for an input of at most 4 KiB", Observed: fmt.Sprintf("TotalAlloc grew by %d bytes for %s", d, trunc(evid.Hex(in))), Expected: "<= 67108864 bytes", Class: "alloc"}}
			}
		}
		return result{}
	}); r.fail != nil {
		return r
	}
	ref, rerr := thriftspec.DecodeStrict(p, D, in, thriftspec.Struct)
	if rerr != nil {
		return result{note: "reference-rejects"}
	}
	if p == thriftspec.Compact && thriftspec.HasBool1(ref, false, true) && evid.KnownActive(classMapBool1) {
		// a map announcing BOOL as 1: listed defect of Unmarshal, excluded while known
		return result{note: "excluded-map-bool-type-1", excl: []string{classMapBool1}}
	}
	want := reflect.New(typ).Elem()
	okType := false
	if r := guard("harness fromTree", func() result { okType = fromTree(td, &ref, want); return result{} }); r.fail != nil {
		r.fail.Oracle, r.fail.Class = "harness", "harness"
		return r
	}
	if !okType {
		return result{note: "conformant-but-not-a-value-of-the-target-type"}
	}
	var excl []string
	if D != (thriftspec.Dialect{}) {
		excl = exercised(func(d thriftspec.Dialect) []byte { return thriftspec.Encode(p, d, ref) }, D)
	}
	if err != nil {
		return result{excl: excl, fail: &evid.Failure{Oracle: "Unmarshal accepts a specification-conformant " + p.String() + " encoding of a value of the target type (target " + fmt.Sprint(c.Sel) + ")",
			Observed: err.Error() + " on " + trunc(evid.Hex(in)), Expected: "nil error; content " + thriftspec.Describe(ref), Class: "read-error"}}
	}
	if s := tgen.Equal(td, want, out.Elem()); s != "" {
		return result{excl: excl, fail: &evid.Failure{Oracle: "Unmarshal of a conformant " + p.String() + " encoding yields the encoded content (target " + fmt.Sprint(c.Sel) + ")",
			Observed: s + " from " + trunc(evid.Hex(in)), Expected: thriftspec.Describe(ref), Class: "read-mismatch"}}
	}
	r := guard("Marshal of the decoded value", func() result { return checkMarshalValue(td, out.Elem(), c.P, D) })
	for _, cls := range excl { // each class once per case
		dup := false
		for _, x := range r.excl {
			dup = dup || x == cls
		}
		if !dup {
			r.excl = append(r.excl, cls)
		}
	}
	if r.fail == nil {
		r.note = "conformant"
	}
	return r
}

// fuzzSeeds: the selector byte followed by reference encodings (canonical and
// with long forms) of generated values for every (target, protocol), plus
// hostile constants.
func fuzzSeeds(D thriftspec.Dialect, add func(data []byte)) {
	o := &tgen.Opts{Small: true}
	long := []bool{true, false, true, true, false, false, true, false, true, true, true, false}
	for sel := range fuzzTargets {
		td := &fuzzTargets[sel]
		for vi := 0; vi < 3; vi++ {
			r := rapid.Custom(func(t *rapid.T) tgen.Recipe {
				rapid.Bool().Draw(t, "pad")
				return tgen.GenRecipe(t, td, o)
			}).Example(sel*11 + vi)
			tree := tgen.ToTree(td, tgen.Build(td, &r))
			for p := 0; p < 3; p++ {
				selb := byte(sel*3 + p)
				add(append([]byte{selb}, thriftspec.Encode(thriftspec.Proto(p), D, tree)...))
				alt, _ := thriftspec.EncodeAlt(thriftspec.Proto(p), D, reorder(tree, vi+1, vi == 1), long)
				add(append([]byte{selb}, alt...))
			}
		}
	}
	be32 := func(v int32) []byte { var b [4]byte; binary.BigEndian.PutUint32(b[:], uint32(v)); return b[:] }
	uleb := func(v uint64) []byte {
		var b []byte
		for v >= 0x80 {
			b = append(b, byte(v)|0x80)
			v >>= 7
		}
		return append(b, byte(v))
	}
	cat := func(parts ...[]byte) []byte {
		var b []byte
		for _, x := range parts {
			b = append(b, x...)
		}
		return b
	}
	lt, i64t := thriftspec.Encode(thriftspec.BinaryStrict, D, thriftspec.Value{T: thriftspec.Struct, Fields: []thriftspec.Field{{ID: 1, V: thriftspec.Value{T: thriftspec.List, ET: thriftspec.I64}}}})[0], byte(0)
	i64t = thriftspec.Encode(thriftspec.BinaryStrict, D, thriftspec.Value{T: thriftspec.List, ET: thriftspec.I64})[0]
	for _, n := range []int32{-1, 1<<31 - 1, 1 << 24, -1 << 31} {
		add(cat([]byte{3 * 1, lt, 0, 1, i64t}, be32(n), []byte{0, 0, 0, 0, 0, 0, 0, 1, 0})) // binary, target 1, list<i64> with a hostile size
		add(cat([]byte{3*1 + 2, 0x19, 0xf6}, uleb(uint64(uint32(n))), []byte{2, 0}))        // compact
		add(cat([]byte{3*0 + 2, 0x98}, uleb(uint64(uint32(n))), []byte{'a', 0}))            // compact string length
		add(cat([]byte{3*1 + 2, 0x6b}, uleb(uint64(uint32(n))), []byte{0x85, 0}))           // compact map size
	}
	for _, ty := range []byte{0, 13, 14, 15, 16} {
		add([]byte{0, ty, 0, 1, 1, 0})
		add([]byte{2, 0x10 | ty&0x0f, 1, 0})
	}
	for _, id := range []int16{0, -1, 32767} {
		z := uint64(uint32(int32(id)<<1) ^ uint32(int32(id)>>31))
		add(cat([]byte{3*5 + 2, 0x04}, uleb(z), []byte{0x0e, 0}))
	}
}

// FuzzThriftSpecDiff: coverage-guided differential fuzzing of Unmarshal/Marshal
// against the reference decoder (thorough tier; see bin/check.py). data[0]
// selects the protocol (mod 3) and the target type ((data[0]/3) mod 8).
func FuzzThriftSpecDiff(f *testing.F) {
	D := activeDialect()
	fuzzSeeds(D, func(data []byte) { f.Add(data) })
	f.Fuzz(func(t *testing.T, data []byte) {
		if len(data) == 0 || len(data) > 1<<14 {
			return
		}
		c := Case{Kind: "fuzz", P: int(data[0]) % 3, Sel: int(data[0]) / 3 % len(fuzzTargets), Data: data[1:]}
		if res := fuzzCheck(c, D); res.fail != nil {
			evid.Violation(t, "FuzzThriftSpecDiff", c, res.fail)
		}
	})
}

// TestFuzzSpecSeeds runs the seed corpus through the oracle in the ordinary
// tiers (shard 0) and accounts for it: labels per verdict, exclusions of
// KF-C13-005 (fuzz workers themselves write no evidence).
func TestFuzzSpecSeeds(t *testing.T) {
	if evid.Shard() != 0 {
		return
	}
	D := activeDialect()
	fuzzSeeds(D, func(data []byte) {
		c := Case{Kind: "fuzz", P: int(data[0]) % 3, Sel: int(data[0]) / 3 % len(fuzzTargets), Data: append([]byte(nil), data[1:]...)}
		evid.Eval(1)
		res := fuzzCheck(c, D)
		evid.Label("fuzz-seed." + res.note)
		for _, cls := range res.excl {
			evid.Excluded(cls)
		}
		if res.fail != nil {
			evid.Violation(t, "FuzzSpecSeeds", c, res.fail)
		}
	})
}

// TestFuzzCorpusVerdicts (development aid): with C13_FUZZ_CORPUS=<dir of a go
// fuzz cache for FuzzThriftSpecDiff> it prints how the oracle classifies the
// corpus entries, to check that the campaign reaches the differential branch.
func TestFuzzCorpusVerdicts(t *testing.T) {
	dir := os.Getenv("C13_FUZZ_CORPUS")
	if dir == "" {
		return
	}
	D := activeDialect()
	files, _ := filepath.Glob(filepath.Join(dir, "*"))
	count := map[string]int{}
	for _, f := range files {
		raw, err := os.ReadFile(f)
		if err != nil {
			continue
		}
		lines := strings.SplitN(string(raw), "\n", 3)
		if len(lines) < 2 || !strings.HasPrefix(lines[1], "[]byte(") {
			continue
		}
		lit := strings.TrimSuffix(strings.TrimPrefix(strings.TrimSpace(lines[1]), "[]byte("), ")")
		s, err := strconv.Unquote(lit)
		if err != nil || len(s) == 0 {
			continue
		}
		data := []byte(s)
		c := Case{Kind: "fuzz", P: int(data[0]) % 3, Sel: int(data[0]) / 3 % len(fuzzTargets), Data: data[1:]}
		res := fuzzCheck(c, D)
		k := res.note
		if res.fail != nil {
			k = "FAIL " + res.fail.Class
		}
		count[fmt.Sprintf("%s/%s", thriftspec.Proto(c.P%3), k)]++
	}
	t.Logf("corpus verdicts: %v", count)
}
