// C13 — the bytes written by the thrift Writers and by Marshal are those the
// Apache Thrift binary and compact protocol specifications prescribe, and every
// conformant encoding (long forms, any field order, either binary message
// header) is accepted by the Readers and by Unmarshal with the same result.
// The oracle is harness/thriftspec (R-THRIFT). DESIGN.md §4 C13.
package c13

import (
	"bytes"
	"encoding/json"
	"fmt"
	"os"
	"reflect"
	"testing"

	"github.com/segmentio/encoding/thrift"
	"pgregory.net/rapid"

	"verif/harness/evid"
	"verif/harness/tgen"
	"verif/harness/thriftspec"
)

func TestMain(m *testing.M) { evid.Main(m, "C13") }

// Case is the replayable unit.
//
//	wseq      : Seq (message headers and values of any type, in any order, several messages) rendered on one Writer vs the concatenated thriftspec bytes
//	writer    : Msg? + Tree rendered through the library's Writer methods (struct encoder's calling convention) vs thriftspec bytes
//	marshal   : Marshal(P, Build(T,V)) vs thriftspec encoding of the logical content read off the value
//	fuzz      : arbitrary bytes Data against static target Sel (see fuzz_test.go)
//	readers   : thriftspec encoding of Msg? + Tree (wire order as stored, long forms per Long, header form HdrP) read back through the library's Reader methods
//	unmarshal : thriftspec encoding of Build(T,V)'s content with fields rotated/reversed and long forms per Long, given to Unmarshal
//
// SeqItem is one element of a Writer call sequence: a message header or a value.
type SeqItem struct {
	Msg *thriftspec.Message `json:"msg,omitempty"`
	Val *thriftspec.Value   `json:"val,omitempty"`
}

type Case struct {
	Kind string              `json:"kind"`
	Seq  []SeqItem           `json:"seq,omitempty"` // wseq: items written one after the other on ONE Writer
	P    int                 `json:"p"`             // 0 binary strict, 1 binary non-strict, 2 compact
	Msg  *thriftspec.Message `json:"msg,omitempty"`
	Tree *thriftspec.Value   `json:"tree,omitempty"`
	Long []bool              `json:"long,omitempty"`
	HdrP int                 `json:"hdr_p,omitempty"` // readers: protocol whose message header form is fed (binary: strict <-> non-strict)
	T    *tgen.TypeDesc      `json:"type,omitempty"`
	V    *tgen.Recipe        `json:"val,omitempty"`
	Sel  int                 `json:"sel,omitempty"`  // fuzz: index into fuzzTargets
	Data []byte              `json:"data,omitempty"` // fuzz: the input bytes (without the selector byte)
	Rot  int                 `json:"rot,omitempty"`
	// readers / unmarshal, compact protocol: BOOL announced as 1 instead of 2 as
	// element type of lists and sets (Bool1) and as key / value type of maps (MapBool1)
	Extra *thriftspec.Field `json:"extra,omitempty"` // unmarshal: a field the type does not declare, put first on the wire (a conformant reader skips it)
	// readers / unmarshal / wseq read-back: how the bytes reach the thrift Reader / Decoder
	// (index into tgen.DeliveryModes; Chunks for the chunked modes). 0 = bytes.Reader.
	Deliver  int   `json:"deliver,omitempty"`
	Chunks   []int `json:"chunks,omitempty"`
	Bool1    bool  `json:"bool1,omitempty"`
	MapBool1 bool  `json:"map_bool1,omitempty"`
	Rev      bool  `json:"rev,omitempty"`
}

// One class per clause of the specification the library was found to deviate
// from; each maps to the thriftspec.Dialect flag that reproduces the deviation
// so that the remaining clauses stay checked while the class is listed as known.
type clause struct {
	class string
	set   func(d *thriftspec.Dialect, on bool)
}

const classEnumHeader = "thrift-enum-field-header-type"

// classMapBool1: Unmarshal mis-decodes a declared map whose BOOL key / value type
// is announced as 1 in the compact protocol (lists, sets and the Reader methods
// accept 1 and 2). While listed, such encodings are not fed to Unmarshal.
const classMapBool1 = "thrift-compact-map-bool-type-1"

var clauses = []clause{
	{"thrift-binary-type-ids", func(d *thriftspec.Dialect, on bool) { d.LibBinaryTypeIDs = on }},
	{"thrift-binary-stop-three-bytes", func(d *thriftspec.Dialect, on bool) { d.LibBinaryStopWithID = on }},
	{"thrift-binary-strict-version-bits", func(d *thriftspec.Dialect, on bool) { d.LibStrictVersionZero = on }},
	{"thrift-message-types-from-zero", func(d *thriftspec.Dialect, on bool) { d.LibMsgTypesFromZero = on }},
	{"thrift-compact-message-header-byte", func(d *thriftspec.Dialect, on bool) { d.LibCompactMsgHeader = on }},
	{"thrift-compact-double-big-endian", func(d *thriftspec.Dialect, on bool) { d.LibCompactDoubleBE = on }},
}

// activeDialect: the specification, with the clauses of listed known findings
// replaced by the library's deviation.
func activeDialect() thriftspec.Dialect {
	var d thriftspec.Dialect
	for _, c := range clauses {
		if evid.KnownActive(c.class) {
			c.set(&d, true)
		}
	}
	return d
}

type result struct {
	fail *evid.Failure
	excl []string // known classes whose clause this case exercised (counted as exclusions)
	note string   // e.g. "false-elem=2"
}

func proto(i int) thrift.Protocol { return tgen.Protocol(thriftspec.Proto(i % 3)) }

func trunc(s string) string {
	if len(s) > 900 {
		return s[:900] + "…"
	}
	return s
}

func firstDiff(a, b []byte) int {
	n := len(a)
	if len(b) < n {
		n = len(b)
	}
	for i := 0; i < n; i++ {
		if a[i] != b[i] {
			return i
		}
	}
	return n
}

// exercised lists the active clauses that change enc's output.
func exercised(enc func(thriftspec.Dialect) []byte, D thriftspec.Dialect) []string {
	var out []string
	full := enc(D)
	for _, c := range clauses {
		d2 := D
		c.set(&d2, false)
		if d2 == D {
			continue
		}
		if !bytes.Equal(enc(d2), full) {
			out = append(out, c.class)
		}
	}
	return out
}

// compareBytes is the byte oracle: got must equal the specification's bytes;
// failing that, the bytes of the active dialect (exclusions returned).
func compareBytes(oracle string, got []byte, enc func(thriftspec.Dialect) []byte, D thriftspec.Dialect) result {
	spec := enc(thriftspec.Dialect{})
	if bytes.Equal(got, spec) {
		return result{}
	}
	if bytes.Equal(got, enc(thriftspec.Dialect{CompactFalseElem: 2})) {
		return result{note: "false-elem=2"}
	}
	if D != (thriftspec.Dialect{}) {
		for _, fe := range []byte{0, 2} {
			d := D
			d.CompactFalseElem = fe
			if bytes.Equal(got, enc(d)) {
				return result{excl: exercised(enc, d)}
			}
		}
	}
	want := spec
	if D != (thriftspec.Dialect{}) {
		want = enc(D) // report against the closest expectation
	}
	return result{fail: &evid.Failure{Oracle: oracle, Class: "bytes-mismatch",
		Observed: trunc(fmt.Sprintf("%s (first difference at offset %d)", evid.Hex(got), firstDiff(got, want))),
		Expected: trunc(evid.Hex(want))}}
}

func guard(where string, f func() result) (res result) {
	defer func() {
		if r := recover(); r != nil {
			res = result{fail: &evid.Failure{Oracle: "no panic (" + where + ")", Observed: fmt.Sprintf("panic: %v", r), Expected: "returns", Class: "panic"}}
		}
	}()
	return f()
}

// reorder rotates (and reverses) the fields of every struct of v.
func reorder(v thriftspec.Value, rot int, rev bool) thriftspec.Value {
	out := v
	switch v.T {
	case thriftspec.List, thriftspec.Set, thriftspec.Map:
		out.Elems = make([]thriftspec.Value, len(v.Elems))
		for i := range v.Elems {
			out.Elems[i] = reorder(v.Elems[i], rot, rev)
		}
		if v.T == thriftspec.Map {
			out.Keys = make([]thriftspec.Value, len(v.Keys))
			for i := range v.Keys {
				out.Keys[i] = reorder(v.Keys[i], rot, rev)
			}
		}
	case thriftspec.Struct:
		n := len(v.Fields)
		out.Fields = make([]thriftspec.Field, n)
		for i := range v.Fields {
			j := i
			if n > 0 {
				j = (i + rot) % n
			}
			if rev {
				j = n - 1 - j
			}
			out.Fields[i] = thriftspec.Field{ID: v.Fields[j].ID, V: reorder(v.Fields[j].V, rot, rev)}
		}
	}
	return out
}

func encodeAll(p thriftspec.Proto, hdrP thriftspec.Proto, d thriftspec.Dialect, msg *thriftspec.Message, tree *thriftspec.Value, long []bool) []byte {
	e := thriftspec.Encoder{P: hdrP, D: d}
	if msg != nil {
		e.Message(*msg)
	}
	e.P = p
	e.Alt = &thriftspec.Alt{Long: long}
	if tree != nil {
		e.Value(*tree)
	}
	return e.Buf
}

func checkCase(c Case, D thriftspec.Dialect) result {
	p := thriftspec.Proto(c.P % 3)
	switch c.Kind {
	case "writer":
		if c.Tree == nil {
			return result{fail: &evid.Failure{Oracle: "harness", Observed: "writer case without tree"}}
		}
		return guard("Writer methods", func() result {
			r := tgen.NewRenderer(proto(c.P))
			r.Trace = true
			if c.Msg != nil {
				if err := r.Message(*c.Msg); err != nil {
					return result{fail: &evid.Failure{Oracle: "WriteMessage succeeds", Observed: err.Error(), Expected: "nil error", Class: "write-error"}}
				}
			}
			if err := r.Value(*c.Tree); err != nil {
				return result{fail: &evid.Failure{Oracle: "Writer methods succeed", Observed: err.Error(), Expected: "nil error", Class: "write-error"}}
			}
			return compareBytes("bytes written by the "+p.String()+" Writer == specification bytes for the same content", r.Buf.Bytes(),
				func(d thriftspec.Dialect) []byte { return encodeAll(p, p, d, c.Msg, c.Tree, nil) }, D)
		})
	case "wseq":
		if len(c.Seq) == 0 {
			return result{fail: &evid.Failure{Oracle: "harness", Observed: "wseq case without items"}}
		}
		return guard("Writer methods (sequence on one Writer)", func() result {
			r := tgen.NewRenderer(proto(c.P))
			for i, it := range c.Seq {
				var err error
				switch {
				case it.Msg != nil:
					err = r.Message(*it.Msg)
				case it.Val != nil:
					err = r.Value(*it.Val)
				}
				if err != nil {
					return result{fail: &evid.Failure{Oracle: fmt.Sprintf("Writer methods succeed (item %d)", i), Observed: err.Error(), Expected: "nil error", Class: "write-error"}}
				}
			}
			res := compareBytes("bytes written by one "+p.String()+" Writer for a sequence of messages and values == concatenated specification bytes", r.Buf.Bytes(),
				func(d thriftspec.Dialect) []byte {
					e := thriftspec.Encoder{P: p, D: d}
					for _, it := range c.Seq {
						if it.Msg != nil {
							e.Message(*it.Msg)
						} else if it.Val != nil {
							e.Value(*it.Val)
						}
					}
					return e.Buf
				}, D)
			if res.fail != nil {
				return res
			}
			// read the stream back through one Reader, the bytes arriving per c.Deliver
			b := r.Buf.Bytes()
			tr := &tgen.TreeReader{R: proto(c.P).NewReader(tgen.NewDelivery(c.Deliver, b, c.Chunks)), Remaining: func() int { return len(b) }}
			for i, it := range c.Seq {
				what := fmt.Sprintf("item %d of the sequence read back through one %s Reader over a %s io.Reader", i, p, tgen.DeliveryModes[c.Deliver%len(tgen.DeliveryModes)])
				switch {
				case it.Msg != nil:
					m, err := tr.Message()
					if err != nil || m != *it.Msg {
						res.fail = &evid.Failure{Oracle: what + " is the message written", Observed: fmt.Sprintf("%+v, %v", m, err), Expected: fmt.Sprintf("%+v", *it.Msg), Class: "read-mismatch"}
						return res
					}
				case it.Val != nil:
					v, err := tr.Value(it.Val.T)
					if err != nil || !thriftspec.Same(v, *it.Val) {
						res.fail = &evid.Failure{Oracle: what + " is the value written", Observed: trunc(fmt.Sprintf("%s, %v", thriftspec.Describe(v), err)), Expected: trunc(thriftspec.Describe(*it.Val)), Class: "read-mismatch"}
						return res
					}
				}
			}
			return res
		})
	case "marshal":
		if c.T == nil || c.V == nil {
			return result{fail: &evid.Failure{Oracle: "harness", Observed: "marshal case without type/value"}}
		}
		return guard("Marshal", func() result {
			return checkMarshalValue(c.T, tgen.Build(c.T, c.V), c.P, D)
		})
	case "fuzz":
		return fuzzCheck(c, D)
	case "readers":
		if c.Tree == nil {
			return result{fail: &evid.Failure{Oracle: "harness", Observed: "readers case without tree"}}
		}
		hp := p
		if c.Msg != nil && p != thriftspec.Compact && (c.HdrP == 0 || c.HdrP == 1) {
			hp = thriftspec.Proto(c.HdrP)
		}
		wire := thriftspec.WithBool1(*c.Tree, c.Bool1, c.MapBool1)
		enc := func(d thriftspec.Dialect) []byte { return encodeAll(p, hp, d, c.Msg, &wire, c.Long) }
		return feed(enc, D, func(b []byte) *evid.Failure {
			br := bytes.NewReader(b)
			tr := &tgen.TreeReader{R: proto(c.P).NewReader(br), Remaining: br.Len}
			if c.Deliver != 0 {
				tr = &tgen.TreeReader{R: proto(c.P).NewReader(tgen.NewDelivery(c.Deliver, b, c.Chunks)), Remaining: func() int { return len(b) }}
			}
			if c.Msg != nil {
				m, err := tr.Message()
				if err != nil {
					return &evid.Failure{Oracle: "ReadMessage accepts a conformant " + hp.String() + " header", Observed: err.Error() + " on " + trunc(evid.Hex(b)), Expected: fmt.Sprintf("%+v", *c.Msg), Class: "read-error"}
				}
				if m != *c.Msg {
					return &evid.Failure{Oracle: "ReadMessage returns the encoded header (" + hp.String() + " form)", Observed: fmt.Sprintf("%+v from %s", m, trunc(evid.Hex(b))), Expected: fmt.Sprintf("%+v", *c.Msg), Class: "read-mismatch"}
				}
			}
			got, err := tr.Value(thriftspec.Struct)
			if err != nil {
				return &evid.Failure{Oracle: "Reader methods accept a conformant " + p.String() + " encoding", Observed: err.Error() + " on " + trunc(evid.Hex(b)), Expected: thriftspec.Describe(*c.Tree), Class: "read-error"}
			}
			if !thriftspec.Same(got, *c.Tree) {
				return &evid.Failure{Oracle: "Reader methods return the encoded content (" + p.String() + ")", Observed: thriftspec.Describe(got) + " from " + trunc(evid.Hex(b)), Expected: thriftspec.Describe(*c.Tree), Class: "read-mismatch"}
			}
			if c.Deliver == 0 && br.Len() != 0 {
				return &evid.Failure{Oracle: "Reader methods consume exactly the encoding (" + p.String() + ")", Observed: fmt.Sprintf("%d bytes left of %s", br.Len(), trunc(evid.Hex(b))), Expected: "0 bytes left", Class: "read-mismatch"}
			}
			return nil
		})
	case "unmarshal":
		if c.T == nil || c.V == nil {
			return result{fail: &evid.Failure{Oracle: "harness", Observed: "unmarshal case without type/value"}}
		}
		var v reflect.Value
		var tree thriftspec.Value
		if r := guard("build", func() result {
			v = tgen.Build(c.T, c.V)
			tree = reorder(tgen.ToTree(c.T, v), c.Rot, c.Rev)
			if c.Extra != nil {
				tree.Fields = append([]thriftspec.Field{*c.Extra}, tree.Fields...)
			}
			tree = thriftspec.WithBool1(tree, c.Bool1, c.MapBool1)
			return result{}
		}); r.fail != nil {
			return r
		}
		enc := func(d thriftspec.Dialect) []byte { return encodeAll(p, p, d, nil, &tree, c.Long) }
		return feed(enc, D, func(b []byte) *evid.Failure {
			out := reflect.New(c.T.Type())
			var err error
			how := "Unmarshal"
			if c.Deliver != 0 {
				how = "Decoder over a " + tgen.DeliveryModes[c.Deliver%len(tgen.DeliveryModes)] + " io.Reader"
				err = thrift.NewDecoder(proto(c.P).NewReader(tgen.NewDelivery(c.Deliver, b, c.Chunks))).Decode(out.Interface())
			} else {
				err = thrift.Unmarshal(proto(c.P), b, out.Interface())
			}
			if err != nil {
				return &evid.Failure{Oracle: how + " accepts a conformant " + p.String() + " encoding", Observed: err.Error() + " on " + trunc(evid.Hex(b)), Expected: "nil error; content " + thriftspec.Describe(tree), Class: "read-error"}
			}
			if s := tgen.Equal(c.T, v, out.Elem()); s != "" {
				return &evid.Failure{Oracle: "Unmarshal of a conformant " + p.String() + " encoding yields the encoded value", Observed: s + " from " + trunc(evid.Hex(b)), Expected: "equal", Class: "read-mismatch"}
			}
			return nil
		})
	}
	return result{fail: &evid.Failure{Oracle: "harness", Observed: "unknown kind " + c.Kind}}
}

// checkMarshalValue: Marshal(p, v) against the specification's encoding of the
// logical content read off v.
func checkMarshalValue(td *tgen.TypeDesc, v reflect.Value, pi int, D thriftspec.Dialect) result {
	p := thriftspec.Proto(pi % 3)
	c := struct {
		T *tgen.TypeDesc
		P int
	}{td, pi}
	tree := tgen.ToTree(c.T, v)
	got, err := thrift.Marshal(proto(c.P), v.Interface())
	if err != nil {
		return result{fail: &evid.Failure{Oracle: "Marshal succeeds", Observed: err.Error(), Expected: "nil error", Class: "write-error"}}
	}
	enc := func(d thriftspec.Dialect) []byte { return thriftspec.Encode(p, d, tree) }
	if !tgen.MultiMap(c.T, v) {
		return compareBytes("Marshal("+p.String()+", v) == specification bytes of v's content "+thriftspec.Describe(tree), got, enc, D)
	}
	// a map with several entries has no fixed wire order: the bytes must decode
	// (by the specification) to the same content and re-encode to themselves
	try := func(d thriftspec.Dialect) bool {
		dec, err := thriftspec.Decode(p, d, got, thriftspec.Struct)
		if err != nil || !thriftspec.Same(dec, tree) {
			return false
		}
		for _, fe := range []byte{0, 2} {
			d.CompactFalseElem = fe
			if bytes.Equal(thriftspec.Encode(p, d, dec), got) {
				return true
			}
		}
		return false
	}
	if try(thriftspec.Dialect{}) {
		return result{}
	}
	if D != (thriftspec.Dialect{}) && try(D) {
		return result{excl: exercised(enc, D)}
	}
	return result{fail: &evid.Failure{Oracle: "Marshal(" + p.String() + ", v) is a specification encoding of v's content (any map entry order)", Class: "bytes-mismatch",
		Observed: trunc(evid.Hex(got)), Expected: trunc("an encoding of " + thriftspec.Describe(tree) + " such as " + evid.Hex(enc(D)))}}
}

// feed gives the library the specification's bytes; while clauses are listed
// as known deviations and change these bytes, the active dialect's bytes are
// fed instead (the library cannot be expected to read what it does not write)
// and the clauses are returned as exclusions.
func feed(enc func(thriftspec.Dialect) []byte, D thriftspec.Dialect, use func(b []byte) *evid.Failure) result {
	return guard("Reader / Unmarshal", func() result {
		spec := enc(thriftspec.Dialect{})
		if D == (thriftspec.Dialect{}) || bytes.Equal(enc(D), spec) {
			return result{fail: use(spec)}
		}
		return result{fail: use(enc(D)), excl: exercised(enc, D)}
	})
}

// ---------------------------------------------------------------- generation

func genMsg(t *rapid.T) *thriftspec.Message {
	if !rapid.Bool().Draw(t, "hasmsg") {
		return nil
	}
	return &thriftspec.Message{
		Type:  rapid.IntRange(1, 4).Draw(t, "mtype"),
		Name:  rapid.SampledFrom([]string{"", "a", "ping", "Hello", "getStruct_v2", "naïve", "0123456789012345678901234567890123456789012345678901234567890123456789012345678901234567890123456789012345678901234567890123456789"}).Draw(t, "mname"),
		SeqID: rapid.SampledFrom([]int32{0, 1, 10, 127, 128, 16383, 16384, 1 << 21, 1<<31 - 1}).Draw(t, "seq"),
	}
}

func genMsg2(t *rapid.T) thriftspec.Message {
	return thriftspec.Message{
		Type:  rapid.IntRange(1, 4).Draw(t, "mtype"),
		Name:  rapid.SampledFrom([]string{"", "a", "ping", "Hello", "getStruct_v2"}).Draw(t, "mname"),
		SeqID: rapid.SampledFrom([]int32{0, 1, 127, 300, 16384, 0x123456, 0x12345678, 1<<31 - 1}).Draw(t, "seq"),
	}
}

func genCase(t *rapid.T, o *tgen.Opts) Case {
	c := Case{P: rapid.SampledFrom([]int{0, 1, 2, 2}).Draw(t, "p")}
	kind := rapid.SampledFrom([]string{"writer", "writer", "wseq", "wseq", "marshal", "marshal", "marshal", "readers", "readers", "unmarshal", "unmarshal"}).Draw(t, "kind")
	c.Kind = kind
	if kind == "wseq" || kind == "readers" || kind == "unmarshal" {
		c.Deliver = rapid.IntRange(0, len(tgen.DeliveryModes)-1).Draw(t, "deliver")
		if c.Deliver == 3 || c.Deliver == 4 || c.Deliver == 5 {
			c.Chunks = rapid.SliceOfN(rapid.IntRange(1, 7), 1, 8).Draw(t, "chunks")
		}
	}
	switch kind {
	case "wseq":
		// 2..7 items on one Writer; at least one message header follows another write
		n := rapid.IntRange(2, 7).Draw(t, "nitems")
		for i := 0; i < n; i++ {
			var it SeqItem
			k := rapid.IntRange(0, 9).Draw(t, "item")
			if i == n-1 && n >= 2 {
				k = 0 // the last item is a message header: it always follows other writes
			}
			switch {
			case k < 4:
				m := genMsg2(t)
				it.Msg = &m
			case k < 8:
				v := tgen.GenDirtyScalar(t)
				it.Val = &v
			default:
				budget := rapid.SampledFrom([]int{3, 10, 30}).Draw(t, "budget")
				v := tgen.GenTree(t, tgen.GenTreeType(t, 2), 2, &budget)
				it.Val = &v
			}
			c.Seq = append(c.Seq, it)
		}
	case "writer", "readers":
		c.Msg = genMsg(t)
		budget := rapid.SampledFrom([]int{6, 20, 60, 200}).Draw(t, "budget")
		tree := tgen.GenTree(t, thriftspec.Struct, 3, &budget)
		if kind == "readers" {
			c.Long = rapid.SliceOfN(rapid.Bool(), 0, 24).Draw(t, "long")
			if rapid.Bool().Draw(t, "reorder") {
				tree = reorder(tree, rapid.IntRange(0, 5).Draw(t, "rot"), rapid.Bool().Draw(t, "rev"))
			}
			c.HdrP = rapid.IntRange(0, 1).Draw(t, "hdrp")
			c.Bool1 = rapid.Bool().Draw(t, "bool1")
			c.MapBool1 = rapid.Bool().Draw(t, "mapbool1")
		}
		c.Tree = &tree
	case "marshal", "unmarshal":
		d := tgen.GenType(t, o)
		r := tgen.GenRecipe(t, &d, o)
		c.T, c.V = &d, &r
		if kind == "unmarshal" {
			c.Long = rapid.SliceOfN(rapid.Bool(), 0, 24).Draw(t, "long")
			c.Rot = rapid.IntRange(0, 5).Draw(t, "rot")
			c.Rev = rapid.Bool().Draw(t, "rev")
			c.Bool1 = rapid.Bool().Draw(t, "bool1")
			c.MapBool1 = rapid.Bool().Draw(t, "mapbool1")
			if rapid.IntRange(0, 2).Draw(t, "extra") == 1 {
				id := int16(rapid.IntRange(20000, 32000).Draw(t, "extraid"))
				declared := false
				for _, ff := range tgen.Flatten(c.T) {
					declared = declared || ff.F.ID == id
				}
				if !declared {
					budget := rapid.SampledFrom([]int{2, 8, 20}).Draw(t, "xbudget")
					c.Extra = &thriftspec.Field{ID: id, V: tgen.GenTree(t, tgen.GenTreeType(t, 2), 2, &budget)}
				}
			}
			if c.MapBool1 && o.NoMapBool1 && c.P%3 == 2 && thriftspec.HasBoolMap(tgen.ToTree(c.T, tgen.Build(c.T, c.V))) {
				c.MapBool1 = false // avoided by construction while the class is listed
				o.Avoided["map-bool-type-1"]++
			}
		}
	}
	return c
}

func caseTree(c Case) thriftspec.Value {
	if c.Kind == "wseq" { // a pseudo list of the values, for the clause statistics
		out := thriftspec.Value{T: thriftspec.List}
		for _, it := range c.Seq {
			if it.Val != nil {
				out.Elems = append(out.Elems, *it.Val)
			}
		}
		return out
	}
	if c.Tree != nil {
		return *c.Tree
	}
	return tgen.ToTree(c.T, tgen.Build(c.T, c.V))
}

func account(c Case) {
	evid.Eval(1)
	p := thriftspec.Proto(c.P % 3)
	evid.Label("kind." + c.Kind + "." + p.String())
	if c.Kind == "wseq" || c.Kind == "readers" || c.Kind == "unmarshal" {
		evid.Label("deliver." + tgen.DeliveryModes[c.Deliver%len(tgen.DeliveryModes)] + "." + c.Kind)
	}
	tree := caseTree(c)
	var st thriftspec.Stats
	st.Add(tree, 0)
	pn := "binary"
	if p == thriftspec.Compact {
		pn = "compact"
	}
	for t, n := range st.Types {
		if n > 0 && t != 0 {
			evid.Label(pn + ".type-id." + thriftspec.T(t).String())
		}
	}
	if c.Kind == "wseq" {
		msgs, afterWrite, afterDirty, consecutive := 0, 0, 0, 0
		for i, it := range c.Seq {
			if it.Msg == nil {
				continue
			}
			msgs++
			if i > 0 {
				afterWrite++
				if c.Seq[i-1].Msg != nil {
					consecutive++
				} else if v := c.Seq[i-1].Val; v != nil && (v.T == thriftspec.I32 || v.T == thriftspec.I64 || v.T == thriftspec.Double || v.T == thriftspec.String && len(v.S) >= 256) {
					afterDirty++
				}
			}
		}
		evid.Label("wseq." + p.String())
		if afterWrite > 0 {
			evid.Label("wseq.message-after-other-writes." + p.String())
		}
		if afterDirty > 0 {
			evid.Label("wseq.message-after->=4-byte-write-with-nonzero-bytes." + p.String())
		}
		if consecutive > 0 {
			evid.Label("wseq.consecutive-messages." + p.String())
		}
		if msgs >= 2 {
			evid.Label("wseq.messages>=2")
		}
		for _, it := range c.Seq {
			if it.Val != nil && it.Val.T == thriftspec.String && len(it.Val.S) >= 65536 {
				evid.Label("wseq.string-length>=65536")
			}
		}
	}
	if c.Msg != nil {
		hp := p
		if c.Kind == "readers" && p != thriftspec.Compact {
			hp = thriftspec.Proto(c.HdrP)
		}
		evid.Label("message-header." + hp.String())
		if hp != p {
			evid.Label("message-header.other-binary-form-read")
		}
	}
	if st.Doubles > 0 {
		evid.Label(pn + ".double")
	}
	if tgen.HugeString(tree) {
		evid.Label("string-or-binary>64KiB." + c.Kind)
	}
	if p == thriftspec.Compact {
		if st.DeltaFields > 0 {
			evid.Label("compact.field-header.short")
		}
		if st.AbsFields > 0 {
			evid.Label("compact.field-header.long")
		}
		if st.BoolFields > 0 {
			evid.Label("compact.bool-folded-in-field-type")
		}
		if st.BoolElems > 0 {
			evid.Label("compact.bool-element")
		}
		if st.ShortLists > 0 {
			evid.Label("compact.list-header.short")
		}
		if st.LongLists > 0 {
			evid.Label("compact.list-header.long")
		}
		if st.EmptyMaps > 0 {
			evid.Label("compact.empty-map")
		}
		if st.Maps > st.EmptyMaps {
			evid.Label("compact.map-header")
		}
	}
	if c.Kind == "readers" || c.Kind == "unmarshal" {
		_, used := thriftspec.EncodeAlt(p, thriftspec.Dialect{}, tree, c.Long)
		if used > 0 && p == thriftspec.Compact {
			evid.Label("alt.long-form-where-short-exists")
		}
		asc := true
		for i := 1; i < len(tree.Fields); i++ {
			if tree.Fields[i].ID < tree.Fields[i-1].ID {
				asc = false
			}
		}
		if c.Kind == "unmarshal" {
			r := reorder(tree, c.Rot, c.Rev)
			asc = true
			for i := 1; i < len(r.Fields); i++ {
				if r.Fields[i].ID < r.Fields[i-1].ID {
					asc = false
				}
			}
		}
		if !asc {
			evid.Label("alt.non-ascending-field-order")
		}
		if c.Extra != nil {
			evid.Label("alt.undeclared-field-on-the-wire")
			tree.Fields = append([]thriftspec.Field{*c.Extra}, tree.Fields...)
		}
		if p == thriftspec.Compact {
			w := thriftspec.WithBool1(tree, c.Bool1, c.MapBool1)
			if thriftspec.HasBool1(w, true, false) {
				evid.Label("alt.bool-element-type-1.list/set." + c.Kind)
			}
			if thriftspec.HasBool1(w, false, true) {
				evid.Label("alt.bool-type-1.map." + c.Kind)
			}
		}
	}
	if st.Containers >= 1 || st.Fields >= 3 || len(c.Seq) >= 3 {
		b, _ := json.Marshal(c)
		evid.NonTrivial(evid.Hash(b))
		evid.Label("nontrivial")
	}
	evid.Sample(c)
}

func TestSpec(t *testing.T) {
	D := activeDialect()
	o := &tgen.Opts{EnumI32Only: evid.KnownActive(classEnumHeader), NoMapBool1: evid.KnownActive(classMapBool1), Avoided: map[string]int{}}
	if evid.Thorough() {
		o.MaxDepth = 4
	}
	evid.Check(t, "Spec", 50000, func(rt *rapid.T) {
		before, beforeMap := o.Avoided["enum-on-non-int32"], o.Avoided["map-bool-type-1"]
		c := genCase(rt, o)
		for i := beforeMap; i < o.Avoided["map-bool-type-1"]; i++ {
			evid.Excluded(classMapBool1)
		}
		for i := before; i < o.Avoided["enum-on-non-int32"]; i++ {
			evid.Excluded(classEnumHeader)
		}
		account(c)
		res := checkCase(c, D)
		for _, cls := range res.excl {
			evid.Excluded(cls)
		}
		if res.note != "" {
			evid.Label("note." + res.note)
		}
		if res.fail != nil {
			evid.Violation(rt, "Spec", c, res.fail)
		}
	})
}

// TestReplay re-executes saved cases (VERIF_REPLAY or the committed regression tier).
func TestReplay(t *testing.T) {
	files := evid.SavedReplays()
	if p := evid.ReplayFile(); p != "" {
		files = []string{p}
	}
	D := activeDialect()
	for _, p := range files {
		_, raw, err := evid.LoadReplayCase(p)
		if err != nil {
			t.Fatalf("replay %s: %v", p, err)
		}
		var c Case
		if err := json.Unmarshal(raw, &c); err != nil || c.Kind == "" {
			fmt.Fprintf(os.Stderr, "replay %s: not a C13 case, skipped\n", p)
			continue
		}
		evid.Eval(1)
		res := checkCase(c, D)
		for _, cls := range res.excl {
			evid.Excluded(cls)
		}
		if res.fail != nil {
			evid.Violation(t, "Replay", c, res.fail)
		}
	}
}

// ---------------------------------------------------------------- known findings

func i32Field(id int16, v int64) thriftspec.Field {
	return thriftspec.Field{ID: id, V: thriftspec.Value{T: thriftspec.I32, I: v}}
}

// witnesses: the smallest content exercising exactly one deviating clause,
// checked against the unmodified specification.
var witnessCases = map[string]Case{
	"thrift-binary-type-ids": {Kind: "writer", P: 1, Tree: &thriftspec.Value{T: thriftspec.List, ET: thriftspec.I64,
		Elems: []thriftspec.Value{{T: thriftspec.I64, I: 1}}}},
	"thrift-binary-stop-three-bytes":     {Kind: "writer", P: 0, Tree: &thriftspec.Value{T: thriftspec.Struct}},
	"thrift-binary-strict-version-bits":  {Kind: "writer", P: 0, Msg: &thriftspec.Message{Type: thriftspec.Call, Name: "ping", SeqID: 1}, Tree: &thriftspec.Value{T: thriftspec.I32, I: 0}},
	"thrift-message-types-from-zero":     {Kind: "writer", P: 1, Msg: &thriftspec.Message{Type: thriftspec.Call, Name: "ping", SeqID: 1}, Tree: &thriftspec.Value{T: thriftspec.I32, I: 0}},
	"thrift-compact-message-header-byte": {Kind: "writer", P: 2, Msg: &thriftspec.Message{Type: thriftspec.Reply, Name: "ping", SeqID: 1}, Tree: &thriftspec.Value{T: thriftspec.Struct}},
	"thrift-compact-double-big-endian":   {Kind: "writer", P: 2, Tree: &thriftspec.Value{T: thriftspec.Double, F: 0x3ff0000000000000}},
	// struct{M map[bool]int32 `thrift:"1"`; Z int32 `thrift:"2"`}{M: {true: 7}, Z: 5} as 1b 01 15 01 0e 25 0a 00
	classMapBool1: {Kind: "unmarshal", P: 2, MapBool1: true, T: &tgen.TypeDesc{K: tgen.KStruct, Fields: []tgen.FieldDesc{
		{ID: 1, T: tgen.TypeDesc{K: tgen.KMap, Key: &tgen.TypeDesc{K: tgen.KBool}, Elem: &tgen.TypeDesc{K: tgen.KI32}}}, {ID: 2, T: tgen.TypeDesc{K: tgen.KI32}}}},
		V: &tgen.Recipe{E: []tgen.Recipe{{K: []tgen.Recipe{{I: 1}}, E: []tgen.Recipe{{I: 7}}}, {I: 5}}}},
	classEnumHeader: {Kind: "marshal", P: 0, T: &tgen.TypeDesc{K: tgen.KStruct, Fields: []tgen.FieldDesc{{ID: 1, Enum: true, T: tgen.TypeDesc{K: tgen.KI8}}}},
		V: &tgen.Recipe{E: []tgen.Recipe{{I: 1}}}},
}

func TestKnownFindings(t *testing.T) {
	var classes []evid.Class
	for name, c := range witnessCases {
		name, c := name, c
		classes = append(classes, evid.Class{Name: name, Witness: func() *evid.Failure {
			// against the specification, except for the *other* listed deviations
			D := activeDialect()
			for _, cl := range clauses {
				if cl.class == name {
					cl.set(&D, false)
				}
			}
			return checkCase(c, D).fail
		}})
	}
	evid.RunWitnesses(t, classes)
}
