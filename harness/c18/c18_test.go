// C18 — iso8601.Parse agrees with time.Parse(RFC3339Nano); Valid is its grammar.
package c18

import (
	stdjson "encoding/json"
	"fmt"
	"strings"
	"testing"
	"time"

	"github.com/segmentio/encoding/iso8601"
	segjson "github.com/segmentio/encoding/json"
	"pgregory.net/rapid"

	"verif/harness/evid"
)

func TestMain(m *testing.M) { evid.Main(m, "C18") }

// Case: Fn "Parse" (S) or "Valid" (S, Flags) or "JSON" (S).
type Case struct {
	Fn    string `json:"fn"`
	S     string `json:"s"`
	Flags int    `json:"flags,omitempty"`
}

// ------------------------------------------------------------------ oracles

func checkParse(s string) (f *evid.Failure) {
	defer func() {
		if r := recover(); r != nil {
			f = &evid.Failure{Oracle: "Parse must not panic", Observed: fmt.Sprint("panic: ", r), Expected: "return", Class: "panic"}
		}
	}()
	want, werr := time.Parse(time.RFC3339Nano, s)
	got, gerr := iso8601.Parse(s)
	if (werr == nil) != (gerr == nil) {
		cls := "accepts-invalid"
		if werr == nil {
			cls = "rejects-valid"
		}
		return &evid.Failure{Oracle: "error presence equals time.Parse(RFC3339Nano)", Observed: fmt.Sprintf("err=%v", gerr), Expected: fmt.Sprintf("err=%v", werr), Class: cls}
	}
	if werr != nil {
		return nil
	}
	_, wo := want.Zone()
	_, g0 := got.Zone()
	if !got.Equal(want) || wo != g0 {
		return &evid.Failure{Oracle: "same instant and zone offset as time.Parse", Observed: got.Format(time.RFC3339Nano) + fmt.Sprintf(" (unix %d.%09d, off %d)", got.Unix(), got.Nanosecond(), g0),
			Expected: want.Format(time.RFC3339Nano) + fmt.Sprintf(" (unix %d.%09d, off %d)", want.Unix(), want.Nanosecond(), wo), Class: "value"}
	}
	if strings.HasSuffix(s, "Z") && got.Location() != time.UTC {
		return &evid.Failure{Oracle: "UTC location for a Z suffix", Observed: got.Location().String(), Expected: "UTC", Class: "location"}
	}
	return nil
}

// checkJSON sends the string through json.Unmarshal into time.Time, the path by
// which users reach Parse. Compared with encoding/json only where encoding/json
// (strict RFC 3339 since Go 1.20) and time.Parse agree on acceptance; the
// remaining strings are a C02 matter, not a C18 one.
func checkJSON(s string) (f *evid.Failure, inDomain bool) {
	defer func() {
		if r := recover(); r != nil {
			f = &evid.Failure{Oracle: "Unmarshal must not panic", Observed: fmt.Sprint("panic: ", r), Expected: "return", Class: "panic"}
		}
	}()
	doc, err := stdjson.Marshal(s)
	if err != nil {
		return nil, false
	}
	var a, b time.Time
	werr := stdjson.Unmarshal(doc, &a)
	_, perr := time.Parse(time.RFC3339Nano, s)
	if (werr == nil) != (perr == nil) {
		return nil, false
	}
	gerr := segjson.Unmarshal(doc, &b)
	if (werr == nil) != (gerr == nil) {
		return &evid.Failure{Oracle: "json.Unmarshal into time.Time: error presence equals encoding/json", Observed: fmt.Sprintf("err=%v", gerr), Expected: fmt.Sprintf("err=%v", werr), Class: "json-err"}, true
	}
	if werr == nil {
		_, wo := a.Zone()
		_, g0 := b.Zone()
		if !a.Equal(b) || wo != g0 {
			return &evid.Failure{Oracle: "json.Unmarshal into time.Time: same instant/offset as encoding/json", Observed: b.Format(time.RFC3339Nano), Expected: a.Format(time.RFC3339Nano), Class: "json-value"}, true
		}
	}
	return nil, true
}

// refValid is R-ISO: an independent recogniser of
//
//	YYYY-MM-DD[(T|space)hh:mm:ss[.d{1,9}][Z|[space](+|-)hh[:]mm]]
//
// written as a position-indexed matcher (not as a chain of "read" helpers).
func refValid(s string, flags iso8601.ValidFlags) bool {
	has := func(f iso8601.ValidFlags) bool { return flags&f != 0 }
	dig := func(i, n int) bool {
		if i+n > len(s) {
			return false
		}
		for _, c := range []byte(s[i : i+n]) {
			if c < '0' || c > '9' {
				return false
			}
		}
		return true
	}
	at := func(i int, c byte) bool { return i < len(s) && s[i] == c }
	// date
	if !(dig(0, 4) && at(4, '-') && dig(5, 2) && at(7, '-') && dig(8, 2)) {
		return false
	}
	if len(s) == 10 {
		return has(iso8601.AllowMissingTime)
	}
	// separator and time
	if !(at(10, 'T') || (at(10, ' ') && has(iso8601.AllowSpaceSeparator))) {
		return false
	}
	if !(dig(11, 2) && at(13, ':') && dig(14, 2) && at(16, ':') && dig(17, 2)) {
		return false
	}
	i := 19
	if at(i, '.') {
		n := 0
		for i+1+n < len(s) && s[i+1+n] >= '0' && s[i+1+n] <= '9' {
			n++
		}
		if n < 1 || n > 9 {
			return false
		}
		i += 1 + n
	} else if !has(iso8601.AllowMissingSubsecond) {
		return false
	}
	// zone
	if i == len(s) {
		return has(iso8601.AllowMissingTimezone)
	}
	if at(i, 'Z') {
		return i+1 == len(s)
	}
	if at(i, ' ') && has(iso8601.AllowSpaceSeparator) {
		i++
	}
	if !(at(i, '+') || at(i, '-')) {
		return false
	}
	i++
	if !dig(i, 2) {
		return false
	}
	i += 2
	if at(i, ':') {
		i++
	} else if !has(iso8601.AllowNumericTimezone) {
		return false
	}
	return dig(i, 2) && i+2 == len(s)
}

func checkValid(s string, flags int) (f *evid.Failure) {
	defer func() {
		if r := recover(); r != nil {
			f = &evid.Failure{Oracle: "Valid must not panic", Observed: fmt.Sprint("panic: ", r), Expected: "return", Class: "panic"}
		}
	}()
	got := iso8601.Valid(s, iso8601.ValidFlags(flags))
	want := refValid(s, iso8601.ValidFlags(flags))
	if got != want {
		return &evid.Failure{Oracle: "Valid(s, flags) == grammar recogniser", Observed: fmt.Sprint(got), Expected: fmt.Sprint(want), Class: "valid-mismatch"}
	}
	return nil
}

func checkCase(c Case) *evid.Failure {
	switch c.Fn {
	case "Parse":
		return checkParse(c.S)
	case "Valid":
		return checkValid(c.S, c.Flags)
	case "JSON":
		f, _ := checkJSON(c.S)
		return f
	}
	return &evid.Failure{Oracle: "harness", Observed: "unknown fn " + c.Fn}
}

// ------------------------------------------------------------------ known classes

// sepMaskClass: Parse's fast path accepted a byte that merely contains the
// separator's bits ('/' for '-', U V W \ ] for 'T', ; > ? for ':').
func isSepMaskCase(s string) bool {
	if len(s) < 20 || len(s) > 30 || s[len(s)-1] != 'Z' {
		return false
	}
	alts := map[int]string{4: "/", 7: "/", 10: "UVW\\]", 13: ";>?", 16: ";>?"}
	n := 0
	for p, set := range alts {
		if strings.IndexByte(set, s[p]) >= 0 {
			n++
		}
	}
	return n > 0
}

// fastRejectClass: a string in the fast-path window (20..30 bytes, 'Z' suffix)
// that time.Parse accepts but whose shape is not the canonical fixed-width one
// (comma as the decimal separator or a one-digit hour).
func isFastRejectCase(s string) bool {
	if len(s) < 20 || len(s) > 30 || s[len(s)-1] != 'Z' {
		return false
	}
	return strings.Contains(s, ",") || (len(s) > 12 && s[12] == ':')
}

func knownClass(c Case, f *evid.Failure) string {
	if c.Fn != "Parse" && c.Fn != "JSON" {
		return ""
	}
	switch f.Class {
	case "accepts-invalid":
		if isSepMaskCase(c.S) {
			return "iso-parse-separator-mask"
		}
	case "rejects-valid":
		if isFastRejectCase(c.S) {
			return "iso-parse-fastpath-rejects-valid"
		}
	}
	return ""
}

var classes = []evid.Class{
	{Name: "iso-parse-separator-mask", Witness: func() *evid.Failure {
		for _, s := range []string{"2021/03/25T21:36:12Z", "2021-03-25U21;36;12Z", "2021-03-25T21:36?12.5Z"} {
			if f := checkParse(s); f != nil {
				return f
			}
		}
		return nil
	}},
	{Name: "iso-parse-fastpath-rejects-valid", Witness: func() *evid.Failure {
		for _, s := range []string{"2021-03-25T21:36:12,5Z", "2021-03-25T1:36:12.5Z", "2021-03-25T1:36:12.55Z"} {
			if f := checkParse(s); f != nil {
				return f
			}
		}
		return nil
	}},
}

// ------------------------------------------------------------------ runner

type runner struct {
	t     *testing.T
	name  string
	evals int
	nt    int
}

func (r *runner) do(c Case, nontrivial bool) {
	r.evals++
	if nontrivial {
		evid.NonTrivial(evid.HashS(c.Fn, c.S, fmt.Sprint(c.Flags)))
	}
	if f := checkCase(c); f != nil {
		if cls := knownClass(c, f); cls != "" && evid.KnownActive(cls) {
			evid.Excluded(cls)
			return
		}
		evid.Eval(r.evals)
		evid.Violation(r.t, r.name, c, f)
	}
}

func (r *runner) done() {
	evid.Eval(r.evals)
	evid.LabelN(r.name+".evals", r.evals)
	evid.Enumerated(r.name, 1, 1)
}

func zLayouts() []string {
	base := "2021-03-25T21:36:12"
	out := []string{base + "Z"}
	frac := "123456789"
	for n := 1; n <= 9; n++ {
		out = append(out, base+"."+frac[:n]+"Z")
	}
	return out
}

var baseStamps = []string{"2021-03-25T21:36:12", "0000-01-01T00:00:00", "9999-12-31T23:59:59", "2000-02-29T09:09:09", "1969-12-31T23:59:59", "1234-10-19T10:20:30"}

// TestParseByteSweep: every byte value at every position of otherwise valid
// Z-suffixed timestamps of every fast-path length (20, 22..30), plus the
// neighbouring lengths 19, 21, 31.
func TestParseByteSweep(t *testing.T) {
	r := &runner{t: t, name: "ParseByteSweep"}
	shard, n := evid.Shard(), evid.NShards()
	idx := 0
	fr := "987654321012"
	for _, b := range baseStamps {
		for fl := 0; fl <= 11; fl++ { // 0 = no fraction, 1..11 digits (10 -> len 31, 11 -> 32)
			idx++
			if idx%n != shard {
				continue
			}
			s := b
			if fl > 0 {
				s += "." + fr[:fl]
			}
			s += "Z"
			buf := []byte(s)
			for pos := 0; pos < len(buf); pos++ {
				old := buf[pos]
				for v := 0; v < 256; v++ {
					buf[pos] = byte(v)
					r.do(Case{Fn: "Parse", S: string(buf)}, true)
				}
				buf[pos] = old
			}
			// deletions and insertions (lengths around the window)
			for pos := 0; pos < len(s); pos++ {
				r.do(Case{Fn: "Parse", S: s[:pos] + s[pos+1:]}, true)
				for _, ins := range []byte{'0', '9', '.', ',', 'Z', 'T', ':', '-', ' ', '+'} {
					r.do(Case{Fn: "Parse", S: s[:pos] + string(ins) + s[pos:]}, true)
				}
			}
			evid.Label(fmt.Sprintf("parse.bytesweep.len%d", len(s)))
		}
	}
	r.done()
	evid.SetExhaustive(true)
	evid.Sample(Case{Fn: "Parse", S: "2021-03-25T21:36;12.98Z"})
}

// TestParseSeparatorPairs: two separator positions replaced at once by every
// byte that contains the separator's bits (the masking trick's blind spot) and
// by every other byte for one of them.
func TestParseSeparatorPairs(t *testing.T) {
	r := &runner{t: t, name: "ParseSeparatorPairs"}
	shard, n := evid.Shard(), evid.NShards()
	seps := []int{4, 7, 10, 13, 16}
	idx := 0
	for _, s := range []string{"2021-03-25T21:36:12Z", "2021-03-25T21:36:12.5Z", "2021-03-25T21:36:12.123456789Z"} {
		for i := 0; i < len(seps); i++ {
			for j := i + 1; j < len(seps); j++ {
				idx++
				if idx%n != shard {
					continue
				}
				buf := []byte(s)
				p, q := seps[i], seps[j]
				for a := 0; a < 256; a++ {
					if byte(a)&s[p] != s[p] && !evid.Thorough() {
						continue
					}
					for b := 0; b < 256; b++ {
						if byte(b)&s[q] != s[q] && byte(a)&s[p] != s[p] {
							continue
						}
						buf[p], buf[q] = byte(a), byte(b)
						r.do(Case{Fn: "Parse", S: string(buf)}, true)
					}
				}
				evid.Label("parse.separator-pairs")
			}
		}
	}
	r.done()
}

// TestParseDates: every YYYY-MM-DD with MM in 00..13 and DD in 00..32.
func TestParseDates(t *testing.T) {
	r := &runner{t: t, name: "ParseDates"}
	shard, n := evid.Shard(), evid.NShards()
	tails := []string{"T00:00:00Z"}
	if evid.Thorough() {
		tails = append(tails, "T23:59:59.999Z", "T12:00:00.000000001Z")
	}
	for y := 0; y <= 9999; y++ {
		if y%n != shard {
			continue
		}
		for m := 0; m <= 13; m++ {
			for d := 0; d <= 32; d++ {
				for _, tl := range tails {
					r.do(Case{Fn: "Parse", S: fmt.Sprintf("%04d-%02d-%02d%s", y, m, d, tl)}, true)
				}
			}
		}
	}
	evid.Label("parse.all-dates")
	r.done()
	evid.Sample(Case{Fn: "Parse", S: "1900-02-29T00:00:00Z"})
}

// TestParseTimes: every hh:mm:ss with each component in 00..99.
func TestParseTimes(t *testing.T) {
	r := &runner{t: t, name: "ParseTimes"}
	shard, n := evid.Shard(), evid.NShards()
	heads := []string{"2021-03-25T"}
	tails := []string{"Z"}
	if evid.Thorough() {
		tails = append(tails, ".5Z", ".999999999Z")
	}
	for h := 0; h <= 99; h++ {
		if h%n != shard {
			continue
		}
		for m := 0; m <= 99; m++ {
			for s := 0; s <= 99; s++ {
				for _, hd := range heads {
					for _, tl := range tails {
						r.do(Case{Fn: "Parse", S: fmt.Sprintf("%s%02d:%02d:%02d%s", hd, h, m, s, tl)}, true)
					}
				}
			}
		}
	}
	evid.Label("parse.all-times")
	r.done()
}

// TestParseFractions: every fraction length 0..12 with digits 0 / 9 / mixed.
func TestParseFractions(t *testing.T) {
	if evid.Shard() != 0 {
		return
	}
	r := &runner{t: t, name: "ParseFractions"}
	for n := 0; n <= 12; n++ {
		for _, d := range []string{"000000000000", "999999999999", "000000001000", "123456789123", "900000000009"} {
			for _, z := range []string{"Z", "+00:00", "-07:30", "z"} {
				for _, sep := range []string{".", ","} {
					r.do(Case{Fn: "Parse", S: "2021-03-25T21:36:12" + sep + d[:n] + z}, true)
				}
			}
		}
	}
	evid.Label("parse.fractions")
	r.done()
}

var validFlagBits = []iso8601.ValidFlags{iso8601.AllowSpaceSeparator, iso8601.AllowMissingTime, iso8601.AllowMissingSubsecond, iso8601.AllowMissingTimezone, iso8601.AllowNumericTimezone}

func flagSubsets() []int {
	var out []int
	for m := 0; m < 32; m++ {
		f := 0
		for i, b := range validFlagBits {
			if m&(1<<i) != 0 {
				f |= int(b)
			}
		}
		out = append(out, f)
	}
	return out
}

func grammarStrings() []string {
	var out []string
	date := "2018-01-31"
	out = append(out, date)
	fracs := []string{"", ".", ".1", ".12", ".123", ".1234", ".12345", ".123456", ".1234567", ".12345678", ".123456789", ".1234567890"}
	zones := []string{"", "Z", "+07:00", "-07:00", "+0700", "-0700", " +07:00", " -0700", " Z", "z", "+07", "+7:00"}
	for _, sep := range []string{"T", " "} {
		for _, fr := range fracs {
			for _, z := range zones {
				out = append(out, date+sep+"23:42:59"+fr+z)
			}
		}
	}
	return out
}

// TestValidSweep: grammar-built strings with every optional/alternative part
// toggled x every single-byte deviation (256 values at every position, one
// deletion, one insertion) x all 32 flag subsets.
func TestValidSweep(t *testing.T) {
	r := &runner{t: t, name: "ValidSweep"}
	shard, n := evid.Shard(), evid.NShards()
	fl := flagSubsets()
	for i, s := range grammarStrings() {
		if i%n != shard {
			continue
		}
		for _, f := range fl {
			r.do(Case{Fn: "Valid", S: s, Flags: f}, true)
		}
		buf := []byte(s)
		for pos := 0; pos < len(buf); pos++ {
			old := buf[pos]
			for v := 0; v < 256; v++ {
				if byte(v) == old {
					continue
				}
				buf[pos] = byte(v)
				str := string(buf)
				for _, f := range fl {
					r.do(Case{Fn: "Valid", S: str, Flags: f}, true)
				}
			}
			buf[pos] = old
			del := s[:pos] + s[pos+1:]
			for _, f := range fl {
				r.do(Case{Fn: "Valid", S: del, Flags: f}, true)
			}
			for _, ins := range []byte{'0', ' ', 'T', 'Z', ':', '.', '+', '-'} {
				str := s[:pos] + string(ins) + s[pos:]
				for _, f := range fl {
					r.do(Case{Fn: "Valid", S: str, Flags: f}, true)
				}
			}
		}
		// every prefix
		for k := 0; k <= len(s); k++ {
			for _, f := range fl {
				r.do(Case{Fn: "Valid", S: s[:k], Flags: f}, k >= 8)
			}
		}
		evid.Label("valid.grammar-string")
	}
	r.done()
	evid.Sample(Case{Fn: "Valid", S: "2018-01-31 23:42:59.123 -0700", Flags: int(iso8601.AllowSpaceSeparator | iso8601.AllowNumericTimezone)})
}

// TestValidNoAlloc: Valid does not allocate.
func TestValidNoAlloc(t *testing.T) {
	if evid.Shard() != 0 {
		return
	}
	n := 0
	for _, s := range grammarStrings() {
		for _, f := range []int{0, int(iso8601.Flexible)} {
			s, f := s, f
			a := testing.AllocsPerRun(20, func() { iso8601.Valid(s, iso8601.ValidFlags(f)) })
			n++
			if a != 0 {
				evid.Eval(n)
				evid.Violation(t, "ValidNoAlloc", Case{Fn: "ValidAlloc", S: s, Flags: f}, &evid.Failure{Oracle: "Valid performs no allocation", Observed: fmt.Sprint(a, " allocs/op"), Expected: "0", Class: "alloc"})
			}
		}
	}
	evid.Eval(n)
	evid.Enumerated("ValidNoAlloc", 1, 1)
}

// ------------------------------------------------------------------ generated

func genStamp(rt *rapid.T) string {
	var sb strings.Builder
	year := rapid.OneOf(rapid.IntRange(0, 9999), rapid.SampledFrom([]int{0, 1, 1600, 1900, 1970, 2000, 2020, 2100, 9999})).Draw(rt, "y")
	mon := rapid.IntRange(0, 13).Draw(rt, "mo")
	day := rapid.IntRange(0, 32).Draw(rt, "d")
	if rapid.IntRange(0, 3).Draw(rt, "validdate") > 0 {
		mon = mon%12 + 1
		day = day%28 + 1 + rapid.IntRange(0, 3).Draw(rt, "dx")
	}
	fmt.Fprintf(&sb, "%04d-%02d-%02d", year, mon, day)
	sb.WriteString(rapid.SampledFrom([]string{"T", "T", "T", "t", " "}).Draw(rt, "sep"))
	h := rapid.IntRange(0, 24).Draw(rt, "h")
	if rapid.IntRange(0, 9).Draw(rt, "h1") == 0 {
		fmt.Fprintf(&sb, "%d", h%10)
	} else {
		fmt.Fprintf(&sb, "%02d", h)
	}
	fmt.Fprintf(&sb, ":%02d:%02d", rapid.IntRange(0, 60).Draw(rt, "mi"), rapid.IntRange(0, 60).Draw(rt, "s"))
	if nf := rapid.IntRange(0, 11).Draw(rt, "nf"); nf > 0 {
		sb.WriteString(rapid.SampledFrom([]string{".", ".", ".", ","}).Draw(rt, "dot"))
		sb.WriteString(rapid.StringOfN(rapid.RuneFrom([]rune("0123456789")), nf, nf, -1).Draw(rt, "frac"))
	}
	switch rapid.IntRange(0, 5).Draw(rt, "zk") {
	case 0, 1:
		sb.WriteString("Z")
	case 2:
		sb.WriteString("z")
	case 3, 4:
		fmt.Fprintf(&sb, "%s%02d:%02d", rapid.SampledFrom([]string{"+", "-"}).Draw(rt, "sg"), rapid.IntRange(0, 25).Draw(rt, "zh"), rapid.IntRange(0, 61).Draw(rt, "zm"))
	case 5:
		fmt.Fprintf(&sb, "%s%02d%02d", rapid.SampledFrom([]string{"+", "-"}).Draw(rt, "sg"), rapid.IntRange(0, 24).Draw(rt, "zh"), rapid.IntRange(0, 60).Draw(rt, "zm"))
	}
	s := sb.String()
	// 0..2 byte mutations
	b := []byte(s)
	for k := rapid.IntRange(0, 2).Draw(rt, "nmut"); k > 0 && len(b) > 0; k-- {
		pos := rapid.IntRange(0, len(b)-1).Draw(rt, "pos")
		switch rapid.IntRange(0, 2).Draw(rt, "mk") {
		case 0:
			b[pos] = rapid.Byte().Draw(rt, "byte")
		case 1:
			b = append(b[:pos], b[pos+1:]...)
		case 2:
			b = append(b[:pos], append([]byte{rapid.SampledFrom([]byte("0123456789TZ:-+., /;U")).Draw(rt, "ins")}, b[pos:]...)...)
		}
	}
	return string(b)
}

func TestRandom(t *testing.T) {
	fl := flagSubsets()
	evid.Check(t, "Random", 40000, func(rt *rapid.T) {
		var s string
		if rapid.IntRange(0, 9).Draw(rt, "kind") == 0 {
			s = rapid.String().Draw(rt, "s")
		} else {
			s = genStamp(rt)
		}
		cs := []Case{{Fn: "Parse", S: s}, {Fn: "Valid", S: s, Flags: rapid.SampledFrom(fl).Draw(rt, "flags")}}
		if rapid.IntRange(0, 3).Draw(rt, "json") == 0 {
			cs = append(cs, Case{Fn: "JSON", S: s})
		}
		for _, c := range cs {
			evid.Eval(1)
			evid.Label("random." + c.Fn)
			if c.Fn == "JSON" {
				if _, in := checkJSON(c.S); !in {
					evid.Label("random.JSON.out-of-domain(strict-vs-lenient)")
					continue
				}
			}
			if len(c.S) >= 10 {
				evid.NonTrivial(evid.HashS(c.Fn, c.S, fmt.Sprint(c.Flags)))
			}
			if c.Fn == "Parse" {
				if _, err := time.Parse(time.RFC3339Nano, c.S); err == nil {
					evid.Label("random.Parse.accepted-by-reference")
				}
			}
			evid.Sample(c)
			if f := checkCase(c); f != nil {
				if cls := knownClass(c, f); cls != "" && evid.KnownActive(cls) {
					evid.Excluded(cls)
					continue
				}
				evid.Violation(rt, "Random", c, f)
			}
		}
	})
}

func TestReplay(t *testing.T) {
	files := evid.SavedReplays()
	if p := evid.ReplayFile(); p != "" {
		files = []string{p}
	}
	for _, p := range files {
		_, raw, err := evid.LoadReplayCase(p)
		if err != nil {
			t.Fatalf("replay %s: %v", p, err)
		}
		var c Case
		if err := stdjson.Unmarshal(raw, &c); err != nil || c.Fn == "" {
			continue
		}
		evid.Eval(1)
		if f := checkCase(c); f != nil {
			if cls := knownClass(c, f); cls != "" && evid.KnownActive(cls) {
				evid.Excluded(cls)
				continue
			}
			evid.Violation(t, "Replay", c, f)
		}
	}
}

func TestKnownFindings(t *testing.T) { evid.RunWitnesses(t, classes) }
