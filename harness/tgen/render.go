package tgen

import (
	"bytes"
	"fmt"
	"math"

	"github.com/segmentio/encoding/thrift"

	"verif/harness/thriftspec"
)

// LibType maps an abstract thrift type to the library's constant of the same
// name (never by number).
func LibType(t thriftspec.T) thrift.Type {
	switch t {
	case thriftspec.Stop:
		return thrift.STOP
	case thriftspec.Bool:
		return thrift.BOOL
	case thriftspec.Byte:
		return thrift.I8
	case thriftspec.I16:
		return thrift.I16
	case thriftspec.I32:
		return thrift.I32
	case thriftspec.I64:
		return thrift.I64
	case thriftspec.Double:
		return thrift.DOUBLE
	case thriftspec.String:
		return thrift.BINARY
	case thriftspec.List:
		return thrift.LIST
	case thriftspec.Set:
		return thrift.SET
	case thriftspec.Map:
		return thrift.MAP
	case thriftspec.Struct:
		return thrift.STRUCT
	}
	panic("tgen: LibType")
}

// SpecOfLib is the inverse of LibType (TRUE maps to Bool).
func SpecOfLib(t thrift.Type) (thriftspec.T, bool) {
	switch t {
	case thrift.TRUE, thrift.BOOL:
		return thriftspec.Bool, true
	case thrift.I8:
		return thriftspec.Byte, true
	case thrift.I16:
		return thriftspec.I16, true
	case thrift.I32:
		return thriftspec.I32, true
	case thrift.I64:
		return thriftspec.I64, true
	case thrift.DOUBLE:
		return thriftspec.Double, true
	case thrift.BINARY:
		return thriftspec.String, true
	case thrift.LIST:
		return thriftspec.List, true
	case thrift.SET:
		return thriftspec.Set, true
	case thrift.MAP:
		return thriftspec.Map, true
	case thrift.STRUCT:
		return thriftspec.Struct, true
	}
	return 0, false
}

// LibMessageType maps the logical message type (1 Call .. 4 Oneway) to the
// library's named constant.
func LibMessageType(logical int) thrift.MessageType {
	switch logical {
	case thriftspec.Call:
		return thrift.Call
	case thriftspec.Reply:
		return thrift.Reply
	case thriftspec.Exception:
		return thrift.Exception
	case thriftspec.Oneway:
		return thrift.Oneway
	}
	panic("tgen: LibMessageType")
}

// LogicalMessageType is the inverse of LibMessageType (0 if unknown).
func LogicalMessageType(m thrift.MessageType) int {
	switch m {
	case thrift.Call:
		return thriftspec.Call
	case thrift.Reply:
		return thriftspec.Reply
	case thrift.Exception:
		return thriftspec.Exception
	case thrift.Oneway:
		return thriftspec.Oneway
	}
	return 0
}

// Protocols of the library in the order of thriftspec.Proto.
func Protocol(p thriftspec.Proto) thrift.Protocol {
	switch p {
	case thriftspec.BinaryStrict:
		return &thrift.BinaryProtocol{}
	case thriftspec.BinaryNonStrict:
		return &thrift.BinaryProtocol{NonStrict: true}
	}
	return &thrift.CompactProtocol{}
}

// Mark records where one header was written by Render.
type Mark struct {
	Kind  string `json:"kind"`  // field | stop | list | set | map | strlen
	Off   int    `json:"off"`   // offset of the header
	Len   int    `json:"len"`   // length of the header
	Depth int    `json:"depth"` // struct nesting depth of the header
	N     int    `json:"n"`     // element count / byte length / field id
}

// Renderer writes content trees through the library's Writer the way the
// struct encoder calls it (delta ids 1..15 as Field{Delta:true}, larger ones
// absolute; bool fields folded into the field type when the protocol
// advertises CoalesceBoolFields).
type Renderer struct {
	Buf   *bytes.Buffer
	W     thrift.Writer
	Marks []Mark
	Calls []string // textual trace of the Writer calls (for failure messages)
	Trace bool
	depth int
}

func NewRenderer(p thrift.Protocol) *Renderer {
	buf := new(bytes.Buffer)
	return &Renderer{Buf: buf, W: p.NewWriter(buf)}
}

func (r *Renderer) mark(kind string, off, n int) {
	r.Marks = append(r.Marks, Mark{Kind: kind, Off: off, Len: r.Buf.Len() - off, Depth: r.depth, N: n})
}

func (r *Renderer) trace(format string, a ...any) {
	if r.Trace {
		r.Calls = append(r.Calls, fmt.Sprintf(format, a...))
	}
}

// Message writes a message header.
func (r *Renderer) Message(m thriftspec.Message) error {
	r.trace("WriteMessage(%d,%q,%d)", m.Type, m.Name, m.SeqID)
	return r.W.WriteMessage(thrift.Message{Type: LibMessageType(m.Type), Name: m.Name, SeqID: m.SeqID})
}

// Value writes v.
func (r *Renderer) Value(v thriftspec.Value) error {
	w := r.W
	feat := w.Protocol().Features()
	switch v.T {
	case thriftspec.Bool:
		r.trace("WriteBool(%v)", v.B)
		return w.WriteBool(v.B)
	case thriftspec.Byte:
		r.trace("WriteInt8(%d)", v.I)
		return w.WriteInt8(int8(v.I))
	case thriftspec.I16:
		r.trace("WriteInt16(%d)", v.I)
		return w.WriteInt16(int16(v.I))
	case thriftspec.I32:
		r.trace("WriteInt32(%d)", v.I)
		return w.WriteInt32(int32(v.I))
	case thriftspec.I64:
		r.trace("WriteInt64(%d)", v.I)
		return w.WriteInt64(v.I)
	case thriftspec.Double:
		r.trace("WriteFloat64(bits %#x)", v.F)
		return w.WriteFloat64(math.Float64frombits(v.F))
	case thriftspec.String:
		off := r.Buf.Len()
		r.trace("WriteBytes(len %d)", len(v.S))
		// split into WriteLength + raw bytes would bypass WriteBytes; use the method and
		// derive the length-prefix size from the total
		if err := w.WriteBytes(v.S); err != nil {
			return err
		}
		r.Marks = append(r.Marks, Mark{Kind: "strlen", Off: off, Len: r.Buf.Len() - off - len(v.S), Depth: r.depth, N: len(v.S)})
		return nil
	case thriftspec.List, thriftspec.Set:
		off := r.Buf.Len()
		var err error
		et := LibType(v.ET)
		if v.ET1 && v.ET == thriftspec.Bool && feat&thrift.CoalesceBoolFields != 0 {
			et = thrift.TRUE // BOOL announced as 1 (compact; readers must accept 1 and 2)
		}
		if v.T == thriftspec.List {
			r.trace("WriteList(%s,%d)", et, len(v.Elems))
			err = w.WriteList(thrift.List{Size: int32(len(v.Elems)), Type: et})
			r.mark("list", off, len(v.Elems))
		} else {
			r.trace("WriteSet(%s,%d)", et, len(v.Elems))
			err = w.WriteSet(thrift.Set{Size: int32(len(v.Elems)), Type: et})
			r.mark("set", off, len(v.Elems))
		}
		if err != nil {
			return err
		}
		for _, x := range v.Elems {
			if err := r.Value(x); err != nil {
				return err
			}
		}
		return nil
	case thriftspec.Map:
		off := r.Buf.Len()
		r.trace("WriteMap(%s,%s,%d)", v.KT, v.ET, len(v.Elems))
		m := thrift.Map{Size: int32(len(v.Elems))}
		if v.KT != thriftspec.Stop {
			m.Key = LibType(v.KT)
		}
		if v.ET != thriftspec.Stop {
			m.Value = LibType(v.ET)
		}
		if feat&thrift.CoalesceBoolFields != 0 {
			if v.KT1 && v.KT == thriftspec.Bool {
				m.Key = thrift.TRUE
			}
			if v.ET1 && v.ET == thriftspec.Bool {
				m.Value = thrift.TRUE
			}
		}
		if err := w.WriteMap(m); err != nil {
			return err
		}
		r.mark("map", off, len(v.Elems))
		for i := range v.Elems {
			if err := r.Value(v.Keys[i]); err != nil {
				return err
			}
			if err := r.Value(v.Elems[i]); err != nil {
				return err
			}
		}
		return nil
	case thriftspec.Struct:
		r.depth++
		defer func() { r.depth-- }()
		last := int16(0)
		for _, f := range v.Fields {
			fd := thrift.Field{ID: f.ID, Type: LibType(f.V.T)}
			if feat&thrift.UseDeltaEncoding != 0 {
				if d := int(f.ID) - int(last); d >= 1 && d <= 15 {
					fd.ID, fd.Delta = int16(d), true
				}
			}
			fold := feat&thrift.CoalesceBoolFields != 0 && f.V.T == thriftspec.Bool
			if fold && f.V.B {
				fd.Type = thrift.TRUE
			}
			off := r.Buf.Len()
			r.trace("WriteField(id %d delta %v type %s)", fd.ID, fd.Delta, fd.Type)
			if feat&thrift.UseDeltaEncoding != 0 && !fd.Delta && fd.ID <= 15 {
				// An absolute id of at most 15 (non-ascending wire order, ids <= 0): the
				// struct encoder never asks the Writer for this and WriteField would emit
				// the delta form; write the long form the way WriteField does for larger ids.
				r.Buf.WriteByte(byte(fd.Type))
				if err := w.WriteInt16(fd.ID); err != nil {
					return err
				}
			} else if err := w.WriteField(fd); err != nil {
				return err
			}
			r.mark("field", off, int(f.ID))
			if !fold {
				if err := r.Value(f.V); err != nil {
					return err
				}
			}
			last = f.ID
		}
		off := r.Buf.Len()
		r.trace("WriteField(STOP)")
		if err := w.WriteField(thrift.Field{Type: thrift.STOP}); err != nil {
			return err
		}
		r.mark("stop", off, 0)
		return nil
	}
	return fmt.Errorf("tgen: cannot render %s", v.T)
}

// RenderBytes renders v for protocol p and returns the bytes and marks.
func RenderBytes(p thrift.Protocol, v thriftspec.Value) ([]byte, []Mark, error) {
	r := NewRenderer(p)
	err := r.Value(v)
	return r.Buf.Bytes(), r.Marks, err
}

// TreeReader drives the library's Reader methods the way the struct decoder
// does (field headers until STOP, delta ids accumulated, bools taken from the
// field type when the protocol folds them) and rebuilds the content tree from
// what the methods return. Counts are checked against Remaining so that a
// mis-read header cannot make the walk run away.
type TreeReader struct {
	R         thrift.Reader
	Remaining func() int
	depth     int
}

func (tr *TreeReader) count(n int32, what string) (int, error) {
	if n < 0 || int(n) > tr.Remaining() {
		return 0, fmt.Errorf("tgen: %s count %d exceeds the %d remaining bytes", what, n, tr.Remaining())
	}
	return int(n), nil
}

// Message reads a message header.
func (tr *TreeReader) Message() (thriftspec.Message, error) {
	m, err := tr.R.ReadMessage()
	if err != nil {
		return thriftspec.Message{}, err
	}
	return thriftspec.Message{Type: LogicalMessageType(m.Type), Name: m.Name, SeqID: m.SeqID}, nil
}

// Value reads one value of abstract type t.
func (tr *TreeReader) Value(t thriftspec.T) (thriftspec.Value, error) {
	tr.depth++
	defer func() { tr.depth-- }()
	if tr.depth > 64 {
		return thriftspec.Value{}, fmt.Errorf("tgen: nesting too deep")
	}
	r := tr.R
	v := thriftspec.Value{T: t}
	switch t {
	case thriftspec.Bool:
		b, err := r.ReadBool()
		v.B = b
		return v, err
	case thriftspec.Byte:
		x, err := r.ReadInt8()
		v.I = int64(x)
		return v, err
	case thriftspec.I16:
		x, err := r.ReadInt16()
		v.I = int64(x)
		return v, err
	case thriftspec.I32:
		x, err := r.ReadInt32()
		v.I = int64(x)
		return v, err
	case thriftspec.I64:
		x, err := r.ReadInt64()
		v.I = x
		return v, err
	case thriftspec.Double:
		x, err := r.ReadFloat64()
		v.F = math.Float64bits(x)
		return v, err
	case thriftspec.String:
		b, err := r.ReadBytes()
		v.S = append([]byte{}, b...)
		return v, err
	case thriftspec.List, thriftspec.Set:
		var size int32
		var et thrift.Type
		if t == thriftspec.List {
			l, err := r.ReadList()
			if err != nil {
				return v, err
			}
			size, et = l.Size, l.Type
		} else {
			s, err := r.ReadSet()
			if err != nil {
				return v, err
			}
			size, et = s.Size, s.Type
		}
		st, ok := SpecOfLib(et)
		if !ok {
			return v, fmt.Errorf("tgen: element type %d", et)
		}
		v.ET = st
		n, err := tr.count(size, "list/set")
		if err != nil {
			return v, err
		}
		for i := 0; i < n; i++ {
			x, err := tr.Value(st)
			if err != nil {
				return v, err
			}
			v.Elems = append(v.Elems, x)
		}
		return v, nil
	case thriftspec.Map:
		m, err := r.ReadMap()
		if err != nil {
			return v, err
		}
		if m.Size == 0 {
			return v, nil
		}
		kt, ok1 := SpecOfLib(m.Key)
		vt, ok2 := SpecOfLib(m.Value)
		if !ok1 || !ok2 {
			return v, fmt.Errorf("tgen: map types %d/%d", m.Key, m.Value)
		}
		v.KT, v.ET = kt, vt
		n, err := tr.count(m.Size, "map")
		if err != nil {
			return v, err
		}
		for i := 0; i < n; i++ {
			k, err := tr.Value(kt)
			if err != nil {
				return v, err
			}
			x, err := tr.Value(vt)
			if err != nil {
				return v, err
			}
			v.Keys = append(v.Keys, k)
			v.Elems = append(v.Elems, x)
		}
		return v, nil
	case thriftspec.Struct:
		fold := r.Protocol().Features()&thrift.CoalesceBoolFields != 0
		last := int16(0)
		for {
			f, err := r.ReadField()
			if err != nil {
				return v, err
			}
			if f.Type == thrift.STOP {
				return v, nil
			}
			id := f.ID
			if f.Delta {
				id += last
			}
			var x thriftspec.Value
			if fold && (f.Type == thrift.TRUE || f.Type == thrift.FALSE) {
				x = thriftspec.Value{T: thriftspec.Bool, B: f.Type == thrift.TRUE}
			} else {
				ft, ok := SpecOfLib(f.Type)
				if !ok {
					return v, fmt.Errorf("tgen: field type %d", f.Type)
				}
				if x, err = tr.Value(ft); err != nil {
					return v, err
				}
			}
			v.Fields = append(v.Fields, thriftspec.Field{ID: id, V: x})
			last = id
		}
	}
	return v, fmt.Errorf("tgen: cannot read %s", t)
}
