// Package tgen is G-TT of DESIGN.md §2.4: serialisable descriptors of Go
// types the thrift package documents as supported, materialised with
// reflect.StructOf (plus a small static corpus for what reflect cannot build:
// recursive types and named scalar types), and serialisable value recipes that
// can be built any number of times into identical, independent values.
//
// Domain rules enforced here (never generated, and normalised by Build so that
// replay files obey them too):
//   - field ids are positive, unique over the flattened struct, tags are valid;
//   - no unsigned kinds, no interface fields other than the union field;
//   - a required pointer field is non-nil; pointers inside collections and the
//     inner pointer of **bool are non-nil (thrift has no null element);
//   - an embedded struct pointer is non-nil exactly when one of its fields is
//     encoded (the wire format has no notion of the embedded pointer);
//   - map keys are never NaN; a float stored directly in a struct field is never
//     -0.0 (it is a Go zero value, which the encoder omits, alone or together
//     with the by-value struct around it); -0.0 behind pointers and inside
//     lists, sets and maps is generated;
//   - enum field values fit an int32 (thrift enums are i32);
//   - a union struct has at most one non-zero member and its interface field
//     holds a pointer to a copy of that member (the shape of thrift_test.go).
package tgen

import (
	"encoding/json"
	"fmt"
	"math"
	"reflect"
	"sort"
	"strings"
	"sync"

	"verif/harness/thriftspec"
)

type Kind string

const (
	KBool   Kind = "bool"
	KI8     Kind = "i8"
	KI16    Kind = "i16"
	KI32    Kind = "i32"
	KI64    Kind = "i64"
	KInt    Kind = "int"
	KF64    Kind = "f64"
	KF32    Kind = "f32"
	KStr    Kind = "str"
	KBytes  Kind = "bytes"
	KList   Kind = "list"
	KMap    Kind = "map"
	KSet    Kind = "set" // map[K]struct{}
	KStruct Kind = "struct"
	KPtr    Kind = "ptr"
	KNamed  Kind = "named" // static corpus struct type (Name)
)

// TypeDesc describes a Go type.
type TypeDesc struct {
	K      Kind        `json:"k"`
	Name   string      `json:"name,omitempty"` // KNamed: corpus struct; scalar kinds: named corpus scalar type
	Elem   *TypeDesc   `json:"elem,omitempty"` // list element, map value, pointer target
	Key    *TypeDesc   `json:"key,omitempty"`  // map / set key
	Fields []FieldDesc `json:"fields,omitempty"`
	Union  bool        `json:"union,omitempty"` // struct: trailing field `U any thrift:",union"`
}

// FieldDesc is one declared field (declaration order = slice order).
type FieldDesc struct {
	ID   int16    `json:"id,omitempty"`
	Req  bool     `json:"req,omitempty"`
	Opt  bool     `json:"opt,omitempty"`
	Enum bool     `json:"enum,omitempty"`
	Emb  bool     `json:"emb,omitempty"` // anonymous struct / *struct field (no tag; its fields are flattened)
	T    TypeDesc `json:"t"`
}

// Recipe is a serialisable value.
type Recipe struct {
	Nil bool     `json:"nil,omitempty"` // nil pointer / slice / map
	I   int64    `json:"i,omitempty"`   // integers, bool (0/1)
	F   uint64   `json:"f,omitempty"`   // float bits (float32: low 32 bits)
	B   []byte   `json:"b,omitempty"`   // string / []byte contents
	E   []Recipe `json:"e,omitempty"`   // list elements | struct fields (declaration order) | map values | pointer target at [0]
	K   []Recipe `json:"k,omitempty"`   // map / set keys
	Sel int      `json:"sel,omitempty"` // union struct: 1 + index of the member that is set (0: none)
}

// ---------------------------------------------------------------- static corpus

// Rec is recursive through a pointer, a list and a map.
type Rec struct {
	Value string          `thrift:"1"`
	Next  *Rec            `thrift:"2"`
	Flag  *bool           `thrift:"3"`
	Kids  []Rec           `thrift:"5"`
	ByKey map[string]*Rec `thrift:"21"`
	N     int32           `thrift:"40,required"`
}

// Color and Level are named integer types for enum fields.
type Color int32
type Level int8
type Text string

// Inner / Outer: embedding through named types, with a **bool as in thrift_test.go.
type Inner struct {
	Test **bool `thrift:"7"`
	Tag  Text   `thrift:"9"`
}

type Outer struct {
	A int64 `thrift:"1"`
	*Inner
	Z bool `thrift:"30"`
}

type corpusEntry struct {
	typ  reflect.Type
	desc TypeDesc
}

func pd(d TypeDesc) *TypeDesc { return &d }

var corpus = map[string]corpusEntry{
	"Rec": {reflect.TypeOf(Rec{}), TypeDesc{K: KStruct, Fields: []FieldDesc{
		{ID: 1, T: TypeDesc{K: KStr}},
		{ID: 2, T: TypeDesc{K: KPtr, Elem: pd(TypeDesc{K: KNamed, Name: "Rec"})}},
		{ID: 3, T: TypeDesc{K: KPtr, Elem: pd(TypeDesc{K: KBool})}},
		{ID: 5, T: TypeDesc{K: KList, Elem: pd(TypeDesc{K: KNamed, Name: "Rec"})}},
		{ID: 21, T: TypeDesc{K: KMap, Key: pd(TypeDesc{K: KStr}), Elem: pd(TypeDesc{K: KPtr, Elem: pd(TypeDesc{K: KNamed, Name: "Rec"})})}},
		{ID: 40, Req: true, T: TypeDesc{K: KI32}},
	}}},
	"Inner": {reflect.TypeOf(Inner{}), TypeDesc{K: KStruct, Fields: []FieldDesc{
		{ID: 7, T: TypeDesc{K: KPtr, Elem: pd(TypeDesc{K: KPtr, Elem: pd(TypeDesc{K: KBool})})}},
		{ID: 9, T: TypeDesc{K: KStr, Name: "Text"}},
	}}},
	"Outer": {reflect.TypeOf(Outer{}), TypeDesc{K: KStruct, Fields: []FieldDesc{
		{ID: 1, T: TypeDesc{K: KI64}},
		{Emb: true, T: TypeDesc{K: KPtr, Elem: pd(TypeDesc{K: KNamed, Name: "Inner"})}},
		{ID: 30, T: TypeDesc{K: KBool}},
	}}},
}

var namedScalars = map[string]reflect.Type{
	"Color": reflect.TypeOf(Color(0)),
	"Level": reflect.TypeOf(Level(0)),
	"Text":  reflect.TypeOf(Text("")),
}

// NamedStructs lists the corpus struct names (sorted).
func NamedStructs() []string {
	var s []string
	for k := range corpus {
		s = append(s, k)
	}
	sort.Strings(s)
	return s
}

// Resolve returns the structural descriptor of d (looks through KNamed).
func Resolve(d *TypeDesc) *TypeDesc {
	if d.K == KNamed {
		e, ok := corpus[d.Name]
		if !ok {
			panic("tgen: unknown corpus type " + d.Name)
		}
		return &e.desc
	}
	return d
}

// ---------------------------------------------------------------- materialisation

var (
	typeMu    sync.Mutex
	typeCache = map[string]reflect.Type{}
)

var anyType = reflect.TypeOf((*any)(nil)).Elem()

// Sig is the canonical serialised form of d (cache key / hash input).
func Sig(d *TypeDesc) string {
	b, _ := json.Marshal(d)
	return string(b)
}

// Type materialises d.
func (d *TypeDesc) Type() reflect.Type {
	switch d.K {
	case KNamed:
		return corpus[d.Name].typ
	case KBool:
		return reflect.TypeOf(false)
	case KI8, KI16, KI32, KI64, KInt, KStr:
		if d.Name != "" {
			if t, ok := namedScalars[d.Name]; ok {
				return t
			}
			panic("tgen: unknown named scalar " + d.Name)
		}
		switch d.K {
		case KI8:
			return reflect.TypeOf(int8(0))
		case KI16:
			return reflect.TypeOf(int16(0))
		case KI32:
			return reflect.TypeOf(int32(0))
		case KI64:
			return reflect.TypeOf(int64(0))
		case KInt:
			return reflect.TypeOf(int(0))
		}
		return reflect.TypeOf("")
	case KF64:
		return reflect.TypeOf(float64(0))
	case KF32:
		return reflect.TypeOf(float32(0))
	case KBytes:
		return reflect.TypeOf([]byte(nil))
	case KList:
		return reflect.SliceOf(d.Elem.Type())
	case KMap:
		return reflect.MapOf(d.Key.Type(), d.Elem.Type())
	case KSet:
		return reflect.MapOf(d.Key.Type(), reflect.TypeOf(struct{}{}))
	case KPtr:
		return reflect.PointerTo(d.Elem.Type())
	case KStruct:
		sig := Sig(d)
		typeMu.Lock()
		t, ok := typeCache[sig]
		typeMu.Unlock()
		if ok {
			return t
		}
		fs := make([]reflect.StructField, 0, len(d.Fields)+1)
		for i := range d.Fields {
			f := &d.Fields[i]
			sf := reflect.StructField{Type: f.T.Type()}
			if f.Emb {
				sf.Name = fmt.Sprintf("E%d", i)
				sf.Anonymous = true
			} else {
				sf.Name = fmt.Sprintf("F%d", i)
				sf.Tag = reflect.StructTag(`thrift:"` + f.Tag() + `"`)
			}
			fs = append(fs, sf)
		}
		if d.Union {
			fs = append(fs, reflect.StructField{Name: "U", Type: anyType, Tag: `thrift:",union"`})
		}
		t = reflect.StructOf(fs)
		typeMu.Lock()
		typeCache[sig] = t
		typeMu.Unlock()
		return t
	}
	panic("tgen: bad kind " + string(d.K))
}

// Tag renders the thrift struct tag value of f.
func (f *FieldDesc) Tag() string {
	var sb strings.Builder
	fmt.Fprintf(&sb, "%d", f.ID)
	if f.Enum {
		sb.WriteString(",enum")
	}
	if f.Req {
		sb.WriteString(",required")
	}
	if f.Opt {
		sb.WriteString(",optional")
	}
	return sb.String()
}

// FlatField is a field of the flattened struct (embedded structs expanded).
type FlatField struct {
	F    *FieldDesc
	Path []int // reflect index path from the struct value (through embedded fields)
}

// Flatten lists the tagged fields of struct descriptor d with embedded
// structs expanded, in declaration order.
func Flatten(d *TypeDesc) []FlatField {
	d = Resolve(d)
	var out []FlatField
	var walk func(d *TypeDesc, path []int)
	walk = func(d *TypeDesc, path []int) {
		for i := range d.Fields {
			f := &d.Fields[i]
			p := append(append([]int{}, path...), i)
			if f.Emb {
				inner := &f.T
				if inner.K == KPtr {
					inner = inner.Elem
				}
				walk(Resolve(inner), p)
				continue
			}
			out = append(out, FlatField{F: f, Path: p})
		}
	}
	walk(d, nil)
	return out
}

// ---------------------------------------------------------------- building values

func isFloat(k Kind) bool { return k == KF64 || k == KF32 }
func isInt(k Kind) bool   { return k == KI8 || k == KI16 || k == KI32 || k == KI64 || k == KInt }

// IntRange returns the value range of an integer kind.
func IntRange(k Kind) (lo, hi int64) {
	switch k {
	case KI8:
		return math.MinInt8, math.MaxInt8
	case KI16:
		return math.MinInt16, math.MaxInt16
	case KI32:
		return math.MinInt32, math.MaxInt32
	}
	return math.MinInt64, math.MaxInt64
}

func clampInt(k Kind, v int64) int64 {
	lo, hi := IntRange(k)
	if v < lo {
		return lo
	}
	if v > hi {
		return hi
	}
	return v
}

// Build makes a fresh addressable value of d's type from r.
func Build(d *TypeDesc, r *Recipe) reflect.Value {
	v := reflect.New(d.Type()).Elem()
	fill(d, r, v, false)
	return v
}

var emptyRecipe Recipe

func sub(r *Recipe, i int) *Recipe {
	if r == nil || i >= len(r.E) {
		return &emptyRecipe
	}
	return &r.E[i]
}

// fill sets v from r. noNil: pointers on the way must be non-nil.
func fill(d *TypeDesc, r *Recipe, v reflect.Value, noNil bool) {
	d = Resolve(d)
	switch d.K {
	case KBool:
		v.SetBool(r.I != 0)
	case KI8, KI16, KI32, KI64, KInt:
		v.SetInt(clampInt(d.K, r.I))
	case KF64:
		v.SetFloat(math.Float64frombits(r.F))
	case KF32:
		v.SetFloat(float64(math.Float32frombits(uint32(r.F))))
	case KStr:
		v.SetString(string(r.B))
	case KBytes:
		if r.Nil {
			return
		}
		v.SetBytes(append(make([]byte, 0, len(r.B)), r.B...))
	case KList:
		if r.Nil {
			return
		}
		s := reflect.MakeSlice(v.Type(), len(r.E), len(r.E))
		for i := range r.E {
			fill(d.Elem, &r.E[i], s.Index(i), true)
		}
		v.Set(s)
	case KMap, KSet:
		if r.Nil {
			return
		}
		m := reflect.MakeMap(v.Type())
		for i := range r.K {
			k := reflect.New(v.Type().Key()).Elem()
			fill(d.Key, &r.K[i], k, true)
			if hasNaN(k) {
				continue
			}
			e := reflect.New(v.Type().Elem()).Elem()
			if d.K == KMap {
				fill(d.Elem, sub(r, i), e, true)
			}
			m.SetMapIndex(k, e)
		}
		v.Set(m)
	case KPtr:
		if (r.Nil || len(r.E) == 0) && !noNil {
			return
		}
		p := reflect.New(v.Type().Elem())
		fill(d.Elem, sub(r, 0), p.Elem(), true) // the inner pointer of **T is non-nil
		v.Set(p)
	case KStruct:
		for i := range d.Fields {
			f := &d.Fields[i]
			fr := sub(r, i)
			if d.Union && r.Sel-1 != i {
				continue
			}
			fv := v.Field(i)
			if f.Emb {
				if f.T.K == KPtr {
					p := reflect.New(fv.Type().Elem())
					inner := sub(fr, 0)
					if fr.Nil {
						inner = &emptyRecipe
					}
					fill(f.T.Elem, inner, p.Elem(), false)
					if emitsAny(Resolve(f.T.Elem), p.Elem()) {
						fv.Set(p)
					}
				} else {
					fill(&f.T, fr, fv, false)
				}
				continue
			}
			fill(&f.T, fr, fv, f.Req)
			if f.Enum && isInt(f.T.K) {
				x := fv.Int()
				if x < math.MinInt32 {
					fv.SetInt(math.MinInt32)
				} else if x > math.MaxInt32 {
					fv.SetInt(math.MaxInt32)
				}
			}
			if isFloat(f.T.K) && fv.Float() == 0 {
				// -0.0 is a Go zero value: the encoder omits it (and any by-value
				// struct made only of such fields), so it is outside the domain
				// when stored directly in a struct field
				fv.SetFloat(0)
			}
		}
		if d.Union {
			u := v.Field(len(d.Fields))
			if i := r.Sel - 1; i >= 0 && i < len(d.Fields) && !v.Field(i).IsZero() {
				p := reflect.New(v.Field(i).Type())
				fill(&d.Fields[i].T, sub(r, i), p.Elem(), false)
				u.Set(p)
			}
		}
	default:
		panic("tgen: bad kind " + string(d.K))
	}
}

func hasNaN(v reflect.Value) bool {
	switch v.Kind() {
	case reflect.Float32, reflect.Float64:
		return v.Float() != v.Float()
	case reflect.Struct:
		for i := 0; i < v.NumField(); i++ {
			if hasNaN(v.Field(i)) {
				return true
			}
		}
	}
	return false
}

// emitsAny mirrors the documented presence rule (nil pointers and zero values
// of non-required fields are not encoded) to decide whether a struct encodes
// at least one field.
func emitsAny(d *TypeDesc, v reflect.Value) bool {
	for i := range d.Fields {
		f := &d.Fields[i]
		fv := v.Field(i)
		if f.Emb {
			if fv.Kind() == reflect.Ptr {
				if !fv.IsNil() && emitsAny(Resolve(f.T.Elem), fv.Elem()) {
					return true
				}
			} else if emitsAny(Resolve(&f.T), fv) {
				return true
			}
			continue
		}
		if fv.Kind() == reflect.Ptr {
			if !fv.IsNil() {
				return true
			}
			continue
		}
		if f.Req || !fv.IsZero() {
			return true
		}
	}
	return false
}

// ---------------------------------------------------------------- equality

// Equal compares two values of d's type "mod nil/empty": nil and empty
// slices/maps are equal, floats compare by bit pattern (float map keys by
// numeric equality, as the map does), the union interface field is compared
// by the documented shape. It returns "" or a description of the first
// difference.
func Equal(d *TypeDesc, a, b reflect.Value) string {
	return equal(d, a, b, "v")
}

func equal(d *TypeDesc, a, b reflect.Value, path string) string {
	d = Resolve(d)
	switch d.K {
	case KBool:
		if a.Bool() != b.Bool() {
			return fmt.Sprintf("%s: %v != %v", path, a.Bool(), b.Bool())
		}
	case KI8, KI16, KI32, KI64, KInt:
		if a.Int() != b.Int() {
			return fmt.Sprintf("%s: %d != %d", path, a.Int(), b.Int())
		}
	case KF64, KF32:
		if math.Float64bits(a.Float()) != math.Float64bits(b.Float()) {
			return fmt.Sprintf("%s: float bits %#x != %#x", path, math.Float64bits(a.Float()), math.Float64bits(b.Float()))
		}
	case KStr:
		if a.String() != b.String() {
			return fmt.Sprintf("%s: %q != %q", path, a.String(), b.String())
		}
	case KBytes:
		if string(a.Bytes()) != string(b.Bytes()) {
			return fmt.Sprintf("%s: %x != %x", path, a.Bytes(), b.Bytes())
		}
	case KList:
		if a.Len() != b.Len() {
			return fmt.Sprintf("%s: len %d != %d", path, a.Len(), b.Len())
		}
		for i := 0; i < a.Len(); i++ {
			if s := equal(d.Elem, a.Index(i), b.Index(i), fmt.Sprintf("%s[%d]", path, i)); s != "" {
				return s
			}
		}
	case KMap, KSet:
		if a.Len() != b.Len() {
			return fmt.Sprintf("%s: map len %d != %d", path, a.Len(), b.Len())
		}
		it := a.MapRange()
		for it.Next() {
			bv := b.MapIndex(it.Key())
			if !bv.IsValid() {
				return fmt.Sprintf("%s: key %v missing", path, it.Key())
			}
			if d.K == KMap {
				if s := equal(d.Elem, it.Value(), bv, fmt.Sprintf("%s[%v]", path, it.Key())); s != "" {
					return s
				}
			}
		}
	case KPtr:
		if a.IsNil() != b.IsNil() {
			return fmt.Sprintf("%s: nil %v != nil %v", path, a.IsNil(), b.IsNil())
		}
		if !a.IsNil() {
			return equal(d.Elem, a.Elem(), b.Elem(), "*"+path)
		}
	case KStruct:
		for i := range d.Fields {
			if s := equal(&d.Fields[i].T, a.Field(i), b.Field(i), fmt.Sprintf("%s.%d(id %d)", path, i, d.Fields[i].ID)); s != "" {
				return s
			}
		}
		if d.Union {
			ua, ub := a.Field(len(d.Fields)), b.Field(len(d.Fields))
			if ua.IsNil() != ub.IsNil() {
				return fmt.Sprintf("%s.U: union interface nil %v != nil %v", path, ua.IsNil(), ub.IsNil())
			}
			if !ua.IsNil() {
				pa, pb := ua.Elem(), ub.Elem()
				if pa.Type() != pb.Type() || pa.Kind() != reflect.Ptr {
					return fmt.Sprintf("%s.U: union interface holds %s, want %s", path, pb.Type(), pa.Type())
				}
				if pb.IsNil() {
					return fmt.Sprintf("%s.U: nil pointer in union interface", path)
				}
				for i := range d.Fields {
					if !a.Field(i).IsZero() {
						return equal(&d.Fields[i].T, pa.Elem(), pb.Elem(), path+".U")
					}
				}
			}
		}
	}
	return ""
}

// ---------------------------------------------------------------- logical content

// SpecType maps a descriptor to the abstract thrift type it is documented to
// be encoded as. An enum field is an i32 whatever its Go kind.
func SpecType(d *TypeDesc) thriftspec.T {
	d = Resolve(d)
	switch d.K {
	case KBool:
		return thriftspec.Bool
	case KI8:
		return thriftspec.Byte
	case KI16:
		return thriftspec.I16
	case KI32:
		return thriftspec.I32
	case KI64, KInt:
		return thriftspec.I64
	case KF64, KF32:
		return thriftspec.Double
	case KStr, KBytes:
		return thriftspec.String
	case KList:
		return thriftspec.List
	case KMap:
		return thriftspec.Map
	case KSet:
		return thriftspec.Set
	case KStruct:
		return thriftspec.Struct
	case KPtr:
		return SpecType(d.Elem)
	}
	panic("tgen: bad kind " + string(d.K))
}

// ToTree reads the logical thrift content off v: struct fields by ascending
// id, nil pointers and zero values of non-required fields absent, map and set
// entries sorted canonically (the wire order of a Go map is unspecified).
func ToTree(d *TypeDesc, v reflect.Value) thriftspec.Value {
	d = Resolve(d)
	for v.Kind() == reflect.Ptr && d.K != KPtr { // top-level pointer to struct
		v = v.Elem()
	}
	switch d.K {
	case KBool:
		return thriftspec.Value{T: thriftspec.Bool, B: v.Bool()}
	case KI8, KI16, KI32, KI64, KInt:
		return thriftspec.Value{T: SpecType(d), I: v.Int()}
	case KF64, KF32:
		return thriftspec.Value{T: thriftspec.Double, F: math.Float64bits(v.Float())}
	case KStr:
		return thriftspec.Value{T: thriftspec.String, S: []byte(v.String())}
	case KBytes:
		return thriftspec.Value{T: thriftspec.String, S: append([]byte{}, v.Bytes()...)}
	case KList:
		out := thriftspec.Value{T: thriftspec.List, ET: SpecType(d.Elem)}
		for i := 0; i < v.Len(); i++ {
			out.Elems = append(out.Elems, ToTree(d.Elem, v.Index(i)))
		}
		return out
	case KSet:
		out := thriftspec.Value{T: thriftspec.Set, ET: SpecType(d.Key)}
		it := v.MapRange()
		for it.Next() {
			out.Elems = append(out.Elems, ToTree(d.Key, it.Key()))
		}
		return thriftspec.Canon(out)
	case KMap:
		out := thriftspec.Value{T: thriftspec.Map, KT: SpecType(d.Key), ET: SpecType(d.Elem)}
		it := v.MapRange()
		for it.Next() {
			out.Keys = append(out.Keys, ToTree(d.Key, it.Key()))
			out.Elems = append(out.Elems, ToTree(d.Elem, it.Value()))
		}
		return thriftspec.Canon(out)
	case KPtr:
		if v.IsNil() {
			return ToTree(d.Elem, reflect.Zero(v.Type().Elem()))
		}
		return ToTree(d.Elem, v.Elem())
	case KStruct:
		out := thriftspec.Value{T: thriftspec.Struct}
		var walk func(d *TypeDesc, v reflect.Value)
		walk = func(d *TypeDesc, v reflect.Value) {
			for i := range d.Fields {
				f := &d.Fields[i]
				fv := v.Field(i)
				if f.Emb {
					if fv.Kind() == reflect.Ptr {
						if !fv.IsNil() {
							walk(Resolve(f.T.Elem), fv.Elem())
						}
					} else {
						walk(Resolve(&f.T), fv)
					}
					continue
				}
				if fv.Kind() == reflect.Ptr && fv.IsNil() {
					continue
				}
				if !f.Req && fv.IsZero() {
					continue
				}
				x := ToTree(&f.T, fv)
				if f.Enum && isInt(Resolve(&f.T).K) {
					x = thriftspec.Value{T: thriftspec.I32, I: int64(int32(fv.Int()))}
				}
				out.Fields = append(out.Fields, thriftspec.Field{ID: f.ID, V: x})
			}
		}
		walk(d, v)
		sort.SliceStable(out.Fields, func(i, j int) bool { return out.Fields[i].ID < out.Fields[j].ID })
		return out
	}
	panic("tgen: bad kind " + string(d.K))
}

// MultiMap reports whether v contains a map or set with two or more entries
// (its encoding then depends on Go's map iteration order).
func MultiMap(d *TypeDesc, v reflect.Value) bool {
	d = Resolve(d)
	switch d.K {
	case KList:
		for i := 0; i < v.Len(); i++ {
			if MultiMap(d.Elem, v.Index(i)) {
				return true
			}
		}
	case KMap, KSet:
		if v.Len() >= 2 {
			return true
		}
		it := v.MapRange()
		for it.Next() {
			if MultiMap(d.Key, it.Key()) || (d.K == KMap && MultiMap(d.Elem, it.Value())) {
				return true
			}
		}
	case KPtr:
		if !v.IsNil() {
			return MultiMap(d.Elem, v.Elem())
		}
	case KStruct:
		for i := range d.Fields {
			if MultiMap(&d.Fields[i].T, v.Field(i)) {
				return true
			}
		}
	}
	return false
}

// UnionInMapValue reports whether d contains a map whose value type holds a
// union struct by value (directly or through by-value struct nesting).
func UnionInMapValue(d *TypeDesc) bool {
	found := false
	seen := map[string]bool{}
	var byValueUnion func(d *TypeDesc) bool
	byValueUnion = func(d *TypeDesc) bool {
		if d.K == KNamed {
			if seen["v:"+d.Name] {
				return false
			}
			seen["v:"+d.Name] = true
			d = Resolve(d)
		}
		if d.K != KStruct {
			return false
		}
		if d.Union {
			return true
		}
		for i := range d.Fields {
			if byValueUnion(&d.Fields[i].T) {
				return true
			}
		}
		return false
	}
	var walk func(d *TypeDesc)
	walk = func(d *TypeDesc) {
		if found || d == nil {
			return
		}
		if d.K == KNamed {
			if seen[d.Name] {
				return
			}
			seen[d.Name] = true
			d = Resolve(d)
		}
		if d.K == KMap && byValueUnion(d.Elem) {
			found = true
			return
		}
		for i := range d.Fields {
			walk(&d.Fields[i].T)
		}
		walk(d.Elem)
		walk(d.Key)
	}
	walk(d)
	return found
}
