package tgen

import (
	"fmt"
	"math"
	"sort"

	"pgregory.net/rapid"

	"verif/harness/thriftspec"
)

// Opts tunes the generators.
type Opts struct {
	MaxDepth    int  // nesting depth of field types (default 3)
	NoWideIDs   bool // every struct keeps max id - min id < 64*(nfields/64+1) (avoids a listed decoder defect by construction)
	EnumI32Only bool // enum fields only on int32 kinds
	Small       bool // small values (encodings of a few hundred bytes)
	NoMapBool1  bool // callers' flag: do not announce BOOL as 1 in map headers (a listed defect)
	NoUnion     bool
	// Avoided counts how often a restriction above changed a draw (reported as exclusions).
	Avoided map[string]int
}

func (o *Opts) avoided(what string) {
	if o.Avoided == nil {
		o.Avoided = map[string]int{}
	}
	o.Avoided[what]++
}

func (o *Opts) maxDepth() int {
	if o.MaxDepth == 0 {
		return 3
	}
	return o.MaxDepth
}

// weighted draws an index with the given weights.
func weighted(t *rapid.T, label string, w []int) int {
	total := 0
	for _, x := range w {
		total += x
	}
	r := rapid.IntRange(0, total-1).Draw(t, label)
	for i, x := range w {
		if r < x {
			return i
		}
		r -= x
	}
	return len(w) - 1
}

// ---------------------------------------------------------------- ids

var idClassNames = []string{"dense", "small", "gap16", "gapbig", "range64", "range128", "extreme"}

// genIDs returns n distinct positive ids in ascending order.
func genIDs(t *rapid.T, n int, o *Opts) []int16 {
	if n == 0 {
		return nil
	}
	class := weighted(t, "idclass", []int{20, 25, 12, 15, 12, 10, 2})
	gaps := make([]int, n) // gaps[0] is the first id (gap from 0)
	small := func() int {
		if rapid.IntRange(0, 3).Draw(t, "gapk") == 0 {
			return rapid.SampledFrom([]int{1, 1, 2, 14, 15}).Draw(t, "gapv")
		}
		return rapid.IntRange(1, 15).Draw(t, "gapv")
	}
	for i := range gaps {
		if class == 0 {
			gaps[i] = 1
		} else {
			gaps[i] = small()
		}
	}
	if class == 0 && rapid.IntRange(0, 3).Draw(t, "start") == 0 {
		gaps[0] = rapid.IntRange(1, 20).Draw(t, "startv")
	}
	pos := func(min int) int {
		if n-1 < min {
			return n - 1
		}
		return rapid.IntRange(min, n-1).Draw(t, "gappos")
	}
	switch class {
	case 2:
		gaps[pos(0)] = 16
	case 3:
		gaps[pos(0)] = rapid.IntRange(17, 60).Draw(t, "biggap")
		if n > 2 && rapid.Bool().Draw(t, "two") {
			gaps[pos(0)] = rapid.IntRange(16, 40).Draw(t, "biggap2")
		}
	case 4:
		gaps[pos(1)] = rapid.IntRange(64, 100).Draw(t, "gap64")
	case 5:
		gaps[pos(1)] = rapid.IntRange(129, 400).Draw(t, "gap128")
	case 6:
		gaps[pos(0)] = rapid.SampledFrom([]int{1000, 5000, 32000}).Draw(t, "gapx")
	}
	build := func() []int16 {
		ids := make([]int16, n)
		cur := 0
		for i, g := range gaps {
			cur += g
			if cur > math.MaxInt16-(n-1-i) {
				cur = math.MaxInt16 - (n - 1 - i)
			}
			ids[i] = int16(cur)
		}
		return ids
	}
	ids := build()
	limit := 64 * (n/64 + 1) // size in bits of the decoder's field bitmap
	if o.NoWideIDs && int(ids[n-1])-int(ids[0]) >= limit {
		o.avoided("id-range-beyond-bitmap")
		for i := 1; i < n; i++ {
			if gaps[i] > 3 {
				gaps[i] = 1 + gaps[i]%3
			}
		}
		ids = build()
		if int(ids[n-1])-int(ids[0]) >= limit {
			for i := 1; i < n; i++ {
				gaps[i] = 1
			}
			ids = build()
		}
	}
	return ids
}

// ---------------------------------------------------------------- types

type ctx int

const (
	cField ctx = iota
	cElem
	cKey
	cMapVal
	cMember // union member
)

func scalar(k Kind) TypeDesc { return TypeDesc{K: k} }

var scalarKinds = []Kind{KBool, KI8, KI16, KI32, KI64, KInt, KF64, KF32, KStr, KBytes}
var scalarWeights = []int{12, 5, 6, 8, 8, 4, 8, 3, 10, 6}

func genScalar(t *rapid.T) TypeDesc {
	return scalar(scalarKinds[weighted(t, "scalar", scalarWeights)])
}

func genKeyType(t *rapid.T, o *Opts, depth int) TypeDesc {
	switch weighted(t, "keykind", []int{6, 4, 5, 8, 8, 4, 3, 14, 2}) {
	case 0:
		return scalar(KBool)
	case 1:
		return scalar(KI8)
	case 2:
		return scalar(KI16)
	case 3:
		return scalar(KI32)
	case 4:
		return scalar(KI64)
	case 5:
		return scalar(KInt)
	case 6:
		return scalar(KF64)
	case 7:
		return scalar(KStr)
	}
	// comparable struct key with one or two integer / string fields
	n := rapid.IntRange(1, 2).Draw(t, "keyfields")
	d := TypeDesc{K: KStruct}
	for i := 0; i < n; i++ {
		k := rapid.SampledFrom([]Kind{KI32, KStr, KBool, KI64}).Draw(t, "keyfield")
		d.Fields = append(d.Fields, FieldDesc{ID: int16(i + 1), T: scalar(k)})
	}
	return d
}

func genFieldType(t *rapid.T, o *Opts, depth int, c ctx) TypeDesc {
	if c == cKey {
		return genKeyType(t, o, depth)
	}
	deep := depth < o.maxDepth()
	//             scalar list map set struct *struct *scalar **bool Rec Outer
	w := []int{60, 10, 7, 4, 6, 5, 5, 2, 2, 1}
	if !deep {
		w = []int{60, 0, 0, 0, 0, 0, 5, 2, 0, 0}
	}
	switch c {
	case cElem, cMapVal:
		w[6], w[7], w[9] = 0, 0, 0
		w[0] = 40
	case cMember:
		w[5], w[6], w[7], w[8], w[9] = 0, 0, 0, 0, 0
	}
	switch weighted(t, "tkind", w) {
	case 0:
		return genScalar(t)
	case 1:
		e := genFieldType(t, o, depth+1, cElem)
		return TypeDesc{K: KList, Elem: &e}
	case 2:
		k := genKeyType(t, o, depth+1)
		e := genFieldType(t, o, depth+1, cMapVal)
		return TypeDesc{K: KMap, Key: &k, Elem: &e}
	case 3:
		k := genKeyType(t, o, depth+1)
		return TypeDesc{K: KSet, Key: &k}
	case 4:
		return genStruct(t, o, depth+1, false)
	case 5:
		s := genStruct(t, o, depth+1, false)
		return TypeDesc{K: KPtr, Elem: &s}
	case 6:
		s := genScalar(t)
		for s.K == KBytes {
			s = scalar(KI32)
		}
		return TypeDesc{K: KPtr, Elem: &s}
	case 7:
		b := scalar(KBool)
		p := TypeDesc{K: KPtr, Elem: &b}
		return TypeDesc{K: KPtr, Elem: &p}
	case 8:
		if c == cField && rapid.Bool().Draw(t, "recptr") {
			return TypeDesc{K: KPtr, Elem: &TypeDesc{K: KNamed, Name: "Rec"}}
		}
		return TypeDesc{K: KNamed, Name: "Rec"}
	default:
		return TypeDesc{K: KNamed, Name: "Outer"}
	}
}

// GenType draws a top-level struct type.
func GenType(t *rapid.T, o *Opts) TypeDesc {
	return genStruct(t, o, 0, true)
}

func genStruct(t *rapid.T, o *Opts, depth int, top bool) TypeDesc {
	// shape: plain, union, wide (>= 64 fields), with embedded structs, empty
	w := []int{70, 10, 0, 0, 0}
	if top {
		w = []int{62, 10, 4, 22, 2}
	} else if depth < o.maxDepth() {
		w[3] = 6
	}
	if o.NoUnion {
		w[1] = 0
	}
	shape := weighted(t, "shape", w)
	d := TypeDesc{K: KStruct}
	switch shape {
	case 4:
		return d
	case 2: // wide: many scalar fields, consecutive ids, some required beyond the first 64
		n := rapid.IntRange(64, 140).Draw(t, "nwide")
		start := rapid.IntRange(1, 9).Draw(t, "widestart")
		kinds := []Kind{KBool, KI8, KI16, KI32, KI64, KF64, KStr}
		for i := 0; i < n; i++ {
			f := FieldDesc{ID: int16(start + i), T: scalar(kinds[rapid.IntRange(0, len(kinds)-1).Draw(t, "wk")])}
			if rapid.IntRange(0, 9).Draw(t, "wreq") == 0 {
				f.Req = true
			}
			d.Fields = append(d.Fields, f)
		}
		if rapid.Bool().Draw(t, "wrev") {
			for i, j := 0, len(d.Fields)-1; i < j; i, j = i+1, j-1 {
				d.Fields[i], d.Fields[j] = d.Fields[j], d.Fields[i]
			}
		}
		return d
	}
	maxOwn := 6
	if top {
		maxOwn = 10
	}
	if depth >= 2 {
		maxOwn = 3
	}
	nOwn := rapid.IntRange(1, maxOwn).Draw(t, "nfields")
	// embedded (anonymous) structs: chains of 1..4 levels of embedding, by value
	// or through a pointer at each level, with >= 2 tagged sibling fields at the
	// deepest level and 1..2 fields at every intermediate level
	type level struct {
		ptr bool
		n   int
		at  int
	}
	type emb struct {
		levels []level // [0] is embedded in this struct, [i+1] in [i]
		at     int
	}
	var embs []emb
	if shape == 3 {
		ne := rapid.IntRange(1, 2).Draw(t, "nemb")
		for i := 0; i < ne; i++ {
			nl := 1 + weighted(t, "emblevels", []int{30, 20, 30, 20})
			e := emb{at: rapid.IntRange(0, nOwn).Draw(t, "embat")}
			for l := 0; l < nl; l++ {
				lv := level{ptr: rapid.Bool().Draw(t, "embptr"), n: rapid.IntRange(1, 2).Draw(t, "embn")}
				if l == nl-1 {
					lv.n = rapid.IntRange(2, 3).Draw(t, "embn")
				}
				lv.at = rapid.IntRange(0, lv.n).Draw(t, "embat")
				e.levels = append(e.levels, lv)
			}
			embs = append(embs, e)
		}
	}
	total := nOwn
	for _, e := range embs {
		for _, lv := range e.levels {
			total += lv.n
		}
	}
	ids := genIDs(t, total, o)
	// declaration order: ascending, descending or shuffled
	switch weighted(t, "order", []int{40, 15, 45}) {
	case 1:
		for i, j := 0, len(ids)-1; i < j; i, j = i+1, j-1 {
			ids[i], ids[j] = ids[j], ids[i]
		}
	case 2:
		ids = rapid.Permutation(ids).Draw(t, "perm")
	}
	next := 0
	mk := func(c ctx, dpt int) FieldDesc {
		f := FieldDesc{ID: ids[next], T: genFieldType(t, o, dpt, c)}
		next++
		if c == cMember {
			return f
		}
		if isInt(f.T.K) && rapid.IntRange(0, 7).Draw(t, "enum") == 0 {
			f.Enum = true
			switch rapid.IntRange(0, 3).Draw(t, "enumnamed") {
			case 0:
				f.T = TypeDesc{K: KI32, Name: "Color"}
			case 1:
				f.T = TypeDesc{K: KI8, Name: "Level"}
			}
			if o.EnumI32Only && f.T.K != KI32 {
				o.avoided("enum-on-non-int32")
				f.T = TypeDesc{K: KI32}
			}
		}
		if f.T.K == KStr && rapid.IntRange(0, 9).Draw(t, "text") == 0 {
			f.T.Name = "Text"
		}
		switch weighted(t, "opt", []int{70, 20, 10}) {
		case 1:
			f.Req = true
		case 2:
			f.Opt = true
		}
		return f
	}
	c := cField
	if shape == 1 {
		c = cMember
		d.Union = true
	}
	for i := 0; i < nOwn; i++ {
		d.Fields = append(d.Fields, mk(c, depth))
	}
	for _, e := range embs {
		var build func(l int) FieldDesc
		build = func(l int) FieldDesc {
			lv := e.levels[l]
			inner := TypeDesc{K: KStruct}
			for i := 0; i < lv.n; i++ {
				if rapid.IntRange(0, 9).Draw(t, "embscalar") < 6 {
					f := FieldDesc{ID: ids[next], T: genScalar(t)}
					next++
					inner.Fields = append(inner.Fields, f)
				} else {
					inner.Fields = append(inner.Fields, mk(cField, depth+1+l))
				}
			}
			if l+1 < len(e.levels) {
				child := build(l + 1)
				at := lv.at
				inner.Fields = append(inner.Fields[:at:at], append([]FieldDesc{child}, inner.Fields[at:]...)...)
			}
			fd := FieldDesc{Emb: true, T: inner}
			if lv.ptr {
				fd.T = TypeDesc{K: KPtr, Elem: &inner}
			}
			return fd
		}
		fd := build(0)
		at := e.at
		if at > len(d.Fields) {
			at = len(d.Fields)
		}
		d.Fields = append(d.Fields[:at:at], append([]FieldDesc{fd}, d.Fields[at:]...)...)
	}
	return d
}

// ---------------------------------------------------------------- values

type vgen struct {
	t      *rapid.T
	o      *Opts
	budget int
	depth  int
	emb    int // > 0 while generating the value of an embedded struct
	seq    int
}

var intBoundaries = []int64{0, 1, -1, 2, 63, 64, -64, -65, 127, 128, -128, -129, 255, 8191, 8192, -8192, -8193, 32767, -32768, 1 << 20, -(1 << 20) - 1,
	1<<27 - 1, 1 << 27, math.MaxInt32, math.MinInt32, 1 << 34, -(1 << 34) - 1, 1<<55 - 1, 1 << 62, math.MaxInt64, math.MinInt64,
	// every big-endian byte non-zero and distinct (a stale or shifted byte shows)
	0x12, 0x1234, -0x1234, 0x12345678, -0x12345678, 0x1122334455667788, -0x1122334455667788}

func genInt(t *rapid.T, k Kind) int64 {
	lo, hi := IntRange(k)
	if rapid.IntRange(0, 2).Draw(t, "intk") == 0 {
		return clampInt(k, rapid.SampledFrom(intBoundaries).Draw(t, "intb"))
	}
	return rapid.Int64Range(lo, hi).Draw(t, "int")
}

var f64Special = []uint64{0, 1 << 63, 0x3ff0000000000000, 0xbff0000000000000, 0x7ff0000000000000, 0xfff0000000000000, 0x7ff8000000000000,
	0x7ff8000000000001, 0xfff8000000abcdef, 0x7ff4000000000000, 1, 0x000fffffffffffff, 0x7fefffffffffffff, 0x0102030405060708, 0x3ff8000000000000, 0x3fb999999999999a /* 0.1 */, 0xc05ec7ae147ae148}
var f32Special = []uint32{0, 1 << 31, 0x3f800000, 0xbf800000, 0x7f800000, 0xff800000, 0x7fc00000, 1, 0x007fffff, 0x7f7fffff, 0x01020304, 0x3fc00000}

func genF64(t *rapid.T, key bool) uint64 {
	var b uint64
	if rapid.IntRange(0, 1).Draw(t, "fk") == 0 {
		b = rapid.SampledFrom(f64Special).Draw(t, "fs")
	} else {
		b = rapid.Uint64().Draw(t, "fbits")
	}
	if f := math.Float64frombits(b); key && f != f {
		b = 0x3ff8000000000000
	}
	return b
}

func genF32(t *rapid.T, key bool) uint64 {
	var b uint32
	if rapid.IntRange(0, 1).Draw(t, "fk") == 0 {
		b = rapid.SampledFrom(f32Special).Draw(t, "fs")
	} else {
		b = rapid.Uint32().Draw(t, "fbits")
	}
	if f := math.Float32frombits(b); f != f {
		b = 0x7fc00000 // only the canonical quiet NaN: conversions may quiet a signalling one
		if key {
			b = 0x3fc00000
		}
	}
	return uint64(b)
}

func genBytes(t *rapid.T, small bool) []byte {
	k := weighted(t, "blen", []int{15, 60, 20, 5})
	switch k {
	case 0:
		return []byte{}
	case 1:
		return rapid.SliceOfN(rapid.Byte(), 1, 8).Draw(t, "bytes")
	case 2:
		return []byte(rapid.StringN(1, 20, 40).Draw(t, "str"))
	}
	if small {
		return rapid.SliceOfN(rapid.Byte(), 9, 20).Draw(t, "bytes")
	}
	n := rapid.SampledFrom([]int{127, 128, 129, 256, 300, 4660}).Draw(t, "biglen")
	// a small share above 64 KiB (the readers take such lengths incrementally):
	// 65537, 70000 and 131073 bytes. Mid-range values of the draw: rapid favours
	// the bounds of a range.
	switch rapid.IntRange(0, 29).Draw(t, "huge") {
	case 7:
		n = 65537
	case 13:
		n = 70000
	case 19:
		n = 131073
	}
	b := make([]byte, n)
	seed := rapid.Byte().Draw(t, "fill")
	for i := range b {
		b[i] = seed + byte(i*7)
	}
	return b
}

func (g *vgen) listLen(elem *TypeDesc) int {
	e := Resolve(elem)
	simple := e.K != KStruct && e.K != KList && e.K != KMap && e.K != KSet && e.K != KPtr
	if g.budget <= 0 || g.depth > 5 {
		return 0
	}
	var n int
	if simple {
		switch weighted(g.t, "llen", []int{10, 15, 35, 8, 8, 6, 6, 2}) {
		case 0:
			n = 0
		case 1:
			n = 1
		case 2:
			n = rapid.IntRange(2, 5).Draw(g.t, "n")
		case 3:
			n = 14
		case 4:
			n = 15
		case 5:
			n = 16
		case 6:
			n = rapid.IntRange(17, 40).Draw(g.t, "n")
		case 7:
			n = rapid.SampledFrom([]int{127, 128, 130}).Draw(g.t, "n")
			if g.o.Small {
				n = 17
			}
		}
	} else {
		switch weighted(g.t, "llen", []int{12, 25, 45, 6, 6, 6}) {
		case 0:
			n = 0
		case 1:
			n = 1
		case 2:
			n = rapid.IntRange(2, 4).Draw(g.t, "n")
		case 3:
			n = 14
		case 4:
			n = 15
		case 5:
			n = 16
		}
		if n > 4 && (g.depth > 2 || g.o.Small && g.depth > 1) {
			n = 2
		}
	}
	if n > g.budget {
		n = g.budget
	}
	return n
}

func (g *vgen) mapLen(d *TypeDesc) int {
	if g.budget <= 0 || g.depth > 5 {
		return 0
	}
	n := 0
	w := []int{15, 25, 45, 8}
	if d.K == KSet {
		w = []int{10, 15, 30, 45} // the set header has the list header's short/long forms
	}
	switch weighted(g.t, "mlen", w) {
	case 1:
		n = 1
	case 2:
		n = rapid.IntRange(2, 4).Draw(g.t, "n")
	case 3:
		n = rapid.IntRange(14, 17).Draw(g.t, "n")
		if g.depth > 2 {
			n = 2
		}
	}
	if n > g.budget {
		n = g.budget
	}
	return n
}

func (g *vgen) val(d *TypeDesc, c ctx, noNil bool) Recipe {
	d = Resolve(d)
	g.budget--
	switch d.K {
	case KBool:
		if rapid.Bool().Draw(g.t, "b") {
			return Recipe{I: 1}
		}
		return Recipe{}
	case KI8, KI16, KI32, KI64, KInt:
		return Recipe{I: genInt(g.t, d.K)}
	case KF64:
		return Recipe{F: genF64(g.t, c == cKey)}
	case KF32:
		return Recipe{F: genF32(g.t, c == cKey)}
	case KStr:
		return Recipe{B: genBytes(g.t, g.o.Small)}
	case KBytes:
		if rapid.IntRange(0, 7).Draw(g.t, "nilb") == 0 {
			return Recipe{Nil: true}
		}
		return Recipe{B: genBytes(g.t, g.o.Small)}
	case KList:
		if rapid.IntRange(0, 7).Draw(g.t, "nill") == 0 {
			return Recipe{Nil: true}
		}
		n := g.listLen(d.Elem)
		r := Recipe{E: make([]Recipe, n)}
		g.depth++
		for i := range r.E {
			r.E[i] = g.val(d.Elem, cElem, true)
		}
		g.depth--
		return r
	case KMap, KSet:
		if rapid.IntRange(0, 7).Draw(g.t, "nilm") == 0 {
			return Recipe{Nil: true}
		}
		n := g.mapLen(d)
		r := Recipe{K: make([]Recipe, n)}
		if d.K == KMap {
			r.E = make([]Recipe, n)
		}
		g.depth++
		for i := 0; i < n; i++ {
			r.K[i] = g.val(d.Key, cKey, true)
			if d.K == KMap {
				r.E[i] = g.val(d.Elem, cMapVal, true)
			}
		}
		if n >= 5 {
			// large maps/sets: make the keys distinct by construction (random small
			// integers collide and the header sizes 14/15/16 would never be reached)
			switch kd := Resolve(d.Key); kd.K {
			case KI8, KI16, KI32, KI64, KInt:
				lo, hi := IntRange(kd.K)
				base := r.K[0].I
				if base > hi-int64(n) {
					base = hi - int64(n)
				}
				if base < lo {
					base = lo
				}
				for i := range r.K {
					r.K[i].I = base + int64(i)
				}
			case KStr:
				for i := range r.K {
					r.K[i].B = append(append([]byte{}, r.K[i].B...), byte('a'+i%26), byte('0'+i/26))
				}
			case KF64:
				for i := range r.K {
					r.K[i].F = math.Float64bits(float64(i) + 0.5)
				}
			}
		}
		g.depth--
		return r
	case KPtr:
		nilOK := !noNil
		if nilOK && (g.budget <= 0 || g.depth > 4 || rapid.IntRange(0, 2).Draw(g.t, "nilp") == 0) {
			return Recipe{Nil: true}
		}
		g.depth++
		r := Recipe{E: []Recipe{g.val(d.Elem, c, true)}}
		g.depth--
		return r
	case KStruct:
		r := Recipe{E: make([]Recipe, len(d.Fields))}
		if d.Union {
			if len(d.Fields) > 0 && rapid.IntRange(0, 6).Draw(g.t, "unionset") != 0 {
				r.Sel = 1 + rapid.IntRange(0, len(d.Fields)-1).Draw(g.t, "sel")
				g.depth++
				r.E[r.Sel-1] = g.val(&d.Fields[r.Sel-1].T, cField, false)
				g.depth--
			}
			return r
		}
		g.depth++
		for i := range d.Fields {
			f := &d.Fields[i]
			if c == cKey {
				r.E[i] = g.val(&f.T, cKey, true)
				continue
			}
			if f.Emb {
				// embedded struct (or pointer to one): present in 7 of 8 cases, its
				// scalar fields distinct and non-zero so that a field decoded into a
				// sibling's place cannot go unnoticed
				g.emb++
				r.E[i] = g.val(&f.T, cField, rapid.IntRange(0, 7).Draw(g.t, "embnil") != 0)
				g.emb--
				continue
			}
			// sparse structs: a non-required field is often left zero
			if g.emb == 0 && !f.Req && rapid.IntRange(0, 3).Draw(g.t, "zero") == 0 {
				if f.T.K == KPtr || f.T.K == KList || f.T.K == KMap || f.T.K == KSet || f.T.K == KBytes {
					r.E[i] = Recipe{Nil: true}
				}
				continue
			}
			r.E[i] = g.val(&f.T, cField, f.Req)
			if g.emb > 0 {
				g.seq++
				switch k := Resolve(&f.T).K; {
				case isInt(k):
					if r.E[i].I == 0 {
						r.E[i].I = int64(1 + g.seq%100)
					}
				case k == KBool:
					r.E[i].I = 1
				case k == KStr || k == KBytes:
					if len(r.E[i].B) == 0 {
						r.E[i] = Recipe{B: []byte{'e', byte('0' + g.seq%10)}}
					}
				case k == KF64:
					if math.Float64frombits(r.E[i].F) == 0 {
						r.E[i].F = math.Float64bits(float64(g.seq) + 0.5)
					}
				case k == KF32:
					if math.Float32frombits(uint32(r.E[i].F)) == 0 {
						r.E[i].F = uint64(math.Float32bits(float32(g.seq) + 0.5))
					}
				}
			}
			if f.Enum {
				if r.E[i].I > math.MaxInt32 || r.E[i].I < math.MinInt32 {
					r.E[i].I = int64(int32(r.E[i].I))
				}
				lo, hi := IntRange(Resolve(&f.T).K)
				if r.E[i].I < lo || r.E[i].I > hi {
					r.E[i].I = clampInt(Resolve(&f.T).K, r.E[i].I)
				}
			}
		}
		g.depth--
		return r
	}
	panic("tgen: bad kind " + string(d.K))
}

// GenRecipe draws a value recipe for d.
func GenRecipe(t *rapid.T, d *TypeDesc, o *Opts) Recipe {
	g := &vgen{t: t, o: o, budget: 160}
	if o.Small {
		g.budget = 40
	}
	return g.val(d, cField, true)
}

// ---------------------------------------------------------------- labels

// TypeLabels classifies the structs of d (DESIGN.md §4 C04 "Labels").
func TypeLabels(d *TypeDesc) []string {
	set := map[string]bool{}
	seen := map[string]bool{}
	maxEmbDepth := 0
	var walk func(d *TypeDesc, pos string)
	walk = func(d *TypeDesc, pos string) {
		if d.K == KNamed {
			set["named."+d.Name] = true
			if seen[d.Name] {
				return
			}
			seen[d.Name] = true
			d = Resolve(d)
		}
		switch d.K {
		case KList:
			walk(d.Elem, "list")
		case KMap:
			set["map"] = true
			walk(d.Key, "mapkey")
			walk(d.Elem, "mapval")
		case KSet:
			set["set"] = true
			walk(d.Key, "setkey")
		case KPtr:
			if d.Elem.K == KPtr {
				set["ptrptr-bool"] = true
			} else if Resolve(d.Elem).K == KStruct {
				set["ptr-struct"] = true
			} else {
				set["ptr-scalar"] = true
			}
			walk(d.Elem, "ptr")
		case KF32:
			set["float32"] = true
		case KStruct:
			if pos != "top" {
				set["struct-in-"+pos] = true
			}
			if d.Union {
				set["union"] = true
			}
			flat := Flatten(d)
			if len(flat) >= 64 {
				set["nfields>=64"] = true
			}
			if len(flat) == 0 {
				set["nfields=0"] = true
			}
			ids := make([]int, len(flat))
			sorted := true
			for i, f := range flat {
				ids[i] = int(f.F.ID)
				if i > 0 && ids[i] < ids[i-1] {
					sorted = false
				}
				if f.F.Req {
					set["required"] = true
				}
				if f.F.Opt {
					set["optional"] = true
				}
				if f.F.Enum {
					set["enum"] = true
					if Resolve(&f.F.T).K != KI32 {
						set["enum-non-int32"] = true
					}
				}
				if len(f.Path) > 1 {
					set["embedded"] = true
					lv := len(f.Path) - 1
					if lv > 4 {
						lv = 4
					}
					if lv > maxEmbDepth {
						maxEmbDepth = lv
					}
				}
			}
			for i := range d.Fields {
				if d.Fields[i].Emb && d.Fields[i].T.K == KPtr {
					set["embedded-ptr"] = true
				}
			}
			if !sorted {
				set["decl-order!=id-order"] = true
			}
			sort.Ints(ids)
			last := 0
			for _, id := range ids {
				switch g := id - last; {
				case g <= 15:
					set["gap<=15"] = true
				case g == 16:
					set["gap=16"] = true
				default:
					set["gap>16"] = true
				}
				last = id
			}
			if n := len(ids); n > 0 {
				r := ids[n-1] - ids[0]
				if r >= 64 {
					set["id-range>=64"] = true
				}
				if r >= 128 {
					set["id-range>=128"] = true
				}
				if WideIDs(d) {
					set["id-range-beyond-bitmap"] = true
				}
			}
			for i := range d.Fields {
				walk(&d.Fields[i].T, "struct")
			}
		}
	}
	walk(d, "top")
	if maxEmbDepth > 0 { // deepest chain of anonymous embedding of any struct of the type
		set[fmt.Sprintf("embed-depth=%d", maxEmbDepth)] = true
		if maxEmbDepth >= 3 {
			set["embed-depth>=3"] = true
		}
	}
	out := make([]string, 0, len(set))
	for k := range set {
		out = append(out, k)
	}
	sort.Strings(out)
	return out
}

// WideIDs reports whether struct d (not nested ones) declares a field whose
// distance from the smallest id does not fit the decoder's "seen" bitmap of
// 64*(nfields/64+1) bits.
func WideIDs(d *TypeDesc) bool {
	d = Resolve(d)
	if d.K != KStruct {
		return false
	}
	flat := Flatten(d)
	if len(flat) == 0 {
		return false
	}
	min, max := int(flat[0].F.ID), int(flat[0].F.ID)
	for _, f := range flat {
		if int(f.F.ID) < min {
			min = int(f.F.ID)
		}
		if int(f.F.ID) > max {
			max = int(f.F.ID)
		}
	}
	return max-min >= 64*(len(flat)/64+1)
}

// AnyWideIDs reports whether any struct reachable from d has WideIDs.
func AnyWideIDs(d *TypeDesc) bool {
	found := false
	seen := map[string]bool{}
	var walk func(d *TypeDesc)
	walk = func(d *TypeDesc) {
		if found || d == nil {
			return
		}
		if d.K == KNamed {
			if seen[d.Name] {
				return
			}
			seen[d.Name] = true
			d = Resolve(d)
		}
		if d.K == KStruct {
			if WideIDs(d) {
				found = true
				return
			}
			for i := range d.Fields {
				walk(&d.Fields[i].T)
			}
			return
		}
		walk(d.Elem)
		walk(d.Key)
	}
	walk(d)
	return found
}

// TreeLabels classifies a logical content tree (value-level labels).
func TreeLabels(v thriftspec.Value) []string {
	set := map[string]bool{}
	var walk func(v thriftspec.Value, pos string)
	walk = func(v thriftspec.Value, pos string) {
		switch v.T {
		case thriftspec.Bool:
			set["bool-in-"+pos] = true
		case thriftspec.List, thriftspec.Set:
			name := "list"
			if v.T == thriftspec.Set {
				name = "set"
			}
			n := len(v.Elems)
			switch {
			case n == 0:
				set[name+".len=0"] = true
			case n < 14:
				set[name+".len<14"] = true
			case n == 14:
				set[name+".len=14"] = true
			case n == 15:
				set[name+".len=15"] = true
			default:
				set[name+".len>15"] = true
			}
			for _, x := range v.Elems {
				walk(x, name)
			}
		case thriftspec.Map:
			if len(v.Elems) == 0 {
				set["map.empty"] = true
			} else {
				set["map.nonempty"] = true
			}
			for i := range v.Elems {
				walk(v.Keys[i], "mapkey")
				walk(v.Elems[i], "mapval")
			}
		case thriftspec.Struct:
			if pos != "top" {
				set["struct-in-"+pos] = true
			}
			sub := "field"
			if pos != "top" {
				sub = "nested-field"
			}
			for _, f := range v.Fields {
				walk(f.V, sub)
			}
		}
	}
	walk(v, "top")
	out := make([]string, 0, len(set))
	for k := range set {
		out = append(out, k)
	}
	sort.Strings(out)
	return out
}

// ---------------------------------------------------------------- free-standing content trees

var allT = []thriftspec.T{thriftspec.Bool, thriftspec.Byte, thriftspec.I16, thriftspec.I32, thriftspec.I64, thriftspec.Double,
	thriftspec.String, thriftspec.List, thriftspec.Set, thriftspec.Map, thriftspec.Struct}

// GenTreeType draws a thrift type; containers only while depth remains.
func GenTreeType(t *rapid.T, depth int) thriftspec.T {
	if depth <= 0 {
		return allT[rapid.IntRange(0, 6).Draw(t, "tt")]
	}
	return allT[rapid.IntRange(0, len(allT)-1).Draw(t, "tt")]
}

var treeSizes = []int{0, 1, 2, 3, 14, 15, 16, 127, 128}

// GenTree draws a content tree of type ty. budget bounds the node count.
func GenTree(t *rapid.T, ty thriftspec.T, depth int, budget *int) thriftspec.Value {
	*budget--
	v := thriftspec.Value{T: ty}
	size := func(elemScalar bool) int {
		if *budget <= 0 {
			return 0
		}
		n := rapid.SampledFrom(treeSizes).Draw(t, "size")
		if !elemScalar && n > 16 {
			n = 3
		}
		if !elemScalar && n > 3 && depth < 2 {
			n = 2
		}
		if n > *budget {
			n = *budget
		}
		return n
	}
	switch ty {
	case thriftspec.Bool:
		v.B = rapid.Bool().Draw(t, "b")
	case thriftspec.Byte:
		v.I = genInt(t, KI8)
	case thriftspec.I16:
		v.I = genInt(t, KI16)
	case thriftspec.I32:
		v.I = genInt(t, KI32)
	case thriftspec.I64:
		v.I = genInt(t, KI64)
	case thriftspec.Double:
		v.F = genF64(t, false)
	case thriftspec.String:
		v.S = genBytes(t, false)
	case thriftspec.List, thriftspec.Set:
		v.ET = GenTreeType(t, depth-1)
		n := size(v.ET <= thriftspec.String)
		for i := 0; i < n; i++ {
			v.Elems = append(v.Elems, GenTree(t, v.ET, depth-1, budget))
		}
	case thriftspec.Map:
		v.KT = GenTreeType(t, 0)
		v.ET = GenTreeType(t, depth-1)
		n := size(v.ET <= thriftspec.String)
		for i := 0; i < n; i++ {
			v.Keys = append(v.Keys, GenTree(t, v.KT, 0, budget))
			v.Elems = append(v.Elems, GenTree(t, v.ET, depth-1, budget))
		}
	case thriftspec.Struct:
		n := 0
		if *budget > 0 {
			n = rapid.IntRange(0, 6).Draw(t, "nf")
		}
		ids := genIDs(t, n, &Opts{})
		for i := 0; i < n; i++ {
			ft := GenTreeType(t, depth-1)
			v.Fields = append(v.Fields, thriftspec.Field{ID: ids[i], V: GenTree(t, ft, depth-1, budget)})
		}
	default:
		panic(fmt.Sprint("tgen: GenTree ", ty))
	}
	return v
}

// GenDirtyScalar draws a scalar content value every byte of whose fixed-width
// big-endian form is non-zero (integers of all widths, doubles), or a string
// whose length needs two or three bytes (>= 256, >= 65536).
func GenDirtyScalar(t *rapid.T) thriftspec.Value {
	switch rapid.IntRange(0, 6).Draw(t, "dirty") {
	case 0:
		return thriftspec.Value{T: thriftspec.I16, I: rapid.SampledFrom([]int64{0x1234, -0x1234, 0x7f7f}).Draw(t, "d16")}
	case 1:
		return thriftspec.Value{T: thriftspec.I32, I: rapid.SampledFrom([]int64{0x12345678, -0x12345678, 0x7a6b5c4d}).Draw(t, "d32")}
	case 2:
		return thriftspec.Value{T: thriftspec.I64, I: rapid.SampledFrom([]int64{0x1122334455667788, -0x1122334455667788, 0x0102030405060708}).Draw(t, "d64")}
	case 3:
		return thriftspec.Value{T: thriftspec.Double, F: rapid.SampledFrom([]uint64{0x3fb999999999999a, 0xc05ec7ae147ae148, 0x0102030405060708}).Draw(t, "dd")}
	case 4:
		return thriftspec.Value{T: thriftspec.Byte, I: 0x5a}
	}
	n := rapid.SampledFrom([]int{256, 300, 4660, 4660, 65536, 74565}).Draw(t, "dlen")
	b := make([]byte, n)
	for i := range b {
		b[i] = byte('a' + i%23)
	}
	return thriftspec.Value{T: thriftspec.String, S: b}
}

// HugeString reports whether v holds a string / binary longer than 64 KiB.
func HugeString(v thriftspec.Value) bool {
	if v.T == thriftspec.String && len(v.S) > 65536 {
		return true
	}
	for _, x := range v.Elems {
		if HugeString(x) {
			return true
		}
	}
	for _, x := range v.Keys {
		if HugeString(x) {
			return true
		}
	}
	for _, f := range v.Fields {
		if HugeString(f.V) {
			return true
		}
	}
	return false
}
