package tgen

import (
	"bytes"
	"testing"

	"pgregory.net/rapid"

	"verif/harness/thriftspec"
)

// Self-checks of the generator and of thriftspec (no library behaviour asserted).
func TestSelf(t *testing.T) {
	rapid.Check(t, func(rt *rapid.T) {
		o := &Opts{}
		d := GenType(rt, o)
		typ := d.Type()
		if typ != d.Type() {
			rt.Fatalf("type not cached")
		}
		seen := map[int16]bool{}
		for _, f := range Flatten(&d) {
			if f.F.ID <= 0 || seen[f.F.ID] {
				rt.Fatalf("bad id %d in %s", f.F.ID, Sig(&d))
			}
			seen[f.F.ID] = true
		}
		r := GenRecipe(rt, &d, o)
		a, b := Build(&d, &r), Build(&d, &r)
		if s := Equal(&d, a, b); s != "" {
			rt.Fatalf("build not reproducible: %s", s)
		}
		ta, tb := ToTree(&d, a), ToTree(&d, b)
		for _, p := range []thriftspec.Proto{thriftspec.BinaryStrict, thriftspec.Compact} {
			ea := thriftspec.Encode(p, thriftspec.Dialect{}, ta)
			if !bytes.Equal(ea, thriftspec.Encode(p, thriftspec.Dialect{}, tb)) {
				rt.Fatalf("tree not deterministic")
			}
			back, err := thriftspec.Decode(p, thriftspec.Dialect{}, ea, thriftspec.Struct)
			if err != nil || !thriftspec.Same(back, ta) {
				rt.Fatalf("thriftspec self round trip (%s): %v\n%s\n%s", p, err, thriftspec.Describe(ta), thriftspec.Describe(back))
			}
			long := make([]bool, 64)
			for i := range long {
				long[i] = i%2 == 0
			}
			alt, _ := thriftspec.EncodeAlt(p, thriftspec.Dialect{}, ta, long)
			back, err = thriftspec.Decode(p, thriftspec.Dialect{}, alt, thriftspec.Struct)
			if err != nil || !thriftspec.Same(back, ta) {
				rt.Fatalf("thriftspec alt round trip (%s): %v", p, err)
			}
		}
		TypeLabels(&d)
		TreeLabels(ta)
	})
}
