package tgen

import (
	"fmt"

	"pgregory.net/rapid"
)

// BigSpec describes a container that really holds more elements than the
// decoder allocates up front (thrift/decode.go: maxPrealloc = 1024 elements for
// slices, the same number as size hint of maps and sets).
type BigSpec struct {
	Container string `json:"container"` // list | set | map
	Elem      string `json:"elem"`      // element (list) or key (set, map) kind: bool i8 i16 i32 i64 f64 str struct
	Val       string `json:"val,omitempty"`
	N         int    `json:"n"`    // elements really present
	Nest      string `json:"nest"` // top | struct | ptr-struct | list | map: where the container sits
}

func bigKind(s string) TypeDesc {
	switch s {
	case "bool":
		return TypeDesc{K: KBool}
	case "i8":
		return TypeDesc{K: KI8}
	case "i16":
		return TypeDesc{K: KI16}
	case "i32":
		return TypeDesc{K: KI32}
	case "i64":
		return TypeDesc{K: KI64}
	case "f64":
		return TypeDesc{K: KF64}
	case "str":
		return TypeDesc{K: KStr}
	case "struct":
		return TypeDesc{K: KStruct, Fields: []FieldDesc{{ID: 1, T: TypeDesc{K: KI8}}, {ID: 2, T: TypeDesc{K: KBool}}}}
	}
	panic("bigcount: unknown kind " + s)
}

// bigElem is the i-th element / key: distinct for every i.
func bigElem(kind string, i int) Recipe {
	switch kind {
	case "bool":
		return Recipe{I: int64(i % 2)}
	case "i8":
		return Recipe{I: int64(i%251 - 125)}
	case "i16", "i32", "i64":
		return Recipe{I: int64(i - 7)}
	case "f64":
		return Recipe{F: 0x3ff0000000000000 + uint64(i)}
	case "str":
		return Recipe{B: []byte(fmt.Sprintf("k%d", i))}
	case "struct":
		return Recipe{E: []Recipe{{I: int64(i%100 + 1)}, {I: 1}}}
	}
	panic("bigcount: unknown kind " + kind)
}

// Build returns the target struct type and the value recipe of the spec.
func (b *BigSpec) Build() (TypeDesc, Recipe) {
	elem := bigKind(b.Elem)
	var ct TypeDesc
	cr := Recipe{}
	switch b.Container {
	case "list":
		ct = TypeDesc{K: KList, Elem: &elem}
		for i := 0; i < b.N; i++ {
			cr.E = append(cr.E, bigElem(b.Elem, i))
		}
	case "set":
		ct = TypeDesc{K: KSet, Key: &elem}
		for i := 0; i < b.N; i++ {
			cr.K = append(cr.K, bigElem(b.Elem, i))
		}
	default:
		val := bigKind(b.Val)
		ct = TypeDesc{K: KMap, Key: &elem, Elem: &val}
		for i := 0; i < b.N; i++ {
			cr.K = append(cr.K, bigElem(b.Elem, i))
			cr.E = append(cr.E, bigElem(b.Val, i))
		}
	}
	i32 := TypeDesc{K: KI32}
	st := func(fs ...FieldDesc) TypeDesc { return TypeDesc{K: KStruct, Fields: fs} }
	switch b.Nest {
	case "struct", "ptr-struct":
		inner := st(FieldDesc{ID: 3, T: i32}, FieldDesc{ID: 20, T: ct})
		ir := Recipe{E: []Recipe{{I: 5}, cr}}
		if b.Nest == "ptr-struct" {
			return st(FieldDesc{ID: 1, T: TypeDesc{K: KPtr, Elem: &inner}}, FieldDesc{ID: 2, T: i32}), Recipe{E: []Recipe{{E: []Recipe{ir}}, {I: 9}}}
		}
		return st(FieldDesc{ID: 1, T: inner}, FieldDesc{ID: 2, T: i32}), Recipe{E: []Recipe{ir, {I: 9}}}
	case "list":
		small := Recipe{}
		if b.Container == "list" {
			small.E = []Recipe{bigElem(b.Elem, 0)}
		} else {
			small.K = []Recipe{bigElem(b.Elem, 0)}
			if b.Container == "map" {
				small.E = []Recipe{bigElem(b.Val, 0)}
			}
		}
		return st(FieldDesc{ID: 1, T: TypeDesc{K: KList, Elem: &ct}}, FieldDesc{ID: 2, T: i32}), Recipe{E: []Recipe{{E: []Recipe{small, cr}}, {I: 9}}}
	case "map":
		return st(FieldDesc{ID: 1, T: TypeDesc{K: KMap, Key: &i32, Elem: &ct}}, FieldDesc{ID: 2, T: i32}),
			Recipe{E: []Recipe{{K: []Recipe{{I: 42}}, E: []Recipe{cr}}, {I: 9}}}
	}
	return st(FieldDesc{ID: 1, T: ct}, FieldDesc{ID: 2, T: i32}), Recipe{E: []Recipe{cr, {I: 9}}}
}

// GenBigSpec draws a BigSpec: N just above the 1024-element preallocation, one
// and two doublings later, and far above.
func GenBigSpec(t *rapid.T) BigSpec {
	b := BigSpec{
		Container: rapid.SampledFrom([]string{"list", "list", "list", "set", "map"}).Draw(t, "bigc"),
		N:         rapid.SampledFrom([]int{1025, 1025, 1100, 2048, 2049, 5001}).Draw(t, "bign"),
		Nest:      rapid.SampledFrom([]string{"top", "top", "struct", "list", "map", "ptr-struct"}).Draw(t, "bignest"),
	}
	if b.Container == "list" {
		b.Elem = rapid.SampledFrom([]string{"bool", "i8", "i16", "i32", "i64", "f64", "str", "struct"}).Draw(t, "bige")
	} else {
		b.Elem = rapid.SampledFrom([]string{"i16", "i32", "i64", "str"}).Draw(t, "bige") // keys: N distinct values
		b.Val = rapid.SampledFrom([]string{"bool", "i64", "str", "struct"}).Draw(t, "bigv")
	}
	return b
}

// Label names the shape of the spec (for the label histogram).
func (b *BigSpec) Label() string {
	return fmt.Sprintf("%s<%s>.%s", b.Container, b.Elem, b.Nest)
}
