package tgen

import (
	"bufio"
	"bytes"
	"io"
)

// DeliveryModes names the ways NewDelivery hands the same bytes to a reader.
var DeliveryModes = []string{"all-at-once", "one-byte-at-a-time", "halves", "chunks-1..7", "bufio-16", "data-with-EOF"}

type chunkReader struct {
	b      []byte
	mode   int
	chunks []int
	i      int
}

// Read never implements io.ByteReader: the thrift readers then go through
// their generic paths. Mode 5 returns the last chunk together with io.EOF.
func (c *chunkReader) Read(p []byte) (int, error) {
	if len(p) == 0 {
		return 0, nil
	}
	if len(c.b) == 0 {
		return 0, io.EOF
	}
	n := len(p)
	switch c.mode {
	case 1:
		n = 1
	case 2:
		n = (len(p) + 1) / 2
	case 3, 5:
		if len(c.chunks) > 0 {
			n = c.chunks[c.i%len(c.chunks)]
			c.i++
		}
		if n < 1 {
			n = 1
		}
	}
	if n > len(p) {
		n = len(p)
	}
	if n > len(c.b) {
		n = len(c.b)
	}
	copy(p, c.b[:n])
	c.b = c.b[n:]
	if c.mode == 5 && len(c.b) == 0 {
		return n, io.EOF
	}
	return n, nil
}

// NewDelivery returns an io.Reader over b that delivers it according to mode
// (index into DeliveryModes); chunks are the sizes used by modes 3 and 5.
func NewDelivery(mode int, b []byte, chunks []int) io.Reader {
	mode %= len(DeliveryModes)
	switch mode {
	case 0:
		return bytes.NewReader(b)
	case 4:
		return bufio.NewReaderSize(&chunkReader{b: b, mode: 3, chunks: chunks}, 16)
	}
	return &chunkReader{b: b, mode: mode, chunks: chunks}
}
