package c03

import (
	"testing"

	"github.com/segmentio/encoding/proto"
	"pgregory.net/rapid"

	"verif/harness/evid"
	"verif/harness/pgen"
)

// FuzzProtoRoundTrip: coverage-guided search over (bytes, static target
// type). Whatever value v the bytes decode to (no error) goes through the C03
// oracle: Marshal(v) succeeds, Size(v) == len(Marshal(v)),
// Unmarshal(Marshal(v)) == v (mod nil/empty, floats by bits), determinism.
// Values reached this way are produced by the library's own decoder, so they
// are inside the domain (no nil elements in []*T, etc.).
func FuzzProtoRoundTrip(f *testing.F) {
	o := &pgen.Opts{Small: true, MaxRep: 12, MaxDepth: 2}
	for i := range pgen.FuzzTargets {
		td := &pgen.FuzzTargets[i]
		gen := rapid.Custom(func(t *rapid.T) pgen.Recipe { return pgen.GenValue(t, td, o) })
		for k := 0; k < 4; k++ {
			var b []byte
			pgen.Call(func() {
				r := gen.Example(2000*i + k)
				b, _ = proto.Marshal(pgen.Build(td, &r).Interface())
			})
			if len(b) > 0 && len(b) <= 2048 {
				f.Add(b, uint8(i), k%2 == 1)
			}
		}
	}
	f.Fuzz(func(t *testing.T, data []byte, sel uint8, byPtr bool) {
		if len(data) == 0 || len(data) > 4096 {
			return
		}
		td := pgen.FuzzTargets[int(sel)%len(pgen.FuzzTargets)]
		c := Case{Type: td, FromBytes: data, ByPtr: byPtr}
		if byPtr && td.Impl() != "" && evid.KnownActive(pgen.ClassPtrImpl) {
			c.ByPtr = false
		}
		if pgen.HasFixedTagOnPointer(&td) && evid.KnownActive(pgen.ClassFixedPtr) {
			return
		}
		fl, _ := checkCase(c, activeTol())
		if fl != nil {
			if cls := knownClass(c, fl); cls != "" && evid.KnownActive(cls) {
				return
			}
			evid.Violation(t, "FuzzProtoRoundTrip", c, fl)
		}
	})
}
