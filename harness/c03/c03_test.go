// C03 — proto: Unmarshal(Marshal(v)) == v (mod nil/empty), Size(v) == len(Marshal(v)),
// Marshal never fails for types without user methods and is deterministic
// for values without maps. Types and values come from the shared generator
// pgen (DESIGN §2.4); the oracle is exactly DESIGN §4 C03.
package c03

import (
	"bytes"
	"encoding/json"
	"fmt"
	"os"
	"reflect"
	"strings"
	"testing"
	"time"

	"github.com/segmentio/encoding/proto"
	"pgregory.net/rapid"

	"verif/harness/evid"
	"verif/harness/pgen"
)

func TestMain(m *testing.M) { evid.Main(m, "C03") }

func init() {
	// child entry point for cases that may kill the process (witness of a
	// fatal class): exit 0 = oracle satisfied, 1 = oracle failure, anything
	// else = crash.
	evid.Children["c03case"] = func(payload []byte) int {
		var c Case
		if err := json.Unmarshal(payload, &c); err != nil {
			fmt.Println("bad payload:", err)
			return 96
		}
		if f, _ := checkCase(c, pgen.Tol{}); f != nil {
			fmt.Println(f.Error())
			return 1
		}
		return 0
	}
}

// Case is the replayable unit.
type Case struct {
	Type  pgen.TypeDesc `json:"type"`
	Value pgen.Recipe   `json:"value"`
	ByPtr bool          `json:"by_ptr,omitempty"` // Marshal(&v) instead of Marshal(v)
	// FromBytes, when set, replaces Value: v is what Unmarshal(FromBytes)
	// yields for the type (native fuzz target; if those bytes do not decode
	// the case is vacuous - decoding arbitrary bytes is C07's business).
	FromBytes []byte `json:"from_bytes,omitempty"`
}

func fail(class, oracle, observed, expected string) *evid.Failure {
	return &evid.Failure{Class: class, Oracle: oracle, Observed: observed, Expected: expected}
}

// checkCase is the oracle. tol switches on the tolerances of listed known
// findings (zero Tol = the property as stated); the returned map counts the
// differences that were tolerated, by class.
func checkCase(c Case, tol pgen.Tol) (f *evid.Failure, tolerated map[string]int) {
	var rt reflect.Type
	var want reflect.Value
	if p, msg, _ := pgen.Call(func() {
		rt = pgen.GoType(&c.Type)
		want = pgen.BuildT(&c.Type, rt, &c.Value)
	}); p {
		return fail("harness", "harness: build value", msg, "no panic"), nil
	}
	if c.FromBytes != nil {
		p := reflect.New(rt)
		var derr error
		if pk, _, _ := pgen.Call(func() { derr = proto.Unmarshal(append([]byte(nil), c.FromBytes...), p.Interface()) }); pk || derr != nil {
			return nil, nil
		}
		want = p.Elem()
	}
	arg := want.Interface()
	if c.ByPtr {
		arg = want.Addr().Interface()
	}
	userMethods := pgen.HasImpl(&c.Type)
	hasMap := pgen.HasKind(&c.Type, pgen.KMap)

	var b []byte
	var err error
	var size int
	if p, msg, stack := pgen.Call(func() { b, err = proto.Marshal(arg) }); p {
		return fail("panic", "Marshal returns", "panic: "+msg+" @ "+stack, "no panic"), nil
	}
	if err != nil {
		if userMethods {
			return nil, nil // not promised for types with user-supplied marshalling methods
		}
		return fail("marshal-error", "Marshal never fails for types without user methods", err.Error(), "nil error"), nil
	}
	if p, msg, stack := pgen.Call(func() { size = proto.Size(arg) }); p {
		return fail("panic", "Size returns", "panic: "+msg+" @ "+stack, "no panic"), nil
	}
	if size != len(b) {
		return fail("size-mismatch", "Size(v) == len(Marshal(v))", fmt.Sprintf("Size=%d len(Marshal)=%d bytes=%s", size, len(b), hexTrunc(b)), "equal"), nil
	}

	decode := func(b []byte, what string) (reflect.Value, *evid.Failure) {
		fresh := reflect.New(rt)
		var uerr error
		if p, msg, stack := pgen.Call(func() { uerr = proto.Unmarshal(b, fresh.Interface()) }); p {
			return fresh, fail("panic", what+" returns", "panic: "+msg+" @ "+stack+" bytes="+hexTrunc(b), "no panic")
		}
		if uerr != nil {
			return fresh, fail("unmarshal-error", what+" succeeds on Marshal output", uerr.Error()+" bytes="+hexTrunc(b), "nil error")
		}
		return fresh, nil
	}
	tolerated = map[string]int{}
	compare := func(got reflect.Value, oracle string) *evid.Failure {
		r := pgen.Compare(want, got.Elem(), tol, c.ByPtr)
		if r.Diff != "" {
			return fail("value-mismatch", oracle, r.Diff, "equal up to nil-versus-empty slices/maps")
		}
		if r.TolPtrEmpty > 0 {
			tolerated[pgen.ClassPtrEmpty] += r.TolPtrEmpty
		}
		if r.TolBool > 0 {
			tolerated[pgen.ClassBoolWZ] += r.TolBool
		}
		if r.TolNilBool > 0 {
			tolerated[pgen.ClassNilBoolPtr] += r.TolNilBool
		}
		return nil
	}

	got, f := decode(b, "Unmarshal(Marshal(v))")
	if f != nil {
		return f, nil
	}
	// A top-level pointer (chain) whose target encodes to zero bytes: the
	// empty input is documented to decode to the zero value ("An empty input
	// is a valid protobuf message with all fields set to the zero-value"), so
	// the pointer itself cannot come back; the comparison is vacuous.
	topEmptyPtr := len(b) == 0 && c.Type.K == pgen.KPtr && !want.IsNil() && got.Elem().IsNil()
	if !topEmptyPtr {
		if f := compare(got, "Unmarshal(Marshal(v)) == v"); f != nil {
			return f, nil
		}
	}

	// determinism
	var b2 []byte
	if p, msg, stack := pgen.Call(func() { b2, err = proto.Marshal(arg) }); p {
		return fail("panic", "Marshal returns (second call)", "panic: "+msg+" @ "+stack, "no panic"), nil
	}
	if err != nil {
		return fail("marshal-error", "second Marshal of the same value", err.Error(), "nil error"), nil
	}
	if !hasMap {
		if !bytes.Equal(b, b2) {
			return fail("nondeterministic", "Marshal is deterministic for values without maps", hexTrunc(b2), hexTrunc(b)), nil
		}
	} else {
		if len(b) != len(b2) {
			return fail("nondeterministic", "two Marshal calls give equal lengths", fmt.Sprint(len(b2)), fmt.Sprint(len(b))), nil
		}
		if !bytes.Equal(b, b2) {
			got2, f := decode(b2, "Unmarshal(second Marshal)")
			if f != nil {
				return f, nil
			}
			if f := compare(got2, "second Marshal decodes to v"); f != nil {
				return f, nil
			}
		}
	}
	return nil, tolerated
}

func hexTrunc(b []byte) string {
	if len(b) > 96 {
		return evid.Hex(b[:96]) + fmt.Sprintf("…(%d bytes)", len(b))
	}
	return evid.Hex(b)
}

// ---------------------------------------------------------------- known classes

func activeTol() pgen.Tol {
	return pgen.Tol{PtrEmpty: evid.KnownActive(pgen.ClassPtrEmpty), BoolWZ: evid.KnownActive(pgen.ClassBoolWZ),
		NilBoolPtr: evid.KnownActive(pgen.ClassNilBoolPtr)}
}

// activePreClass names the listed class of a case whose trigger condition
// can be decided before execution and whose failure is then certain; two of
// them can kill the process (memory corruption), so they cannot be classified
// after the fact:
//   - fixed-tag-on-pointer-field;
//   - repeated-over-10-elements: decoding the 11th element of a repeated field
//     always reaches growSlice with len == cap == 10; the mis-linked copy is a
//     recoverable nil dereference for pointer-free elements but a fatal
//     "bulkBarrierPreWrite: unaligned arguments" when the GC is marking;
//   - map-entry-length-varint-boundary.
//
// The predicates rebuild the value, so they are only evaluated for classes
// that are listed as known.
func activePreClass(c Case) string {
	if evid.KnownActive(pgen.ClassFixedPtr) && pgen.HasFixedTagOnPointer(&c.Type) {
		return pgen.ClassFixedPtr
	}
	if evid.KnownActive(pgen.ClassRepOver10) && maxRep(c) > 10 {
		return pgen.ClassRepOver10
	}
	if evid.KnownActive(pgen.ClassMapEntryLen) && mapEntryBoundary(c) {
		return pgen.ClassMapEntryLen
	}
	return ""
}

// fatalClass: the case may kill the process, run it in a child.
func fatalClass(c Case) bool { return pgen.HasFixedTagOnPointer(&c.Type) || maxRep(c) > 10 }

// looseEncode returns the encoding produced by MarshalTo into a buffer
// larger than Size (so that an understated Size does not hide the bytes).
func looseEncode(c Case) (b []byte, nodes []pgen.Node, ok bool) {
	sd := pgen.StructDesc(&c.Type)
	if sd == nil {
		return nil, nil, false
	}
	pgen.Call(func() {
		v := pgen.Build(&c.Type, &c.Value).Interface()
		n := proto.Size(v)
		buf := make([]byte, n+64+n/16)
		m, err := proto.MarshalTo(buf, v)
		if err != nil || m > len(buf) {
			return
		}
		ns, err := pgen.ParseMessage(sd, buf[:m], 0)
		if err != nil {
			return
		}
		b, nodes, ok = buf[:m], ns, true
	})
	return
}

func mapEntryBoundary(c Case) bool {
	if !pgen.HasKind(&c.Type, pgen.KMap) {
		return false
	}
	hit := false
	pgen.Call(func() { hit = pgen.MapEntryLenHit(pgen.Build(&c.Type, &c.Value), proto.Size) })
	return hit
}

// knownClass is the narrow predicate of each recoverable class: it names the
// class whose failure mode f is, or "".
func knownClass(c Case, f *evid.Failure) string {
	decodeSide := f.Class == "unmarshal-error" || f.Class == "value-mismatch"
	switch {
	case f.Class == "panic" && strings.Contains(f.Observed, "runtime_reflect.CopySlice") && maxRep(c) > 10:
		return pgen.ClassRepOver10
	case f.Class == "panic" && strings.Contains(f.Observed, "interface conversion") &&
		(pgen.HasPtrToImpl(&c.Type) || c.ByPtr && c.Type.Impl() != ""):
		return pgen.ClassPtrImpl
	case (f.Class == "marshal-error" || f.Class == "size-mismatch") && mapEntryBoundary(c):
		return pgen.ClassMapEntryLen
	case decodeSide && implNotLast(c):
		return pgen.ClassImplNotLast
	case decodeSide && pgen.HasNumberCollisionMod65536(&c.Type):
		return pgen.ClassModCollide
	}
	return ""
}

func maxRep(c Case) int {
	n := 0
	pgen.Call(func() { n = pgen.MaxRepLen(pgen.Build(&c.Type, &c.Value)) })
	return n
}

func implNotLast(c Case) bool {
	if !pgen.HasImpl(&c.Type) {
		return false
	}
	b, nodes, ok := looseEncode(c)
	return ok && pgen.ImplFieldNotLast(nodes, len(b))
}

// minimizeCase structurally shrinks a failing case (same failure class, not a
// listed known class) before it is reported.
func minimizeCase(c Case, f *evid.Failure) (Case, *evid.Failure) {
	best := f
	d, r := pgen.Minimize(c.Type, c.Value, 3000, func(d *pgen.TypeDesc, r *pgen.Recipe) bool {
		c2 := Case{Type: *d, Value: *r, ByPtr: c.ByPtr}
		if cls := activePreClass(c2); cls != "" {
			return false
		}
		f2, _ := checkCase(c2, activeTol())
		if f2 == nil || f2.Class != f.Class {
			return false
		}
		if cls := knownClass(c2, f2); cls != "" && evid.KnownActive(cls) {
			return false
		}
		best = f2
		return true
	})
	// re-evaluate on the final case so that the reported failure belongs to it
	out := Case{Type: d, Value: r, ByPtr: c.ByPtr}
	if f2, _ := checkCase(out, activeTol()); f2 != nil {
		best = f2
	}
	return out, best
}

type fataler interface {
	Fatalf(format string, args ...any)
	Helper()
}

// run executes one case under supervision and does the known-finding
// bookkeeping. It reports whether the case was executed.
func run(t fataler, test string, c Case) {
	t.Helper()
	if cls := activePreClass(c); cls != "" {
		evid.Excluded(cls)
		return
	}
	evid.Journal(test, c)
	f, tolerated := checkCase(c, activeTol())
	evid.JournalClear()
	if f != nil {
		if cls := knownClass(c, f); cls != "" && evid.KnownActive(cls) {
			evid.Excluded(cls)
			return
		}
		c, f = minimizeCase(c, f)
		evid.Violation(t, test, c, f)
	}
	for cls := range tolerated {
		evid.Excluded(cls)
	}
}

// ---------------------------------------------------------------- labels

func tagBytes(num int) int {
	n, v := 1, uint64(num)<<3
	for v >= 0x80 {
		v >>= 7
		n++
	}
	return n
}

func chainDepth(d *pgen.TypeDesc) int {
	n := 0
	for {
		for d.K == pgen.KPtr {
			d = d.Elem
		}
		if d.K != pgen.KStruct || len(d.Fields) != 1 {
			return n
		}
		f := &d.Fields[0].T
		if f.K != pgen.KPtr && f.K != pgen.KMap && f.K != pgen.KStruct {
			return n
		}
		n++
		if f.K == pgen.KMap {
			return n
		}
		d = f
	}
}

func typeLabels(d *pgen.TypeDesc, set map[string]bool) {
	if l := pgen.TopShapeLabel(d); l != "" {
		set[l] = true
	}
	if d.K == pgen.KPtr {
		n := 0
		for x := d; x.K == pgen.KPtr; x = x.Elem {
			n++
		}
		b := pgen.StripPtr(d)
		switch {
		case b.Impl() != "":
			set[fmt.Sprintf("top.ptr%d.impl.%s", n, b.Impl())] = true
		case b.K == pgen.KNamed:
			set[fmt.Sprintf("top.ptr%d.corpus", n)] = true
		default:
			set[fmt.Sprintf("top.ptr%d.other", n)] = true
		}
	}
	switch {
	case d.K == pgen.KPtr:
	case d.Impl() != "":
		set["top.impl."+d.Impl()] = true
	case d.K == pgen.KNamed:
		set["top.corpus."+d.Name] = true
	case d.K == pgen.KStruct:
		set["top.struct"] = true
	default:
		set["top.scalar-or-bytes"] = true
	}
	pgen.Walk(d, func(x, parent *pgen.TypeDesc) {
		switch x.K {
		case pgen.KStruct:
			if n := chainDepth(x); n > 0 {
				if n > 3 {
					n = 3
				}
				set[fmt.Sprintf("inlined.depth%d", n)] = true
			}
			set[fmt.Sprintf("struct.fields.%s", bucket(len(x.Fields), 0, 1, 5, 12))] = true
			for i := range x.Fields {
				f := &x.Fields[i]
				if f.Wire == "" {
					set["untagged"] = true
				} else {
					set["tagged"] = true
				}
				switch tb := tagBytes(f.Num); {
				case tb == 1:
					set["tag.1byte"] = true
				case tb == 2:
					set["tag.2byte"] = true
				default:
					set["tag.3+byte"] = true
				}
				if f.Num > 65535 {
					set["num>65535"] = true
				}
				switch f.Wire {
				case "zigzag32", "zigzag64":
					set["enc.zigzag"] = true
				case "fixed32", "fixed64":
					set["enc.fixed"] = true
				}
			}
		case pgen.KArray:
			set["bytearray"] = true
		case pgen.KMap:
			set["map.key."+x.Key.K] = true
			ek := x.Elem.K
			if x.Elem.Impl() != "" {
				ek = "impl"
			}
			set["map.val."+ek] = true
		case pgen.KNamed:
			if x.Impl() != "" && parent != nil {
				set["impl."+x.Impl()+".nested"] = true
			} else if parent != nil {
				set["corpus."+x.Name] = true
			}
		case pgen.KPtr:
			if x.Elem.K == pgen.KPtr {
				set["ptr.ptr"] = true
			} else if x.Elem.IsScalar() {
				set["ptr.scalar"] = true
			}
		}
	})
}

func bucket(n int, edges ...int) string {
	prev := -1
	for _, e := range edges {
		if n <= e {
			if e == prev+1 {
				return fmt.Sprint(e)
			}
			return fmt.Sprintf("%d-%d", prev+1, e)
		}
		prev = e
	}
	return fmt.Sprintf(">%d", prev)
}

func valueLabels(v reflect.Value, set map[string]bool, depth int) {
	if depth > 10 {
		return
	}
	switch v.Kind() {
	case reflect.Ptr:
		if v.IsNil() {
			set["ptr.nil"] = true
			return
		}
		e := v.Elem()
		if e.IsZero() {
			set["ptr.to-zero-value"] = true
		}
		if e.Kind() == reflect.Struct && !pgen.IsImplType(e.Type()) {
			set["ptr.struct"] = true
			if e.NumField() > 0 {
				switch k := e.Field(0).Kind(); {
				case k == reflect.Map || k == reflect.Ptr || k == reflect.Struct || k == reflect.Slice && e.Type().Field(0).Type.Elem().Kind() != reflect.Uint8:
					set["ptr.struct.first-field-cannot-carry-wantzero"] = true
				}
			} else {
				set["ptr.struct.first-field-cannot-carry-wantzero"] = true
			}
			if pgen.EncodesEmptyWZ(e) {
				set["ptr.struct.encodes-empty"] = true
			}
		}
		valueLabels(e, set, depth+1)
	case reflect.Struct:
		for i := 0; i < v.NumField(); i++ {
			valueLabels(v.Field(i), set, depth+1)
		}
	case reflect.Slice:
		if v.Type().Elem().Kind() == reflect.Uint8 {
			if v.IsNil() {
				set["bytes.nil"] = true
			} else if v.Len() == 0 {
				set["bytes.empty"] = true
			}
			return
		}
		switch n := v.Len(); {
		case n == 0 && v.IsNil():
			set["rep.nil"] = true
		case n == 0:
			set["rep.0-empty"] = true
		case n <= 10:
			set["rep.1-10"] = true
		case n <= 20:
			set["rep.11-20"] = true
		case n <= 40:
			set["rep.21-40"] = true
		case n <= 1000:
			set["rep.41-1000"] = true
		default:
			set["rep.>1000"] = true
		}
		for i := 0; i < v.Len() && i < 4; i++ {
			valueLabels(v.Index(i), set, depth+1)
		}
	case reflect.Map:
		switch n := v.Len(); {
		case v.IsNil():
			set["map.nil"] = true
		case n == 0:
			set["map.empty"] = true
		case n <= 5:
			set["map.1-5"] = true
		default:
			set["map.>5"] = true
		}
		it := v.MapRange()
		for i := 0; it.Next() && i < 3; i++ {
			valueLabels(it.Value(), set, depth+1)
		}
	case reflect.Float32, reflect.Float64:
		f := v.Float()
		if f != f {
			set["float.nan"] = true
		} else if f == 0 && (v.Kind() == reflect.Float64 && pgen.Float64Bits(v) != 0 || v.Kind() == reflect.Float32 && pgen.Float32Bits(v) != 0) {
			set["float.negzero"] = true
		}
	case reflect.Bool:
		if !v.Bool() && depth > 0 {
			set["bool.false"] = true
		}
	}
}

// ---------------------------------------------------------------- generation

func genOpts() *pgen.Opts {
	o := pgen.OptsFor(evid.KnownActive, evid.Excluded)
	o.BigRep = true
	o.Huge = evid.Thorough()
	if !evid.Thorough() {
		o.BigRepN = 2500
	}
	return o
}

const valuesPerType = 12

func TestRoundTrip(t *testing.T) {
	o := genOpts()
	evid.Check(t, "RoundTrip", 1600, func(rt *rapid.T) {
		c := Case{Type: pgen.GenType(rt, o)}
		tset := map[string]bool{}
		typeLabels(&c.Type, tset)
		tj, _ := json.Marshal(&c.Type)
		topImpl := c.Type.Impl() != ""
		for i := 0; i < valuesPerType; i++ {
			c.Value = pgen.GenValue(rt, &c.Type, o)
			c.ByPtr = pgen.Uniform(rt, "byptr", 4) == 0
			if c.ByPtr && topImpl && evid.KnownActive(pgen.ClassPtrImpl) {
				evid.Excluded(pgen.ClassPtrImpl)
				c.ByPtr = false
			}
			evid.Eval(1)
			set := map[string]bool{}
			var v reflect.Value
			pgen.Call(func() { v = pgen.Build(&c.Type, &c.Value) })
			if v.IsValid() {
				valueLabels(v, set, 0)
				if !v.IsZero() {
					vj, _ := json.Marshal(&c.Value)
					bp := []byte{0}
					if c.ByPtr {
						bp[0] = 1
					}
					evid.NonTrivial(evid.Hash(tj, vj, bp))
				} else {
					set["value.all-zero"] = true
				}
			}
			if c.ByPtr {
				set["by-pointer"] = true
			}
			for k := range tset {
				evid.Label(k)
			}
			for k := range set {
				evid.Label(k)
			}
			evid.Label("values")
			if evid.SampleWanted() {
				evid.Sample(c)
			} else {
				evid.Sample(nil)
			}
			run(rt, "RoundTrip", c)
		}
	})
}

// TestBigRepeated: values with a repeated field of 1001..3000 (thorough 5000)
// cheap elements, so that decoding grows the slice past its initial capacity
// of 10 eight or nine times. Skipped (and counted) while the class
// repeated-over-10-elements is listed.
func TestBigRepeated(t *testing.T) {
	o := genOpts()
	o.ForceBigRep = true
	evid.Check(t, "BigRepeated", 60, func(rt *rapid.T) {
		if evid.KnownActive(pgen.ClassRepOver10) {
			evid.Excluded(pgen.ClassRepOver10)
			return
		}
		c := Case{Type: pgen.GenTypeBigSlice(rt, o)}
		tj, _ := json.Marshal(&c.Type)
		for i := 0; i < 4; i++ {
			c.Value = pgen.GenValue(rt, &c.Type, o)
			c.ByPtr = pgen.Uniform(rt, "byptr", 4) == 0
			evid.Eval(1)
			set := map[string]bool{}
			typeLabels(&c.Type, set)
			var v reflect.Value
			pgen.Call(func() { v = pgen.Build(&c.Type, &c.Value) })
			if v.IsValid() {
				valueLabels(v, set, 0)
				vj, _ := json.Marshal(&c.Value)
				evid.NonTrivial(evid.Hash(tj, vj, []byte{2}))
			}
			for k := range set {
				evid.Label(k)
			}
			evid.Label("values")
			evid.Label("values.big-repeated")
			run(rt, "BigRepeated", c)
		}
	})
}

// TestReplay re-executes saved cases through the same oracle without rapid.
func TestReplay(t *testing.T) {
	files := evid.SavedReplays()
	if p := evid.ReplayFile(); p != "" {
		files = []string{p}
	}
	for _, p := range files {
		_, raw, err := evid.LoadReplayCase(p)
		if err != nil {
			t.Fatalf("replay %s: %v", p, err)
		}
		var c Case
		if err := json.Unmarshal(raw, &c); err != nil || c.Type.K == "" {
			fmt.Fprintf(os.Stderr, "replay %s: not a C03 case, skipped\n", p)
			continue
		}
		evid.Eval(1)
		run(t, "Replay", c)
	}
}

// ---------------------------------------------------------------- witnesses

func st(fields ...pgen.FieldDesc) pgen.TypeDesc {
	for i := range fields {
		if fields[i].Num == 0 {
			fields[i].Num = i + 1
		}
	}
	return pgen.TypeDesc{K: pgen.KStruct, Fields: fields}
}
func fld(t pgen.TypeDesc) pgen.FieldDesc { return pgen.FieldDesc{T: t} }
func lf(k string) pgen.TypeDesc          { return pgen.TypeDesc{K: k} }
func pt(t pgen.TypeDesc) pgen.TypeDesc   { return pgen.TypeDesc{K: pgen.KPtr, Elem: &t} }
func slc(t pgen.TypeDesc) pgen.TypeDesc  { return pgen.TypeDesc{K: pgen.KSlice, Elem: &t} }
func nm(n string) pgen.TypeDesc          { return pgen.TypeDesc{K: pgen.KNamed, Name: n} }
func rs(e ...pgen.Recipe) pgen.Recipe    { return pgen.Recipe{E: e} }
func ru(u uint64) pgen.Recipe            { return pgen.Recipe{U: u} }

// witnessCases: one concrete failing input per class.
func witnessCases() map[string]Case {
	ints := make([]pgen.Recipe, 11)
	for i := range ints {
		ints[i] = ru(uint64(i + 1))
	}
	return map[string]Case{
		// struct{P *struct{S []int}}{P: &{}}: comes back with P == nil
		pgen.ClassPtrEmpty: {Type: st(fld(pt(st(fld(slc(lf(pgen.KInt))))))), Value: rs(rs(rs(pgen.Recipe{Nil: true})))},
		// struct{A []int32} with 11 elements
		pgen.ClassRepOver10: {Type: st(fld(slc(lf(pgen.KInt32)))), Value: rs(pgen.Recipe{E: ints})},
		// struct{A []bool}{[false]} comes back [true]
		pgen.ClassBoolWZ: {Type: st(fld(slc(lf(pgen.KBool)))), Value: rs(rs(ru(0)))},
		// struct{A int; P *bool}{1, nil} comes back as {1, &false}
		pgen.ClassNilBoolPtr: {Type: st(fld(lf(pgen.KInt)), fld(pt(lf(pgen.KBool)))), Value: rs(ru(1), pgen.Recipe{Nil: true})},
		// struct{R RawMessage; A int}{R: {8,1}, A: 7}: A is lost
		pgen.ClassImplNotLast: {Type: st(fld(nm("RawMessage")), fld(lf(pgen.KInt))), Value: rs(pgen.Recipe{B: []byte{8, 1}}, ru(7))},
		// struct{A int; M *Msg}{1, &Msg{X: 5}}: Marshal panics
		pgen.ClassPtrImpl: {Type: st(fld(lf(pgen.KInt)), fld(pt(nm("Msg")))), Value: rs(ru(1), rs(rs(ru(5), pgen.Recipe{})))},
		// struct{A *uint32 `protobuf:"fixed32,1,opt"`}{&7}: the pointer slot is used as the uint32 (fatal)
		pgen.ClassFixedPtr: {Type: st(pgen.FieldDesc{Num: 1, Wire: "fixed32", T: pt(lf(pgen.KUint32))}), Value: rs(rs(ru(7)))},
		// struct{A int `1`; B int `65537`}{3, 4}: both are written as field 1, A is lost
		// struct{M map[string]string}{62-byte key: 62-byte value}: Size = 130, encoding = 131 bytes, Marshal fails
		pgen.ClassMapEntryLen: {Type: st(fld(pgen.TypeDesc{K: pgen.KMap, Key: &pgen.TypeDesc{K: pgen.KString}, Elem: &pgen.TypeDesc{K: pgen.KString}})),
			Value: rs(pgen.Recipe{K: []pgen.Recipe{{B: bytes.Repeat([]byte("k"), 62)}}, E: []pgen.Recipe{{B: bytes.Repeat([]byte("v"), 62)}}})},
		// struct{P *PTree}{&PTree{V: 1, Kids: []*PTree{{V: 2}}}}: the pointer codec of the recursive type is requested before its struct
		// codec, Kids captured wire type 0 and Unmarshal rejected Marshal's output
		"recursive-type-first-reached-through-pointer": {Type: st(fld(pt(nm("PTree")))), Value: rs(rs(rs(ru(1), rs(rs(rs(ru(2), pgen.Recipe{Nil: true}))))))},
		pgen.ClassModCollide:                           {Type: st(pgen.FieldDesc{Num: 1, Wire: "varint", T: lf(pgen.KInt)}, pgen.FieldDesc{Num: 65537, Wire: "varint", T: lf(pgen.KInt)}), Value: rs(ru(3), ru(4))},
	}
}

func witness(class string) func() *evid.Failure {
	c := witnessCases()[class]
	return func() *evid.Failure {
		if fatalClass(c) {
			payload, _ := json.Marshal(c)
			code, out, timedOut := evid.RunChild("c03case", payload, 60*time.Second)
			if code == 0 && !timedOut {
				return nil
			}
			o := string(out)
			if len(o) > 300 {
				o = o[:300]
			}
			return fail("fatal", "Marshal/Unmarshal round trip returns (child process)", fmt.Sprintf("exit %d: %s", code, o), "exit 0")
		}
		f, _ := checkCase(c, pgen.Tol{})
		return f
	}
}

func TestKnownFindings(t *testing.T) {
	var classes []evid.Class
	for name := range witnessCases() {
		classes = append(classes, evid.Class{Name: name, Witness: witness(name)})
	}
	evid.RunWitnesses(t, classes)
}
