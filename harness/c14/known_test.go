package c14

import (
	"verif/harness/evid"
)

// avoidWhileKnown: generator features left out of the C14 domain.
//
//   - multiembed, string-on-marshaler, shared-ptr-recv: the three recorded C01
//     defects (KF-C01-001..003); their effect on the bytes is the same under
//     every flag setting, so they are C01's subject and are avoided here while
//     they are listed as known there.
//   - string-on-string: a string field with the ",string" option contains JSON
//     text inside a JSON string; EscapeHTML legitimately changes that inner
//     text (\u0026 vs &) in encoding/json too, so the "same generic value"
//     relation is not defined for it (see DESIGN.md, corrections).
func avoidWhileKnown() []string {
	return []string{"multiembed", "string-on-marshaler", "shared-ptr-recv", "string-on-string", "@SE4", "@Wide"}
}

func knownClass(c Case, f *evid.Failure) string { return "" }

var classes = []evid.Class{}
