package c14

import (
	"verif/harness/evid"
)

// avoidWhileKnown: generator features left out of the C14 domain.
//
//   - string-on-string: a string field with the ",string" option contains JSON
//     text inside a JSON string; EscapeHTML legitimately changes that inner
//     text (\\u0026 vs &) in encoding/json too, so the "same generic value"
//     relation is not defined for it (see DESIGN.md, corrections).
//
// (The C01 defects that used to be avoided here - embedded depth dominance,
// string option on marshalers, struct codec shared across addressability -
// are repaired, so their shapes are generated again.)
func avoidWhileKnown() []string {
	return []string{"string-on-string"}
}

func knownClass(c Case, f *evid.Failure) string { return "" }

var classes = []evid.Class{}
