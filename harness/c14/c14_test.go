// C14 — json flags change representation or copying, never meaning.
package c14

import (
	"bytes"
	stdjson "encoding/json"
	"fmt"
	"math/big"
	"reflect"
	"strconv"
	"strings"
	"testing"

	segjson "github.com/segmentio/encoding/json"
	"pgregory.net/rapid"

	"verif/harness/evid"
	"verif/harness/jgen"
)

func TestMain(m *testing.M) { evid.Main(m, "C14") }

const (
	fEscapeHTML = uint32(segjson.EscapeHTML)
	fSortKeys   = uint32(segjson.SortMapKeys)
	fTrustRaw   = uint32(segjson.TrustRawMessage)
	fDefault    = fEscapeHTML | fSortKeys
)

// Case kinds: "append" (Type, Value, AFlags, PFlags, ByPtr, Setter) and
// "number" (Lit, PFlags).
type Case struct {
	Kind   string        `json:"kind"`
	Type   jgen.TypeDesc `json:"type,omitempty"`
	Value  jgen.Recipe   `json:"value,omitempty"`
	ByPtr  bool          `json:"by_ptr,omitempty"`
	AFlags uint32        `json:"aflags"`
	PFlags uint32        `json:"pflags"`
	Setter bool          `json:"setter,omitempty"` // go through the Encoder/Decoder setter API instead of Append/Parse
	Lit    string        `json:"lit,omitempty"`
}

func arg(c Case) (any, reflect.Value) {
	v := jgen.Build(c.Type.Type(), c.Value)
	if c.ByPtr {
		return v.Addr().Interface(), v
	}
	return v.Interface(), v
}

func encode(c Case, flags uint32) (out []byte, err error) {
	x, _ := arg(c)
	if !c.Setter {
		return segjson.Append(nil, x, segjson.AppendFlags(flags))
	}
	var buf bytes.Buffer
	e := segjson.NewEncoder(&buf)
	e.SetEscapeHTML(flags&fEscapeHTML != 0)
	e.SetSortMapKeys(flags&fSortKeys != 0)
	e.SetTrustRawMessage(flags&fTrustRaw != 0)
	e.SetAppendNewline(false)
	err = e.Encode(x)
	return buf.Bytes(), err
}

func generic(b []byte) (any, error) {
	d := stdjson.NewDecoder(bytes.NewReader(b))
	d.UseNumber()
	var v any
	if err := d.Decode(&v); err != nil {
		return nil, err
	}
	return v, nil
}

func show(b []byte) string {
	if len(b) > 300 {
		return fmt.Sprintf("%q…(%d bytes)", b[:300], len(b))
	}
	return fmt.Sprintf("%q", b)
}

func checkAppend(c Case) (f *evid.Failure, ok bool) {
	defer func() {
		if p := recover(); p != nil {
			f = &evid.Failure{Oracle: "no panic", Observed: fmt.Sprint("panic: ", p), Expected: "a result", Class: "panic"}
		}
	}()
	def, derr := encode(Case{Type: c.Type, Value: c.Value, ByPtr: c.ByPtr}, fDefault)
	out, err := encode(c, c.AFlags)
	// (1) same error presence
	if (derr == nil) != (err == nil) {
		cls := "err-missing"
		if derr == nil {
			cls = "err-spurious"
		}
		return &evid.Failure{Oracle: "Append(flags) errors exactly when Append(default flags) does", Observed: fmt.Sprintf("err=%v out=%s", err, show(out)), Expected: fmt.Sprintf("err=%v", derr), Class: cls}, false
	}
	if err != nil {
		return nil, false
	}
	// (2) valid JSON with the same generic value
	if !stdjson.Valid(out) {
		return &evid.Failure{Oracle: "output is valid JSON", Observed: show(out), Expected: "valid JSON equivalent to " + show(def), Class: "invalid-json"}, false
	}
	gv, gerr := generic(out)
	dv, _ := generic(def)
	if gerr != nil || !reflect.DeepEqual(gv, dv) {
		return &evid.Failure{Oracle: "output decodes to the same generic value as the default output", Observed: show(out), Expected: show(def), Class: "generic-value"}, false
	}
	// (2b) setter API with newline off + "\n" == default Encoder output
	// (3) EscapeHTML off + SortMapKeys on: bytes equal the standard Encoder with SetEscapeHTML(false)
	if c.AFlags&fEscapeHTML == 0 && c.AFlags&fSortKeys != 0 && c.AFlags&fTrustRaw == 0 {
		x, _ := arg(c)
		var buf bytes.Buffer
		e := stdjson.NewEncoder(&buf)
		e.SetEscapeHTML(false)
		if serr := e.Encode(x); serr == nil {
			want := bytes.TrimSuffix(buf.Bytes(), []byte("\n"))
			if !bytes.Equal(out, want) {
				return &evid.Failure{Oracle: "EscapeHTML off: bytes equal encoding/json Encoder with SetEscapeHTML(false)", Observed: show(out), Expected: show(want), Class: "nohtml-bytes"}, false
			}
		}
	}
	// (4) parse back with zero-copy / case flags: deep-equal to the original whenever encoding/json's own round trip is
	_, orig := arg(c)
	t := c.Type.Type()
	sp := reflect.New(t)
	if stdjson.Unmarshal(def, sp.Interface()) != nil || jgen.DeepEqualValues(sp.Elem(), orig, true) != "" {
		return nil, true // not round-trippable even by the reference: (4) does not apply
	}
	gp := reflect.New(t)
	in := append([]byte{}, out...)
	var rest []byte
	var perr error
	if c.Setter {
		d := segjson.NewDecoder(bytes.NewReader(in))
		if c.PFlags&uint32(segjson.DontCopyString) != 0 {
			d.DontCopyString()
		}
		if c.PFlags&uint32(segjson.DontCopyNumber) != 0 {
			d.DontCopyNumber()
		}
		if c.PFlags&uint32(segjson.DontCopyRawMessage) != 0 {
			d.DontCopyRawMessage()
		}
		if c.PFlags&uint32(segjson.DontMatchCaseInsensitiveStructFields) != 0 {
			d.DontMatchCaseInsensitiveStructFields()
		}
		perr = d.Decode(gp.Interface())
	} else {
		rest, perr = segjson.Parse(in, gp.Interface(), segjson.ParseFlags(c.PFlags))
	}
	if perr != nil || len(rest) != 0 {
		return &evid.Failure{Oracle: "Parse(output, flags) succeeds where encoding/json round-trips", Observed: fmt.Sprintf("err=%v rest=%q", perr, rest), Expected: "nil error, empty remainder", Class: "parse-back-err"}, true
	}
	if d := jgen.DeepEqualValues(gp.Elem(), orig, true); d != "" {
		return &evid.Failure{Oracle: "Parse(output, flags) restores a value deeply equal to the original", Observed: d, Expected: "equal (encoding/json round-trips this value)", Class: "parse-back-value"}, true
	}
	return nil, true
}

// ------------------------------------------------------------------ numbers in interfaces

func isIntegerLit(s string) bool { return !strings.ContainsAny(s, ".eE") }

func checkNumber(c Case) (f *evid.Failure) {
	defer func() {
		if p := recover(); p != nil {
			f = &evid.Failure{Oracle: "no panic", Observed: fmt.Sprint("panic: ", p), Expected: "a result", Class: "panic"}
		}
	}()
	lit := c.Lit
	if !stdjson.Valid([]byte(lit)) {
		return nil
	}
	var v any
	rest, err := segjson.Parse([]byte(lit), &v, segjson.ParseFlags(c.PFlags))
	wantF, ferr := strconv.ParseFloat(lit, 64)
	has := func(fl segjson.ParseFlags) bool { return c.PFlags&uint32(fl) != 0 }
	bi, isInt := new(big.Int), false
	if isIntegerLit(lit) {
		_, isInt = bi.SetString(lit, 10)
	}
	// expected dynamic type by the documented precedence
	exp := "float64"
	switch {
	case isInt && lit[0] != '-' && has(segjson.UseUint64) && bi.IsUint64():
		exp = "uint64"
	case isInt && has(segjson.UseInt64) && bi.IsInt64():
		exp = "int64"
	case isInt && has(segjson.UseBigInt):
		exp = "*big.Int"
	case has(segjson.UseNumber):
		exp = "json.Number"
	}
	if exp == "float64" && ferr != nil {
		// out of float64 range: both the flagged and the unflagged decode report an error
		if err == nil {
			return &evid.Failure{Oracle: "literal beyond float64 is an error", Observed: fmt.Sprintf("%T %v", v, v), Expected: "error", Class: "number-range"}
		}
		return nil
	}
	if err != nil || len(rest) != 0 {
		return &evid.Failure{Oracle: "number literal decodes into interface", Observed: fmt.Sprintf("err=%v rest=%q", err, rest), Expected: exp, Class: "number-err"}
	}
	got := fmt.Sprintf("%T", v)
	if got != exp {
		return &evid.Failure{Oracle: "dynamic type follows the documented precedence UseUint64 > UseInt64 > UseBigInt > UseNumber > float64", Observed: got, Expected: exp, Class: "number-type"}
	}
	okv := true
	switch x := v.(type) {
	case uint64:
		okv = bi.IsUint64() && bi.Uint64() == x
	case int64:
		okv = bi.IsInt64() && bi.Int64() == x
	case *big.Int:
		okv = x.Cmp(bi) == 0
	case stdjson.Number:
		okv = string(x) == lit
	case float64:
		okv = x == wantF || (x != x && wantF != wantF)
	}
	if !okv {
		return &evid.Failure{Oracle: "numeric value equals the literal", Observed: fmt.Sprintf("%v", v), Expected: lit, Class: "number-value"}
	}
	return nil
}

func checkCase(c Case) *evid.Failure {
	if c.Kind == "number" {
		return checkNumber(c)
	}
	f, _ := checkAppend(c)
	return f
}

// ------------------------------------------------------------------ generation

func baseAvoid() map[string]bool {
	a := map[string]bool{"duration": true}
	for _, x := range avoidWhileKnown() {
		a[x] = true
	}
	return a
}

func TestAppendFlags(t *testing.T) {
	evid.Check(t, "AppendFlags", 12000, func(rt *rapid.T) {
		rtDomain := rapid.Bool().Draw(rt, "roundtrip-domain")
		to := jgen.TypeOpts{MaxDepth: 3, Avoid: baseAvoid()}
		vo := jgen.ValOpts{Avoid: map[string]bool{"badutf8keys": true}}
		if rtDomain {
			for _, a := range []string{"raw", "any", "iface", "marshalers", "@UJ", "@UT", "@UBoth", "@SE2", "@SE4", "@SE9", "@RecA", "@Wide", "@Shape", "@Sq", "@PSq", "@KText"} {
				to.Avoid[a] = true
			}
			vo.Avoid["nan"], vo.Avoid["badnumber"], vo.Avoid["emptynumber"] = true, true, true
		}
		td := jgen.GenType(rt, to)
		typ := td.Type()
		nv := rapid.IntRange(1, 3).Draw(rt, "nvals")
		for i := 0; i < nv; i++ {
			c := Case{Kind: "append", Type: td, ByPtr: rapid.Bool().Draw(rt, "byptr")}
			c.AFlags = uint32(rapid.IntRange(0, 7).Draw(rt, "aflags"))
			c.PFlags = uint32(rapid.SampledFrom([]segjson.ParseFlags{0, segjson.DontCopyString, segjson.DontCopyNumber, segjson.DontCopyRawMessage, segjson.ZeroCopy,
				segjson.DontMatchCaseInsensitiveStructFields, segjson.ZeroCopy | segjson.DontMatchCaseInsensitiveStructFields, segjson.DontCopyString | segjson.DontMatchCaseInsensitiveStructFields}).Draw(rt, "pflags"))
			c.Setter = rapid.IntRange(0, 3).Draw(rt, "setter") == 0
			v := vo
			v.Avoid = map[string]bool{}
			for k := range vo.Avoid {
				v.Avoid[k] = true
			}
			if c.AFlags&fTrustRaw != 0 {
				v.Avoid["badraw"] = true
			}
			c.Value = jgen.GenValue(rt, typ, v)
			evid.Eval(1)
			f, parsedBack := checkAppend(c)
			evid.Label(fmt.Sprintf("aflags.%d", c.AFlags))
			if parsedBack {
				evid.Label("parse-back.checked")
				evid.Label(fmt.Sprintf("pflags.%d", c.PFlags))
			}
			if c.Setter {
				evid.Label("api.setters")
			}
			if c.AFlags != fDefault && (td.Has("map") || td.Has("raw") || td.Has("string") || td.Has("any")) {
				evid.NonTrivial(evid.HashS(td.String(), fmt.Sprintf("%+v|%d|%d|%v|%v", c.Value, c.AFlags, c.PFlags, c.ByPtr, c.Setter)))
			}
			evid.Sample(c)
			if f != nil {
				if cls := knownClass(c, f); cls != "" && evid.KnownActive(cls) {
					evid.Excluded(cls)
					continue
				}
				evid.Violation(rt, "AppendFlags", c, f)
			}
		}
	})
}

// TestMapVariants: the five specialised map types and the generic map with
// values that make the encoder fail half-way, under every flag subset.
func TestMapVariants(t *testing.T) {
	str, anyT, raw, boolT, strs := jgen.TypeDesc{K: "string"}, jgen.TypeDesc{K: "any"}, jgen.TypeDesc{K: "raw"}, jgen.TypeDesc{K: "bool"}, jgen.TypeDesc{K: "slice", Elem: &jgen.TypeDesc{K: "string"}}
	f64, num := jgen.TypeDesc{K: "float64"}, jgen.TypeDesc{K: "number"}
	elems := []*jgen.TypeDesc{&anyT, &raw, &str, &strs, &boolT, &f64, &num}
	evid.Check(t, "MapVariants", 8000, func(rt *rapid.T) {
		e := rapid.SampledFrom(elems).Draw(rt, "elem")
		td := jgen.TypeDesc{K: "map", Key: &str, Elem: e}
		if rapid.IntRange(0, 3).Draw(rt, "wrap") == 0 {
			inner := td
			td = jgen.TypeDesc{K: "struct", Fields: []jgen.FieldDesc{{Name: "A", T: jgen.TypeDesc{K: "int"}}, {Name: "M", T: inner}, {Name: "Z", T: jgen.TypeDesc{K: "string"}}}}
		}
		c := Case{Kind: "append", Type: td, AFlags: uint32(rapid.IntRange(0, 7).Draw(rt, "aflags")), ByPtr: rapid.Bool().Draw(rt, "byptr")}
		vo := jgen.ValOpts{Avoid: map[string]bool{"badutf8keys": true}}
		if c.AFlags&fTrustRaw != 0 {
			vo.Avoid["badraw"] = true
		}
		c.Value = jgen.GenValue(rt, td.Type(), vo)
		evid.Eval(1)
		evid.Label("mapvariant." + e.K)
		evid.Label(fmt.Sprintf("aflags.%d", c.AFlags))
		if c.AFlags != fDefault {
			evid.NonTrivial(evid.HashS(td.String(), fmt.Sprintf("%+v|%d", c.Value, c.AFlags)))
		}
		f, _ := checkAppend(c)
		if f != nil {
			if cls := knownClass(c, f); cls != "" && evid.KnownActive(cls) {
				evid.Excluded(cls)
				return
			}
			evid.Violation(rt, "MapVariants", c, f)
		}
	})
}

var numLits = []string{"0", "-0", "1", "-1", "127", "128", "255", "256", "9223372036854775807", "9223372036854775808", "-9223372036854775808", "-9223372036854775809", "18446744073709551615",
	"18446744073709551616", "1.0", "1e2", "1E2", "0.5", "-0.0", "1e400", "123456789012345678901234567890", "-123456789012345678901234567890", "9007199254740993", "1.5e3", "100", "0e0", "1e-400", "4294967296", "-2147483649"}

func TestNumberFlags(t *testing.T) {
	subsets := []segjson.ParseFlags{}
	all := []segjson.ParseFlags{segjson.UseNumber, segjson.UseBigInt, segjson.UseInt64, segjson.UseUint64}
	for m := 0; m < 16; m++ {
		var f segjson.ParseFlags
		for i, x := range all {
			if m&(1<<i) != 0 {
				f |= x
			}
		}
		subsets = append(subsets, f)
	}
	evid.Check(t, "NumberFlags", 10000, func(rt *rapid.T) {
		var lit string
		switch rapid.IntRange(0, 4).Draw(rt, "lk") {
		case 4:
			lit = jgen.LongIntLit(rt)
		case 0:
			lit = rapid.SampledFrom(numLits).Draw(rt, "lit")
		case 1:
			lit = strconv.FormatInt(rapid.Int64().Draw(rt, "i64"), 10)
		case 2:
			lit = strconv.FormatUint(rapid.Uint64().Draw(rt, "u64"), 10)
		default:
			lit = strconv.FormatFloat(rapid.Float64().Draw(rt, "f64"), 'g', -1, 64)
			if strings.ContainsAny(lit, "IN") {
				lit = "1.25"
			}
			lit = strings.Replace(lit, "e+", "e", 1)
		}
		for _, fl := range subsets {
			c := Case{Kind: "number", Lit: lit, PFlags: uint32(fl)}
			evid.Eval(1)
			evid.Label("number.flags")
			if fl != 0 {
				evid.NonTrivial(evid.HashS("number", lit, fmt.Sprint(fl)))
			}
			if f := checkNumber(c); f != nil {
				if cls := knownClass(c, f); cls != "" && evid.KnownActive(cls) {
					evid.Excluded(cls)
					continue
				}
				evid.Violation(rt, "NumberFlags", c, f)
			}
		}
	})
}

func TestReplay(t *testing.T) {
	files := evid.SavedReplays()
	if p := evid.ReplayFile(); p != "" {
		files = []string{p}
	}
	for _, p := range files {
		_, raw, err := evid.LoadReplayCase(p)
		if err != nil {
			t.Fatalf("replay %s: %v", p, err)
		}
		var c Case
		if err := stdjson.Unmarshal(raw, &c); err != nil || c.Kind == "" {
			continue
		}
		evid.Eval(1)
		if f := checkCase(c); f != nil {
			if cls := knownClass(c, f); cls != "" && evid.KnownActive(cls) {
				evid.Excluded(cls)
				continue
			}
			evid.Violation(t, "Replay", c, f)
		}
	}
}

func TestKnownFindings(t *testing.T) {
	cs := append([]evid.Class{}, classes...)
	for _, f := range evid.Findings() {
		if len(f.Witness) == 0 {
			continue
		}
		var c Case
		if err := stdjson.Unmarshal(f.Witness, &c); err != nil || c.Kind == "" {
			t.Errorf("finding %s: witness is not a C14 case: %v", f.ID, err)
			continue
		}
		cs = append(cs, evid.Class{Name: f.Class, Witness: func() *evid.Failure { return checkCase(c) }})
	}
	evid.RunWitnesses(t, cs)
}
