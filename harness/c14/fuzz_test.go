package c14

import (
	"bytes"
	stdjson "encoding/json"
	"testing"

	segjson "github.com/segmentio/encoding/json"

	"verif/harness/evid"
	"verif/harness/jgen"
)

// FuzzAppendFlags: coverage-guided search over generic values (decoded by encoding/json from the input) and the
// flag subsets taken from the first two input bytes; the check's own oracle. Thorough tier only.
func FuzzAppendFlags(f *testing.F) {
	for _, s := range []string{`{"b":[1,2.5e3,"x<é>  ",null,true],"a":{"k":1e21,"<":"&"}}`, `"😀\ud800\\"`, `[1e-7,123456789012345678901234567890,18446744073709551615,-9223372036854775808]`, `{"":{"":[]}}`, `"\u0000\u001f\u007f</script>"`} {
		for _, a := range []byte{0, 1, 2, 3, 4, 5, 6, 7} {
			f.Add(append([]byte{a, a * 37}, s...))
		}
	}
	pfs := []segjson.ParseFlags{0, segjson.DontCopyString, segjson.DontCopyNumber, segjson.DontCopyRawMessage, segjson.ZeroCopy, segjson.DontMatchCaseInsensitiveStructFields,
		segjson.ZeroCopy | segjson.DontMatchCaseInsensitiveStructFields, segjson.DontCopyString | segjson.DontMatchCaseInsensitiveStructFields}
	f.Fuzz(func(t *testing.T, data []byte) {
		if len(data) < 3 || len(data) > 1<<14 {
			return
		}
		d := stdjson.NewDecoder(bytes.NewReader(data[2:]))
		// no UseNumber: a json.Number held in an interface is not restored by a parse without that flag
		var v any
		if err := d.Decode(&v); err != nil {
			return
		}
		c := Case{Kind: "append", Type: jgen.TypeDesc{K: "any"}, Value: jgen.RecipeOfAny(v), AFlags: uint32(data[0] & 7), ByPtr: data[0]&8 != 0, Setter: data[0]&16 != 0}
		c.PFlags = uint32(pfs[int(data[1]&7)])
		if fl := checkCase(c); fl != nil {
			if cls := knownClass(c, fl); cls != "" && evid.KnownActive(cls) {
				return
			}
			evid.Violation(t, "FuzzAppendFlags", c, fl)
		}
	})
}
