// C11 — json.Decoder yields the same value stream however the bytes arrive.
package c11

import (
	"bytes"
	stdjson "encoding/json"
	"errors"
	"fmt"
	"io"
	"strings"
	"testing"

	segjson "github.com/segmentio/encoding/json"
	"pgregory.net/rapid"

	"verif/harness/evid"
	"verif/harness/jgen"
)

func TestMain(m *testing.M) { evid.Main(m, "C11") }

// Case: a stream of values (Vals[i] preceded by Gaps[i] whitespace bytes,
// Tail whitespace at the end), a chunk schedule and a terminal reader error.
type Case struct {
	Vals    [][]byte `json:"vals"`
	Gaps    []string `json:"gaps"` // whitespace before each value (run-length encoded: "<byte>*<n>|...")
	Tail    string   `json:"tail"`
	Chunks  []int    `json:"chunks"`             // sizes of successive reads (cycled); 0 = zero-length read
	ErrAt   int      `json:"err_at"`             // offset at which the reader fails; -1: io.EOF at the end of the stream
	ErrKind string   `json:"err_kind,omitempty"` // eof | unexpected | custom
	WithErr bool     `json:"data_with_err,omitempty"`
	Mode    string   `json:"mode"`               // raw | any
	BufStep int      `json:"buf_step,omitempty"` // check Buffered() after this many successful Decodes (0 = never)
}

var errCustom = errors.New("c11: injected reader failure")

func rle(s string) string {
	var sb strings.Builder
	for i := 0; i < len(s); {
		j := i
		for j < len(s) && s[j] == s[i] {
			j++
		}
		fmt.Fprintf(&sb, "%d*%d|", s[i], j-i)
		i = j
	}
	return sb.String()
}

func unrle(s string) []byte {
	var out []byte
	for _, part := range strings.Split(s, "|") {
		var c, n int
		if _, err := fmt.Sscanf(part, "%d*%d", &c, &n); err == nil {
			out = append(out, bytes.Repeat([]byte{byte(c)}, n)...)
		}
	}
	return out
}

type layout struct {
	stream []byte
	start  []int
	end    []int
}

func build(c Case) layout {
	var l layout
	for i, v := range c.Vals {
		l.stream = append(l.stream, unrle(c.Gaps[i])...)
		l.start = append(l.start, len(l.stream))
		l.stream = append(l.stream, v...)
		l.end = append(l.end, len(l.stream))
	}
	l.stream = append(l.stream, unrle(c.Tail)...)
	return l
}

// schedReader delivers data in the scheduled chunk sizes and then fails with err.
type schedReader struct {
	data    []byte
	pos     int
	chunks  []int
	ci      int
	err     error
	withErr bool
	done    bool
}

func (r *schedReader) Read(p []byte) (int, error) {
	if r.done {
		return 0, r.err
	}
	if r.pos >= len(r.data) {
		r.done = true
		return 0, r.err
	}
	n := 1 << 30
	if len(r.chunks) > 0 {
		n = r.chunks[r.ci%len(r.chunks)]
		r.ci++
	}
	if n > len(p) {
		n = len(p)
	}
	if n > len(r.data)-r.pos {
		n = len(r.data) - r.pos
	}
	copy(p, r.data[r.pos:r.pos+n])
	r.pos += n
	if r.pos >= len(r.data) && r.withErr && n > 0 {
		r.done = true
		return n, r.err
	}
	return n, nil
}

func readerErr(kind string) error {
	switch kind {
	case "unexpected":
		return io.ErrUnexpectedEOF
	case "custom":
		return errCustom
	}
	return io.EOF
}

type val struct {
	raw string
}

func stdValues(data []byte, mode string) (vals []string, final error) {
	d := stdjson.NewDecoder(bytes.NewReader(data))
	d.UseNumber()
	for {
		if mode == "raw" {
			var r stdjson.RawMessage
			if err := d.Decode(&r); err != nil {
				return vals, err
			}
			vals = append(vals, string(r))
		} else {
			var v any
			if err := d.Decode(&v); err != nil {
				return vals, err
			}
			b, _ := stdjson.Marshal(v)
			vals = append(vals, string(b))
		}
		if len(vals) > len(data)+2 {
			return vals, errors.New("reference does not terminate")
		}
	}
}

func fail(oracle, obs, exp, cls string) *evid.Failure {
	return &evid.Failure{Oracle: oracle, Observed: obs, Expected: exp, Class: cls}
}

func short(s string) string {
	if len(s) > 80 {
		return fmt.Sprintf("%s…(%d bytes)", s[:80], len(s))
	}
	return s
}

func checkCase(c Case) (f *evid.Failure) {
	defer func() {
		if p := recover(); p != nil {
			f = fail("Decoder must not panic", fmt.Sprint("panic: ", p), "values / error", "panic")
		}
	}()
	l := build(c)
	delivered := l.stream
	rerr := io.EOF
	if c.ErrAt >= 0 && c.ErrAt <= len(l.stream) {
		delivered = l.stream[:c.ErrAt]
		rerr = readerErr(c.ErrKind)
	}
	want, wfinal := stdValues(delivered, c.Mode)

	rd := &schedReader{data: delivered, chunks: c.Chunks, err: rerr, withErr: c.WithErr}
	d := segjson.NewDecoder(rd)
	d.UseNumber()
	var got []string
	var gfinal error
	// the RawMessage values as handed out (not copied by the harness): "yields exactly the values"
	// is re-examined once the whole stream has been consumed, after the Decoder has refilled,
	// compacted and grown its buffer any number of times
	var held []segjson.RawMessage
	defer func() {
		if f != nil {
			return
		}
		for i, r := range held {
			if i < len(want) && string(r) != want[i] {
				f = fail("values are those encoding/json yields for the same bytes (re-read after the later Decode calls)", fmt.Sprintf("value #%d is now %q", i, short(string(r))), fmt.Sprintf("%q", short(want[i])), "value-changed-later")
				return
			}
		}
	}()
	prevOff := int64(0)
	for {
		var s string
		if c.Mode == "raw" {
			var r segjson.RawMessage
			if gfinal = d.Decode(&r); gfinal != nil {
				break
			}
			s = string(r)
			held = append(held, r)
		} else {
			var v any
			if gfinal = d.Decode(&v); gfinal != nil {
				break
			}
			b, _ := stdjson.Marshal(v)
			s = string(b)
		}
		got = append(got, s)
		i := len(got) - 1
		if i >= len(want) {
			return fail("values are those encoding/json yields for the same bytes", fmt.Sprintf("extra value #%d %q", i, short(s)), fmt.Sprintf("%d values", len(want)), "extra-value")
		}
		if s != want[i] {
			return fail("values are those encoding/json yields for the same bytes", fmt.Sprintf("value #%d %q", i, short(s)), fmt.Sprintf("%q", short(want[i])), "value-mismatch")
		}
		// InputOffset: non-decreasing, between the end of this value and the start of the next
		off := d.InputOffset()
		if off < prevOff {
			return fail("InputOffset never decreases", fmt.Sprint(off), fmt.Sprint(">= ", prevOff), "offset-decreases")
		}
		prevOff = off
		if i < len(l.end) {
			lo := int64(l.end[i])
			hi := int64(len(l.stream))
			if i+1 < len(l.start) {
				hi = int64(l.start[i+1])
			}
			if hi > int64(len(delivered)) {
				hi = int64(len(delivered))
			}
			if lo <= hi && (off < lo || off > hi) {
				return fail("InputOffset after a Decode lies between the end of the value returned and the start of the next", fmt.Sprintf("value #%d: offset %d", i, off), fmt.Sprintf("[%d,%d]", lo, hi), "offset-range")
			}
		}
		if c.BufStep == len(got) && c.ErrAt < 0 {
			b, _ := io.ReadAll(d.Buffered())
			restAll := append(append([]byte{}, b...), delivered[rd.pos:]...)
			o := len(delivered) - len(restAll)
			lo, hi := l.end[i], len(l.stream)
			if i+1 < len(l.start) {
				hi = l.start[i+1]
			}
			if o < lo || o > hi || !bytes.Equal(restAll, delivered[o:]) {
				return fail("Buffered() followed by the unread remainder of the reader equals the unconsumed input", fmt.Sprintf("after value #%d: %d buffered + %d unread = input[%d:] ? %v", i, len(b), len(delivered)-rd.pos, o, o >= 0 && o <= len(delivered) && bytes.Equal(restAll, delivered[max(o, 0):])), fmt.Sprintf("input[o:] for o in [%d,%d]", lo, hi), "buffered")
			}
		}
		if len(got) > len(delivered)+2 {
			return fail("Decoder terminates", "more values than bytes", "termination", "no-termination")
		}
	}
	// after the terminal error as well, nothing the Decoder has read is lost: what Buffered returns followed by
	// what the reader has not delivered is the input from some point between the end of the last value returned
	// and the start of the value that could not be completed
	if gfinal != io.EOF {
		buffered, _ := io.ReadAll(d.Buffered())
		restAll := append(append([]byte{}, buffered...), delivered[rd.pos:]...)
		o := len(delivered) - len(restAll)
		lo, hi := 0, len(delivered)
		if n := len(got); n > 0 && n-1 < len(l.end) {
			lo = l.end[n-1]
		}
		if n := len(got); n < len(l.start) {
			hi = l.start[n]
		}
		if hi > len(delivered) {
			hi = len(delivered)
		}
		if lo <= hi && (o < lo || o > hi || !bytes.Equal(restAll, delivered[o:])) {
			return fail("Buffered() followed by the unread remainder of the reader equals the unconsumed input (after the terminal error)", fmt.Sprintf("after %d values and %v: %d buffered + %d unread = input[%d:]", len(got), gfinal, len(buffered), len(delivered)-rd.pos, o), fmt.Sprintf("input[o:] for o in [%d,%d]", lo, hi), "buffered-after-error")
		}
	}
	if rerr == io.EOF {
		if len(got) != len(want) {
			return fail("all the values encoding/json yields are returned when the reader ends with io.EOF", fmt.Sprintf("%d values then %v", len(got), gfinal), fmt.Sprintf("%d values then %v", len(want), wfinal), "missing-value")
		}
		if (wfinal == io.EOF) != (gfinal == io.EOF) {
			return fail("io.EOF at a clean end of input, another error when the stream ends inside a value", fmt.Sprint(gfinal), fmt.Sprint(wfinal), "final-error")
		}
		return nil
	}
	// reader failed with rerr: a prefix of the values (checked above), then the reader's error
	if gfinal == io.EOF || !errors.Is(gfinal, rerr) {
		// a syntax error inside the delivered bytes cannot happen: the stream is made of valid values
		return fail("after a reader failure the final error is the reader's error (never io.EOF)", fmt.Sprint(gfinal), rerr.Error(), "reader-error-lost")
	}
	return nil
}

func checkParse(c Case) (f *evid.Failure) {
	defer func() {
		if p := recover(); p != nil {
			f = fail("Parse must not panic", fmt.Sprint("panic: ", p), "a remainder", "panic")
		}
	}()
	l := build(c)
	if len(l.start) == 0 {
		return nil
	}
	var v segjson.RawMessage
	in := append([]byte{}, l.stream...)
	rest, err := segjson.Parse(in, &v, 0)
	if err != nil {
		return fail("Parse of a stream of valid values succeeds on the first", err.Error(), "nil", "parse-error")
	}
	next := len(l.stream)
	if len(l.start) > 1 {
		next = l.start[1]
	}
	if !bytes.Equal(rest, l.stream[next:]) || string(v) != string(c.Vals[0]) {
		return fail("Parse returns as remainder exactly the bytes after the first value and its trailing whitespace", fmt.Sprintf("value %q, %d bytes left", short(string(v)), len(rest)), fmt.Sprintf("value %q, %d bytes left", short(string(c.Vals[0])), len(l.stream)-next), "parse-remainder")
	}
	// the remainder does not depend on what the value is decoded into: a typed target that the (valid)
	// first value does not fit - reported as an error, or not - leaves the same bytes
	for _, tgt := range mismatchTargets(c.Vals[0]) {
		in := append([]byte{}, l.stream...)
		rest, err := segjson.Parse(in, tgt, 0)
		if !bytes.Equal(rest, l.stream[next:]) {
			return fail("Parse returns as remainder exactly the bytes after the first value and its trailing whitespace (typed target the value does not fit)", fmt.Sprintf("into %T: err=%v, %d bytes left", tgt, err, len(rest)), fmt.Sprintf("%d bytes left", len(l.stream)-next), "parse-remainder-mismatch")
		}
	}
	return nil
}

// mismatchTargets returns fresh typed targets for a valid value, most of which it does not fit.
func mismatchTargets(val []byte) []any {
	type S struct {
		A int
		B string
	}
	switch val[0] {
	case '"':
		return []any{new(int), new([]int), new(S), new(bool)}
	case '{':
		return []any{new(int), new([]int), new(string), new(map[string]string), new(S)}
	case '[':
		return []any{new(int), new(map[string]int), new(string), new(S), new([]string), new([2]bool)}
	case 't', 'f':
		return []any{new(int), new(string), new([]int), new(S)}
	case 'n':
		return []any{new(int), new(S)}
	default:
		return []any{new(string), new(bool), new([]int), new(S), new(uint8)}
	}
}

// ------------------------------------------------------------------ generation

var wsBytes = []byte{' ', '\n', '\t', '\r'}

func genValue(rt *rapid.T) []byte {
	switch rapid.IntRange(0, 19).Draw(rt, "vk") {
	case 0, 1, 2:
		return []byte(rapid.SampledFrom([]string{"0", "-1", "12", "1.5", "1e5", "123456789", "-0.25", "18446744073709551615", "1e-7", "3.14159265358979"}).Draw(rt, "num"))
	case 3:
		// a long number
		n := rapid.IntRange(10, 60).Draw(rt, "numlen")
		return []byte("1" + strings.Repeat("7", n))
	case 4, 5:
		return []byte(rapid.SampledFrom([]string{"true", "false", "null"}).Draw(rt, "lit"))
	case 6, 7, 8:
		return []byte(jgen.GenStringLit(rt))
	case 9:
		// big string: larger than the read quantum / the initial buffer / its double
		n := rapid.SampledFrom([]int{4000, 4096, 5000, 32700, 32768, 33000, 65536, 70000}).Draw(rt, "biglen") + rapid.IntRange(-3, 3).Draw(rt, "bigd")
		return []byte(`"` + strings.Repeat("s", n) + `"`)
	case 11:
		if rapid.IntRange(0, 199).Draw(rt, "deep") == 100 {
			// nesting at and just below the limit both libraries enforce (10000): ~20-70 KB values
			d := rapid.SampledFrom([]int{9999, 10000, 10000}).Draw(rt, "deepd")
			switch rapid.IntRange(0, 2).Draw(rt, "deepshape") {
			case 0:
				return []byte(strings.Repeat("[", d) + strings.Repeat("]", d))
			case 1:
				return []byte(strings.Repeat(`{"a":`, d-1) + `{}` + strings.Repeat("}", d-1))
			default:
				return []byte(strings.Repeat(`[{"k":`, d/2) + `1` + strings.Repeat("}]", d/2))
			}
		}
		return bytes.TrimSpace(jgen.GenDocument(rt, rapid.IntRange(0, 3).Draw(rt, "depth")))
	case 10:
		n := rapid.IntRange(100, 9000).Draw(rt, "arrn")
		var sb strings.Builder
		sb.WriteByte('[')
		for i := 0; i < n; i++ {
			if i > 0 {
				sb.WriteByte(',')
			}
			fmt.Fprintf(&sb, "%d", i*37)
		}
		sb.WriteByte(']')
		return []byte(sb.String())
	default:
		return bytes.TrimSpace(jgen.GenDocument(rt, rapid.IntRange(0, 3).Draw(rt, "depth")))
	}
}

func isNumStart(b byte) bool { return b == '-' || (b >= '0' && b <= '9') }
func isNumTail(b byte) bool {
	return (b >= '0' && b <= '9') || b == '.' || b == 'e' || b == 'E' || b == '+' || b == '-'
}

func genCase(rt *rapid.T) (Case, layout, []string) {
	var c Case
	var labels []string
	n := rapid.IntRange(1, 12).Draw(rt, "nvals")
	if rapid.IntRange(0, 9).Draw(rt, "many") == 0 {
		n = rapid.IntRange(13, 200).Draw(rt, "nvals2")
	}
	gaps := make([][]byte, n)
	for i := 0; i < n; i++ {
		v := genValue(rt)
		c.Vals = append(c.Vals, v)
		g := rapid.IntRange(0, 3).Draw(rt, "gap")
		if g == 3 {
			g = rapid.IntRange(4, 40).Draw(rt, "gap2")
		}
		if i > 0 {
			prev := c.Vals[i-1]
			pl := prev[len(prev)-1]
			// whitespace is required where the two tokens would otherwise merge or be misread
			if g == 0 && (isNumTail(pl) || pl == 'e' || pl == 'l') && (isNumStart(v[0]) || isNumTail(v[0]) || v[0] == 't' || v[0] == 'f' || v[0] == 'n') {
				g = 1
			}
		}
		gaps[i] = make([]byte, g)
		for k := range gaps[i] {
			gaps[i][k] = rapid.SampledFrom(wsBytes).Draw(rt, "ws")
		}
	}
	// boundary aiming: pad the gap before value j so that it starts / ends / straddles a buffer boundary
	if rapid.IntRange(0, 9).Draw(rt, "aim") < 7 {
		j := rapid.IntRange(0, n-1).Draw(rt, "aimj")
		pos := 0
		for i := 0; i < j; i++ {
			pos += len(gaps[i]) + len(c.Vals[i])
		}
		pos += len(gaps[j])
		bases := []int{4096, 8192, 32768, 32768 + 4096, 65536, 36864, 131072}
		base := rapid.SampledFrom(bases).Draw(rt, "aimbase")
		for base < pos+2 {
			base += 32768
		}
		vl := len(c.Vals[j])
		var target int // desired start offset of value j
		switch rapid.IntRange(0, 4).Draw(rt, "aimkind") {
		case 0: // starts exactly at the boundary
			target = base
			labels = append(labels, "aim.starts-at-boundary")
		case 1: // ends exactly at the boundary
			target = base - vl
			labels = append(labels, "aim.ends-at-boundary")
		case 2: // straddles
			target = base - rapid.IntRange(1, max(vl-1, 1)).Draw(rt, "aimoff")
			labels = append(labels, "aim.straddles-boundary")
		case 3: // near
			target = base + rapid.IntRange(-12, 12).Draw(rt, "aimdelta")
			labels = append(labels, "aim.near-boundary")
		default: // whitespace run filling a whole buffer before the value
			target = pos + rapid.SampledFrom([]int{32768, 32769, 40000, 70000, 4096}).Draw(rt, "wsrun")
			labels = append(labels, "aim.whitespace-fills-buffer")
		}
		if target > pos {
			pad := bytes.Repeat([]byte{rapid.SampledFrom(wsBytes).Draw(rt, "padws")}, target-pos)
			gaps[j] = append(gaps[j], pad...)
		}
		if isNumStart(c.Vals[j][0]) {
			labels = append(labels, "aim.number")
		}
	}
	for i := range gaps {
		c.Gaps = append(c.Gaps, rle(string(gaps[i])))
	}
	tl := rapid.IntRange(0, 3).Draw(rt, "tail")
	c.Tail = rle(strings.Repeat("\n", tl))
	// schedule
	ns := rapid.IntRange(0, 6).Draw(rt, "nchunks")
	for i := 0; i < ns; i++ {
		c.Chunks = append(c.Chunks, rapid.SampledFrom([]int{0, 1, 1, 2, 3, 7, 100, 4095, 4096, 4097, 32767, 32768, 1 << 20, 13, 1000}).Draw(rt, "chunk"))
	}
	allZero := len(c.Chunks) > 0
	for _, x := range c.Chunks {
		if x != 0 {
			allZero = false
		}
	}
	if allZero {
		c.Chunks = append(c.Chunks, 5)
	}
	// at most 3 consecutive zero-length reads
	z := 0
	for i, x := range c.Chunks {
		if x == 0 {
			if z++; z > 3 {
				c.Chunks[i] = 1
				z = 0
			}
		} else {
			z = 0
		}
	}
	c.Mode = rapid.SampledFrom([]string{"raw", "raw", "any"}).Draw(rt, "mode")
	l := build(c)
	c.ErrAt = -1
	if rapid.IntRange(0, 2).Draw(rt, "fault") == 0 {
		c.ErrAt = rapid.IntRange(0, len(l.stream)).Draw(rt, "errat")
		if rapid.Bool().Draw(rt, "errinside") && len(l.start) > 0 {
			k := rapid.IntRange(0, len(l.start)-1).Draw(rt, "errval")
			c.ErrAt = rapid.IntRange(l.start[k], l.end[k]).Draw(rt, "errpos")
		}
		c.ErrKind = rapid.SampledFrom([]string{"eof", "custom", "custom", "unexpected"}).Draw(rt, "errkind")
		labels = append(labels, "fault."+c.ErrKind)
	}
	c.WithErr = rapid.Bool().Draw(rt, "witherr")
	if c.WithErr {
		labels = append(labels, "reader.data-with-error")
	}
	if rapid.Bool().Draw(rt, "bufcheck") {
		c.BufStep = rapid.IntRange(1, n).Draw(rt, "bufstep")
	}
	return c, l, labels
}

func straddles(l layout, chunks []int) bool {
	// a value crosses a 4096-byte read boundary of the decoder's buffer
	for i := range l.start {
		if l.start[i]/4096 != (l.end[i]-1)/4096 {
			return true
		}
	}
	return false
}

func TestStreams(t *testing.T) {
	evid.Check(t, "Streams", 5000, func(rt *rapid.T) {
		c, l, labels := genCase(rt)
		evid.Eval(1)
		for _, lb := range labels {
			evid.Label(lb)
		}
		evid.Label("mode." + c.Mode)
		if len(c.Vals) >= 2 && straddles(l, c.Chunks) {
			evid.Label("stream.value-straddles-read-boundary")
			evid.NonTrivial(evid.Hash(l.stream, []byte(fmt.Sprint(c.Chunks, c.ErrAt, c.ErrKind, c.WithErr, c.Mode))))
		}
		if len(l.stream) > 32768 {
			evid.Label("stream.longer-than-initial-buffer")
		}
		if len(l.stream) > 65536 {
			evid.Label("stream.longer-than-64KiB")
		}
		if evid.SampleWanted() {
			sc := c
			if len(l.stream) > 600 {
				sc.Vals = [][]byte{[]byte(fmt.Sprintf("(%d values, %d bytes: omitted)", len(c.Vals), len(l.stream)))}
				sc.Gaps = nil
			}
			evid.Sample(sc)
		}
		if f := checkCase(c); f != nil {
			if cls := knownClass(c, f); cls != "" && evid.KnownActive(cls) {
				evid.Excluded(cls)
				return
			}
			evid.Violation(rt, "Streams", c, f)
		}
		if f := checkParse(c); f != nil {
			evid.Violation(rt, "Streams", c, f)
		}
	})
}

func TestReplay(t *testing.T) {
	files := evid.SavedReplays()
	if p := evid.ReplayFile(); p != "" {
		files = []string{p}
	}
	for _, p := range files {
		_, raw, err := evid.LoadReplayCase(p)
		if err != nil {
			t.Fatalf("replay %s: %v", p, err)
		}
		var rc RemCase
		if err := stdjson.Unmarshal(raw, &rc); err == nil && rc.Kind == "remainder" {
			evid.Eval(1)
			if f := checkRemainder(rc); f != nil {
				evid.Violation(t, "Replay", rc, f)
			}
			continue
		}
		var c Case
		if err := stdjson.Unmarshal(raw, &c); err != nil || c.Mode == "" {
			continue
		}
		evid.Eval(1)
		f := checkCase(c)
		if f == nil {
			f = checkParse(c)
		}
		if f != nil {
			if cls := knownClass(c, f); cls != "" && evid.KnownActive(cls) {
				evid.Excluded(cls)
				continue
			}
			evid.Violation(t, "Replay", c, f)
		}
	}
}

func TestKnownFindings(t *testing.T) {
	cs := append([]evid.Class{}, classes...)
	for _, f := range evid.Findings() {
		if len(f.Witness) == 0 {
			continue
		}
		var rc RemCase
		if err := stdjson.Unmarshal(f.Witness, &rc); err == nil && rc.Kind == "remainder" {
			cs = append(cs, evid.Class{Name: f.Class, Witness: func() *evid.Failure { return checkRemainder(rc) }})
			continue
		}
		var c Case
		if err := stdjson.Unmarshal(f.Witness, &c); err != nil || c.Mode == "" {
			t.Errorf("finding %s: witness is not a C11 case: %v", f.ID, err)
			continue
		}
		cs = append(cs, evid.Class{Name: f.Class, Witness: func() *evid.Failure {
			if f := checkCase(c); f != nil {
				return f
			}
			return checkParse(c)
		}})
	}
	evid.RunWitnesses(t, cs)
}
