package c11

import (
	"bytes"
	stdjson "encoding/json"
	"fmt"
	"reflect"
	"strings"
	"testing"

	segjson "github.com/segmentio/encoding/json"
	"pgregory.net/rapid"
	"verif/harness/evid"
	"verif/harness/jgen"
)

// RemCase: the remainder clause of the property for typed targets. The first
// value of the input is well formed (encoding/json.Valid says so); whether or
// not it fits the target - Parse succeeds, or reports that it does not - what
// Parse returns is the input after that value and the whitespace following it.
type RemCase struct {
	Kind string        `json:"kind"` // "remainder"
	Type jgen.TypeDesc `json:"type"`
	Lead string        `json:"lead"`
	Doc  []byte        `json:"doc"`
	Gap  string        `json:"gap"`
	Tail []byte        `json:"tail"`
}

func checkRemainder(c RemCase) (f *evid.Failure) {
	defer func() {
		if p := recover(); p != nil {
			f = fail("Parse must not panic", fmt.Sprint("panic: ", p), "a remainder", "panic")
		}
	}()
	in := append(append(append([]byte(c.Lead), c.Doc...), c.Gap...), c.Tail...)
	tgt := reflect.New(c.Type.Type()).Interface()
	rest, err := segjson.Parse(in, tgt, 0)
	if !bytes.Equal(rest, c.Tail) {
		return fail("Parse returns as remainder exactly the bytes after the first value and its trailing whitespace (typed target)", fmt.Sprintf("into %T: err=%v, remainder %q", tgt, err, short(string(rest))), fmt.Sprintf("remainder %q", short(string(c.Tail))), "parse-remainder-typed")
	}
	return nil
}

var remTails = []string{"", "", "7", `"x"`, "{}", "[1]", "null", "]", "}", ",", "x", "\x00"}

func TestParseRemainder(t *testing.T) {
	to := jgen.TypeOpts{MaxDepth: 3, Avoid: map[string]bool{"duration": true}}
	evid.Check(t, "ParseRemainder", 6000, func(rt *rapid.T) {
		td := jgen.GenType(rt, to)
		typ := td.Type()
		n := rapid.IntRange(1, 4).Draw(rt, "ndocs")
		for i := 0; i < n; i++ {
			var doc []byte
			kind := "directed"
			if rapid.IntRange(0, 3).Draw(rt, "dockind") == 0 {
				doc, kind = jgen.GenDocument(rt, 3), "generic"
			} else {
				doc = jgen.GenDocFor(rt, typ, jgen.DocOpts{})
			}
			doc = bytes.TrimSpace(doc)
			if !stdjson.Valid(doc) {
				// the clause is about a first value that exists
				evid.Label("remainder.skipped-not-a-value")
				continue
			}
			c := RemCase{Kind: "remainder", Type: td, Doc: doc}
			c.Lead = strings.Repeat(string(rapid.SampledFrom(wsBytes).Draw(rt, "leadws")), rapid.IntRange(0, 2).Draw(rt, "lead"))
			c.Tail = []byte(rapid.SampledFrom(remTails).Draw(rt, "tail"))
			g := rapid.IntRange(0, 3).Draw(rt, "gap")
			if g == 0 && len(c.Tail) > 0 && (isNumTail(doc[len(doc)-1]) || doc[len(doc)-1] == 'e' || doc[len(doc)-1] == 'l') {
				g = 1 // a scalar and the next token must not merge
			}
			c.Gap = strings.Repeat(string(rapid.SampledFrom(wsBytes).Draw(rt, "gapws")), g)
			evid.Eval(1)
			tgt := reflect.New(typ).Interface()
			fits := stdjson.Unmarshal(doc, tgt) == nil
			evid.Label("remainder." + kind + map[bool]string{true: ".fits", false: ".does-not-fit"}[fits])
			if !fits {
				evid.NonTrivial(evid.Hash(doc, []byte(td.String()), c.Tail))
			}
			if evid.SampleWanted() && len(doc) < 300 {
				evid.Sample(c)
			}
			if f := checkRemainder(c); f != nil {
				evid.Violation(rt, "ParseRemainder", c, f)
			}
		}
	})
}
