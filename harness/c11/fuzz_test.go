package c11

import (
	"bytes"
	stdjson "encoding/json"
	"io"
	"strings"
	"testing"

	"verif/harness/evid"
)

// FuzzStreams: coverage-guided search over value streams. The first six input bytes choose the read schedule, the
// reader fault, the decode mode and an optional large first value that pushes the rest of the stream across the
// Decoder's buffer boundaries; the rest of the input must be a sequence of JSON values separated by white space
// (anything else is outside the property's domain and skipped). The check's own oracle. Thorough tier only.
func FuzzStreams(f *testing.F) {
	for _, s := range []string{`{"a":[1,2.5e3,"x\"y"]} 12 "s" null [true,false] -0.5e-3`, "1\n2\n3\n", `"\\\"" "é" 1e5 {}`, `[[[]]] {"k":{"k":{}}} 0`, "  7  ", `-1 -2 -3 false`} {
		for h := byte(0); h < 12; h++ {
			f.Add(append([]byte{h, h * 7, h * 13, h * 31, h, h * 5}, s...))
		}
	}
	sizes := []int{1, 2, 3, 7, 64, 4095, 4096, 4097, 32767, 32768, 65536, 0}
	pads := []int{0, 0, 4080, 32740, 65500, 32768 - 16, 4096 - 16}
	f.Fuzz(func(t *testing.T, data []byte) {
		if len(data) < 7 || len(data) > 1<<13 {
			return
		}
		h, body := data[:6], data[6:]
		var c Case
		if p := pads[int(h[0])%len(pads)]; p > 0 {
			c.Vals = append(c.Vals, []byte(`"`+strings.Repeat("x", p+int(h[1]%32))+`"`))
			c.Gaps = append(c.Gaps, "")
		}
		d := stdjson.NewDecoder(bytes.NewReader(body))
		prev := 0
		for {
			var raw stdjson.RawMessage
			err := d.Decode(&raw)
			if err == io.EOF {
				break
			}
			if err != nil || len(c.Vals) > 200 {
				return
			}
			end := int(d.InputOffset())
			start := end - len(raw)
			if start < prev || !bytes.Equal(body[start:end], raw) {
				return
			}
			c.Gaps = append(c.Gaps, rle(string(body[prev:start])))
			c.Vals = append(c.Vals, append([]byte{}, raw...))
			prev = end
		}
		if len(c.Vals) == 0 || strings.Trim(string(body[prev:]), " \t\r\n") != "" {
			return
		}
		c.Tail = rle(string(body[prev:]))
		c.Chunks = []int{sizes[int(h[2])%len(sizes)], sizes[int(h[3])%len(sizes)], sizes[int(h[2]>>4)%len(sizes)]}
		if c.Chunks[0] == 0 && c.Chunks[1] == 0 && c.Chunks[2] == 0 {
			c.Chunks[2] = 1 // a reader that never makes progress is outside the domain
		}
		c.ErrAt = -1
		c.Mode = []string{"raw", "any"}[int(h[4])%2]
		total := len(build(c).stream)
		switch (h[4] >> 1) % 4 {
		case 1:
			c.ErrAt, c.ErrKind = int(h[5])*total/255, "custom"
		case 2:
			c.ErrAt, c.ErrKind = int(h[5])*total/255, "unexpected"
			c.WithErr = h[4]&0x40 != 0
		case 3:
			c.BufStep = 1 + int(h[5])%len(c.Vals)
		}
		if fl := checkCase(c); fl != nil {
			evid.Violation(t, "FuzzStreams", c, fl)
		}
	})
}
