// C04 — thrift: Unmarshal(Marshal(v)) == v for the binary (strict and
// non-strict) and compact protocols; a reused Encoder/Decoder (Reset) behaves
// like a fresh one; the protocols decode each other's logical content to the
// same value. DESIGN.md §4 C04.
package c04

import (
	"bytes"
	"encoding/json"
	"fmt"
	"os"
	"reflect"
	"strings"
	"testing"

	"github.com/segmentio/encoding/thrift"
	"pgregory.net/rapid"

	"verif/harness/evid"
	"verif/harness/tgen"
	"verif/harness/thriftspec"
)

func TestMain(m *testing.M) { evid.Main(m, "C04") }

// Case is the replayable unit: one struct type, 2..5 values of it, and the
// protocol schedule of the Reset chain.
type Case struct {
	T      tgen.TypeDesc `json:"type"`
	Vals   []tgen.Recipe `json:"vals"`
	Protos []int         `json:"protos"` // protocol (0 binary strict, 1 binary non-strict, 2 compact) of value i in the Reset chain
	Init   int           `json:"init"`   // protocol the reused Encoder/Decoder are created with
	ByPtr  bool          `json:"by_ptr"` // pass *T instead of T to Marshal / Encode
	// how the bytes reach the Decoders (index into tgen.DeliveryModes; Chunks for the chunked modes)
	Deliver int    `json:"deliver,omitempty"`
	Chunks  []int  `json:"chunks,omitempty"`
	Big     string `json:"big,omitempty"` // label of a tgen.BigSpec case (collection of more than 1024 elements)
}

var protoNames = []string{"binary-strict", "binary-nonstrict", "compact"}

func proto(i int) thrift.Protocol { return tgen.Protocol(thriftspec.Proto(i % 3)) }

const (
	classWideIDs    = "thrift-decode-id-range-beyond-bitmap"
	classUnionInMap = "thrift-union-in-map-value-aliases-temp"
)

// guard runs f and turns a panic into a Failure of class "panic".
func guard(where string, f func() *evid.Failure) (fail *evid.Failure) {
	defer func() {
		if r := recover(); r != nil {
			fail = &evid.Failure{Oracle: "no panic (" + where + ")", Observed: fmt.Sprintf("panic: %v", r), Expected: "returns", Class: "panic"}
		}
	}()
	return f()
}

func fail(class, oracle, obs, exp string) *evid.Failure {
	if len(obs) > 700 {
		obs = obs[:700] + "…"
	}
	if len(exp) > 700 {
		exp = exp[:700] + "…"
	}
	return &evid.Failure{Oracle: oracle, Observed: obs, Expected: exp, Class: class}
}

func checkCase(c Case) *evid.Failure {
	if len(c.Vals) == 0 {
		return &evid.Failure{Oracle: "harness", Observed: "case without values"}
	}
	return guard("case", func() *evid.Failure {
		typ := c.T.Type()
		n := len(c.Vals)
		vals := make([]reflect.Value, n)
		args := make([]any, n)
		multi := make([]bool, n)
		for i := range c.Vals {
			vals[i] = tgen.Build(&c.T, &c.Vals[i])
			args[i] = vals[i].Interface()
			if c.ByPtr {
				args[i] = vals[i].Addr().Interface()
			}
			multi[i] = tgen.MultiMap(&c.T, vals[i])
		}
		fresh := make([][3][]byte, n) // Marshal output per value and protocol
		for i := 0; i < n; i++ {
			var decoded [3]reflect.Value
			for p := 0; p < 3; p++ {
				where := fmt.Sprintf("value %d, %s", i, protoNames[p])
				// (A) Marshal / Unmarshal
				var b []byte
				if f := guard("Marshal "+where, func() *evid.Failure {
					var err error
					b, err = thrift.Marshal(proto(p), args[i])
					if err != nil {
						return fail("marshal-error", "Marshal succeeds on a supported value ("+where+")", err.Error(), "nil error")
					}
					return nil
				}); f != nil {
					return f
				}
				fresh[i][p] = b
				out := reflect.New(typ)
				if f := guard("Unmarshal "+where, func() *evid.Failure {
					if err := thrift.Unmarshal(proto(p), b, out.Interface()); err != nil {
						return fail("unmarshal-error", "Unmarshal(Marshal(v)) succeeds ("+where+")", err.Error()+" on "+evid.Hex(b), "nil error")
					}
					return nil
				}); f != nil {
					return f
				}
				if s := tgen.Equal(&c.T, vals[i], out.Elem()); s != "" {
					return fail("roundtrip-mismatch", "Unmarshal(Marshal(v)) == v mod nil/empty ("+where+")", s+" ; bytes "+evid.Hex(b), "equal")
				}
				decoded[p] = out.Elem()
				// (B) fresh Encoder / Decoder
				buf := new(bytes.Buffer)
				if f := guard("Encoder.Encode "+where, func() *evid.Failure {
					if err := thrift.NewEncoder(proto(p).NewWriter(buf)).Encode(args[i]); err != nil {
						return fail("marshal-error", "fresh Encoder succeeds ("+where+")", err.Error(), "nil error")
					}
					return nil
				}); f != nil {
					return f
				}
				if f := sameBytes("fresh Encoder output == Marshal output ("+where+")", "fresh-bytes-mismatch", buf.Bytes(), b, multi[i]); f != nil {
					return f
				}
				out2 := reflect.New(typ)
				if f := guard("Decoder.Decode "+where, func() *evid.Failure {
					if err := thrift.NewDecoder(proto(p).NewReader(tgen.NewDelivery(c.Deliver, buf.Bytes(), c.Chunks))).Decode(out2.Interface()); err != nil {
						return fail("unmarshal-error", "fresh Decoder succeeds ("+where+")", err.Error()+" on "+evid.Hex(buf.Bytes()), "nil error")
					}
					return nil
				}); f != nil {
					return f
				}
				if s := tgen.Equal(&c.T, vals[i], out2.Elem()); s != "" {
					return fail("roundtrip-mismatch", "fresh Decoder(fresh Encoder(v)) == v ("+where+")", s, "equal")
				}
			}
			// cross-protocol agreement
			for p := 1; p < 3; p++ {
				if s := tgen.Equal(&c.T, decoded[0], decoded[p]); s != "" {
					return fail("cross-protocol-mismatch", fmt.Sprintf("value decoded from %s == value decoded from %s (value %d)", protoNames[0], protoNames[p], i), s, "equal")
				}
			}
		}
		// (C) one Encoder and one Decoder, Reset before every value, across protocols
		if f := guard("Reset chain", func() *evid.Failure {
			enc := thrift.NewEncoder(proto(c.Init).NewWriter(new(bytes.Buffer)))
			dec := thrift.NewDecoder(proto(c.Init).NewReader(bytes.NewReader(nil)))
			for i := 0; i < n; i++ {
				p := 0
				if i < len(c.Protos) {
					p = c.Protos[i] % 3
				}
				where := fmt.Sprintf("value %d, %s after Reset", i, protoNames[p])
				buf := new(bytes.Buffer)
				enc.Reset(proto(p).NewWriter(buf))
				if err := enc.Encode(args[i]); err != nil {
					return fail("reset-error", "reused Encoder succeeds ("+where+")", err.Error(), "nil error")
				}
				if f := sameBytes("reused Encoder output == fresh output ("+where+")", "reset-bytes-mismatch", buf.Bytes(), fresh[i][p], multi[i]); f != nil {
					return f
				}
				out := reflect.New(typ)
				dec.Reset(proto(p).NewReader(tgen.NewDelivery(c.Deliver, buf.Bytes(), c.Chunks)))
				if err := dec.Decode(out.Interface()); err != nil {
					return fail("reset-error", "reused Decoder succeeds ("+where+")", err.Error()+" on "+evid.Hex(buf.Bytes()), "nil error")
				}
				if s := tgen.Equal(&c.T, vals[i], out.Elem()); s != "" {
					return fail("reset-value-mismatch", "reused Decoder yields the same value as a fresh one ("+where+")", s, "equal")
				}
			}
			return nil
		}); f != nil {
			return f
		}
		// (D) one Encoder writing all values to one stream, one Decoder reading them back
		return guard("stream", func() *evid.Failure {
			p := c.Init % 3
			buf := new(bytes.Buffer)
			enc := thrift.NewEncoder(proto(p).NewWriter(buf))
			want := 0
			for i := 0; i < n; i++ {
				if err := enc.Encode(args[i]); err != nil {
					return fail("reset-error", fmt.Sprintf("Encoder used for several values succeeds (value %d, %s)", i, protoNames[p]), err.Error(), "nil error")
				}
				want += len(fresh[i][p])
				if buf.Len() != want {
					return fail("reset-bytes-mismatch", fmt.Sprintf("Encoder used for several values writes what a fresh one writes (value %d, %s)", i, protoNames[p]), fmt.Sprintf("%d bytes so far", buf.Len()), fmt.Sprintf("%d bytes", want))
				}
			}
			dec := thrift.NewDecoder(proto(p).NewReader(tgen.NewDelivery(c.Deliver, buf.Bytes(), c.Chunks)))
			for i := 0; i < n; i++ {
				out := reflect.New(typ)
				if err := dec.Decode(out.Interface()); err != nil {
					return fail("reset-error", fmt.Sprintf("Decoder used for several values succeeds (value %d, %s)", i, protoNames[p]), err.Error(), "nil error")
				}
				if s := tgen.Equal(&c.T, vals[i], out.Elem()); s != "" {
					return fail("reset-value-mismatch", fmt.Sprintf("Decoder used for several values yields the same values (value %d, %s)", i, protoNames[p]), s, "equal")
				}
			}
			return nil
		})
	})
}

// sameBytes: identical bytes, or (when the value holds a map with two or more
// entries, whose wire order is unspecified) identical length.
func sameBytes(oracle, class string, got, want []byte, multi bool) *evid.Failure {
	if multi {
		if len(got) != len(want) {
			return fail(class, oracle+" [length only: multi-entry map]", fmt.Sprintf("%d bytes", len(got)), fmt.Sprintf("%d bytes", len(want)))
		}
		return nil
	}
	if !bytes.Equal(got, want) {
		return fail(class, oracle, evid.Hex(got), evid.Hex(want))
	}
	return nil
}

// knownClass returns the listed class a failure belongs to ("" if none).
func knownClass(c Case, f *evid.Failure) string {
	if f.Class == "panic" && strings.Contains(f.Observed, "index out of range") && tgen.AnyWideIDs(&c.T) {
		return classWideIDs
	}
	switch f.Class {
	case "roundtrip-mismatch", "reset-value-mismatch", "cross-protocol-mismatch":
		// the difference is in the pointee of a union interface field, and the type
		// has a union struct by value inside a map value
		if strings.Contains(f.Observed, ".U") && tgen.UnionInMapValue(&c.T) {
			return classUnionInMap
		}
	}
	return ""
}

func genCase(t *rapid.T, o *tgen.Opts) Case {
	var c Case
	if b := rapid.IntRange(0, 99).Draw(t, "big"); b == 37 || b == 61 { // rapid favours the bounds of a range: mid-range values give the intended ~1 %
		// 1 % of the cases: a list, set or map that really holds more elements than
		// the decoder preallocates (1024): two such values of one type, through every
		// codec path of checkCase
		b := tgen.GenBigSpec(t)
		b2 := b
		b2.N = rapid.SampledFrom([]int{1024, 1026, 3000, 5001}).Draw(t, "bign2")
		var r1, r2 tgen.Recipe
		c.T, r1 = b.Build()
		_, r2 = b2.Build()
		c.Vals = []tgen.Recipe{r1, r2}
		c.Protos = []int{rapid.IntRange(0, 2).Draw(t, "proto"), rapid.IntRange(0, 2).Draw(t, "proto")}
		c.Init = rapid.IntRange(0, 2).Draw(t, "init")
		c.ByPtr = rapid.Bool().Draw(t, "byptr")
		c.Big = b.Label()
		return c
	}
	c.T = tgen.GenType(t, o)
	maxVals := 5
	if evid.Thorough() {
		maxVals = 10 // more values per type: codec construction and the library's copy-on-write codec cache dominate otherwise
	}
	n := rapid.IntRange(2, maxVals).Draw(t, "nvals")
	for i := 0; i < n; i++ {
		c.Vals = append(c.Vals, tgen.GenRecipe(t, &c.T, o))
		c.Protos = append(c.Protos, rapid.IntRange(0, 2).Draw(t, "proto"))
	}
	c.Init = rapid.IntRange(0, 2).Draw(t, "init")
	c.ByPtr = rapid.Bool().Draw(t, "byptr")
	return c
}

func account(c Case) {
	evid.Eval(1)
	evid.Label("deliver." + tgen.DeliveryModes[c.Deliver%len(tgen.DeliveryModes)])
	if c.Big != "" {
		evid.Label("big-collection(>1024 elements)." + c.Big)
		evid.Label("big-collection(>1024 elements)")
	}
	for _, l := range tgen.TypeLabels(&c.T) {
		evid.Label("type." + l)
	}
	vl := map[string]bool{}
	set := 0
	for i := range c.Vals {
		tree := tgen.ToTree(&c.T, tgen.Build(&c.T, &c.Vals[i]))
		if len(tree.Fields) > set {
			set = len(tree.Fields)
		}
		for _, l := range tgen.TreeLabels(tree) {
			vl[l] = true
		}
		if tgen.HugeString(tree) {
			vl["string-or-binary>64KiB"] = true
		}
		if c.T.Union {
			if c.Vals[i].Sel > 0 && len(tree.Fields) == 1 {
				vl["union.member-set"] = true
			} else {
				vl["union.empty"] = true
			}
		}
	}
	for l := range vl {
		evid.Label("val." + l)
	}
	switch {
	case set >= 2:
		evid.Label("fields-set>=2")
	default:
		evid.Label(fmt.Sprintf("fields-set=%d", set))
	}
	chain := map[int]bool{c.Init: true}
	for _, p := range c.Protos {
		chain[p] = true
	}
	if len(chain) > 1 {
		evid.Label("reset.across-protocols")
	} else {
		evid.Label("reset.same-protocol")
	}
	if set >= 2 {
		b, _ := json.Marshal(c)
		evid.NonTrivial(evid.Hash(b))
	}
	evid.Sample(c)
}

func TestRoundTrip(t *testing.T) {
	o := &tgen.Opts{NoWideIDs: evid.KnownActive(classWideIDs)}
	n := 8000
	if evid.Thorough() {
		o.MaxDepth = 4
	}
	evid.Check(t, "RoundTrip", n, func(rt *rapid.T) {
		before := o.Avoided["id-range-beyond-bitmap"]
		c := genCase(rt, o)
		c.Deliver = rapid.IntRange(0, len(tgen.DeliveryModes)-1).Draw(rt, "deliver")
		if c.Deliver >= 3 {
			c.Chunks = rapid.SliceOfN(rapid.IntRange(1, 7), 1, 8).Draw(rt, "chunks")
		}
		for i := before; i < o.Avoided["id-range-beyond-bitmap"]; i++ {
			evid.Excluded(classWideIDs)
		}
		account(c)
		if f := checkCase(c); f != nil {
			if cls := knownClass(c, f); cls != "" && evid.KnownActive(cls) {
				evid.Excluded(cls)
				return
			}
			evid.Violation(rt, "RoundTrip", c, f)
		}
	})
}

// TestReplay re-executes saved cases (VERIF_REPLAY or the committed regression tier).
func TestReplay(t *testing.T) {
	files := evid.SavedReplays()
	if p := evid.ReplayFile(); p != "" {
		files = []string{p}
	}
	for _, p := range files {
		_, raw, err := evid.LoadReplayCase(p)
		if err != nil {
			t.Fatalf("replay %s: %v", p, err)
		}
		var c Case
		if err := json.Unmarshal(raw, &c); err != nil || len(c.Vals) == 0 {
			fmt.Fprintf(os.Stderr, "replay %s: not a C04 case, skipped\n", p)
			continue
		}
		evid.Eval(1)
		if f := checkCase(c); f != nil {
			if cls := knownClass(c, f); cls != "" && evid.KnownActive(cls) {
				evid.Excluded(cls)
				continue
			}
			evid.Violation(t, "Replay", c, f)
		}
	}
}

// witnessWideIDs: struct{ A int32 `thrift:"1"`; B int32 `thrift:"100"` }{1, 2}.
func witnessWideIDs() Case {
	return Case{
		T: tgen.TypeDesc{K: tgen.KStruct, Fields: []tgen.FieldDesc{
			{ID: 1, T: tgen.TypeDesc{K: tgen.KI32}},
			{ID: 100, T: tgen.TypeDesc{K: tgen.KI32}},
		}},
		Vals:   []tgen.Recipe{{E: []tgen.Recipe{{I: 1}, {I: 2}}}},
		Protos: []int{0},
	}
}

// witnessUnionInMap: struct{ M map[string]struct{ A bool `thrift:"1"`; U any `thrift:",union"` } `thrift:"1"` }
// with M = {"k": {A: true, U: &true}}.
func witnessUnionInMap() Case {
	u := tgen.TypeDesc{K: tgen.KStruct, Union: true, Fields: []tgen.FieldDesc{{ID: 1, T: tgen.TypeDesc{K: tgen.KBool}}}}
	return Case{
		T: tgen.TypeDesc{K: tgen.KStruct, Fields: []tgen.FieldDesc{
			{ID: 1, T: tgen.TypeDesc{K: tgen.KMap, Key: &tgen.TypeDesc{K: tgen.KStr}, Elem: &u}},
		}},
		Vals:   []tgen.Recipe{{E: []tgen.Recipe{{K: []tgen.Recipe{{B: []byte("k")}}, E: []tgen.Recipe{{Sel: 1, E: []tgen.Recipe{{I: 1}}}}}}}},
		Protos: []int{2},
	}
}

func witness(t *testing.T, class string, mk func() Case) evid.Class {
	return evid.Class{Name: class, Witness: func() *evid.Failure {
		c := mk()
		f := checkCase(c)
		if f != nil && knownClass(c, f) != class {
			evid.Violation(t, "witness:"+class, c, f) // fails differently: not the listed defect
		}
		return f
	}}
}

func TestKnownFindings(t *testing.T) {
	evid.RunWitnesses(t, []evid.Class{
		witness(t, classWideIDs, witnessWideIDs),
		witness(t, classUnionInMap, witnessUnionInMap),
	})
}
