// C15 — json.Append is oblivious to the destination's length and capacity.
package c15

import (
	"bytes"
	stdjson "encoding/json"
	"fmt"
	"math"
	"reflect"
	"testing"

	segjson "github.com/segmentio/encoding/json"
	"pgregory.net/rapid"

	"verif/harness/evid"
	"verif/harness/jgen"
)

func TestMain(m *testing.M) { evid.Main(m, "C15") }

type Case struct {
	Fn    string        `json:"fn"` // Append | AppendEscape | AppendUnescape
	Type  jgen.TypeDesc `json:"type,omitempty"`
	Value jgen.Recipe   `json:"value,omitempty"`
	ByPtr bool          `json:"by_ptr,omitempty"`
	Str   []byte        `json:"str,omitempty"` // AppendEscape / AppendUnescape input
	Flags uint32        `json:"flags"`
	P     int           `json:"p"`     // len(b)
	CMode string        `json:"cmode"` // spare capacity: 0 | 1 | n-1 | n | n+1 | 2n | 4096 | fixed:<k>
	CAbs  int           `json:"cabs,omitempty"`
	// Tail: what b's content ends with (the rest is filler). The encoder has places that look back at
	// the bytes it has just written (exponent clean-up, re-quoting, comma handling); with a hostile tail a
	// look-back that reaches below len(b) finds something it recognises.
	Tail string `json:"tail,omitempty"`
}

var tails = []string{"", "", "e-0", "e+0", "1e-0", "\\", "\"", "\\\"", "0", "-", "-0", "0.", ",", ":", "[", "{", "{\"a\":", "nul", "tru", "fals", "\\u00", "\\u", "\xe2\x80", "\xc3", " ", "\n", "]", "}", "\"\"", "<", "&"}

func prefixOf(c Case) []byte {
	prefix := make([]byte, c.P)
	for i := range prefix {
		prefix[i] = byte('a' + i%23)
	}
	if len(c.Tail) <= c.P {
		copy(prefix[c.P-len(c.Tail):], c.Tail)
	}
	return prefix
}

const canary = 0xA5
const guardLen = 64

func call(c Case, dst []byte) (out []byte, err error) {
	switch c.Fn {
	case "Append":
		v := jgen.Build(c.Type.Type(), c.Value)
		var x any
		if c.ByPtr {
			x = v.Addr().Interface()
		} else {
			x = v.Interface()
		}
		return segjson.Append(dst, x, segjson.AppendFlags(c.Flags))
	case "AppendEscape":
		return segjson.AppendEscape(dst, string(c.Str), segjson.AppendFlags(c.Flags)), nil
	case "AppendUnescape":
		return segjson.AppendUnescape(dst, append([]byte{}, c.Str...), segjson.ParseFlags(c.Flags)), nil
	}
	return nil, fmt.Errorf("unknown fn %s", c.Fn)
}

func spare(c Case, n int) int {
	switch c.CMode {
	case "0":
		return 0
	case "1":
		return 1
	case "n-1":
		if n > 0 {
			return n - 1
		}
		return 0
	case "n":
		return n
	case "n+1":
		return n + 1
	case "2n":
		return 2 * n
	case "4096":
		return 4096
	default:
		return c.CAbs
	}
}

func checkCase(c Case) (f *evid.Failure) {
	f, _, _ = checkCaseInfo(c)
	return f
}

func checkCaseInfo(c Case) (f *evid.Failure, n int, failed bool) {
	defer func() {
		if p := recover(); p != nil {
			f = &evid.Failure{Oracle: "no panic", Observed: fmt.Sprint("panic: ", p), Expected: "a result", Class: "panic"}
		}
	}()
	ref, rerr := call(c, nil)
	n = len(ref)
	failed = rerr != nil
	sp := spare(c, n)
	arena := make([]byte, guardLen+c.P+sp+guardLen)
	for i := range arena {
		arena[i] = canary
	}
	prefix := prefixOf(c)
	g := guardLen
	copy(arena[g:], prefix)
	dst := arena[g : g+c.P : g+c.P+sp]
	out, err := call(c, dst)
	if (err == nil) != (rerr == nil) {
		return &evid.Failure{Oracle: "Append(b,...) errors exactly when Append(nil,...) does", Observed: fmt.Sprintf("err=%v", err), Expected: fmt.Sprintf("err=%v", rerr), Class: "err"}, n, failed
	}
	if len(out) < c.P || !bytes.Equal(out[:c.P], prefix) {
		return &evid.Failure{Oracle: "result begins with b's bytes", Observed: fmt.Sprintf("len %d, head %q", len(out), head(out, c.P)), Expected: fmt.Sprintf("%q…", head(prefix, c.P)), Class: "prefix"}, n, failed
	}
	// without SortMapKeys the member order of a map may differ between two calls: only the clauses about b apply
	unordered := c.Fn == "Append" && c.Flags&uint32(segjson.SortMapKeys) == 0 && hasMap(c.Type.Type(), map[reflect.Type]bool{})
	if err == nil && !unordered && !bytes.Equal(out[c.P:], ref) {
		return &evid.Failure{Oracle: "Append(b,v)[len(b):] == Append(nil,v)", Observed: fmt.Sprintf("%q", head(out[c.P:], 300)), Expected: fmt.Sprintf("%q", head(ref, 300)), Class: "suffix"}, n, failed
	}
	for i := 0; i < g; i++ {
		if arena[i] != canary {
			return &evid.Failure{Oracle: "no write below the destination", Observed: fmt.Sprintf("arena[%d] = %#x", i-g, arena[i]), Expected: "untouched", Class: "write-below"}, n, failed
		}
	}
	if !bytes.Equal(arena[g:g+c.P], prefix) {
		return &evid.Failure{Oracle: "bytes of b's backing array below len(b) are never written", Observed: fmt.Sprintf("%q", head(arena[g:g+c.P], 80)), Expected: fmt.Sprintf("%q", head(prefix, 80)), Class: "write-in-prefix"}, n, failed
	}
	for i := g + c.P + sp; i < len(arena); i++ {
		if arena[i] != canary {
			return &evid.Failure{Oracle: "no write beyond the capacity", Observed: fmt.Sprintf("arena[cap+%d] = %#x", i-(g+c.P+sp), arena[i]), Expected: "untouched", Class: "write-beyond-cap"}, n, failed
		}
	}
	return nil, n, failed
}

func head(b []byte, n int) []byte {
	if len(b) > n {
		return b[:n]
	}
	return b
}

var cmodes = []string{"0", "1", "n-1", "n", "n+1", "2n", "4096", "abs"}
var plens = []int{0, 0, 1, 7, 8, 9, 100, 4095, 4096}

func genGeom(rt *rapid.T, c *Case) {
	c.P = rapid.SampledFrom(plens).Draw(rt, "p")
	c.Tail = rapid.SampledFrom(tails).Draw(rt, "tail")
	c.CMode = rapid.SampledFrom(cmodes).Draw(rt, "cmode")
	if c.CMode == "abs" {
		c.CAbs = rapid.IntRange(0, 200).Draw(rt, "cabs")
	}
}

func hasMap(t reflect.Type, seen map[reflect.Type]bool) bool {
	if seen[t] {
		return false
	}
	seen[t] = true
	switch t.Kind() {
	case reflect.Map, reflect.Interface:
		return true
	case reflect.Ptr, reflect.Slice, reflect.Array:
		return hasMap(t.Elem(), seen)
	case reflect.Struct:
		for i := 0; i < t.NumField(); i++ {
			if hasMap(t.Field(i).Type, seen) {
				return true
			}
		}
	}
	return false
}

func account(c Case, n int, failed bool) {
	evid.Eval(1)
	evid.Label("fn." + c.Fn)
	evid.Label("cap." + c.CMode)
	evid.Label(fmt.Sprintf("prefix.%d", c.P))
	if failed {
		evid.Label("value.fails-midway")
	}
	sp := spare(c, n)
	if (c.P > 0 && sp < n) || c.CMode == "n-1" || c.CMode == "n" || c.CMode == "n+1" {
		evid.NonTrivial(evid.HashS(c.Fn, c.Type.String(), fmt.Sprintf("%+v|%x|%d|%d|%s|%d", c.Value, c.Str, c.Flags, c.P, c.CMode, c.CAbs)))
	}
	evid.Sample(c)
}

func TestAppend(t *testing.T) {
	to := jgen.TypeOpts{MaxDepth: 3, Durations: true}
	vo := jgen.ValOpts{BigSlice: true}
	evid.Check(t, "Append", 12000, func(rt *rapid.T) {
		var td jgen.TypeDesc
		switch rapid.IntRange(0, 5).Draw(rt, "tk") {
		case 0:
			td = jgen.TypeDesc{K: "bytes"}
		case 1:
			// struct with ,string fields, []byte, raw, nil embedded pointer
			s1, s2 := ",string", "n,string,omitempty"
			eb := jgen.TypeDesc{K: "@EmbB"}
			td = jgen.TypeDesc{K: "struct", Fields: []jgen.FieldDesc{
				{Name: "A", Tag: &s1, T: jgen.TypeDesc{K: "int"}}, {Name: "B", T: jgen.TypeDesc{K: "bytes"}}, {Name: "EmbB", Emb: true, T: jgen.TypeDesc{K: "ptr", Elem: &eb}},
				{Name: "S", Tag: &s1, T: jgen.TypeDesc{K: "string"}}, {Name: "F", Tag: &s2, T: jgen.TypeDesc{K: "float64"}}, {Name: "R", T: jgen.TypeDesc{K: "raw"}}, {Name: "N", T: jgen.TypeDesc{K: "number"}}}}
		default:
			td = jgen.GenType(rt, to)
		}
		typ := td.Type()
		nv := rapid.IntRange(1, 3).Draw(rt, "nvals")
		for i := 0; i < nv; i++ {
			c := Case{Fn: "Append", Type: td, Value: jgen.GenValue(rt, typ, vo), ByPtr: rapid.Bool().Draw(rt, "byptr")}
			c.Flags = uint32(rapid.IntRange(0, 7).Draw(rt, "flags"))
			if hasMap(typ, map[reflect.Type]bool{}) && rapid.IntRange(0, 3).Draw(rt, "sorted") > 0 {
				c.Flags |= uint32(segjson.SortMapKeys)
			}
			ngeom := rapid.IntRange(1, 3).Draw(rt, "ngeom")
			for j := 0; j < ngeom; j++ {
				genGeom(rt, &c)
				f, n, failed := checkCaseInfo(c)
				account(c, n, failed)
				if f != nil {
					evid.Violation(rt, "Append", c, f)
				}
			}
		}
	})
}

func TestAppendEscapeUnescape(t *testing.T) {
	evid.Check(t, "AppendEscapeUnescape", 10000, func(rt *rapid.T) {
		var c Case
		if rapid.Bool().Draw(rt, "esc") {
			c = Case{Fn: "AppendEscape", Str: jgen.GenString(rt), Flags: uint32(rapid.SampledFrom([]int{0, 1}).Draw(rt, "flags"))}
		} else {
			c = Case{Fn: "AppendUnescape", Str: []byte(jgen.GenStringLit(rt)), Flags: 0}
		}
		genGeom(rt, &c)
		f, n, failed := checkCaseInfo(c)
		account(c, n, failed)
		if f != nil {
			evid.Violation(rt, "AppendEscapeUnescape", c, f)
		}
	})
}

// TestScalarsAfterTails: short scalars (the ones whose whole encoding is shorter than the encoder's
// look-back windows) appended after every hostile tail in every geometry, exhaustively.
func TestScalarsAfterTails(t *testing.T) {
	if evid.Shard() != 0 {
		return
	}
	type tv struct {
		k string
		r jgen.Recipe
	}
	var vals []tv
	for _, f := range []float64{0, 1, 2, 7, 9, 10, -1, 0.5, 1e-7, 2.5e-7, 1e-9, 1e21, 1e-10, 123456789, 1e20} {
		vals = append(vals, tv{"float64", jgen.Recipe{F: math.Float64bits(f)}}, tv{"float32", jgen.Recipe{F: math.Float64bits(f)}})
	}
	for _, i := range []int64{0, 1, 9, 10, -1, -10, 100} {
		vals = append(vals, tv{"int", jgen.Recipe{I: i}}, tv{"int8", jgen.Recipe{I: i}})
	}
	for _, u := range []uint64{0, 9, 10, 255} {
		vals = append(vals, tv{"uint", jgen.Recipe{U: u}})
	}
	vals = append(vals, tv{"bool", jgen.Recipe{}}, tv{"bool", jgen.Recipe{I: 1}}, tv{"string", jgen.Recipe{S: []byte{}}}, tv{"string", jgen.Recipe{S: []byte("a")}},
		tv{"string", jgen.Recipe{S: []byte("<")}}, tv{"string", jgen.Recipe{S: []byte("\\")}}, tv{"bytes", jgen.Recipe{S: []byte{1}}}, tv{"number", jgen.Recipe{S: []byte("0")}},
		tv{"number", jgen.Recipe{S: []byte("1e-07")}}, tv{"raw", jgen.Recipe{S: []byte("0")}}, tv{"raw", jgen.Recipe{S: []byte(" 7 ")}}, tv{"duration", jgen.Recipe{I: 0}}, tv{"duration", jgen.Recipe{I: 1}})
	n := 0
	for _, v := range vals {
		for _, tail := range tails[1:] {
			for _, p := range []int{len(tail), len(tail) + 5} {
				for _, cm := range cmodes[:7] {
					for _, fl := range []uint32{0, 1} {
						c := Case{Fn: "Append", Type: jgen.TypeDesc{K: v.k}, Value: v.r, Flags: fl, P: p, CMode: cm, Tail: tail}
						f, sz, failed := checkCaseInfo(c)
						account(c, sz, failed)
						n++
						if f != nil {
							evid.Violation(t, "ScalarsAfterTails", c, f)
						}
					}
				}
			}
		}
	}
	evid.Eval(n)
	evid.Enumerated("ScalarsAfterTails", 1, 1)
}

// TestBytesLengths: []byte of every length 0..100 x every geometry (base64
// capacity arithmetic), exhaustively.
func TestBytesLengths(t *testing.T) {
	if evid.Shard() != 0 {
		return
	}
	n := 0
	for L := 0; L <= 100; L++ {
		val := jgen.Recipe{S: bytes.Repeat([]byte{0xfb}, L)}
		if L == 0 {
			val = jgen.Recipe{S: []byte{}}
		}
		for _, p := range []int{0, 1, 7, 100} {
			for _, cm := range cmodes[:7] {
				c := Case{Fn: "Append", Type: jgen.TypeDesc{K: "bytes"}, Value: val, Flags: 3, P: p, CMode: cm}
				f, sz, failed := checkCaseInfo(c)
				account(c, sz, failed)
				n++
				if f != nil {
					evid.Violation(t, "BytesLengths", c, f)
				}
			}
		}
	}
	evid.Enumerated("BytesLengths", 1, 1)
}

func TestReplay(t *testing.T) {
	files := evid.SavedReplays()
	if p := evid.ReplayFile(); p != "" {
		files = []string{p}
	}
	for _, p := range files {
		_, raw, err := evid.LoadReplayCase(p)
		if err != nil {
			t.Fatalf("replay %s: %v", p, err)
		}
		var c Case
		if err := stdjson.Unmarshal(raw, &c); err != nil || c.Fn == "" {
			continue
		}
		evid.Eval(1)
		if f := checkCase(c); f != nil {
			evid.Violation(t, "Replay", c, f)
		}
	}
}

func TestKnownFindings(t *testing.T) { evid.RunWitnesses(t, nil) }
