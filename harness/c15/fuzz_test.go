package c15

import (
	"bytes"
	stdjson "encoding/json"
	"testing"

	segjson "github.com/segmentio/encoding/json"

	"verif/harness/evid"
	"verif/harness/jgen"
)

// FuzzAppendGeometry: coverage-guided search over generic values (decoded by encoding/json from the input), flag
// subsets, prefix lengths, prefix tails and spare capacities taken from the first input bytes; the check's own
// oracle (Append(b,v)[len(b):] == Append(nil,v), b untouched, nothing written outside). Thorough tier only.
func FuzzAppendGeometry(f *testing.F) {
	for _, s := range []string{`{"b":[1,2.5e3,"x<é>  ",null,true],"a":{"k":1e21,"<":"&"}}`, `"😀\ud800\\"`, `[1e-7,123456789012345678901234567890,0.000001,7]`, `{"":{"":[]}}`, `"aGVsbG8="`, `7`, `-0`, `1e-7`} {
		for g := byte(0); g < 8; g++ {
			f.Add(append([]byte{g, g * 29, g * 3}, s...))
		}
	}
	f.Fuzz(func(t *testing.T, data []byte) {
		if len(data) < 4 || len(data) > 1<<13 {
			return
		}
		d := stdjson.NewDecoder(bytes.NewReader(data[3:]))
		if data[0]&0x80 != 0 {
			d.UseNumber()
		}
		var v any
		if err := d.Decode(&v); err != nil {
			return
		}
		c := Case{Fn: "Append", Type: jgen.TypeDesc{K: "any"}, Value: jgen.RecipeOfAny(v), Flags: uint32(data[0]&7) | uint32(segjson.SortMapKeys), ByPtr: data[0]&8 != 0}
		c.P = plens[int(data[1])%len(plens)]
		c.CMode = cmodes[int(data[1]>>4)%len(cmodes)]
		if c.CMode == "abs" {
			c.CAbs = int(data[2])
		}
		c.Tail = tails[int(data[2])%len(tails)]
		if fl := checkCase(c); fl != nil {
			evid.Violation(t, "FuzzAppendGeometry", c, fl)
		}
	})
}
