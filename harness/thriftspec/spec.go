// Package thriftspec is R-THRIFT of DESIGN.md §3: a direct transcription of the
// Apache Thrift binary and compact protocol specifications
// (doc/specs/thrift-binary-protocol.md, thrift-compact-protocol.md) into an
// encoder from a logical content tree to bytes and a decoder from bytes to the
// tree. It does not import the library under test.
//
// Clauses transcribed (and nothing else):
//
//	binary : type ids BOOL 2, BYTE 3, DOUBLE 4, I16 6, I32 8, I64 10, STRING 11,
//	         STRUCT 12, MAP 13, SET 14, LIST 15; big-endian i16/i32/i64/double;
//	         bool as one byte 1/0; i32 length prefixed binary; field header
//	         type(1) id(2); one-byte STOP 0; list/set header type(1) size(4);
//	         map header ktype(1) vtype(1) size(4); strict message header
//	         i32(0x80010000|type) name seqid(4); non-strict name type(1) seqid(4);
//	         message types Call 1, Reply 2, Exception 3, Oneway 4.
//	compact: type ids TRUE 1, FALSE 2, BYTE 3, I16 4, I32 5, I64 6, DOUBLE 7,
//	         BINARY 8, LIST 9, SET 10, MAP 11, STRUCT 12; i16/i32/i64 zig-zag
//	         ULEB128; little-endian double; ULEB128 length prefixed binary; field
//	         header short form (delta<<4)|type for delta 1..15, long form type
//	         byte + zig-zag id; bool fields folded into the type nibble; STOP 0;
//	         (as collection element / map key / value type BOOL is 2, and 1 is
//	         equally conformant: readers must accept both);
//	         list/set header (size<<4)|type below 15 elements else 0xF0|type +
//	         ULEB128 size; map: one byte 0 when empty, else ULEB128 size +
//	         (ktype<<4)|vtype; message 0x82, (type<<5)|1, ULEB128 seqid,
//	         length-prefixed name.
//
// The byte of a *false* bool element inside a compact collection (0 in the
// specification text, 2 in the Java implementation) is a parameter
// (Dialect.CompactFalseElem) and is accepted either way by the decoder.
package thriftspec

import (
	"encoding/binary"
	"errors"
	"fmt"
	"math"
)

// T is an abstract thrift type (not a wire id).
type T uint8

const (
	Stop T = iota
	Bool
	Byte
	Double
	I16
	I32
	I64
	String // string and binary
	Struct
	Map
	Set
	List
	numT
)

var tNames = [...]string{"STOP", "BOOL", "BYTE", "DOUBLE", "I16", "I32", "I64", "STRING", "STRUCT", "MAP", "SET", "LIST"}

func (t T) String() string {
	if int(t) < len(tNames) {
		return tNames[t]
	}
	return fmt.Sprintf("T(%d)", uint8(t))
}

// Value is a node of the logical content tree.
type Value struct {
	T  T      `json:"t"`
	B  bool   `json:"b,omitempty"`  // Bool
	I  int64  `json:"i,omitempty"`  // Byte, I16, I32, I64
	F  uint64 `json:"f,omitempty"`  // Double (IEEE bits)
	S  []byte `json:"s,omitempty"`  // String
	ET T      `json:"et,omitempty"` // List/Set element type, Map value type
	KT T      `json:"kt,omitempty"` // Map key type
	// ET1 / KT1: a BOOL element (value) / key type is announced as 1 instead of 2 in
	// the compact protocol. The compact specification's note on element types
	// requires readers to accept both ("the only valid value in the original spec
	// was 2, but ... the de-facto standard ... became 1 instead; as of today both 1
	// and 2 must be accepted as element type BOOL"). Ignored by the binary protocol
	// and by Same.
	ET1    bool    `json:"et1,omitempty"`
	KT1    bool    `json:"kt1,omitempty"`
	Elems  []Value `json:"e,omitempty"`  // List/Set elements, Map values
	Keys   []Value `json:"k,omitempty"`  // Map keys
	Fields []Field `json:"fs,omitempty"` // Struct fields in wire order
}

// Field is one struct field in wire order.
type Field struct {
	ID int16 `json:"id"`
	V  Value `json:"v"`
}

// Message is a message header. Type is logical: 1 Call, 2 Reply, 3 Exception, 4 Oneway.
type Message struct {
	Type  int    `json:"type"`
	Name  string `json:"name"`
	SeqID int32  `json:"seq"`
}

const (
	Call      = 1
	Reply     = 2
	Exception = 3
	Oneway    = 4
)

// Proto selects the protocol.
type Proto int

const (
	BinaryStrict Proto = iota
	BinaryNonStrict
	Compact
)

func (p Proto) String() string {
	switch p {
	case BinaryStrict:
		return "binary-strict"
	case BinaryNonStrict:
		return "binary-nonstrict"
	case Compact:
		return "compact"
	}
	return "?"
}

// Dialect parameterises the transcription. The zero value is the
// specification. Each Lib* flag replaces exactly one clause by a deviation
// that was observed in the library under test, so that a property check can
// keep comparing all *other* clauses while that deviation is a listed known
// finding (DESIGN.md §1.7). A check never sets a flag whose class is not
// listed as known.
type Dialect struct {
	LibBinaryTypeIDs     bool `json:"lib_binary_type_ids,omitempty"`     // binary protocol writes the compact type ids
	LibStrictVersionZero bool `json:"lib_strict_version_zero,omitempty"` // strict header 0x80000000|type (version bits 0)
	LibMsgTypesFromZero  bool `json:"lib_msg_types_from_zero,omitempty"` // Call 0 .. Oneway 3
	LibCompactMsgHeader  bool `json:"lib_compact_msg_header,omitempty"`  // second header byte = type (no shift, no version)
	LibCompactDoubleBE   bool `json:"lib_compact_double_be,omitempty"`   // compact doubles big-endian
	LibBinaryStopWithID  bool `json:"lib_binary_stop_with_id,omitempty"` // binary STOP written (and read) as a full 3-byte field header 00 00 00
	CompactFalseElem     byte `json:"compact_false_elem,omitempty"`      // byte written for a false element in a compact collection (0 or 2)
}

var binaryID = [numT]byte{Stop: 0, Bool: 2, Byte: 3, Double: 4, I16: 6, I32: 8, I64: 10, String: 11, Struct: 12, Map: 13, Set: 14, List: 15}

// compact ids; Bool as a collection element type / declared field type is 2,
// a true bool field is 1.
var compactID = [numT]byte{Stop: 0, Bool: 2, Byte: 3, I16: 4, I32: 5, I64: 6, Double: 7, String: 8, List: 9, Set: 10, Map: 11, Struct: 12}

func (d Dialect) binID(t T) byte {
	if d.LibBinaryTypeIDs {
		return compactID[t]
	}
	return binaryID[t]
}

func (d Dialect) binT(id byte) (T, bool) {
	tab := &binaryID
	if d.LibBinaryTypeIDs {
		tab = &compactID
	}
	for t := T(1); t < numT; t++ {
		if tab[t] == id {
			return t, true
		}
	}
	return 0, false
}

// elemID is the compact id of a collection element / key type.
func elemID(t T, one bool) byte {
	if t == Bool && one {
		return 1
	}
	return compactID[t]
}

func compactT(id byte) (T, bool) {
	if id == 1 {
		return Bool, true
	}
	for t := T(1); t < numT; t++ {
		if compactID[t] == id {
			return t, true
		}
	}
	return 0, false
}

func (d Dialect) wireMsgType(logical int) byte {
	if d.LibMsgTypesFromZero {
		return byte(logical - 1)
	}
	return byte(logical)
}

func (d Dialect) logicalMsgType(wire byte) int {
	if d.LibMsgTypesFromZero {
		return int(wire) + 1
	}
	return int(wire)
}

// Alt drives the choice of alternative conformant forms: each decision point
// (a field header that could use the delta form, a list/set header that could
// use the short form) consumes one entry; true selects the long form. An
// exhausted or nil Alt selects the canonical (shortest) form everywhere.
type Alt struct {
	Long []bool
	pos  int
	Used int // number of decision points at which the long form was taken
}

func (a *Alt) next() bool {
	if a == nil || a.pos >= len(a.Long) {
		return false
	}
	v := a.Long[a.pos]
	a.pos++
	if v {
		a.Used++
	}
	return v
}

// Encoder appends encodings to Buf.
type Encoder struct {
	P   Proto
	D   Dialect
	Alt *Alt
	Buf []byte
}

func (e *Encoder) byte1(b byte)  { e.Buf = append(e.Buf, b) }
func (e *Encoder) be16(v uint16) { e.Buf = binary.BigEndian.AppendUint16(e.Buf, v) }
func (e *Encoder) be32(v uint32) { e.Buf = binary.BigEndian.AppendUint32(e.Buf, v) }
func (e *Encoder) be64(v uint64) { e.Buf = binary.BigEndian.AppendUint64(e.Buf, v) }
func (e *Encoder) le64(v uint64) { e.Buf = binary.LittleEndian.AppendUint64(e.Buf, v) }
func (e *Encoder) uleb(v uint64) {
	for v >= 0x80 {
		e.Buf = append(e.Buf, byte(v)|0x80)
		v >>= 7
	}
	e.Buf = append(e.Buf, byte(v))
}
func zigzag(v int64) uint64 { return uint64(v<<1) ^ uint64(v>>63) }
func unzigzag(u uint64) int64 {
	return int64(u>>1) ^ -int64(u&1)
}

// Message appends a message header.
func (e *Encoder) Message(m Message) {
	wt := e.D.wireMsgType(m.Type)
	switch e.P {
	case BinaryStrict:
		ver := uint32(0x80010000)
		if e.D.LibStrictVersionZero {
			ver = 0x80000000
		}
		e.be32(ver | uint32(wt))
		e.be32(uint32(len(m.Name)))
		e.Buf = append(e.Buf, m.Name...)
		e.be32(uint32(m.SeqID))
	case BinaryNonStrict:
		e.be32(uint32(len(m.Name)))
		e.Buf = append(e.Buf, m.Name...)
		e.byte1(wt)
		e.be32(uint32(m.SeqID))
	case Compact:
		e.byte1(0x82)
		if e.D.LibCompactMsgHeader {
			e.byte1(wt)
		} else {
			e.byte1(wt<<5 | 1)
		}
		e.uleb(uint64(uint32(m.SeqID)))
		e.uleb(uint64(len(m.Name)))
		e.Buf = append(e.Buf, m.Name...)
	}
}

// Value appends the encoding of v (a struct, or any other value as it appears
// inside a container or after a field header).
func (e *Encoder) Value(v Value) {
	if e.P == Compact {
		e.compactValue(v, false)
	} else {
		e.binaryValue(v)
	}
}

func (e *Encoder) binaryValue(v Value) {
	switch v.T {
	case Bool:
		if v.B {
			e.byte1(1)
		} else {
			e.byte1(0)
		}
	case Byte:
		e.byte1(byte(v.I))
	case I16:
		e.be16(uint16(v.I))
	case I32:
		e.be32(uint32(v.I))
	case I64:
		e.be64(uint64(v.I))
	case Double:
		e.be64(v.F)
	case String:
		e.be32(uint32(len(v.S)))
		e.Buf = append(e.Buf, v.S...)
	case List, Set:
		e.byte1(e.D.binID(v.ET))
		e.be32(uint32(len(v.Elems)))
		for _, x := range v.Elems {
			e.binaryValue(x)
		}
	case Map:
		e.byte1(e.D.binID(v.KT))
		e.byte1(e.D.binID(v.ET))
		e.be32(uint32(len(v.Elems)))
		for i := range v.Elems {
			e.binaryValue(v.Keys[i])
			e.binaryValue(v.Elems[i])
		}
	case Struct:
		for _, f := range v.Fields {
			e.byte1(e.D.binID(f.V.T))
			e.be16(uint16(f.ID))
			e.binaryValue(f.V)
		}
		e.byte1(0)
		if e.D.LibBinaryStopWithID {
			e.be16(0)
		}
	default:
		panic("thriftspec: cannot encode " + v.T.String())
	}
}

func (e *Encoder) compactValue(v Value, _ bool) {
	switch v.T {
	case Bool: // element of a collection
		if v.B {
			e.byte1(1)
		} else {
			e.byte1(e.D.CompactFalseElem)
		}
	case Byte:
		e.byte1(byte(v.I))
	case I16, I32, I64:
		e.uleb(zigzag(v.I))
	case Double:
		if e.D.LibCompactDoubleBE {
			e.be64(v.F)
		} else {
			e.le64(v.F)
		}
	case String:
		e.uleb(uint64(len(v.S)))
		e.Buf = append(e.Buf, v.S...)
	case List, Set:
		n := len(v.Elems)
		if n <= 14 && !e.Alt.next() {
			e.byte1(byte(n)<<4 | elemID(v.ET, v.ET1))
		} else {
			e.byte1(0xF0 | elemID(v.ET, v.ET1))
			e.uleb(uint64(n))
		}
		for _, x := range v.Elems {
			e.compactValue(x, false)
		}
	case Map:
		n := len(v.Elems)
		if n == 0 {
			e.byte1(0)
			return
		}
		e.uleb(uint64(n))
		e.byte1(elemID(v.KT, v.KT1)<<4 | elemID(v.ET, v.ET1))
		for i := range v.Elems {
			e.compactValue(v.Keys[i], false)
			e.compactValue(v.Elems[i], false)
		}
	case Struct:
		last := int16(0)
		for _, f := range v.Fields {
			tid := compactID[f.V.T]
			if f.V.T == Bool && f.V.B {
				tid = 1
			}
			delta := int(f.ID) - int(last)
			if delta >= 1 && delta <= 15 && !e.Alt.next() {
				e.byte1(byte(delta)<<4 | tid)
			} else {
				e.byte1(tid)
				e.uleb(zigzag(int64(f.ID)))
			}
			if f.V.T != Bool {
				e.compactValue(f.V, false)
			}
			last = f.ID
		}
		e.byte1(0)
	default:
		panic("thriftspec: cannot encode " + v.T.String())
	}
}

// Encode is a convenience wrapper: the canonical encoding of v.
func Encode(p Proto, d Dialect, v Value) []byte {
	e := Encoder{P: p, D: d}
	e.Value(v)
	return e.Buf
}

// EncodeAlt encodes v taking long forms as directed by long.
func EncodeAlt(p Proto, d Dialect, v Value, long []bool) (b []byte, used int) {
	a := &Alt{Long: long}
	e := Encoder{P: p, D: d, Alt: a}
	e.Value(v)
	return e.Buf, a.Used
}

// EncodeMessage encodes a message header.
func EncodeMessage(p Proto, d Dialect, m Message) []byte {
	e := Encoder{P: p, D: d}
	e.Message(m)
	return e.Buf
}

// ---------------------------------------------------------------- decoder

var ErrShort = errors.New("thriftspec: input too short")

// Decoder reads from B at Off.
type Decoder struct {
	P   Proto
	D   Dialect
	B   []byte
	Off int
	// Strict restricts the decoder to encodings whose conformance is beyond
	// doubt (used when arbitrary bytes are judged): varints in their shortest form
	// and within 64 bits, bool bytes 0/1 only (the disputed byte 2 for a false
	// collection element is rejected, not interpreted), collection element type
	// BOOL written as 2 only, field ids that do not overflow an i16.
	Strict bool
	depth  int
}

func (d *Decoder) need(n int) error {
	if n < 0 || d.Off+n > len(d.B) {
		return ErrShort
	}
	return nil
}

func (d *Decoder) u8() (byte, error) {
	if err := d.need(1); err != nil {
		return 0, err
	}
	b := d.B[d.Off]
	d.Off++
	return b, nil
}

func (d *Decoder) fixed(n int) ([]byte, error) {
	if err := d.need(n); err != nil {
		return nil, err
	}
	b := d.B[d.Off : d.Off+n]
	d.Off += n
	return b, nil
}

func (d *Decoder) uleb() (uint64, error) {
	var v uint64
	for shift := uint(0); shift < 70; shift += 7 {
		b, err := d.u8()
		if err != nil {
			return 0, err
		}
		if d.Strict && (shift == 63 && b > 1 || shift > 0 && b == 0) {
			return 0, errors.New("thriftspec: varint overflows 64 bits or is not in its shortest form")
		}
		v |= uint64(b&0x7f) << shift
		if b < 0x80 {
			return v, nil
		}
	}
	return 0, errors.New("thriftspec: varint too long")
}

// Message decodes a message header.
func (d *Decoder) Message() (Message, error) {
	var m Message
	switch d.P {
	case BinaryStrict, BinaryNonStrict:
		b, err := d.fixed(4)
		if err != nil {
			return m, err
		}
		w := binary.BigEndian.Uint32(b)
		if w&0x80000000 != 0 { // versioned
			m.Type = d.D.logicalMsgType(byte(w & 0xff))
			n, err := d.fixed(4)
			if err != nil {
				return m, err
			}
			s, err := d.fixed(int(int32(binary.BigEndian.Uint32(n))))
			if err != nil {
				return m, err
			}
			m.Name = string(s)
		} else {
			s, err := d.fixed(int(w))
			if err != nil {
				return m, err
			}
			m.Name = string(s)
			t, err := d.u8()
			if err != nil {
				return m, err
			}
			m.Type = d.D.logicalMsgType(t)
		}
		q, err := d.fixed(4)
		if err != nil {
			return m, err
		}
		m.SeqID = int32(binary.BigEndian.Uint32(q))
	case Compact:
		p, err := d.u8()
		if err != nil {
			return m, err
		}
		if p != 0x82 {
			return m, fmt.Errorf("thriftspec: protocol id %#x", p)
		}
		vt, err := d.u8()
		if err != nil {
			return m, err
		}
		if d.D.LibCompactMsgHeader {
			m.Type = d.D.logicalMsgType(vt)
		} else {
			if vt&0x1f != 1 {
				return m, fmt.Errorf("thriftspec: version %d", vt&0x1f)
			}
			m.Type = d.D.logicalMsgType(vt >> 5)
		}
		q, err := d.uleb()
		if err != nil {
			return m, err
		}
		m.SeqID = int32(uint32(q))
		n, err := d.uleb()
		if err != nil {
			return m, err
		}
		if n > uint64(len(d.B)) {
			return m, ErrShort
		}
		s, err := d.fixed(int(n))
		if err != nil {
			return m, err
		}
		m.Name = string(s)
	}
	return m, nil
}

// Value decodes one value of type t.
func (d *Decoder) Value(t T) (Value, error) {
	d.depth++
	defer func() { d.depth-- }()
	if d.depth > 64 {
		return Value{}, errors.New("thriftspec: nesting too deep")
	}
	if d.P == Compact {
		return d.compactValue(t)
	}
	return d.binaryValue(t)
}

func (d *Decoder) count(u uint64) (int, error) {
	if u > uint64(len(d.B)-d.Off) { // every element takes at least one byte
		return 0, ErrShort
	}
	return int(u), nil
}

func (d *Decoder) binaryValue(t T) (Value, error) {
	v := Value{T: t}
	switch t {
	case Bool:
		b, err := d.u8()
		if err != nil {
			return v, err
		}
		if d.Strict && b > 1 {
			return v, fmt.Errorf("thriftspec: bool byte %d", b)
		}
		v.B = b != 0
	case Byte:
		b, err := d.u8()
		if err != nil {
			return v, err
		}
		v.I = int64(int8(b))
	case I16:
		b, err := d.fixed(2)
		if err != nil {
			return v, err
		}
		v.I = int64(int16(binary.BigEndian.Uint16(b)))
	case I32:
		b, err := d.fixed(4)
		if err != nil {
			return v, err
		}
		v.I = int64(int32(binary.BigEndian.Uint32(b)))
	case I64:
		b, err := d.fixed(8)
		if err != nil {
			return v, err
		}
		v.I = int64(binary.BigEndian.Uint64(b))
	case Double:
		b, err := d.fixed(8)
		if err != nil {
			return v, err
		}
		v.F = binary.BigEndian.Uint64(b)
	case String:
		b, err := d.fixed(4)
		if err != nil {
			return v, err
		}
		n := int32(binary.BigEndian.Uint32(b))
		if n < 0 {
			return v, errors.New("thriftspec: negative length")
		}
		s, err := d.fixed(int(n))
		if err != nil {
			return v, err
		}
		v.S = append([]byte{}, s...)
	case List, Set:
		tb, err := d.u8()
		if err != nil {
			return v, err
		}
		et, ok := d.D.binT(tb)
		if !ok {
			return v, fmt.Errorf("thriftspec: unknown binary type id %d", tb)
		}
		v.ET = et
		b, err := d.fixed(4)
		if err != nil {
			return v, err
		}
		sz := int32(binary.BigEndian.Uint32(b))
		if sz < 0 {
			return v, errors.New("thriftspec: negative size")
		}
		n, err := d.count(uint64(sz))
		if err != nil {
			return v, err
		}
		for i := 0; i < n; i++ {
			x, err := d.Value(et)
			if err != nil {
				return v, err
			}
			v.Elems = append(v.Elems, x)
		}
	case Map:
		kb, err := d.u8()
		if err != nil {
			return v, err
		}
		vb, err := d.u8()
		if err != nil {
			return v, err
		}
		b, err := d.fixed(4)
		if err != nil {
			return v, err
		}
		sz := int32(binary.BigEndian.Uint32(b))
		if sz < 0 {
			return v, errors.New("thriftspec: negative size")
		}
		kt, ok1 := d.D.binT(kb)
		vt, ok2 := d.D.binT(vb)
		if (!ok1 || !ok2) && sz > 0 {
			return v, fmt.Errorf("thriftspec: unknown binary type ids %d/%d", kb, vb)
		}
		v.KT, v.ET = kt, vt
		n, err := d.count(uint64(sz))
		if err != nil {
			return v, err
		}
		for i := 0; i < n; i++ {
			k, err := d.Value(kt)
			if err != nil {
				return v, err
			}
			x, err := d.Value(vt)
			if err != nil {
				return v, err
			}
			v.Keys = append(v.Keys, k)
			v.Elems = append(v.Elems, x)
		}
	case Struct:
		for {
			tb, err := d.u8()
			if err != nil {
				return v, err
			}
			if tb == 0 {
				if d.D.LibBinaryStopWithID {
					if _, err := d.fixed(2); err != nil {
						return v, err
					}
				}
				break
			}
			ft, ok := d.D.binT(tb)
			if !ok {
				return v, fmt.Errorf("thriftspec: unknown binary type id %d", tb)
			}
			b, err := d.fixed(2)
			if err != nil {
				return v, err
			}
			id := int16(binary.BigEndian.Uint16(b))
			x, err := d.Value(ft)
			if err != nil {
				return v, err
			}
			v.Fields = append(v.Fields, Field{ID: id, V: x})
		}
	default:
		return v, fmt.Errorf("thriftspec: cannot decode %s", t)
	}
	return v, nil
}

func (d *Decoder) compactValue(t T) (Value, error) {
	v := Value{T: t}
	switch t {
	case Bool:
		b, err := d.u8()
		if err != nil {
			return v, err
		}
		if d.Strict && b == 2 {
			return v, errors.New("thriftspec: bool element byte 2 (not judged)")
		}
		switch b {
		case 1:
			v.B = true
		case 0, 2:
			v.B = false
		default:
			return v, fmt.Errorf("thriftspec: bool element byte %d", b)
		}
	case Byte:
		b, err := d.u8()
		if err != nil {
			return v, err
		}
		v.I = int64(int8(b))
	case I16, I32, I64:
		u, err := d.uleb()
		if err != nil {
			return v, err
		}
		v.I = unzigzag(u)
		switch {
		case t == I16 && (v.I < math.MinInt16 || v.I > math.MaxInt16), t == I32 && (v.I < math.MinInt32 || v.I > math.MaxInt32):
			return v, fmt.Errorf("thriftspec: %s out of range", t)
		}
	case Double:
		b, err := d.fixed(8)
		if err != nil {
			return v, err
		}
		if d.D.LibCompactDoubleBE {
			v.F = binary.BigEndian.Uint64(b)
		} else {
			v.F = binary.LittleEndian.Uint64(b)
		}
	case String:
		n, err := d.uleb()
		if err != nil {
			return v, err
		}
		if n > uint64(len(d.B)-d.Off) {
			return v, ErrShort
		}
		s, _ := d.fixed(int(n))
		v.S = append([]byte{}, s...)
	case List, Set:
		h, err := d.u8()
		if err != nil {
			return v, err
		}
		et, ok := compactT(h & 0x0f)
		if !ok {
			return v, fmt.Errorf("thriftspec: unknown compact type id %d", h&0x0f)
		}
		v.ET, v.ET1 = et, h&0x0f == 1
		sz := uint64(h >> 4)
		if sz == 15 {
			if sz, err = d.uleb(); err != nil {
				return v, err
			}
		}
		n, err := d.count(sz)
		if err != nil {
			return v, err
		}
		for i := 0; i < n; i++ {
			x, err := d.Value(et)
			if err != nil {
				return v, err
			}
			v.Elems = append(v.Elems, x)
		}
	case Map:
		sz, err := d.uleb()
		if err != nil {
			return v, err
		}
		if sz == 0 {
			return v, nil
		}
		h, err := d.u8()
		if err != nil {
			return v, err
		}
		kt, ok1 := compactT(h >> 4)
		vt, ok2 := compactT(h & 0x0f)
		if !ok1 || !ok2 {
			return v, fmt.Errorf("thriftspec: unknown compact type ids %#x", h)
		}
		v.KT, v.ET = kt, vt
		v.KT1, v.ET1 = h>>4 == 1, h&0x0f == 1
		n, err := d.count(sz)
		if err != nil {
			return v, err
		}
		for i := 0; i < n; i++ {
			k, err := d.Value(kt)
			if err != nil {
				return v, err
			}
			x, err := d.Value(vt)
			if err != nil {
				return v, err
			}
			v.Keys = append(v.Keys, k)
			v.Elems = append(v.Elems, x)
		}
	case Struct:
		last := int16(0)
		for {
			h, err := d.u8()
			if err != nil {
				return v, err
			}
			if h == 0 {
				break
			}
			tid := h & 0x0f
			var id int16
			if h>>4 != 0 {
				if d.Strict && int(last)+int(h>>4) > math.MaxInt16 {
					return v, errors.New("thriftspec: field id delta overflows")
				}
				id = last + int16(h>>4)
			} else {
				u, err := d.uleb()
				if err != nil {
					return v, err
				}
				z := unzigzag(u)
				if z < math.MinInt16 || z > math.MaxInt16 {
					return v, errors.New("thriftspec: field id out of range")
				}
				id = int16(z)
			}
			var x Value
			switch tid {
			case 1:
				x = Value{T: Bool, B: true}
			case 2:
				x = Value{T: Bool, B: false}
			default:
				ft, ok := compactT(tid)
				if !ok {
					return v, fmt.Errorf("thriftspec: unknown compact type id %d", tid)
				}
				if x, err = d.Value(ft); err != nil {
					return v, err
				}
			}
			v.Fields = append(v.Fields, Field{ID: id, V: x})
			last = id
		}
	default:
		return v, fmt.Errorf("thriftspec: cannot decode %s", t)
	}
	return v, nil
}

// Decode decodes exactly one value of type t from b; trailing bytes are an error.
func Decode(p Proto, dl Dialect, b []byte, t T) (Value, error) {
	d := Decoder{P: p, D: dl, B: b}
	v, err := d.Value(t)
	if err != nil {
		return v, err
	}
	if d.Off != len(b) {
		return v, fmt.Errorf("thriftspec: %d trailing bytes", len(b)-d.Off)
	}
	return v, nil
}

// DecodeStrict is Decode with Decoder.Strict set.
func DecodeStrict(p Proto, dl Dialect, b []byte, t T) (Value, error) {
	d := Decoder{P: p, D: dl, B: b, Strict: true}
	v, err := d.Value(t)
	if err != nil {
		return v, err
	}
	if d.Off != len(b) {
		return v, fmt.Errorf("thriftspec: %d trailing bytes", len(b)-d.Off)
	}
	return v, nil
}
