package thriftspec

import (
	"bytes"
	"fmt"
	"sort"
)

// Key returns a canonical byte string for v (used to sort map/set entries and
// to compare trees irrespective of map/set entry order and of struct field
// order).
func Key(v Value) []byte {
	return Encode(BinaryStrict, Dialect{}, Canon(v))
}

// Canon returns v with map entries and set elements sorted by their canonical
// key and struct fields sorted by id, recursively.
func Canon(v Value) Value {
	out := v
	switch v.T {
	case List:
		out.Elems = make([]Value, len(v.Elems))
		for i, x := range v.Elems {
			out.Elems[i] = Canon(x)
		}
	case Set:
		out.Elems = make([]Value, len(v.Elems))
		for i, x := range v.Elems {
			out.Elems[i] = Canon(x)
		}
		sort.SliceStable(out.Elems, func(i, j int) bool { return bytes.Compare(Key(out.Elems[i]), Key(out.Elems[j])) < 0 })
	case Map:
		n := len(v.Elems)
		idx := make([]int, n)
		ks := make([][]byte, n)
		ck := make([]Value, n)
		cv := make([]Value, n)
		for i := range idx {
			idx[i] = i
			ck[i] = Canon(v.Keys[i])
			cv[i] = Canon(v.Elems[i])
			ks[i] = Encode(BinaryStrict, Dialect{}, ck[i])
		}
		sort.SliceStable(idx, func(a, b int) bool { return bytes.Compare(ks[idx[a]], ks[idx[b]]) < 0 })
		out.Keys = make([]Value, n)
		out.Elems = make([]Value, n)
		for i, j := range idx {
			out.Keys[i] = ck[j]
			out.Elems[i] = cv[j]
		}
	case Struct:
		out.Fields = make([]Field, len(v.Fields))
		for i, f := range v.Fields {
			out.Fields[i] = Field{ID: f.ID, V: Canon(f.V)}
		}
		sort.SliceStable(out.Fields, func(i, j int) bool { return out.Fields[i].ID < out.Fields[j].ID })
	}
	return out
}

// Same reports whether a and b are the same logical content irrespective of
// map/set entry order and of struct field order. Empty containers compare by
// size only (a compact empty map carries no key/value types).
func Same(a, b Value) bool {
	return same(Canon(stripEmptyMapTypes(a)), Canon(stripEmptyMapTypes(b)))
}

// stripEmptyMapTypes clears the key/value types of empty maps (a compact empty
// map carries none), so that they do not influence the canonical order.
func stripEmptyMapTypes(v Value) Value {
	out := v
	switch v.T {
	case List, Set, Map:
		if v.T == Map && len(v.Elems) == 0 {
			out.KT, out.ET = Stop, Stop
			return out
		}
		out.Elems = make([]Value, len(v.Elems))
		for i, x := range v.Elems {
			out.Elems[i] = stripEmptyMapTypes(x)
		}
		if v.T == Map {
			out.Keys = make([]Value, len(v.Keys))
			for i, x := range v.Keys {
				out.Keys[i] = stripEmptyMapTypes(x)
			}
		}
	case Struct:
		out.Fields = make([]Field, len(v.Fields))
		for i, f := range v.Fields {
			out.Fields[i] = Field{ID: f.ID, V: stripEmptyMapTypes(f.V)}
		}
	}
	return out
}

func same(a, b Value) bool {
	if a.T != b.T {
		return false
	}
	switch a.T {
	case Bool:
		return a.B == b.B
	case Byte, I16, I32, I64:
		return a.I == b.I
	case Double:
		return a.F == b.F
	case String:
		return bytes.Equal(a.S, b.S)
	case List, Set:
		if len(a.Elems) != len(b.Elems) {
			return false
		}
		if a.ET != b.ET {
			return false
		}
		for i := range a.Elems {
			if !same(a.Elems[i], b.Elems[i]) {
				return false
			}
		}
		return true
	case Map:
		if len(a.Elems) != len(b.Elems) {
			return false
		}
		if len(a.Elems) == 0 {
			return true
		}
		if a.KT != b.KT || a.ET != b.ET {
			return false
		}
		for i := range a.Elems {
			if !same(a.Keys[i], b.Keys[i]) || !same(a.Elems[i], b.Elems[i]) {
				return false
			}
		}
		return true
	case Struct:
		if len(a.Fields) != len(b.Fields) {
			return false
		}
		for i := range a.Fields {
			if a.Fields[i].ID != b.Fields[i].ID || !same(a.Fields[i].V, b.Fields[i].V) {
				return false
			}
		}
		return true
	}
	return false
}

// Describe renders a short human readable form of v (for failure messages).
func Describe(v Value) string {
	var sb bytes.Buffer
	describe(&sb, v, 0)
	s := sb.String()
	if len(s) > 600 {
		s = s[:600] + "…"
	}
	return s
}

func describe(sb *bytes.Buffer, v Value, depth int) {
	switch v.T {
	case Bool:
		fmt.Fprintf(sb, "%v", v.B)
	case Byte, I16, I32, I64:
		fmt.Fprintf(sb, "%s(%d)", v.T, v.I)
	case Double:
		fmt.Fprintf(sb, "f64(%#x)", v.F)
	case String:
		fmt.Fprintf(sb, "%q", v.S)
	case List, Set:
		fmt.Fprintf(sb, "%s<%s>[", v.T, v.ET)
		for i, x := range v.Elems {
			if i > 0 {
				sb.WriteByte(' ')
			}
			describe(sb, x, depth+1)
		}
		sb.WriteByte(']')
	case Map:
		fmt.Fprintf(sb, "MAP<%s,%s>{", v.KT, v.ET)
		for i := range v.Elems {
			if i > 0 {
				sb.WriteByte(' ')
			}
			describe(sb, v.Keys[i], depth+1)
			sb.WriteByte(':')
			describe(sb, v.Elems[i], depth+1)
		}
		sb.WriteByte('}')
	case Struct:
		sb.WriteByte('{')
		for i, f := range v.Fields {
			if i > 0 {
				sb.WriteByte(' ')
			}
			fmt.Fprintf(sb, "%d=", f.ID)
			describe(sb, f.V, depth+1)
		}
		sb.WriteByte('}')
	default:
		fmt.Fprintf(sb, "?%d", v.T)
	}
}

// Stats summarises which clauses of the specification a tree exercises.
type Stats struct {
	Fields, Containers, BoolFields, BoolElems, Doubles, EmptyMaps, Maps, Sets, Lists int
	ShortLists, LongLists                                                            int // list/set headers below / at or above 15 elements
	DeltaFields, AbsFields                                                           int // compact field header forms (ascending wire order assumed)
	Types                                                                            [numT]int
	MaxDepth                                                                         int
}

func (s *Stats) Add(v Value, depth int) {
	if depth > s.MaxDepth {
		s.MaxDepth = depth
	}
	s.Types[v.T]++
	switch v.T {
	case Double:
		s.Doubles++
	case List, Set:
		s.Containers++
		if v.T == List {
			s.Lists++
		} else {
			s.Sets++
		}
		if len(v.Elems) <= 14 {
			s.ShortLists++
		} else {
			s.LongLists++
		}
		for _, x := range v.Elems {
			if x.T == Bool {
				s.BoolElems++
			}
			s.Add(x, depth+1)
		}
	case Map:
		s.Containers++
		s.Maps++
		if len(v.Elems) == 0 {
			s.EmptyMaps++
		}
		for i := range v.Elems {
			if v.Keys[i].T == Bool {
				s.BoolElems++
			}
			if v.Elems[i].T == Bool {
				s.BoolElems++
			}
			s.Add(v.Keys[i], depth+1)
			s.Add(v.Elems[i], depth+1)
		}
	case Struct:
		last := int16(0)
		for _, f := range v.Fields {
			s.Fields++
			if f.V.T == Bool {
				s.BoolFields++
			}
			if d := int(f.ID) - int(last); d >= 1 && d <= 15 {
				s.DeltaFields++
			} else {
				s.AbsFields++
			}
			last = f.ID
			s.Add(f.V, depth+1)
		}
	}
}

// WithBool1 returns v with every BOOL element type of lists and sets (lists)
// and every BOOL key / value type of maps (maps) marked to be announced as 1.
func WithBool1(v Value, lists, maps bool) Value {
	out := v
	switch v.T {
	case List, Set:
		out.ET1 = lists && v.ET == Bool
	case Map:
		out.ET1 = maps && v.ET == Bool
		out.KT1 = maps && v.KT == Bool
	}
	if v.Elems != nil {
		out.Elems = make([]Value, len(v.Elems))
		for i := range v.Elems {
			out.Elems[i] = WithBool1(v.Elems[i], lists, maps)
		}
	}
	if v.Keys != nil {
		out.Keys = make([]Value, len(v.Keys))
		for i := range v.Keys {
			out.Keys[i] = WithBool1(v.Keys[i], lists, maps)
		}
	}
	if v.Fields != nil {
		out.Fields = make([]Field, len(v.Fields))
		for i, f := range v.Fields {
			out.Fields[i] = Field{ID: f.ID, V: WithBool1(f.V, lists, maps)}
		}
	}
	return out
}

// HasBool1 reports whether v holds a list/set (lists) or a non-empty map (maps)
// whose BOOL element / key / value type is marked to be announced as 1.
func HasBool1(v Value, lists, maps bool) bool {
	switch v.T {
	case List, Set:
		if lists && v.ET1 {
			return true
		}
	case Map:
		if maps && len(v.Elems) > 0 && (v.ET1 || v.KT1) {
			return true
		}
	}
	for _, x := range v.Elems {
		if HasBool1(x, lists, maps) {
			return true
		}
	}
	for _, x := range v.Keys {
		if HasBool1(x, lists, maps) {
			return true
		}
	}
	for _, f := range v.Fields {
		if HasBool1(f.V, lists, maps) {
			return true
		}
	}
	return false
}

// HasBoolMap reports whether v holds a non-empty map with a BOOL key or value type.
func HasBoolMap(v Value) bool {
	return HasBool1(WithBool1(v, false, true), false, true)
}
