package c06

import (
	"testing"

	"verif/harness/jgen"
)

var fuzzTargets = func() []jgen.TypeDesc {
	s, a := jgen.TypeDesc{K: "string"}, jgen.TypeDesc{K: "any"}
	return []jgen.TypeDesc{a, {K: "@Rec"}, {K: "@RecA"}, {K: "@SE2"}, {K: "@SE9"}, {K: "@Wide"}, {K: "@UT"}, {K: "@KText"}, {K: "raw"}, {K: "number"}, {K: "time"}, {K: "bytes"}, {K: "chan"}, {K: "complex128"},
		{K: "map", Key: &s, Elem: &a}, {K: "map", Key: &jgen.TypeDesc{K: "float64"}, Elem: &s}, {K: "slice", Elem: &jgen.TypeDesc{K: "@Rec"}}, {K: "array", Len: 1, Elem: &jgen.TypeDesc{K: "ptr", Elem: &s}},
		{K: "map", Key: &s, Elem: &jgen.TypeDesc{K: "map", Key: &s, Elem: &jgen.TypeDesc{K: "bytes"}}}}
}()

func FuzzUnmarshalNoCrash(f *testing.F) {
	for i, s := range []string{`{"v":1,"next":{"v":2},"kids":[{"v":3}],"m":{"a":null}}`, `{"B":{"a":[{"N":"x","B":null}],"I":[1,{"a":2}]}}`, `[`, `{"a":`, `"\ud83d"`, `1e400`, `{"1/2":3}`, `[[[[[[[[[[`, "\"\x00\"", `{"F31":"x"}`} {
		f.Add([]byte(s), uint8(i), uint16(i*37))
	}
	f.Fuzz(func(t *testing.T, doc []byte, sel uint8, flags uint16) {
		if len(doc) > 1<<15 {
			return
		}
		td := fuzzTargets[int(sel)%len(fuzzTargets)]
		exec(t, "FuzzUnmarshalNoCrash", Case{Kind: "decode", Type: td, Doc: doc, API: []string{"Unmarshal", "Parse", "Decoder"}[int(flags)%3], Flags: uint32(flags)})
		exec(t, "FuzzUnmarshalNoCrash", Case{Kind: "bytes", Doc: doc, API: "bytes"})
	})
}
