// C06 — json never panics, faults, overflows the stack or hangs.
//
// Every call runs under recover (with debug.SetPanicOnFault so that wild
// address faults become panics) and is journalled first: if the process dies
// (stack overflow, fatal error) the driver turns the last journal record into
// the replay file. A watchdog aborts the process when one case exceeds 120 s.
package c06

import (
	"bytes"
	stdjson "encoding/json"
	"fmt"
	"os"
	"reflect"
	"runtime/debug"
	"strings"
	"sync/atomic"
	"testing"
	"time"

	segjson "github.com/segmentio/encoding/json"
	"pgregory.net/rapid"

	"verif/harness/evid"
	"verif/harness/jgen"
)

func TestMain(m *testing.M) {
	go watchdog()
	evid.Main(m, "C06")
}

// Case kinds:
//
//	"encode":  Type/Value (generated, possibly unsupported kinds) through API
//	"hostile": Hostile (named constructor) with N through API
//	"decode":  Doc into Type (prior state Init) through API with Flags
//	"bytes":   Doc through the byte-only entry points
type Case struct {
	Kind    string        `json:"kind"`
	Type    jgen.TypeDesc `json:"type,omitempty"`
	Value   *jgen.Recipe  `json:"value,omitempty"`
	Init    *jgen.Recipe  `json:"init,omitempty"`
	ByPtr   bool          `json:"by_ptr,omitempty"`
	Hostile string        `json:"hostile,omitempty"`
	N       int           `json:"n,omitempty"`
	Doc     []byte        `json:"doc,omitempty"`
	DocGen  string        `json:"doc_gen,omitempty"` // "<unit>*<n>+<tail>": nesting bombs are described, not stored
	API     string        `json:"api"`
	Flags   uint32        `json:"flags,omitempty"`
}

var caseStart atomic.Int64 // unix nanos of the case in flight (0 = idle)

func watchdog() {
	for {
		time.Sleep(2 * time.Second)
		if s := caseStart.Load(); s != 0 && time.Since(time.Unix(0, s)) > 120*time.Second {
			fmt.Fprintln(os.Stderr, "WATCHDOG: a single library call exceeded 120 s; the journalled case is the failing input")
			os.Exit(3)
		}
	}
}

// ------------------------------------------------------------------ hostile values

type node struct {
	V    int
	Next *node
	Kids []*node
	M    map[string]*node
	I    any
}

// cycles that pass through interface types other than interface{}
type linker interface{ Link() }

type inode struct {
	V    int
	Next linker // non-empty interface
}

func (*inode) Link() {}

type Any interface{} // a named empty interface is a distinct type from interface{}

type anode struct {
	V    int
	Next Any
	Kids []Any
	M    map[string]linker
}

func (*anode) Link() {}

type unsup struct {
	A int
	C chan int
	F func()
	X complex128
}

func hostileValue(name string, n int) any {
	switch name {
	case "ptr-cycle":
		a := &node{V: 1}
		b := a
		for i := 1; i < n; i++ {
			b.Next = &node{V: i}
			b = b.Next
		}
		b.Next = a
		return a
	case "slice-cycle":
		s := make([]any, 1)
		cur := s
		for i := 1; i < n; i++ {
			nx := make([]any, 1)
			cur[0] = nx
			cur = nx
		}
		cur[0] = s
		return s
	case "map-cycle":
		m := map[string]any{}
		cur := m
		for i := 1; i < n; i++ {
			nx := map[string]any{}
			cur["k"] = nx
			cur = nx
		}
		cur["self"] = m
		return m
	case "intmap-cycle":
		m := map[int]any{}
		m[1] = m
		return m
	case "iface-cycle":
		var x any
		x = &x
		return x
	case "nonempty-iface-cycle":
		a := &inode{V: 1}
		cur := a
		for i := 1; i < n; i++ {
			nx := &inode{V: i}
			cur.Next = nx
			cur = nx
		}
		cur.Next = a
		return a
	case "named-empty-iface-cycle":
		a := &anode{V: 1}
		a.Next = a
		return a
	case "named-iface-slice-cycle":
		a := &anode{V: 1}
		a.Kids = []Any{1, a}
		return *a
	case "iface-map-cycle":
		a := &anode{V: 1, M: map[string]linker{}}
		a.M["self"] = a
		return a
	case "mixed-cycle":
		a := &node{V: 1, M: map[string]*node{}}
		b := &node{V: 2, Kids: []*node{a}}
		a.M["b"] = b
		a.I = []any{map[string]any{"a": a}}
		return a
	case "struct-map-cycle":
		a := &node{M: map[string]*node{}}
		a.M["a"] = a
		return *a
	case "deep-slice":
		var v any = "leaf"
		for i := 0; i < n; i++ {
			v = []any{v}
		}
		return v
	case "deep-map":
		var v any = 1
		for i := 0; i < n; i++ {
			v = map[string]any{"k": v}
		}
		return v
	case "deep-ptr":
		a := &node{}
		cur := a
		for i := 0; i < n; i++ {
			cur.Next = &node{V: i}
			cur = cur.Next
		}
		return a
	case "deep-kids":
		a := &node{}
		cur := a
		for i := 0; i < n; i++ {
			k := &node{V: i}
			cur.Kids = []*node{k}
			cur = k
		}
		return a
	case "unsupported-struct":
		return unsup{A: 1, C: make(chan int), F: func() {}, X: 1i}
	case "unsupported-in-any":
		return map[string]any{"a": []any{1, make(chan int)}, "b": func() {}, "c": complex(1, 2)}
	case "nil":
		return nil
	case "typed-nil-ptr":
		return (*node)(nil)
	case "typed-nil-map":
		return map[string]any(nil)
	case "nil-in-any":
		return []any{nil, (*int)(nil), map[string]int(nil), []int(nil), (*node)(nil)}
	case "array1-ptr":
		x := 7
		return [1]*int{&x}
	case "array1-ptr-nil":
		return [1]*int{}
	case "struct-array1-ptr":
		x := 7
		return struct{ A [1]*int }{[1]*int{&x}}
	case "array1-map":
		return [1]map[string]int{{"a": 1}}
	case "array1-array1-ptr":
		return [1][1]*node{{&node{V: 3}}}
	case "struct-struct-ptr":
		return struct{ S struct{ P *node } }{struct{ P *node }{&node{V: 1}}}
	case "struct-ptr-nil":
		return struct{ P *node }{}
	case "map-ptrkey-text":
		return map[*jgen.TPtr]int{{S: "a"}: 1, nil: 2}
	case "map-ptrkey-plain":
		return map[*int]int{new(int): 1}
	case "map-ifacekey":
		return map[any]int{"a": 1, 2: 2}
	case "map-structkey":
		return map[jgen.EmbA]int{{A: 1}: 1}
	case "rec-map-type":
		return jgen.RecM{"a": {"b": nil, "c": {}}}
	case "rec-slice-type":
		return jgen.RecS{{}, nil, {{}}}
	case "rec-mapslice-type":
		return struct {
			X map[int]jgen.RecMS
			P *jgen.RecS
		}{X: map[int]jgen.RecMS{1: {"k": {nil, {}}}}}
	case "rec-map-type-cycle":
		m := jgen.RecM{}
		m["self"] = m
		return m
	case "nan":
		return []any{nanF(), float32(nanF()), map[string]float64{"x": nanF()}}
	case "chan-ptr":
		c := make(chan int)
		return &c
	case "chan-func-marshalers":
		// pointer-shaped kinds other than pointers and maps, with value-receiver marshal methods, nil and not
		return []any{jgen.ChanM(nil), jgen.ChanM(make(chan int, 2)), jgen.FuncT(nil), jgen.FuncT(func() int { return 1 }), struct{ C jgen.ChanM }{}, [1]jgen.ChanM{},
			map[string]jgen.FuncT{"a": nil}, jgen.HPS{}}
	case "chan-marshaler-nil":
		return jgen.ChanM(nil)
	case "map-ptrstructkey-text":
		v := int16(7)
		return map[jgen.KPS]int{{P: nil}: 1, {P: &v}: 2}
	}
	return nil
}

// nextI / cycT: a decode target that is cyclic through a non-empty interface holding a pointer
// (every level of the document is decoded into the same variable).
type nextI interface{ nx() }
type cycT struct {
	Next nextI
	Any  any
	Kids []nextI
}

func (*cycT) nx() {}

func hostileTarget(name string) any {
	switch name {
	case "cyclic-iface-target":
		x := &cycT{}
		x.Next = x
		return x
	case "cyclic-any-target":
		x := &cycT{}
		x.Any = x
		return x
	case "cyclic-kids-target":
		x := &cycT{}
		x.Kids = []nextI{x}
		return x
	case "iface-ptr-two-hops":
		// a holds &b, b holds &a
		var a, b any
		a, b = &b, &a
		return &a
	case "iface-ptrptr-cycle":
		// v holds &pv, pv is &v
		var v any
		pv := &v
		v = &pv
		return pv
	case "iface-ptr-three-hops":
		var a, b, c any
		a, b, c = &b, &c, &a
		return &a
	case "struct-any-two-hops":
		x, y := &cycT{}, &cycT{}
		x.Any, y.Any = y, x
		return x
	case "typed-nil-in-fields":
		// interfaces that hold nil pointers (nothing to decode into: a pointer held by an interface is
		// only reused when it is not nil)
		return &cycT{Next: (*cycT)(nil), Any: (*int)(nil), Kids: []nextI{(*cycT)(nil), nil}}
	case "typed-nil-in-any":
		var a any = (*cycT)(nil)
		return &a
	case "typed-nil-slice-elems":
		s := make([]any, 2, 4)
		s[0], s[1] = (*int)(nil), (*cycT)(nil)
		s = append(s, (*[]int)(nil))[:2]
		return &s
	case "typed-nil-map-values":
		return &map[string]any{"a": (*int)(nil), "Next": (*cycT)(nil), "Any": (*map[string]any)(nil)}
	case "typed-nil-array-elems":
		return &[3]any{(*int)(nil), (*cycT)(nil), (**int)(nil)}
	}
	return nil
}

var hostileTargets = []string{"cyclic-iface-target", "cyclic-any-target", "cyclic-kids-target", "typed-nil-in-fields", "typed-nil-in-any", "typed-nil-slice-elems", "typed-nil-map-values", "typed-nil-array-elems"}

// cyclicTargets: decode targets whose interfaces and pointers form cycles of one, two or three hops, or whose interfaces
// (fields, slice / array elements within and beyond the length, map values) hold typed nil pointers.
var cyclicTargets = []string{"cyclic-iface-target", "cyclic-any-target", "cyclic-kids-target", "iface-ptr-two-hops", "iface-ptrptr-cycle", "iface-ptr-three-hops", "struct-any-two-hops",
	"typed-nil-in-fields", "typed-nil-in-any", "typed-nil-slice-elems", "typed-nil-map-values", "typed-nil-array-elems"}

// TestCyclicTargets: ordinary documents decoded into self-referential targets (every call must return).
func TestCyclicTargets(t *testing.T) {
	if evid.Shard() != 1%evid.NShards() {
		return
	}
	docs := []string{`1`, `"s"`, `null`, `true`, `{}`, `[]`, `{"Next":{"Next":1}}`, `{"Any":{"Any":[1,{"Any":null}]}}`, `[[1]]`, `{"Kids":[{"Kids":[null]}],"Next":null}`, `{"a":1}`, `[1,2`, ``,
		`[1,{"Next":null},[2],"x"]`, `{"a":2,"Next":{"Any":1},"Any":{"k":[1]}}`, `{"Kids":[{"Any":1},{"Next":{}},3]}`, `[null,null,null]`}
	n := 0
	for _, ht := range cyclicTargets {
		for _, doc := range docs {
			for _, api := range []string{"Unmarshal", "Decoder", "Parse"} {
				exec(t, "CyclicTargets", Case{Kind: "decode-hostile", Hostile: ht, Doc: []byte(doc), API: api})
				n++
			}
		}
		evid.NonTrivial(evid.HashS("cyclic-target", ht))
	}
	evid.Eval(n)
	evid.Label("cyclic-decode-targets")
	evid.Enumerated("CyclicTargets", 1, 1)
}

func nanF() float64 { var z float64; return z / z }

var hostileNames = []string{"ptr-cycle", "slice-cycle", "map-cycle", "intmap-cycle", "iface-cycle", "nonempty-iface-cycle", "named-empty-iface-cycle", "named-iface-slice-cycle", "iface-map-cycle", "mixed-cycle", "struct-map-cycle", "deep-slice", "deep-map", "deep-ptr", "deep-kids",
	"unsupported-struct", "unsupported-in-any", "nil", "typed-nil-ptr", "typed-nil-map", "nil-in-any", "array1-ptr", "array1-ptr-nil", "struct-array1-ptr", "array1-map", "array1-array1-ptr",
	"struct-struct-ptr", "struct-ptr-nil", "map-ptrkey-text", "map-ptrkey-plain", "map-ifacekey", "map-structkey", "nan", "chan-ptr", "rec-map-type", "rec-slice-type", "rec-mapslice-type", "rec-map-type-cycle", "chan-func-marshalers", "chan-marshaler-nil", "map-ptrstructkey-text"}

// ------------------------------------------------------------------ execution

func docOf(c Case) []byte {
	if c.DocGen == "" {
		return c.Doc
	}
	var unit, tail string
	var n int
	parts := strings.SplitN(c.DocGen, "|", 3)
	unit = parts[0]
	fmt.Sscanf(parts[1], "%d", &n)
	if len(parts) > 2 {
		tail = parts[2]
	}
	return []byte(strings.Repeat(unit, n) + tail)
}

func encodeCall(api string, flags uint32, x any) {
	switch api {
	case "Marshal":
		segjson.Marshal(x)
	case "MarshalIndent":
		segjson.MarshalIndent(x, ">", "  ")
	case "Append":
		segjson.Append(make([]byte, 0, 16), x, segjson.AppendFlags(flags&7))
	case "Encoder":
		var buf bytes.Buffer
		e := segjson.NewEncoder(&buf)
		e.SetEscapeHTML(flags&1 != 0)
		e.SetSortMapKeys(flags&2 != 0)
		if flags&8 != 0 {
			e.SetIndent("", " ")
		}
		e.Encode(x)
		e.Encode(x)
	}
}

func decodeCall(api string, flags uint32, doc []byte, target any) {
	in := append([]byte{}, doc...)
	switch api {
	case "Unmarshal":
		segjson.Unmarshal(in, target)
	case "Parse":
		segjson.Parse(in, target, segjson.ParseFlags(flags&0x3ff))
	case "Decoder":
		d := segjson.NewDecoder(bytes.NewReader(in))
		if flags&1 != 0 {
			d.UseNumber()
		}
		if flags&2 != 0 {
			d.DisallowUnknownFields()
		}
		if flags&4 != 0 {
			d.ZeroCopy()
		}
		for i := 0; i < 4; i++ {
			if d.Decode(target) != nil {
				break
			}
		}
	}
}

func bytesCalls(doc []byte) {
	in := append([]byte{}, doc...)
	segjson.Valid(in)
	segjson.Unescape(in)
	segjson.AppendUnescape([]byte("p"), in, 0)
	segjson.AppendUnescape(nil, in, segjson.ZeroCopy)
	segjson.Escape(string(in))
	segjson.AppendEscape(nil, string(in), 0)
	tk := segjson.NewTokenizer(in)
	for n := 0; tk.Next() && n <= len(in)+2; n++ {
		_ = tk.Kind().Class()
	}
	var dst bytes.Buffer
	segjson.Compact(&dst, in)
}

func run(c Case) (f *evid.Failure) {
	defer func() {
		caseStart.Store(0)
		if p := recover(); p != nil {
			st := string(debug.Stack())
			if i := strings.Index(st, "segmentio/encoding"); i >= 0 && len(st) > i+300 {
				st = st[i : i+300]
			}
			f = &evid.Failure{Oracle: "every failure is a returned error: no panic", Observed: fmt.Sprintf("panic: %v | %s", p, strings.ReplaceAll(st, "\n", " ")), Expected: "a value or an error", Class: "panic"}
		}
	}()
	debug.SetPanicOnFault(true)
	caseStart.Store(time.Now().UnixNano())
	switch c.Kind {
	case "encode":
		v := jgen.Build(c.Type.Type(), *c.Value)
		if c.ByPtr {
			encodeCall(c.API, c.Flags, v.Addr().Interface())
		} else {
			encodeCall(c.API, c.Flags, v.Interface())
		}
	case "hostile":
		x := hostileValue(c.Hostile, c.N)
		if c.ByPtr && x != nil {
			p := reflect.New(reflect.TypeOf(x))
			p.Elem().Set(reflect.ValueOf(x))
			x = p.Interface()
		}
		encodeCall(c.API, c.Flags, x)
	case "decode":
		t := c.Type.Type()
		p := reflect.New(t)
		if c.Init != nil {
			p.Elem().Set(jgen.Build(t, *c.Init))
		}
		var target any = p.Interface()
		switch c.N {
		case 1:
			target = p.Elem().Interface() // non-pointer target
		case 2:
			target = nil
		case 3:
			target = reflect.Zero(reflect.PointerTo(t)).Interface() // typed nil pointer
		}
		decodeCall(c.API, c.Flags, docOf(c), target)
		if c.N == 0 {
			// whatever the decode left in the target - complete, partial after an error - is a Go value like
			// any other: encoding it reads every pointer, slice and map the decoder stored (a wild or
			// mistyped pointer faults here, inside the supervised call)
			encodeCall("Marshal", 0, target)
		}
	case "decode-hostile":
		decodeCall(c.API, c.Flags, docOf(c), hostileTarget(c.Hostile))
	case "bytes":
		bytesCalls(docOf(c))
	}
	return nil
}

func checkCase(c Case) *evid.Failure { return run(c) }

func exec(t interface {
	Fatalf(string, ...any)
	Helper()
}, test string, c Case) {
	evid.Journal(test, c)
	f := run(c)
	evid.JournalClear()
	if f != nil {
		if cls := knownClass(c, f); cls != "" && evid.KnownActive(cls) {
			evid.Excluded(cls)
			return
		}
		evid.Violation(t, test, c, f)
	}
}

// ------------------------------------------------------------------ tests

var encodeAPIs = []string{"Marshal", "Marshal", "Append", "Encoder", "MarshalIndent"}
var decodeAPIs = []string{"Unmarshal", "Unmarshal", "Parse", "Decoder"}

func TestHostileValues(t *testing.T) {
	deep := []int{100, 1000, 1001, 5000, 20000}
	if evid.Thorough() {
		deep = append(deep, 100000)
	}
	shard, n := evid.Shard(), evid.NShards()
	idx := 0
	cnt := 0
	for _, name := range hostileNames {
		sizes := []int{1}
		if strings.HasPrefix(name, "deep-") {
			sizes = deep
		} else if strings.HasSuffix(name, "-cycle") {
			sizes = []int{1, 2, 3, 50, 1500}
		}
		for _, sz := range sizes {
			for _, api := range []string{"Marshal", "Append", "Encoder", "MarshalIndent"} {
				for _, byPtr := range []bool{false, true} {
					for _, fl := range []uint32{0, 3, 7, 11} {
						idx++
						if idx%n != shard {
							continue
						}
						if api == "MarshalIndent" && sz > 5000 {
							continue // json.Indent of a 100k-deep document is quadratic in encoding/json itself
						}
						c := Case{Kind: "hostile", Hostile: name, N: sz, API: api, ByPtr: byPtr, Flags: fl}
						exec(t, "HostileValues", c)
						cnt++
						evid.Label("hostile." + name)
						evid.NonTrivial(evid.HashS("hostile", name, fmt.Sprint(sz, api, byPtr, fl)))
					}
				}
			}
		}
	}
	evid.Eval(cnt)
	evid.Enumerated("HostileValues", 1, 1)
	evid.Sample(Case{Kind: "hostile", Hostile: "map-cycle", N: 3, API: "Marshal"})
}

func TestEncodeGenerated(t *testing.T) {
	to := jgen.TypeOpts{MaxDepth: 4, Unsupported: true, Durations: true, Avoid: map[string]bool{}}
	vo := jgen.ValOpts{BigSlice: true}
	evid.Check(t, "EncodeGenerated", 6000, func(rt *rapid.T) {
		td := jgen.GenType(rt, to)
		typ := td.Type()
		for i := rapid.IntRange(1, 3).Draw(rt, "nv"); i > 0; i-- {
			r := jgen.GenValue(rt, typ, vo)
			c := Case{Kind: "encode", Type: td, Value: &r, ByPtr: rapid.Bool().Draw(rt, "byptr"), API: rapid.SampledFrom(encodeAPIs).Draw(rt, "api"), Flags: uint32(rapid.IntRange(0, 15).Draw(rt, "flags"))}
			evid.Eval(1)
			evid.Label("encode.generated")
			if hasUnsupported(&td) {
				evid.Label("encode.unsupported-kind")
			}
			if typ.Kind() != reflect.Bool && typ.Kind() != reflect.Int {
				evid.NonTrivial(evid.HashS("enc", td.String(), fmt.Sprintf("%+v|%v|%s|%d", r, c.ByPtr, c.API, c.Flags)))
			}
			evid.Sample(c)
			exec(rt, "EncodeGenerated", c)
		}
	})
}

func hasUnsupported(td *jgen.TypeDesc) bool {
	for _, k := range jgen.UnsupportedKinds {
		if td.Has(k) {
			return true
		}
	}
	return false
}

func TestDecodeGenerated(t *testing.T) {
	to := jgen.TypeOpts{MaxDepth: 3, Unsupported: true, Durations: true, Avoid: map[string]bool{}}
	evid.Check(t, "DecodeGenerated", 10000, func(rt *rapid.T) {
		td := jgen.GenType(rt, to)
		typ := td.Type()
		for i := rapid.IntRange(1, 4).Draw(rt, "nd"); i > 0; i-- {
			c := Case{Kind: "decode", Type: td, API: rapid.SampledFrom(decodeAPIs).Draw(rt, "api"), Flags: uint32(rapid.IntRange(0, 1023).Draw(rt, "flags"))}
			if rapid.IntRange(0, 2).Draw(rt, "prepop") == 0 {
				r := jgen.GenValue(rt, typ, jgen.ValOpts{MaxLen: 3})
				c.Init = &r
			}
			if rapid.IntRange(0, 19).Draw(rt, "oddtarget") == 0 {
				c.N = rapid.IntRange(1, 3).Draw(rt, "tk")
			}
			kind := rapid.IntRange(0, 9).Draw(rt, "dk")
			var lab string
			switch {
			case kind <= 2:
				c.Doc = jgen.GenDocFor(rt, typ, jgen.DocOpts{})
				lab = "directed"
			case kind <= 5:
				c.Doc = jgen.Mutate(rt, jgen.GenDocFor(rt, typ, jgen.DocOpts{}))
				lab = "mutated"
			case kind <= 7:
				d := jgen.GenDocFor(rt, typ, jgen.DocOpts{})
				c.Doc = d[:rapid.IntRange(0, len(d)).Draw(rt, "cut")]
				lab = "truncated"
			case kind == 8:
				c.Doc = jgen.GenDocument(rt, 4)
				lab = "generic"
			default:
				c.Doc = rapid.SliceOfN(rapid.Byte(), 0, 60).Draw(rt, "random")
				lab = "random"
			}
			evid.Eval(1)
			evid.Label("decode." + lab)
			if len(c.Doc) >= 8 && lab != "random" && (typ.Kind() == reflect.Struct || typ.Kind() == reflect.Map || typ.Kind() == reflect.Slice || typ.Kind() == reflect.Ptr || typ.Kind() == reflect.Array || typ.Kind() == reflect.Interface) {
				evid.NonTrivial(evid.Hash([]byte(td.String()), c.Doc, []byte(fmt.Sprint(c.API, c.Flags, c.N, c.Init != nil))))
			}
			evid.Sample(c)
			exec(rt, "DecodeGenerated", c)
			if rapid.IntRange(0, 3).Draw(rt, "alsobytes") == 0 {
				evid.Eval(1)
				exec(rt, "DecodeGenerated", Case{Kind: "bytes", Doc: c.Doc, API: "bytes"})
			}
		}
	})
}

// TestTruncations: every prefix of generated documents into their target type.
func TestTruncations(t *testing.T) {
	to := jgen.TypeOpts{MaxDepth: 3, Avoid: map[string]bool{}}
	evid.Check(t, "Truncations", 600, func(rt *rapid.T) {
		td := jgen.GenType(rt, to)
		typ := td.Type()
		d := jgen.GenDocFor(rt, typ, jgen.DocOpts{Wrong: 1})
		if len(d) > 400 {
			d = d[:400]
		}
		api := rapid.SampledFrom(decodeAPIs).Draw(rt, "api")
		for cut := 0; cut <= len(d); cut++ {
			c := Case{Kind: "decode", Type: td, API: api, Doc: d[:cut]}
			exec(rt, "Truncations", c)
		}
		evid.Eval(len(d) + 1)
		evid.LabelN("decode.every-prefix", len(d)+1)
		if len(d) >= 8 {
			evid.NonTrivial(evid.Hash([]byte("trunc"), []byte(td.String()), d))
		}
	})
}

// TestNestingBombs: deep nesting through every entry point (the stack must not
// be exhausted and the call must return in bounded time).
func TestNestingBombs(t *testing.T) {
	depths := []int{1000, 10000, 10001, 100000, 1000000, 5000000}
	if !evid.Thorough() {
		depths = []int{10000, 10001, 100000, 2000000}
	}
	shard, nsh := evid.Shard(), evid.NShards()
	idx := 0
	targets := []jgen.TypeDesc{{K: "any"}, {K: "@Rec"}, {K: "raw"}, {K: "slice", Elem: &jgen.TypeDesc{K: "any"}}, {K: "map", Key: &jgen.TypeDesc{K: "string"}, Elem: &jgen.TypeDesc{K: "any"}}, {K: "@RecA"}, {K: "struct"}, {K: "int"}}
	n := 0
	for _, d := range depths {
		for _, unit := range []string{"[", `{"a":`, `[{"next":`, `{"kids":[`, `{"m":{"x":`, `{"next":`} {
			for _, tail := range []string{"", "0", "null"} {
				idx++
				if idx%nsh != shard {
					continue
				}
				gen := fmt.Sprintf("%s|%d|%s", unit, d, tail)
				c := Case{Kind: "bytes", DocGen: gen, API: "bytes"}
				exec(t, "NestingBombs", c)
				n++
				for _, td := range targets {
					// Unmarshal into `any` re-validates nested values at every level (quadratic): keep it to 10^4 levels
					if (td.K == "any" || td.K == "slice" || td.K == "map") && d > 10001 && unit != "[" {
						continue
					}
					for _, api := range []string{"Unmarshal", "Decoder"} {
						exec(t, "NestingBombs", Case{Kind: "decode", Type: td, DocGen: gen, API: api})
						n++
					}
				}
				if strings.Contains(unit, "next") {
					// the same bombs with the member names of the self-referential targets
					g2 := fmt.Sprintf("%s|%d|%s", map[string]string{`[{"next":`: `{"Kids":[{"Next":`, `{"next":`: `{"Next":`}[unit], d, tail)
					g3 := fmt.Sprintf("%s|%d|%s", `{"Any":`, d, tail)
					for _, ht := range hostileTargets {
						for _, api := range []string{"Unmarshal", "Decoder"} {
							exec(t, "NestingBombs", Case{Kind: "decode-hostile", Hostile: ht, DocGen: g2, API: api})
							exec(t, "NestingBombs", Case{Kind: "decode-hostile", Hostile: ht, DocGen: g3, API: api})
							n += 2
						}
					}
				}
				evid.NonTrivial(evid.HashS("bomb", gen))
			}
		}
		evid.Label(fmt.Sprintf("nesting-bomb.depth%d", d))
	}
	evid.Eval(n)
	evid.Enumerated("NestingBombs", 1, 1)
}

func TestReplay(t *testing.T) {
	files := evid.SavedReplays()
	if p := evid.ReplayFile(); p != "" {
		files = []string{p}
	}
	for _, p := range files {
		_, raw, err := evid.LoadReplayCase(p)
		if err != nil {
			t.Fatalf("replay %s: %v", p, err)
		}
		var c Case
		if err := stdjson.Unmarshal(raw, &c); err != nil || c.Kind == "" {
			continue
		}
		evid.Eval(1)
		exec(t, "Replay", c)
	}
}

func TestKnownFindings(t *testing.T) {
	cs := append([]evid.Class{}, classes...)
	for _, f := range evid.Findings() {
		if len(f.Witness) == 0 {
			continue
		}
		var c Case
		if err := stdjson.Unmarshal(f.Witness, &c); err != nil || c.Kind == "" {
			t.Errorf("finding %s: witness is not a C06 case: %v", f.ID, err)
			continue
		}
		cls := f.Class
		cs = append(cs, evid.Class{Name: cls, Witness: func() *evid.Failure {
			evid.Journal("witness:"+cls, c) // a regression may kill the process: the journal attributes it
			defer evid.JournalClear()
			return run(c)
		}})
	}
	evid.RunWitnesses(t, cs)
}
