package c06

import (
	"verif/harness/evid"
)

func knownClass(c Case, f *evid.Failure) string { return "" }

var classes = []evid.Class{}
