// C20 — ascii predicates equal their byte-wise definitions at every length.
// Bounded-exhaustive sweeps (seed independent) plus rapid-generated strings.
package c20

import (
	"encoding/json"
	"fmt"
	"os"
	"testing"
	"unsafe"

	"github.com/segmentio/encoding/ascii"
	"pgregory.net/rapid"

	"verif/harness/evid"
)

func TestMain(m *testing.M) { evid.Main(m, "C20") }

// ------------------------------------------------------------------ reference

func refValid(b []byte) bool {
	for _, c := range b {
		if c >= 0x80 {
			return false
		}
	}
	return true
}

func refValidPrint(b []byte) bool {
	for _, c := range b {
		if c < 0x20 || c > 0x7e {
			return false
		}
	}
	return true
}

func lower(c byte) byte {
	if c >= 'A' && c <= 'Z' {
		return c + ('a' - 'A')
	}
	return c
}

func refEqualFold(a, b []byte) bool {
	if len(a) != len(b) {
		return false
	}
	for i := range a {
		if lower(a[i]) != lower(b[i]) {
			return false
		}
	}
	return true
}

func refHasPrefixFold(s, p []byte) bool {
	return len(s) >= len(p) && refEqualFold(s[:len(p)], p)
}

func refHasSuffixFold(s, p []byte) bool {
	return len(s) >= len(p) && refEqualFold(s[len(s)-len(p):], p)
}

// ------------------------------------------------------------------ case

// Case is the replayable unit: one predicate applied to one or two byte strings.
type Case struct {
	Fn  string `json:"fn"`
	A   []byte `json:"a"`
	B   []byte `json:"b,omitempty"`
	Off int    `json:"off"` // alignment offset of A's first byte inside a 64-aligned arena
	// View: the second operand is not B in memory of its own but the window A[BLo:BHi] of the first
	// operand's memory (two views of one buffer, a string and a substring of it)
	View     bool `json:"view,omitempty"`
	BLo, BHi int  `json:",omitempty"`
}

var arena = func() []byte {
	raw := make([]byte, 4096+64)
	p := uintptr(unsafe.Pointer(&raw[0]))
	pad := int((64 - p%64) % 64)
	return raw[pad : pad+4096]
}()

var arena2 = func() []byte {
	raw := make([]byte, 4096+64)
	p := uintptr(unsafe.Pointer(&raw[0]))
	pad := int((64 - p%64) % 64)
	return raw[pad : pad+4096]
}()

// place copies a at offset off of the arena so that the first byte has a
// chosen alignment, with canary bytes (0xFF = invalid for every predicate)
// on both sides so that an over-read changes the answer.
func place(ar []byte, a []byte, off int, canary byte) []byte {
	if need := 64 + off + len(a) + 64; need > len(ar) {
		// inputs longer than the fixed arena get an aligned arena of their own
		raw := make([]byte, need+64)
		p := uintptr(unsafe.Pointer(&raw[0]))
		pad := int((64 - p%64) % 64)
		ar = raw[pad : pad+need]
	}
	lo := 64 + off
	for i := lo - 40; i < lo+len(a)+40 && i < len(ar); i++ {
		if i >= 0 {
			ar[i] = canary
		}
	}
	copy(ar[lo:], a)
	return ar[lo : lo+len(a) : lo+len(a)]
}

func checkCase(c Case) *evid.Failure {
	a := place(arena, c.A, c.Off, 0xFF)
	var got, want bool
	switch c.Fn {
	case "Valid":
		got, want = ascii.Valid(a), refValid(c.A)
	case "ValidString":
		got, want = ascii.ValidString(string(a)), refValid(c.A)
	case "ValidStringZC":
		got, want = ascii.ValidString(unsafe.String(unsafe.SliceData(a), len(a))), refValid(c.A)
	case "ValidPrint":
		got, want = ascii.ValidPrint(a), refValidPrint(c.A)
	case "ValidPrintString":
		got, want = ascii.ValidPrintString(string(a)), refValidPrint(c.A)
	case "ValidPrintStringZC":
		got, want = ascii.ValidPrintString(unsafe.String(unsafe.SliceData(a), len(a))), refValidPrint(c.A)
	default:
		// canary after B differs from the canary after A so that reading past
		// the end makes the strings look different
		b := place(arena2, c.B, (c.Off*7+3)%32, 0x01)
		cB := c.B
		sa, sb := string(a), string(b)
		if c.View {
			b, cB = a[c.BLo:c.BHi:c.BHi], c.A[c.BLo:c.BHi]
			sb = sa[c.BLo:c.BHi] // shares the bytes of sa
		}
		switch c.Fn {
		case "EqualFold":
			got, want = ascii.EqualFold(a, b), refEqualFold(c.A, cB)
		case "EqualFoldString":
			got, want = ascii.EqualFoldString(sa, sb), refEqualFold(c.A, cB)
		case "HasPrefixFold":
			got, want = ascii.HasPrefixFold(a, b), refHasPrefixFold(c.A, cB)
		case "HasPrefixFoldString":
			got, want = ascii.HasPrefixFoldString(sa, sb), refHasPrefixFold(c.A, cB)
		case "HasSuffixFold":
			got, want = ascii.HasSuffixFold(a, b), refHasSuffixFold(c.A, cB)
		case "HasSuffixFoldString":
			got, want = ascii.HasSuffixFoldString(sa, sb), refHasSuffixFold(c.A, cB)
		default:
			return &evid.Failure{Oracle: "harness", Observed: "unknown fn " + c.Fn}
		}
	}
	if got != want {
		return &evid.Failure{Oracle: "byte-wise definition of " + c.Fn, Observed: fmt.Sprint(got), Expected: fmt.Sprint(want), Class: "mismatch"}
	}
	return nil
}

var unaryFns = []string{"Valid", "ValidString", "ValidStringZC", "ValidPrint", "ValidPrintString", "ValidPrintStringZC"}
var binaryFns = []string{"EqualFold", "EqualFoldString", "HasPrefixFold", "HasPrefixFoldString", "HasSuffixFold", "HasSuffixFoldString"}

type tally struct {
	evals int
	t     *testing.T
	name  string
}

func (y *tally) run(c Case) {
	y.evals++
	if f := checkCase(c); f != nil {
		cc := c
		cc.A = append([]byte(nil), c.A...)
		cc.B = append([]byte(nil), c.B...)
		evid.Eval(y.evals)
		evid.Violation(y.t, y.name, cc, f)
	}
	if len(c.A) >= 8 {
		h := evid.Hash([]byte(c.Fn), c.A, c.B, []byte{byte(c.Off)})
		evid.NonTrivial(h)
	}
}

// ------------------------------------------------------------------ sweeps

// TestSweepValid: lengths 0..160 x alignments x every position x deviation bytes.
func TestSweepValid(t *testing.T) {
	y := &tally{t: t, name: "SweepValid"}
	devs := []byte{0x00, 0x1f, 0x20, 0x7e, 0x7f, 0x80, 0xc3, 0xff}
	maxLen := 160
	shard, n := evid.Shard(), evid.NShards()
	buf := make([]byte, maxLen)
	for L := 0; L <= maxLen; L++ {
		if L%n != shard {
			continue
		}
		offs := []int{0, 1, 7, 8, 9, 15, 16, 17, 31}
		if L <= 72 || evid.Thorough() {
			offs = offs[:0]
			for o := 0; o < 32; o++ {
				offs = append(offs, o)
			}
		}
		for _, off := range offs {
			for i := range buf[:L] {
				buf[i] = 'a' + byte(i%26)
			}
			for _, fn := range unaryFns {
				y.run(Case{Fn: fn, A: buf[:L], Off: off})
			}
			for pos := 0; pos < L; pos++ {
				old := buf[pos]
				if L <= 24 {
					for v := 0; v < 256; v++ {
						buf[pos] = byte(v)
						for _, fn := range unaryFns {
							y.run(Case{Fn: fn, A: buf[:L], Off: off})
						}
					}
				} else {
					for _, v := range devs {
						buf[pos] = v
						for _, fn := range unaryFns {
							if fn[len(fn)-2:] == "ZC" && off%4 != 0 {
								continue
							}
							y.run(Case{Fn: fn, A: buf[:L], Off: off})
						}
					}
				}
				buf[pos] = old
			}
		}
		evid.LabelN(fmt.Sprintf("valid.len%03d-%03d", L/32*32, L/32*32+31), 1)
	}
	evid.Eval(y.evals)
	evid.LabelN("sweep-valid-evals", y.evals)
	evid.Enumerated("SweepValid", 1, 1)
	evid.SetExhaustive(true)
	evid.Sample(Case{Fn: "ValidPrint", A: []byte("abcdefghijklmnopqrstuvwx\x7fz"), Off: 5})
}

// TestLongValid: inputs around the sizes at which a blocked or chunked implementation changes gear (powers of two
// from 256 bytes to 256 KiB and their multiples), one deviating byte placed at the start, in the middle, and at
// each of the last 70 positions (the tail of the last block).
func TestLongValid(t *testing.T) {
	y := &tally{t: t, name: "LongValid"}
	shard, n := evid.Shard(), evid.NShards()
	var lens []int
	for _, base := range []int{256, 1024, 4096, 32768, 65536, 131072, 196608, 262144} {
		for _, d := range []int{-1, 0, 1, 17} {
			lens = append(lens, base+d)
		}
	}
	devs := []byte{0x1f, 0x7f, 0x80, 0xff}
	for li, L := range lens {
		if li%n != shard {
			continue
		}
		buf := make([]byte, L)
		for i := range buf {
			buf[i] = 'a' + byte(i%26)
		}
		for _, fn := range unaryFns {
			y.run(Case{Fn: fn, A: buf})
		}
		positions := []int{0, 1, L / 2, L/2 + 1}
		for k := 1; k <= 70 && k <= L; k++ {
			positions = append(positions, L-k)
		}
		for _, pos := range positions {
			old := buf[pos]
			for _, v := range devs {
				buf[pos] = v
				for _, fn := range unaryFns {
					y.run(Case{Fn: fn, A: buf})
				}
			}
			buf[pos] = old
		}
		evid.Label("valid.long-input")
	}
	evid.Eval(y.evals)
	evid.Enumerated("LongValid", 1, 1)
}

var foldLens = []int{1, 2, 7, 8, 9, 15, 16, 17, 31, 32, 33, 63, 64, 65, 127, 128, 129}

// TestSweepFold: (a, a with one position replaced) for all 128x128 ASCII byte
// pairs at three positions per length, and every position for the fold
// neighbour pairs; prefixes/suffixes of every length 0..len+1.
func TestSweepFold(t *testing.T) {
	y := &tally{t: t, name: "SweepFold"}
	shard, n := evid.Shard(), evid.NShards()
	neigh := [][2]byte{{'@', '`'}, {'[', '{'}, {'\\', '|'}, {']', '}'}, {'^', '~'}, {'_', 0x7f}, {'A', 'a'}, {'Z', 'z'}, {'M', 'm'}, {0x00, 0x20}, {'0', 0x10}, {'a', 'A'}}
	idx := 0
	for _, L := range foldLens {
		a := make([]byte, L)
		b := make([]byte, L)
		for i := range a {
			a[i] = "aBcDeFgHiJkLmNoPqRsTuVwXyZ0_9"[i%29]
		}
		positions := []int{0, L / 2, L - 1}
		for _, pos := range positions {
			idx++
			if idx%n != shard {
				continue
			}
			for x := 0; x < 128; x++ {
				for z := 0; z < 128; z++ {
					copy(b, a)
					a0 := a[pos]
					a[pos], b[pos] = byte(x), byte(z)
					off := (x + z + pos) % 32
					for _, fn := range binaryFns[:2] {
						y.run(Case{Fn: fn, A: a, B: b, Off: off})
					}
					// prefix / suffix forms with B as a window of b containing pos
					if (x^z)&0x1f == 0 || x == z {
						for _, fn := range binaryFns[2:] {
							y.run(Case{Fn: fn, A: a, B: b[:pos+1], Off: off})
							y.run(Case{Fn: fn, A: a, B: b[pos:], Off: off})
						}
					}
					a[pos] = a0
				}
			}
			evid.Label(fmt.Sprintf("fold.pairs128x128.len%d", L))
		}
		// neighbour pairs at every position, all prefix/suffix lengths
		idx++
		if idx%n != shard {
			continue
		}
		for _, pr := range neigh {
			for pos := 0; pos < L; pos++ {
				copy(b, a)
				a0 := a[pos]
				a[pos], b[pos] = pr[0], pr[1]
				for _, fn := range binaryFns[:2] {
					y.run(Case{Fn: fn, A: a, B: b, Off: pos % 32})
				}
				for k := 0; k <= L; k++ {
					for _, fn := range binaryFns[2:] {
						y.run(Case{Fn: fn, A: a, B: b[:k], Off: pos % 32})
						y.run(Case{Fn: fn, A: a, B: b[L-k:], Off: pos % 32})
					}
				}
				// longer than s
				long := append(append([]byte(nil), b...), 'x')
				for _, fn := range binaryFns {
					y.run(Case{Fn: fn, A: a, B: long, Off: pos % 32})
					y.run(Case{Fn: fn, A: long, B: a, Off: pos % 32})
				}
				a[pos] = a0
			}
		}
		evid.Label(fmt.Sprintf("fold.neighbours.len%d", L))
	}
	evid.Eval(y.evals)
	evid.LabelN("sweep-fold-evals", y.evals)
	evid.Enumerated("SweepFold", 1, 1)
	evid.Sample(Case{Fn: "HasSuffixFold", A: []byte("aBcDeFgH[JkLmNoP"), B: []byte("{jKlMnOp"), Off: 8})
}

// TestByteRune: the single byte and rune predicates over their whole domain
// (bytes) and a dense sample of runes.
func TestByteRune(t *testing.T) {
	if evid.Shard() != 0 {
		return
	}
	n := 0
	bad := func(name string, v int64, got, want bool) {
		evid.Eval(n)
		evid.Violation(t, "ByteRune", map[string]any{"fn": name, "value": v}, &evid.Failure{Oracle: "definition of " + name, Observed: fmt.Sprint(got), Expected: fmt.Sprint(want), Class: "mismatch"})
	}
	for v := 0; v < 256; v++ {
		b := byte(v)
		n += 2
		if got, want := ascii.ValidByte(b), b < 0x80; got != want {
			bad("ValidByte", int64(v), got, want)
		}
		if got, want := ascii.ValidPrintByte(b), b >= 0x20 && b <= 0x7e; got != want {
			bad("ValidPrintByte", int64(v), got, want)
		}
		evid.NonTrivial(evid.HashS("byte", fmt.Sprint(v)))
	}
	step := int64(1)
	for r := int64(-70000); r <= 0x110000+10; r += step {
		if r > 70000 {
			step = 97
		}
		n += 2
		// definitions: a rune is ASCII when it is a code point below 0x80. The
		// library (and segmentio/asm) define ValidRune(r) as r <= 0x7f, which
		// for negative (invalid) runes answers true; the statement only speaks
		// of "the same definitions", so negative runes are only checked for
		// ValidPrintRune, whose definition 0x20..0x7e is unambiguous.
		if r >= 0 {
			if got, want := ascii.ValidRune(rune(r)), r < 0x80; got != want {
				bad("ValidRune", r, got, want)
			}
		}
		if got, want := ascii.ValidPrintRune(rune(r)), r >= 0x20 && r <= 0x7e; got != want {
			bad("ValidPrintRune", r, got, want)
		}
	}
	// every low byte under a set of high parts over the whole int32 range (truncation to a byte must not decide)
	for _, hi := range []int64{-1 << 31, -1 << 24, -1 << 16, -1 << 8, 1 << 8, 1 << 16, 1 << 21, 1 << 24, 1<<31 - 256} {
		for lo := int64(0); lo < 256; lo++ {
			r := hi + lo
			n++
			if got, want := ascii.ValidPrintRune(rune(r)), r >= 0x20 && r <= 0x7e; got != want {
				bad("ValidPrintRune", r, got, want)
			}
			if r >= 0 {
				n++
				if got, want := ascii.ValidRune(rune(r)), r < 0x80; got != want {
					bad("ValidRune", r, got, want)
				}
			}
		}
	}
	evid.Eval(n)
	evid.Label("byte-rune-domain")
	evid.Enumerated("ByteRune", 1, 1)
}

// TestRandom: rapid-generated strings and pairs (long lengths, random
// alignment, several deviations at once) against the same definitions.
func TestRandom(t *testing.T) {
	alpha := rapid.OneOf(
		rapid.ByteRange('a', 'z'), rapid.ByteRange('A', 'Z'), rapid.ByteRange(0x20, 0x7e),
		rapid.SampledFrom([]byte{0x00, 0x1f, 0x7f, 0x80, 0xff, '@', '`', '[', '{'}),
	)
	ascii7 := rapid.OneOf(rapid.ByteRange('a', 'z'), rapid.ByteRange('A', 'Z'), rapid.ByteRange(0, 0x7f), rapid.SampledFrom([]byte{'@', '`', '[', '{', 0x7f, '_'}))
	evid.Check(t, "Random", 30000, func(rt *rapid.T) {
		var c Case
		c.Off = rapid.IntRange(0, 31).Draw(rt, "off")
		if rapid.Bool().Draw(rt, "unary") {
			c.Fn = rapid.SampledFrom(unaryFns).Draw(rt, "fn")
			L := rapid.IntRange(0, 600).Draw(rt, "len")
			base := rapid.SampledFrom([]byte{'a', ' ', '~', 'Z'}).Draw(rt, "base")
			c.A = make([]byte, L)
			for i := range c.A {
				c.A[i] = base
			}
			nd := rapid.IntRange(0, 3).Draw(rt, "ndev")
			for i := 0; i < nd && L > 0; i++ {
				c.A[rapid.IntRange(0, L-1).Draw(rt, "pos")] = alpha.Draw(rt, "dev")
			}
		} else {
			c.Fn = rapid.SampledFrom(binaryFns).Draw(rt, "fn")
			c.A = rapid.SliceOfN(ascii7, 0, 300).Draw(rt, "a")
			// b: a case-perturbed window of a with 0..2 substitutions
			lo, hi := 0, len(c.A)
			switch c.Fn {
			case "HasPrefixFold", "HasPrefixFoldString":
				hi = rapid.IntRange(0, len(c.A)).Draw(rt, "hi")
			case "HasSuffixFold", "HasSuffixFoldString":
				lo = rapid.IntRange(0, len(c.A)).Draw(rt, "lo")
			}
			c.B = append([]byte(nil), c.A[lo:hi]...)
			for i := range c.B {
				if rapid.IntRange(0, 3).Draw(rt, "flip") == 0 {
					c.B[i] ^= 0x20
				}
			}
			if rapid.IntRange(0, 4).Draw(rt, "extra") == 0 {
				c.B = append(c.B, ascii7.Draw(rt, "x"))
			}
			if rapid.IntRange(0, 5).Draw(rt, "view") == 0 {
				// both operands are views of one buffer: same start and another length, a window, the whole
				c.View, c.B = true, nil
				c.BLo = rapid.SampledFrom([]int{0, 0, 0, 1, len(c.A) / 2, len(c.A)}).Draw(rt, "vlo")
				if c.BLo > len(c.A) {
					c.BLo = len(c.A)
				}
				c.BHi = rapid.IntRange(c.BLo, len(c.A)).Draw(rt, "vhi")
				if rapid.IntRange(0, 3).Draw(rt, "vall") == 0 {
					c.BHi = len(c.A)
				}
				evid.Label("random.operands-share-memory")
			}
		}
		evid.Eval(1)
		if len(c.A) >= 8 {
			evid.NonTrivial(evid.Hash([]byte(c.Fn), c.A, c.B, []byte{byte(c.Off)}, []byte(fmt.Sprint(c.View, c.BLo, c.BHi))))
		}
		evid.Label("random." + c.Fn)
		evid.Sample(c)
		if f := checkCase(c); f != nil {
			evid.Violation(rt, "Random", c, f)
		}
	})
}

// TestReplay re-executes saved cases (VERIF_REPLAY or the committed regression tier).
func TestReplay(t *testing.T) {
	files := evid.SavedReplays()
	if p := evid.ReplayFile(); p != "" {
		files = []string{p}
	}
	for _, p := range files {
		_, raw, err := evid.LoadReplayCase(p)
		if err != nil {
			t.Fatalf("replay %s: %v", p, err)
		}
		var c Case
		if err := json.Unmarshal(raw, &c); err != nil || c.Fn == "" {
			fmt.Fprintf(os.Stderr, "replay %s: not a C20 string case, skipped\n", p)
			continue
		}
		evid.Eval(1)
		if f := checkCase(c); f != nil {
			evid.Violation(t, "Replay", c, f)
		}
	}
}

func TestKnownFindings(t *testing.T) { evid.RunWitnesses(t, nil) }
