package pgen

import (
	"bytes"
	"fmt"
	"reflect"

	"github.com/segmentio/encoding/proto"
)

// Tol switches on the tolerances that correspond to listed known findings.
// With the zero Tol, Compare is R-DEEPEQ "mod nil/empty" of DESIGN §3: equal
// to reflect.DeepEqual except that nil and empty slices/maps are equal and
// floats are compared by bit pattern.
type Tol struct {
	// PtrEmpty tolerates "want non-nil pointer, got nil" where the pointee
	// encodes to zero bytes under the library's zero-elision rules
	// (EncodesEmptyWZ): presence of an empty sub-message is not encoded.
	PtrEmpty bool
	// BoolWZ tolerates "want false, got true" (and "want nil *bool, got
	// pointer to true") for a bool reached through a pointer, slice or map
	// (positions where zero values are written explicitly: the bool codec
	// writes 0x01 there whatever the value).
	BoolWZ bool
	// NilBoolPtr tolerates "want nil *bool, got pointer to false": the size
	// and encode functions of the bool codec accept a nil value pointer when
	// the want-zero flag is set, which the pointer codec sets before looking
	// at its target, so a nil *bool is written as 0x00.
	NilBoolPtr bool
}

// CmpResult is the outcome of Compare.
type CmpResult struct {
	Diff        string // first untolerated difference ("" = equal)
	TolPtrEmpty int    // differences tolerated under Tol.PtrEmpty
	TolBool     int    // differences tolerated under Tol.BoolWZ
	TolNilBool  int    // differences tolerated under Tol.NilBoolPtr
}

// Compare compares the decoded value got with the expected value want (same
// type). wzTop says that the top-level value was marshalled through a
// pointer (its first field is then in "want zero" position).
func Compare(want, got reflect.Value, tol Tol, wzTop bool) CmpResult {
	c := &cmp{tol: tol}
	c.walk(want, got, "v", wzTop)
	return c.res
}

type cmp struct {
	tol Tol
	res CmpResult
}

func (c *cmp) diff(path, format string, args ...any) {
	if c.res.Diff == "" {
		c.res.Diff = path + ": " + fmt.Sprintf(format, args...)
	}
}

func (c *cmp) walk(w, g reflect.Value, path string, wz bool) {
	if c.res.Diff != "" {
		return
	}
	switch w.Kind() {
	case reflect.Bool:
		if w.Bool() != g.Bool() {
			if c.tol.BoolWZ && wz && !w.Bool() && g.Bool() {
				c.res.TolBool++
				return
			}
			c.diff(path, "want %v got %v", w.Bool(), g.Bool())
		}
	case reflect.Int, reflect.Int8, reflect.Int16, reflect.Int32, reflect.Int64:
		if w.Int() != g.Int() {
			c.diff(path, "want %d got %d", w.Int(), g.Int())
		}
	case reflect.Uint, reflect.Uint8, reflect.Uint16, reflect.Uint32, reflect.Uint64, reflect.Uintptr:
		if w.Uint() != g.Uint() {
			c.diff(path, "want %d got %d", w.Uint(), g.Uint())
		}
	case reflect.Float32:
		if a, b := Float32Bits(w), Float32Bits(g); a != b {
			c.diff(path, "want float32 bits %#08x got %#08x", a, b)
		}
	case reflect.Float64:
		if a, b := Float64Bits(w), Float64Bits(g); a != b {
			c.diff(path, "want float64 bits %#016x got %#016x", a, b)
		}
	case reflect.String:
		if w.String() != g.String() {
			c.diff(path, "want %q got %q", trunc(w.String()), trunc(g.String()))
		}
	case reflect.Slice:
		if w.Type().Elem().Kind() == reflect.Uint8 {
			if !bytes.Equal(w.Bytes(), g.Bytes()) { // nil == empty
				c.diff(path, "want bytes %x got %x", truncB(w.Bytes()), truncB(g.Bytes()))
			}
			return
		}
		if w.Len() != g.Len() {
			c.diff(path, "want %d elements got %d", w.Len(), g.Len())
			return
		}
		for i := 0; i < w.Len(); i++ {
			c.walk(w.Index(i), g.Index(i), fmt.Sprintf("%s[%d]", path, i), true)
		}
	case reflect.Array:
		if w.Type().Elem().Kind() == reflect.Uint8 { // byte arrays (up to 128 KiB): compare as bytes
			wb, gb := make([]byte, w.Len()), make([]byte, g.Len())
			reflect.Copy(reflect.ValueOf(wb), w)
			reflect.Copy(reflect.ValueOf(gb), g)
			if !bytes.Equal(wb, gb) {
				i := 0
				for i < len(wb) && wb[i] == gb[i] {
					i++
				}
				c.diff(fmt.Sprintf("%s[%d]", path, i), "want %d got %d", wb[i], gb[i])
			}
			return
		}
		for i := 0; i < w.Len(); i++ {
			c.walk(w.Index(i), g.Index(i), fmt.Sprintf("%s[%d]", path, i), wz)
		}
	case reflect.Map:
		if w.Len() != g.Len() {
			c.diff(path, "want %d map entries got %d", w.Len(), g.Len())
			return
		}
		it := w.MapRange()
		for it.Next() {
			gv := g.MapIndex(it.Key())
			if !gv.IsValid() {
				c.diff(path, "key %v missing", it.Key())
				return
			}
			c.walk(it.Value(), gv, fmt.Sprintf("%s[%v]", path, it.Key()), true)
		}
	case reflect.Ptr:
		switch {
		case w.IsNil() && g.IsNil():
		case w.IsNil():
			// same root cause: sizeOfBool/encodeBool test "p != nil && *p || wantzero"
			// and the pointer codec sets wantzero before it looks at the target,
			// so every nil *bool is written as 0x01 too
			if c.tol.BoolWZ && g.Elem().Kind() == reflect.Bool && g.Elem().Bool() {
				c.res.TolBool++
				return
			}
			if c.tol.NilBoolPtr && g.Elem().Kind() == reflect.Bool && !g.Elem().Bool() {
				c.res.TolNilBool++
				return
			}
			c.diff(path, "want nil pointer got non-nil")
		case g.IsNil():
			if c.tol.PtrEmpty && EncodesEmptyWZ(w.Elem()) {
				c.res.TolPtrEmpty++
				return
			}
			c.diff(path, "want non-nil pointer got nil")
		default:
			c.walk(w.Elem(), g.Elem(), "(*"+path+")", true)
		}
	case reflect.Struct:
		for i := 0; i < w.NumField(); i++ {
			c.walk(w.Field(i), g.Field(i), path+"."+w.Type().Field(i).Name, wz)
		}
	default:
		c.diff(path, "unsupported kind %s", w.Kind())
	}
}

func trunc(s string) string {
	if len(s) > 60 {
		return s[:60] + "…"
	}
	return s
}

func truncB(b []byte) []byte {
	if len(b) > 40 {
		return b[:40]
	}
	return b
}

var (
	protoMarkerIface = reflect.TypeOf((*interface{ ProtoMessage() })(nil)).Elem()
	messageIface     = reflect.TypeOf((*proto.Message)(nil)).Elem()
	customIface      = reflect.TypeOf((*interface {
		Size() int
		MarshalTo([]byte) (int, error)
		Unmarshal([]byte) error
	})(nil)).Elem()
)

// IsImplType mirrors the library's dispatch (codecOf / selfDelimited): a type
// (or its pointer type) implementing Message, or implementing the gogo-style
// custom interface without carrying the ProtoMessage() marker.
func IsImplType(t reflect.Type) bool {
	pt := reflect.PointerTo(t)
	impl := func(i reflect.Type) bool { return t.Implements(i) || pt.Implements(i) }
	return impl(messageIface) || impl(customIface) && !impl(protoMarkerIface)
}

// EncodesEmptyWZ is the model of "this value, encoded in want-zero position
// (as the target of a pointer), produces zero bytes" — the condition under
// which the library loses the presence of the pointer:
//
//   - scalars, strings, []byte, byte arrays and implementers are written
//     explicitly in want-zero position: never empty;
//   - a nil pointer is empty; a non-nil pointer is as empty as its target;
//   - a struct is empty when all its non-repeated fields (in declaration
//     order, the first non-empty one consumes the marker) are empty, all its
//     repeated fields have no element and all its map fields are nil (a
//     non-nil map always writes at least tag+0).
func EncodesEmptyWZ(v reflect.Value) bool {
	t := v.Type()
	if IsImplType(t) {
		return false
	}
	switch v.Kind() {
	case reflect.Ptr:
		if v.IsNil() {
			return true
		}
		return EncodesEmptyWZ(v.Elem())
	case reflect.Struct:
		for i := 0; i < v.NumField(); i++ {
			sf := t.Field(i)
			if sf.PkgPath != "" {
				continue
			}
			f := v.Field(i)
			switch {
			case IsImplType(sf.Type):
				return false
			case f.Kind() == reflect.Map:
				// a nil map writes nothing (since 684b018; before, it wrote one
				// empty entry — the model only ever permits, so the laxer answer
				// is right for both), a non-nil one at least tag+0
				if !f.IsNil() {
					return false
				}
			case f.Kind() == reflect.Slice && sf.Type.Elem().Kind() != reflect.Uint8:
				if f.Len() > 0 {
					return false
				}
			default:
				if !EncodesEmptyWZ(f) {
					return false
				}
			}
		}
		return true
	}
	return false
}
