package pgen

// ---------------------------------------------------------------- static targets

func fk(k string) TypeDesc       { return TypeDesc{K: k} }
func fnm(n string) TypeDesc      { return TypeDesc{K: KNamed, Name: n} }
func fptr(t TypeDesc) TypeDesc   { return TypeDesc{K: KPtr, Elem: &t} }
func fsl(t TypeDesc) TypeDesc    { return TypeDesc{K: KSlice, Elem: &t} }
func fmp(k, v TypeDesc) TypeDesc { return TypeDesc{K: KMap, Key: &k, Elem: &v} }
func farr(n int) TypeDesc        { return TypeDesc{K: KArray, Len: n} }
func fst(ts ...TypeDesc) TypeDesc { // untagged struct
	d := TypeDesc{K: KStruct}
	for i, t := range ts {
		d.Fields = append(d.Fields, FieldDesc{Num: i + 1, T: t})
	}
	return d
}
func ftag(num int, wire string, rep bool, t TypeDesc) FieldDesc {
	return FieldDesc{Num: num, Wire: wire, Rep: rep, T: t}
}
func ftagged(fs ...FieldDesc) TypeDesc { return TypeDesc{K: KStruct, Fields: fs} }

// FuzzTargets: representative static target types for the native fuzz targets
// (selected by their second argument).
var FuzzTargets = func() []TypeDesc {
	small := fst(fk(KInt32), fk(KString), fk(KBool))
	key := fst(fk(KUint32), fk(KString))
	return []TypeDesc{
		// 0: every scalar kind, string, bytes, byte array (untagged)
		fst(fk(KBool), fk(KInt), fk(KInt32), fk(KInt64), fk(KUint), fk(KUint32), fk(KUint64),
			fk(KFloat32), fk(KFloat64), fk(KString), fk(KBytes), farr(4)),
		// 1: tags: zigzag, fixed, large / boundary field numbers
		ftagged(ftag(1, "zigzag32", false, fk(KInt32)), ftag(15, "zigzag64", false, fk(KInt64)), ftag(16, "fixed32", false, fk(KUint32)),
			ftag(2047, "fixed64", false, fk(KUint64)), ftag(2048, "fixed32", false, fk(KFloat32)), ftag(65535, "fixed64", false, fk(KFloat64)),
			ftag(65537, "fixed32", false, fk(KInt32)), ftag(70000, "varint", false, fk(KInt)), ftag(1<<29-1, "bytes", false, fk(KString))),
		// 2: repeated scalars / strings / bytes, with rep tags
		ftagged(ftag(1, "varint", true, fsl(fk(KInt32))), ftag(2, "bytes", true, fsl(fk(KString))), ftag(3, "bytes", true, fsl(fk(KBytes))),
			ftag(4, "varint", true, fsl(fk(KBool))), ftag(5, "fixed64", true, fsl(fk(KFloat64))), ftag(6, "fixed32", true, fsl(fk(KUint32))),
			ftag(7, "zigzag64", true, fsl(fk(KInt64)))),
		// 3: repeated messages, by value and by pointer
		fst(fsl(small), fsl(fptr(small)), fk(KInt)),
		// 4: maps of every key/value family
		fst(fmp(fk(KString), fk(KInt32)), fmp(fk(KInt64), fk(KString)), fmp(fk(KBool), fk(KBytes)),
			fmp(fk(KUint32), small), fmp(fk(KString), fptr(small)), fmp(key, fk(KFloat32)), fmp(farr(2), farr(3))),
		// 5: nested and pointer-to messages and scalars
		fst(small, fptr(small), fptr(fptr(fk(KInt))), fptr(fk(KString)), fptr(fk(KBool)), fptr(fst()), fst(fptr(fst(fsl(fk(KInt)))))),
		// 6: proto2-style optional scalars with fixed / zigzag tags
		ftagged(ftag(1, "fixed32", false, fptr(fk(KUint32))), ftag(2, "fixed64", false, fptr(fk(KFloat64))), ftag(3, "zigzag64", false, fptr(fk(KInt64))),
			ftag(4, "fixed32", false, fptr(fk(KFloat32))), ftag(5, "fixed64", true, fsl(fptr(fk(KUint64))))),
		// 7: byte arrays
		fst(farr(0), farr(1), farr(16), fptr(farr(4)), fsl(farr(2))),
		// 8: implementers as fields
		fst(fk(KInt), fnm("RawMessage"), fnm("Msg"), fnm("Custom16"), fnm("CustomS"), fk(KString)),
		// 9: pointers to / repeated / mapped implementers
		fst(fptr(fnm("Msg")), fptr(fnm("Custom16")), fsl(fnm("RawMessage")), fsl(fnm("Msg")), fmp(fk(KString), fnm("Msg")), fmp(fk(KInt32), fnm("Custom16"))),
		fnm("Rec"), fnm("Tree"), fnm("RecMap"), fnm("Opt2"), fnm("Hidden"), // 10..14
		fnm("RawMessage"), fnm("Msg"), fnm("Custom16"), // 15..17 top-level implementers
		fk(KString), fk(KInt64), farr(8), fk(KBytes), // 18..21 top-level scalars
		// 22: inlined single-pointer chain down to a map
		fst(fptr(fst(fptr(fst(fmp(fk(KString), fk(KInt))))))),
		// 23..26: implementers and corpus structs behind 1..3 pointers, as the top-level value and as fields
		fptr(fptr(fnm("Msg"))), fptr(fptr(fptr(fnm("Custom16")))), fptr(fnm("RawMessage")),
		fst(fk(KInt), fptr(fnm("RawMessage")), fptr(fptr(fnm("Msg"))), fptr(fptr(fptr(fnm("Tree")))), fptr(fnm("CustomS")), fsl(fptr(fnm("Msg")))),
		// 27..28: implementers that also carry the ProtoMessage() marker (MsgPM: Message codec; CustomSPM: plain reflection struct)
		fst(fk(KInt), fnm("MsgPM"), fptr(fnm("MsgPM")), fsl(fnm("MsgPM")), fmp(fk(KString), fnm("MsgPM")), fnm("CustomSPM"), fsl(fptr(fnm("CustomSPM"))), fk(KString)),
		fnm("MsgPM"),
		// 29..31: implementers that rely on the caller for room (copy-based MarshalTo, Marshal assuming len(b) >= Size())
		fst(fk(KInt), fnm("CustomCopy"), fptr(fnm("MsgTrust")), fsl(fnm("CustomCopy")), fmp(fk(KString), fnm("MsgTrust")), fk(KString)),
		fnm("CustomCopy"), fptr(fnm("MsgTrust")),
	}
}()
