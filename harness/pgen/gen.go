package pgen

import (
	"math"
	"strconv"

	"pgregory.net/rapid"
)

// Opts steers the generator. The "No…"/"…Only" switches make it avoid, by
// construction, the classes of inputs that are listed as known findings
// (callers set them from evid.KnownActive); every time a draw is steered away
// Excluded(class) is called so that the evidence counts what was not explored.
type Opts struct {
	MaxRep   int  // cap on the number of elements of a repeated field / map (0 = 40)
	BigRep   bool // 5 % of repeated fields get up to BigRepMax elements
	BigRepN  int  // upper bound for BigRep (0 = 5000)
	Small    bool // small values (C16: encodings of at most a few hundred bytes)
	MaxDepth int  // struct nesting (0 = 3)
	MaxNum   int  // largest field number (0 = 1<<29-1)

	NoPtrImpl      bool // class ptr-to-implementer
	ImplLastOnly   bool // class impl-field-overshoot: implementers only at top level or as last field of a top-level struct without repeated/map fields
	NoFixedPtr     bool // class fixed-tag-on-pointer
	NoModCollide   bool // class field-number-mod-65536
	NoFalseBoolKey bool // class bool-false-wantzero: no false bool map keys, no bools inside struct keys
	NoImpl         bool // no implementers at all
	ForceBigRep    bool // the first cheap repeated field of each value gets 1001..BigRepN elements
	Huge           bool // thorough tier: payload lengths around 2^21 are drawn too

	Excluded func(class string)

	// class names used for Excluded (set by the caller so that they match
	// known_findings.json)
	ClassRep, ClassPtrImpl, ClassImplLast, ClassFixedPtr, ClassModCollide, ClassBoolKey string
}

func (o *Opts) excluded(class string) {
	if o.Excluded != nil && class != "" {
		o.Excluded(class)
	}
}

func (o *Opts) maxDepth() int {
	if o.MaxDepth == 0 {
		return 3
	}
	return o.MaxDepth
}

// Uniform draws an integer in [0, n). rapid's own integer generators are
// deliberately biased towards small values (a geometric choice of bit width),
// which would distort every weighted choice below; here the raw 64-bit draw is
// passed through splitmix64, except that the raw value 0 maps to 0 so that
// shrinking still converges on the first (simplest) alternative. The result
// is uniform up to ~+5 % on alternative 0.
func Uniform(t *rapid.T, label string, n int) int {
	u := rapid.Uint64().Draw(t, label)
	if u == 0 || n <= 1 {
		return 0
	}
	u += 0x9e3779b97f4a7c15
	u = (u ^ (u >> 30)) * 0xbf58476d1ce4e5b9
	u = (u ^ (u >> 27)) * 0x94d049bb133111eb
	u ^= u >> 31
	return int(u % uint64(n))
}

func oneOf[T any](t *rapid.T, label string, xs []T) T { return xs[Uniform(t, label, len(xs))] }

// pick draws an index with the given integer weights.
func pick(t *rapid.T, label string, weights ...int) int {
	sum := 0
	for _, w := range weights {
		sum += w
	}
	x := Uniform(t, label, sum)
	for i, w := range weights {
		if x < w {
			return i
		}
		x -= w
	}
	return len(weights) - 1
}

var scalarKinds = []string{KBool, KInt, KInt32, KInt64, KUint, KUint32, KUint64, KFloat32, KFloat64}
var keyKinds = []string{KBool, KInt, KInt32, KInt64, KUint, KUint32, KUint64, KString, KString, KString}

// ---------------------------------------------------------------- types

// GenType draws a top-level message type.
func GenType(t *rapid.T, o *Opts) TypeDesc {
	g := &tgen{t: t, o: o}
	var d TypeDesc
	switch pick(t, "top", 53, 8, 7, 9, 10, 4, 7, 2) {
	case 7:
		d = g.bigStruct()
	case 0:
		d = g.structType(0)
	case 1:
		d = g.leafType(true)
	case 2:
		if o.NoImpl {
			d = g.structType(0)
		} else {
			d = named(oneOf(t, "impl", ImplNames))
		}
	case 3:
		d = named(oneOf(t, "corpus", StructNames))
	case 4:
		d = g.inlinedChain()
	case 5:
		if o.NoImpl {
			d = g.structType(0)
		} else {
			d = g.implLast()
		}
	default:
		d = g.pointerChain(0)
	}
	g.restrictImpl(&d)
	return d
}

// bigStruct: a message struct larger than 64 KiB: 0..3 leading fields, a byte
// array of 65536 / 70000 / 131072 bytes (first field or in the middle), then
// fields of every kind (scalar, string, bytes, repeated, nested and
// pointer-to message, map, pointer to scalar, implementer) whose offsets in
// the Go struct lie beyond 65535.
func (g *tgen) bigStruct() TypeDesc {
	d := TypeDesc{K: KStruct}
	add := func(t TypeDesc) { d.Fields = append(d.Fields, FieldDesc{Num: len(d.Fields) + 1, T: t}) }
	for n := Uniform(g.t, "bigpre", 4); n > 0; n-- {
		add(g.fieldType(2))
	}
	add(TypeDesc{K: KArray, Len: oneOf(g.t, "biglen", []int{65536, 65536, 70000, 131072})})
	k, e := leaf(oneOf(g.t, "key", keyKinds)), g.leafType(true)
	after := []TypeDesc{g.scalar(), leaf(KString), sl(g.scalar()), g.structType(2), ptr(g.structType(2)), {K: KMap, Key: &k, Elem: &e},
		leaf(KBytes), sl(leaf(KString)), ptr(g.scalar()), g.scalar()}
	if !g.o.NoImpl {
		after = append(after, g.impl())
	}
	// a rotation of the list so that every kind comes first after the array in turn
	rot := Uniform(g.t, "bigrot", len(after))
	for i := range after {
		add(after[(i+rot)%len(after)])
	}
	for n := Uniform(g.t, "bigpost", 3); n > 0; n-- {
		add(g.fieldType(2))
	}
	if rapid.Bool().Draw(g.t, "tagged") {
		g.tagFields(&d)
	}
	return d
}

// pointerChain: 1..3 pointers to an implementer (RawMessage, Msg, Custom16,
// CustomS), a corpus struct, a reflect-made struct or a scalar. Used for the
// top-level value (the flags inline/toplevel/wantzero travel through every
// pointer codec of the chain) and for fields, elements and map values.
func (g *tgen) pointerChain(depth int) TypeDesc {
	var base TypeDesc
	switch pick(g.t, "pcbase", 10, 5, 3, 2) {
	case 0:
		switch {
		case g.o.NoImpl:
			base = named(oneOf(g.t, "pccorpus", StructNames))
		case g.o.NoPtrImpl:
			g.o.excluded(g.o.ClassPtrImpl)
			base = named(oneOf(g.t, "pccorpus", StructNames))
		default:
			base = g.impl()
		}
	case 1:
		base = named(oneOf(g.t, "pccorpus", StructNames))
	case 2:
		if depth < g.o.maxDepth() {
			base = g.structType(depth + 1)
		} else {
			base = g.scalar()
		}
	default:
		base = g.leafType(false)
	}
	for n := 1 + pick(g.t, "pcdepth", 5, 3, 2); n > 0; n-- {
		base = ptr(base)
	}
	return base
}

// implLast: a struct of 0..4 non-repeated fields followed by a Message /
// custom implementer field (the one nested position that stays in the domain
// while the class implementer-field-not-last is listed).
func (g *tgen) implLast() TypeDesc {
	n := rapid.IntRange(0, 4).Draw(g.t, "n")
	d := TypeDesc{K: KStruct}
	for i := 0; i < n; i++ {
		ft := g.fieldType(1)
		if ft.K == KSlice || ft.K == KMap {
			ft = g.leafType(true)
		}
		d.Fields = append(d.Fields, FieldDesc{Num: i + 1, T: ft})
	}
	d.Fields = append(d.Fields, FieldDesc{Num: n + 1, T: g.impl()})
	if rapid.Bool().Draw(g.t, "tagged") {
		g.tagFields(&d)
	}
	return d
}

type tgen struct {
	t *rapid.T
	o *Opts
}

func (g *tgen) scalar() TypeDesc {
	return leaf(oneOf(g.t, "scalar", scalarKinds))
}

// leafType: scalar, string, bytes or byte array.
func (g *tgen) leafType(allowBytes bool) TypeDesc {
	switch pick(g.t, "leaf", 9, 3, 3, 2) {
	case 0:
		return g.scalar()
	case 1:
		return leaf(KString)
	case 2:
		if allowBytes {
			return leaf(KBytes)
		}
		return leaf(KString)
	default:
		return TypeDesc{K: KArray, Len: g.arrayLen()}
	}
}

func (g *tgen) arrayLen() int {
	switch pick(g.t, "alen", 10, 60, 20, 9, 1) {
	case 4: // byte arrays whose length prefix sits on a varint width boundary
		if g.o.Small && Uniform(g.t, "abig", 8) != 0 {
			return oneOf(g.t, "n", []int{127, 128, 129})
		}
		return oneOf(g.t, "n", []int{127, 128, 129, 16383, 16384, 16385})
	case 0:
		return 0
	case 1:
		return rapid.IntRange(1, 9).Draw(g.t, "n")
	case 2:
		return oneOf(g.t, "n", []int{8, 15, 16, 17, 24, 32})
	default:
		if g.o.Small {
			return 20
		}
		return oneOf(g.t, "n", []int{127, 128, 200})
	}
}

func (g *tgen) impl() TypeDesc {
	return named(oneOf(g.t, "impl", ImplNames))
}

// pointee: what a pointer field may point to (never a slice-kinded type).
func (g *tgen) pointer(depth int) TypeDesc {
	switch pick(g.t, "ptrto", 8, 8, 2, 1, 1, 1, 3, 3) {
	case 7:
		return g.pointerChain(depth)
	case 6:
		// pointer to a corpus struct: for the recursive ones the pointer codec is then requested
		// before the struct codec, and again from inside it
		return ptr(named(oneOf(g.t, "pcorpus", StructNames)))
	case 0:
		if depth < g.o.maxDepth() {
			return ptr(g.structType(depth + 1))
		}
		return ptr(g.scalar())
	case 1:
		return ptr(g.scalar())
	case 2:
		return ptr(leaf(KString))
	case 3:
		return ptr(TypeDesc{K: KArray, Len: g.arrayLen()})
	case 4: // pointer to pointer
		if depth < g.o.maxDepth() && rapid.Bool().Draw(g.t, "ppstruct") {
			return ptr(ptr(g.structType(depth + 1)))
		}
		return ptr(ptr(g.scalar()))
	default:
		if g.o.NoImpl {
			return ptr(g.scalar())
		}
		if g.o.NoPtrImpl {
			g.o.excluded(g.o.ClassPtrImpl)
			return ptr(g.scalar())
		}
		// (*[]byte stays outside the domain; *RawMessage is handled by the
		// pointer codec since 4eb59c8 / 644a5bf)
		return ptr(g.impl())
	}
}

// elemType: element of a repeated field or value of a map.
func (g *tgen) elemType(depth int) TypeDesc {
	switch pick(g.t, "elem", 10, 4, 3, 2, 5, 4, 2, 2, 2, 2, 2) {
	case 10:
		return g.pointerChain(depth)
	case 8:
		return named(oneOf(g.t, "ecorpus", StructNames))
	case 9:
		return ptr(named(oneOf(g.t, "epcorpus", StructNames)))
	case 0:
		return g.scalar()
	case 1:
		return leaf(KString)
	case 2:
		return leaf(KBytes)
	case 3:
		return TypeDesc{K: KArray, Len: g.arrayLen()}
	case 4:
		if depth < g.o.maxDepth() {
			return g.structType(depth + 1)
		}
		return g.scalar()
	case 5:
		if depth < g.o.maxDepth() {
			return ptr(g.structType(depth + 1))
		}
		return leaf(KString)
	case 6:
		return ptr(g.scalar())
	default:
		if g.o.NoImpl {
			return leaf(KBytes)
		}
		return g.impl()
	}
}

func (g *tgen) keyType() TypeDesc {
	switch pick(g.t, "keyk", 12, 2, 1) {
	case 0:
		return leaf(oneOf(g.t, "key", keyKinds))
	case 1: // comparable struct of scalars / strings
		n := rapid.IntRange(1, 3).Draw(g.t, "nkf")
		d := TypeDesc{K: KStruct}
		for i := 0; i < n; i++ {
			k := oneOf(g.t, "kf", keyKinds)
			if k == KBool && g.o.NoFalseBoolKey {
				g.o.excluded(g.o.ClassBoolKey)
				k = KUint32
			}
			d.Fields = append(d.Fields, FieldDesc{Num: i + 1, T: leaf(k)})
		}
		return d
	default:
		return TypeDesc{K: KArray, Len: rapid.IntRange(1, 8).Draw(g.t, "kalen")}
	}
}

func (g *tgen) fieldType(depth int) TypeDesc {
	switch pick(g.t, "field", 38, 8, 7, 4, 7, 15, 11, 7, 3, 2) {
	case 0:
		return g.scalar()
	case 1:
		return leaf(KString)
	case 2:
		return leaf(KBytes)
	case 3:
		return TypeDesc{K: KArray, Len: g.arrayLen()}
	case 4:
		if depth < g.o.maxDepth() {
			return g.structType(depth + 1)
		}
		return g.scalar()
	case 5:
		return g.pointer(depth)
	case 6:
		return sl(g.elemType(depth))
	case 7:
		k, e := g.keyType(), g.elemType(depth)
		return TypeDesc{K: KMap, Key: &k, Elem: &e}
	case 8:
		if g.o.NoImpl {
			return leaf(KBytes)
		}
		return g.impl()
	default:
		return named(oneOf(g.t, "corpus", StructNames))
	}
}

func (g *tgen) structType(depth int) TypeDesc {
	var n int
	switch pick(g.t, "nf", 3, 12, 55, 25, 5) {
	case 0:
		n = 0
	case 1:
		n = 1
	case 2:
		n = rapid.IntRange(2, 5).Draw(g.t, "n")
	case 3:
		n = rapid.IntRange(6, 12).Draw(g.t, "n")
	default:
		n = rapid.IntRange(13, 30).Draw(g.t, "n")
	}
	if depth > 0 && n > 8 {
		n = 8
	}
	if g.o.Small && n > 6 {
		n = 6
	}
	d := TypeDesc{K: KStruct, Fields: make([]FieldDesc, n)}
	for i := range d.Fields {
		d.Fields[i].T = g.fieldType(depth)
		d.Fields[i].Num = i + 1
	}
	if n > 0 && rapid.Bool().Draw(g.t, "tagged") {
		g.tagFields(&d)
	}
	return d
}

// GenTypeBigSlice draws a struct type that has at least one repeated field of
// cheap elements (scalars or strings) next to 0..4 arbitrary fields.
func GenTypeBigSlice(t *rapid.T, o *Opts) TypeDesc {
	g := &tgen{t: t, o: o}
	n := rapid.IntRange(0, 4).Draw(t, "extra")
	d := TypeDesc{K: KStruct}
	pos := rapid.IntRange(0, n).Draw(t, "pos")
	for i := 0; i <= n; i++ {
		var ft TypeDesc
		if i == pos {
			if Uniform(t, "bigelem", 4) == 0 {
				ft = sl(leaf(KString))
			} else {
				ft = sl(g.scalar())
			}
		} else {
			ft = g.fieldType(2)
		}
		d.Fields = append(d.Fields, FieldDesc{Num: i + 1, T: ft})
	}
	if rapid.Bool().Draw(t, "tagged") {
		g.tagFields(&d)
	}
	g.restrictImpl(&d)
	return d
}

// inlinedChain: struct{F0 *struct{F0 *struct{… leaf}}}, the pointer-shaped
// "inlined" representation nested to depth 1..3.
func (g *tgen) inlinedChain() TypeDesc {
	depth := rapid.IntRange(1, 3).Draw(g.t, "inl")
	var inner TypeDesc
	switch pick(g.t, "inlleaf", 4, 3, 3, 2) {
	case 0:
		inner = ptr(g.scalar())
	case 1:
		k, e := leaf(oneOf(g.t, "key", keyKinds)), g.leafType(true)
		inner = TypeDesc{K: KMap, Key: &k, Elem: &e}
	case 2:
		inner = ptr(g.structType(2))
	default:
		inner = ptr(leaf(KString))
	}
	d := TypeDesc{K: KStruct, Fields: []FieldDesc{{Num: 1, T: inner}}}
	for i := 1; i < depth; i++ {
		if rapid.Bool().Draw(g.t, "byptr") {
			d = TypeDesc{K: KStruct, Fields: []FieldDesc{{Num: 1, T: ptr(d)}}}
		} else {
			d = TypeDesc{K: KStruct, Fields: []FieldDesc{{Num: 1, T: d}}}
		}
	}
	return d
}

// ---------------------------------------------------------------- tags

func wireTokens(d *TypeDesc) []string {
	base := d
	for base.K == KPtr {
		base = base.Elem
	}
	switch base.K {
	case KBool, KUint:
		return []string{"varint"}
	case KInt, KInt64:
		if base.K == KInt64 {
			return []string{"varint", "varint", "zigzag64", "fixed64"}
		}
		return []string{"varint", "varint", "zigzag64"}
	case KInt32:
		return []string{"varint", "varint", "zigzag32", "fixed32"}
	case KUint32:
		return []string{"varint", "fixed32"}
	case KUint64:
		return []string{"varint", "fixed64"}
	case KFloat32:
		return []string{"fixed32"}
	case KFloat64:
		return []string{"fixed64"}
	}
	return []string{"bytes"}
}

func (g *tgen) number(used map[int]bool, prev []int) int {
	max := g.o.MaxNum
	if max == 0 {
		max = 1<<29 - 1
	}
	var n int
	switch pick(g.t, "numclass", 58, 10, 10, 7, 7, 4, 4) {
	case 0:
		n = rapid.IntRange(1, 15).Draw(g.t, "num")
	case 1:
		n = oneOf(g.t, "num", []int{15, 16, 17, 2047})
	case 2:
		n = rapid.IntRange(16, 2047).Draw(g.t, "num")
	case 3:
		n = oneOf(g.t, "num", []int{2048, 2049, 16383, 16384, 65535})
	case 4:
		n = rapid.IntRange(2048, 65535).Draw(g.t, "num")
	case 5:
		n = oneOf(g.t, "num", []int{65536, 65537, 70000, 1 << 21, 1<<29 - 1})
	default: // collision seeker: an earlier number + 65536
		if len(prev) > 0 {
			n = prev[rapid.IntRange(0, len(prev)-1).Draw(g.t, "prev")] + 65536
		} else {
			n = rapid.IntRange(65536, 1<<29-1).Draw(g.t, "num")
		}
	}
	if n > max {
		n = 1 + n%max
	}
	steered := false
	for used[n] || (g.o.NoModCollide && used[-1-(n&0xFFFF)]) {
		if !used[n] {
			steered = true
		}
		n++
		if n > max {
			n = 1
		}
	}
	if steered {
		g.o.excluded(g.o.ClassModCollide)
	}
	used[n] = true
	used[-1-(n&0xFFFF)] = true
	return n
}

func (g *tgen) tagFields(d *TypeDesc) {
	used := map[int]bool{}
	var prev []int
	for i := range d.Fields {
		f := &d.Fields[i]
		f.Num = g.number(used, prev)
		prev = append(prev, f.Num)
		switch f.T.K {
		case KSlice:
			toks := wireTokens(f.T.Elem)
			f.Wire = toks[rapid.IntRange(0, len(toks)-1).Draw(g.t, "wire")]
			f.Rep = Uniform(g.t, "rep", 10) != 0
		case KMap:
			f.Wire = "bytes"
			f.Rep = rapid.Bool().Draw(g.t, "rep")
		default:
			toks := wireTokens(&f.T)
			f.Wire = toks[rapid.IntRange(0, len(toks)-1).Draw(g.t, "wire")]
		}
		if FixedTagOnPointer(f) && g.o.NoFixedPtr {
			g.o.excluded(g.o.ClassFixedPtr)
			pt := &f.T
			if pt.K == KSlice {
				pt = pt.Elem
			}
			base := pt
			for base.K == KPtr {
				base = base.Elem
			}
			if base.K == KFloat32 || base.K == KFloat64 {
				*pt = *base // keep the fixed tag, drop the pointer
			} else {
				f.Wire = "varint"
			}
		}
	}
}

// restrictImpl enforces Opts.ImplLastOnly on a finished top-level type:
// implementers stay only at top level or as the last field of the top-level
// struct when that struct has no repeated/map field; elsewhere they are
// replaced by []byte.
func (g *tgen) restrictImpl(top *TypeDesc) {
	if !g.o.ImplLastOnly {
		return
	}
	var strip func(d *TypeDesc)
	strip = func(d *TypeDesc) {
		switch d.K {
		case KNamed:
			if d.Impl() != "" {
				g.o.excluded(g.o.ClassImplLast)
				*d = leaf(KBytes)
			}
		case KPtr:
			if stripPtr(d).Impl() != "" { // pointer to []byte is not in the domain
				g.o.excluded(g.o.ClassImplLast)
				*d = leaf(KBytes)
				return
			}
			strip(d.Elem)
		case KSlice:
			strip(d.Elem)
		case KMap:
			strip(d.Key)
			strip(d.Elem)
		case KStruct:
			for i := range d.Fields {
				strip(&d.Fields[i].T)
			}
		}
	}
	if top.K != KStruct {
		if stripPtr(top).K == KNamed {
			return // top-level implementer or corpus struct (no implementers inside), possibly behind pointers
		}
		strip(top)
		return
	}
	hasRep := false
	for i := range top.Fields {
		if k := top.Fields[i].T.K; k == KSlice || k == KMap {
			hasRep = true
		}
	}
	for i := range top.Fields {
		f := &top.Fields[i]
		if i == len(top.Fields)-1 && !hasRep && stripPtr(&f.T).Impl() != "" {
			continue
		}
		strip(&f.T)
	}
}

// ---------------------------------------------------------------- values

var int64Edges = []int64{0, 1, -1, 2, 63, 64, 127, 128, 255, 256, 16383, 16384, 1<<21 - 1, 1 << 21, 1<<28 - 1, 1 << 28,
	math.MaxInt32, math.MaxInt32 + 1, math.MinInt32, math.MinInt32 - 1, math.MaxUint32, math.MaxUint32 + 1,
	1<<35 - 1, 1 << 35, 1<<42 - 1, 1 << 42, 1<<49 - 1, 1 << 49, 1<<56 - 1, 1 << 56, 1<<62 - 1, 1 << 62, math.MaxInt64, math.MinInt64, math.MinInt64 + 1, -64, -65, -128, -129}

var f64Edges = []uint64{0, 1 << 63, 0x3ff0000000000000, 0xbff0000000000000, 0x7ff0000000000000, 0xfff0000000000000,
	0x7ff8000000000000, 0x7ff8000000000001, 0x7ff0000000000001, 0xfff8000000000000, 1, 0x7fefffffffffffff, 0x000fffffffffffff, 0x0010000000000000}

var f32Edges = []uint64{0, 1 << 31, 0x3f800000, 0xbf800000, 0x7f800000, 0xff800000, 0x7fc00000, 0x7fc00001, 0x7f800001, 0xffc00000, 1, 0x7f7fffff, 0x007fffff, 0x00800000}

func genInt(t *rapid.T, bits int, signed bool) uint64 {
	var v int64
	switch pick(t, "intclass", 10, 45, 25, 20) {
	case 0:
		v = 0
	case 1:
		v = oneOf(t, "edge", int64Edges)
	case 2:
		v = int64(rapid.IntRange(-300, 300).Draw(t, "small"))
	default:
		w := rapid.IntRange(1, 64).Draw(t, "width")
		u := rapid.Uint64().Draw(t, "bits")
		if w < 64 {
			u &= 1<<uint(w) - 1
		}
		v = int64(u)
		if signed && rapid.Bool().Draw(t, "neg") {
			v = -v
		}
	}
	if bits == 32 {
		if signed {
			return uint64(int64(int32(v)))
		}
		return uint64(uint32(v))
	}
	return uint64(v)
}

// boundaryLen draws a payload length on or next to a width boundary of the
// length-prefix varint: 2^7 and 2^14 (and 2^21 with Opts.Huge). The values
// B-4..B-2 make a message that wraps the payload (tag + prefix + payload) land
// on the boundary itself. With Opts.Small the 2^14 group is rare (those values
// are expensive for checks that enumerate every cut point).
func boundaryLen(t *rapid.T, o *Opts) int {
	around := func(b int) int { return b + []int{-4, -3, -2, -1, -1, 0, 0, 0, 1, 1}[Uniform(t, "bndoff", 10)] }
	if o.Huge && Uniform(t, "bndhuge", 40) == 0 {
		return around(1 << 21)
	}
	rare := 2
	if o.Small {
		rare = 16
	}
	if Uniform(t, "bnd14", rare) == 0 {
		return around(1 << 14)
	}
	return around(1 << 7)
}

func genString(t *rapid.T, o *Opts, label string) []byte {
	var n int
	switch pick(t, label+"len", 15, 50, 15, 10, 10, 2) {
	case 5:
		n = boundaryLen(t, o)
	case 0:
		n = 0
	case 1:
		n = rapid.IntRange(1, 10).Draw(t, "n")
	case 2:
		n = rapid.IntRange(11, 60).Draw(t, "n")
	case 3:
		if o.Small {
			n = rapid.IntRange(11, 40).Draw(t, "n")
		} else {
			n = oneOf(t, "n", []int{126, 127, 128, 129, 255, 256})
		}
	default:
		if o.Small {
			n = rapid.IntRange(1, 20).Draw(t, "n")
		} else {
			n = rapid.IntRange(61, 400).Draw(t, "n")
		}
	}
	b := make([]byte, n)
	switch pick(t, "content", 5, 3, 2) {
	case 0:
		for i := range b {
			b[i] = "abcdefghijklmnopqrstuvwxyz0123456789 _-"[(i*7+n)%39]
		}
		if n > 0 {
			b[0] = rapid.ByteRange('a', 'z').Draw(t, "c0")
		}
	case 1:
		copy(b, []byte("héllo wörld ✓ 日本語 \u0000 end"))
		for i := 33; i < n; i++ {
			b[i] = byte('A' + i%26)
		}
	default:
		seed := rapid.Uint64().Draw(t, "bytes")
		for i := range b {
			seed = seed*6364136223846793005 + 1442695040888963407
			b[i] = byte(seed >> 56)
		}
	}
	return b
}

// GenValue draws a recipe for d.
func GenValue(t *rapid.T, d *TypeDesc, o *Opts) Recipe {
	g := &vgen{t: t, o: o}
	return g.value(d, 0, false)
}

type vgen struct {
	t       *rapid.T
	o       *Opts
	bigDone bool
}

func (g *vgen) repLen(cheap bool) (n int, isNil bool) {
	max := g.o.MaxRep
	if max == 0 {
		max = 40
	}
	if g.o.ForceBigRep && cheap && !g.bigDone && g.o.MaxRep == 0 {
		g.bigDone = true
		bn := g.o.BigRepN
		if bn == 0 {
			bn = 5000
		}
		return rapid.IntRange(1001, bn).Draw(g.t, "bign"), false
	}
	switch pick(g.t, "replen", 10, 5, 38, 15, 20, 12) {
	case 0:
		return 0, true
	case 1:
		return 0, false
	case 2:
		n = rapid.IntRange(1, 10).Draw(g.t, "n")
	case 3:
		n = rapid.IntRange(11, 20).Draw(g.t, "n")
	case 4:
		n = rapid.IntRange(21, 40).Draw(g.t, "n")
	default:
		if g.o.BigRep && cheap {
			bn := g.o.BigRepN
			if bn == 0 {
				bn = 5000
			}
			n = rapid.IntRange(41, bn).Draw(g.t, "n")
			if g.o.MaxRep == 0 {
				return n, false
			}
		} else {
			n = rapid.IntRange(41, 80).Draw(g.t, "n")
		}
	}
	if g.o.Small && n > 8 {
		n = 1 + n%8
	}
	if n > max {
		if g.o.MaxRep != 0 {
			g.o.excluded(g.o.ClassRep)
		}
		n = max
	}
	return n, false
}

func (g *vgen) value(d *TypeDesc, depth int, isKey bool) Recipe {
	switch d.K {
	case KBool:
		return Recipe{U: uint64(Uniform(g.t, "bool", 2))}
	case KInt, KInt64:
		return Recipe{U: genInt(g.t, 64, true)}
	case KInt32:
		return Recipe{U: genInt(g.t, 32, true)}
	case KUint, KUint64:
		return Recipe{U: genInt(g.t, 64, false)}
	case KUint32:
		return Recipe{U: genInt(g.t, 32, false)}
	case KFloat32:
		if Uniform(g.t, "fedge", 3) != 0 {
			return Recipe{U: oneOf(g.t, "f32", f32Edges)}
		}
		return Recipe{U: uint64(rapid.Uint32().Draw(g.t, "f32bits"))}
	case KFloat64:
		if Uniform(g.t, "fedge", 3) != 0 {
			return Recipe{U: oneOf(g.t, "f64", f64Edges)}
		}
		return Recipe{U: rapid.Uint64().Draw(g.t, "f64bits")}
	case KString:
		return Recipe{B: genString(g.t, g.o, "s")}
	case KBytes:
		if !isKey && Uniform(g.t, "bnil", 7) == 0 {
			return Recipe{Nil: true}
		}
		return Recipe{B: genString(g.t, g.o, "b")}
	case KArray:
		if d.Len >= 65536 { // the padding of bigStruct: mostly zero (nothing on the wire), sometimes all 0xFF
			if Uniform(g.t, "bigfill", 7) != 0 {
				return Recipe{}
			}
			b := make([]byte, d.Len)
			for i := range b {
				b[i] = 0xFF
			}
			return Recipe{B: b}
		}
		if Uniform(g.t, "azero", 4) == 0 {
			return Recipe{}
		}
		b := make([]byte, d.Len)
		seed := rapid.Uint64().Draw(g.t, "abytes")
		sparse := rapid.Bool().Draw(g.t, "sparse")
		for i := range b {
			seed = seed*6364136223846793005 + 1442695040888963407
			if !sparse || i == d.Len-1 {
				b[i] = byte(seed >> 56)
			}
		}
		return Recipe{B: b}
	case KPtr:
		switch pick(g.t, "ptr", 25, 15, 60) {
		case 0:
			return Recipe{Nil: true}
		case 1: // pointer (chain) to the zero value
			return Recipe{E: []Recipe{g.zeroNonNil(d.Elem)}}
		default:
			e := g.value(d.Elem, depth+1, false)
			if d.Elem.K == KPtr && e.Nil { // &(*T)(nil) has no protobuf meaning: inner pointers are non-nil
				e = g.zeroNonNil(d.Elem)
			}
			return Recipe{E: []Recipe{e}}
		}
	case KSlice:
		n, isNil := g.repLen(d.Elem.IsScalar() || d.Elem.K == KString)
		if isNil {
			return Recipe{Nil: true}
		}
		if depth > 2 && n > 3 {
			n = 3
		}
		r := Recipe{E: make([]Recipe, n)}
		for i := range r.E {
			r.E[i] = g.value(d.Elem, depth+1, false)
			// nil pointers are not representable as elements of a repeated field
			for p, e := d.Elem, &r.E[i]; p.K == KPtr; p, e = p.Elem, &e.E[0] {
				if e.Nil {
					*e = g.zeroNonNil(p)
				}
			}
		}
		return r
	case KMap:
		n, isNil := g.repLen(false)
		if isNil {
			return Recipe{Nil: true}
		}
		if n > 20 {
			n = 20
		}
		if depth > 1 && n > 3 {
			n = 3
		}
		r := Recipe{}
		seen := map[string]bool{}
		for i := 0; i < n; i++ {
			k := g.value(d.Key, depth+1, true)
			if d.Key.K == KBool && g.o.NoFalseBoolKey && k.U == 0 {
				g.o.excluded(g.o.ClassBoolKey)
				k.U = 1
			}
			ks := keyString(&k)
			if seen[ks] {
				continue
			}
			seen[ks] = true
			r.K = append(r.K, k)
			r.E = append(r.E, g.value(d.Elem, depth+1, false))
		}
		return r
	case KStruct:
		if len(d.Fields) > 0 && Uniform(g.t, "szero", 20) == 0 {
			return g.zero(d)
		}
		r := Recipe{E: make([]Recipe, len(d.Fields))}
		for i := range d.Fields {
			if Uniform(g.t, "fzero", 6) == 0 {
				r.E[i] = g.zero(&d.Fields[i].T)
			} else {
				r.E[i] = g.value(&d.Fields[i].T, depth+1, isKey)
			}
		}
		return r
	case KNamed:
		n := Named(d.Name)
		if n.Impl == "" && depth > 3 {
			return g.zero(d) // bound recursive corpus types
		}
		if n.Impl != "" && Uniform(g.t, "izero", 6) == 0 {
			return g.zero(n.Under)
		}
		return g.value(n.Under, depth+1, false)
	}
	return Recipe{}
}

// zeroNonNil is zero, except that a pointer chain is non-nil down to its base.
func (g *vgen) zeroNonNil(d *TypeDesc) Recipe {
	if d.K == KPtr {
		return Recipe{E: []Recipe{g.zeroNonNil(d.Elem)}}
	}
	return g.zero(d)
}

// zero is the recipe of the zero value (nil pointers/slices/maps).
func (g *vgen) zero(d *TypeDesc) Recipe {
	switch d.K {
	case KPtr, KSlice, KMap, KBytes:
		return Recipe{Nil: true}
	case KStruct:
		r := Recipe{E: make([]Recipe, len(d.Fields))}
		for i := range d.Fields {
			r.E[i] = g.zero(&d.Fields[i].T)
		}
		return r
	case KNamed:
		return g.zero(Named(d.Name).Under)
	}
	return Recipe{}
}

func keyString(r *Recipe) string {
	s := string(r.B) + "|" + strconv.FormatUint(r.U, 16)
	for i := range r.E {
		s += "{" + keyString(&r.E[i]) + "}"
	}
	return s
}
