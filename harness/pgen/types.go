// Package pgen is the shared proto type/value generator G-PT of DESIGN §2.4:
// serialisable type descriptors materialised with reflect, a small static
// corpus of named types for what reflect cannot make (Message / gogo-style
// implementers, recursive types, a struct with an unexported field),
// serialisable value recipes, a deep-equality comparer "mod nil/empty" and a
// descriptor-directed wire walker used by C16 and C07.
//
// Only types the library documents as supported are produced (see
// proto/proto.go codecOf and proto/struct.go structCodecOf):
//
//   - top level: scalars, string, []byte, [N]byte, structs, pointers to those,
//     Message / custom implementers;
//   - struct fields: the above plus []T (T not itself a non-byte slice or a
//     map) and map[K]V (V likewise);
//   - never: pointers to slice-kinded types (*[]byte, *RawMessage: the struct
//     codec misreads them as repeated fields), nil pointers as elements of a
//     repeated field or pointers to scalars as map values being nil is fine
//     but nil *elements* of []*T have no protobuf representation, `rep` on a
//     non-slice non-map field, duplicate field numbers, NaN/float map keys.
package pgen

import (
	"fmt"
	"reflect"
	"strconv"
	"sync"
)

// Kinds of a TypeDesc.
const (
	KBool    = "bool"
	KInt     = "int"
	KInt32   = "int32"
	KInt64   = "int64"
	KUint    = "uint"
	KUint32  = "uint32"
	KUint64  = "uint64"
	KFloat32 = "float32"
	KFloat64 = "float64"
	KString  = "string"
	KBytes   = "bytes"
	KArray   = "array" // [Len]byte
	KStruct  = "struct"
	KPtr     = "ptr"
	KSlice   = "slice" // repeated field, Elem is not a byte
	KMap     = "map"
	KNamed   = "named" // static corpus type, see corpus.go
)

// TypeDesc is a plain-data, JSON-serialisable description of a Go type.
type TypeDesc struct {
	K      string      `json:"k"`
	Name   string      `json:"name,omitempty"` // corpus type name (KNamed)
	Len    int         `json:"len,omitempty"`  // KArray
	Elem   *TypeDesc   `json:"elem,omitempty"` // KPtr, KSlice, KMap (value)
	Key    *TypeDesc   `json:"key,omitempty"`  // KMap
	Fields []FieldDesc `json:"fields,omitempty"`
}

// FieldDesc is one exported struct field. Wire == "" means the struct is
// untagged and Num is the positional number (1-based declaration order).
type FieldDesc struct {
	Name string   `json:"n,omitempty"` // only set in corpus expansions; reflect-made fields are F<i>
	Num  int      `json:"num"`
	Wire string   `json:"wire,omitempty"` // varint | bytes | fixed32 | fixed64 | zigzag32 | zigzag64
	Rep  bool     `json:"rep,omitempty"`
	T    TypeDesc `json:"t"`
	Idx  int      `json:"-"` // index of the Go struct field (corpus types may have unexported fields)
}

// Tag returns the struct tag of the field ("" when untagged).
func (f *FieldDesc) Tag(i int) reflect.StructTag {
	if f.Wire == "" {
		return ""
	}
	opt := "opt"
	if f.Rep {
		opt = "rep"
	}
	return reflect.StructTag(`protobuf:"` + f.Wire + "," + strconv.Itoa(f.Num) + "," + opt + ",name=f" + strconv.Itoa(i) + `,proto3"`)
}

func (d *TypeDesc) IsScalar() bool {
	switch d.K {
	case KBool, KInt, KInt32, KInt64, KUint, KUint32, KUint64, KFloat32, KFloat64:
		return true
	}
	return false
}

var scalarTypes = map[string]reflect.Type{
	KBool:    reflect.TypeOf(false),
	KInt:     reflect.TypeOf(int(0)),
	KInt32:   reflect.TypeOf(int32(0)),
	KInt64:   reflect.TypeOf(int64(0)),
	KUint:    reflect.TypeOf(uint(0)),
	KUint32:  reflect.TypeOf(uint32(0)),
	KUint64:  reflect.TypeOf(uint64(0)),
	KFloat32: reflect.TypeOf(float32(0)),
	KFloat64: reflect.TypeOf(float64(0)),
	KString:  reflect.TypeOf(""),
	KBytes:   reflect.TypeOf([]byte(nil)),
}

var byteType = reflect.TypeOf(byte(0))

// GoType materialises the descriptor. Struct descriptors without a Name are
// made with reflect.StructOf (field i is named F<i>); named ones come from the
// static corpus. It panics on a malformed descriptor (harness error).
func GoType(d *TypeDesc) reflect.Type {
	if t, ok := scalarTypes[d.K]; ok {
		return t
	}
	switch d.K {
	case KArray:
		return reflect.ArrayOf(d.Len, byteType)
	case KPtr:
		return reflect.PointerTo(GoType(d.Elem))
	case KSlice:
		return reflect.SliceOf(GoType(d.Elem))
	case KMap:
		return reflect.MapOf(GoType(d.Key), GoType(d.Elem))
	case KNamed:
		return Named(d.Name).RT
	case KStruct:
		if d.Name != "" {
			return Named(d.Name).RT
		}
		fs := make([]reflect.StructField, len(d.Fields))
		for i := range d.Fields {
			f := &d.Fields[i]
			f.Idx = i
			fs[i] = reflect.StructField{Name: "F" + strconv.Itoa(i), Type: GoType(&f.T), Tag: f.Tag(i)}
		}
		return reflect.StructOf(fs)
	}
	panic(fmt.Sprintf("pgen: bad type descriptor kind %q", d.K))
}

// Resolve returns the structural descriptor behind d: d itself unless it is a
// named corpus type, in which case the corpus "Under" descriptor (a struct
// expansion or the shape of an implementer's data) is returned together with
// the corpus entry.
func Resolve(d *TypeDesc) (*TypeDesc, *NamedInfo) {
	if d.K == KNamed {
		n := Named(d.Name)
		return n.Under, n
	}
	return d, nil
}

// Impl reports whether d is a Message ("message") or gogo-style ("custom")
// implementer from the corpus; "" otherwise.
func (d *TypeDesc) Impl() string {
	if d.K == KNamed {
		return Named(d.Name).Impl
	}
	return ""
}

// TopShapeLabel names the shape of a top-level type for the label histograms:
// "" for non-pointer types, else "top.ptr-chain.impl" / ".corpus" / ".other".
func TopShapeLabel(d *TypeDesc) string {
	if d.K == KStruct {
		for i := range d.Fields {
			if d.Fields[i].T.K == KArray && d.Fields[i].T.Len >= 65536 {
				return "top.struct-over-64KiB"
			}
		}
	}
	if d.K != KPtr {
		return ""
	}
	b := d
	for b.K == KPtr {
		b = b.Elem
	}
	switch {
	case b.Impl() != "":
		return "top.ptr-chain.impl"
	case b.K == KNamed:
		return "top.ptr-chain.corpus"
	}
	return "top.ptr-chain.other"
}

// ---------------------------------------------------------------- walking

// Walk calls fn for d and every descriptor reachable from it (named struct
// expansions are entered once per name so recursion terminates).
func Walk(d *TypeDesc, fn func(d *TypeDesc, parent *TypeDesc)) {
	seen := map[string]bool{}
	var rec func(d, parent *TypeDesc)
	rec = func(d, parent *TypeDesc) {
		fn(d, parent)
		switch d.K {
		case KPtr, KSlice:
			rec(d.Elem, d)
		case KMap:
			rec(d.Key, d)
			rec(d.Elem, d)
		case KStruct:
			for i := range d.Fields {
				rec(&d.Fields[i].T, d)
			}
		case KNamed:
			n := Named(d.Name)
			if n.Impl == "" && !seen[d.Name] {
				seen[d.Name] = true
				rec(n.Under, d)
			}
		}
	}
	rec(d, nil)
}

// HasKind reports whether a descriptor of kind k is reachable from d.
func HasKind(d *TypeDesc, k string) bool {
	found := false
	Walk(d, func(x, _ *TypeDesc) {
		if x.K == k {
			found = true
		}
	})
	return found
}

// HasImpl reports whether a Message/custom implementer is reachable from d.
func HasImpl(d *TypeDesc) bool {
	found := false
	Walk(d, func(x, _ *TypeDesc) {
		if x.Impl() != "" {
			found = true
		}
	})
	return found
}

// HasPtrToImpl: a pointer whose element is an implementer (the library builds
// a Message codec for the pointer type and then fails the interface
// conversion of **T).
func HasPtrToImpl(d *TypeDesc) bool {
	found := false
	Walk(d, func(x, _ *TypeDesc) {
		if x.K == KPtr && x.Elem.Impl() != "" {
			found = true
		}
	})
	return found
}

// HasFixedTagOnPointer: a tagged field `fixed32`/`fixed64` whose Go type is a
// pointer to uint32/float32/uint64/float64 (what protoc-gen-go emits for
// proto2 optional fixed/float fields) or a slice of such pointers (since
// 0d0d81c the fixed codec is also installed for the elements of repeated
// fields, again without regard to pointers).
func HasFixedTagOnPointer(d *TypeDesc) bool {
	found := false
	Walk(d, func(x, _ *TypeDesc) {
		if x.K != KStruct {
			return
		}
		for i := range x.Fields {
			if FixedTagOnPointer(&x.Fields[i]) {
				found = true
			}
		}
	})
	return found
}

// FixedTagOnPointer is the per-field predicate of HasFixedTagOnPointer.
func FixedTagOnPointer(f *FieldDesc) bool {
	t := &f.T
	if t.K == KSlice {
		t = t.Elem
	}
	if t.K != KPtr {
		return false
	}
	base := t
	for base.K == KPtr {
		base = base.Elem
	}
	return f.Wire == "fixed32" && (base.K == KUint32 || base.K == KFloat32) ||
		f.Wire == "fixed64" && (base.K == KUint64 || base.K == KFloat64)
}

// HasNumberCollisionMod65536: two fields of one struct whose numbers are
// distinct but congruent modulo 65536.
func HasNumberCollisionMod65536(d *TypeDesc) bool {
	found := false
	Walk(d, func(x, _ *TypeDesc) {
		if x.K != KStruct {
			return
		}
		seen := map[int]int{}
		for i := range x.Fields {
			n := x.Fields[i].Num
			if m, ok := seen[n&0xFFFF]; ok && m != n {
				found = true
			}
			seen[n&0xFFFF] = n
		}
	})
	return found
}

// MaxFieldNumber returns the largest declared field number reachable from d.
func MaxFieldNumber(d *TypeDesc) int {
	m := 0
	Walk(d, func(x, _ *TypeDesc) {
		if x.K == KStruct {
			for i := range x.Fields {
				if x.Fields[i].Num > m {
					m = x.Fields[i].Num
				}
			}
		}
	})
	return m
}

// ---------------------------------------------------------------- corpus registry

// NamedInfo is one entry of the static corpus.
type NamedInfo struct {
	Name  string
	RT    reflect.Type
	Impl  string    // "" | "message" | "custom"
	Under *TypeDesc // structure used to build / generate values (struct expansion for plain named structs)
}

var (
	corpusMu sync.Mutex
	corpus   = map[string]*NamedInfo{}
	// CorpusNames lists the corpus in registration order.
	CorpusNames []string
)

func register(n *NamedInfo) {
	corpusMu.Lock()
	defer corpusMu.Unlock()
	corpus[n.Name] = n
	CorpusNames = append(CorpusNames, n.Name)
	if n.Under != nil && n.Under.K == KStruct {
		for i := range n.Under.Fields {
			f := &n.Under.Fields[i]
			sf, ok := n.RT.FieldByName(f.Name)
			if !ok {
				panic("pgen: corpus type " + n.Name + " has no field " + f.Name)
			}
			f.Idx = sf.Index[0]
		}
	}
}

// Named returns the corpus entry (panics on an unknown name: harness error).
func Named(name string) *NamedInfo {
	n := corpus[name]
	if n == nil {
		panic("pgen: unknown corpus type " + name)
	}
	return n
}
