package pgen

import (
	"errors"
	"io"
	"reflect"

	"github.com/segmentio/encoding/proto"
	"google.golang.org/protobuf/encoding/protowire"
)

// ---------------------------------------------------------------- implementers

// Msg implements proto.Message with pointer receivers. Its payload is a
// standard protobuf message {1: varint X (if non-zero), 2: bytes S (if
// non-empty)}; Unmarshal is total (errors on malformed input, never panics).
type Msg struct {
	X uint64
	S string
}

func (m *Msg) Size() int {
	n := 0
	if m.X != 0 {
		n += 1 + protowire.SizeVarint(m.X)
	}
	if m.S != "" {
		n += 1 + protowire.SizeBytes(len(m.S))
	}
	return n
}

func (m *Msg) Marshal(b []byte) error {
	var tmp []byte
	if m.X != 0 {
		tmp = protowire.AppendTag(tmp, 1, protowire.VarintType)
		tmp = protowire.AppendVarint(tmp, m.X)
	}
	if m.S != "" {
		tmp = protowire.AppendTag(tmp, 2, protowire.BytesType)
		tmp = protowire.AppendString(tmp, m.S)
	}
	if len(b) < len(tmp) {
		return io.ErrShortBuffer
	}
	copy(b, tmp)
	return nil
}

var errMsg = errors.New("pgen.Msg: malformed payload")

func (m *Msg) Unmarshal(b []byte) error {
	*m = Msg{}
	for len(b) > 0 {
		tag, n := protowire.ConsumeVarint(b)
		if n < 0 {
			return errMsg
		}
		b = b[n:]
		switch tag {
		case 1<<3 | 0:
			v, n := protowire.ConsumeVarint(b)
			if n < 0 {
				return errMsg
			}
			m.X, b = v, b[n:]
		case 2<<3 | 2:
			v, n := protowire.ConsumeBytes(b)
			if n < 0 {
				return errMsg
			}
			m.S, b = string(v), b[n:]
		default:
			return errMsg
		}
	}
	return nil
}

// Custom16 is the gogo-style custom type of the repository's own tests.
type Custom16 [16]byte

func (c *Custom16) Size() int { return len(c) }
func (c *Custom16) MarshalTo(b []byte) (int, error) {
	n := copy(b, c[:])
	if n < len(c) {
		return n, io.ErrShortBuffer
	}
	return n, nil
}
func (c *Custom16) Unmarshal(b []byte) error {
	*c = Custom16{}
	copy(c[:], b)
	return nil
}

// CustomS is a struct-kinded gogo-style custom type with a variable payload.
type CustomS struct{ V []byte }

func (c *CustomS) Size() int { return len(c.V) }
func (c *CustomS) MarshalTo(b []byte) (int, error) {
	n := copy(b, c.V)
	if n < len(c.V) {
		return n, io.ErrShortBuffer
	}
	return n, nil
}
func (c *CustomS) Unmarshal(b []byte) error {
	c.V = append([]byte(nil), b...)
	return nil
}

// CustomCopy is a slice-kinded gogo-style custom type whose MarshalTo is
// copy-based, as generated code commonly is: it copies into b and returns what
// it copied without checking for room - the caller is expected to provide
// Size() bytes. The library must therefore check the room itself.
type CustomCopy []byte

func (c *CustomCopy) Size() int                       { return len(*c) }
func (c *CustomCopy) MarshalTo(b []byte) (int, error) { return copy(b, *c), nil }
func (c *CustomCopy) Unmarshal(b []byte) error {
	*c = append(CustomCopy(nil), b...)
	return nil
}

// MsgTrust implements proto.Message with a Marshal that assumes
// len(b) >= Size(): it indexes b directly and panics when given less. The
// library must never call it with a shorter buffer. Payload as for Msg.
type MsgTrust struct {
	X uint64
	S string
}

func (m *MsgTrust) Size() int { return (*Msg)(m).Size() }
func (m *MsgTrust) Marshal(b []byte) error {
	tmp := make([]byte, (*Msg)(m).Size())
	if err := (*Msg)(m).Marshal(tmp); err != nil {
		return err
	}
	for i := range tmp {
		b[i] = tmp[i] // panics when b is shorter than Size()
	}
	return nil
}
func (m *MsgTrust) Unmarshal(b []byte) error { return (*Msg)(m).Unmarshal(b) }

// MsgPM implements proto.Message like Msg and additionally carries the
// ProtoMessage() marker of generated protobuf types. The library tests the
// Message interface first, so it is encoded exactly like Msg (by its own
// methods, writing its own length prefix when nested).
type MsgPM struct {
	X uint64
	S string
}

func (m *MsgPM) Size() int                { return (*Msg)(m).Size() }
func (m *MsgPM) Marshal(b []byte) error   { return (*Msg)(m).Marshal(b) }
func (m *MsgPM) Unmarshal(b []byte) error { return (*Msg)(m).Unmarshal(b) }
func (*MsgPM) ProtoMessage()              {}

// CustomSPM has the gogo-style custom methods AND the ProtoMessage() marker:
// codecOf only takes the custom path for types without the marker, so the
// library treats it as an ordinary struct encoded by reflection (field 1 =
// bytes V, length prefix written by the enclosing codec); its methods are
// never called. In the corpus it is therefore a plain struct, not an
// implementer.
type CustomSPM struct{ V []byte }

func (c *CustomSPM) Size() int                       { return (*CustomS)(c).Size() }
func (c *CustomSPM) MarshalTo(b []byte) (int, error) { return (*CustomS)(c).MarshalTo(b) }
func (c *CustomSPM) Unmarshal(b []byte) error        { return (*CustomS)(c).Unmarshal(b) }
func (*CustomSPM) ProtoMessage()                     {}

var (
	_ proto.Message = (*MsgPM)(nil)
	_ proto.Message = (*MsgTrust)(nil)
	_ proto.Message = (*Msg)(nil)
	_ proto.Message = (*proto.RawMessage)(nil)
)

// ---------------------------------------------------------------- plain named structs

// Rec is a singly recursive message.
type Rec struct {
	Next *Rec
	V    int32
	S    []string
}

// Tree recurses through a repeated field.
type Tree struct {
	Name string
	Kids []Tree
}

// RecMap recurses through a map value.
type RecMap struct {
	M map[string]RecMap
	N uint32
}

// PTree recurses through a repeated field of pointers, PRecMap through map values that are
// pointers: the pointer codec of the type is looked up again while it is still being built.
type PTree struct {
	V    int32
	Kids []*PTree
}

type PRecMap struct {
	M map[string]*PRecMap
	N uint32
}

// Hidden has an unexported field between two exported ones (the codec must
// skip it for numbering and offsets).
type Hidden struct {
	A      int32
	hidden string
	B      string
}

// Opt2 mimics protoc-gen-go output for a proto2 message with optional fields.
type Opt2 struct {
	A *int32   `protobuf:"varint,1,opt,name=a"`
	B *string  `protobuf:"bytes,2,opt,name=b"`
	C *bool    `protobuf:"varint,3,opt,name=c"`
	D []uint64 `protobuf:"varint,4,rep,name=d"`
	E *Opt2    `protobuf:"bytes,5,opt,name=e"`
	F []byte   `protobuf:"bytes,6,opt,name=f"`
	G int64    `protobuf:"zigzag64,7,opt,name=g"`
}

func named(k string) TypeDesc { return TypeDesc{K: KNamed, Name: k} }
func leaf(k string) TypeDesc  { return TypeDesc{K: k} }
func ptr(d TypeDesc) TypeDesc { return TypeDesc{K: KPtr, Elem: &d} }
func sl(d TypeDesc) TypeDesc  { return TypeDesc{K: KSlice, Elem: &d} }

func init() {
	_ = Hidden{}.hidden
	register(&NamedInfo{Name: "RawMessage", RT: reflect.TypeOf(proto.RawMessage(nil)), Impl: "message", Under: &TypeDesc{K: KBytes}})
	register(&NamedInfo{Name: "Msg", RT: reflect.TypeOf(Msg{}), Impl: "message", Under: &TypeDesc{K: KStruct, Name: "Msg", Fields: []FieldDesc{
		{Name: "X", Num: 1, T: leaf(KUint64)}, {Name: "S", Num: 2, T: leaf(KString)}}}})
	register(&NamedInfo{Name: "MsgPM", RT: reflect.TypeOf(MsgPM{}), Impl: "message", Under: &TypeDesc{K: KStruct, Name: "MsgPM", Fields: []FieldDesc{
		{Name: "X", Num: 1, T: leaf(KUint64)}, {Name: "S", Num: 2, T: leaf(KString)}}}})
	register(&NamedInfo{Name: "CustomSPM", RT: reflect.TypeOf(CustomSPM{}), Under: &TypeDesc{K: KStruct, Name: "CustomSPM", Fields: []FieldDesc{
		{Name: "V", Num: 1, T: leaf(KBytes)}}}})
	register(&NamedInfo{Name: "CustomCopy", RT: reflect.TypeOf(CustomCopy(nil)), Impl: "custom", Under: &TypeDesc{K: KBytes}})
	register(&NamedInfo{Name: "MsgTrust", RT: reflect.TypeOf(MsgTrust{}), Impl: "message", Under: &TypeDesc{K: KStruct, Name: "MsgTrust", Fields: []FieldDesc{
		{Name: "X", Num: 1, T: leaf(KUint64)}, {Name: "S", Num: 2, T: leaf(KString)}}}})
	register(&NamedInfo{Name: "Custom16", RT: reflect.TypeOf(Custom16{}), Impl: "custom", Under: &TypeDesc{K: KArray, Len: 16}})
	register(&NamedInfo{Name: "CustomS", RT: reflect.TypeOf(CustomS{}), Impl: "custom", Under: &TypeDesc{K: KStruct, Name: "CustomS", Fields: []FieldDesc{
		{Name: "V", Num: 1, T: leaf(KBytes)}}}})

	register(&NamedInfo{Name: "Rec", RT: reflect.TypeOf(Rec{}), Under: &TypeDesc{K: KStruct, Name: "Rec", Fields: []FieldDesc{
		{Name: "Next", Num: 1, T: ptr(named("Rec"))}, {Name: "V", Num: 2, T: leaf(KInt32)}, {Name: "S", Num: 3, T: sl(leaf(KString))}}}})
	register(&NamedInfo{Name: "Tree", RT: reflect.TypeOf(Tree{}), Under: &TypeDesc{K: KStruct, Name: "Tree", Fields: []FieldDesc{
		{Name: "Name", Num: 1, T: leaf(KString)}, {Name: "Kids", Num: 2, T: sl(named("Tree"))}}}})
	rm := named("RecMap")
	ks := leaf(KString)
	register(&NamedInfo{Name: "RecMap", RT: reflect.TypeOf(RecMap{}), Under: &TypeDesc{K: KStruct, Name: "RecMap", Fields: []FieldDesc{
		{Name: "M", Num: 1, T: TypeDesc{K: KMap, Key: &ks, Elem: &rm}}, {Name: "N", Num: 2, T: leaf(KUint32)}}}})
	pt, prm := ptr(named("PTree")), ptr(named("PRecMap"))
	register(&NamedInfo{Name: "PTree", RT: reflect.TypeOf(PTree{}), Under: &TypeDesc{K: KStruct, Name: "PTree", Fields: []FieldDesc{
		{Name: "V", Num: 1, T: leaf(KInt32)}, {Name: "Kids", Num: 2, T: sl(pt)}}}})
	register(&NamedInfo{Name: "PRecMap", RT: reflect.TypeOf(PRecMap{}), Under: &TypeDesc{K: KStruct, Name: "PRecMap", Fields: []FieldDesc{
		{Name: "M", Num: 1, T: TypeDesc{K: KMap, Key: &ks, Elem: &prm}}, {Name: "N", Num: 2, T: leaf(KUint32)}}}})
	register(&NamedInfo{Name: "Hidden", RT: reflect.TypeOf(Hidden{}), Under: &TypeDesc{K: KStruct, Name: "Hidden", Fields: []FieldDesc{
		{Name: "A", Num: 1, T: leaf(KInt32)}, {Name: "B", Num: 2, T: leaf(KString)}}}})
	register(&NamedInfo{Name: "Opt2", RT: reflect.TypeOf(Opt2{}), Under: &TypeDesc{K: KStruct, Name: "Opt2", Fields: []FieldDesc{
		{Name: "A", Num: 1, Wire: "varint", T: ptr(leaf(KInt32))},
		{Name: "B", Num: 2, Wire: "bytes", T: ptr(leaf(KString))},
		{Name: "C", Num: 3, Wire: "varint", T: ptr(leaf(KBool))},
		{Name: "D", Num: 4, Wire: "varint", Rep: true, T: sl(leaf(KUint64))},
		{Name: "E", Num: 5, Wire: "bytes", T: ptr(named("Opt2"))},
		{Name: "F", Num: 6, Wire: "bytes", T: leaf(KBytes)},
		{Name: "G", Num: 7, Wire: "zigzag64", T: leaf(KInt64)}}}})
}

// ImplNames / StructNames partition the corpus.
var (
	ImplNames   = []string{"RawMessage", "Msg", "Custom16", "CustomS", "MsgPM", "CustomCopy", "MsgTrust"}
	StructNames = []string{"Rec", "Tree", "RecMap", "Hidden", "Opt2", "PTree", "PRecMap", "CustomSPM"}
)
