package pgen

import (
	"fmt"
	"reflect"
	"runtime/debug"
	"strings"
)

// Names of the known-finding classes shared by the proto checks. A class is
// active for a property only while known_findings.json lists it with status
// "known" for that property (evid.KnownActive).
const (
	ClassPtrEmpty    = "ptr-to-empty-message"              // non-nil pointer whose target encodes to zero bytes comes back nil
	ClassRepOver10   = "repeated-over-10-elements"         // decoding the 11th element of a repeated field panics in runtime_reflect.CopySlice
	ClassBoolWZ      = "bool-wantzero-written-as-true"     // false (or nil *bool) in want-zero position is written as 0x01
	ClassImplNotLast = "implementer-field-not-last"        // decode of a non-top-level Message/custom field reports n+len(v) consumed bytes
	ClassPtrImpl     = "pointer-to-implementer"            // *T with T implementing Message/custom: interface conversion panic
	ClassFixedPtr    = "fixed-tag-on-pointer-field"        // fixed32/fixed64 tag on *uint32/*float32/*uint64/*float64: pointer slot used as the scalar
	ClassModCollide  = "field-numbers-congruent-mod-65536" // field numbers are truncated to 16 bits
	ClassNilBoolPtr  = "nil-bool-pointer-written-as-false" // a nil *bool is written as 0x00 and comes back as a pointer to false
	ClassMapEntryLen = "map-entry-length-varint-boundary"  // Size computes the entry length varint from keySize+valSize without the tags
)

// OptsFor returns generator options that avoid, by construction, the classes
// for which active returns true; excl counts every steered draw.
func OptsFor(active func(class string) bool, excl func(class string)) *Opts {
	o := &Opts{Excluded: excl,
		ClassRep: ClassRepOver10, ClassPtrImpl: ClassPtrImpl, ClassImplLast: ClassImplNotLast,
		ClassFixedPtr: ClassFixedPtr, ClassModCollide: ClassModCollide, ClassBoolKey: ClassBoolWZ}
	if active(ClassRepOver10) {
		o.MaxRep = 10
	}
	o.NoPtrImpl = active(ClassPtrImpl)
	o.ImplLastOnly = active(ClassImplNotLast)
	o.NoFixedPtr = active(ClassFixedPtr)
	o.NoModCollide = active(ClassModCollide)
	o.NoFalseBoolKey = active(ClassBoolWZ)
	return o
}

// Call runs fn and converts a panic into (message, stack).
func Call(fn func()) (panicked bool, msg, stack string) {
	defer func() {
		if r := recover(); r != nil {
			panicked = true
			msg = fmt.Sprint(r)
			stack = TrimStack(string(debug.Stack()))
		}
	}()
	fn()
	return
}

// TrimStack keeps the frames of the library (and a few around them).
func TrimStack(s string) string {
	lines := strings.Split(s, "\n")
	var out []string
	for i := 0; i+1 < len(lines); i++ {
		if strings.Contains(lines[i], "segmentio/encoding") && !strings.HasPrefix(lines[i], "\t") {
			out = append(out, strings.TrimSpace(lines[i]), strings.TrimSpace(lines[i+1]))
		}
		if len(out) >= 16 {
			break
		}
	}
	return strings.Join(out, " | ")
}

// MaxRepLen returns the largest number of elements of any repeated field
// (non-byte slice) reachable in v.
func MaxRepLen(v reflect.Value) int {
	m := 0
	var rec func(v reflect.Value, depth int)
	rec = func(v reflect.Value, depth int) {
		if depth > 12 {
			return
		}
		switch v.Kind() {
		case reflect.Ptr:
			if !v.IsNil() {
				rec(v.Elem(), depth+1)
			}
		case reflect.Struct:
			for i := 0; i < v.NumField(); i++ {
				rec(v.Field(i), depth+1)
			}
		case reflect.Slice:
			if v.Type().Elem().Kind() == reflect.Uint8 {
				return
			}
			if v.Len() > m {
				m = v.Len()
			}
			for i := 0; i < v.Len(); i++ {
				rec(v.Index(i), depth+1)
			}
		case reflect.Map:
			it := v.MapRange()
			for it.Next() {
				rec(it.Value(), depth+1)
			}
		}
	}
	rec(v, 0)
	return m
}

// MapEntryLenHit reports whether v contains a map entry for which the
// library's size function and encoder disagree on the number of bytes of the
// entry's length prefix: the size function uses varint(keySize+valSize), the
// encoder varint(keySize+valSize+tags+embedded length prefixes). keySize and
// valSize are obtained from the library itself (proto.Size on the key / value
// in want-zero position), so that the predicate is exactly the trigger
// condition of that one defect and nothing else.
func MapEntryLenHit(v reflect.Value, size func(any) int) bool {
	hit := false
	partSize := func(x reflect.Value) (n int, embedded bool) {
		t := x.Type()
		bt := t
		for bt.Kind() == reflect.Ptr {
			bt = bt.Elem()
		}
		embedded = bt.Kind() == reflect.Struct
		if IsImplType(t) { // by-value implementer: length-prefixed Size()
			p := reflect.New(t)
			p.Elem().Set(x)
			n = size(p.Elem().Interface())
			return n + varintLen(n), embedded
		}
		if t.Kind() == reflect.Ptr {
			if x.IsNil() {
				return 0, embedded
			}
			return size(x.Interface()), embedded
		}
		p := reflect.New(t)
		p.Elem().Set(x)
		return size(p.Interface()), embedded
	}
	var rec func(v reflect.Value, depth int)
	rec = func(v reflect.Value, depth int) {
		if hit || depth > 16 {
			return
		}
		switch v.Kind() {
		case reflect.Ptr:
			if !v.IsNil() {
				rec(v.Elem(), depth+1)
			}
		case reflect.Struct:
			for i := 0; i < v.NumField(); i++ {
				if v.Type().Field(i).PkgPath == "" {
					rec(v.Field(i), depth+1)
				}
			}
		case reflect.Slice:
			if v.Type().Elem().Kind() != reflect.Uint8 {
				for i := 0; i < v.Len(); i++ {
					rec(v.Index(i), depth+1)
				}
			}
		case reflect.Map:
			it := v.MapRange()
			for it.Next() {
				ks, ke := partSize(it.Key())
				vs, ve := partSize(it.Value())
				over := 0
				if ks > 0 {
					over++
					if ke {
						over += varintLen(ks)
					}
				}
				if vs > 0 {
					over++
					if ve {
						over += varintLen(vs)
					}
				}
				if varintLen(ks+vs) != varintLen(ks+vs+over) {
					hit = true
					return
				}
				rec(it.Value(), depth+1)
			}
		}
	}
	Call(func() { rec(v, 0) })
	return hit
}
