package pgen

import (
	"errors"

	"google.golang.org/protobuf/encoding/protowire"
)

// Node is one field of a parsed encoding, located in the source buffer.
type Node struct {
	Num      uint64
	Wire     int    // 0, 1, 2, 5
	Start    int    // offset of the tag
	ValStart int    // offset after the tag (length prefix for wire type 2, payload otherwise)
	PayStart int    // offset of the payload
	End      int    // offset after the payload
	Label    string // codec the field belongs to (see labelOf)
	IsMsg    bool   // payload is an embedded message that was parsed into Kids
	Kids     []Node
	Declared bool      // the number is declared by the descriptor at this level
	Embedded bool      // the library's "embedded" flag: base kind of the field (element) type is struct
	Impl     bool      // the field is a Message / custom implementer (opaque payload)
	ImplLen  int       // length of the payload handed to the implementer's Unmarshal
	Sub      *TypeDesc // descriptor of the embedded message (IsMsg)
}

var ErrWire = errors.New("pgen: malformed wire data")

func findField(d *TypeDesc, num uint64) *FieldDesc {
	if d == nil {
		return nil
	}
	for i := range d.Fields {
		if uint64(d.Fields[i].Num) == num {
			return &d.Fields[i]
		}
	}
	for i := range d.Fields { // the library truncates numbers to 16 bits
		if uint64(d.Fields[i].Num&0xFFFF) == num {
			return &d.Fields[i]
		}
	}
	return nil
}

// StripPtr returns the descriptor behind all pointers of d.
func StripPtr(d *TypeDesc) *TypeDesc { return stripPtr(d) }

func stripPtr(d *TypeDesc) *TypeDesc {
	for d.K == KPtr {
		d = d.Elem
	}
	return d
}

// labelOf returns the codec label of a value of descriptor d on the wire and,
// for embedded messages, the struct descriptor to descend into.
func labelOf(d *TypeDesc, wire string) (label string, sub *TypeDesc) {
	d = stripPtr(d)
	if d.K == KNamed {
		n := Named(d.Name)
		if n.Impl != "" {
			return n.Impl, nil
		}
		return "embedded", n.Under
	}
	switch d.K {
	case KBool:
		return "bool", nil
	case KInt, KInt32, KInt64:
		if wire == "zigzag32" || wire == "zigzag64" {
			return "zigzag", nil
		}
		return "varint", nil
	case KUint, KUint32, KUint64:
		if wire == "fixed32" && d.K == KUint32 || wire == "fixed64" && d.K == KUint64 {
			return "fixed", nil
		}
		return "varint", nil
	case KFloat32, KFloat64:
		return "float", nil
	case KString:
		return "string", nil
	case KBytes:
		return "bytes", nil
	case KArray:
		return "bytearray", nil
	case KStruct:
		return "embedded", d
	}
	return "other", nil
}

// ParseMessage walks b as an encoding of struct descriptor d (nil = unknown
// message: nothing is descended into). base is added to every offset.
func ParseMessage(d *TypeDesc, b []byte, base int) ([]Node, error) {
	var nodes []Node
	off := 0
	for off < len(b) {
		tag, n := protowire.ConsumeVarint(b[off:])
		if n < 0 {
			return nodes, ErrWire
		}
		nd := Node{Num: tag >> 3, Wire: int(tag & 7), Start: base + off}
		off += n
		nd.ValStart = base + off
		nd.PayStart = nd.ValStart
		switch nd.Wire {
		case 0:
			_, n = protowire.ConsumeVarint(b[off:])
		case 1:
			_, n = protowire.ConsumeFixed64(b[off:])
		case 5:
			_, n = protowire.ConsumeFixed32(b[off:])
		case 2:
			var v []byte
			v, n = protowire.ConsumeBytes(b[off:])
			if n >= 0 {
				nd.PayStart = base + off + n - len(v)
			}
		default:
			return nodes, ErrWire
		}
		if n < 0 {
			return nodes, ErrWire
		}
		off += n
		nd.End = base + off
		nd.Label = "unknown"
		if f := findField(d, nd.Num); f != nil {
			nd.Declared = true
			ft := &f.T
			pre := ""
			if ft.K == KSlice {
				ft, pre = ft.Elem, "rep."
			}
			var sub *TypeDesc
			if ft.K == KMap {
				nd.Label = "mapentry"
				sub = &TypeDesc{K: KStruct, Fields: []FieldDesc{{Num: 1, T: *ft.Key}, {Num: 2, T: *ft.Elem}}}
			} else {
				nd.Label, sub = labelOf(ft, f.Wire)
				// implementers write their own length prefix whatever their kind
				// (644a5bf): only plain structs carry the "embedded" flag
				if bt := stripPtr(ft); bt.K == KStruct || bt.K == KNamed && Named(bt.Name).Impl == "" && Named(bt.Name).Under.K == KStruct {
					nd.Embedded = true
				}
				if bt := stripPtr(ft); bt.Impl() != "" && nd.Wire == 2 {
					nd.Impl = true
					nd.ImplLen = nd.End - nd.PayStart
				}
				nd.Label = pre + nd.Label
			}
			if sub != nil && nd.Wire == 2 {
				kids, err := ParseMessage(sub, b[nd.PayStart-base:nd.End-base], nd.PayStart)
				if err == nil {
					nd.IsMsg, nd.Kids, nd.Sub = true, kids, sub
					if nd.Label == "mapentry" {
						for i := range kids {
							switch kids[i].Num {
							case 1:
								kids[i].Label = "mapkey." + kids[i].Label
							case 2:
								kids[i].Label = "mapval." + kids[i].Label
							}
						}
					}
				}
			}
		}
		nodes = append(nodes, nd)
	}
	return nodes, nil
}

// StructDesc returns the struct descriptor to parse a top-level encoding of d
// with (nil when d is not a struct: top-level scalars and implementers are
// not sequences of fields).
func StructDesc(d *TypeDesc) *TypeDesc {
	d = stripPtr(d)
	if d.K == KNamed {
		n := Named(d.Name)
		if n.Impl != "" {
			return nil
		}
		return n.Under
	}
	if d.K == KStruct {
		return d
	}
	return nil
}

// Serialize rebuilds the encoding from the tree (lengths of embedded
// messages are recomputed). ins, when non-nil, is called for every message
// level with its path (indexes of the enclosing message nodes) and returns
// extra bytes to place before kid i (i == len(kids) = at the end).
func Serialize(src []byte, nodes []Node, ins func(path []int, i int) []byte) []byte {
	return serialize(src, nodes, nil, ins)
}

func serialize(src []byte, nodes []Node, path []int, ins func(path []int, i int) []byte) []byte {
	var out []byte
	for i := range nodes {
		nd := &nodes[i]
		if ins != nil {
			out = append(out, ins(path, i)...)
		}
		if nd.IsMsg {
			payload := serialize(src, nd.Kids, append(append([]int(nil), path...), i), ins)
			out = append(out, src[nd.Start:nd.ValStart]...)
			out = protowire.AppendVarint(out, uint64(len(payload)))
			out = append(out, payload...)
		} else {
			out = append(out, src[nd.Start:nd.End]...)
		}
	}
	if ins != nil {
		out = append(out, ins(path, len(nodes))...)
	}
	return out
}

// Boundary is one place where a field can be inserted: before kid Index of the
// message reached through Path.
type Boundary struct {
	Path  []int
	Index int
	Depth int
	Off   int // offset in the original buffer
}

// Boundaries lists every field boundary, at top level and inside every parsed
// embedded message.
func Boundaries(nodes []Node, total int) []Boundary {
	var out []Boundary
	var rec func(nodes []Node, path []int, start, end int)
	rec = func(nodes []Node, path []int, start, end int) {
		for i := range nodes {
			out = append(out, Boundary{Path: path, Index: i, Depth: len(path), Off: nodes[i].Start})
		}
		out = append(out, Boundary{Path: path, Index: len(nodes), Depth: len(path), Off: end})
		for i := range nodes {
			if nodes[i].IsMsg {
				rec(nodes[i].Kids, append(append([]int(nil), path...), i), nodes[i].PayStart, nodes[i].End)
			}
		}
	}
	rec(nodes, nil, 0, total)
	return out
}

// Visit calls fn for every node, depth first.
func Visit(nodes []Node, fn func(n *Node, depth int)) {
	var rec func(nodes []Node, depth int)
	rec = func(nodes []Node, depth int) {
		for i := range nodes {
			fn(&nodes[i], depth)
			if nodes[i].IsMsg {
				rec(nodes[i].Kids, depth+1)
			}
		}
	}
	rec(nodes, 0)
}

// LabelAt names the codec (and the part of it) that offset off falls into and
// reports whether off is a field boundary at some nesting level.
func LabelAt(nodes []Node, off int) (label string, boundary bool) {
	for i := range nodes {
		nd := &nodes[i]
		if off == nd.Start {
			return nd.Label + ".start", true
		}
		if off < nd.Start || off >= nd.End {
			continue
		}
		switch {
		case off < nd.ValStart:
			return nd.Label + ".tag", false
		case off < nd.PayStart:
			return nd.Label + ".len", false
		case nd.IsMsg:
			if off == nd.PayStart {
				return nd.Label + ".first", true
			}
			if l, b := LabelAt(nd.Kids, off); l != "" {
				return nd.Label + "/" + l, b
			}
			return nd.Label + ".payload", false
		default:
			return nd.Label + ".payload", false
		}
	}
	return "", false
}

// ---------------------------------------------------------------- reference scan

// RefField is one top-level field as protowire sees it.
type RefField struct {
	Num     uint64
	Wire    int
	Payload []byte // varint bytes, 4/8 fixed bytes, or the bytes of a length-delimited field
	Value   uint64 // decoded varint / fixed value
}

// RefScan walks the top level of b with protowire primitives. Unlike
// protowire.ConsumeField it places no restriction on field numbers (the
// property does not). group is set when a group wire type (3, 4) is met
// before any error: such inputs are outside the comparison.
func RefScan(b []byte) (fields []RefField, bad bool, group bool) {
	for len(b) > 0 {
		tag, n := protowire.ConsumeVarint(b)
		if n < 0 {
			return fields, true, false
		}
		b = b[n:]
		f := RefField{Num: tag >> 3, Wire: int(tag & 7)}
		switch f.Wire {
		case 0:
			v, n := protowire.ConsumeVarint(b)
			if n < 0 {
				return fields, true, false
			}
			f.Payload, f.Value, b = b[:n], v, b[n:]
		case 1:
			v, n := protowire.ConsumeFixed64(b)
			if n < 0 {
				return fields, true, false
			}
			f.Payload, f.Value, b = b[:n], v, b[n:]
		case 5:
			v, n := protowire.ConsumeFixed32(b)
			if n < 0 {
				return fields, true, false
			}
			f.Payload, f.Value, b = b[:n], uint64(v), b[n:]
		case 2:
			v, n := protowire.ConsumeBytes(b)
			if n < 0 {
				return fields, true, false
			}
			f.Payload, b = v, b[n:]
		case 3, 4:
			return fields, false, true
		default:
			return fields, true, false
		}
		fields = append(fields, f)
	}
	return fields, false, false
}

// ImplFieldNotLast reports whether the encoding contains a non-top-level
// implementer field with a non-empty payload that is followed by at least one
// more byte of the top-level buffer (the trigger of the decoder's
// "n + len(v)" over-count).
func ImplFieldNotLast(nodes []Node, total int) bool {
	hit := false
	Visit(nodes, func(n *Node, _ int) {
		if n.Impl && n.ImplLen > 0 && n.End < total {
			hit = true
		}
	})
	return hit
}

func varintLen(v int) int { return protowire.SizeVarint(uint64(v)) }

// MapEntryLenBoundary reports whether the encoding contains a map entry whose
// length prefix needs more bytes than the varint of keySize+valSize (the sum
// the size function uses, which leaves out the key/value tags and the length
// prefixes of embedded keys/values): Size then understates the encoding.
func MapEntryLenBoundary(nodes []Node) bool {
	hit := false
	Visit(nodes, func(n *Node, _ int) {
		if n.Label != "mapentry" || !n.IsMsg {
			return
		}
		sum := 0
		for i := range n.Kids {
			k := &n.Kids[i]
			if k.Embedded {
				sum += k.End - k.PayStart
			} else {
				sum += k.End - k.ValStart
			}
		}
		if varintLen(n.End-n.PayStart) != varintLen(sum) {
			hit = true
		}
	})
	return hit
}

// DescAt returns the struct descriptor of the message reached through path.
func DescAt(top *TypeDesc, nodes []Node, path []int) *TypeDesc {
	d := top
	for _, i := range path {
		if i >= len(nodes) || !nodes[i].IsMsg {
			return nil
		}
		d = nodes[i].Sub
		nodes = nodes[i].Kids
	}
	return d
}

// ReplaceAt returns base with base[start:end] replaced by repl. With fix, the
// length prefixes of all embedded messages that enclose the edit are
// recomputed (the result stays well-formed at the outer levels).
func ReplaceAt(base []byte, nodes []Node, start, end int, repl []byte, fix bool) []byte {
	out := make([]byte, 0, len(base)+len(repl)+16)
	out = append(out, base[:start]...)
	out = append(out, repl...)
	out = append(out, base[end:]...)
	if !fix {
		return out
	}
	// enclosing message nodes, outermost first
	var chain []*Node
	level := nodes
	for {
		var next *Node
		for i := range level {
			nd := &level[i]
			if nd.IsMsg && nd.PayStart <= start && end <= nd.End {
				next = nd
				break
			}
		}
		if next == nil {
			break
		}
		chain = append(chain, next)
		level = next.Kids
	}
	delta := len(repl) - (end - start)
	for i := len(chain) - 1; i >= 0; i-- { // innermost first: its header lies at the highest offset
		nd := chain[i]
		oldLen := nd.End - nd.PayStart
		hdr := protowire.AppendVarint(nil, uint64(oldLen+delta))
		nb := make([]byte, 0, len(out)+4)
		nb = append(nb, out[:nd.ValStart]...)
		nb = append(nb, hdr...)
		nb = append(nb, out[nd.PayStart:]...)
		delta += len(hdr) - (nd.PayStart - nd.ValStart)
		out = nb
	}
	return out
}
