package pgen

import "encoding/json"

// Minimize greedily simplifies a failing (type, value) pair while fails keeps
// returning true: it removes struct fields, replaces value subtrees by the
// zero value, drops elements of repeated fields and map entries, and
// shortens strings. (rapid's own shrinking works on the raw draws, which the
// uniform re-mapping of pgen.Uniform makes much less effective; this
// structural pass runs on the already failing case.) budget bounds the number
// of calls to fails.
func Minimize(d TypeDesc, r Recipe, budget int, fails func(d *TypeDesc, r *Recipe) bool) (TypeDesc, Recipe) {
	m := &minimizer{fails: fails, budget: budget}
	m.d, m.r = cloneDesc(&d), cloneRecipe(&r)
	for changed := true; changed && m.budget > 0; {
		changed = false
		if m.pass(&m.d, &m.r) {
			changed = true
		}
	}
	return m.d, m.r
}

type minimizer struct {
	d      TypeDesc
	r      Recipe
	fails  func(d *TypeDesc, r *Recipe) bool
	budget int
}

func cloneDesc(d *TypeDesc) TypeDesc {
	var out TypeDesc
	b, _ := json.Marshal(d)
	json.Unmarshal(b, &out)
	return out
}

func cloneRecipe(r *Recipe) Recipe {
	var out Recipe
	b, _ := json.Marshal(r)
	json.Unmarshal(b, &out)
	return out
}

// try applies the mutation (which edits m.d / m.r in place through the
// pointers it captured) and keeps it if the case still fails; otherwise undo
// restores the previous state.
func (m *minimizer) try(apply, undo func()) bool {
	if m.budget <= 0 {
		return false
	}
	m.budget--
	apply()
	ok := false
	Call(func() { ok = m.fails(&m.d, &m.r) })
	if !ok {
		undo()
	}
	return ok
}

func isZeroRecipe(r *Recipe) bool {
	return r.U == 0 && len(r.B) == 0 && len(r.E) == 0 && len(r.K) == 0
}

func zeroOf(d *TypeDesc) Recipe {
	g := &vgen{}
	return g.zero(d)
}

func (m *minimizer) pass(d *TypeDesc, r *Recipe) bool {
	changed := false
	switch d.K {
	case KStruct:
		if d.Name != "" {
			// corpus struct: only values can change
			for i := range d.Fields {
				if i < len(r.E) && m.pass(&d.Fields[i].T, &r.E[i]) {
					changed = true
				}
			}
			return changed
		}
		for i := 0; i < len(d.Fields); {
			oldF, oldE := d.Fields, r.E
			untagged := len(d.Fields) > 0 && d.Fields[0].Wire == ""
			if m.try(func() {
				nf := make([]FieldDesc, 0, len(oldF)-1)
				nf = append(nf, oldF[:i]...)
				nf = append(nf, oldF[i+1:]...)
				if untagged {
					for j := range nf {
						nf[j].Num = j + 1
					}
				}
				d.Fields = nf
				if i < len(oldE) {
					ne := make([]Recipe, 0, len(oldE)-1)
					ne = append(ne, oldE[:i]...)
					ne = append(ne, oldE[i+1:]...)
					r.E = ne
				}
			}, func() { d.Fields, r.E = oldF, oldE }) {
				changed = true
				continue
			}
			i++
		}
		for i := range d.Fields {
			for len(r.E) <= i {
				r.E = append(r.E, Recipe{})
			}
			if m.pass(&d.Fields[i].T, &r.E[i]) {
				changed = true
			}
		}
	case KPtr:
		if r.Nil {
			return false
		}
		old := *r
		if m.try(func() { *r = Recipe{Nil: true} }, func() { *r = old }) {
			return true
		}
		if len(r.E) == 0 {
			r.E = []Recipe{{}}
		}
		return m.pass(d.Elem, &r.E[0])
	case KSlice:
		if r.Nil {
			return false
		}
		old := *r
		if len(r.E) > 0 && m.try(func() { *r = Recipe{Nil: true} }, func() { *r = old }) {
			return true
		}
		for i := 0; i < len(r.E); {
			oldE := r.E
			if m.try(func() {
				ne := make([]Recipe, 0, len(oldE)-1)
				ne = append(ne, oldE[:i]...)
				ne = append(ne, oldE[i+1:]...)
				r.E = ne
			}, func() { r.E = oldE }) {
				changed = true
				continue
			}
			i++
		}
		for i := range r.E {
			if m.pass(d.Elem, &r.E[i]) {
				changed = true
			}
		}
	case KMap:
		if r.Nil {
			return false
		}
		old := *r
		if len(r.K) > 0 && m.try(func() { *r = Recipe{Nil: true} }, func() { *r = old }) {
			return true
		}
		for i := 0; i < len(r.K); {
			oldK, oldE := r.K, r.E
			if m.try(func() {
				nk := append(append([]Recipe(nil), oldK[:i]...), oldK[i+1:]...)
				ne := append([]Recipe(nil), oldE[:i]...)
				if i+1 <= len(oldE) {
					ne = append(ne, oldE[i+1:]...)
				}
				r.K, r.E = nk, ne
			}, func() { r.K, r.E = oldK, oldE }) {
				changed = true
				continue
			}
			i++
		}
		for i := range r.K {
			if m.pass(d.Key, &r.K[i]) {
				changed = true
			}
			if i < len(r.E) && m.pass(d.Elem, &r.E[i]) {
				changed = true
			}
		}
	case KNamed:
		n := Named(d.Name)
		if isZeroRecipe(r) {
			return false
		}
		old := *r
		if m.try(func() { *r = zeroOf(n.Under) }, func() { *r = old }) {
			return !recipeEqual(&old, r)
		}
		return m.pass(n.Under, r)
	case KString, KBytes, KArray:
		if len(r.B) == 0 {
			return false
		}
		old := *r
		if m.try(func() { r.B = nil }, func() { *r = old }) {
			return true
		}
		if len(r.B) > 1 && d.K != KArray {
			if m.try(func() { r.B = old.B[:len(old.B)/2] }, func() { *r = old }) {
				return true
			}
			if m.try(func() { r.B = old.B[:len(old.B)-1] }, func() { *r = old }) {
				return true
			}
		}
	default:
		if r.U == 0 {
			return false
		}
		old := *r
		if m.try(func() { r.U = 0 }, func() { *r = old }) {
			return true
		}
		if r.U > 1 {
			if m.try(func() { r.U = 1 }, func() { *r = old }) {
				return true
			}
		}
	}
	return changed
}

func recipeEqual(a, b *Recipe) bool {
	x, _ := json.Marshal(a)
	y, _ := json.Marshal(b)
	return string(x) == string(y)
}
