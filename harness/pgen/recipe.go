package pgen

import (
	"reflect"
	"unsafe"
)

// Recipe is a plain-data description of a value of some TypeDesc; Build turns
// it into a fresh, independent Go value any number of times.
//
//	scalars     U (bool 0/1, integers as two's complement in 64 bits, floats as IEEE bits)
//	string      B
//	bytes       Nil | B
//	array       B (padded / truncated to the array length)
//	ptr         Nil | E[0]
//	slice       Nil | E (elements)
//	map         Nil | K[i] -> E[i]
//	struct      E[i] = value of Fields[i]
//	named       recipe of the corpus entry's Under descriptor
type Recipe struct {
	Nil bool     `json:"nil,omitempty"`
	U   uint64   `json:"u,omitempty"`
	B   []byte   `json:"b,omitempty"`
	E   []Recipe `json:"e,omitempty"`
	K   []Recipe `json:"k,omitempty"`
}

// missingRecipe stands for a recipe element that is absent (hand-written or
// truncated recipes): the zero value with nil pointers/slices/maps, so that
// building a recursive corpus type terminates.
var missingRecipe = Recipe{Nil: true}

func (r *Recipe) elem(i int) *Recipe {
	if r == nil || i >= len(r.E) {
		return &missingRecipe
	}
	return &r.E[i]
}

// Build returns a new addressable value of GoType(d) described by r.
func Build(d *TypeDesc, r *Recipe) reflect.Value {
	return BuildT(d, GoType(d), r)
}

// BuildT is Build with the materialised type supplied by the caller.
func BuildT(d *TypeDesc, rt reflect.Type, r *Recipe) reflect.Value {
	v := reflect.New(rt).Elem()
	fill(d, v, r)
	return v
}

func fill(d *TypeDesc, v reflect.Value, r *Recipe) {
	if r == nil {
		return
	}
	switch d.K {
	case KBool:
		v.SetBool(r.U&1 != 0)
	case KInt, KInt64:
		v.SetInt(int64(r.U))
	case KInt32:
		v.SetInt(int64(int32(r.U)))
	case KUint, KUint64:
		v.SetUint(r.U)
	case KUint32:
		v.SetUint(uint64(uint32(r.U)))
	case KFloat32:
		*(*uint32)(v.Addr().UnsafePointer()) = uint32(r.U)
	case KFloat64:
		*(*uint64)(v.Addr().UnsafePointer()) = r.U
	case KString:
		v.SetString(string(r.B))
	case KBytes:
		if !r.Nil {
			b := make([]byte, len(r.B))
			copy(b, r.B)
			v.SetBytes(b)
		}
	case KArray:
		for i := 0; i < v.Len() && i < len(r.B); i++ {
			v.Index(i).SetUint(uint64(r.B[i]))
		}
	case KPtr:
		if !r.Nil {
			p := reflect.New(v.Type().Elem())
			fill(d.Elem, p.Elem(), r.elem(0))
			v.Set(p)
		}
	case KSlice:
		if !r.Nil {
			s := reflect.MakeSlice(v.Type(), len(r.E), len(r.E))
			for i := range r.E {
				fill(d.Elem, s.Index(i), &r.E[i])
			}
			v.Set(s)
		}
	case KMap:
		if !r.Nil {
			m := reflect.MakeMapWithSize(v.Type(), len(r.K))
			kt, et := v.Type().Key(), v.Type().Elem()
			for i := range r.K {
				k := reflect.New(kt).Elem()
				fill(d.Key, k, &r.K[i])
				e := reflect.New(et).Elem()
				fill(d.Elem, e, r.elem(i))
				m.SetMapIndex(k, e)
			}
			v.Set(m)
		}
	case KStruct:
		for i := range d.Fields {
			f := &d.Fields[i]
			fv := v.Field(f.Idx)
			if !fv.CanSet() {
				continue
			}
			fill(&f.T, fv, r.elem(i))
		}
	case KNamed:
		fill(Named(d.Name).Under, v, r)
	}
}

// Float32Bits / Float64Bits read the exact bit pattern of a float value
// (reflect.Value.Float would quieten signalling NaNs of a float32).
func Float32Bits(v reflect.Value) uint32 {
	if !v.CanAddr() {
		t := reflect.New(v.Type()).Elem()
		t.Set(v)
		v = t
	}
	return *(*uint32)(unsafe.Pointer(v.Addr().UnsafePointer()))
}

func Float64Bits(v reflect.Value) uint64 {
	if !v.CanAddr() {
		t := reflect.New(v.Type()).Elem()
		t.Set(v)
		v = t
	}
	return *(*uint64)(unsafe.Pointer(v.Addr().UnsafePointer()))
}
